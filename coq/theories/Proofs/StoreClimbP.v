(** Climb lemmas: [run_up] / [run_down] of the specification, the counting
    argument that the fuel never runs out, and the model's [next_head] /
    [next_tail] loops computing the same ends. *)
From Coq Require Import NArith List Bool Lia ZifyBool ZifyN ZifyNat.
From stdpp Require Import gmap.
From GH Require Import Base.Prelude Model.Store Model.StoreSpec Proofs.StoreP.
Import ListNotations.
Open Scope N_scope.

Lemma wrap64_small n : n < two64 -> wrap64 n = n.
Proof. intros. unfold wrap64. apply N.mod_small; auto. Qed.
Lemma sub64_1 n : 1 <= n -> sub64 n 1 = n - 1.
Proof. intros. unfold sub64. destruct (N.leb_spec 1 n); lia. Qed.
Lemma sub64_0 : sub64 0 1 = two64 - 1.
Proof. reflexivity. Qed.

(** k consecutive members of a finite set: k is at most its size *)
Lemma count_run (S : gset N) n f :
  (forall k, n < k <= n + N.of_nat f -> k ∈ S) -> (f <= size S)%nat.
Proof.
  revert S n. induction f as [|f IH]; intros S n HS; [lia|].
  assert (Hin : n + 1 ∈ S) by (apply HS; lia).
  assert (Hsub : ({[n + 1]} : gset N) ⊆ S) by set_solver.
  pose proof (subseteq_size _ _ Hsub) as H1. rewrite size_singleton in H1.
  pose proof (size_difference S {[n + 1]} Hsub) as H2. rewrite size_singleton in H2.
  assert (f <= size (S ∖ {[(n + 1)%N]}))%nat; [|lia].
  apply (IH _ (n + 1)). intros k Hk. apply elem_of_difference. split; [apply HS; lia|].
  rewrite elem_of_singleton. lia.
Qed.

Section climb.
Variable U : N.
Hypothesis U_bound : U < two64 - 1.
Variable S : gset N.
Hypothesis S_inr : forall n, n ∈ S -> inr U n.

Lemma run_up_spec f : forall n, n <= U ->
  n <= run_up f S n /\ run_up f S n <= U /\ (forall k, n < k <= run_up f S n -> k ∈ S) /\
  (run_up f S n + 1 ∉ S \/ run_up f S n = n + N.of_nat f).
Proof.
  induction f as [|f IH]; intros n Hn; cbn [run_up].
  - split_and!; try lia; right; lia.
  - rewrite wrap64_small by lia. destruct (bool_decide_reflect (n + 1 ∈ S)) as [Hin|Hin].
    + pose proof (S_inr _ Hin) as [_ Hle]. destruct (IH (n + 1) Hle) as (H1 & H2 & H3 & H4).
      split_and!; try lia.
      * intros k Hk. destruct (N.eq_dec k (n + 1)) as [->|]; auto. apply H3; lia.
      * destruct H4; [left; auto|right; lia].
    + split_and!; try lia. left; auto.
Qed.

Lemma run_down_spec f : forall n, inr U n ->
  inr U (run_down f S n) /\ run_down f S n <= n /\ (forall k, run_down f S n <= k < n -> k ∈ S) /\
  (run_down f S n - 1 ∉ S \/ run_down f S n + N.of_nat f = n).
Proof.
  induction f as [|f IH]; intros n Hn; cbn [run_down].
  - split_and!; auto; try lia; right; lia.
  - destruct Hn as [Hn1 Hn2]. rewrite sub64_1 by lia.
    destruct (bool_decide_reflect (n - 1 ∈ S)) as [Hin|Hin].
    + pose proof (S_inr _ Hin) as Hi. destruct (IH (n - 1) Hi) as (H1 & H2 & H3 & H4).
      split_and!; auto; try lia.
      * intros k Hk. destruct (N.eq_dec k (n - 1)) as [->|]; auto. apply H3; lia.
      * destruct H4; [left; auto|right]. destruct Hi. lia.
    + split_and!; try lia; [split; lia|]. left; auto.
Qed.

Lemma top_unique n a b : n <= a -> n <= b ->
  (forall k, n < k <= a -> k ∈ S) -> (forall k, n < k <= b -> k ∈ S) ->
  a + 1 ∉ S -> b + 1 ∉ S -> a = b.
Proof.
  intros Ha Hb Sa Sb Na Nb.
  destruct (N.lt_trichotomy a b) as [Hlt|[?|Hlt]]; auto; exfalso.
  - apply Na, Sb. lia.
  - apply Nb, Sa. lia.
Qed.

Lemma bottom_unique n a b : 1 <= a <= n -> 1 <= b <= n ->
  (forall k, a <= k < n -> k ∈ S) -> (forall k, b <= k < n -> k ∈ S) ->
  a - 1 ∉ S -> b - 1 ∉ S -> a = b.
Proof.
  intros Ha Hb Sa Sb Na Nb.
  destruct (N.lt_trichotomy a b) as [Hlt|[?|Hlt]]; auto; exfalso.
  - apply Nb, Sa. lia.
  - apply Na, Sb. lia.
Qed.

Lemma run_up_top f n : n <= U -> (size S < f)%nat -> run_up f S n + 1 ∉ S.
Proof.
  intros Hn Hf. destruct (run_up_spec f n Hn) as (H1 & H2 & H3 & [H4|H4]); auto.
  exfalso. assert (f <= size S)%nat; [|lia].
  apply (count_run S n). intros k Hk. apply H3. lia.
Qed.

Lemma run_down_bottom f n : inr U n -> (size S < f)%nat -> run_down f S n - 1 ∉ S.
Proof.
  intros Hn Hf. destruct (run_down_spec f n Hn) as ([H0 _] & H1 & H3 & [H4|H4]); auto.
  exfalso. assert (f <= size S)%nat; [|lia].
  apply (count_run S (run_down f S n - 1)). intros k Hk. apply H3. lia.
Qed.

Lemma run_up_fuel f1 f2 n : n <= U -> (size S < f1)%nat -> (size S < f2)%nat ->
  run_up f1 S n = run_up f2 S n.
Proof.
  intros Hn H1 H2.
  destruct (run_up_spec f1 n Hn) as (A1 & _ & A3 & _).
  destruct (run_up_spec f2 n Hn) as (B1 & _ & B3 & _).
  apply (top_unique n); auto using run_up_top.
Qed.

Lemma run_down_fuel f1 f2 n : inr U n -> (size S < f1)%nat -> (size S < f2)%nat ->
  run_down f1 S n = run_down f2 S n.
Proof.
  intros Hn H1 H2.
  destruct (run_down_spec f1 n Hn) as ([A0 _] & A1 & A3 & _).
  destruct (run_down_spec f2 n Hn) as ([B0 _] & B1 & B3 & _).
  apply (bottom_unique n); auto using run_down_bottom.
Qed.

End climb.

(** ** the model's loops *)
Section chain.
Context {c : N -> hdr} {U : N} {CH : chain_hyps c U}.
Notation inr := (inr U).
Notation minv := (minv c U).
Notation pstored := (pstored c).

Lemma next_head_run s (S : gset N) : minv s -> pstored s -> (forall n, n ∈ S <-> stored s n) ->
  forall f H ch, inr H ->
  next_head f s (c H) ch = (c (run_up f S H), ch || (H <? run_up f S H)).
Proof.
  intros M P HS. pose proof (@ch_bound c U CH) as Ub.
  induction f as [|f IH]; intros H ch HH; cbn [next_head run_up].
  - rewrite N.ltb_irrefl, orb_false_r. reflexivity.
  - rewrite (@ch_height c U CH H HH). destruct HH as [H1 H2].
    rewrite wrap64_small by lia.
    destruct (bool_decide_reflect (H + 1 ∈ S)) as [Hin|Hin].
    + apply HS in Hin. rewrite (nb_stored s (H + 1)); auto using pstored_pchain.
      pose proof (stored_inr s _ M Hin) as Hi. rewrite IH; auto. f_equal.
      assert (SI : forall n, n ∈ S -> inr n) by (intros n Hn; apply HS in Hn; eapply stored_inr; eauto).
      destruct (run_up_spec U Ub S SI f (H + 1)) as (A & _); [destruct Hi; lia|].
      cbn [orb]. symmetry. apply orb_true_iff. right. apply N.ltb_lt. lia.
    + rewrite nb_not_stored; auto; [|rewrite <- HS; auto].
      rewrite N.ltb_irrefl, orb_false_r. reflexivity.
Qed.

Lemma next_tail_run s (S : gset N) : minv s -> pstored s -> (forall n, n ∈ S <-> stored s n) ->
  forall f T ch, inr T ->
  next_tail f s (c T) ch = (c (run_down f S T), ch || (run_down f S T <? T)).
Proof.
  intros M P HS. pose proof (@ch_bound c U CH) as Ub.
  induction f as [|f IH]; intros T ch HT; cbn [next_tail run_down].
  - rewrite N.ltb_irrefl, orb_false_r. reflexivity.
  - rewrite (@ch_height c U CH T HT). destruct HT as [H1 H2].
    rewrite sub64_1 by lia.
    destruct (bool_decide_reflect (T - 1 ∈ S)) as [Hin|Hin].
    + apply HS in Hin. rewrite (nb_stored s (T - 1)); auto using pstored_pchain.
      pose proof (stored_inr s _ M Hin) as Hi. rewrite IH; auto. f_equal.
      assert (SI : forall n, n ∈ S -> inr n) by (intros n Hn; apply HS in Hn; eapply stored_inr; eauto).
      destruct (run_down_spec U Ub S SI f (T - 1) Hi) as (_ & A & _).
      cbn [orb]. symmetry. apply orb_true_iff. right. apply N.ltb_lt. lia.
    + rewrite nb_not_stored; auto; [|rewrite <- HS; auto].
      rewrite N.ltb_irrefl, orb_false_r. reflexivity.
Qed.

(** the fuel of the model exceeds the number of stored heights *)
Lemma fuel_of_enough s (S : gset N) : (forall n, n ∈ S <-> stored s n) -> (size S < fuel_of s)%nat.
Proof.
  intros HS. unfold fuel_of.
  assert (Hsub : S ⊆ dom (pend_h s) ∪ dom (d_idx s)).
  { intros n Hn. apply HS in Hn. rewrite elem_of_union, !elem_of_dom. exact Hn. }
  pose proof (subseteq_size _ _ Hsub) as H1.
  rewrite size_union_alt in H1.
  assert (size (dom (d_idx s) ∖ dom (pend_h s)) <= size (dom (d_idx s) : gset N))%nat
    by (apply subseteq_size; set_solver).
  rewrite !size_dom in *. lia.
Qed.

End chain.
