(** C17, last clause (part 4): what is persisted of the pointers, the steps of the flush
    goroutine inside the race, and the invariant of all interleavings. *)
From Coq Require Import NArith List Bool Lia ZifyBool ZifyN ZifyNat.
From stdpp Require Import gmap.
From GH Require Import Base.Prelude Model.Store Model.StoreSpec Model.StoreConc Model.StoreDelConc.
From GH Require Import Proofs.StoreP Proofs.StoreClimbP Proofs.StoreInvP Proofs.StoreAppendP
  Proofs.StoreDeleteP Proofs.StoreDeleteRangeP Proofs.StoreRestartP Proofs.StoreConcP
  Proofs.StoreDelConcP Proofs.StoreDelConc2P Proofs.StoreDelConc3P.
Import ListNotations.
Open Scope N_scope.

(** the pointer part of a flush commit, spelled out *)
Definition cshape2 (l : list hdr) (hd tl : hdr) (ops : wop) : Prop :=
  ops = putH_ops l ++ [WPutHead (h_id hd); WPutTail (h_id tl)] ++ putI_ops l.

Lemma cshape2_cshape l hd tl ops : cshape2 l hd tl ops -> cshape l ops.
Proof. intros ->. exists [WPutHead (h_id hd); WPutTail (h_id tl)]. split; auto. repeat constructor. Qed.

Lemma commit_ops_cshape2 s hd tl : headp s = Some hd -> tailp s = Some tl -> cshape2 (pend_list s) hd tl (commit_ops s).
Proof. intros Eh Et. unfold commit_ops, cshape2. rewrite Eh, Et. reflexivity. Qed.

Lemma write_cshape2_ptrs s l hd tl ops : cshape2 l hd tl ops ->
  d_head (write s ops) = Some (h_id hd) /\ d_tail (write s ops) = Some (h_id tl).
Proof.
  intros ->. destruct (write_disk s (putH_ops l ++ [WPutHead (h_id hd); WPutTail (h_id tl)] ++ putI_ops l)) as (_ & _ & -> & ->).
  rewrite !fold_left_app.
  set (s1 := fold_left apply1 (putH_ops l) s).
  destruct (fold_putI l (fold_left apply1 [WPutHead (h_id hd); WPutTail (h_id tl)] s1)) as (_ & _ & -> & ->).
  cbn. auto.
Qed.

Lemma fold_nonptr_dptrs w : Forall (fun o => ~ ptr_op o) w -> forall s,
  d_head (fold_left apply1 w s) = d_head s /\ d_tail (fold_left apply1 w s) = d_tail s.
Proof.
  induction 1 as [|o w Ho Hw IH]; intros s; [auto|]. cbn [fold_left].
  destruct (IH (apply1 s o)) as [-> ->]. destruct o; cbn in Ho; try tauto; auto.
Qed.

Lemma ins_all_key {A V} (k : A -> N) (v : A -> V) l (m : gmap N V) y : In y l -> is_Some (ins_all k v l m !! k y).
Proof.
  intros Hy. destruct (ins_all k v l m !! k y) eqn:E; [eauto|].
  apply ins_none in E. destruct E as [_ E]. exfalso. apply (E y Hy). reflexivity.
Qed.

Lemma pend_add_nonempty s h0 hs : pend_h (pend_add s (h0 :: hs)) <> ∅.
Proof.
  intros E. destruct (pend_add_fields s (h0 :: hs)) as (E1 & _). rewrite E1 in E.
  destruct (ins_all_key h_height (fun h => h) (h0 :: hs) (pend_h s) h0 (or_introl eq_refl)) as [h Hh].
  rewrite E, lookup_empty in Hh. discriminate.
Qed.

Definition after_putT (k : dl) : bool := match k with KLoadH2 _ | KPutH _ | KDone => true | _ => false end.
Definition is_reset (f : fl) : bool := match f with FReset _ => true | _ => false end.
Definition busy (f : fl) : bool :=
  match f with FInit _ | FAdv _ | FRec _ | FLoad _ | FCommit _ _ => true | _ => false end.

(** the ghost flush configuration has the same program counter *)
Definition fmatch (f fv : fl) : Prop :=
  match f, fv with
  | FCommit nl _, FCommit nl' _ => nl = nl'
  | FCommit _ _, _ | _, FCommit _ _ => False
  | _, _ => f = fv
  end.

Section race4.
Context {c : N -> hdr} {U : N} {CH : chain_hyps c U}.
Notation inr := (inr U).
Notation minv := (minv c U).
Notation pstored := (pstored c).
Notation pinv := (pinv c U).
Notation inv := (inv c U).
Variables (T to : N).
Hypothesis HT : inr T.
Hypothesis Hto : inr to.
Hypothesis Hlt : T < to.
Notation low := (low T to).
Notation sim := (sim (c := c) T to).
Notation hi := (hi (c := c) (U := U) T to).
Notation DInv := (DInv (c := c) (U := U) T to).

Let Ub := @ch_bound c U CH.
Let c_height := @ch_height c U CH.
Let c_inj := @ch_inj c U CH.

(** ** what is persisted of the two pointers *)
Record PI (x : st) (f : fl) (k : dl) : Prop := {
  pi_ops : forall nl ops, f = FCommit nl ops ->
    in_dsec k = false /\ exists hd tl, headp x = Some hd /\ tailp x = Some tl /\ cshape2 (pend_list x) hd tl ops;
  pi_tail : d_tail x = Some (h_id (c (if after_putT k then to else T)));
  pi_head : pend_h x = ∅ \/ is_reset f = true ->
    d_head x = option_map h_id (headp x) /\ forall hd, k = KPutH hd -> headp x = Some hd;
  pi_busy : busy f = true -> pend_h x <> ∅
}.

Lemma DInv_tail ctxf x k : DInv ctxf x k -> in_dsec k = false ->
  tailp x = Some (c (if after_putT k then to else T)).
Proof. destruct k; cbn; try tauto; try discriminate; intuition. Qed.

Lemma DInv_tail_cases ctxf x k : DInv ctxf x k -> tailp x = Some (c T) \/ (tailp x = Some (c to) /\ d_idx x !! (to - 1) = None).
Proof.
  pose proof HT as [HT1 HT2]. pose proof Hto as [Hto1 Hto2].
  assert (K : gone (c := c) T to x to to -> d_idx x !! (to - 1) = None).
  { intros (G1 & _). apply G1; [unfold StoreDelConcP.low|]; lia. }
  destruct k; cbn; try tauto; intuition.
Qed.

Lemma PI_same x x' f k k' : d_tail x' = d_tail x -> d_head x' = d_head x -> pend_h x' = pend_h x ->
  headp x' = headp x -> tailp x' = tailp x -> after_putT k' = after_putT k -> in_dsec k' = in_dsec k ->
  (forall hd, k' = KPutH hd -> k = KPutH hd) -> PI x f k -> PI x' f k'.
Proof.
  intros E1 E2 E3 E4 E5 E6 E7 E8 [A B C D].
  assert (El : pend_list x' = pend_list x) by (unfold pend_list; rewrite E3; reflexivity).
  split; rewrite ?E1, ?E2, ?E3, ?E4, ?E5, ?E6, ?E7, ?El; auto.
  intros Hp. destruct (C Hp) as [C1 C2]. split; auto.
Qed.

Lemma write_frame_all x w : Forall (fun o => ~ ptr_op o) w ->
  d_tail (write x w) = d_tail x /\ d_head (write x w) = d_head x /\ pend_h (write x w) = pend_h x /\
  headp (write x w) = headp x /\ tailp (write x w) = tailp x.
Proof.
  intros Hw. destruct (write_disk x w) as (_ & _ & -> & ->). destruct (fold_nonptr_dptrs w Hw x) as [-> ->].
  destruct (write_frame x w) as (-> & _ & -> & -> & _). auto.
Qed.

Lemma low_del_nonptr w : Forall (low_del (c := c) T to) w -> Forall (fun o => ~ ptr_op o) w.
Proof. apply Forall_impl. intros o. destruct o; cbn; tauto. Qed.

Ltac pi_same := match goal with P : PI ?x ?f ?k |- PI _ _ _ => apply (PI_same x _ f k); auto end.

(** the deleter's steps *)
Lemma dstep_PI ctxf x f k v x' f' k' : sim x v -> hi v -> DInv ctxf x k -> is_nil f = false -> PI x f k ->
  dstep T to ctxf x f k = Some (x', f', k') -> PI x' f k'.
Proof.
  intros S Hv D Hnil P St. pose proof HT as [HT1 HT2]. pose proof Hto as [Hto1 Hto2].
  destruct (hi_hd _ _ _ Hv) as (H & Hd & Hh & Hle & HH & Stt).
  assert (Hdx : headp x = Some (c H)) by (rewrite (sm_hd _ _ _ _ S); auto).
  assert (W1 : forall o, ~ ptr_op o -> PI x f k ->
               forall k1, after_putT k1 = after_putT k -> in_dsec k1 = in_dsec k -> (forall hd, k1 = KPutH hd -> k = KPutH hd) ->
               PI (write x [o]) f k1).
  { intros o Ho Px k1 A1 A2 A3. destruct (write_frame_all x [o]) as (B1 & B2 & B3 & B4 & B5); [repeat constructor; auto|].
    pi_same. }
  destruct k; cbn [dstep] in St; cbn [StoreDelConc3P.DInv] in D; try contradiction.
  - rewrite Hnil in St. injection St as <- <- <-. pi_same. discriminate.
  - rewrite Hdx in St. injection St as <- <- <-. pi_same. discriminate.
  - destruct D as (Et & G & H1 & -> & HH1 & Hle1). rewrite Et in St. cbv zeta in St.
    rewrite !c_height in St by auto. destruct HH1 as [HH11 HH12]. rewrite wrap64_small in St by lia.
    replace (to <=? T) with false in St by lia. replace (H1 <? T) with false in St by lia.
    replace (T =? T) with true in St by lia. replace (to =? H1 + 1) with false in St by lia.
    replace (H1 + 1 <? to) with false in St by lia. cbn in St. injection St as <- <- <-.
    pi_same. discriminate.
  - injection St as <- <- <-. pi_same. discriminate.
  - destruct (_ !! cur); [injection St as <- <- <-; pi_same; discriminate|].
    destruct (pend_h x !! cur); injection St as <- <- <-; pi_same; try discriminate;
      unfold k_next; destruct (_ <? _); auto; discriminate.
  - injection St as <- <- <-. pi_same. discriminate.
  - destruct ctxf; injection St as <- <- <-; pi_same; discriminate.
  - destruct ctxf; injection St as <- <- <-; [pi_same; discriminate|].
    destruct (write_frame_all x [WDelH id; WDelI cur]) as (B1 & B2 & B3 & B4 & B5);
      [apply Forall_cons; [cbn; tauto|apply Forall_cons; [cbn; tauto|constructor]]|].
    pi_same. discriminate.
  - destruct D as (Et & Hc & Sn & Pg). rewrite (sim_pend_del T to Hlt x v cur S Hv Hc) in St.
    injection St as <- <- <-. pi_same; unfold k_next; destruct (_ <? _); auto; discriminate.
  - destruct D as (Et & Pg). unfold prog in Pg.
    assert (Hk : T + N.of_nat (N.to_nat (to - T)) <= to) by lia.
    pose proof (dels'_low (c := c) T to Hlt _ Hk) as Hlow.
    destruct wb as [|w0 wb]; injection St as <- <- <-; [pi_same; discriminate|].
    destruct ctxf; destruct Pg as [G Ew]; [|discriminate].
    rewrite app_nil_r in Ew. fold (dels (c := c) T to) in Hlow. rewrite <- Ew in Hlow.
    destruct (write_frame_all x (w0 :: wb) (low_del_nonptr _ Hlow)) as (B1 & B2 & B3 & B4 & B5).
    pi_same. discriminate.
  - destruct (nb x to); injection St as <- <- <-; pi_same; discriminate.
  - (* tailHeader.Store: not while the flush goroutine holds ptrMu *)
    destruct D as (Et & G & ->). destruct P as [A B C D].
    assert (Hf : forall nl ops, f <> FCommit nl ops) by (intros nl ops ->; discriminate).
    assert (Ex : x' = set_tailp x (Some (c to)) /\ f' = f /\ k' = KPutT (c to)).
    { destruct f; try discriminate; injection St as <- <- <-; auto. }
    destruct Ex as (-> & -> & ->). split; auto.
    + intros nl ops E. destruct (Hf _ _ E).
    + intros Hp. destruct (C Hp) as [C1 C2]. split; auto. discriminate.
  - (* Put(tail key) *)
    destruct D as (Et & G & ->). destruct P as [A B C D]. injection St as <- <- <-.
    destruct (write_frame x [WPutTail (h_id (c to))]) as (F1 & _ & F3 & F4 & _).
    destruct (write_disk x [WPutTail (h_id (c to))]) as (_ & _ & F5 & F6). cbn in F5, F6.
    assert (El : pend_list (write x [WPutTail (h_id (c to))]) = pend_list x) by (unfold pend_list; rewrite F1; reflexivity).
    split; rewrite ?F1, ?F3, ?F4, ?F5, ?F6, ?El; auto.
    intros Hp. destruct (C Hp) as [C1 C2]. split; auto. discriminate.
  - (* Head() *)
    destruct D as (Et & G & ->). rewrite Hdx in St. rewrite c_height in St by auto.
    replace (H <? to) with false in St by lia. injection St as <- <- <-.
    destruct P as [A B C D]. split; auto. intros Hp. destruct (C Hp) as [C1 C2]. split; auto.
    intros hd [= <-]. exact Hdx.
  - (* Put(head key) *)
    destruct D as (Et & G & H1 & -> & HH1). destruct P as [A B C D]. injection St as <- <- <-.
    destruct (write_frame x [WPutHead (h_id (c H1))]) as (F1 & _ & F3 & F4 & _).
    destruct (write_disk x [WPutHead (h_id (c H1))]) as (_ & _ & F5 & F6). cbn in F5, F6.
    assert (El : pend_list (write x [WPutHead (h_id (c H1))]) = pend_list x) by (unfold pend_list; rewrite F1; reflexivity).
    split; rewrite ?F1, ?F3, ?F4, ?F5, ?F6, ?El; auto.
    + intros nl ops E. destruct (A nl ops E) as [A1 _]. discriminate.
    + intros Hp. destruct (C Hp) as [C1 C2]. rewrite (C2 _ eq_refl). split; auto. discriminate.
  - discriminate.
Qed.

(** ** the flush goroutine inside the race *)
Definition GSB (spE : spec) := GS c U to to (T - 1) (fun sp => sp) (fun n => to < n) spE.

Lemma GSB_hyps : to <= to /\ (forall n, hiN U to n -> to < n) /\
  (forall (v0 : st) sp (H0 : N) ns, inv v0 sp -> sHT sp = Some (to, H0) -> to <= H0 -> Forall (hiN U to) ns ->
     spec_append sp ns = spec_append sp ns).
Proof. split; [lia|]. split; [intros n [_ Hn]; exact Hn|reflexivity]. Qed.

Lemma GSB_step spE v q f v' q' f' : GSB spE v q f -> fstep v q f = Some (v', q', f') -> GSB spE v' q' f'.
Proof. destruct GSB_hyps as (A & B & C). apply (GS_step to to (T - 1) (fun sp => sp) (fun n => to < n) spE A B C). Qed.

Lemma GSB_hi spE v q f : GSB spE v q f -> hi v.
Proof.
  intros G. destruct GSB_hyps as (A & B & C).
  pose proof (GS_solo to to (T - 1) (fun sp => sp) (fun n => to < n) spE A B C v q f G) as [M Tl Hd Lo Be Pe].
  split; auto.
Qed.

Lemma GS_commit_ops Tl Lo g PP spE v q nl ops : GS c U to Tl Lo g PP spE v q (FCommit nl ops) -> ops = commit_ops v.
Proof.
  intros (v0 & sp & H0 & qn & ns & nl' & _ & _ & _ & _ & _ & _ & _ & _ & _ & _ & -> & GF).
  cbn in GF. destruct GF as (_ & _ & _ & ->). reflexivity.
Qed.

Lemma stored_set v : exists S : gset N, forall n, n ∈ S <-> stored v n.
Proof.
  exists (dom (pend_h v) ∪ dom (d_idx v)). intros n. unfold stored. rewrite elem_of_union, !elem_of_dom. tauto.
Qed.

Lemma fstep_B spE ctxf x q f k v fv x' q' f' :
  GSB spE v q fv -> fmatch f fv -> sim x v -> DInv ctxf x k -> PI x f k -> is_nil f = false ->
  is_load f && in_dsec k = false ->
  fstep x q f = Some (x', q', f') ->
  exists v' fv', fstep v q fv = Some (v', q', fv') /\ fmatch f' fv' /\ sim x' v' /\ DInv ctxf x' k /\ PI x' f' k /\
                 is_nil f' = false.
Proof.
  intros G FM S D P Hnil Hg St. pose proof (GSB_hi spE v q fv G) as Hv.
  pose proof HT as [HT1 HT2]. pose proof Hto as [Hto1 Hto2].
  destruct (hi_hd _ _ _ Hv) as (H & Hd & Hh & Hle & HH & Stt).
  assert (Hdx : headp x = Some (c H)) by (rewrite (sm_hd _ _ _ _ S); auto).
  pose proof (hi_pstored T to v Hv) as PSv. pose proof (hi_m _ _ _ Hv) as Mv.
  assert (Etx : exists tl, tailp x = Some tl) by (destruct (DInv_tail_cases ctxf x k D) as [E|[E _]]; eauto).
  assert (Rx : recede_tail x = x).
  { apply (recede_tail_x T to HT Hto Hlt x v S Hv). intros E.
    destruct (DInv_tail_cases ctxf x k D) as [E'|[_ E']]; auto.
    rewrite E' in E. injection E as E. apply (f_equal h_id) in E. apply c_inj in E; auto. lia. }
  assert (Rv : recede_tail v = v).
  { apply (recede_tail_stop v to); auto; [apply Hv|apply (hi_low _ _ _ Hv); lia]. }
  assert (Eiv : forall hs, ensure_init v hs = v).
  { intros hs. apply ensure_init_set; rewrite ?Hd, ?(hi_tl _ _ _ Hv); discriminate. }
  assert (Eix : forall hs, ensure_init x hs = x) by (intros hs; apply (sim_ensure_init T to x v hs S Hv)).
  destruct P as [PA PB PC PD].
  assert (Vac : forall (o : option (list hdr)) x1 f1, busy f = true -> pend_h x1 = pend_h x -> is_reset f1 = false ->
                pend_h x1 = ∅ \/ is_reset f1 = true ->
                d_head x1 = option_map h_id (headp x1) /\ forall hd, k = KPutH hd -> headp x1 = Some hd).
  { intros _ x1 f1 Hb E1 E2 [Hp|Hp]; [rewrite E1 in Hp; destruct (PD Hb Hp)|congruence]. }
  destruct f; cbn [fstep] in St; destruct fv; cbn in FM; try contradiction; try discriminate FM; cbn [fstep].
  - (* FIdle *)
    destruct q as [|hs r]; [discriminate|]. destruct hs as [|h0 hs].
    + injection St as <- <- <-. exists v, FIdle.
      refine (conj eq_refl (conj eq_refl (conj S (conj D (conj _ eq_refl))))). split; auto.
    + injection St as <- <- <-. exists (pend_add v (h0 :: hs)), (FInit (Some (h0 :: hs))).
      destruct (pend_add_fields x (h0 :: hs)) as (_ & _ & E3 & E4 & E5 & E6 & E7 & E8 & E9).
      refine (conj eq_refl (conj eq_refl (conj _ (conj _ (conj _ eq_refl))))).
      * apply sim_pend_add; auto.
      * apply (DInv_ext T to ctxf x); auto; intros n _; rewrite E3, E4; auto.
      * split.
        -- intros nl ops [=].
        -- rewrite E6. exact PB.
        -- intros [Hp|Hp]; [destruct (pend_add_nonempty x h0 hs Hp)|discriminate].
        -- intros _. apply pend_add_nonempty.
  - (* FInit *)
    injection FM as <-. injection St as <- <- <-. rewrite Eix, Eiv. exists v, (FAdv o).
    refine (conj eq_refl (conj eq_refl (conj S (conj D (conj _ Hnil))))).
    split; auto; try (intros nl ops [=]); try (apply (Vac o); auto).
  - (* FAdv *)
    injection FM as <-. injection St as <- <- <-. exists (advance_head v), (FRec o).
    destruct (stored_set v) as [Sv HSv].
    destruct (advance_head_frame x) as ((F1 & F2 & F3 & F4) & (F5 & F6) & F7).
    refine (conj eq_refl (conj eq_refl (conj _ (conj _ (conj _ Hnil))))).
    + apply (sim_advance_head T to HT Hto Hlt x v Sv); auto.
    + apply (DInv_ext T to ctxf x); auto; intros n _; rewrite F3, F4; auto.
    + split.
      * intros nl ops [=].
      * rewrite F6. exact PB.
      * apply (Vac o); auto.
      * rewrite F1. auto.
  - (* FRec *)
    injection FM as <-. rewrite Rx in St. rewrite Rv, <- (sm_ph _ _ _ _ S), <- (sm_b _ _ _ _ S).
    assert (Ho : is_some o = true) by (destruct o; [reflexivity|discriminate Hnil]).
    rewrite Ho in *. cbn [negb] in *.
    destruct ((N.of_nat (size (pend_h x)) <? batch x) && true).
    { injection St as <- <- <-. exists v, FIdle.
      refine (conj eq_refl (conj eq_refl (conj S (conj D (conj _ eq_refl))))).
      split; auto; try (intros nl ops [=]); try (apply (Vac o); auto); try discriminate. }
    destruct (size (pend_h x) =? 0)%nat.
    { injection St as <- <- <-. exists v, FIdle.
      refine (conj eq_refl (conj eq_refl (conj S (conj D (conj _ eq_refl))))).
      split; auto; try (intros nl ops [=]); try (apply (Vac o); auto); try discriminate. }
    injection St as <- <- <-. exists v, (FLoad false).
    refine (conj eq_refl (conj eq_refl (conj S (conj D (conj _ eq_refl))))).
    split; auto; try (intros nl ops [=]); try (apply (Vac o); auto).
  - (* FLoad: takes ptrMu *)
    injection FM as <-. cbn [is_load andb] in Hg. injection St as <- <- <-.
    exists v, (FCommit nl (commit_ops v)).
    refine (conj eq_refl (conj eq_refl (conj S (conj D (conj _ Hnil))))).
    split; auto.
    + intros nl' ops' [= <- <-]. split; auto. destruct Etx as [tl Etl]. exists (c H), tl. split_and!; auto.
      apply commit_ops_cshape2; auto.
  - (* FCommit: releases ptrMu *)
    subst nl0.
    pose proof (GS_commit_ops _ _ _ _ _ _ _ _ _ G) as ->. injection St as <- <- <-.
    destruct (PA nl ops eq_refl) as (Hk & hd & tl & Ehd & Etl & Cs).
    assert (El : pend_list x = pend_list v) by (unfold pend_list; rewrite (sm_ph _ _ _ _ S); reflexivity).
    rewrite El in Cs. pose proof (cshape2_cshape _ _ _ _ Cs) as Cs1.
    exists (write v (commit_ops v)), (FReset nl).
    destruct (write_frame x ops) as (W1 & W2 & W3 & W4 & W5 & W6).
    destruct (write_cshape2_ptrs x _ _ _ _ Cs) as [W7 W8].
    refine (conj eq_refl (conj eq_refl (conj _ (conj _ (conj _ Hnil))))).
    + apply (sim_write_commit T to Hlt); auto.
    + apply (DInv_ext T to ctxf x); auto.
      apply (write_cshape_low T to HT Hto Hlt x _ ops Cs1). apply (hi_pend_list T to v Hv).
    + split.
      * intros nl' ops' [=].
      * rewrite W8. pose proof (DInv_tail ctxf x k D Hk) as Et. rewrite Etl in Et. injection Et as ->. reflexivity.
      * intros _. rewrite W7, W3, Ehd. split; auto. intros hd' ->. discriminate Hk.
      * discriminate.
  - (* FReset *)
    injection FM as <-. injection St as <- <- <-. exists (set_pend v ∅ ∅), FIdle.
    refine (conj eq_refl (conj eq_refl (conj _ (conj _ (conj _ eq_refl))))).
    + apply sim_reset; auto.
    + apply (DInv_ext T to ctxf x); auto.
    + split.
      * intros nl' ops' [=].
      * exact PB.
      * intros _. apply PC. right. reflexivity.
      * discriminate.
Qed.

End race4.
