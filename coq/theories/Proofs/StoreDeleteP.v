(** Step lemmas for DeleteRange, part 1: handlers, deleteSingle, deleteSequential. *)
From Coq Require Import NArith List Bool Lia ZifyBool ZifyN ZifyNat.
From stdpp Require Import gmap.
From GH Require Import Base.Prelude Model.Store Model.StoreSpec Oracle.StoreCase.
From GH Require Import Proofs.StoreP Proofs.StoreClimbP Proofs.StoreInvP Proofs.StoreAppendP.
Import ListNotations.
Open Scope N_scope.

Definition to_hobs (h : hcall) : hobs := HObs (hc_handler h) (hc_height h) (hc_readable h).

Lemma log_eqb_to_hobs l : log_eqb l (map to_hobs l) = true.
Proof.
  induction l as [|[k n r] l IH]; cbn; auto. rewrite IH. unfold hobs_eqb. cbn.
  rewrite Nat.eqb_refl, N.eqb_refl, eqb_reflx. reflexivity.
Qed.

(** ** handler scripts *)
Definition hfails (fails : list (nat * N * bool)) (k : nat) (n : N) : bool :=
  existsb (fun f => Nat.eqb (fst (fst f)) k && (snd (fst f) =? n)) fails.
(** some handler below [nh] fails at height [n] (the predicate inside [fail_height]) *)
Definition fails_at (nh : nat) (fails : list (nat * N * bool)) (n : N) : bool :=
  existsb (fun f => Nat.ltb (fst (fst f)) nh && (snd (fst f) =? n)) fails.

Lemma script_of_ok fails k n : hfails fails k n = false -> script_of fails k n = HOk.
Proof.
  unfold hfails, script_of. induction fails as [|f fs IH]; cbn; auto.
  destruct (_ && _); cbn; [discriminate|auto].
Qed.
Lemma script_of_fail fails k n : hfails fails k n = true -> script_of fails k n <> HOk.
Proof.
  unfold hfails, script_of. induction fails as [|f fs IH]; cbn; [discriminate|].
  destruct (_ && _); cbn; auto. destruct (snd f); discriminate.
Qed.

Section ffh.
Variables (fails : list (nat * N * bool)) (n : N) (nhv : nat).
Fixpoint ffh (k cnt : nat) : nat :=
  match cnt with
  | O => nhv
  | S c => if hfails fails k n then k else ffh (S k) c
  end.
End ffh.

Lemma ffh_go nh fails n : forall cnt k,
  (fix go (k cnt : nat) {struct cnt} : nat :=
     match cnt with
     | O => nh
     | S c => if existsb (fun f : nat * N * bool => Nat.eqb (fst (fst f)) k && (snd (fst f) =? n)) fails
              then k else go (S k) c
     end) k cnt = ffh fails n nh k cnt.
Proof.
  induction cnt as [|c IH]; intros k; [reflexivity|].
  cbn [ffh]. unfold hfails at 1. destruct (existsb _ fails); auto.
Qed.

Lemma ffh_first nh fails n : first_failing_handler nh fails n = ffh fails n nh 0 nh.
Proof. unfold first_failing_handler. apply ffh_go. Qed.

(** [ffh] from [k] over [cnt] positions with [nhv = k + cnt] *)
Lemma ffh_spec fails n : forall cnt k,
  let j := ffh fails n (k + cnt) k cnt in
  (k <= j <= k + cnt)%nat /\
  (forall i, (k <= i < j)%nat -> hfails fails i n = false) /\
  ((j < k + cnt)%nat -> hfails fails j n = true).
Proof.
  induction cnt as [|c IH]; intros k; cbn [ffh].
  - cbn. split_and!; try lia; intros i Hi; lia.
  - destruct (hfails fails k n) eqn:E.
    + cbn. split_and!; auto; try lia; intros i Hi; lia.
    + replace (k + S c)%nat with (S k + c)%nat by lia.
      destruct (IH (S k)) as (A & B & C). cbn zeta.
      split_and!; auto; try lia.
      intros i Hi. destruct (Nat.eq_dec i k) as [->|]; auto. apply B. lia.
Qed.

Lemma fails_at_ffh nh fails n : fails_at nh fails n = (ffh fails n nh 0 nh <? nh)%nat.
Proof.
  destruct (ffh_spec fails n nh 0) as (A & B & C). cbn [Nat.add] in *.
  destruct (Nat.ltb_spec (ffh fails n nh 0 nh) nh) as [Hlt|Hge].
  - specialize (C Hlt). unfold fails_at, hfails in *.
    apply existsb_exists in C. destruct C as (f & Hf & Hp).
    apply existsb_exists. exists f. split; auto.
    apply andb_true_iff in Hp. destruct Hp as [Hp1 Hp2]. apply Nat.eqb_eq in Hp1.
    rewrite Hp2, andb_true_r. apply Nat.ltb_lt. lia.
  - destruct (fails_at nh fails n) eqn:E; auto. exfalso.
    unfold fails_at in E. apply existsb_exists in E. destruct E as (f & Hf & Hp).
    apply andb_true_iff in Hp. destruct Hp as [Hp1 Hp2]. apply Nat.ltb_lt in Hp1.
    assert (hfails fails (fst (fst f)) n = true).
    { unfold hfails. apply existsb_exists. exists f. split; auto. rewrite Nat.eqb_refl, Hp2. auto. }
    rewrite B in H; [discriminate|lia].
Qed.

Lemma run_handlers_spec s fails n : forall cnt k log,
  let r := match get_by_height s n with Found h => h_height h =? n | _ => false end in
  let j := ffh fails n (k + cnt) k cnt in
  run_handlers s (script_of fails) k cnt n log =
  if (j <? k + cnt)%nat then (log ++ map (fun i => HCall i n r) (seq k (S (j - k))), false)
  else (log ++ map (fun i => HCall i n r) (seq k cnt), true).
Proof.
  induction cnt as [|c IH]; intros k log r j.
  - subst j. cbn [ffh run_handlers seq map]. rewrite Nat.add_0_r, Nat.ltb_irrefl, app_nil_r. reflexivity.
  - cbn [run_handlers]. fold r. unfold j. cbn [ffh].
    destruct (hfails fails k n) eqn:E.
    + pose proof (script_of_fail _ _ _ E) as Hs.
      destruct (Nat.ltb_spec k (k + S c)) as [_|]; [|lia].
      rewrite Nat.sub_diag. cbn [seq map].
      destruct (script_of fails k n); [contradiction|reflexivity|reflexivity].
    + rewrite (script_of_ok _ _ _ E). rewrite IH. fold r.
      replace (k + S c)%nat with (S k + c)%nat by lia.
      destruct (ffh_spec fails n c (S k)) as (A & _). cbn zeta in A.
      set (j' := ffh fails n (S k + c) (S k) c) in *.
      destruct (Nat.ltb_spec j' (S k + c)); rewrite <- app_assoc; cbn [app]; do 2 f_equal; try reflexivity.
      replace (S (j' - k)) with (S (S (j' - S k))) by lia. reflexivity.
Qed.

(** ** the pure mirror of deleteSequential over the set of stored heights *)
Definition all_calls (nh : nat) (n : N) : list hcall := map (fun i => HCall i n true) (seq 0 nh).

Fixpoint dseq (S : gset N) (nh : nat) (fails : list (nat * N * bool)) (n : N) (cnt : nat)
  : list hcall * N * bool :=
  match cnt with
  | O => ([], n, true)
  | Datatypes.S c' =>
    if bool_decide (n ∈ S) then
      if fails_at nh fails n
      then (all_calls (Datatypes.S (first_failing_handler nh fails n)) n, n, false)
      else let '(l, a, ok) := dseq S nh fails (n + 1) c' in (all_calls nh n ++ l, a, ok)
    else dseq S nh fails (n + 1) c'
  end.

Definition fh (S : gset N) (nh : nat) (fails : list (nat * N * bool)) (n : N) (cnt : nat) : option N :=
  find (fun m => bool_decide (m ∈ S) && fails_at nh fails m) (seqN n cnt).

Lemma fh_some S nh fails n cnt k : fh S nh fails n cnt = Some k ->
  k ∈ S /\ n <= k < n + N.of_nat cnt /\ fails_at nh fails k = true.
Proof.
  unfold fh. intros H. apply find_some in H. destruct H as [Hin Hp].
  apply (proj1 (in_seqN _ _ _)) in Hin. apply andb_true_iff in Hp. destruct Hp as [Hp1 Hp2].
  apply bool_decide_eq_true in Hp1. auto.
Qed.

Lemma dseq_spec S nh fails : forall cnt n,
  let stop := fh S nh fails n cnt in
  let upto := match stop with Some k => k | None => n + N.of_nat cnt end in
  dseq S nh fails n cnt =
  (flat_map (fun m => if bool_decide (m ∈ S) then all_calls nh m else []) (seqN n (N.to_nat (upto - n)))
   ++ match stop with Some k => all_calls (Datatypes.S (first_failing_handler nh fails k)) k | None => [] end,
   upto, match stop with None => true | Some _ => false end).
Proof.
  induction cnt as [|c IH]; intros n.
  - cbn. replace (N.to_nat (n + 0 - n)) with 0%nat by lia. cbn. do 2 f_equal. lia.
  - cbn zeta. unfold fh. cbn [seqN find dseq]. fold (fh S nh fails (n + 1) c).
    specialize (IH (n + 1)). cbn zeta in IH.
    destruct (bool_decide (n ∈ S)) eqn:EinS; cbn [andb].
    + destruct (fails_at nh fails n) eqn:Ef.
      * rewrite N.sub_diag. cbn. reflexivity.
      * rewrite IH. clear IH.
        destruct (fh S nh fails (n + 1) c) as [k|] eqn:Efh.
        -- apply fh_some in Efh. destruct Efh as (_ & Hk & _).
           replace (N.to_nat (k - n)) with (Datatypes.S (N.to_nat (k - (n + 1)))) by lia.
           cbn [seqN flat_map]. rewrite EinS, <- app_assoc. reflexivity.
        -- replace (N.to_nat (n + N.of_nat (Datatypes.S c) - n)) with
             (Datatypes.S (N.to_nat (n + 1 + N.of_nat c - (n + 1)))) by lia.
           cbn [seqN flat_map]. rewrite EinS, <- app_assoc. do 2 f_equal. lia.
    + rewrite IH. clear IH.
      destruct (fh S nh fails (n + 1) c) as [k|] eqn:Efh.
      * apply fh_some in Efh. destruct Efh as (_ & Hk & _).
        replace (N.to_nat (k - n)) with (Datatypes.S (N.to_nat (k - (n + 1)))) by lia.
        cbn [seqN flat_map]. rewrite EinS. reflexivity.
      * replace (N.to_nat (n + N.of_nat (Datatypes.S c) - n)) with
          (Datatypes.S (N.to_nat (n + 1 + N.of_nat c - (n + 1)))) by lia.
        cbn [seqN flat_map]. rewrite EinS. cbn [app]. do 2 f_equal. lia.
Qed.

Lemma map_flat_map {A B C} (g : B -> C) (f : A -> list B) l :
  map g (flat_map f l) = flat_map (fun x => map g (f x)) l.
Proof. induction l as [|x l IH]; cbn; auto. rewrite map_app, IH. reflexivity. Qed.

Lemma all_calls_hobs nh n : map to_hobs (all_calls nh n) = map (fun k => HObs k n true) (seq 0 nh).
Proof. unfold all_calls. rewrite map_map. reflexivity. Qed.

Lemma fail_height_fh S nh fails from to :
  fail_height S nh fails from to = fh S nh fails from (N.to_nat (to - from)).
Proof. reflexivity. Qed.

(** the log of the mirror is the log the oracle expects *)
Lemma dseq_expected_log S nh fails from to :
  let cnt := N.to_nat (to - from) in
  from < to ->
  map to_hobs (fst (fst (dseq S nh fails from cnt))) =
  expected_log S nh fails from to (fail_height S nh fails from to).
Proof.
  intros cnt Hlt. rewrite dseq_spec. cbn [fst].
  rewrite fail_height_fh. fold cnt. unfold expected_log.
  replace (from + N.of_nat cnt) with to by lia. fold cnt.
  rewrite map_app, map_flat_map. f_equal.
  - apply flat_map_ext. intros m. destruct (bool_decide (m ∈ S)); auto. apply all_calls_hobs.
  - destruct (fh S nh fails from cnt); auto. apply all_calls_hobs.
Qed.

(** ** the model: deleteSingle and deleteSequential *)

(** in-memory pointers, height and disk pointers are equal *)
Definition same_ptrs (s s' : st) : Prop :=
  headp s' = headp s /\ tailp s' = tailp s /\ hsh s' = hsh s /\ d_head s' = d_head s /\ d_tail s' = d_tail s.

Definition del1 (s : st) (id n : N) : st := pend_del (write s [WDelH id; WDelI n]) n.

Lemma del1_fields s id n :
  pend_h (del1 s id n) = delete n (pend_h s) /\
  pend_i (del1 s id n) = base.filter (fun p : N * N => snd p <> n) (pend_i s) /\
  d_hdr (del1 s id n) = delete id (d_hdr s) /\ d_idx (del1 s id n) = delete n (d_idx s) /\
  same_ptrs s (del1 s id n).
Proof. unfold same_ptrs. cbn. tauto. Qed.

Section chain.
Context {c : N -> hdr} {U : N} {CH : chain_hyps c U}.
Notation inr := (inr U).
Notation minv := (minv c U).
Notation pchain := (pchain c U).
Notation pstored := (pstored c).
Notation pinv := (pinv c U).
Notation inv := (inv c U).

Lemma same_ptrs_pchain s s' : same_ptrs s s' -> pchain s -> pchain s'.
Proof. intros (E1 & E2 & _) P h. rewrite E1, E2. apply P. Qed.

Lemma del1_minv s n : minv s -> stored s n ->
  minv (del1 s (h_id (c n)) n) /\ forall m, stored (del1 s (h_id (c n)) n) m <-> stored s m /\ m <> n.
Proof.
  intros M Hs. destruct (del1_fields s (h_id (c n)) n) as (E1 & E2 & E3 & E4 & _).
  pose proof (@ch_inj c U CH) as c_inj. pose proof (stored_inr s n M Hs) as Hn.
  split; [split|].
  - intros m h. rewrite E1. intros H. apply lookup_delete_Some in H. destruct H. eapply mi_ph; eauto.
  - intros id m. rewrite E1, E2. intros H. apply map_filter_lookup_Some in H. destruct H as [H Hne].
    cbn in Hne. destruct (mi_pi1 s M _ _ H) as [-> Hp]. split; auto.
    try (rewrite lookup_delete_ne; auto).
  - intros m h. rewrite E1, E2. intros H. apply lookup_delete_Some in H. destruct H as [Hne H].
    apply map_filter_lookup_Some. split; [eapply mi_pi2; eauto|]. cbn. auto.
  - intros m id. rewrite E3, E4. intros H. apply lookup_delete_Some in H. destruct H as [Hne H].
    destruct (mi_di s M _ _ H) as (Hm & -> & Hd). split_and!; auto.
    rewrite lookup_delete_ne; auto; intros E; apply c_inj in E; auto.
  - intros id h. rewrite E3, E4. intros H. apply lookup_delete_Some in H. destruct H as [Hne H].
    destruct (mi_dh s M _ _ H) as (m & -> & Hi). exists m. split; auto.
    rewrite lookup_delete_ne; auto. intros ->. destruct (mi_di s M _ _ Hi) as (_ & E & _). auto.
  - intros m. unfold stored. rewrite E1, E4. split.
    + intros [[h H]|[id H]]; apply lookup_delete_Some in H; destruct H; split; eauto.
    + intros [[[h H]|[id H]] Hne]; [left; exists h|right; exists id]; rewrite lookup_delete_ne; auto.
Qed.

Lemma delete_single_stored s fails nh n log : minv s -> pchain s -> stored s n ->
  delete_single s (script_of fails) nh n log =
  if fails_at nh fails n
  then (s, log ++ all_calls (S (first_failing_handler nh fails n)) n, false)
  else (del1 s (h_id (c n)) n, log ++ all_calls nh n, true).
Proof.
  intros M P Hs. unfold delete_single.
  assert (E : match d_idx s !! n with
              | Some id => Some id
              | None => match pend_h s !! n with Some h => Some (h_id h) | None => None end
              end = Some (h_id (c n))).
  { destruct (d_idx s !! n) as [id|] eqn:Ei.
    - destruct (mi_di s M _ _ Ei) as (_ & -> & _). reflexivity.
    - destruct Hs as [[h Hh]|[id Hi]]; [|congruence]. rewrite Hh.
      destruct (mi_ph s M _ _ Hh) as [_ ->]. reflexivity. }
  rewrite E. pose proof (run_handlers_spec s fails n nh 0 log) as R. cbn zeta in R.
  rewrite (gbh_stored s n M P Hs) in R.
  rewrite (@ch_height c U CH) in R by (eapply stored_inr; eauto).
  rewrite N.eqb_refl in R. cbn [Nat.add] in R. rewrite R.
  rewrite fails_at_ffh, <- ffh_first.
  destruct (first_failing_handler nh fails n <? nh)%nat; [|reflexivity].
  rewrite Nat.sub_0_r. reflexivity.
Qed.

Lemma delete_single_missing s script nh n log : ~ stored s n ->
  delete_single s script nh n log = (s, log, true).
Proof.
  intros Hs. unfold delete_single.
  destruct (d_idx s !! n) eqn:Ei; [exfalso; apply Hs; right; eauto|].
  destruct (pend_h s !! n) eqn:Ep; [exfalso; apply Hs; left; eauto|]. reflexivity.
Qed.

(** deleteSequential follows its mirror over any set that agrees with the
    stored heights from the current position on *)
Lemma delete_seq_spec (S : gset N) fails nh : forall cnt s n log,
  minv s -> pchain s -> (forall m, n <= m -> (m ∈ S <-> stored s m)) ->
  exists s',
    delete_seq s (script_of fails) nh n cnt log =
      (s', log ++ fst (fst (dseq S nh fails n cnt)), snd (fst (dseq S nh fails n cnt)), snd (dseq S nh fails n cnt)) /\
    minv s' /\ same_ptrs s s' /\
    (forall m, stored s' m <-> stored s m /\ ~ (n <= m < snd (fst (dseq S nh fails n cnt)))) /\
    (snd (fst (dseq S nh fails n cnt)) = n -> s' = s).
Proof.
  induction cnt as [|cnt IH]; intros s n log M P HS.
  - exists s. cbn. rewrite app_nil_r. unfold same_ptrs. split_and!; auto. intros m. split; [|tauto]. intros; split; auto; lia.
  - cbn [delete_seq dseq].
    destruct (bool_decide_reflect (n ∈ S)) as [Hin|Hin].
    + assert (Hs : stored s n) by (apply HS; auto; lia).
      rewrite (delete_single_stored s fails nh n log M P Hs).
      destruct (fails_at nh fails n) eqn:Ef.
      * exists s. cbn [fst snd]. unfold same_ptrs. split_and!; auto.
        intros m. split; [|tauto]. intros; split; auto; lia.
      * destruct (del1_minv s n M Hs) as [M1 St1].
        destruct (del1_fields s (h_id (c n)) n) as (_ & _ & _ & _ & SP1).
        set (s1 := del1 s (h_id (c n)) n) in *.
        destruct (IH s1 (n + 1) (log ++ all_calls nh n) M1 (same_ptrs_pchain _ _ SP1 P)) as (s' & E & M' & SP' & St' & _).
        { intros m Hm. rewrite St1, <- HS by lia. split; [intros; split; auto; lia|tauto]. }
        exists s'. rewrite E. destruct (dseq S nh fails (n + 1) cnt) as [[l a] ok] eqn:Ed. cbn [fst snd] in *.
        rewrite <- app_assoc. split_and!; auto.
        -- intros m. rewrite St', St1. destruct (N.eq_dec m n) as [->|]; [|split; intros; split_and!; try tauto; lia].
           split; [tauto|]. intros [_ Hm]. exfalso. apply Hm.
           pose proof (dseq_spec S nh fails cnt (n + 1)) as D. cbn zeta in D. rewrite Ed in D.
           injection D as D1 D2 D3; rewrite D2. destruct (fh S nh fails (n + 1) cnt) eqn:Efh; [apply fh_some in Efh|]; lia.
        -- intros ->. exfalso.
           pose proof (dseq_spec S nh fails cnt (n + 1)) as D. cbn zeta in D. rewrite Ed in D.
           injection D as D1 D2 D3. destruct (fh S nh fails (n + 1) cnt) eqn:Efh; [apply fh_some in Efh|]; lia.
    + assert (Hs : ~ stored s n) by (rewrite <- HS; auto; lia).
      rewrite (delete_single_missing s _ nh n log Hs).
      destruct (IH s (n + 1) log M P) as (s' & E & M' & SP' & St' & _).
      { intros m Hm. apply HS. lia. }
      exists s'. rewrite E. destruct (dseq S nh fails (n + 1) cnt) as [[l a] ok] eqn:Ed. cbn [fst snd] in *.
      pose proof (dseq_spec S nh fails cnt (n + 1)) as D. cbn zeta in D. rewrite Ed in D.
      assert (Ha : n + 1 <= a).
      { injection D as D1 D2 D3; rewrite D2. destruct (fh S nh fails (n + 1) cnt) eqn:Efh; [apply fh_some in Efh|]; lia. }
      split_and!; auto.
      * intros m. rewrite St'. destruct (N.eq_dec m n) as [->|]; [tauto|].
        split; intros [? ?]; split; auto; lia.
      * intros ->. lia.
Qed.

End chain.
