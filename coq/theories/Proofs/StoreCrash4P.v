(** C06, part 4: the Store reopened on the image of any write-log prefix:
    gap-free between its pointers, and the continuation of the chain makes Head reach the tip. *)
From Coq Require Import NArith List Bool Lia ZifyBool ZifyN ZifyNat.
From stdpp Require Import gmap.
From GH Require Import Base.Prelude Model.Store Model.StoreSpec Model.StoreConc Model.StoreCrash Oracle.StoreCase.
From GH Require Import Proofs.StoreP Proofs.StoreClimbP Proofs.StoreInvP Proofs.StoreAppendP Proofs.StoreDeleteP.
From GH Require Import Proofs.StoreDeleteRangeP Proofs.StoreRestartP Proofs.StoreMainP Proofs.StoreConcP.
From GH Require Import Proofs.StoreCrashP Proofs.StoreCrash2P Proofs.StoreCrash3P.
Import ListNotations.
Open Scope N_scope.

(** the height the continuation starts above: the reopened Head, else Tail, else 0 *)
Definition cont_base (r : st) : N :=
  match headp r with
  | Some h => h_height h
  | None => match tailp r with Some t => h_height t | None => 0 end
  end.

Section chain.
Context {c : N -> hdr} {U : N} {CH : chain_hyps c U}.
Notation inr := (inr U).
Notation pchain := (pchain c U).
Notation dinv := (dinv (c:=c) (U:=U)).
Notation on_disk := (on_disk (c:=c)).
Notation ptrs_sound := (ptrs_sound (c:=c) (U:=U)).

Lemma nb_pending x m : pchain x -> inr m -> pend_h x !! m = Some (c m) -> nb x m = Found (c m).
Proof.
  intros P Hm Hp. unfold nb.
  destruct (has_height (headp x) m) eqn:E1.
  { destruct (headp x) as [hd|] eqn:Ehd; [|discriminate].
    destruct (P hd (or_introl Ehd)) as (k & Hk & ->). apply has_height_chain in E1; auto. subst k. reflexivity. }
  destruct (has_height (tailp x) m) eqn:E2.
  { destruct (tailp x) as [tl|] eqn:Etl; [|discriminate].
    destruct (P tl (or_intror Etl)) as (k & Hk & ->). apply has_height_chain in E2; auto. subst k. reflexivity. }
  rewrite Hp. reflexivity.
Qed.

Lemma next_head_climb x last : pchain x -> last <= U ->
  nb x (last + 1) = NotFound ->
  forall f H0 ch, inr H0 -> H0 <= last ->
  (forall m, H0 < m <= last -> pend_h x !! m = Some (c m)) ->
  (N.to_nat (last - H0) < f)%nat ->
  next_head f x (c H0) ch = (c last, ch || (H0 <? last)).
Proof.
  intros P HU Hnf. pose proof (@ch_bound c U CH) as Ub.
  induction f as [|f IH]; intros H0 ch HH Hle Hp Hf; [lia|].
  cbn [next_head]. rewrite (@ch_height c U CH) by auto. rewrite wrap64_small by (destruct HH; lia).
  destruct (N.eq_dec H0 last) as [->|Hne].
  - rewrite Hnf, N.ltb_irrefl, orb_false_r. reflexivity.
  - assert (Hi : inr (H0 + 1)) by (destruct HH; split; lia).
    rewrite (nb_pending x (H0 + 1)); auto; [|apply Hp; lia].
    rewrite IH; auto; try lia.
    + f_equal. cbn [orb]. destruct (N.ltb_spec H0 last); [|lia]. rewrite orb_true_r. reflexivity.
    + intros m Hm. apply Hp. lia.
Qed.

Section reopen.
Variables (b : N) (log : list wop) (k : nat).
Hypothesis D : dinv (image b log k).
Let img := image b log k.
Let r := reopen b log k.

(** (b) gap-free between the pointers of the reopened Store *)
Theorem reopen_gap_free : ptrs_sound img ->
  forall hd tl, headp r = Some hd -> tailp r = Some tl ->
  h_height tl <= h_height hd /\
  forall n, h_height tl <= n <= h_height hd ->
  get_by_height r n = Found (c n) /\ get r (h_id (c n)) = Found (c n).
Proof.
  intros Ps hd tl Hhd Htl.
  destruct (reopen_pointers_resolve b log k D) as [A B].
  destruct (A hd Hhd) as (H & HH & -> & Dh & Oh). destruct (B tl Htl) as (T & HT & -> & Dt & Ot).
  rewrite !(@ch_height c U CH) by auto.
  destruct (Ps T H Dt Dh HT HH Ot Oh) as [Hle Hall]. split; auto.
  intros n Hn. specialize (Hall n Hn). unfold StoreCrash3P.on_disk in Hall.
  destruct (dv_hdr _ D _ _ Hall) as (m & Hm & E1 & E2 & Hi).
  assert (n = m) by (apply (@ch_inj c U CH); auto; destruct HT, HH; split; lia). subst m.
  destruct (reopen_finds_indexed b log k D n _ _ Hi Hall) as (_ & G1 & G2). auto.
Qed.

(** (d) appending the continuation of the chain makes Head reach its last header *)
Theorem reopen_continuation len :
  let base := cont_base r in
  let last := base + N.of_nat len in
  len <> 0%nat -> last <= U ->
  (forall m, last < m -> inr m -> ~ on_disk img m) ->
  headp (fst (append r (map c (seqN (base + 1) len)))) = Some (c last).
Proof.
  intros base last Hlen HU Habove.
  destruct (reopen_fields b log k) as (P1 & P2 & P3 & P4 & _). fold r in P1, P2, P3, P4. fold img in P3, P4.
  pose proof (reopen_pchain b log k D) as PC. fold r in PC.
  destruct (reopen_pointers_resolve b log k D) as [RA RB]. fold r in RA, RB. fold img in RA, RB.
  pose proof (@ch_height c U CH) as c_height.
  destruct len as [|len']; [contradiction|]. set (len := S len') in *.
  set (ns := seqN (base + 1) len). set (hs := map c ns).
  assert (Ens : ns = (base + 1) :: seqN (base + 1 + 1) len') by reflexivity.
  assert (Inr : forall m, In m ns -> inr m).
  { intros m Hm. apply (proj1 (in_seqN _ _ _)) in Hm. unfold last in HU. split; lia. }
  (* the head after ensureInit *)
  set (H0 := match headp r with Some _ => base | None => base + 1 end).
  assert (HH0 : inr H0 /\ H0 <= last /\ base <= H0).
  { unfold H0, last, base, cont_base. destruct (headp r) as [hd|] eqn:E.
    - destruct (RA hd eq_refl) as (H & HH & -> & _). rewrite c_height by auto. destruct HH. split_and!; try lia. split; lia.
    - assert (inr (base + 1)) by (apply Inr; rewrite Ens; left; reflexivity).
      unfold last, base, cont_base in H, HU. rewrite E in H, HU. destruct H. split_and!; try lia. split; lia. }
  destruct HH0 as (HH0 & Hle0 & Hb0).
  change (append r hs) with (append r (c (base + 1) :: map c (seqN (base + 1 + 1) len'))). cbn [append].
  change (c (base + 1) :: map c (seqN (base + 1 + 1) len')) with hs.
  unfold flush_one. cbv zeta.
  set (s1 := ensure_init r hs). set (s2 := pend_add s1 hs).
  assert (S1 : same_maps r s1 /\ headp s1 = Some (c H0) /\
               (tailp s1 = tailp r \/ tailp s1 = Some (c (base + 1)))).
  { unfold s1, hs. rewrite Ens. cbn [map ensure_init]. unfold H0, base, cont_base, same_maps.
    destruct (headp r) as [hd|] eqn:E.
    - destruct (RA hd eq_refl) as (H & HH & -> & _). rewrite c_height by auto.
      destruct (tailp r) as [tl|] eqn:Et; cbn; rewrite ?E, ?Et; split_and!; auto.
    - cbn. destruct (tailp r) as [tl|] eqn:Et; cbn; rewrite ?E, ?Et; split_and!; auto. }
  destruct S1 as (SM1 & Hd1 & Tl1).
  destruct (pend_add_fields s1 hs) as (E1 & E2 & E3 & E4 & _ & _ & Q3 & Q4 & _). fold s2 in E1, E2, E3, E4, Q3, Q4.
  assert (Eh1 : pend_h s1 = ∅) by (destruct SM1 as (-> & _); auto).
  assert (Ei1 : pend_i s1 = ∅) by (destruct SM1 as (_ & -> & _); auto).
  assert (Pin : forall m, In m ns -> pend_h s2 !! m = Some (c m)).
  { intros m Hm. rewrite E1. apply ins_in.
    - intros y Hy Ey. apply in_map_iff in Hy. destruct Hy as (m' & <- & Hm'). rewrite c_height in Ey by auto. congruence.
    - right. exists (c m). split; [apply in_map; auto|apply c_height; auto]. }
  assert (Pout : forall m, ~ In m ns -> pend_h s2 !! m = None).
  { intros m Hm. destruct (pend_h s2 !! m) as [h|] eqn:E; auto. exfalso. rewrite E1 in E.
    apply ins_inv in E. destruct E as [E|(x & Hx & Hk & _)]; [rewrite Eh1, lookup_empty in E; discriminate|].
    apply in_map_iff in Hx. destruct Hx as (m' & <- & Hm'). rewrite c_height in Hk by auto. congruence. }
  assert (PC2 : pchain s2).
  { intros h [E|E]; rewrite ?Q3, ?Q4, ?Hd1 in E.
    - injection E as <-. eauto.
    - destruct Tl1 as [Tl1|Tl1]; rewrite Tl1 in E; [apply PC; auto|injection E as <-].
      exists (base + 1). split; auto. apply Inr. rewrite Ens. left; reflexivity. }
  (* nothing is found right above the continuation *)
  assert (Hnf : nb s2 (last + 1) = NotFound).
  { unfold nb. rewrite Q3, Hd1. cbn [has_height]. rewrite c_height by auto.
    destruct (N.eqb_spec H0 (last + 1)); [lia|].
    assert (Ht : has_height (tailp s2) (last + 1) = false).
    { rewrite Q4. destruct Tl1 as [-> | ->].
      - destruct (tailp r) as [tl|] eqn:Et; auto. destruct (RB tl eq_refl) as (T & HT & -> & _ & OT).
        cbn. rewrite c_height by auto. apply N.eqb_neq. intros ->. apply (Habove (last + 1)); auto. lia.
      - cbn. rewrite c_height by (apply Inr; rewrite Ens; left; reflexivity). apply N.eqb_neq. unfold last. lia. }
    rewrite Ht. rewrite Pout by (intros Hin; apply (proj1 (in_seqN _ _ _)) in Hin; unfold last in *; lia).
    rewrite E4. destruct SM1 as (_ & _ & M3 & M4). rewrite M4, P4.
    destruct (d_idx img !! (last + 1)) as [id|] eqn:Ei; auto.
    destruct (dv_idx _ D _ _ Ei) as [Hi ->]. unfold get. rewrite E2.
    destruct (ins_all h_id h_height hs (pend_i s1) !! h_id (c (last + 1))) as [m|] eqn:Epi.
    { exfalso. apply ins_inv in Epi. destruct Epi as [Epi|(x & Hx & Hk & _)]; [rewrite Ei1, lookup_empty in Epi; discriminate|].
      apply in_map_iff in Hx. destruct Hx as (m' & <- & Hm').
      apply (@ch_inj c U CH) in Hk; auto. subst m'. apply (proj1 (in_seqN _ _ _)) in Hm'. unfold last in *. lia. }
    change (None ≫= (fun n0 : N => pend_h s2 !! n0)) with (@None hdr). cbv beta iota. rewrite E3, M3, P3.
    destruct (d_hdr img !! h_id (c (last + 1))) as [h|] eqn:Eh; auto. exfalso.
    destruct (dv_hdr _ D _ _ Eh) as (m & Hm & -> & Eid & _).
    apply (@ch_inj c U CH) in Eid; auto. subst m. apply (Habove (last + 1)); auto. lia. }
  (* the climb *)
  assert (Hclimb : headp (advance_head s2) = Some (c last)).
  { unfold advance_head. rewrite Q3, Hd1.
    rewrite (next_head_climb s2 last PC2 HU Hnf (fuel_of s2) H0 false HH0 Hle0).
    - cbn [orb]. destruct (N.ltb_spec H0 last); [reflexivity|]. rewrite Q3, Hd1. f_equal. f_equal. lia.
    - intros m Hm. apply Pin. apply (proj2 (in_seqN _ _ _)). unfold last in *. lia.
    - unfold fuel_of.
      assert (N.to_nat (last - H0) <= size (dom (pend_h s2) : gset N))%nat; [|rewrite size_dom in *; lia].
      apply (count_run _ H0). intros j Hj. apply elem_of_dom. exists (c j). apply Pin.
      apply (proj2 (in_seqN _ _ _)). unfold last in *. lia. }
  destruct (recede_tail_frame (advance_head s2)) as (_ & _ & G3 & _).
  set (s4 := recede_tail (advance_head s2)) in *.
  destruct (_ && _); cbn [fst]; [congruence|]. destruct (_ =? _)%nat; cbn [fst]; [congruence|].
  change (headp (set_pend (write s4 (commit_ops s4)) ∅ ∅)) with (headp (commit s4)).
  destruct (commit_fields s4) as (_ & _ & X3 & _). congruence.
Qed.

End reopen.
End chain.

(** ** every prefix of the write log of every history *)
Section hist.
Context {c : N -> hdr} {U : N} {CH : chain_hyps c U}.
Notation inr := (inr U).

Theorem hist_image_inv b ops k : Forall (op_ok U) ops ->
  let s := run c (st0 b) ops in
  (k <= length (wlog s))%nat ->
  dinv (c:=c) (U:=U) (image b (wlog s) k) /\ ptrs_sound (c:=c) (U:=U) (image b (wlog s) k).
Proof.
  intros F s Hk. destruct (history_prefixes (c:=c) b ops F) as (_ & Pre & _).
  destruct (history_prefixes_ps (c:=c) b ops F) as (Pre2 & _). split; [apply Pre|apply Pre2]; exact Hk.
Qed.

(** the invariant spelled out *)
Theorem hist_image_facts b ops k : Forall (op_ok U) ops ->
  let s := run c (st0 b) ops in
  (k <= length (wlog s))%nat ->
  let img := image b (wlog s) k in
  (forall id h, d_hdr img !! id = Some h ->
     exists n, inr n /\ h = c n /\ id = h_id (c n) /\ d_idx img !! n = Some id) /\
  (forall n id, d_idx img !! n = Some id -> inr n /\ id = h_id (c n)) /\
  (forall id, d_head img = Some id -> exists n, inr n /\ id = h_id (c n)) /\
  (forall id, d_tail img = Some id -> exists n, inr n /\ id = h_id (c n)) /\
  (forall T H, d_tail img = Some (h_id (c T)) -> d_head img = Some (h_id (c H)) -> inr T -> inr H ->
     d_hdr img !! h_id (c T) = Some (c T) -> d_hdr img !! h_id (c H) = Some (c H) ->
     T <= H /\ forall n, T <= n <= H -> d_hdr img !! h_id (c n) = Some (c n)).
Proof.
  intros F s Hk img. destruct (hist_image_inv b ops k F Hk) as [[A B C D] Ps]. split_and!; auto.
Qed.

Theorem hist_reopen_pointers_resolve b ops k : Forall (op_ok U) ops ->
  let s := run c (st0 b) ops in
  (k <= length (wlog s))%nat ->
  let img := image b (wlog s) k in
  let r := reopen b (wlog s) k in
  (forall h, headp r = Some h -> exists n, inr n /\ h = c n /\ d_head img = Some (h_id (c n)) /\
                                  d_hdr img !! h_id (c n) = Some (c n) /\ get_by_height r n = Found (c n)) /\
  (forall h, tailp r = Some h -> exists n, inr n /\ h = c n /\ d_tail img = Some (h_id (c n)) /\
                                  d_hdr img !! h_id (c n) = Some (c n) /\ get_by_height r n = Found (c n)).
Proof.
  intros F s Hk img r. destruct (hist_image_inv b ops k F Hk) as [D Ps].
  destruct (reopen_pointers_resolve b (wlog s) k D) as [A B]. split; intros h Hh.
  - destruct (A h Hh) as (n & Hn & -> & E1 & E2). exists n. split_and!; auto.
    destruct (dv_hdr _ D _ _ E2) as (m & Hm & _ & Eid & Hi).
    destruct (reopen_finds_indexed b (wlog s) k D m _ _ Hi E2) as (Ec & G & _).
    apply (@ch_inj c U CH) in Eid; auto. subst m. exact G.
  - destruct (B h Hh) as (n & Hn & -> & E1 & E2). exists n. split_and!; auto.
    destruct (dv_hdr _ D _ _ E2) as (m & Hm & _ & Eid & Hi).
    destruct (reopen_finds_indexed b (wlog s) k D m _ _ Hi E2) as (Ec & G & _).
    apply (@ch_inj c U CH) in Eid; auto. subst m. exact G.
Qed.

Theorem hist_reopen_gap_free b ops k : Forall (op_ok U) ops ->
  let s := run c (st0 b) ops in
  (k <= length (wlog s))%nat ->
  let r := reopen b (wlog s) k in
  forall hd tl, headp r = Some hd -> tailp r = Some tl ->
  h_height tl <= h_height hd /\
  forall n, h_height tl <= n <= h_height hd ->
  get_by_height r n = Found (c n) /\ get r (h_id (c n)) = Found (c n).
Proof.
  intros F s Hk r. destruct (hist_image_inv b ops k F Hk) as [D Ps].
  exact (reopen_gap_free b (wlog s) k D Ps).
Qed.

Theorem hist_reopen_finds_committed b ops k n id h : Forall (op_ok U) ops ->
  let s := run c (st0 b) ops in
  (k <= length (wlog s))%nat ->
  let img := image b (wlog s) k in
  let r := reopen b (wlog s) k in
  d_idx img !! n = Some id -> d_hdr img !! id = Some h ->
  h = c n /\ get_by_height r n = Found (c n) /\ get r (h_id (c n)) = Found (c n).
Proof.
  intros F s Hk img r. destruct (hist_image_inv b ops k F Hk) as [D Ps].
  exact (reopen_finds_indexed b (wlog s) k D n id h).
Qed.

Theorem hist_reopen_continuation b ops k len : Forall (op_ok U) ops ->
  let s := run c (st0 b) ops in
  (k <= length (wlog s))%nat ->
  let img := image b (wlog s) k in
  let r := reopen b (wlog s) k in
  let base := cont_base r in
  let last := base + N.of_nat len in
  len <> 0%nat -> last <= U ->
  (forall m, last < m -> inr m -> d_hdr img !! h_id (c m) <> Some (c m)) ->
  headp (fst (append r (map c (seqN (base + 1) len)))) = Some (c last).
Proof.
  intros F s Hk img r. destruct (hist_image_inv b ops k F Hk) as [D Ps].
  exact (reopen_continuation b (wlog s) k D len).
Qed.

End hist.
