(** The tie between the oracle of the delete race (Oracle/C17Del.v) and the model: when the
    model reproduces a case ([agree17d]) the case satisfies the property oracle ([ok17d]). *)
From Coq Require Import NArith List Bool Lia ZifyBool ZifyN ZifyNat Sorting.Sorted.
From stdpp Require Import gmap.
From GH Require Import Base.Prelude Model.Store Model.StoreSpec Model.StoreConc Model.StoreDelConc.
From GH Require Import Oracle.StoreCase Oracle.C17Del.
From GH Require Import Proofs.StoreP Proofs.StoreInvP Proofs.StoreAppendP Proofs.StoreRestartP Proofs.StoreConcP
  Proofs.StoreMainP Proofs.StoreDelConcP Proofs.StoreDelConc2P Proofs.StoreDelConc3P Proofs.StoreDelConc4P
  Proofs.StoreDelConc5P Proofs.StoreDelConc6P Proofs.StoreProbeTieP.
Import ListNotations.
Open Scope N_scope.

Lemma grows_trans to a b d : grows to a b -> grows to b d -> grows to a d.
Proof. intros (A1 & A2 & A3) (B1 & B2 & B3). unfold grows. split_and!; try lia. auto. Qed.

Section tie.
Context {c : N -> hdr} {U : N} {CH : chain_hyps c U}.
Variables (T to : N) (ctxf : bool) (spE : spec).
Hypothesis HT : inr U T.
Hypothesis Hto : inr U to.
Hypothesis Hlt : T < to.
Notation GI := (GI c U T to ctxf spE).

Definition reach (x y : cfg) : Prop := GI y /\ grows to (c_st x) (c_st y) /\ (mu T to y <= mu T to x)%nat.

Lemma reach_refl x : GI x -> reach x x.
Proof. intros G. split_and!; auto. apply grows_refl. Qed.

Lemma reach_d x y z : GI x -> dstep_c T to ctxf x = Some y -> reach y z -> reach x z.
Proof.
  intros G St (Gz & Gr & Gm). split_and!; auto.
  - eapply grows_trans; [eapply (GI_dstep_grows T to ctxf spE HT Hto Hlt); eauto|exact Gr].
  - assert (S1 : step1 T to ctxf true x = Some y) by (unfold step1; rewrite St; reflexivity).
    pose proof (mu_step1 _ _ _ _ _ _ S1). lia.
Qed.
Lemma reach_f x y z : GI x -> fstep_c x = Some y -> reach y z -> reach x z.
Proof.
  intros G St (Gz & Gr & Gm). split_and!; auto.
  - eapply grows_trans; [eapply (GI_fstep_grows T to ctxf spE HT Hto Hlt); eauto|exact Gr].
  - assert (S1 : step1 T to ctxf false x = Some y) by (unfold step1; rewrite St; reflexivity).
    pose proof (mu_step1 _ _ _ _ _ _ S1). lia.
Qed.

Lemma macro_d_reach : forall fuel moved x, GI x -> reach x (macro_d T to ctxf fuel moved x).
Proof.
  induction fuel as [|f IH]; intros moved x G; cbn [macro_d]; [apply reach_refl; auto|].
  destruct (moved && dpark ctxf (c_dl x)); [apply reach_refl; auto|].
  destruct (dstep_c T to ctxf x) as [y|] eqn:Ed.
  { eapply reach_d; eauto. apply IH. eapply (GI_dstep T to ctxf spE HT Hto Hlt); eauto. }
  assert (K : forall z, z = x -> reach x z) by (intros z ->; apply reach_refl; auto).
  destruct (c_dl x); auto; (destruct (fstep_c x) as [y|] eqn:Ef; [|auto]);
    (eapply reach_f; eauto; apply IH; eapply (GI_fstep T to ctxf spE HT Hto Hlt); eauto).
Qed.

Lemma macro_f_reach : forall fuel parks moved x, GI x -> reach x (macro_f fuel parks moved x).
Proof.
  induction fuel as [|f IH]; intros parks moved x G; cbn [macro_f]; [apply reach_refl; auto|].
  destruct (moved && _); [apply reach_refl; auto|].
  destruct (fstep_c x) as [y|] eqn:Ef; [|apply reach_refl; auto].
  eapply reach_f; eauto. apply IH. eapply (GI_fstep T to ctxf spE HT Hto Hlt); eauto.
Qed.

Lemma macro_reach x m : GI x -> reach x (macro T to ctxf x m).
Proof. intros G. destruct m; cbn [macro]; [apply macro_d_reach|apply macro_f_reach|apply macro_f_reach]; auto. Qed.

Lemma finish_spec : forall fuel x, GI x -> (mu T to x <= fuel)%nat ->
  GI (finish T to ctxf fuel x) /\ finished (finish T to ctxf fuel x).
Proof.
  induction fuel as [|f IH]; intros x G Hm; cbn [finish].
  - split; auto. destruct (step1 T to ctxf true x) as [y|] eqn:St; [pose proof (mu_step1 _ _ _ _ _ _ St); lia|].
    eapply (GI_stuck T to ctxf spE); eauto.
  - destruct (step1 T to ctxf true x) as [y|] eqn:St; [|split; auto; eapply (GI_stuck T to ctxf spE); eauto].
    pose proof (mu_step1 _ _ _ _ _ _ St). apply IH; [|lia]. eapply (GI_step1 T to ctxf spE HT Hto Hlt); eauto.
Qed.

Lemma finish_mu : forall fuel x, (mu T to (finish T to ctxf fuel x) <= mu T to x)%nat.
Proof.
  induction fuel as [|f IH]; intros x; cbn [finish]; [lia|].
  destruct (step1 T to ctxf true x) as [y|] eqn:St; [|lia].
  pose proof (mu_step1 _ _ _ _ _ _ St). specialize (IH y). lia.
Qed.

(** the script: every configuration is reachable, and they only grow *)
Lemma run_script_reach : forall l x, GI x ->
  Forall GI (run_script T to ctxf x l) /\
  StronglySorted (fun a b => grows to (c_st a) (c_st b)) (x :: run_script T to ctxf x l) /\
  (mu T to (last (run_script T to ctxf x l) x) <= mu T to x)%nat.
Proof.
  induction l as [|m r IH]; intros x G; cbn [run_script].
  - split_and!; [constructor|constructor; constructor|cbn; lia].
  - destruct (macro_reach x m G) as (Gy & Gr & Gm). set (y := macro T to ctxf x m) in *.
    destruct (IH y Gy) as (A & B & C). split_and!; [constructor; auto| |].
    + constructor; auto. apply StronglySorted_inv in B. destruct B as [B1 B2].
      constructor; auto. eapply Forall_impl; [|exact B2]. intros z Hz. eapply grows_trans; eauto.
    + rewrite last_cons_some. lia.
Qed.

End tie.

(** ** the observations *)
Definition Pok (o : dobs17) : Prop :=
  o_head_by_height (do_r o) = true /\ o_head_by_hash (do_r o) = true /\ do_chain o = true.
Definition Rle (p o : dobs17) : Prop :=
  dhead_h p <= dhead_h o /\ o_height (do_r p) <= o_height (do_r o).
Definition same_obs (m o : dobs17) : Prop :=
  dhead_h m = dhead_h o /\ o_height (do_r m) = o_height (do_r o) /\
  o_head_by_height (do_r m) = o_head_by_height (do_r o) /\ o_head_by_hash (do_r m) = o_head_by_hash (do_r o) /\
  do_chain m = do_chain o.

Lemma dobs17_eqb_same m o : dobs17_eqb m o = true -> same_obs m o.
Proof.
  unfold dobs17_eqb. rewrite !andb_true_iff. intros (((((((A & B) & C) & D) & _) & E) & _) & _).
  unfold same_obs, dhead_h. split_and!.
  - destruct (o_head (do_r m)) as [[a1 a2]|], (o_head (do_r o)) as [[b1 b2]|]; cbn in A; try discriminate; auto.
    unfold pairN_eqb in A. cbn in A. lia.
  - lia.
  - destruct (o_head_by_height (do_r m)), (o_head_by_height (do_r o)); cbn in C; congruence.
  - destruct (o_head_by_hash (do_r m)), (o_head_by_hash (do_r o)); cbn in D; congruence.
  - destruct (do_chain m), (do_chain o); cbn in E; congruence.
Qed.

Definition somes (os : list (option dobs17)) : list dobs17 :=
  flat_map (fun o => match o with Some o' => [o'] | None => [] end) os.

Lemma dmonotone_match : forall ms os prev, Forall Pok ms -> StronglySorted Rle ms ->
  (forall p, prev = Some p -> Forall (Rle p) ms) -> obs_match ms os = true ->
  dmonotone prev (somes os) = true.
Proof.
  induction ms as [|m mr IH]; intros os prev HP HS Hprev Hm; destruct os as [|o or]; cbn [obs_match] in Hm; try discriminate.
  - reflexivity.
  - apply andb_true_iff in Hm. destruct Hm as [Hm1 Hm2].
    pose proof (Forall_inv HP) as P1. pose proof (Forall_inv_tail HP) as P2.
    apply StronglySorted_inv in HS. destruct HS as [S1 S2].
    destruct o as [o'|]; cbn [somes flat_map app].
    + fold (somes or). apply dobs17_eqb_same in Hm1. destruct Hm1 as (E1 & E2 & E3 & E4 & E5).
      destruct P1 as (Q1 & Q2 & Q3). cbn [dmonotone]. rewrite <- E3, <- E4, <- E5, Q1, Q2, Q3. cbn [andb].
      assert (Hp : match prev with Some p => (dhead_h p <=? dhead_h o') && (o_height (do_r p) <=? o_height (do_r o')) | None => true end = true).
      { destruct prev as [p|]; auto. pose proof (Forall_inv (Hprev p eq_refl)) as [R1 R2]. lia. }
      rewrite Hp. cbn [andb]. apply IH; auto.
      intros p [= <-]. eapply Forall_impl; [|exact S2]. intros z [R1 R2]. unfold Rle. lia.
    + fold (somes or). apply IH; auto. intros p Ep. apply (Forall_inv_tail (Hprev p Ep)).
Qed.

Section tie2.
Context {c : N -> hdr} {U : N} {CH : chain_hyps c U}.
Variables (T to : N) (ctxf : bool) (spE : spec).
Hypothesis HT : inr U T.
Hypothesis Hto : inr U to.
Hypothesis Hlt : T < to.
Notation GI := (GI c U T to ctxf spE).

Lemma GI_obs x : GI x ->
  let o := observe17d c to (c_st x) in
  Pok o /\ dhead_h o = head_h (c_st x) /\ o_height (do_r o) = hsh (c_st x).
Proof.
  intros G o. pose proof (GI_live_ok T to ctxf spE HT Hto Hlt x G) as L.
  pose proof (live_ok_torn_free T to Hlt (c_st x) L) as [TF1 TF2].
  destruct L as (H & Hd & Hh & Hle & HH & R).
  unfold o, observe17d, Pok, dhead_h. cbn [do_r do_chain]. split_and!; auto.
  - unfold chain_readable. rewrite Hd. apply forallb_forall. intros n Hn. apply in_seqN in Hn.
    rewrite (@ch_height c U CH) in Hn by auto. destruct (R n ltac:(lia)) as [E1 E2].
    unfold readable. rewrite E1, E2. cbn. rewrite !N.eqb_refl. reflexivity.
  - unfold observe17, head_h. rewrite Hd. reflexivity.
  - unfold observe17. rewrite Hd. reflexivity.
Qed.

Lemma script_obs x l : GI x ->
  let ms := map (fun y => observe17d c to (c_st y)) (run_script T to ctxf x l) in
  Forall Pok ms /\ StronglySorted Rle ms.
Proof.
  intros G ms. destruct (run_script_reach T to ctxf spE HT Hto Hlt l x G) as (A & B & _).
  apply StronglySorted_inv in B. destruct B as [B _]. unfold ms. clear ms.
  induction (run_script T to ctxf x l) as [|y r IH]; cbn [map]; [split; constructor|].
  pose proof (Forall_inv A) as Gy. pose proof (Forall_inv_tail A) as Gr.
  apply StronglySorted_inv in B. destruct B as [B1 B2]. destruct (IH Gr B1) as [I1 I2].
  destruct (GI_obs y Gy) as (P1 & E1 & E2). split; constructor; auto.
  rewrite Forall_map. rewrite Forall_forall in *. intros z Hz. specialize (B2 z Hz). specialize (Gr z Hz).
  destruct (GI_obs z Gr) as (_ & F1 & F2). destruct B2 as (G1 & G2 & _). unfold Rle. rewrite E1, E2, F1, F2. auto.
Qed.

End tie2.

(** ** the tie *)
Definition wf17d (x : dcase17) : bool :=
  let l := dq_chain x in
  let U := N.of_nat (length l) in
  chain_ok l && (U <? two64 - 1) && forallb (fun n => (1 <=? n) && (n <=? U)) (dq_init x)
  && match sHT (spec_append spec0 (dq_init x)) with
     | Some (T, H) => (T =? dq_from x) && (dq_from x <? dq_to x) && (dq_to x <=? H)
                      && forallb (forallb (fun n => (H <? n) && (n <=? U))) (dq_queue x)
     | None => false
     end
  && (7 * length (dq_queue x) + 23 + 5 * N.to_nat (dq_to x - dq_from x - 1) <=? N.to_nat 8000)%nat.

Lemma somes_script (l : list (mact * option dobs17)) :
  flat_map (fun e => match snd e with Some o => [o] | None => [] end) l = somes (map snd l).
Proof. induction l as [|e l IH]; cbn; [reflexivity|]. rewrite IH. reflexivity. Qed.

Theorem agree17d_ok x : wf17d x = true -> agree17d x = true -> ok17d x = true.
Proof.
  unfold wf17d. cbv zeta. rewrite !andb_true_iff. intros ((((Wc & Wb) & Wi) & Ws) & Wm) Ag.
  set (l := dq_chain x) in *. set (U := N.of_nat (length l)) in *. set (c := chain_of l).
  destruct (chain_ok_hyps l Wc ltac:(lia)) as (CH & Iin & Iout). fold U c in CH, Iin, Iout.
  destruct (sHT (spec_append spec0 (dq_init x))) as [[T H]|] eqn:ES; [|discriminate].
  rewrite !andb_true_iff in Ws. destruct Ws as (((W1 & W2) & W3) & W4).
  assert (ET : T = dq_from x) by lia. subst T.
  set (from := dq_from x) in *. set (to := dq_to x) in *.
  assert (Fi : Forall (inr U) (dq_init x)).
  { apply Forall_forall. intros n Hn. rewrite forallb_forall in Wi. specialize (Wi n Hn). unfold inr. lia. }
  assert (Ab : above (U := U) H (dq_queue x)).
  { apply Forall_forall. intros ns Hns. apply Forall_forall. intros n Hn.
    rewrite forallb_forall in W4. specialize (W4 ns Hns). rewrite forallb_forall in W4. specialize (W4 n Hn). lia. }
  (* the initial state *)
  set (sp0 := spec_append spec0 (dq_init x)) in *.
  assert (I0 : inv c U (dinit x) sp0).
  { unfold dinit. fold l c. destruct (append_inv (st0 (dq_batch x)) spec0 (dq_init x) (inv_st0 _) Fi) as [I1 _].
    destruct (dq_presync x); auto. apply sync_inv; auto. }
  destruct (inv_TH _ sp0 from H (proj1 I0) ES) as (HT & HH & _).
  assert (Hto : inr U to) by (destruct HT, HH; split; lia).
  assert (Hlt : from < to) by lia.
  set (spE := fold_left spec_append (dq_queue x) (del from to sp0)).
  pose proof (GI_cfg0 from to (dinit x) sp0 H (dq_queue x) (dq_ctx x) I0 ES ltac:(lia) (above_hiN H to _ ltac:(lia) Ab)) as G0.
  fold spE in G0.
  (* the run of the script *)
  unfold agree17d, dmodel in Ag. fold l c from to in Ag.
  set (x0 := cfg0 (dinit x) (map (map c) (dq_queue x))) in *.
  set (tr := run_script from to (dq_ctx x) x0 (map fst (dq_script x))) in *.
  set (xe := finish from to (dq_ctx x) (N.to_nat 8000) (last tr x0)) in *.
  set (se := sync (c_st xe)) in *.
  rewrite !andb_true_iff in Ag. destruct Ag as ((((A1 & A2) & A3) & A4) & A5).
  destruct (run_script_reach from to (dq_ctx x) spE HT Hto Hlt (map fst (dq_script x)) x0 G0) as (R1 & R2 & R3).
  fold tr in R1, R2, R3.
  assert (Gl : GI c U from to (dq_ctx x) spE (last tr x0)).
  { destruct tr as [|y r] eqn:Etr; [exact G0|]. rewrite Forall_forall in R1. apply R1. rewrite <- Etr.
    destruct (exists_last (l := y :: r) ltac:(discriminate)) as (r' & z & Ez). rewrite Etr, Ez, last_last.
    apply in_or_app. right. left. reflexivity. }
  assert (Mu0 : (mu from to x0 <= N.to_nat 8000)%nat).
  { unfold mu, x0, cfg0, mu_f. cbn [c_q c_fl c_dl rem_f mu_d]. rewrite map_length. fold from to. lia. }
  destruct (finish_spec from to (dq_ctx x) spE HT Hto Hlt (N.to_nat 8000) (last tr x0) Gl ltac:(lia)) as [Ge Fe].
  fold xe in Ge, Fe.
  pose proof (GI_final from to (dq_ctx x) spE HT Hto Hlt xe Ge Fe) as Ie.
  destruct (sync_inv (c_st xe) spE Ie) as [Is Hp]. fold se in Is, Hp.
  (* the oracle *)
  unfold ok17d. fold l c. change (dspec x) with spE.
  rewrite !andb_true_iff. split_and!.
  - exact Wc.
  - rewrite somes_script. destruct (script_obs from to (dq_ctx x) spE HT Hto Hlt x0 (map fst (dq_script x)) G0) as [P1 P2].
    fold tr in P1, P2. apply (dmonotone_match _ _ None P1 P2); [discriminate|exact A1].
  - rewrite <- (probe_tie Iin Iout se spE (dq_final x) (proj1 Is)). exact A2.
  - destruct Is as [Ip DK]. unfold disk_ok in DK. pose proof (iv_p _ _ _ _ Ip) as P. unfold ptrs_core in P.
    destruct (sHT spE) as [[Tf Hf]|]; cbn [option_map fst snd].
    + destruct (DK Hp) as [E1 _]. rewrite E1 in A3. destruct (dq_dhead x); cbn in A3 |- *; auto; lia.
    + destruct P as (_ & _ & _ & E1 & _). rewrite E1 in A3. destruct (dq_dhead x); cbn in A3 |- *; auto.
  - destruct Is as [Ip DK]. unfold disk_ok in DK. pose proof (iv_p _ _ _ _ Ip) as P. unfold ptrs_core in P.
    destruct (sHT spE) as [[Tf Hf]|]; cbn [option_map fst snd].
    + destruct (DK Hp) as [_ E1]. rewrite E1 in A4. destruct (dq_dtail x); cbn in A4 |- *; auto; lia.
    + destruct P as (_ & _ & _ & _ & E1). rewrite E1 in A4. destruct (dq_dtail x); cbn in A4 |- *; auto.
  - destruct (reopen_refines se spE Is) as (s' & Es & I'). rewrite Es in A5.
    rewrite <- (probe_tie Iin Iout s' spE (dq_reopen x) (proj1 I')). exact A5.
Qed.
