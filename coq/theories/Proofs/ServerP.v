(** Proofs about the ExchangeServer model (Model/Server.v). *)
From Coq Require Import ZifyBool ZifyNat ZifyN.
From GH Require Import Base.Prelude Model.Server.

Local Open Scope N_scope.

Lemma two64_val : two64 = 18446744073709551616.
Proof. reflexivity. Qed.

Lemma wrap64_small x : x < two64 -> wrap64 x = x.
Proof. intro H. unfold wrap64. apply N.mod_small. exact H. Qed.

Lemma wrap64_lt x : wrap64 x < two64.
Proof. unfold wrap64. apply N.mod_lt. rewrite two64_val. lia. Qed.

Lemma sub64_le a b : b <= a -> sub64 a b = a - b.
Proof. intro H. unfold sub64. destruct (N.leb_spec b a); [reflexivity | lia]. Qed.

(** ** totality: no request makes the handler panic, for any store at all *)

Lemma get_range_no_crash st from to :
  to - from <= alloc_limit -> fst (get_range st from to) <> Crash.
Proof.
  intro Hs. unfold get_range.
  destruct (to <=? from); cbn; [discriminate|].
  destruct (get_height st (to - 1)); cbn; [|discriminate].
  destruct (N.ltb_spec alloc_limit (to - from)); [lia|].
  destruct (walk_down st (N.to_nat (to - from - 1)) h) as [[l|] rd]; cbn; discriminate.
Qed.

Lemma serve_range_no_crash f st from to pre :
  to - from <= alloc_limit -> fst (serve_range f st from to pre) <> Crash.
Proof.
  intro Hs. unfold serve_range, call_get_range.
  destruct f.
  - pose proof (get_range_no_crash st from to Hs) as Hn.
    destruct (get_range st from to) as [r rd]; cbn in *.
    destruct r as [l|e|]; [discriminate| |congruence].
    destruct e; discriminate.
  - cbn. discriminate.
  - cbn. discriminate.
Qed.

Lemma alloc_limit_val : alloc_limit = 35184372088832.
Proof. reflexivity. Qed.
Lemma max_req_val : max_req = 64.
Proof. reflexivity. Qed.

Lemma handle_head_no_crash f st : fst (handle_head f st) <> Crash.
Proof.
  unfold handle_head, call_head. destruct f; cbn; try discriminate.
  destruct (head_of st); discriminate.
Qed.

Lemma handle_range_no_crash f st from to :
  to < two64 -> fst (handle_range f st from to) <> Crash.
Proof.
  intro Hto. unfold handle_range, handle_range_k, same.
  destruct (N.leb_spec to from) as [Hle|Hlt]; [cbn; discriminate|].
  destruct (from =? 0); [apply handle_head_no_crash|].
  rewrite (sub64_le to from) by lia.
  destruct (N.ltb_spec max_req (to - from)) as [Hbig|Hsmall]; [cbn; discriminate|].
  rewrite max_req_val in Hsmall.
  destruct (has_at st (sub64 to 1)).
  - apply serve_range_no_crash. rewrite alloc_limit_val. lia.
  - unfold call_head. destruct f; cbn; try discriminate.
    destruct (head_of st) as [hd|]; [|cbn; discriminate].
    destruct (N.ltb_spec (h_height hd) from); [cbn; discriminate|].
    rewrite (sub64_le to 1) by lia.
    destruct (N.leb_spec (to - 1) (h_height hd)); [cbn; discriminate|].
    apply serve_range_no_crash.
    rewrite wrap64_small by (rewrite two64_val in *; lia).
    rewrite alloc_limit_val. lia.
Qed.

Lemma status_panic r : status r = Panic -> r = Crash.
Proof. destruct r as [l|e|]; cbn; try discriminate; [destruct e; discriminate | reflexivity]. Qed.

Theorem handle_total : forall f st rq, fst (handle f st rq) <> Panic.
Proof.
  intros f st rq. destruct rq as [o a|id a|]; cbn.
  - pose proof (handle_range_no_crash f st o (wrap64 (o + a)) (wrap64_lt _)) as Hn.
    unfold handle_range in Hn.
    destruct (handle_range_k (same f) st o (wrap64 (o + a))) as [r cs]; cbn in *.
    intro Hp. apply status_panic in Hp. congruence.
  - destruct f; cbn; try discriminate.
    destruct (get_hash st id); discriminate.
  - discriminate.
Qed.

(** ** list facts *)

Lemma nodupb_find {A} (f : A -> N) (l : list A) (h : A) :
  nodupb (map f l) = true -> In h l -> find (fun x => f x =? f h) l = Some h.
Proof.
  induction l as [|x r IH]; cbn; intros Hn Hin; [contradiction|].
  apply andb_true_iff in Hn as [Hx Hr].
  destruct Hin as [->|Hin].
  - rewrite N.eqb_refl. reflexivity.
  - destruct (N.eqb_spec (f x) (f h)) as [E|E].
    + exfalso. apply negb_true_iff in Hx.
      assert (existsb (N.eqb (f x)) (map f r) = true) as Hc.
      { apply existsb_exists. exists (f h). split; [apply in_map; exact Hin | apply N.eqb_eq; exact E]. }
      congruence.
    + apply IH; assumption.
Qed.

Lemma find_none_forallb {A} (p : A -> bool) (l : list A) :
  forallb (fun x => negb (p x)) l = true -> find p l = None.
Proof.
  induction l as [|x r IH]; cbn; intro H; [reflexivity|].
  apply andb_true_iff in H as [Hx Hr]. apply negb_true_iff in Hx. rewrite Hx. auto.
Qed.

Lemma nth_error_skipn' {A} (l : list A) a n : nth_error (skipn a l) n = nth_error l (a + n).
Proof.
  revert l. induction a as [|a IH]; intro l; cbn; [reflexivity|].
  destruct l; cbn; [destruct n; reflexivity | apply IH].
Qed.

Lemma firstn_succ_snoc {A} (l : list A) n h :
  nth_error l n = Some h -> firstn (S n) l = firstn n l ++ [h].
Proof.
  revert l. induction n as [|n IH]; intros l H; destruct l as [|x r]; cbn in *; try discriminate.
  - injection H as ->. reflexivity.
  - f_equal. apply IH. exact H.
Qed.

Lemma nth_error_firstn' {A} (l : list A) k j : (j < k)%nat -> nth_error (firstn k l) j = nth_error l j.
Proof.
  revert l j. induction k as [|k IH]; intros l j H; [lia|].
  destruct l as [|x r]; cbn; [destruct j; reflexivity|].
  destruct j; cbn; [reflexivity|]. apply IH. lia.
Qed.

Lemma last_cons {A} (r : list A) (x h : A) : last (x :: r) h = last r x.
Proof.
  revert x h. induction r as [|y r IH]; intros x h; [reflexivity|].
  change (last (x :: y :: r) h) with (last (y :: r) h). rewrite IH. symmetry. apply IH.
Qed.

Lemma last_nth_error {A} (r : list A) (h : A) : nth_error (h :: r) (length r) = Some (last r h).
Proof.
  revert h. induction r as [|x r IH]; intro h; [reflexivity|].
  cbn [length nth_error]. rewrite IH. f_equal. symmetry. apply last_cons.
Qed.

Lemma in_down_from top n x : In x (down_from top n) -> x <= top /\ top < x + N.of_nat n.
Proof.
  revert top. induction n as [|n IH]; intros top H; cbn in H; [contradiction|].
  destruct H as [<-|H]; [lia|]. apply IH in H. lia.
Qed.

Lemma length_down_from top n : length (down_from top n) = n.
Proof. revert top. induction n; intro top; cbn; auto. Qed.

Lemma nodup_down_from top n : (N.of_nat n <= top + 1) -> NoDup (down_from top n).
Proof.
  revert top. induction n as [|n IH]; intros top H; cbn; constructor.
  - intro Hin. apply in_down_from in Hin. lia.
  - apply IH. lia.
Qed.

(** ** consequences of [wf_store] *)

Lemma linked_height p n l i h :
  linked p n l = true -> nth_error l i = Some h -> h_height h = n + N.of_nat i.
Proof.
  revert p n i. induction l as [|x r IH]; intros p n i Hl Hn; [destruct i; discriminate|].
  cbn in Hl. apply andb_true_iff in Hl as [Hl Hr]. apply andb_true_iff in Hl as [Hh _].
  destruct i; cbn in Hn.
  - injection Hn as <-. apply N.eqb_eq in Hh. lia.
  - rewrite (IH _ _ _ Hr Hn). lia.
Qed.

Lemma linked_link p n l i h h' :
  linked p n l = true -> nth_error l i = Some h -> nth_error l (S i) = Some h' -> h_prev h' = h_id h.
Proof.
  revert p n i. induction l as [|x r IH]; intros p n i Hl Hn Hn'; [destruct i; discriminate|].
  cbn in Hl. apply andb_true_iff in Hl as [Hl Hr].
  destruct i; cbn in Hn, Hn'.
  - injection Hn as <-. destruct r as [|y r']; [discriminate|]. cbn in Hn'. injection Hn' as <-.
    cbn in Hr. apply andb_true_iff in Hr as [Hr _]. apply andb_true_iff in Hr as [_ Hp].
    apply N.eqb_eq. exact Hp.
  - eapply IH; eauto.
Qed.

Section WF.
  Variable st : store.
  Hypothesis wf : wf_store st.

  Let chain := s_chain st.
  Let T := tail_h st.

  Lemma wf_parts :
    linked None T chain = true
    /\ match chain with
       | [] => True
       | t :: _ => 1 <= h_height t /\ forallb (fun h => negb (h_id h =? h_prev t)) (all_hdrs st) = true
       end
    /\ forallb (fun h => h_height h <? two64) (all_hdrs st) = true
    /\ nodupb (map h_id (all_hdrs st)) = true
    /\ nodupb (map h_height (all_hdrs st)) = true.
  Proof.
    unfold wf_store, wf_storeb in wf.
    apply andb_true_iff in wf as [wf0 _]. apply andb_true_iff in wf0 as [wf0 _].
    unfold wf_core in wf0. fold chain T in wf0.
    repeat (apply andb_true_iff in wf0 as [wf0 ?]).
    repeat split; try assumption.
    destruct chain; [exact I|]. apply andb_true_iff in H2 as [Ha Hb]. split; [lia | exact Hb].
  Qed.

  Lemma wf_height i h : nth_error chain i = Some h -> h_height h = T + N.of_nat i.
  Proof. intro H. destruct wf_parts as [Hl _]. eapply linked_height; eauto. Qed.

  Lemma wf_in_all i h : nth_error chain i = Some h -> In h (all_hdrs st).
  Proof. intro H. unfold all_hdrs. apply in_or_app. left. eapply nth_error_In; eauto. Qed.

  Lemma wf_lt64 h : In h (all_hdrs st) -> h_height h < two64.
  Proof.
    intro H. destruct wf_parts as (_ & _ & Hb & _).
    rewrite forallb_forall in Hb. specialize (Hb _ H). lia.
  Qed.

  Lemma wf_get_hash i h : nth_error chain i = Some h -> get_hash st (h_id h) = Some h.
  Proof.
    intro H. destruct wf_parts as (_ & _ & _ & Hi & _).
    unfold get_hash. apply (nodupb_find h_id); [exact Hi | eapply wf_in_all; eauto].
  Qed.

  Lemma wf_get_height i h : nth_error chain i = Some h -> get_height st (T + N.of_nat i) = Some h.
  Proof.
    intro H. destruct wf_parts as (_ & _ & _ & _ & Hh).
    unfold get_height. rewrite <- (wf_height _ _ H).
    apply (nodupb_find h_height); [exact Hh | eapply wf_in_all; eauto].
  Qed.

  Lemma wf_tail_pos : chain <> [] -> 1 <= T.
  Proof.
    intro Hne. destruct wf_parts as (_ & Ht & _). subst T. unfold tail_h, tail_of. fold chain.
    destruct chain; [congruence|]. cbn. tauto.
  Qed.

  Lemma wf_head_h : chain <> [] -> head_h st = T + N.of_nat (length chain) - 1
                                  /\ nth_error chain (length chain - 1) = head_of st.
  Proof.
    intro Hne. unfold head_h, head_of. fold chain.
    destruct chain as [|t r] eqn:E; [congruence|].
    pose proof (last_nth_error r t) as Hl.
    assert (nth_error chain (length r) = Some (last r t)) as Hl' by (rewrite E; exact Hl).
    rewrite (wf_height _ _ Hl'). cbn [length]. split; [lia|].
    replace (S (length r) - 1)%nat with (length r) by lia. exact Hl.
  Qed.

  Lemma wf_below_tail t : nth_error chain 0 = Some t -> get_hash st (h_prev t) = None.
  Proof.
    intro H. destruct wf_parts as (_ & Ht & _).
    destruct chain as [|t' r]; [discriminate|]. cbn in H. injection H as ->.
    destruct Ht as [_ Hf]. unfold get_hash. apply find_none_forallb. exact Hf.
  Qed.

  (** the walk of getRangeByHeight stays on the chain and stops below the tail *)
  Lemma walk_ok k : forall i h, nth_error chain i = Some h -> (k <= i)%nat ->
    walk_down st k h = (Some (firstn (S k) (skipn (i - k) chain)), down_from (T + N.of_nat i - 1) k).
  Proof.
    induction k as [|k IH]; intros i h Hn Hk; cbn [walk_down down_from].
    - rewrite Nat.sub_0_r. f_equal.
      rewrite (firstn_succ_snoc _ 0 h); [reflexivity|]. rewrite nth_error_skipn'. rewrite Nat.add_0_r. exact Hn.
    - destruct i as [|i]; [lia|].
      destruct (nth_error chain i) as [p|] eqn:Hp.
      2:{ apply nth_error_None in Hp. assert (S i < length chain)%nat by (apply nth_error_Some; congruence). lia. }
      destruct wf_parts as (Hl & _).
      rewrite (linked_link _ _ _ _ _ _ Hl Hp Hn). rewrite (wf_get_hash _ _ Hp).
      rewrite (IH i p Hp) by lia.
      cbn [option_map]. rewrite (wf_height _ _ Hp).
      replace (S i - S k)%nat with (i - k)%nat by lia.
      f_equal.
      + f_equal. symmetry. apply firstn_succ_snoc. rewrite nth_error_skipn'.
        replace (i - k + S k)%nat with (S i) by lia. exact Hn.
      + f_equal; [lia|]. f_equal. lia.
  Qed.

  Lemma walk_fail k : forall i h, nth_error chain i = Some h -> (i < k)%nat ->
    walk_down st k h = (None, down_from (T + N.of_nat i - 1) (S i)).
  Proof.
    induction k as [|k IH]; intros i h Hn Hk; [lia|]. cbn [walk_down].
    destruct i as [|i].
    - rewrite (wf_below_tail _ Hn). rewrite (wf_height _ _ Hn).
      assert (1 <= T) by (apply wf_tail_pos; intro E; rewrite E in Hn; discriminate).
      rewrite sub64_le by lia. reflexivity.
    - destruct (nth_error chain i) as [p|] eqn:Hp.
      2:{ apply nth_error_None in Hp. assert (S i < length chain)%nat by (apply nth_error_Some; congruence). lia. }
      destruct wf_parts as (Hl & _).
      rewrite (linked_link _ _ _ _ _ _ Hl Hp Hn). rewrite (wf_get_hash _ _ Hp).
      rewrite (IH i p Hp) by lia. cbn [option_map]. rewrite (wf_height _ _ Hp).
      cbn [down_from]. f_equal. repeat (first [lia | f_equal]).
  Qed.

  (** Store.GetRange on a range whose top is inside Tail..Head *)
  Lemma get_range_spec from to :
    from < to -> T <= to - 1 -> to - 1 <= head_h st -> chain <> [] -> to - from <= alloc_limit ->
    get_range st from to =
      if T <=? from
      then (Ret (seg st from (N.to_nat (to - from))), down_from (to - 1) (N.to_nat (to - from)))
      else (Fail ENotFound, down_from (to - 1) (N.to_nat (to - T + 1))).
  Proof.
    intros Hft HT Hhd Hne Hal.
    destruct (wf_head_h Hne) as [Hh _].
    unfold get_range. destruct (N.leb_spec to from); [lia|].
    assert (length chain <> 0)%nat as Hlen by (destruct chain; cbn; congruence).
    set (i := N.to_nat (to - 1 - T)).
    assert (i < length chain)%nat as Hi by (subst i; lia).
    destruct (nth_error chain i) as [h|] eqn:Hn; [|apply nth_error_None in Hn; lia].
    replace (to - 1) with (T + N.of_nat i) at 1 by lia.
    rewrite (wf_get_height _ _ Hn).
    destruct (N.ltb_spec alloc_limit (to - from)); [lia|].
    destruct (N.leb_spec T from) as [Hge|Hlt].
    - rewrite (walk_ok _ i h Hn) by lia.
      unfold seg. fold T chain.
      set (k := N.to_nat (to - from - 1)).
      replace (N.to_nat (to - from)) with (S k) by lia.
      replace (i - k)%nat with (N.to_nat (from - T)) by lia.
      cbn [down_from].
      replace (T + N.of_nat i - 1) with (to - 1 - 1) by lia. reflexivity.
    - rewrite (walk_fail _ i h Hn) by lia.
      replace (N.to_nat (to - T + 1)) with (S (S i)) by lia.
      cbn [down_from].
      replace (T + N.of_nat i - 1) with (to - 1 - 1) by lia. reflexivity.
  Qed.

  Lemma has_at_spec n : chain <> [] -> has_at st n = (T <=? n) && (n <=? head_h st).
  Proof.
    intro Hne. pose proof (wf_tail_pos Hne) as Hp.
    unfold has_at, head_h. unfold T, tail_h in *. unfold head_of, tail_of in *. unfold chain in Hne.
    destruct (s_chain st) as [|t r]; [congruence|]. cbn [hd_error] in *.
    destruct (N.eqb_spec n 0) as [->|Hn].
    - destruct (N.leb_spec (h_height t) 0); [lia | reflexivity].
    - apply andb_comm.
  Qed.

  Lemma seg_length o k : T <= o -> o + N.of_nat k <= head_h st + 1 -> chain <> [] -> length (seg st o k) = k.
  Proof.
    intros Ho Hk Hne. destruct (wf_head_h Hne) as [Hh _]. pose proof (wf_tail_pos Hne) as Hp. unfold seg. fold T chain.
    rewrite firstn_length, skipn_length. lia.
  Qed.

  Lemma seg_nth o k j : T <= o -> (j < k)%nat ->
    nth_error (seg st o k) j = nth_error chain (N.to_nat (o - T) + j).
  Proof.
    intros Ho Hj. unfold seg. fold T chain. rewrite nth_error_firstn' by lia. apply nth_error_skipn'.
  Qed.

  (** [seg] really is "the store's headers at o, o+1, ...": position j holds what
      the store returns for height o + j *)
  Lemma seg_get_height o k j : T <= o -> o + N.of_nat k <= head_h st + 1 -> chain <> [] -> (j < k)%nat ->
    nth_error (seg st o k) j = get_height st (o + N.of_nat j)
    /\ exists h, get_height st (o + N.of_nat j) = Some h /\ h_height h = o + N.of_nat j /\ In h chain.
  Proof.
    intros Ho Hk Hne Hj. destruct (wf_head_h Hne) as [Hh _]. pose proof (wf_tail_pos Hne) as Hp.
    rewrite seg_nth by assumption.
    set (i := (N.to_nat (o - T) + j)%nat).
    destruct (nth_error chain i) as [h|] eqn:Hn; [|apply nth_error_None in Hn; lia].
    replace (o + N.of_nat j) with (T + N.of_nat i) by lia.
    rewrite (wf_get_height _ _ Hn). split; [reflexivity|].
    exists h. repeat split; [apply wf_height; exact Hn | eapply nth_error_In; eauto].
  Qed.
End WF.

(** ** the handler on range requests against a well-formed, healthy store:
    reply and call log in closed form *)

Definition is_empty (st : store) : bool := match s_chain st with [] => true | _ => false end.

Definition origin_spec (st : store) (o a : N) : reply * list call :=
  let T := tail_h st in
  let Hd := head_h st in
  let top := o + a - 1 in
  if (a =? 0) || (two64 <=? o + a) || (max_req <? a) then (Reset, [])
  else if is_empty st then (Reset, [CHasAt top; CHead])
  else if (T <=? top) && (top <=? Hd) then
    if T <=? o
    then (Ok (seg st o (N.to_nat a)), [CHasAt top; CGetRange o (o + a) (down_from top (N.to_nat a)) a])
    else (NotFound, [CHasAt top; CGetRange o (o + a) (down_from top (N.to_nat (o + a - T + 1))) 0])
  else if Hd <? o then (NotFound, [CHasAt top; CHead])
  else if top <=? Hd then (NotFound, [CHasAt top; CHead])
  else if T <=? o
    then (Ok (seg st o (N.to_nat (Hd + 1 - o))),
          [CHasAt top; CHead; CGetRange o (Hd + 1) (down_from Hd (N.to_nat (Hd + 1 - o))) (Hd + 1 - o)])
    else (NotFound, [CHasAt top; CHead; CGetRange o (Hd + 1) (down_from Hd (N.to_nat (Hd + 1 - T + 1))) 0]).

Lemma wrap64_over x : two64 <= x -> x < two64 + two64 -> wrap64 x = x - two64.
Proof.
  intros H1 H2. unfold wrap64. symmetry. apply N.mod_unique with (q := 1); rewrite two64_val in *; lia.
Qed.

Lemma head_of_height st h : head_of st = Some h -> h_height h = head_h st.
Proof. intro H. unfold head_h. rewrite H. reflexivity. Qed.

Lemma is_empty_false st : is_empty st = false -> s_chain st <> [].
Proof. unfold is_empty. destruct (s_chain st); [discriminate | discriminate]. Qed.

Lemma head_of_nonempty st : s_chain st <> [] -> exists h, head_of st = Some h.
Proof. unfold head_of. destruct (s_chain st) as [|t r]; [congruence|]. eauto. Qed.

Lemma serve_range_spec st pre from to :
  wf_store st -> from < to -> tail_h st <= to - 1 -> to - 1 <= head_h st -> s_chain st <> [] -> to - from <= max_req ->
  serve_range FNone st from to pre =
    if tail_h st <=? from
    then (Ret (seg st from (N.to_nat (to - from))),
          pre ++ [CGetRange from to (down_from (to - 1) (N.to_nat (to - from))) (to - from)])
    else (Fail ENotFound,
          pre ++ [CGetRange from to (down_from (to - 1) (N.to_nat (to - tail_h st + 1))) 0]).
Proof.
  intros wf Hft HT Hhd Hne Hsm.
  unfold serve_range, call_get_range.
  rewrite (get_range_spec st wf from to) by (try assumption; rewrite alloc_limit_val; rewrite max_req_val in Hsm; lia).
  destruct (N.leb_spec (tail_h st) from) as [Hge|Hlt]; [|reflexivity].
  rewrite (seg_length st wf) by (try assumption; lia).
  rewrite N2Nat.id. reflexivity.
Qed.

Lemma handle_origin_spec st o a :
  wf_store st -> 1 <= o -> o < two64 -> a < two64 ->
  handle FNone st (ROrigin o a) = origin_spec st o a.
Proof.
  intros wf Ho1 Ho Ha. unfold origin_spec. unfold handle, handle_k, handle_range, handle_range_k, same.
  destruct (N.eqb_spec a 0) as [->|Ha0]; cbn [orb].
  { rewrite N.add_0_r, wrap64_small by exact Ho. destruct (N.leb_spec o o); [reflexivity | lia]. }
  destruct (N.leb_spec two64 (o + a)) as [Hov|Hno]; cbn [orb].
  { rewrite wrap64_over by lia. destruct (N.leb_spec (o + a - two64) o); [reflexivity | lia]. }
  rewrite wrap64_small by exact Hno.
  destruct (N.leb_spec (o + a) o); [lia|].
  destruct (N.eqb_spec o 0); [lia|].
  rewrite (sub64_le (o + a) o) by lia. replace (o + a - o) with a by lia.
  destruct (N.ltb_spec max_req a) as [Hbig|Hsm]; [reflexivity|].
  rewrite (sub64_le (o + a) 1) by lia.
  destruct (is_empty st) eqn:Hem.
  { unfold is_empty in Hem. unfold has_at, call_head, head_of, tail_of.
    destruct (s_chain st); [|discriminate]. destruct (o + a - 1 =? 0); reflexivity. }
  apply is_empty_false in Hem.
  rewrite (has_at_spec st wf) by exact Hem.
  destruct (wf_head_h st wf Hem) as [Hh _].
  pose proof (wf_tail_pos st wf Hem) as Htp.
  assert (length (s_chain st) <> 0)%nat as Hlen by (destruct (s_chain st); cbn; congruence).
  destruct (N.leb_spec (tail_h st) (o + a - 1)) as [HT|HT]; cbn [andb].
  - destruct (N.leb_spec (o + a - 1) (head_h st)) as [HH|HH].
    + rewrite (serve_range_spec st [CHasAt (o + a - 1)] o (o + a) wf) by (try assumption; lia).
      replace (o + a - o) with a by lia.
      destruct (tail_h st <=? o); reflexivity.
    + destruct (head_of_nonempty st Hem) as [hd Hhd]. unfold call_head. rewrite Hhd.
      rewrite (head_of_height _ _ Hhd).
      destruct (N.ltb_spec (head_h st) o); [reflexivity|].
      destruct (N.leb_spec (o + a - 1) (head_h st)); [lia|].
      rewrite wrap64_small by lia.
      rewrite (serve_range_spec st [CHasAt (o + a - 1); CHead] o (head_h st + 1) wf) by (try assumption; rewrite ?max_req_val in *; lia).
      replace (head_h st + 1 - 1) with (head_h st) by lia.
      destruct (tail_h st <=? o); reflexivity.
  - destruct (head_of_nonempty st Hem) as [hd Hhd]. unfold call_head. rewrite Hhd.
    rewrite (head_of_height _ _ Hhd).
    destruct (N.ltb_spec (head_h st) o); [reflexivity|].
    destruct (N.leb_spec (o + a - 1) (head_h st)); [reflexivity|lia].
Qed.

(** ** bounded work *)

(** every store, every fault: the arguments of the range reads *)
Lemma serve_range_calls f st from to pre :
  exists rd n, snd (serve_range f st from to pre) = pre ++ [CGetRange from to rd n].
Proof.
  unfold serve_range, call_get_range. destruct f.
  - destruct (get_range st from to) as [r rd]. eexists _, _. cbn. reflexivity.
  - eexists _, _. cbn. reflexivity.
  - eexists _, _. cbn. reflexivity.
Qed.

Definition range_args_ok (o a : N) (c : N * N * list N * N) : Prop :=
  let '(from, to, _, _) := c in
  from = o /\ o < to /\ to <= o + a /\ to - from <= N.min a max_req.

Lemma handle_range_calls f st o a :
  o < two64 -> a < two64 ->
  let cs := range_calls (snd (handle_range f st o (wrap64 (o + a)))) in
  (length cs <= 1)%nat /\ Forall (range_args_ok o a) cs.
Proof.
  intros Ho Ha. unfold handle_range, handle_range_k, same.
  destruct (N.leb_spec (wrap64 (o + a)) o) as [Hle|Hlt]; [cbn; split; [lia | constructor]|].
  destruct (N.eqb_spec o 0) as [->|Ho0]; [cbn; split; [lia | constructor]|].
  assert (o + a < two64) as Hno.
  { destruct (N.lt_ge_cases (o + a) two64) as [H|H]; [exact H|].
    rewrite wrap64_over in Hlt by lia. lia. }
  rewrite wrap64_small in * by exact Hno.
  rewrite (sub64_le (o + a) o) by lia. rewrite (sub64_le (o + a) 1) by lia.
  destruct (N.ltb_spec max_req (o + a - o)) as [Hbig|Hsm]; [cbn; split; [lia | constructor]|].
  destruct (has_at st (o + a - 1)).
  - destruct (serve_range_calls f st o (o + a) [CHasAt (o + a - 1)]) as (rd & n & ->).
    cbn. split; [lia|]. constructor; [|constructor]. cbn. lia.
  - destruct (call_head f st) as [hd|e|]; [|cbn; split; [lia | constructor]..].
    destruct (N.ltb_spec (h_height hd) o); [cbn; split; [lia | constructor]|].
    destruct (N.leb_spec (o + a - 1) (h_height hd)); [cbn; split; [lia | constructor]|].
    rewrite wrap64_small by lia.
    destruct (serve_range_calls f st o (h_height hd + 1) [CHasAt (o + a - 1); CHead]) as (rd & n & ->).
    cbn. split; [lia|]. constructor; [|constructor]. cbn. rewrite max_req_val in *. lia.
Qed.

Lemma handle_fst_snd f st o a :
  handle f st (ROrigin o a) =
  (status (fst (handle_range f st o (wrap64 (o + a)))), snd (handle_range f st o (wrap64 (o + a)))).
Proof. unfold handle, handle_k, handle_range. destruct (handle_range_k (same f) st o (wrap64 (o + a))). reflexivity. Qed.

Theorem origin_bounded_calls : forall f st o a, o < two64 -> a < two64 ->
  let cs := range_calls (snd (handle f st (ROrigin o a))) in
  (length cs <= 1)%nat /\ Forall (range_args_ok o a) cs.
Proof. intros f st o a Ho Ha. rewrite handle_fst_snd. cbn [snd]. apply handle_range_calls; assumption. Qed.

(** the heights a request makes the store touch *)
Definition reads_ok (o a : N) (rd : list N) : Prop :=
  (forall n, In n rd -> o <= n /\ n < o + a) /\ N.of_nat (length rd) <= N.min a max_req /\ NoDup rd.

Lemma reads_ok_nil o a : reads_ok o a [].
Proof. split; [|split]; [intros x [] | cbn; lia | constructor]. Qed.

Lemma reads_ok_down o a top k :
  o + N.of_nat k <= top + 1 -> top < o + a -> N.of_nat k <= N.min a max_req -> reads_ok o a (down_from top k).
Proof.
  intros H1 H2 H3. split; [|split].
  - intros x H. apply in_down_from in H. lia.
  - rewrite length_down_from. exact H3.
  - apply nodup_down_from. lia.
Qed.

Lemma fault_no_reads f st from to :
  f <> FNone -> heights_read (snd (handle_range f st from to)) = [].
Proof.
  intro Hf. unfold handle_range, handle_range_k, same.
  destruct (to <=? from); [reflexivity|]. destruct (from =? 0); [reflexivity|].
  destruct (max_req <? sub64 to from); [reflexivity|].
  unfold serve_range, call_get_range, call_head.
  destruct f; [congruence| |]; destruct (has_at st (sub64 to 1)); reflexivity.
Qed.

Theorem origin_bounded_reads : forall f st o a, wf_store st -> o < two64 -> a < two64 ->
  reads_ok o a (heights_read (snd (handle f st (ROrigin o a)))).
Proof.
  intros f st o a wf Ho Ha.
  destruct f.
  2,3: rewrite handle_fst_snd; cbn [snd]; rewrite fault_no_reads by discriminate; apply reads_ok_nil.
  destruct (N.eqb_spec o 0) as [->|Ho0].
  { rewrite handle_fst_snd. cbn [snd]. unfold handle_range, handle_range_k, same.
    destruct (wrap64 (0 + a) <=? 0); cbn; apply reads_ok_nil. }
  rewrite handle_origin_spec by (try assumption; lia). unfold origin_spec.
  destruct (N.eqb_spec a 0); cbn [orb]; [apply reads_ok_nil|].
  destruct (N.leb_spec two64 (o + a)); cbn [orb]; [apply reads_ok_nil|].
  destruct (N.ltb_spec max_req a) as [|Hsm]; [apply reads_ok_nil|].
  destruct (is_empty st) eqn:Hem; [apply reads_ok_nil|].
  apply is_empty_false in Hem.
  destruct (wf_head_h st wf Hem) as [Hh _].
  pose proof (wf_tail_pos st wf Hem) as Htp.
  assert (length (s_chain st) <> 0)%nat as Hlen by (destruct (s_chain st); cbn; congruence).
  rewrite max_req_val in Hsm.
  destruct (N.leb_spec (tail_h st) (o + a - 1)); cbn [andb].
  - destruct (N.leb_spec (o + a - 1) (head_h st)).
    + destruct (N.leb_spec (tail_h st) o); cbn; rewrite app_nil_r; apply reads_ok_down; rewrite ?max_req_val; lia.
    + destruct (N.ltb_spec (head_h st) o); [apply reads_ok_nil|].
      destruct (N.leb_spec (tail_h st) o); cbn; rewrite app_nil_r; apply reads_ok_down; rewrite ?max_req_val; lia.
  - destruct (N.ltb_spec (head_h st) o); [apply reads_ok_nil|].
    destruct (N.leb_spec (o + a - 1) (head_h st)); [apply reads_ok_nil|lia].
Qed.

(** head, hash and undecodable requests read no height at all *)
Theorem other_requests_no_range_reads : forall f st id a,
  range_calls (snd (handle f st (RHash id a))) = [] /\ get_calls (snd (handle f st (RHash id a))) = [id]
  /\ snd (handle f st RInvalid) = []
  /\ (a < two64 -> range_calls (snd (handle f st (ROrigin 0 a))) = [] /\ get_calls (snd (handle f st (ROrigin 0 a))) = []).
Proof.
  intros f st id a. repeat split; try reflexivity.
  - rewrite handle_fst_snd. cbn [snd]. unfold handle_range, handle_range_k, same. destruct (wrap64 (0 + a) <=? 0); reflexivity.
  - rewrite handle_fst_snd. cbn [snd]. unfold handle_range, handle_range_k, same. destruct (wrap64 (0 + a) <=? 0); reflexivity.
Qed.

(** ** replies *)

Definition range_reply (st : store) (o a : N) : reply :=
  if (a =? 0) || (two64 <=? o + a) || (max_req <? a) then Reset
  else if is_empty st then Reset
  else if (o <? tail_h st) || (head_h st <? o) then NotFound
  else Ok (seg st o (N.to_nat (N.min a (head_h st - o + 1)))).

Theorem origin_reply_exact : forall st o a, wf_store st -> 1 <= o -> o < two64 -> a < two64 ->
  fst (handle FNone st (ROrigin o a)) = range_reply st o a.
Proof.
  intros st o a wf Ho1 Ho Ha. rewrite handle_origin_spec by assumption.
  unfold origin_spec, range_reply.
  destruct ((a =? 0) || (two64 <=? o + a) || (max_req <? a)) eqn:Hbad; [reflexivity|].
  destruct (is_empty st) eqn:Hem; [reflexivity|].
  apply is_empty_false in Hem.
  destruct (wf_head_h st wf Hem) as [Hh _].
  pose proof (wf_tail_pos st wf Hem) as Htp.
  assert (length (s_chain st) <> 0)%nat as Hlen by (destruct (s_chain st); cbn; congruence).
  rewrite max_req_val in Hbad.
  destruct (N.leb_spec (tail_h st) (o + a - 1)); cbn [andb].
  - destruct (N.leb_spec (o + a - 1) (head_h st)).
    + destruct (N.leb_spec (tail_h st) o); destruct (N.ltb_spec o (tail_h st)); try lia; cbn [fst orb].
      * destruct (N.ltb_spec (head_h st) o); [lia|]. do 2 f_equal. lia.
      * reflexivity.
    + destruct (N.ltb_spec (head_h st) o); cbn [fst].
      * rewrite orb_true_r. reflexivity.
      * destruct (N.leb_spec (tail_h st) o); destruct (N.ltb_spec o (tail_h st)); try lia; cbn [fst orb]; [|reflexivity].
        do 2 f_equal. lia.
  - destruct (N.ltb_spec (head_h st) o); cbn [fst].
    + rewrite orb_true_r. reflexivity.
    + destruct (N.leb_spec (o + a - 1) (head_h st)); [|lia]. cbn [fst].
      destruct (N.ltb_spec o (tail_h st)); [reflexivity|lia].
Qed.

Lemma fault_eq_dec_none (f : fault) : f = FNone \/ f <> FNone.
Proof. destruct f; [left; reflexivity | right; discriminate | right; discriminate]. Qed.

Lemma fault_refuses f st rq : f <> FNone -> fst (handle f st rq) = Reset \/ fst (handle f st rq) = NotFound.
Proof.
  intro Hf. destruct rq as [o a|id a|]; [| |left; reflexivity].
  - rewrite handle_fst_snd. cbn [fst]. unfold handle_range, handle_range_k, same.
    destruct (wrap64 (o + a) <=? o); [left; reflexivity|].
    destruct (o =? 0); [destruct f; [congruence|left; reflexivity..]|].
    destruct (max_req <? sub64 (wrap64 (o + a)) o); [left; reflexivity|].
    unfold serve_range, call_get_range, call_head.
    destruct f; [congruence| |]; destruct (has_at st (sub64 (wrap64 (o + a)) 1)); cbn; auto.
  - destruct f; [congruence|left; reflexivity..].
Qed.

(** the shape of an answer to a range request (origin <> 0) *)
Definition range_answer_ok (st : store) (o a : N) (r : reply) : Prop :=
  r = NotFound \/ r = Reset \/
  exists l, r = Ok l
    /\ (1 <= length l)%nat /\ N.of_nat (length l) <= a
    /\ tail_h st <= o /\ o + N.of_nat (length l) - 1 <= head_h st
    /\ (forall j, (j < length l)%nat ->
          exists h, nth_error l j = Some h /\ get_height st (o + N.of_nat j) = Some h
                    /\ h_height h = o + N.of_nat j /\ In h (s_chain st))
    /\ (N.of_nat (length l) < a -> o + N.of_nat (length l) - 1 = head_h st).

Theorem origin_reply_shape : forall f st o a, wf_store st -> 1 <= o -> o < two64 -> a < two64 ->
  range_answer_ok st o a (fst (handle f st (ROrigin o a))).
Proof.
  intros f st o a wf Ho1 Ho Ha. unfold range_answer_ok.
  destruct (fault_eq_dec_none f) as [->|Hf].
  2:{ destruct (fault_refuses f st (ROrigin o a) Hf) as [->| ->]; auto. }
  rewrite origin_reply_exact by assumption. unfold range_reply.
  destruct ((a =? 0) || (two64 <=? o + a) || (max_req <? a)) eqn:Hbad; [auto|].
  destruct (is_empty st) eqn:Hem; [auto|].
  destruct ((o <? tail_h st) || (head_h st <? o)) eqn:Hout; [auto|].
  right. right.
  apply is_empty_false in Hem.
  destruct (wf_head_h st wf Hem) as [Hh _].
  pose proof (wf_tail_pos st wf Hem) as Htp.
  assert (length (s_chain st) <> 0)%nat as Hlen by (destruct (s_chain st); cbn; congruence).
  rewrite max_req_val in Hbad.
  set (k := N.to_nat (N.min a (head_h st - o + 1))).
  assert (length (seg st o k) = k) as Hk by (apply seg_length; try assumption; lia).
  exists (seg st o k). rewrite Hk.
  split; [reflexivity|]. repeat split; try lia.
  intros j Hj.
  destruct (seg_get_height st wf o k j) as [E (h & Hg & Hht & Hin)]; try assumption; try lia.
  exists h. rewrite E. auto.
Qed.

(** ** head and hash requests *)

Theorem head_request : forall st a, 1 <= a -> a < two64 ->
  handle FNone st (ROrigin 0 a) =
  (match head_of st with Some h => Ok [h] | None => Reset end, [CHead]).
Proof.
  intros st a H1 Ha. unfold handle, handle_k, handle_range, handle_range_k, same.
  rewrite N.add_0_l, wrap64_small by exact Ha.
  destruct (N.leb_spec a 0); [lia|]. cbn [N.eqb].
  unfold handle_head, call_head. destruct (head_of st); reflexivity.
Qed.

Theorem empty_request : forall f st o, o < two64 -> handle f st (ROrigin o 0) = (Reset, []).
Proof.
  intros f st o Ho. unfold handle, handle_k, handle_range, handle_range_k, same.
  rewrite N.add_0_r, wrap64_small by exact Ho.
  destruct (N.leb_spec o o); [reflexivity|lia].
Qed.

Theorem hash_request : forall st, wf_store st -> forall id a,
  (forall h, In h (all_hdrs st) -> h_id h = id -> handle FNone st (RHash id a) = (Ok [h], [CGet id]))
  /\ ((forall h, In h (all_hdrs st) -> h_id h <> id) -> handle FNone st (RHash id a) = (NotFound, [CGet id])).
Proof.
  intros st wf id a. split.
  - intros h Hin <-. cbn. unfold get_hash.
    destruct (wf_parts st wf) as (_ & _ & _ & Hi & _).
    rewrite (nodupb_find h_id _ h Hi Hin). reflexivity.
  - intro Hno. cbn. unfold get_hash.
    destruct (find (fun h => h_id h =? id) (all_hdrs st)) as [h|] eqn:E; [|reflexivity].
    apply find_some in E as [Hin He]. apply N.eqb_eq in He. exfalso. exact (Hno h Hin He).
Qed.

(** ** only true store data, for every store (well-formed or not) and fault *)

Lemma walk_down_in st k : forall h l rd, In h (all_hdrs st) -> walk_down st k h = (Some l, rd) ->
  forall x, In x l -> In x (all_hdrs st).
Proof.
  induction k as [|k IH]; intros h l rd Hh Hw x Hx; cbn in Hw.
  - injection Hw as <- _. destruct Hx as [<-|[]]. exact Hh.
  - destruct (get_hash st (h_prev h)) as [p|] eqn:Hp; [|discriminate].
    destruct (walk_down st k p) as [[l'|] rd'] eqn:Hw'; cbn in Hw; [|discriminate].
    injection Hw as <- _. apply in_app_or in Hx as [Hx|[<-|[]]]; [|exact Hh].
    unfold get_hash in Hp. apply find_some in Hp as [Hp _]. eapply IH; eauto.
Qed.

Lemma get_range_in st from to l rd : get_range st from to = (Ret l, rd) -> forall x, In x l -> In x (all_hdrs st).
Proof.
  unfold get_range. destruct (to <=? from); [discriminate|].
  destruct (get_height st (to - 1)) as [h|] eqn:Hh; [|discriminate].
  destruct (alloc_limit <? to - from); [discriminate|].
  destruct (walk_down st (N.to_nat (to - from - 1)) h) as [[l'|] rd'] eqn:Hw; [|discriminate].
  intro E. injection E as <- _. unfold get_height in Hh. apply find_some in Hh as [Hh _].
  eapply walk_down_in; eauto.
Qed.

Lemma serve_range_in f st from to pre l cs :
  serve_range f st from to pre = (Ret l, cs) -> forall x, In x l -> In x (all_hdrs st).
Proof.
  unfold serve_range, call_get_range. destruct f; [|cbn; discriminate..].
  destruct (get_range st from to) as [r rd] eqn:Hg. destruct r as [l'|e|]; [|destruct e; discriminate|discriminate].
  intro E. injection E as <- _. eapply get_range_in; eauto.
Qed.

Lemma head_of_in st h : head_of st = Some h -> In h (all_hdrs st).
Proof.
  unfold head_of, all_hdrs. destruct (s_chain st) as [|t r]; [discriminate|].
  intro E. injection E as <-. apply in_or_app. left.
  eapply nth_error_In. apply last_nth_error.
Qed.

Theorem only_true_data : forall f st rq l, fst (handle f st rq) = Ok l ->
  l <> [] /\ forall x, In x l -> In x (all_hdrs st).
Proof.
  intros f st rq l. destruct rq as [o a|id a|]; [| |discriminate].
  - rewrite handle_fst_snd. cbn [fst]. intro Hs.
    assert (fst (handle_range f st o (wrap64 (o + a))) = Ret l) as Hr.
    { destruct (fst (handle_range f st o (wrap64 (o + a)))) as [l'|e|]; cbn in Hs; [congruence|destruct e; discriminate|discriminate]. }
    clear Hs. revert Hr. unfold handle_range, handle_range_k, same.
    destruct (wrap64 (o + a) <=? o); [discriminate|].
    destruct (o =? 0).
    { unfold handle_head, call_head. destruct f; [|discriminate..]. destruct (head_of st) as [h|] eqn:Hh; [|discriminate].
      cbn. intro E. injection E as <-. split; [discriminate|]. intros x [<-|[]]. apply head_of_in; exact Hh. }
    destruct (max_req <? sub64 (wrap64 (o + a)) o); [discriminate|].
    assert (forall from to pre, fst (serve_range f st from to pre) = Ret l ->
              l <> [] /\ forall x, In x l -> In x (all_hdrs st)) as Hserve.
    { intros from to pre E. destruct (serve_range f st from to pre) as [r cs] eqn:Hsr. cbn in E. subst r.
      split; [|eapply serve_range_in; eauto].
      unfold serve_range, call_get_range in Hsr. destruct f; [|cbn in Hsr; discriminate..].
      destruct (get_range st from to) as [r rd] eqn:Hg. destruct r as [l'|e|]; [|destruct e; discriminate|discriminate].
      injection Hsr as <- _. unfold get_range in Hg.
      destruct (to <=? from); [discriminate|]. destruct (get_height st (to - 1)); [|discriminate].
      destruct (alloc_limit <? to - from); [discriminate|].
      destruct (N.to_nat (to - from - 1)) as [|k]; cbn in Hg.
      - injection Hg as <- _. discriminate.
      - destruct (get_hash st (h_prev h)); [|discriminate].
        destruct (walk_down st k h0) as [[l''|] rd']; cbn in Hg; [|discriminate].
        injection Hg as <- _. destruct l''; discriminate. }
    destruct (has_at st (sub64 (wrap64 (o + a)) 1)); [apply Hserve|].
    destruct (call_head f st) as [hd|e|]; [|discriminate..].
    destruct (h_height hd <? o); [discriminate|].
    destruct (sub64 (wrap64 (o + a)) 1 <=? h_height hd); [discriminate|]. apply Hserve.
  - cbn. destruct f; [|discriminate..]. unfold get_hash.
    destruct (find (fun h => h_id h =? id) (all_hdrs st)) as [h|] eqn:E; [|discriminate].
    cbn. intro E'. injection E' as <-. split; [discriminate|]. intros x [<-|[]].
    apply find_some in E. tauto.
Qed.

(** * The store changes while the request is served *)

Theorem static_is_instance : forall f st rq, handle_d f (fun _ => st) rq = handle f st rq.
Proof. intros f st [o a|id a|]; reflexivity. Qed.

Lemma handle_dk_fst_snd kf e o a :
  handle_dk kf e (ROrigin o a) =
  (status (fst (handle_range_dk kf e o (wrap64 (o + a)))), snd (handle_range_dk kf e o (wrap64 (o + a)))).
Proof. cbn. destruct (handle_range_dk kf e o (wrap64 (o + a))). reflexivity. Qed.

Lemma handle_range_dk_no_crash kf e from to :
  to < two64 -> fst (handle_range_dk kf e from to) <> Crash.
Proof.
  intro Hto. unfold handle_range_dk.
  destruct (N.leb_spec to from) as [Hle|Hlt]; [cbn; discriminate|].
  destruct (from =? 0); [apply handle_head_no_crash|].
  rewrite (sub64_le to from) by lia.
  destruct (N.ltb_spec max_req (to - from)) as [Hbig|Hsmall]; [cbn; discriminate|].
  rewrite max_req_val in Hsmall.
  destruct (has_at (e []) (sub64 to 1)).
  - apply serve_range_no_crash. rewrite alloc_limit_val. lia.
  - unfold call_head. destruct (kf KHead); cbn; try discriminate.
    destruct (head_of (e [KHasAt])) as [hd|]; [|cbn; discriminate].
    destruct (N.ltb_spec (h_height hd) from); [cbn; discriminate|].
    rewrite (sub64_le to 1) by lia.
    destruct (N.leb_spec (to - 1) (h_height hd)); [cbn; discriminate|].
    apply serve_range_no_crash.
    rewrite wrap64_small by (rewrite two64_val in *; lia).
    rewrite alloc_limit_val. lia.
Qed.

Theorem handle_d_totalk : forall kf e rq, fst (handle_dk kf e rq) <> Panic.
Proof.
  intros kf e rq. destruct rq as [o a|id a|]; cbn.
  - pose proof (handle_range_dk_no_crash kf e o (wrap64 (o + a)) (wrap64_lt _)) as Hn.
    destruct (handle_range_dk kf e o (wrap64 (o + a))) as [r cs]; cbn in *.
    intro Hp. apply status_panic in Hp. congruence.
  - destruct (kf KGet); cbn; try discriminate.
    destruct (get_hash (e []) id); discriminate.
  - discriminate.
Qed.

(** what the handler asks of the store never grows, whatever the store does meanwhile *)
Theorem origin_bounded_calls_dk : forall kf e o a, o < two64 -> a < two64 ->
  let cs := range_calls (snd (handle_dk kf e (ROrigin o a))) in
  (length cs <= 1)%nat /\ Forall (range_args_ok o a) cs.
Proof.
  intros kf e o a Ho Ha. rewrite handle_dk_fst_snd. cbn [snd]. unfold handle_range_dk.
  destruct (N.leb_spec (wrap64 (o + a)) o) as [Hle|Hlt]; [cbn; split; [lia | constructor]|].
  destruct (N.eqb_spec o 0) as [->|Ho0]; [cbn; split; [lia | constructor]|].
  assert (o + a < two64) as Hno.
  { destruct (N.lt_ge_cases (o + a) two64) as [H|H]; [exact H|].
    rewrite wrap64_over in Hlt by lia. lia. }
  rewrite wrap64_small in * by exact Hno.
  rewrite (sub64_le (o + a) o) by lia. rewrite (sub64_le (o + a) 1) by lia.
  destruct (N.ltb_spec max_req (o + a - o)) as [Hbig|Hsm]; [cbn; split; [lia | constructor]|].
  destruct (has_at (e []) (o + a - 1)).
  - destruct (serve_range_calls (kf KGetRange) (e [KHasAt]) o (o + a) [CHasAt (o + a - 1)]) as (rd & n & ->).
    cbn. split; [lia|]. constructor; [|constructor]. cbn. lia.
  - destruct (call_head (kf KHead) (e [KHasAt])) as [hd|x|]; [|cbn; split; [lia | constructor]..].
    destruct (N.ltb_spec (h_height hd) o); [cbn; split; [lia | constructor]|].
    destruct (N.leb_spec (o + a - 1) (h_height hd)); [cbn; split; [lia | constructor]|].
    rewrite wrap64_small by lia.
    destruct (serve_range_calls (kf KGetRange) (e [KHasAt; KHead]) o (h_height hd + 1) [CHasAt (o + a - 1); CHead]) as (rd & n & ->).
    cbn. split; [lia|]. constructor; [|constructor]. cbn. rewrite max_req_val in *. lia.
Qed.

(** ** one GetRange on an arbitrary well-formed store (top anywhere: on the run, above a gap, absent) *)

Section WF2.
  Variable st : store.
  Hypothesis wf : wf_store st.

  Lemma wf2_pos h : In h (all_hdrs st) -> 1 <= h_height h.
  Proof.
    intro Hin. unfold wf_store, wf_storeb in wf.
    apply andb_true_iff in wf as [wf0 _]. apply andb_true_iff in wf0 as [_ Hp].
    rewrite forallb_forall in Hp. specialize (Hp _ Hin). lia.
  Qed.

  Lemma wf2_link h p : In h (all_hdrs st) -> In p (all_hdrs st) -> h_prev h = h_id p -> h_height h = h_height p + 1.
  Proof.
    intros Hh Hp E. unfold wf_store, wf_storeb in wf.
    apply andb_true_iff in wf as [_ Hl]. unfold links_ok in Hl.
    rewrite forallb_forall in Hl. specialize (Hl _ Hh). rewrite forallb_forall in Hl. specialize (Hl _ Hp).
    rewrite E, N.eqb_refl in Hl. cbn in Hl. lia.
  Qed.

  Lemma wf2_get_height h : In h (all_hdrs st) -> get_height st (h_height h) = Some h.
  Proof.
    intro Hin. destruct (wf_parts st wf) as (_ & _ & _ & _ & Hh).
    unfold get_height. apply (nodupb_find h_height); assumption.
  Qed.

  (** the walk, from any stored header *)
  Lemma walk_gen k : forall h r rd, In h (all_hdrs st) -> walk_down st k h = (r, rd) ->
    (forall x, In x rd -> x < h_height h /\ h_height h <= x + N.of_nat k)
    /\ (length rd <= k)%nat /\ NoDup rd
    /\ (forall l, r = Some l ->
          length l = S k /\ N.of_nat k < h_height h
          /\ forall j x, nth_error l j = Some x ->
               In x (all_hdrs st) /\ h_height x + N.of_nat k = h_height h + N.of_nat j).
  Proof.
    induction k as [|k IH]; intros h r rd Hh Hw; cbn in Hw.
    - injection Hw as <- <-. pose proof (wf2_pos h Hh) as Hpos.
      split; [intros x []|]. split; [cbn; lia|]. split; [constructor|].
      intros l E. injection E as <-. split; [reflexivity|]. split; [cbn; lia|].
      intros j x Hj. destruct j as [|[|j]]; cbn in Hj; try discriminate.
      injection Hj as <-. split; [exact Hh | lia].
    - pose proof (wf2_pos h Hh) as Hpos.
      destruct (get_hash st (h_prev h)) as [p|] eqn:Hp.
      + unfold get_hash in Hp. apply find_some in Hp as [Hpin Hpid]. apply N.eqb_eq in Hpid.
        pose proof (wf2_link h p Hh Hpin (eq_sym Hpid)) as Hlink.
        destruct (walk_down st k p) as [r' rd'] eqn:Hw'.
        destruct (IH p r' rd' Hpin Hw') as (Hin & Hlen & Hnd & Hres).
        injection Hw as <- <-.
        split. { intros x [<-|H]; [lia|]. apply Hin in H. lia. }
        split. { cbn. lia. }
        split. { constructor; [|exact Hnd]. intro H. apply Hin in H. lia. }
        intros l E. destruct r' as [l'|]; cbn in E; [|discriminate]. injection E as <-.
        destruct (Hres l' eq_refl) as (Hl & Hk & Hn).
        split. { rewrite app_length. cbn. lia. }
        split. { lia. }
        intros j x Hj.
        destruct (Nat.lt_ge_cases j (length l')) as [Hlt|Hge].
        * rewrite nth_error_app1 in Hj by exact Hlt. destruct (Hn _ _ Hj) as [A B]. split; [exact A | lia].
        * rewrite nth_error_app2 in Hj by exact Hge.
          destruct (j - length l')%nat as [|n] eqn:Ej; cbn in Hj; [|destruct n; discriminate].
          injection Hj as <-. split; [exact Hh | lia].
      + injection Hw as <- <-. rewrite sub64_le by lia.
        split. { intros x [<-|[]]. lia. }
        split. { cbn. lia. }
        split. { constructor; [intros [] | constructor]. }
        discriminate.
  Qed.

  Definition range_result_ok (from to : N) (r : outcome (list hdr)) (rd : list N) : Prop :=
    (forall x, In x rd -> from <= x /\ x < to)
    /\ N.of_nat (length rd) <= to - from /\ NoDup rd
    /\ r <> Crash
    /\ (forall l, r = Ret l ->
          N.of_nat (length l) = to - from
          /\ forall j, (j < length l)%nat ->
               exists h, nth_error l j = Some h /\ get_height st (from + N.of_nat j) = Some h
                         /\ h_height h = from + N.of_nat j /\ In h (all_hdrs st)).

  Lemma get_range_gen from to : 1 <= from -> from < to -> to - from <= max_req ->
    range_result_ok from to (fst (get_range st from to)) (snd (get_range st from to)).
  Proof.
    intros H1 Hft Hsm. rewrite max_req_val in Hsm. unfold get_range, range_result_ok.
    destruct (N.leb_spec to from); [lia|].
    destruct (get_height st (to - 1)) as [h|] eqn:Hg.
    2:{ cbn [fst snd].
        split. { intros x [<-|[]]. lia. }
        split. { cbn. lia. }
        split. { constructor; [intros []|constructor]. }
        split; discriminate. }
    unfold get_height in Hg. apply find_some in Hg as [Hin Hht]. apply N.eqb_eq in Hht.
    destruct (N.ltb_spec alloc_limit (to - from)); [rewrite alloc_limit_val in *; lia|].
    destruct (walk_down st (N.to_nat (to - from - 1)) h) as [r rd] eqn:Hw.
    destruct (walk_gen _ h r rd Hin Hw) as (Hrd & Hlen & Hnd & Hres).
    cbn [fst snd].
    split. { intros x [<-|Hx]; [lia|]. apply Hrd in Hx. lia. }
    split. { cbn [length]. lia. }
    split. { constructor; [|exact Hnd]. intro Hx. apply Hrd in Hx. lia. }
    split. { destruct r; discriminate. }
    intros l E. destruct r as [l'|]; [|discriminate]. injection E as <-.
    destruct (Hres l' eq_refl) as (Hl & Hk & Hn).
    split; [lia|]. intros j Hj.
    destruct (nth_error l' j) as [x|] eqn:Hx; [|apply nth_error_None in Hx; lia].
    destruct (Hn j x Hx) as [Hxin Hxh].
    assert (h_height x = from + N.of_nat j) as E by lia.
    exists x. rewrite <- E. split; [reflexivity|]. split; [apply wf2_get_height; assumption|]. split; [reflexivity|assumption].
  Qed.

  Lemma serve_range_gen f pre from to : 1 <= from -> from < to -> to - from <= max_req ->
    exists r rd n, serve_range f st from to pre = (r, pre ++ [CGetRange from to rd n])
      /\ range_result_ok from to r rd.
  Proof.
    intros H1 Hft Hsm. unfold serve_range, call_get_range. destruct f.
    - pose proof (get_range_gen from to H1 Hft Hsm) as Hok.
      destruct (get_range st from to) as [r rd]. cbn [fst snd] in Hok.
      eexists _, rd, _. split; [reflexivity|].
      destruct Hok as (A & B & C & D & E).
      split; [exact A|]. split; [exact B|]. split; [exact C|].
      split. { destruct r as [l|x|]; [discriminate|destruct x; discriminate|congruence]. }
      intros l El. destruct r as [l'|x|]; [|destruct x; discriminate|discriminate]. injection El as <-. apply (E l' eq_refl).
    - eexists _, [], _. cbn. split; [reflexivity|].
      split; [intros x []|]. split; [apply N.le_0_l|]. split; [constructor|]. split; discriminate.
    - eexists _, [], _. cbn. split; [reflexivity|].
      split; [intros x []|]. split; [apply N.le_0_l|]. split; [constructor|]. split; discriminate.
  Qed.
End WF2.

(** ** replies and reads against a changing store *)

Definition range_answer_ok_d (e : env) (o a : N) (r : reply) : Prop :=
  r = NotFound \/ r = Reset \/
  exists l S, r = Ok l /\ (S = e [KHasAt] \/ S = e [KHasAt; KHead])
    /\ (1 <= length l)%nat /\ N.of_nat (length l) <= a
    /\ (forall j, (j < length l)%nat ->
          exists h, nth_error l j = Some h /\ get_height S (o + N.of_nat j) = Some h
                    /\ h_height h = o + N.of_nat j /\ In h (all_hdrs S))
    /\ (N.of_nat (length l) < a ->
          exists hd, head_of (e [KHasAt]) = Some hd /\ o + N.of_nat (length l) - 1 = h_height hd).

Lemma heights_read_pre pre from to rd n :
  range_calls pre = [] -> heights_read (pre ++ [CGetRange from to rd n]) = rd.
Proof.
  intro Hp. unfold heights_read.
  assert (range_calls (pre ++ [CGetRange from to rd n]) = [(from, to, rd, n)]) as ->.
  { induction pre as [|c pre IH]; [reflexivity|]. destruct c; cbn in *; try (apply IH; exact Hp). discriminate. }
  cbn. apply app_nil_r.
Qed.

(** one serve_range step, as both theorems need it *)
Lemma serve_step f S pre o a to' :
  wf_store S -> 1 <= o -> o < to' -> to' <= o + a -> to' - o <= max_req -> range_calls pre = [] ->
  reads_ok o a (heights_read (snd (serve_range f S o to' pre)))
  /\ (status (fst (serve_range f S o to' pre)) = NotFound
      \/ status (fst (serve_range f S o to' pre)) = Reset
      \/ exists l, status (fst (serve_range f S o to' pre)) = Ok l
           /\ N.of_nat (length l) = to' - o
           /\ forall j, (j < length l)%nat ->
                exists h, nth_error l j = Some h /\ get_height S (o + N.of_nat j) = Some h
                          /\ h_height h = o + N.of_nat j /\ In h (all_hdrs S)).
Proof.
  intros wf H1 Hlt Hle Hsm Hpre.
  destruct (serve_range_gen S wf f pre o to' H1 Hlt Hsm) as (r & rd & n & -> & (Hin & Hlen & Hnd & Hnc & Hret)).
  cbn [fst snd]. rewrite heights_read_pre by exact Hpre. split.
  - split; [|split].
    + intros x Hx. apply Hin in Hx. lia.
    + lia.
    + exact Hnd.
  - destruct r as [l|x|]; [|destruct x; cbn; auto|congruence].
    right. right. exists l. destruct (Hret l eq_refl) as [A B]. auto.
Qed.

Theorem origin_reply_shape_dk : forall kf e o a, (forall hist, wf_store (e hist)) ->
  1 <= o -> o < two64 -> a < two64 ->
  range_answer_ok_d e o a (fst (handle_dk kf e (ROrigin o a))).
Proof.
  intros kf e o a wf Ho1 Ho Ha. unfold range_answer_ok_d.
  rewrite handle_dk_fst_snd. cbn [fst]. unfold handle_range_dk.
  destruct (N.leb_spec (wrap64 (o + a)) o) as [Hle|Hlt]; [cbn; auto|].
  destruct (N.eqb_spec o 0) as [->|Ho0]; [lia|].
  assert (o + a < two64) as Hno.
  { destruct (N.lt_ge_cases (o + a) two64) as [H|H]; [exact H|]. rewrite wrap64_over in Hlt by lia. lia. }
  rewrite wrap64_small in * by exact Hno.
  rewrite (sub64_le (o + a) o) by lia. rewrite (sub64_le (o + a) 1) by lia.
  destruct (N.ltb_spec max_req (o + a - o)) as [Hbig|Hsm]; [cbn; auto|].
  destruct (has_at (e []) (o + a - 1)).
  - destruct (serve_step (kf KGetRange) (e [KHasAt]) [CHasAt (o + a - 1)] o a (o + a) (wf _)
                ltac:(lia) ltac:(lia) ltac:(lia) ltac:(lia) eq_refl) as [_ [->|[->|(l & -> & Hl & Hn)]]]; auto.
    right. right. exists l, (e [KHasAt]). split; [reflexivity|]. split; [auto|].
    split; [lia|]. split; [lia|]. split; [exact Hn|]. lia.
  - unfold call_head. destruct (kf KHead); cbn [fault_err]; [|cbn; auto..].
    destruct (head_of (e [KHasAt])) as [hd|] eqn:Hhd; [|cbn; auto].
    destruct (N.ltb_spec (h_height hd) o); [cbn; auto|].
    destruct (N.leb_spec (o + a - 1) (h_height hd)); [cbn; auto|].
    rewrite wrap64_small by lia.
    assert (h_height hd + 1 - o <= max_req) as Hsm' by (rewrite max_req_val in *; lia).
    destruct (serve_step (kf KGetRange) (e [KHasAt; KHead]) [CHasAt (o + a - 1); CHead] o a (h_height hd + 1) (wf _)
                ltac:(lia) ltac:(lia) ltac:(lia) Hsm' eq_refl)
      as [_ [->|[->|(l & -> & Hl & Hn)]]]; auto.
    right. right. exists l, (e [KHasAt; KHead]). split; [reflexivity|]. split; [auto|].
    split; [lia|]. split; [lia|]. split; [exact Hn|]. intros _. exists hd. split; [reflexivity|]. lia.
Qed.

Theorem origin_bounded_reads_dk : forall kf e o a, (forall hist, wf_store (e hist)) ->
  o < two64 -> a < two64 ->
  reads_ok o a (heights_read (snd (handle_dk kf e (ROrigin o a)))).
Proof.
  intros kf e o a wf Ho Ha.
  rewrite handle_dk_fst_snd. cbn [snd]. unfold handle_range_dk.
  destruct (N.leb_spec (wrap64 (o + a)) o) as [Hle|Hlt]; [apply reads_ok_nil|].
  destruct (N.eqb_spec o 0) as [->|Ho0]; [apply reads_ok_nil|].
  assert (o + a < two64) as Hno.
  { destruct (N.lt_ge_cases (o + a) two64) as [H|H]; [exact H|]. rewrite wrap64_over in Hlt by lia. lia. }
  rewrite wrap64_small in * by exact Hno.
  rewrite (sub64_le (o + a) o) by lia. rewrite (sub64_le (o + a) 1) by lia.
  destruct (N.ltb_spec max_req (o + a - o)) as [Hbig|Hsm]; [apply reads_ok_nil|].
  destruct (has_at (e []) (o + a - 1)).
  - apply (serve_step (kf KGetRange) (e [KHasAt]) [CHasAt (o + a - 1)] o a (o + a) (wf _)
             ltac:(lia) ltac:(lia) ltac:(lia) ltac:(lia) eq_refl).
  - destruct (call_head (kf KHead) (e [KHasAt])) as [hd|x|]; [|apply reads_ok_nil..].
    destruct (N.ltb_spec (h_height hd) o); [apply reads_ok_nil|].
    destruct (N.leb_spec (o + a - 1) (h_height hd)); [apply reads_ok_nil|].
    rewrite wrap64_small by lia.
    assert (h_height hd + 1 - o <= max_req) as Hsm' by (rewrite max_req_val in *; lia).
    apply (serve_step (kf KGetRange) (e [KHasAt; KHead]) [CHasAt (o + a - 1); CHead] o a (h_height hd + 1) (wf _)
             ltac:(lia) ltac:(lia) ltac:(lia) Hsm' eq_refl).
Qed.

(** an OK answer of one GetRange: non-empty, stored headers of the content it read (any content) *)
Lemma serve_range_true f S from to pre l :
  fst (serve_range f S from to pre) = Ret l -> l <> [] /\ forall x, In x l -> In x (all_hdrs S).
Proof.
  intro E. destruct (serve_range f S from to pre) as [r cs] eqn:Hsr. cbn in E. subst r.
  split; [|eapply serve_range_in; eauto].
  unfold serve_range, call_get_range in Hsr. destruct f; [|cbn in Hsr; discriminate..].
  destruct (get_range S from to) as [r rd] eqn:Hg. destruct r as [l'|x|]; [|destruct x; discriminate|discriminate].
  injection Hsr as <- _. unfold get_range in Hg.
  destruct (to <=? from); [discriminate|]. destruct (get_height S (to - 1)); [|discriminate].
  destruct (alloc_limit <? to - from); [discriminate|].
  destruct (N.to_nat (to - from - 1)) as [|k]; cbn in Hg.
  - injection Hg as <- _. discriminate.
  - destruct (get_hash S (h_prev h)); [|discriminate].
    destruct (walk_down S k h0) as [[l''|] rd']; cbn in Hg; [|discriminate].
    injection Hg as <- _. destruct l''; discriminate.
Qed.

Lemma status_ok r l : status r = Ok l -> r = Ret l.
Proof. destruct r as [l'|x|]; cbn; [congruence|destruct x; discriminate|discriminate]. Qed.

Theorem only_true_data_dk : forall kf e rq l, fst (handle_dk kf e rq) = Ok l ->
  l <> [] /\ exists hist, forall x, In x l -> In x (all_hdrs (e hist)).
Proof.
  intros kf e rq l. destruct rq as [o a|id a|]; [| |discriminate].
  - rewrite handle_dk_fst_snd. cbn [fst]. intro Hs. apply status_ok in Hs. revert Hs.
    unfold handle_range_dk.
    destruct (wrap64 (o + a) <=? o); [discriminate|].
    destruct (o =? 0).
    { unfold handle_head, call_head. destruct (kf KHead); [|discriminate..].
      destruct (head_of (e [])) as [h|] eqn:Hh; [|discriminate].
      cbn. intro E. injection E as <-. split; [discriminate|]. exists []. intros x [<-|[]]. apply head_of_in; exact Hh. }
    destruct (max_req <? sub64 (wrap64 (o + a)) o); [discriminate|].
    destruct (has_at (e []) (sub64 (wrap64 (o + a)) 1)).
    { intro E. destruct (serve_range_true _ _ _ _ _ _ E) as [A B]. split; [exact A|]. eexists. exact B. }
    destruct (call_head (kf KHead) (e [KHasAt])) as [hd|x|]; [|discriminate..].
    destruct (h_height hd <? o); [discriminate|].
    destruct (sub64 (wrap64 (o + a)) 1 <=? h_height hd); [discriminate|].
    intro E. destruct (serve_range_true _ _ _ _ _ _ E) as [A B]. split; [exact A|]. eexists. exact B.
  - cbn. destruct (kf KGet); [|discriminate..]. unfold get_hash.
    destruct (find (fun h => h_id h =? id) (all_hdrs (e []))) as [h|] eqn:E; [|discriminate].
    cbn. intro E'. injection E' as <-. split; [discriminate|]. exists []. intros x [<-|[]].
    apply find_some in E. tauto.
Qed.

(** the single-mode theorems are the instances [kf = same f] *)
Theorem handle_d_total : forall f e rq, fst (handle_d f e rq) <> Panic.
Proof. intros f e rq. exact (handle_d_totalk (same f) e rq). Qed.

Theorem origin_bounded_calls_d : forall f e o a, o < two64 -> a < two64 ->
  let cs := range_calls (snd (handle_d f e (ROrigin o a))) in
  (length cs <= 1)%nat /\ Forall (range_args_ok o a) cs.
Proof. intros f e. exact (origin_bounded_calls_dk (same f) e). Qed.

Theorem origin_reply_shape_d : forall f e o a, (forall hist, wf_store (e hist)) ->
  1 <= o -> o < two64 -> a < two64 ->
  range_answer_ok_d e o a (fst (handle_d f e (ROrigin o a))).
Proof. intros f e. exact (origin_reply_shape_dk (same f) e). Qed.

Theorem origin_bounded_reads_d : forall f e o a, (forall hist, wf_store (e hist)) ->
  o < two64 -> a < two64 ->
  reads_ok o a (heights_read (snd (handle_d f e (ROrigin o a)))).
Proof. intros f e. exact (origin_bounded_reads_dk (same f) e). Qed.

Theorem only_true_data_d : forall f e rq l, fst (handle_d f e rq) = Ok l ->
  l <> [] /\ exists hist, forall x, In x l -> In x (all_hdrs (e hist)).
Proof. intros f e. exact (only_true_data_dk (same f) e). Qed.

(** * a failure mode per call kind, quiescent store: instances of the changing-store theorems *)

Theorem static_is_instance_k : forall kf st rq, handle_dk kf (fun _ => st) rq = handle_k kf st rq.
Proof. intros kf st [o a|id a|]; reflexivity. Qed.

Theorem same_mode_is_instance : forall f st rq e,
  handle f st rq = handle_k (same f) st rq /\ handle_d f e rq = handle_dk (same f) e rq.
Proof. intros. split; reflexivity. Qed.

Theorem handle_k_total : forall kf st rq, fst (handle_k kf st rq) <> Panic.
Proof. intros kf st rq. rewrite <- static_is_instance_k. apply handle_d_totalk. Qed.

Theorem origin_bounded_calls_k : forall kf st o a, o < two64 -> a < two64 ->
  let cs := range_calls (snd (handle_k kf st (ROrigin o a))) in
  (length cs <= 1)%nat /\ Forall (range_args_ok o a) cs.
Proof. intros kf st o a Ho Ha. rewrite <- static_is_instance_k. apply origin_bounded_calls_dk; assumption. Qed.

Theorem origin_bounded_reads_k : forall kf st o a, wf_store st -> o < two64 -> a < two64 ->
  reads_ok o a (heights_read (snd (handle_k kf st (ROrigin o a)))).
Proof.
  intros kf st o a wf Ho Ha. rewrite <- static_is_instance_k.
  apply origin_bounded_reads_dk; [intros _; exact wf | assumption..].
Qed.

Theorem only_true_data_k : forall kf st rq l, fst (handle_k kf st rq) = Ok l ->
  l <> [] /\ forall x, In x l -> In x (all_hdrs st).
Proof.
  intros kf st rq l E. rewrite <- static_is_instance_k in E.
  destruct (only_true_data_dk _ _ _ _ E) as [A [hist B]]. split; assumption.
Qed.

Lemma handle_k_fst_snd kf st o a :
  handle_k kf st (ROrigin o a) =
  (status (fst (handle_range_k kf st o (wrap64 (o + a)))), snd (handle_range_k kf st o (wrap64 (o + a)))).
Proof. cbn. destruct (handle_range_k kf st o (wrap64 (o + a))). reflexivity. Qed.

(** whatever the per-kind modes, the reply is the healthy store's reply or a refusal *)
Lemma handle_k_healthy_or_refused kf st rq :
  fst (handle_k kf st rq) = fst (handle FNone st rq)
  \/ fst (handle_k kf st rq) = Reset \/ fst (handle_k kf st rq) = NotFound.
Proof.
  destruct rq as [o a|id a|]; [| |left; reflexivity].
  - rewrite handle_k_fst_snd, handle_fst_snd. cbn [fst].
    unfold handle_range, handle_range_k, same.
    destruct (wrap64 (o + a) <=? o); [left; reflexivity|].
    destruct (o =? 0).
    { unfold handle_head. destruct (kf KHead); cbn; auto. }
    destruct (max_req <? sub64 (wrap64 (o + a)) o); [left; reflexivity|].
    destruct (has_at st (sub64 (wrap64 (o + a)) 1)).
    { destruct (kf KGetRange); cbn; auto. }
    destruct (kf KHead); [|cbn; auto..].
    destruct (call_head FNone st) as [hd|x|]; [|left; reflexivity..].
    destruct (h_height hd <? o); [left; reflexivity|].
    destruct (sub64 (wrap64 (o + a)) 1 <=? h_height hd); [left; reflexivity|].
    destruct (kf KGetRange); cbn; auto.
  - unfold handle, handle_k, same, handle_hash. destruct (kf KGet); cbn; auto.
Qed.

Theorem origin_reply_shape_k : forall kf st o a, wf_store st -> 1 <= o -> o < two64 -> a < two64 ->
  range_answer_ok st o a (fst (handle_k kf st (ROrigin o a))).
Proof.
  intros kf st o a wf Ho1 Ho Ha.
  destruct (handle_k_healthy_or_refused kf st (ROrigin o a)) as [-> | [-> | ->]];
    [apply origin_reply_shape; assumption | right; left; reflexivity | left; reflexivity].
Qed.

(** * a failing or blocking store call: what the peer gets, and that nothing follows it *)

Definition refusal_for (kf : kfault) (c : call) : reply :=
  match c, fault_of kf c with
  | CGetRange _ _ _ _, FSlow => NotFound     (* context.DeadlineExceeded from GetRange is mapped to ErrNotFound *)
  | _, _ => Reset
  end.

Ltac walk_dk kf e o a :=
  unfold handle_range_dk;
  destruct (wrap64 (o + a) <=? o); [|
  destruct (o =? 0); [unfold handle_head, call_head; destruct (kf KHead); [destruct (head_of (e []))|..] |
  destruct (max_req <? sub64 (wrap64 (o + a)) o); [|
  destruct (has_at (e []) (sub64 (wrap64 (o + a)) 1)); [
    unfold serve_range, call_get_range; destruct (kf KGetRange);
      [destruct (get_range (e [KHasAt]) o (wrap64 (o + a))) as [[?l|[]|] ?rd]|..] |
    unfold call_head; destruct (kf KHead); [destruct (head_of (e [KHasAt])) as [hd|]; [
      destruct (h_height hd <? o); [|
      destruct (sub64 (wrap64 (o + a)) 1 <=? h_height hd); [|
      unfold serve_range, call_get_range; destruct (kf KGetRange);
        [destruct (get_range (e [KHasAt; KHead]) o (wrap64 (h_height hd + 1))) as [[?l|[]|] ?rd]|..]]] |]|..]]]]].

Ltac walk_dke kf e o a :=
  unfold handle_range_dk;
  destruct (wrap64 (o + a) <=? o); [|
  destruct (o =? 0); [unfold handle_head, call_head; destruct (kf KHead) eqn:?EH; [destruct (head_of (e []))|..] |
  destruct (max_req <? sub64 (wrap64 (o + a)) o); [|
  destruct (has_at (e []) (sub64 (wrap64 (o + a)) 1)); [
    unfold serve_range, call_get_range; destruct (kf KGetRange) eqn:?EG;
      [destruct (get_range (e [KHasAt]) o (wrap64 (o + a))) as [[?l|[]|] ?rd]|..] |
    unfold call_head; destruct (kf KHead) eqn:?EH; [destruct (head_of (e [KHasAt])) as [hd|]; [
      destruct (h_height hd <? o); [|
      destruct (sub64 (wrap64 (o + a)) 1 <=? h_height hd); [|
      unfold serve_range, call_get_range; destruct (kf KGetRange) eqn:?EG;
        [destruct (get_range (e [KHasAt; KHead]) o (wrap64 (h_height hd + 1))) as [[?l|[]|] ?rd]|..]]] |]|..]]]]].

Theorem store_failure_reply_dk : forall kf e rq c,
  In c (snd (handle_dk kf e rq)) -> fault_of kf c <> FNone -> fst (handle_dk kf e rq) = refusal_for kf c.
Proof.
  intros kf e rq c. destruct rq as [o a|id a|]; [| |intros []].
  - rewrite handle_dk_fst_snd. cbn [fst snd]. unfold refusal_for, fault_of.
    walk_dk kf e o a; cbn; intros Hin Hf;
      repeat (destruct Hin as [<-|Hin]; [cbn in *; try congruence|]); try contradiction;
      repeat match goal with H : ?x = FNone |- _ => fail | H : kf _ = _ |- _ => rewrite H in * end; try congruence.
  - unfold handle_dk, handle_hash, refusal_for, fault_of. cbn.
    intros [<-|[]] Hf. destruct (kf KGet); [congruence|reflexivity..].
Qed.

Theorem store_failure_refused_dk : forall kf e rq,
  (exists c, In c (snd (handle_dk kf e rq)) /\ fault_of kf c <> FNone) ->
  fst (handle_dk kf e rq) = Reset \/ fst (handle_dk kf e rq) = NotFound.
Proof.
  intros kf e rq (c & Hin & Hf). rewrite (store_failure_reply_dk kf e rq c Hin Hf).
  unfold refusal_for. destruct c; auto. destruct (fault_of kf (CGetRange from to reads returned)); auto.
Qed.

(** by request kind: the call every OK answer needs *)
Theorem failure_refused_by_kind_dk : forall kf e,
  (forall id a, kf KGet <> FNone -> fst (handle_dk kf e (RHash id a)) = Reset)
  /\ (forall a, kf KHead <> FNone -> fst (handle_dk kf e (ROrigin 0 a)) = Reset)
  /\ (forall o a, kf KGetRange <> FNone -> 1 <= o ->
        fst (handle_dk kf e (ROrigin o a)) = Reset \/ fst (handle_dk kf e (ROrigin o a)) = NotFound).
Proof.
  intros kf e. split; [|split].
  - intros id a Hf. unfold handle_dk, handle_hash. destruct (kf KGet); [congruence|reflexivity..].
  - intros a Hf. rewrite handle_dk_fst_snd. cbn [fst]. unfold handle_range_dk.
    destruct (wrap64 (0 + a) <=? 0); [reflexivity|]. cbn [N.eqb].
    unfold handle_head, call_head. destruct (kf KHead); [congruence|reflexivity..].
  - intros o a Hf Ho. rewrite handle_dk_fst_snd. cbn [fst].
    destruct (N.eqb_spec o 0) as [->|Hne]; [lia|].
    unfold handle_range_dk.
    destruct (wrap64 (o + a) <=? o); [auto|].
    destruct (N.eqb_spec o 0); [lia|].
    destruct (max_req <? sub64 (wrap64 (o + a)) o); [auto|].
    destruct (has_at (e []) (sub64 (wrap64 (o + a)) 1)).
    { unfold serve_range, call_get_range. destruct (kf KGetRange); [congruence|cbn; auto..]. }
    destruct (call_head (kf KHead) (e [KHasAt])) as [hd|x|] eqn:Hc.
    + destruct (h_height hd <? o); [auto|].
      destruct (sub64 (wrap64 (o + a)) 1 <=? h_height hd); [auto|].
      unfold serve_range, call_get_range. destruct (kf KGetRange); [congruence|cbn; auto..].
    + unfold call_head in Hc. destruct (kf KHead); [destruct (head_of (e [KHasAt])); [discriminate|]|..];
        injection Hc as <-; cbn; auto.
    + unfold call_head in Hc. destruct (kf KHead); [destruct (head_of (e [KHasAt]))|..]; discriminate.
Qed.

(** * the call log of one request: its exact shape, and time *)

Theorem log_shape_dk : forall kf e rq, log_shape (snd (handle_dk kf e rq)) = true.
Proof.
  intros kf e rq. destruct rq as [o a|id a|]; [| |reflexivity].
  - rewrite handle_dk_fst_snd. cbn [snd]. walk_dk kf e o a; reflexivity.
  - reflexivity.
Qed.

Lemma log_shape_length cs : log_shape cs = true -> (length cs <= 3)%nat.
Proof.
  destruct cs as [|c1 [|c2 [|c3 [|c4 r]]]]; cbn; try lia.
  destruct c1; try discriminate. destruct c2; try discriminate. destruct c3; discriminate.
Qed.

Theorem faulty_only_last_dk : forall kf e rq, faulty_only_last kf (snd (handle_dk kf e rq)) = true.
Proof.
  intros kf e rq. destruct rq as [o a|id a|]; [| |reflexivity].
  - rewrite handle_dk_fst_snd. cbn [snd]. walk_dke kf e o a; cbn; rewrite ?EH, ?EG; reflexivity.
  - reflexivity.
Qed.

(** what [faulty_only_last] says *)
Lemma faulty_only_last_spec kf cs : faulty_only_last kf cs = true ->
  forall pre c post, cs = pre ++ c :: post -> fault_of kf c <> FNone -> post = [].
Proof.
  induction cs as [|x r IH]; intros H pre c post E Hf.
  - destruct pre; discriminate.
  - destruct pre as [|y pre]; cbn in E; injection E as -> ->.
    + destruct post as [|z post]; [reflexivity|]. cbn in H.
      apply andb_true_iff in H as [H _]. destruct (fault_of kf c); [congruence|discriminate..].
    + cbn in H. destruct (pre ++ c :: post) eqn:El; [destruct pre; discriminate|].
      apply andb_true_iff in H as [_ H]. rewrite <- El in *. eapply IH; eauto.
Qed.

(** the time model: a log of sequential calls under one deadline ends by the deadline *)
Lemma finish_le T d cs : forall t, t <= T -> finish T d t cs <= T.
Proof. induction cs as [|c r IH]; intros t Ht; cbn; [exact Ht|]. apply IH. lia. Qed.

Lemma finish_at_deadline T d cs : finish T d T cs = T.
Proof. induction cs as [|c r IH]; cbn; [reflexivity|]. replace (N.min (T + d c) T) with T by lia. exact IH. Qed.

(** under the harness's fault modes (a blocking call never returns by itself, the
    others return at once) the last call returns exactly at the deadline when some
    call of the log blocks, and at once otherwise *)
Lemma finish_fault_dur kf T cs :
  finish T (fault_dur kf T) 0 cs = if existsb (fun c => is_slow (fault_of kf c)) cs then T else 0.
Proof.
  induction cs as [|c r IH]; cbn [finish existsb]; [reflexivity|].
  assert (fault_dur kf T c = match fault_of kf c with FSlow => T | _ => 0 end) as Ed by reflexivity.
  destruct (fault_of kf c); cbn [is_slow orb]; rewrite Ed.
  - replace (N.min (0 + 0) T) with 0 by lia. exact IH.
  - replace (N.min (0 + T) T) with T by lia. apply finish_at_deadline.
  - replace (N.min (0 + 0) T) with 0 by lia. exact IH.
Qed.

Theorem one_blocking_call : forall kf e rq,
  let cs := snd (handle_dk kf e rq) in
  log_shape cs = true
  /\ (length cs <= 3)%nat
  /\ (forall pre c post, cs = pre ++ c :: post -> fault_of kf c <> FNone -> post = [])
  /\ (forall T d, finish T d 0 cs <= T)
  /\ (forall T, finish T (fault_dur kf T) 0 cs = if existsb (fun c => is_slow (fault_of kf c)) cs then T else 0).
Proof.
  intros kf e rq cs. pose proof (log_shape_dk kf e rq) as Hs. fold cs in Hs.
  split; [exact Hs|]. split; [apply log_shape_length; exact Hs|].
  split; [apply faulty_only_last_spec; apply faulty_only_last_dk|].
  split; [intros T d; apply finish_le; apply N.le_0_l | intro T; apply finish_fault_dur].
Qed.
