(** Proofs about Model/Request.v (property C13): specification predicates and
    the lemmas the theorems of Props/C13.v are closed with. *)
From GH Require Import Base.Prelude Model.Request.

Lemma Forall2_len {A C} (R : A -> C -> Prop) l1 l2 : Forall2 R l1 l2 -> length l1 = length l2.
Proof. induction 1; cbn; congruence. Qed.

Section Spec.
  Variable B : Type.
  Variable decode : B -> dres.
  Variable fold : N -> N.

  Notation frame := (frame B).
  Notation stream := (stream B).
  Notation event := (event B).
  Notation request := (request B decode fold).
  Notation collect := (collect B decode fold).
  Notation perform := (perform B decode fold).
  Notation get := (get B decode fold).
  Notation get_by_height := (get_by_height B decode fold).
  Notation process_frames := (process_frames B decode).
  Notation process_responses := (process_responses B decode).
  Notation read_frames := (read_frames B).

  (** ** Hypothesis about the header type (named, used as an explicit premise) *)

  (** a freshly allocated header that UnmarshalBinary filled is not IsZero() *)
  Definition codec_nonzero : Prop := forall b h, decode b = DHdr h -> h_nil h = false.

  (** ** Specification vocabulary *)

  (** the header's chain id is the configured one (up to case, as strings.EqualFold);
      no chain id configured (0) accepts every chain *)
  Definition chain_accepted (want c : N) : Prop := want = 0 \/ fold want = fold c.

  (** header [h] was carried by frame [f]: status OK, the body decodes to [h],
      [h] passes Validate and has the configured chain id *)
  Definition frame_carries (want : N) (f : frame) (h : hdr) : Prop :=
    f_status f = status_OK /\ decode (f_body f) = DHdr h /\ h_ok h = true /\
    chain_accepted want (h_chain h).

  (** the peer answers a one-header request validly, with [h]: its stream opens
      and its first frame carries [h] (whatever follows is never read) *)
  Definition answers_validly (want : N) (s : stream) (h : hdr) : Prop :=
    exists f rest e, s = SData (f :: rest) e /\ frame_carries want f h.

  Definition answers_badly (want : N) (s : stream) : Prop :=
    forall h, ~ answers_validly want s h.

  (** [h] is the first valid answer in arrival order among the answers of the
      [n] trusted peers: the events start with fewer than [n] arrivals that are
      all bad, followed by the arrival of a stream that validly carries [h] *)
  Definition first_valid_answer (want : N) (n : nat) (evs : list event) (s : stream) (h : hdr) : Prop :=
    exists pre post, evs = map Arrive pre ++ Arrive s :: post /\ (length pre < n)%nat /\
      Forall (answers_badly want) pre /\ answers_validly want s h.

  (** ** validateChainID *)
  Lemma validate_chain_spec want c : validate_chain fold want c = true <-> chain_accepted want c.
  Proof.
    unfold validate_chain, chain_accepted. rewrite orb_true_iff, !N.eqb_eq. reflexivity.
  Qed.

  (** ** processResponses *)
  Lemma process_frames_ok l : forall hs, process_frames l = Ok hs ->
    Forall2 (fun f h => f_status f = status_OK /\ decode (f_body f) = DHdr h /\ h_ok h = true) l hs.
  Proof.
    induction l as [|f r IH]; intros hs H; cbn in H.
    - inversion H. constructor.
    - unfold status_err in H.
      destruct (f_status f =? status_OK)%Z eqn:Es.
      2:{ destruct (f_status f =? status_NOT_FOUND)%Z; discriminate. }
      apply Z.eqb_eq in Es.
      destruct (decode (f_body f)) as [| |h|] eqn:Ed; try discriminate.
      destruct (h_ok h) eqn:Ev; try discriminate.
      destruct (process_frames r) as [hs'| | |] eqn:Er; try discriminate.
      inversion H; subst. constructor; auto.
  Qed.

  Lemma process_frames_not_blocks l : process_frames l <> Blocks.
  Proof.
    induction l as [|f r IH]; cbn; try discriminate.
    destruct (status_err (f_status f)); try discriminate.
    destruct (decode (f_body f)) as [| |h|]; try discriminate.
    destruct (h_ok h); try discriminate.
    destruct (process_frames r); try discriminate. congruence.
  Qed.

  (** ** sendMessage's read loop *)
  Lemma read_frames_prefix amount : forall fs e l x, read_frames amount fs e = (l, x) ->
    (length l <= amount)%nat /\ exists t, fs = l ++ t.
  Proof.
    induction amount as [|a IH]; intros fs e l x H; cbn in H.
    - inversion H; subst. split; [cbn; lia|]. exists fs. reflexivity.
    - destruct fs as [|f r].
      + inversion H; subst. split; [cbn; lia|]. exists []. reflexivity.
      + destruct (read_frames a r e) as [l' x'] eqn:E. inversion H; subst.
        destruct (IH _ _ _ _ E) as [Hl [t Ht]]. split; [cbn; lia|].
        exists t. cbn. now rewrite <- Ht.
  Qed.

  (** ** Exchange.request, any amount: every returned header was carried by a frame of
      the peer's stream; at least one and at most [amount] headers *)
  Lemma request_sound want amount s hs : request want amount s = Ok hs ->
    hs <> [] /\ (length hs <= amount)%nat /\
    exists fs e, s = SData fs e /\
      Forall (fun h => exists f, In f fs /\ frame_carries want f h) hs.
  Proof.
    unfold request. destruct s as [|fs e]; try discriminate.
    destruct (read_frames amount fs e) as [l x] eqn:Er.
    destruct x; try discriminate.
    destruct (read_frames_prefix _ _ _ _ _ Er) as [Hlen [t Ht]].
    unfold process_responses. destruct l as [|f0 l0] eqn:El; try discriminate.
    rewrite <- El in *. clear Er.
    destruct (process_frames l) as [hs'| | |] eqn:Ep; try discriminate.
    destruct (forallb (fun h => validate_chain fold want (h_chain h)) hs') eqn:Ec; try discriminate.
    intros H; inversion H; subst hs'. clear H.
    pose proof (process_frames_ok _ _ Ep) as F2.
    assert (Hl : length l = length hs) by (eapply Forall2_len; eauto).
    split; [|split].
    - intros ->. rewrite El in Hl. cbn in Hl. lia.
    - lia.
    - exists fs, e. split; [reflexivity|].
      rewrite forallb_forall in Ec.
      clear El Hlen Hl Ep. subst fs.
      induction F2 as [|f h l' hs'' [Hs [Hd Hv]] F2' IH]; constructor.
      + exists f. split; [cbn; auto|]. repeat split; auto.
        apply validate_chain_spec. apply Ec. cbn; auto.
      + assert (IH' : Forall (fun h0 => exists f0, In f0 (l' ++ t) /\ frame_carries want f0 h0) hs'').
        { apply IH. intros x Hx. apply Ec. cbn; auto. }
        eapply Forall_impl; [|exact IH']. cbn. intros a [f1 [Hin Hc]]. exists f1. split; auto.
  Qed.

  Lemma request_not_blocks want amount s : request want amount s <> Blocks.
  Proof.
    unfold request. destruct s as [|fs e]; try discriminate.
    destruct (read_frames amount fs e) as [l x]. destruct x; try discriminate.
    unfold process_responses. destruct l as [|f0 l0]; try discriminate.
    pose proof (process_frames_not_blocks (f0 :: l0)) as H.
    destruct (process_frames (f0 :: l0)); try discriminate; try congruence.
    destruct (forallb _ _); discriminate.
  Qed.

  (** the deferred recover: request never panics, whatever the codec does *)
  Lemma request_no_panic want amount s : request want amount s <> Panic.
  Proof.
    unfold request. destruct s as [|fs e]; try discriminate.
    destruct (read_frames amount fs e) as [l x]. destruct x; try discriminate.
    unfold process_responses. destruct l as [|f0 l0]; try discriminate.
    destruct (process_frames (f0 :: l0)); try discriminate.
    destruct (forallb _ _); discriminate.
  Qed.

  (** ** Exchange.request with Amount = 1: exactly the valid answers succeed *)
  Lemma request1_ok want s hs :
    request want 1 s = Ok hs <-> exists h, hs = [h] /\ answers_validly want s h.
  Proof.
    split.
    - intros H. destruct (request_sound _ _ _ _ H) as [Hne [Hlen [fs [e [-> HF]]]]].
      destruct hs as [|h [|h' r]]; [congruence| |cbn in Hlen; lia].
      exists h. split; [reflexivity|].
      (* the header is carried by the FIRST frame *)
      unfold request in H. destruct fs as [|f r].
      + cbn in H. destruct e; discriminate.
      + cbn in H. unfold status_err in H.
        destruct (f_status f =? status_OK)%Z eqn:Es.
        2:{ destruct (f_status f =? status_NOT_FOUND)%Z; discriminate. }
        apply Z.eqb_eq in Es.
        destruct (decode (f_body f)) as [| |h0|] eqn:Ed; try discriminate.
        destruct (h_ok h0) eqn:Ev; try discriminate.
        cbn in H. rewrite andb_true_r in H.
        destruct (validate_chain fold want (h_chain h0)) eqn:Ec; try discriminate.
        inversion H; subst h0.
        exists f, r, e. split; [reflexivity|]. repeat split; auto.
        now apply validate_chain_spec.
    - intros [h [-> [f [r [e [-> [Hs [Hd [Hv Hc]]]]]]]]].
      unfold request. cbn. unfold status_err. rewrite Hs. cbn. rewrite Hd, Hv. cbn.
      apply validate_chain_spec in Hc. rewrite Hc. reflexivity.
  Qed.

  Lemma request1_bad want s : answers_badly want s -> exists e, request want 1 s = Err e.
  Proof.
    intros Hb. destruct (request want 1 s) as [hs|e| |] eqn:E.
    - apply request1_ok in E. destruct E as [h [_ Hv]]. exfalso. exact (Hb h Hv).
    - eauto.
    - exfalso. exact (request_no_panic _ _ _ E).
    - exfalso. exact (request_not_blocks _ _ _ E).
  Qed.

  Lemma request1_err_bad want s e : request want 1 s = Err e -> answers_badly want s.
  Proof.
    intros E h Hv. assert (H : request want 1 s = Ok [h]) by (apply request1_ok; eauto).
    congruence.
  Qed.

  (** ** performRequest's collection loop *)

  (** soundness: an Ok result is the answer of an arrival preceded only by failed ones *)
  Lemma collect_ok_inv want : forall k evs last hs, collect want 1 k evs last = Ok hs ->
    (k = O /\ last = None /\ hs = []) \/
    exists pre s post, evs = map Arrive pre ++ Arrive s :: post /\ (length pre < k)%nat /\
      Forall (fun s' => exists e, request want 1 s' = Err e) pre /\ request want 1 s = Ok hs.
  Proof.
    induction k as [|k IH]; intros evs last hs H; cbn in H.
    - destruct last; try discriminate. inversion H. left. auto.
    - right. destruct evs as [|ev t]; try discriminate.
      destruct ev as [s| |]; try discriminate.
      destruct (request want 1 s) as [hs'|e| |] eqn:E; try discriminate.
      + inversion H; subst. exists [], s, t. cbn. repeat split; auto; lia.
      + destruct (IH _ _ _ H) as [[_ [Hl _]]|[pre [s' [post [-> [Hlen [Hf Hr]]]]]]]; [discriminate|].
        exists (s :: pre), s', post. cbn. repeat split; auto; try lia.
        constructor; eauto.
  Qed.

  (** completeness: the first valid answer wins *)
  Lemma collect_first_valid want : forall pre k s post last h,
    (length pre < k)%nat -> Forall (answers_badly want) pre -> answers_validly want s h ->
    collect want 1 k (map Arrive pre ++ Arrive s :: post) last = Ok [h].
  Proof.
    induction pre as [|p pre IH]; intros k s post last h Hlen Hb Hv.
    - destruct k; [cbn in Hlen; lia|]. cbn.
      assert (E : request want 1 s = Ok [h]) by (apply request1_ok; eauto).
      rewrite E. reflexivity.
    - destruct k; [cbn in Hlen; lia|]. cbn. inversion Hb; subst.
      destruct (request1_bad want p H1) as [e E].
      rewrite E. apply IH; auto. cbn in Hlen. lia.
  Qed.

  (** all [k] answers arrive and all are bad: the error of the last one is returned *)
  Lemma collect_all_bad want : forall ss k rest last,
    length ss = k -> Forall (answers_badly want) ss ->
    exists e, collect want 1 k (map Arrive ss ++ rest) last = Err e \/
              (ss = [] /\ last = None).
  Proof.
    induction ss as [|p ss IH]; intros k rest last Hlen Hb.
    - cbn in Hlen. subst k. cbn. destruct last as [e|].
      + exists e. left. reflexivity.
      + exists ETransport. right. auto.
    - destruct k; [cbn in Hlen; lia|]. cbn. inversion Hb; subst.
      destruct (request1_bad want p H1) as [e E].
      rewrite E. destruct (IH k rest (Some e)) as [e' [H|[_ H]]]; auto; try discriminate.
        exists e'. left. exact H.
  Qed.

  Lemma collect_all_bad_last want : forall ss k rest last d,
    length ss = k -> ss <> [] -> Forall (answers_badly want) ss ->
    exists e, collect want 1 k (map Arrive ss ++ rest) last = Err e /\
              request want 1 (List.last ss d) = Err e.
  Proof.
    induction ss as [|p ss IH]; intros k rest last d Hlen Hne Hb; [congruence|].
    destruct k; [cbn in Hlen; lia|]. inversion Hb; subst.
    destruct (request1_bad want p H1) as [e E].
    destruct ss as [|q ss'].
    - cbn. rewrite E. cbn in Hlen. assert (k = O) by lia. subst k. cbn. exists e. auto.
    - cbn [map app collect]. rewrite E.
      destruct (IH k rest (Some e) d) as [e' [Hc Hl]]; auto; try discriminate.
      exists e'. split; [exact Hc|]. exact Hl.
  Qed.

  (** the caller's context ends / the exchange stops after only bad answers *)
  Lemma collect_ended want : forall pre k rest last,
    (length pre < k)%nat -> Forall (answers_badly want) pre ->
    collect want 1 k (map Arrive pre ++ CtxDone :: rest) last = Err ECtx /\
    collect want 1 k (map Arrive pre ++ ExStopped :: rest) last = Err EStopped.
  Proof.
    induction pre as [|p pre IH]; intros k rest last Hlen Hb.
    - destruct k; [cbn in Hlen; lia|]. cbn. auto.
    - destruct k; [cbn in Hlen; lia|]. cbn. inversion Hb; subst.
      destruct (request1_bad want p H1) as [e E].
      rewrite E. apply IH; auto. cbn in Hlen. lia.
  Qed.

  Lemma collect_no_panic want amount : forall k evs last,
    collect want amount k evs last <> Panic.
  Proof.
    induction k as [|k IH]; intros evs last; cbn.
    - destruct last; discriminate.
    - destruct evs as [|ev t]; try discriminate.
      destruct ev as [s| |]; try discriminate.
      pose proof (request_no_panic want amount s) as Hp.
      destruct (request want amount s); try discriminate; try congruence.
  Qed.

  Lemma collect_not_blocks want amount : forall k evs last,
    (k <= length evs)%nat -> collect want amount k evs last <> Blocks.
  Proof.
    induction k as [|k IH]; intros evs last Hl; cbn.
    - destruct last; discriminate.
    - destruct evs as [|ev t]; [cbn in Hl; lia|].
      destruct ev as [s| |]; try discriminate.
      pose proof (request_not_blocks want amount s) as Hp.
      destruct (request want amount s); try discriminate; try congruence.
      apply IH. cbn in Hl. lia.
  Qed.

  (** ** performRequest with Amount = 1 *)
  Lemma perform_ok_inv want n evs hs : perform want 1 n evs = Ok hs ->
    exists h s, hs = [h] /\ first_valid_answer want n evs s h.
  Proof.
    unfold perform. destruct n as [|n]; try discriminate.
    intros H. destruct (collect_ok_inv _ _ _ _ _ H) as [[Hk _]|[pre [s [post [-> [Hlen [Hf Hr]]]]]]];
      [discriminate|].
    apply request1_ok in Hr. destruct Hr as [h [-> Hv]].
    exists h, s. split; [reflexivity|]. exists pre, post. repeat split; auto.
    eapply Forall_impl; [|exact Hf]. cbn. intros a [e Ha]. eapply request1_err_bad; eauto.
  Qed.

  Lemma first_header_perform want n evs :
    first_header (perform want 1 n evs) = Panic -> perform want 1 n evs = Panic.
  Proof.
    destruct (perform want 1 n evs) as [hs|e| |] eqn:E; cbn; try discriminate; auto.
    destruct (perform_ok_inv _ _ _ _ E) as [h [s [-> _]]]. discriminate.
  Qed.

  Lemma perform_no_panic want amount n evs : perform want amount n evs <> Panic.
  Proof.
    unfold perform. destruct amount; try discriminate. destruct n; try discriminate.
    apply collect_no_panic; auto.
  Qed.

  (** ** The lemmas behind the theorems of Props/C13.v *)

  Lemma get_ok_inv want n evs hash h : get want n evs hash = Ok h ->
    h_id h = hash /\ exists s, first_valid_answer want n evs s h.
  Proof.
    unfold get. destruct (perform want 1 n evs) as [hs|e| |] eqn:E; cbn; try discriminate.
    destruct (perform_ok_inv _ _ _ _ E) as [h' [s [-> Hfv]]]. cbn.
    destruct (h_id h' =? hash) eqn:Eh; try discriminate.
    intros H; inversion H; subst. apply N.eqb_eq in Eh. split; eauto.
  Qed.

  Lemma get_by_height_ok_inv want n evs height h : get_by_height want n evs height = Ok h ->
    height <> 0 /\ exists s, first_valid_answer want n evs s h.
  Proof.
    unfold get_by_height. destruct (height =? 0) eqn:E0; try discriminate.
    apply N.eqb_neq in E0.
    destruct (perform want 1 n evs) as [hs|e| |] eqn:E; cbn; try discriminate.
    destruct (perform_ok_inv _ _ _ _ E) as [h' [s [-> Hfv]]]. cbn.
    intros H; inversion H; subst. split; eauto.
  Qed.

  Lemma get_binds_hash want n evs hash h : get want n evs hash = Ok h -> h_id h = hash.
  Proof. intros H. apply (get_ok_inv _ _ _ _ _ H). Qed.

  Lemma first_valid_perform want n evs s h :
    first_valid_answer want n evs s h -> perform want 1 n evs = Ok [h].
  Proof.
    intros [pre [post [-> [Hlen [Hb Hv]]]]]. unfold perform.
    destruct n; [lia|]. apply collect_first_valid; auto.
  Qed.

  Lemma first_valid_get want n evs s h hash :
    first_valid_answer want n evs s h ->
    get want n evs hash = if h_id h =? hash then Ok h else Err EHash.
  Proof.
    intros Hfv. unfold get. rewrite (first_valid_perform _ _ _ _ _ Hfv). reflexivity.
  Qed.

  Lemma first_valid_get_by_height want n evs s h height : height <> 0 ->
    first_valid_answer want n evs s h -> get_by_height want n evs height = Ok h.
  Proof.
    intros Hz Hfv. unfold get_by_height. apply N.eqb_neq in Hz. rewrite Hz.
    rewrite (first_valid_perform _ _ _ _ _ Hfv). reflexivity.
  Qed.

  (** all [n] trusted peers answer, none validly *)
  Lemma all_bad_perform want n ss rest :
    length ss = n -> Forall (answers_badly want) ss ->
    exists e, perform want 1 n (map Arrive ss ++ rest) = Err e /\
      (n = O -> e = ENoPeers) /\
      (forall d, n <> O -> request want 1 (List.last ss d) = Err e).
  Proof.
    intros Hlen Hb. unfold perform. destruct n as [|n].
    - exists ENoPeers. repeat split; auto. congruence.
    - assert (Hne : ss <> []) by (intros ->; discriminate).
      destruct (collect_all_bad_last want ss (S n) rest None SFail Hlen Hne Hb) as [e [Hc Hl]].
      exists e. repeat split; auto; try discriminate.
      intros d _. destruct ss as [|a ss']; [congruence|].
      rewrite <- Hl. f_equal. clear. revert a. induction ss' as [|b r IH]; intros a; cbn; auto.
      destruct r; auto. apply (IH b).
  Qed.

  Lemma all_bad_is_error want n ss rest hash height :
    length ss = n -> Forall (answers_badly want) ss ->
    (exists e, get want n (map Arrive ss ++ rest) hash = Err e) /\
    (exists e, get_by_height want n (map Arrive ss ++ rest) height = Err e).
  Proof.
    intros Hlen Hb.
    destruct (all_bad_perform want n ss rest Hlen Hb) as [e [Hp _]].
    unfold get, get_by_height. rewrite Hp. cbn. split; [eauto|].
    destruct (height =? 0); eauto.
  Qed.

  Lemma ended_is_error want n pre rest hash height :
    (length pre < n)%nat -> Forall (answers_badly want) pre ->
    get want n (map Arrive pre ++ CtxDone :: rest) hash = Err ECtx /\
    get want n (map Arrive pre ++ ExStopped :: rest) hash = Err EStopped /\
    (height <> 0 ->
      get_by_height want n (map Arrive pre ++ CtxDone :: rest) height = Err ECtx /\
      get_by_height want n (map Arrive pre ++ ExStopped :: rest) height = Err EStopped).
  Proof.
    intros Hlen Hb. unfold get, get_by_height, perform.
    destruct n; [lia|].
    destruct (collect_ended want pre (S n) rest None Hlen Hb) as [H1 H2].
    rewrite H1, H2. cbn. repeat split; auto;
      intros; apply N.eqb_neq in H; rewrite H; reflexivity.
  Qed.

  Lemma never_zero_nil want n evs hash height h : codec_nonzero ->
    (get want n evs hash = Ok h \/ get_by_height want n evs height = Ok h) -> h_nil h = false.
  Proof.
    intros Hnz [H|H].
    - destruct (get_ok_inv _ _ _ _ _ H) as [_ [s [pre [post [_ [_ [_ [f [r [e [_ [_ [Hd _]]]]]]]]]]]]].
      eapply Hnz; eauto.
    - destruct (get_by_height_ok_inv _ _ _ _ _ H) as [_ [s [pre [post [_ [_ [_ [f [r [e [_ [_ [Hd _]]]]]]]]]]]]].
      eapply Hnz; eauto.
  Qed.

  Lemma total want n evs hash height :
    get want n evs hash <> Panic /\ get_by_height want n evs height <> Panic.
  Proof.
    assert (Hp : first_header (perform want 1 n evs) <> Panic).
    { intros H. apply first_header_perform in H. exact (perform_no_panic _ _ _ _ H). }
    unfold get, get_by_height. split.
    - destruct (first_header (perform want 1 n evs)) as [h|e| |]; try discriminate; try congruence.
      destruct (h_id h =? hash); discriminate.
    - destruct (height =? 0); [discriminate|exact Hp].
  Qed.

  Lemma returns_when_all_arrive want n evs hash height : (n <= length evs)%nat ->
    get want n evs hash <> Blocks /\ get_by_height want n evs height <> Blocks.
  Proof.
    intros Hl.
    assert (Hp : first_header (perform want 1 n evs) <> Blocks).
    { unfold perform. destruct n; [cbn; discriminate|].
      pose proof (collect_not_blocks want 1 (S n) evs None Hl) as H.
      destruct (collect want 1 (S n) evs None) as [[|h r]|e| |]; cbn; try discriminate; congruence. }
    unfold get, get_by_height. split.
    - destruct (first_header (perform want 1 n evs)) as [h|e| |]; try discriminate; try congruence.
      destruct (h_id h =? hash); discriminate.
    - destruct (height =? 0); [discriminate|exact Hp].
  Qed.

  Lemma height_zero_is_error want n evs : get_by_height want n evs 0 = Err EHeightZero.
  Proof. reflexivity. Qed.

  (** a stream whose first body makes the codec panic answers badly (so, by
      [first_valid_wins], it only delays the next valid answer), and the request
      to that peer ends with the recovered error when the status is OK *)
  Lemma panic_body_is_bad want f rest e :
    decode (f_body f) = DPanic ->
    answers_badly want (SData (f :: rest) e) /\
    (f_status f = status_OK -> request want 1 (SData (f :: rest) e) = Err EPanic).
  Proof.
    intros Hd. split.
    - intros h [f' [r' [e' [Heq [_ [Hd' _]]]]]]. inversion Heq; subst. congruence.
    - intros Hs. unfold request. cbn. unfold status_err. rewrite Hs. cbn. rewrite Hd. reflexivity.
  Qed.

  (** the same for a body that decodes to a header on which Validate() panics *)
  Lemma validate_panic_is_bad want f rest e :
    decode (f_body f) = DValPanic ->
    answers_badly want (SData (f :: rest) e) /\
    (f_status f = status_OK -> request want 1 (SData (f :: rest) e) = Err EPanic).
  Proof.
    intros Hd. split.
    - intros h [f' [r' [e' [Heq [_ [Hd' _]]]]]]. inversion Heq; subst. congruence.
    - intros Hs. unfold request. cbn. unfold status_err. rewrite Hs. cbn. rewrite Hd. reflexivity.
  Qed.

  Lemma total_validate_panic want n evs hash height :
    (exists fs e f, In (Arrive (SData fs e)) evs /\ In f fs /\ decode (f_body f) = DValPanic) ->
    get want n evs hash <> Panic /\ get_by_height want n evs height <> Panic.
  Proof. intros _. apply total. Qed.

  (** ** Statements in the exact form of Props/C13.v *)

  Lemma vocabulary want n evs s h :
    (answers_validly want s h <->
       exists f rest e, s = SData (f :: rest) e /\ f_status f = status_OK /\
         decode (f_body f) = DHdr h /\ h_ok h = true /\ (want = 0 \/ fold want = fold (h_chain h))) /\
    (first_valid_answer want n evs s h <->
       exists pre post, evs = map Arrive pre ++ Arrive s :: post /\ (length pre < n)%nat /\
         Forall (fun s' => forall h', ~ answers_validly want s' h') pre /\
         answers_validly want s h).
  Proof. split; exact (iff_refl _). Qed.

  Lemma only_validated want n evs hash height h :
    (get want n evs hash = Ok h -> exists s, first_valid_answer want n evs s h) /\
    (get_by_height want n evs height = Ok h ->
       height <> 0 /\ exists s, first_valid_answer want n evs s h).
  Proof.
    split; intros H.
    - exact (proj2 (get_ok_inv _ _ _ _ _ H)).
    - exact (get_by_height_ok_inv _ _ _ _ _ H).
  Qed.

  Lemma first_valid_wins want n evs s h hash height :
    first_valid_answer want n evs s h ->
    get want n evs hash = (if h_id h =? hash then Ok h else Err EHash) /\
    (height <> 0 -> get_by_height want n evs height = Ok h).
  Proof.
    intros Hfv. split.
    - exact (first_valid_get _ _ _ _ _ _ Hfv).
    - intros Hz. exact (first_valid_get_by_height _ _ _ _ _ _ Hz Hfv).
  Qed.

  Lemma all_bad_full want n ss rest hash height :
    length ss = n -> Forall (answers_badly want) ss ->
    (exists e, get want n (map Arrive ss ++ rest) hash = Err e) /\
    (exists e, get_by_height want n (map Arrive ss ++ rest) height = Err e) /\
    (exists e, perform want 1 n (map Arrive ss ++ rest) = Err e /\
       (n = O -> e = ENoPeers) /\
       (forall d, n <> O -> request want 1 (List.last ss d) = Err e)).
  Proof.
    intros Hl Hb.
    destruct (all_bad_is_error want n ss rest hash height Hl Hb) as [H1 H2].
    split; [exact H1|]. split; [exact H2|].
    exact (all_bad_perform want n ss rest Hl Hb).
  Qed.

End Spec.
