(** Proofs about Model/Syncer.v, part 2 (C03): invariants of the small-step
    machine that hold for EVERY schedule and arbitrary inputs (arbitrary gossip,
    arbitrary Head() answers, errors / empty / shifted / over-long getter
    answers; range answers are only assumed height-contiguous, which is the one
    thing the getter contract promises and the shim cannot check on its
    skip path). *)
From Coq Require Import List Lia.
From RecordUpdate Require Import RecordSet.
From GH Require Import Base.Prelude Model.Verify Model.Ranges Model.Syncer Proofs.VerifyP Proofs.RangesP Proofs.SyncerP.
Import RecordSetNotations.

(** ** where headers live in a configuration *)
Definition rk_hdrs (k : rk) : list hdr := match k with KGap cached _ => cached | KFin => [] end.
Definition ak_hdrs (k : ak) : list hdr := match k with AKReq k' _ => rk_hdrs k' | AKCached _ => [] end.

Definition loop_hdrs (pc : lpc) : list hdr :=
  match pc with
  | LSync1 (Some p) | LSync2 p => [p]
  | LFirst from _ | LGet from _ => [from]
  | LReq k from _ => from :: rk_hdrs k
  | LApp0 k hs | LApp2 k hs => hs ++ ak_hdrs k
  | LApp1 k hs nh => nh :: hs ++ ak_hdrs k
  | LRem _ lst => [lst]
  | _ => []
  end.

(** headers a learner call has adopted (not the candidates still being verified) *)
Definition thr_hdrs (t : tpc) : list hdr :=
  match t with
  | TRun _ _ x st rest => (match st with SL1 nh => [nh] | _ => [] end) ++ x :: rest
  | THd1 sbj _ => [sbj]
  | TVer _ _ _ (Some p) | THd0c _ (Some p) => [p]
  | _ => []
  end.

Definition all_hdrs (c : cfg) : list hdr :=
  rs_log (c_store c) ++ c_cache c :: ranges_all (c_pend c) ++ loop_hdrs (c_loop c) ++ flat_map thr_hdrs (c_thr c).

Section inv.
Variables (drift : Z) (tv : hdr -> hdr -> tvres).

Definition vwork' := vwork drift tv.

(** the headers an event lets into the configuration: a range answer that
    passes requestHeaders' checks, what verify() adopts for a gossip header
    (the header itself only if verification accepts it, directly or through
    bifurcation; the heads bifurcation promoted), a head adopted by Head() *)
Definition enters (c : cfg) (e : event) : list hdr :=
  match e with
  | EL a =>
    match c_loop c, a with
    | LReq _ from to, GList ((x :: _) as hs) =>
      if (h_height from <? to) && (h_height x =? wrap64 (h_height from + 1)) then hs else []
    | _, _ => []
    end
  | ET i =>
    match nth_error (c_thr c) i with
    | Some (TVer x now b ph) => fst (vwork' (pick_head ph (c_cache c)) x now b)
    | Some (THd1 sbj (Some x)) => if h_height x <=? h_height sbj then [] else [x]
    | _ => []
    end
  | _ => []
  end.

(** shape of the loop's locals *)
Definition hs_ok (hs : list hdr) : Prop := hs <> [] /\ consec hs.
Definition rk_ok (k : rk) : Prop := match k with KGap cached _ => hs_ok cached | KFin => True end.
Definition ak_ok (k : ak) : Prop := match k with AKReq k' _ => rk_ok k' | AKCached _ => True end.
Definition pc_ok (pc : lpc) : Prop :=
  match pc with
  | LReq k _ _ => rk_ok k
  | LApp0 k hs | LApp2 k hs => hs_ok hs /\ ak_ok k
  | LApp1 k hs nh => hs_ok hs /\ ak_ok k /\ h_height nh = h_height (last hs hdr_nil)
  | _ => True
  end.

Lemma in_last (l : list hdr) d : l <> [] -> In (last l d) l.
Proof. destruct l as [|a l]; [contradiction|]. intros _. rewrite (last_indep l a d a). apply last_in. Qed.

Lemma ranges_first_all rs : ranges_all (ranges_first rs) = ranges_all rs.
Proof.
  induction rs as [|r t IH]; [reflexivity|]. unfold ranges_first; fold ranges_first.
  unfold range_empty. destruct (r_hdrs r) eqn:E; [|reflexivity]. rewrite IH. cbn. rewrite E. reflexivity.
Qed.

Lemma ranges_add_sub x rs y : In y (ranges_all (ranges_add x rs)) -> y = x \/ In y (ranges_all rs).
Proof.
  unfold ranges_add. intros H.
  assert (Hnew : In y (ranges_all (rs ++ [new_range x])) -> y = x \/ In y (ranges_all rs)).
  { rewrite ranges_all_app. intros Hy. apply in_app_or in Hy. destruct Hy as [Hy|Hy]; [right; exact Hy|].
    cbn in Hy. destruct Hy as [<-|[]]. left. reflexivity. }
  destruct (ranges_head rs) as [m|]; [|apply Hnew; exact H].
  destruct (h_height x <=? h_height m); [right; exact H|].
  destruct (h_height x =? wrap64 (h_height m + 1)); [|apply Hnew; exact H].
  destruct rs as [|r0 t0]; [cbn in H; destruct H|].
  destruct (append_last_spec x (r0 :: t0) ltac:(discriminate)) as (pre & r & E & E'). rewrite E' in H. rewrite E.
  rewrite ranges_all_app in *. apply in_app_or in H. destruct H as [H|H]; [right; apply in_or_app; left; exact H|].
  cbn in H. rewrite app_nil_r in H. apply in_app_or in H. destruct H as [H|[<-|[]]]; [|left; reflexivity].
  right. apply in_or_app. right. cbn. rewrite app_nil_r. exact H.
Qed.

Lemma range_get_sub e r hs y : range_get e r = Some hs -> In y hs -> In y (r_hdrs r).
Proof.
  unfold range_get. destruct (_ <=? _); [|discriminate]. intros [= <-] Hy. eapply in_firstn'. exact Hy.
Qed.

Lemma range_remove_sub e r r' y : range_remove e r = Some r' -> In y (r_hdrs r') -> In y (r_hdrs r).
Proof.
  unfold range_remove. destruct (_ <=? _); [|discriminate]. intros [= <-] Hy. cbn in Hy. eapply in_skipn'. exact Hy.
Qed.


Lemma flat_upd i t (T : list tpc) y :
  In y (flat_map thr_hdrs (upd_nth i t T)) -> In y (thr_hdrs t) \/ In y (flat_map thr_hdrs T).
Proof.
  revert i. induction T as [|t0 T IH]; intros i H; [destruct i; destruct H|].
  destruct i; cbn in H; apply in_app_or in H.
  - destruct H as [H|H]; [left; exact H|right; cbn; apply in_or_app; right; exact H].
  - destruct H as [H|H]; [right; cbn; apply in_or_app; left; exact H|].
    destruct (IH i H) as [H'|H']; [left; exact H'|right; cbn; apply in_or_app; right; exact H'].
Qed.

Lemma flat_nth i t (T : list tpc) y : nth_error T i = Some t -> In y (thr_hdrs t) -> In y (flat_map thr_hdrs T).
Proof. intros Hn Hy. apply in_flat_map. exists t. split; [eapply nth_error_In; exact Hn|exact Hy]. Qed.

Ltac mem :=
  unfold all_hdrs, ranges_all in *;
  repeat match goal with E : c_loop ?c = _ |- context [c_loop ?c] => rewrite E end;
  repeat match goal with
         | E : c_loop ?c = ?v, H : context [c_loop ?c] |- _ =>
           lazymatch type of H with c_loop c = v => fail | _ => rewrite E in H end
         end;
  cbn in *;
  repeat match goal with
         | E : c_pend ?c = ?v, H : context [c_pend ?c] |- _ =>
           lazymatch type of H with c_pend c = v => fail | _ => rewrite E in H end
         end;
  repeat match goal with E : c_pend ?c = _ |- context [c_pend ?c] => rewrite E end;
  cbn in *; repeat (first [rewrite in_app_iff in * | progress simpl In in *]); tauto.

Lemma rs_append_log hs s y : In y (rs_log (rs_append hs s)) -> In y hs \/ In y (rs_log s).
Proof. unfold rs_append. cbn. intros H. apply in_app_or in H. destruct H as [H|H]; [left; apply in_rev; exact H|right; exact H]. Qed.

Lemma drop_below_incl c hs y : In y (drop_below c hs) -> In y hs.
Proof.
  induction hs as [|a r IH]; cbn; [intros H; exact H|]. destruct (_ <? _); [intros H; right; apply IH; exact H|intros H; exact H].
Qed.

Lemma shim_ok_inv c hs nh :
  shim_check c hs = ShimOk nh -> drop_below c hs <> [] /\ shim_walk c (drop_below c hs) = Some nh.
Proof.
  unfold shim_check. destruct hs as [|h0 r]; [discriminate|]. destruct (drop_below c (h0 :: r)) as [|a l]; [discriminate|].
  destruct (shim_walk c (a :: l)) as [z|]; [|discriminate]. intros [= <-]. split; [discriminate|reflexivity].
Qed.

Lemma shim_skip_inv c hs : shim_check c hs = ShimSkip -> hs <> [] /\ drop_below c hs = [].
Proof.
  unfold shim_check. destruct hs as [|h0 r]; [discriminate|]. destruct (drop_below c (h0 :: r)) as [|a l]; [split; [discriminate|reflexivity]|].
  destruct (shim_walk c (a :: l)); discriminate.
Qed.

Lemma drop_below_suffix c hs : exists pre, hs = pre ++ drop_below c hs /\ forall y, In y pre -> h_height y < h_height c.
Proof.
  induction hs as [|a r IH]; [exists []; split; [reflexivity|intros y []]|].
  cbn [drop_below]. destruct (N.ltb_spec (h_height a) (h_height c)) as [H|H].
  - destruct IH as (pre & E & Hp). exists (a :: pre). split; [cbn; rewrite <- E; reflexivity|].
    intros y [<-|Hy]; [exact H|apply Hp; exact Hy].
  - exists []. split; [reflexivity|intros y []].
Qed.

Lemma drop_below_last c hs d : drop_below c hs <> [] -> last (drop_below c hs) d = last hs d.
Proof.
  intros Hne. destruct (drop_below_suffix c hs) as (pre & E & _). rewrite E at 2. symmetry. apply last_app'. exact Hne.
Qed.

Lemma drop_below_nil_hd c h0 r : drop_below c (h0 :: r) = [] -> h_height h0 < h_height c.
Proof. cbn. destruct (N.ltb_spec (h_height h0) (h_height c)) as [H|H]; intros E; [exact H|discriminate E]. Qed.

Lemma shim_walk_in c hs nh : shim_walk c hs = Some nh -> In nh hs \/ nh = c.
Proof.
  revert c. induction hs as [|a r IH]; intros c Hw.
  - cbn in Hw. injection Hw as <-. right. reflexivity.
  - rewrite shim_walk_cons in Hw. destruct (_ && _).
    + destruct (IH c Hw) as [H|H]; [left; right; exact H|right; exact H].
    + destruct (_ =? _); [|discriminate]. destruct (IH a Hw) as [H|H]; [left; right; exact H|left; left; symmetry; exact H].
Qed.

Lemma remove_upto_sub e : forall rs rs' y, ranges_remove_upto e rs = Some rs' -> In y (ranges_all rs') -> In y (ranges_all rs).
Proof.
  induction rs as [|r t IH]; intros rs' y E Hy.
  - cbn in E. injection E as <-. exact Hy.
  - cbn in E. destruct (range_remove e r) as [r'|] eqn:Er; [|discriminate].
    destruct (ranges_remove_upto e t) as [t'|] eqn:Et; [|discriminate]. injection E as <-.
    cbn in Hy. apply in_app_or in Hy. cbn. apply in_or_app. destruct Hy as [Hy|Hy].
    + left. eapply range_remove_sub; eassumption.
    + right. eapply IH; [reflexivity|exact Hy].
Qed.

Lemma flow_l a c y :
  pc_ok (c_loop c) -> In y (all_hdrs (l_step a c)) -> In y (all_hdrs c) \/ In y (enters c (EL a)).
Proof.
  intros Hpc. unfold l_step, enters, all_hdrs. destruct (c_loop c) as [| |ph|p|from to|from to|k from to|k hs|k hs nh|k hs|oto lst|] eqn:Elp.
  - destruct (c_trig c); intros H; left; mem.
  - destruct (ranges_head (c_pend c)) as [p|] eqn:Ep; intros H; [|left; mem].
    assert (Hp : In p (ranges_all (c_pend c))).
    { unfold ranges_head in Ep. destruct (last_opt (c_pend c)) as [r|] eqn:Er; [|discriminate].
      apply last_opt_in in Er. unfold range_head in Ep. apply last_opt_in in Ep.
      unfold ranges_all. apply in_flat_map. exists r. split; assumption. }
    assert (Hp' : p = y -> In y (ranges_all (c_pend c))) by (intros <-; exact Hp).
    left. mem.
  - assert (Hpk : pick_head ph (c_cache c) = y -> c_cache c = y \/ ph = Some y).
    { unfold pick_head. destruct ph as [p|]; [destruct (_ <? _)|]; intros <-; auto. }
    destruct ph as [p|]; intros H; left.
    + assert (Hpk' : pick_head (Some p) (c_cache c) = y -> c_cache c = y \/ p = y) by (intros E; destruct (Hpk E) as [E'|E']; [left; exact E'|right; congruence]).
      mem.
    + assert (Hpk' : pick_head None (c_cache c) = y -> c_cache c = y) by (intros E; destruct (Hpk E) as [E'|E']; [exact E'|discriminate]).
      mem.
  - destruct (_ <=? _); [|intros H; left; mem].
    destruct (ranges_remove_upto (h_height (c_cache c)) (c_pend c)) as [rs|] eqn:Eu; [|intros H; left; mem].
    assert (Hsub : In y (ranges_all rs) -> In y (ranges_all (c_pend c))) by (apply (remove_upto_sub _ _ _ y Eu)).
    intros H. left. mem.
  - pose proof (ranges_first_all (c_pend c)) as Ef.
    destruct (ranges_first (c_pend c)) as [|r t] eqn:E; intros H; left; unfold all_hdrs, ranges_all in *; cbn in *; rewrite <- ?Ef; mem.
  - destruct (c_pend c) as [|r t] eqn:EP; [intros H; left; mem|].
    destruct (range_get to r) as [[|h0 g]|] eqn:Eg; try (intros H; left; mem).
    assert (Hsub : In y (h0 :: g) -> In y (r_hdrs r)) by (apply (range_get_sub to r _ y Eg)).
    destruct (_ =? _); intros H; left; mem.
  - destruct (h_height from <? to) eqn:Elt.
    + destruct a as [|[|x l]]; try (intros H; left; mem).
      cbn [andb]. destruct (h_height x =? wrap64 (h_height from + 1)); intros H; [|left; mem].
      mem.
    + destruct k; intros H; left; mem.
  - destruct Hpc as [[Hne _] _]. pose proof (in_last hs hdr_nil Hne) as Hl.
    destruct (shim_check (c_cache c) hs) as [| |nh|] eqn:Es; try (intros H; left; mem).
    + assert (Hl' : last hs hdr_nil = y -> In y hs) by (intros <-; exact Hl).
      destruct k as [k' to|oto]; intros H; left; mem.
    + (* the new head is the last header of hs *)
      assert (Hnh : In nh hs \/ nh = c_cache c).
      { destruct (shim_ok_inv _ _ _ Es) as [_ Ew]. destruct (shim_walk_in _ _ _ Ew) as [Hi|Hi]; [left; apply (drop_below_incl _ _ _ Hi)|right; exact Hi]. }
      assert (Hnh' : nh = y -> In y hs \/ c_cache c = y) by (intros <-; destruct Hnh as [Hn|Hn]; [left; exact Hn|right; symmetry; exact Hn]).
      intros H. left. mem.
  - destruct Hpc as ([Hne _] & _ & Enh). intros H. left. mem.
  - destruct Hpc as [[Hne _] _]. pose proof (in_last hs hdr_nil Hne) as Hl.
    assert (Hl' : last hs hdr_nil = y -> In y hs) by (intros <-; exact Hl).
    assert (Hlog : In y (rs_log (rs_append hs (c_store c))) -> In y hs \/ In y (rs_log (c_store c))) by apply rs_append_log.
    destruct k as [k' to|oto]; intros H; left; mem.
  - destruct (c_pend c) as [|r t] eqn:EP; [intros H; left; mem|].
    destruct (range_remove oto r) as [r'|] eqn:Er; [|intros H; left; mem].
    assert (Hsub : In y (r_hdrs r') -> In y (r_hdrs r)) by (apply (range_remove_sub oto r r' y Er)).
    intros H. left. mem.
  - intros H. left. rewrite Elp in H. exact H.
Qed.


Lemma verdict_hdrs now b t x : thr_hdrs (verdict drift tv now b t x) = fst (vwork' t x now b).
Proof.
  unfold verdict, vwork', vwork. destruct (Verify now drift tv t x) as [e|]; [|reflexivity].
  destruct (ve_soft e); [|reflexivity]. destruct b as [pr ok]. cbn [fst].
  destruct (pr ++ (if ok then [x] else [])); reflexivity.
Qed.

Lemma verdict_shape now b t x :
  verdict drift tv now b t x = TDone false \/ exists res w r, verdict drift tv now b t x = TRun true res w SL0 r.
Proof.
  unfold verdict. destruct (Verify now drift tv t x) as [e|]; [|right; eexists _, _, _; reflexivity].
  destruct (ve_soft e); [|left; reflexivity]. destruct b as [pr ok].
  destruct (pr ++ (if ok then [x] else [])); [left; reflexivity|right; eexists _, _, _; reflexivity].
Qed.

Lemma head_in_pending P p : ranges_head P = Some p -> In p (ranges_all P).
Proof.
  unfold ranges_head. intros Ep. destruct (last_opt P) as [r|] eqn:Er; [|discriminate].
  apply last_opt_in in Er. unfold range_head in Ep. apply last_opt_in in Ep.
  unfold ranges_all. apply in_flat_map. exists r. split; assumption.
Qed.

Lemma all_hdrs_set_thr i t c y :
  In y (all_hdrs (set_thr i t c)) ->
  In y (rs_log (c_store c)) \/ y = c_cache c \/ In y (ranges_all (c_pend c)) \/ In y (loop_hdrs (c_loop c)) \/
  In y (thr_hdrs t) \/ In y (flat_map thr_hdrs (c_thr c)).
Proof.
  unfold all_hdrs, set_thr. cbn. rewrite !in_app_iff. cbn. rewrite !in_app_iff.
  intros [H|[H|[H|[H|H]]]]; auto. apply flat_upd in H. tauto.
Qed.

Lemma all_hdrs_intro c y :
  In y (rs_log (c_store c)) \/ y = c_cache c \/ In y (ranges_all (c_pend c)) \/ In y (loop_hdrs (c_loop c)) \/
  In y (flat_map thr_hdrs (c_thr c)) -> In y (all_hdrs c).
Proof. unfold all_hdrs. rewrite !in_app_iff. cbn. rewrite !in_app_iff. intros [H|[H|[H|[H|H]]]]; auto. Qed.

Lemma flow_t i c y :
  In y (all_hdrs (t_step drift tv i c)) -> In y (all_hdrs c) \/ In y (enters c (ET i)).
Proof.
  unfold t_step, enters. destruct (nth_error (c_thr c) i) as [t|] eqn:En; [|intros H; left; exact H].
  assert (Hold : In y (thr_hdrs t) -> In y (flat_map thr_hdrs (c_thr c))) by (apply (flat_nth i t _ y En)).
  assert (Hpk : forall ph, pick_head ph (c_cache c) = y -> c_cache c = y \/ ph = Some y).
  { intros ph. unfold pick_head. destruct ph as [p|]; [destruct (_ <? _)|]; intros <-; auto. }
  destruct t as [h now b|h now b ph|a|a ph|sbj a|mu res x st rest|r]; cbn [t_body].
  - destruct (c_mu c); [intros H; left; exact H|].
    intros H. apply all_hdrs_set_thr in H. cbn in H. left. apply all_hdrs_intro.
    destruct (ranges_head (c_pend c)) as [p|] eqn:Ep; [|cbn in H; tauto].
    pose proof (head_in_pending _ _ Ep) as Hp. cbn in H. destruct H as [H|[H|[H|[H|[[H|[]]|H]]]]]; try tauto. subst y. tauto.
  - unfold enter. pose proof (verdict_hdrs now b (pick_head ph (c_cache c)) h) as Hv.
    destruct (verdict_shape now b (pick_head ph (c_cache c)) h) as [E|(res & w & r & E)]; rewrite E in *; intros H; apply all_hdrs_set_thr in H; cbn in H.
    + left. apply all_hdrs_intro. tauto.
    + rewrite <- Hv. cbn [thr_hdrs app]. destruct H as [H|[H|[H|[H|[H|H]]]]]; try (left; apply all_hdrs_intro; tauto). right. exact H.
  - intros H. apply all_hdrs_set_thr in H. cbn in H. left. apply all_hdrs_intro.
    destruct (ranges_head (c_pend c)) as [p|] eqn:Ep; [|cbn in H; tauto].
    pose proof (head_in_pending _ _ Ep) as Hp. cbn in H. destruct H as [H|[H|[H|[H|[[H|[]]|H]]]]]; try tauto. subst y. tauto.
  - intros H; apply all_hdrs_set_thr in H; cbn in H. left; apply all_hdrs_intro.
    destruct H as [H|[H|[H|[H|[[H|[]]|H]]]]]; try tauto.
    destruct (Hpk ph H) as [E|E]; [right; left; symmetry; exact E|]. right; right; right; right. apply Hold. rewrite E. cbn. left. reflexivity.
  - destruct a as [x|]; [|intros H; apply all_hdrs_set_thr in H; cbn in H; left; apply all_hdrs_intro; tauto].
    destruct (h_height x <=? h_height sbj); intros H; apply all_hdrs_set_thr in H; cbn in H.
    + left; apply all_hdrs_intro; tauto.
    + destruct H as [H|[H|[H|[H|[[H|[]]|H]]]]]; try (left; apply all_hdrs_intro; tauto). right. left. exact H.
  - assert (Hx : x = y -> In y (flat_map thr_hdrs (c_thr c))) by (intros <-; apply Hold; cbn [thr_hdrs]; apply in_or_app; right; left; reflexivity).
    assert (Hr : In y rest -> In y (flat_map thr_hdrs (c_thr c))) by (intros Hy; apply Hold; cbn [thr_hdrs]; apply in_or_app; right; right; exact Hy).
    assert (Hnext : forall c', In y (all_hdrs (t_next i mu res rest c')) ->
              In y (rs_log (c_store c')) \/ y = c_cache c' \/ In y (ranges_all (c_pend c')) \/ In y (loop_hdrs (c_loop c')) \/
              In y rest \/ In y (flat_map thr_hdrs (c_thr c'))).
    { intros c' H. unfold t_next in H. destruct rest as [|y0 r0]; apply all_hdrs_set_thr in H.
      - destruct mu; cbn in H; tauto.
      - cbn in H. simpl In. tauto. }
    destruct st as [|nh| | | |].
    + destruct (shim_check (c_cache c) [x]) as [| |nh|] eqn:Es; intros H; apply all_hdrs_set_thr in H; cbn in H; left; apply all_hdrs_intro; try tauto.
      assert (Hnh : nh = y -> y = c_cache c \/ x = y).
      { intros <-. rewrite shim_check_1 in Es. destruct (_ <=? _); [|discriminate].
        destruct (shim_walk (c_cache c) [x]) as [z|] eqn:Ew; [|discriminate]. injection Es as <-.
        destruct (shim_walk_in _ _ _ Ew) as [[E|[]]|E]; [right; exact E|left; exact E]. }
      tauto.
    + assert (Hn : nh = y -> In y (flat_map thr_hdrs (c_thr c))) by (intros <-; apply Hold; cbn [thr_hdrs]; apply in_or_app; left; left; reflexivity).
      intros H; apply all_hdrs_set_thr in H; cbn in H. left; apply all_hdrs_intro.
      destruct H as [H|[H|H]]; try tauto. subst y. right; right; right; right. apply Hn. reflexivity.
    + intros H; apply all_hdrs_set_thr in H; cbn in H. left; apply all_hdrs_intro.
      destruct H as [H|H]; [|tauto]. apply rs_append_log in H. cbn in H. tauto.
    + destruct (_ <=? _); intros H.
      * apply Hnext in H. left; apply all_hdrs_intro. tauto.
      * apply all_hdrs_set_thr in H; cbn in H. left; apply all_hdrs_intro; tauto.
    + intros H; apply all_hdrs_set_thr in H; cbn in H. left; apply all_hdrs_intro.
      destruct H as [H|[H|[H|H]]]; try tauto. apply ranges_add_sub in H. destruct H as [->|H]; [|tauto].
      right; right; right; right. apply Hx. reflexivity.
    + intros H. apply Hnext in H. cbn in H. left; apply all_hdrs_intro. tauto.
  - intros H. left. exact H.
Qed.

Lemma flow c e y :
  pc_ok (c_loop c) -> In y (all_hdrs (step drift tv c e)) -> In y (all_hdrs c) \/ In y (enters c e).
Proof.
  intros Hpc. destruct e as [h now b|a|a|i]; cbn [step].
  - intros H. left. unfold all_hdrs in *. cbn in *. rewrite flat_map_app in H. cbn in H. rewrite app_nil_r in H. exact H.
  - intros H. left. unfold all_hdrs in *. cbn in *. rewrite flat_map_app in H. cbn in H. rewrite app_nil_r in H. exact H.
  - apply flow_l. exact Hpc.
  - apply flow_t.
Qed.

End inv.

(** ** contiguity for every schedule *)

(** a set of heights is "closed": nothing below the tail, and with every
    height above the tail also its predecessor *)
Definition closed (tail : N) (L : list N) : Prop :=
  forall n, In n L -> tail <= n /\ (tail < n -> In (n - 1) L).

Lemma closed_down tail L n : closed tail L -> In n L -> forall m, tail <= m <= n -> In m L.
Proof.
  intros Hc Hn m Hm. remember (N.to_nat (n - m)) as d eqn:Ed. revert m Hm Ed.
  induction d as [|d IH]; intros m Hm Ed.
  - assert (m = n) by lia. subst m. exact Hn.
  - assert (Hm1 : In (m + 1) L) by (apply IH; lia).
    destruct (Hc (m + 1) Hm1) as [_ Hp]. replace m with (m + 1 - 1) by lia. apply Hp. lia.
Qed.

Lemma closed_ext tail L L' E :
  closed tail L -> (forall n, In n L' <-> In n L \/ In n E) ->
  (forall n, In n E -> tail <= n /\ (tail < n -> In (n - 1) L \/ In (n - 1) E)) ->
  closed tail L'.
Proof.
  intros Hc Hm HE n Hn. apply Hm in Hn. destruct Hn as [Hn|Hn].
  - destruct (Hc n Hn) as [H1 H2]. split; [exact H1|]. intros Hlt. apply Hm. left. apply H2. exact Hlt.
  - destruct (HE n Hn) as [H1 H2]. split; [exact H1|]. intros Hlt. apply Hm. apply H2. exact Hlt.
Qed.

(** a log holding every height of [a, b] has at least b - a + 1 entries *)
Lemma has_count_closed log a b :
  a <= b -> (forall m, a <= m <= b -> rs_has m log = true) -> (N.to_nat (b - a) < length log)%nat.
Proof.
  intros Hab H.
  set (l := map (fun i => a + N.of_nat i) (seq 0 (S (N.to_nat (b - a))))).
  assert (Hnd : NoDup l).
  { unfold l. apply FinFun.Injective_map_NoDup; [|apply seq_NoDup]. intros x y Hxy. lia. }
  assert (Hincl : incl l (map h_height log)).
  { intros m Hm. unfold l in Hm. apply in_map_iff in Hm. destruct Hm as (i & <- & Hi). apply in_seq in Hi.
    assert (Hh : rs_has (a + N.of_nat i) log = true) by (apply H; lia).
    apply rs_has_in in Hh. destruct Hh as (x & Hin & Hx). apply in_map_iff. exists x. split; assumption. }
  pose proof (NoDup_incl_length Hnd Hincl) as Hlen.
  unfold l in Hlen. rewrite !map_length, seq_length in Hlen. lia.
Qed.

Lemma rs_adv_props log : forall fuel n,
  let X := rs_adv log n fuel in
  n <= X /\ (forall m, n < m <= X -> rs_has m log = true) /\ (rs_has (X + 1) log = false \/ X = n + N.of_nat fuel).
Proof.
  induction fuel as [|f IH]; intros n; cbn [rs_adv].
  - split; [lia|]. split; [intros m Hm; lia|right; lia].
  - destruct (rs_has (n + 1) log) eqn:Eh.
    + destruct (IH (n + 1)) as (H1 & H2 & H3). cbn zeta in *. split; [lia|]. split.
      * intros m Hm. destruct (N.eq_dec m (n + 1)) as [->|Hne]; [exact Eh|apply H2; lia].
      * destruct H3 as [H3|H3]; [left; exact H3|right; lia].
    + split; [lia|]. split; [intros m Hm; lia|left; exact Eh].
Qed.

(** the store's Head is the top of the contiguous stretch from the tail *)
Definition head_ok (s : rstore) : Prop :=
  rs_tail s <= rs_head s /\
  (forall n, rs_tail s <= n <= rs_head s -> rs_has n (rs_log s) = true) /\ rs_has (rs_head s + 1) (rs_log s) = false.

Lemma head_ok_append hs s : head_ok s -> head_ok (rs_append hs s) /\ rs_tail (rs_append hs s) = rs_tail s.
Proof.
  intros (H0 & H1 & H2). split; [|reflexivity]. unfold head_ok, rs_append. cbn [rs_tail rs_head rs_log].
  set (log := rev hs ++ rs_log s).
  destruct (rs_adv_props log (length log) (rs_head s)) as (A & B & C). cbn zeta in *.
  set (X := rs_adv log (rs_head s) (length log)) in *.
  assert (Hold : forall n, rs_tail s <= n <= rs_head s -> rs_has n log = true).
  { intros n Hn. unfold log. rewrite rs_has_app, (H1 n Hn). apply Bool.orb_true_r. }
  assert (Hall : forall n, rs_tail s <= n <= X -> rs_has n log = true).
  { intros n Hn. destruct (N.le_gt_cases n (rs_head s)); [apply Hold; lia|apply B; lia]. }
  split; [lia|]. split; [exact Hall|].
  destruct C as [C|C]; [exact C|exfalso].
  pose proof (has_count_closed log (rs_head s) X A ltac:(intros m Hm; apply Hall; lia)). lia.
Qed.

Lemma flat_upd_g {B} (f : tpc -> list B) i t (T : list tpc) y :
  In y (flat_map f (upd_nth i t T)) -> In y (f t) \/ In y (flat_map f T).
Proof.
  revert i. induction T as [|t0 T IH]; intros i H; [destruct i; destruct H|].
  destruct i; cbn in H; apply in_app_or in H.
  - destruct H as [H|H]; [left; exact H|right; cbn; apply in_or_app; right; exact H].
  - destruct H as [H|H]; [right; cbn; apply in_or_app; left; exact H|].
    destruct (IH i H) as [H'|H']; [left; exact H'|right; cbn; apply in_or_app; right; exact H'].
Qed.

Lemma flat_upd_rev {B} (f : tpc -> list B) i t t' (T : list tpc) y :
  nth_error T i = Some t -> In y (flat_map f T) -> In y (f t) \/ In y (flat_map f (upd_nth i t' T)).
Proof.
  revert i. induction T as [|t0 T IH]; intros i Hn H; [destruct H|].
  destruct i; cbn in *; apply in_app_or in H.
  - injection Hn as ->. destruct H as [H|H]; [left; exact H|right; apply in_or_app; right; exact H].
  - destruct H as [H|H]; [right; apply in_or_app; left; exact H|].
    destruct (IH i Hn H) as [H'|H']; [left; exact H'|right; apply in_or_app; right; exact H'].
Qed.

Lemma flat_upd_new {B} (f : tpc -> list B) i t' (T : list tpc) y :
  (i < length T)%nat -> In y (f t') -> In y (flat_map f (upd_nth i t' T)).
Proof.
  intros Hi Hy. apply in_flat_map. exists t'. split; [|exact Hy].
  eapply nth_error_In. apply nth_upd_same. exact Hi.
Qed.

Section inv2.
Variables (drift : Z) (tv : hdr -> hdr -> tvres) (tail : N).

Definition P (y : hdr) : Prop := tail <= h_height y /\ hok y.

Definition tres (t : tpc) : list hdr :=
  match t with TRun _ _ x (SL1 _) _ | TRun _ _ x SL2 _ => [x] | _ => [] end.
Definition lres (pc : lpc) : list hdr :=
  match pc with LApp1 _ hs _ | LApp2 _ hs => hs | _ => [] end.
(** headers whose Store.Append is committed (shim passed) but not yet executed *)
Definition reserved (c : cfg) : list hdr := lres (c_loop c) ++ flat_map tres (c_thr c).
Definition hts (c : cfg) : list N := map h_height (rs_log (c_store c) ++ reserved c).

Definition thr_wf (t : tpc) : Prop :=
  match t with
  | TWait x _ (Bif pr _) | TVer x _ (Bif pr _) _ => hok x /\ forall p, In p pr -> P p
  | THd0 (Some x) | THd0c (Some x) _ | THd1 _ (Some x) => hok x
  | TRun _ _ x (SL1 nh) _ => h_height nh = h_height x
  | _ => True
  end.

(** inputs: heights are uint64 values below the maximum; what bifurcation
    promoted passed header.Verify against a head of this store (so it is above
    the tail); range answers are height-contiguous lists (any start, any length) *)
Definition wf_event (e : event) : Prop :=
  match e with
  | EGossip x _ (Bif pr _) => hok x /\ forall p, In p pr -> P p
  | EHead (Some x) => hok x
  | EL (GList hs) => Forall hok hs /\ consec hs
  | _ => True
  end.

Record Inv (c : cfg) : Prop := MkInv {
  i_P : forall y, In y (all_hdrs c) -> P y;
  i_rinv : rinv (c_pend c);
  i_pc : pc_ok (c_loop c);
  i_tail : rs_tail (c_store c) = tail;
  i_head : head_ok (c_store c);
  i_closed : closed tail (hts c);
  i_cache : In (h_height (c_cache c)) (hts c);
  i_thr : Forall thr_wf (c_thr c)
}.

Lemma in_hts c n :
  In n (hts c) <-> rs_has n (rs_log (c_store c)) = true \/ In n (map h_height (lres (c_loop c))) \/
                   In n (map h_height (flat_map tres (c_thr c))).
Proof.
  unfold hts, reserved. rewrite !map_app, !in_app_iff, rs_has_in. rewrite in_map_iff.
  split; intros [H|H]; auto; left; destruct H as (x & A & B); exists x; auto.
Qed.

(** everything the configuration holds is above the tail *)
Lemma pick_P ph sh : (forall p, ph = Some p -> P p) -> P sh -> P (pick_head ph sh).
Proof. intros H1 H2. unfold pick_head. destruct ph as [p|]; [destruct (_ <? _); [apply H1; reflexivity|exact H2]|exact H2]. Qed.

Lemma local_head_P c : Inv c -> P (local_head c).
Proof.
  intros HI. unfold local_head. apply pick_P.
  - intros p Ep. apply (i_P c HI). unfold all_hdrs. apply in_or_app. right. right. apply in_or_app. left. apply head_in_pending. exact Ep.
  - apply (i_P c HI). unfold all_hdrs. apply in_or_app. right. left. reflexivity.
Qed.

Lemma vwork_P t x now b :
  P t -> hok x -> (let '(Bif pr _) := b in forall p, In p pr -> P p) ->
  forall y, In y (fst (vwork drift tv t x now b)) -> P y.
Proof.
  intros [Ht _] Hx Hb y Hy. unfold vwork in Hy.
  destruct (Verify now drift tv t x) as [e|] eqn:Ev.
  - destruct (ve_soft e) eqn:Es; [|destruct Hy]. destruct b as [pr ok]. cbn [fst] in Hy.
    apply in_app_or in Hy. destruct Hy as [Hy|Hy]; [apply Hb; exact Hy|].
    destruct ok; [|destruct Hy]. destruct Hy as [<-|[]].
    apply (soft_iff now drift tv) in Ev. apply Ev in Es. destruct Es as ((_ & _ & _ & Hlt & _) & _).
    split; [lia|exact Hx].
  - destruct Hy as [<-|[]]. apply (accept_iff now drift tv) in Ev. destruct Ev as [(_ & _ & _ & Hlt & _) _].
    split; [lia|exact Hx].
Qed.

Lemma enters_P c e : Inv c -> wf_event e -> forall y, In y (enters drift tv c e) -> P y.
Proof.
  intros HI Hw y Hy. destruct e as [h now b|a|a|i]; cbn [enters] in Hy; try destruct Hy.
  - destruct (c_loop c) as [| |ph|p|from to|from to|k from to|k hs|k hs nh|k hs|oto lst|] eqn:Elp; try destruct Hy.
    destruct a as [|[|x l]]; try destruct Hy. cbn [wf_event] in Hw. destruct Hw as [Hk Hc].
    destruct (h_height from <? to); [|destruct Hy]. cbn [andb] in Hy.
    destruct (N.eqb_spec (h_height x) (wrap64 (h_height from + 1))) as [Ex|]; [|destruct Hy].
    assert (Hf : P from).
    { apply (i_P c HI). unfold all_hdrs. rewrite Elp. apply in_or_app. right. right. apply in_or_app. right.
      apply in_or_app. left. left. reflexivity. }
    destruct Hf as [Hf1 Hf2]. rewrite (wrap_succ _ Hf2) in Ex.
    split; [|apply (proj1 (Forall_forall _ _) Hk); exact Hy].
    pose proof (consec_bounds x l Hc y Hy). lia.
  - destruct (nth_error (c_thr c) i) as [t|] eqn:En; [|destruct Hy].
    pose proof (proj1 (Forall_forall _ _) (i_thr c HI) t (nth_error_In _ _ En)) as Ht.
    destruct t as [h now b|h now b ph|a|a ph|sbj a|mu res x st rest|r]; try destruct Hy.
    + destruct b as [pr ok]. cbn [thr_wf] in Ht. destruct Ht as [Hx Hb].
      apply (vwork_P (pick_head ph (c_cache c)) h now (Bif pr ok)); auto.
      apply pick_P.
      * intros p ->. apply (i_P c HI). unfold all_hdrs. apply in_or_app. right. right. apply in_or_app. right. apply in_or_app. right.
        apply (flat_nth i _ _ p En). left. reflexivity.
      * apply (i_P c HI). unfold all_hdrs. apply in_or_app. right. left. reflexivity.
    + destruct a as [x|]; [|destruct Hy]. cbn [thr_wf] in Ht.
      destruct (N.leb_spec (h_height x) (h_height sbj)); [destruct Hy|]. destruct Hy as [<-|[]].
      assert (Hs : P sbj).
      { apply (i_P c HI). unfold all_hdrs. apply in_or_app. right. right. apply in_or_app. right. apply in_or_app. right.
        apply (flat_nth i _ _ sbj En). left. reflexivity. }
      destruct Hs as [Hs _]. split; [lia|exact Ht].
Qed.


Ltac brk := repeat match goal with
                   | |- context [match ?x with _ => _ end] => destruct x eqn:?
                   end.

(** what a step can do to the store / to pending *)
Lemma store_step c e :
  c_store (step drift tv c e) = c_store c \/ exists hs, c_store (step drift tv c e) = rs_append hs (c_store c).
Proof.
  destruct e as [h now b|a|a|i]; cbn [step]; try (left; reflexivity).
  - unfold l_step, l_finish, after_req, after_app. brk; cbn; try (left; reflexivity); right; eexists; reflexivity.
  - unfold t_step. destruct (nth_error (c_thr c) i) as [t|]; [|left; reflexivity].
    unfold t_body, enter, t_next, set_thr.
    destruct t as [h now b|h now b ph|a|a ph|sbj a|mu res x st rest|r].
    + destruct (c_mu c); left; reflexivity.
    + destruct (verdict drift tv now b (pick_head ph (c_cache c)) h); left; reflexivity.
    + left; reflexivity.
    + left; reflexivity.
    + brk; left; reflexivity.
    + destruct st; brk; cbn; try (left; reflexivity). right. eexists. reflexivity.
    + left; reflexivity.
Qed.

Lemma step_store_inv c e : Inv c -> rs_tail (c_store (step drift tv c e)) = tail /\ head_ok (c_store (step drift tv c e)).
Proof.
  intros HI. destruct (store_step c e) as [->|(hs & ->)]; [split; [apply (i_tail c HI)|apply (i_head c HI)]|].
  destruct (head_ok_append hs _ (i_head c HI)) as [A B]. split; [rewrite B; apply (i_tail c HI)|exact A].
Qed.

Lemma step_P c e : Inv c -> wf_event e -> forall y, In y (all_hdrs (step drift tv c e)) -> P y.
Proof.
  intros HI Hw y Hy. destruct (flow drift tv c e y (i_pc c HI) Hy) as [H|H]; [apply (i_P c HI); exact H|].
  eapply enters_P; eassumption.
Qed.

Lemma thr_wf_upd i t (T : list tpc) : Forall thr_wf T -> thr_wf t -> Forall thr_wf (upd_nth i t T).
Proof.
  revert i. induction T as [|t0 T IH]; intros i HT Ht; [destruct i; constructor|].
  inversion HT; subst. destruct i; cbn; constructor; auto.
Qed.



Lemma step_thr c e : Inv c -> wf_event e -> Forall thr_wf (c_thr (step drift tv c e)).
Proof.
  intros HI Hw. pose proof (i_thr c HI) as HT.
  destruct e as [h now b|a|a|i]; cbn [step].
  - cbn. apply Forall_app. split; [exact HT|]. constructor; [|constructor]. destruct b. exact Hw.
  - cbn. apply Forall_app. split; [exact HT|]. constructor; [|constructor]. destruct a; exact Hw || exact I.
  - rewrite l_step_thr. exact HT.
  - unfold t_step. destruct (nth_error (c_thr c) i) as [t|] eqn:En; [|exact HT].
    pose proof (proj1 (Forall_forall _ _) HT t (nth_error_In _ _ En)) as Ht.
    unfold t_body, enter, t_next, set_thr.
    destruct t as [h now b|h now b ph|a|a ph|sbj a|mu res x st rest|r]; try exact HT.
    + destruct (c_mu c); [exact HT|]. cbn. apply thr_wf_upd; [exact HT|]. destruct b. exact Ht.
    + destruct (verdict_shape drift tv now b (pick_head ph (c_cache c)) h) as [->|(res & w & r & ->)]; cbn; apply thr_wf_upd; auto; exact I.
    + cbn. apply thr_wf_upd; [exact HT|]. destruct a; exact Ht || exact I.
    + cbn. apply thr_wf_upd; [exact HT|]. destruct a; exact Ht || exact I.
    + brk; cbn; (apply thr_wf_upd; [exact HT|]); exact I.
    + destruct st; brk; cbn; (apply thr_wf_upd; [exact HT|]); try exact I.
      cbn. match goal with E : shim_check _ _ = ShimOk _ |- _ => apply shim_one_ok in E; exact E end.
Qed.


Lemma rinv_remove e r r' t : rinv (r :: t) -> range_remove e r = Some r' -> rinv (r' :: t).
Proof.
  intros Hri Hr. unfold range_remove in Hr. destruct (_ <=? _); [|discriminate]. injection Hr as <-.
  destruct (r_hdrs r) as [|a l] eqn:Ea.
  - cbn [rinv r_hdrs] in *. rewrite Ea in Hri. destruct (N.to_nat _); exact Hri.
  - set (k := N.to_nat (range_amount (r_start r) (len64 (a :: l)) e)).
    assert (Hne : r_hdrs r <> []) by (rewrite Ea; discriminate).
    apply (rinv_replace_first r _ t Hri Hne).
    + cbn [rinv ne_inv] in Hri. rewrite Ea in Hri. destruct Hri as ((Hc & Hf & _) & _). rewrite Ea in Hc, Hf.
      destruct (consec_firstn_skipn a l k Hc) as (_ & _ & F3).
      unfold range_ok. cbn [r_hdrs r_start]. split; [exact F3|]. split.
      * apply Forall_forall. intros y Hy. apply (proj1 (Forall_forall _ _) Hf). eapply in_skipn'. exact Hy.
      * destruct (skipn k (a :: l)); [exact I|reflexivity].
    + exists (firstn k (a :: l)). cbn [r_hdrs]. rewrite Ea. symmetry. apply firstn_skipn.
Qed.

Lemma step_rinv c e : Inv c -> wf_event e -> rinv (c_pend (step drift tv c e)).
Proof.
  intros HI Hw. pose proof (i_rinv c HI) as Hri.
  destruct e as [h now b|a|a|i]; cbn [step]; try exact Hri.
  - unfold l_step, l_finish, after_req, after_app.
    destruct (c_loop c) as [| |ph|p|from to|from to|k from to|k hs|k hs nh|k hs|oto lst|] eqn:Elp.
    + brk; cbn; rewrite ?Heqr; exact Hri.
    + cbn; exact Hri.
    + cbn; exact Hri.
    + destruct (_ <=? _); [|cbn; exact Hri].
      destruct (remove_upto_spec (h_height (c_cache c)) _ Hri) as (rs' & -> & Hri' & _). cbn. exact Hri'.
    + destruct (ranges_first_spec _ Hri) as (Hri' & _). destruct (ranges_first (c_pend c)) eqn:Ef; cbn; exact Hri'.
    + brk; cbn; rewrite ?Heqr; exact Hri.
    + brk; cbn; rewrite ?Heqr; exact Hri.
    + brk; cbn; rewrite ?Heqr; exact Hri.
    + brk; cbn; rewrite ?Heqr; exact Hri.
    + brk; cbn; rewrite ?Heqr; exact Hri.
    + destruct (c_pend c) as [|r t] eqn:EP; [cbn; rewrite EP; exact Hri|].
      destruct (range_remove oto r) as [r'|] eqn:Er; cbn; [|rewrite EP; exact Hri].
      eapply rinv_remove; eassumption.
    + exact Hri.
  - unfold t_step. destruct (nth_error (c_thr c) i) as [t|] eqn:En; [|exact Hri].
    unfold t_body, enter, t_next, set_thr.
    destruct t as [h now b|h now b ph|a|a ph|sbj a|mu res x st rest|r]; try exact Hri.
    + destruct (c_mu c); exact Hri.
    + destruct (verdict_shape drift tv now b (pick_head ph (c_cache c)) h) as [->|(res & w & r & ->)]; exact Hri.
    + brk; exact Hri.
    + destruct st; brk; cbn; try exact Hri.
      apply rinv_add; [exact Hri|]. apply (i_P c HI). unfold all_hdrs.
      apply in_or_app. right. right. apply in_or_app. right. apply in_or_app. right.
      apply (flat_nth i _ _ x En). left. reflexivity.
Qed.


(** *** closure of stored + reserved heights *)

Lemma hts_ext c c' :
  (forall n, rs_has n (rs_log (c_store c')) = rs_has n (rs_log (c_store c))) ->
  lres (c_loop c') = lres (c_loop c) ->
  (forall y, In y (flat_map tres (c_thr c')) <-> In y (flat_map tres (c_thr c))) ->
  forall n, In n (hts c') <-> In n (hts c).
Proof.
  intros H1 H2 H3 n. rewrite !in_hts, H1, H2. rewrite !in_map_iff.
  split; (intros [H|[H|(y & Hy & Hin)]]; [left; exact H|right; left; exact H|right; right; exists y; split; [exact Hy|apply H3; exact Hin]]).
Qed.

Lemma tres_frame i t t' (T : list tpc) :
  nth_error T i = Some t -> tres t = [] -> tres t' = [] ->
  forall y, In y (flat_map tres (upd_nth i t' T)) <-> In y (flat_map tres T).
Proof.
  intros Hn Ht Ht' y. split; intros H.
  - apply flat_upd_g in H. rewrite Ht' in H. destruct H as [[]|H]. exact H.
  - destruct (flat_upd_rev tres i t t' T y Hn H) as [H'|H']; [rewrite Ht in H'; destruct H'|exact H'].
Qed.

Lemma closed_same L L' : closed tail L -> (forall n, In n L' <-> In n L) -> closed tail L'.
Proof.
  intros Hc Hm. apply (closed_ext tail L L' [] Hc).
  - intros n. rewrite Hm. split; [intros H; left; exact H|intros [H|[]]; exact H].
  - intros n [].
Qed.

(** reserving a consecutive run whose first height is already covered, or is
    the successor of a covered height *)
Lemma consec_pred a l y :
  consec (a :: l) -> In y (a :: l) -> y = a \/ exists y', In y' (a :: l) /\ h_height y = h_height y' + 1.
Proof.
  revert a. induction l as [|b l IH]; intros a Hc Hy.
  - destruct Hy as [<-|[]]. left. reflexivity.
  - destruct Hc as [Hb Hc]. destruct Hy as [<-|Hy]; [left; reflexivity|]. right.
    destruct (IH b Hc Hy) as [->|(y' & Hy' & E)].
    + exists a. split; [left; reflexivity|exact Hb].
    + exists y'. split; [right; exact Hy'|exact E].
Qed.

Lemma closed_reserve L L' (hs : list hdr) (base : N) :
  closed tail L -> In base L -> hs <> [] -> consec hs ->
  (forall y, In y hs -> tail <= h_height y) ->
  (h_height (hd hdr_nil hs) <= base + 1) ->
  (forall n, In n L' <-> In n L \/ In n (map h_height hs)) ->
  closed tail L'.
Proof.
  intros Hc Hb Hne Hcs Hge Hfirst Hm. apply (closed_ext tail L L' (map h_height hs) Hc Hm).
  intros n Hn. apply in_map_iff in Hn. destruct Hn as (y & <- & Hy). split; [apply Hge; exact Hy|]. intros Hlt.
  destruct hs as [|a l]; [contradiction|]. cbn [hd] in Hfirst.
  destruct (consec_pred a l y Hcs Hy) as [->|(y' & Hy' & E)].
  - left. apply (closed_down tail L base Hc Hb). lia.
  - right. apply in_map_iff. exists y'. split; [lia|exact Hy'].
Qed.

Lemma shim_walk_height : forall hs c nh, shim_walk c hs = Some nh -> h_height nh = h_height (last hs c).
Proof.
  induction hs as [|a r IH]; intros c nh Hw.
  - cbn in Hw. injection Hw as <-. reflexivity.
  - rewrite shim_walk_cons in Hw. rewrite last_cons_default.
    destruct ((h_height a =? h_height c) && (h_id a =? h_id c)) eqn:Ed.
    + apply Bool.andb_true_iff in Ed. destruct Ed as [Ed _]. apply N.eqb_eq in Ed.
      rewrite (IH c nh Hw). destruct r as [|b r']; [cbn; symmetry; exact Ed|]. rewrite (last_indep r' b c a). reflexivity.
    + destruct (h_height a =? wrap64 (h_height c + 1)); [|discriminate Hw]. apply (IH a nh Hw).
Qed.

Lemma shim_walk_last c hs nh d :
  shim_walk c hs = Some nh -> hs <> [] ->
  h_height nh = h_height (last hs d) /\
  (h_height (hd hdr_nil hs) = h_height c \/ h_height (hd hdr_nil hs) = wrap64 (h_height c + 1)).
Proof.
  intros Hw Hne. destruct hs as [|a l]; [contradiction|]. split.
  - rewrite (shim_walk_height _ _ _ Hw). rewrite (last_indep l a c d). reflexivity.
  - rewrite shim_walk_cons in Hw. cbn [hd].
    destruct ((h_height a =? h_height c) && (h_id a =? h_id c)) eqn:Ed.
    + apply Bool.andb_true_iff in Ed. destruct Ed as [Ed _]. apply N.eqb_eq in Ed. left. exact Ed.
    + destruct (N.eqb_spec (h_height a) (wrap64 (h_height c + 1))); [right; assumption|discriminate].
Qed.

Lemma cache_P c : Inv c -> P (c_cache c).
Proof. intros HI. apply (i_P c HI). unfold all_hdrs. apply in_or_app. right. left. reflexivity. Qed.

Lemma loop_P c y : Inv c -> In y (loop_hdrs (c_loop c)) -> P y.
Proof.
  intros HI Hy. apply (i_P c HI). unfold all_hdrs. apply in_or_app. right. right. apply in_or_app. right.
  apply in_or_app. left. exact Hy.
Qed.


Lemma frame_hts c c' :
  c_store c' = c_store c -> c_thr c' = c_thr c -> c_cache c' = c_cache c -> lres (c_loop c') = lres (c_loop c) ->
  Inv c -> closed tail (hts c') /\ In (h_height (c_cache c')) (hts c').
Proof.
  intros E1 E2 E3 E4 HI.
  assert (Hm : forall n, In n (hts c') <-> In n (hts c)).
  { apply hts_ext; [intros n; rewrite E1; reflexivity|exact E4|intros y; rewrite E2; reflexivity]. }
  split; [apply (closed_same (hts c)); [apply (i_closed c HI)|exact Hm]|]. rewrite E3. apply Hm. apply (i_cache c HI).
Qed.

Local Arguments rs_has : simpl never.

Ltac frm c HI Elp :=
  split; [cbn; rewrite ?Elp; cbn; auto|apply (frame_hts c); try reflexivity; try (cbn; rewrite ?Elp; reflexivity); try exact HI].

Lemma step_closed_l a c :
  Inv c -> wf_event (EL a) ->
  pc_ok (c_loop (l_step a c)) /\ closed tail (hts (l_step a c)) /\ In (h_height (c_cache (l_step a c))) (hts (l_step a c)).
Proof.
  intros HI Hw. pose proof (i_pc c HI) as Hpc. pose proof (i_rinv c HI) as Hri.
  unfold l_step, l_finish, after_req.
  destruct (c_loop c) as [| |ph|p|from to|from to|k from to|k hs|k hs nh|k hs|oto lst|] eqn:Elp.
  - destruct (c_trig c); (frm c HI Elp).
  - frm c HI Elp.
  - frm c HI Elp.
  - destruct (_ <=? _); [|frm c HI Elp].
    destruct (ranges_remove_upto (h_height (c_cache c)) (c_pend c)); frm c HI Elp.
  - destruct (ranges_first (c_pend c)); (frm c HI Elp).
  - destruct (c_pend c) as [|r t] eqn:EP; [frm c HI Elp|].
    destruct (range_get to r) as [[|h0 g]|] eqn:Eg; [frm c HI Elp| |frm c HI Elp].
    (* the cached run is a non-empty prefix of a consecutive run *)
    assert (Hok : hs_ok (h0 :: g)).
    { split; [discriminate|]. unfold range_get in Eg. destruct (_ <=? _); [|discriminate]. injection Eg as Eg.
      assert (Hne : r_hdrs r <> []) by (intros E0; rewrite E0 in Eg; destruct (N.to_nat _); discriminate).
      destruct (first_run _ r t Hri eq_refl Hne) as (a0 & l0 & Ea & (Hc & _) & _).
      rewrite <- Eg. rewrite <- (firstn_skipn (N.to_nat (range_amount (r_start r) (len64 (r_hdrs r)) to)) (r_hdrs r)) in Hc.
      apply consec_app_l in Hc. exact Hc. }
    destruct (wrap64 (h_height from + 1) =? h_height h0); frm c HI Elp.
  - destruct (h_height from <? to).
    + destruct a as [|[|x l]]; [frm c HI Elp|frm c HI Elp|].
      destruct (_ =? _); (split; [|apply (frame_hts c); try reflexivity; [cbn; rewrite Elp; reflexivity|exact HI]]); [|exact I].
      cbn. destruct Hw as [_ Hc]. split; [split; [discriminate|exact Hc]|exact Hpc].
    + destruct k as [cached oto|]; (split; [|apply (frame_hts c); try reflexivity; [cbn; rewrite Elp; reflexivity|exact HI]]); [|exact I].
      cbn. split; [exact Hpc|exact I].
  - (* LApp0: the shim decides *)
    destruct Hpc as [[Hne Hc] Hak].
    assert (HP : forall y, In y hs -> P y) by (intros y Hy; apply (loop_P c y HI); rewrite Elp; cbn; apply in_or_app; left; exact Hy).
    destruct (cache_P c HI) as [Hct Hck].
    destruct (shim_check (c_cache c) hs) as [| |nh|] eqn:Es.
    + unfold shim_check in Es. destruct hs; [contradiction|]. destruct (drop_below _ _); [discriminate|destruct (shim_walk _ _); discriminate].
    + (* skip path: the run starts below the cache *)
      split; [cbn; split; [split; assumption|exact Hak]|].
      assert (Hlt : h_height (hd hdr_nil hs) < h_height (c_cache c)).
      { destruct (shim_skip_inv _ _ Es) as [_ Ed]. destruct hs as [|h0 r]; [contradiction|]. cbn. eapply drop_below_nil_hd. exact Ed. }
      assert (Hm : forall n, In n (hts (c <| c_loop := LApp2 k hs |>)) <-> In n (hts c) \/ In n (map h_height hs)).
      { intros n. rewrite !in_hts. cbn. rewrite Elp. cbn. tauto. }
      split.
      * apply (closed_reserve (hts c) _ hs (h_height (c_cache c)) (i_closed c HI) (i_cache c HI) Hne Hc); [intros y Hy; apply HP; exact Hy|lia|exact Hm].
      * apply Hm. left. apply (i_cache c HI).
    + (* check path *)
      destruct (shim_ok_inv _ _ _ Es) as [Hdn Hw'].
      destruct (shim_walk_last _ _ _ hdr_nil Hw' Hdn) as [Enh Eh]. rewrite (wrap_succ _ Hck) in Eh.
      rewrite (drop_below_last _ _ _ Hdn) in Enh.
      assert (Eh' : h_height (hd hdr_nil hs) <= h_height (c_cache c) + 1).
      { destruct hs as [|h0 r]; [contradiction|]. cbn [hd]. destruct (N.lt_ge_cases (h_height h0) (h_height (c_cache c))) as [Hl|Hl]; [lia|].
        rewrite (drop_below_ge _ _ _ Hl) in Eh. cbn [hd] in Eh. destruct Eh; lia. }
      split; [cbn; split; [split; assumption|split; [exact Hak|exact Enh]]|].
      assert (Hm : forall n, In n (hts (c <| c_loop := LApp1 k hs nh |>)) <-> In n (hts c) \/ In n (map h_height hs)).
      { intros n. rewrite !in_hts. cbn. rewrite Elp. cbn. tauto. }
      split.
      * apply (closed_reserve (hts c) _ hs (h_height (c_cache c)) (i_closed c HI) (i_cache c HI) Hne Hc); [intros y Hy; apply HP; exact Hy|lia|exact Hm].
      * apply Hm. left. apply (i_cache c HI).
    + frm c HI Elp.
  - (* LApp1: cache := nh *)
    destruct Hpc as ([Hne Hc] & Hak & Enh).
    split; [cbn; split; [split; assumption|exact Hak]|].
    assert (Hm : forall n, In n (hts (c <| c_cache := nh |> <| c_loop := LApp2 k hs |>)) <-> In n (hts c)).
    { intros n. rewrite !in_hts. cbn. rewrite Elp. cbn. tauto. }
    split; [apply (closed_same (hts c)); [apply (i_closed c HI)|exact Hm]|].
    cbn [c_cache]. cbn. apply Hm. apply in_hts. right. left. rewrite Elp. cbn. rewrite Enh. apply in_map. apply in_last. exact Hne.
  - (* LApp2: the reserved run is written *)
    destruct Hpc as [[Hne Hc] Hak]. unfold after_app.
    assert (Hm : forall pc', lres pc' = [] -> forall n, In n (hts (c <| c_store ::= rs_append hs |> <| c_loop := pc' |>)) <-> In n (hts c)).
    { intros pc' Hl n. rewrite !in_hts. cbn. rewrite Elp, Hl. cbn. unfold rs_append. cbn. rewrite rs_has_app, rs_has_rev, Bool.orb_true_iff.
      assert (Hh : rs_has n hs = true <-> In n (map h_height hs)).
      { rewrite rs_has_in, in_map_iff. split; intros (y & A & B); exists y; tauto. }
      rewrite Hh. tauto. }
    destruct k as [k' to|oto]; (split; [|split; [apply (closed_same (hts c)); [apply (i_closed c HI)|apply Hm; reflexivity]|cbn [c_cache]; cbn; apply Hm; [reflexivity|apply (i_cache c HI)]]]).
    + exact Hak.
    + exact I.
  - destruct (c_pend c) as [|r t]; [frm c HI Elp|].
    destruct (range_remove oto r); (frm c HI Elp).
  - split; [rewrite Elp; exact I|]. split; [apply (i_closed c HI)|apply (i_cache c HI)].
Qed.


Lemma frame_thr c c' i t t' :
  nth_error (c_thr c) i = Some t -> tres t = [] -> tres t' = [] ->
  c_store c' = c_store c -> c_loop c' = c_loop c -> c_cache c' = c_cache c -> c_thr c' = upd_nth i t' (c_thr c) ->
  Inv c -> pc_ok (c_loop c') /\ closed tail (hts c') /\ In (h_height (c_cache c')) (hts c').
Proof.
  intros En Ht Ht' E1 E2 E3 E4 HI. split; [rewrite E2; apply (i_pc c HI)|].
  assert (Hm : forall n, In n (hts c') <-> In n (hts c)).
  { apply hts_ext; [intros n; rewrite E1; reflexivity|rewrite E2; reflexivity|]. rewrite E4. apply (tres_frame i t t'); assumption. }
  split; [apply (closed_same (hts c)); [apply (i_closed c HI)|exact Hm]|]. rewrite E3. apply Hm. apply (i_cache c HI).
Qed.

Lemma thr_P c i t y : Inv c -> nth_error (c_thr c) i = Some t -> In y (thr_hdrs t) -> P y.
Proof.
  intros HI En Hy. apply (i_P c HI). unfold all_hdrs. apply in_or_app. right. right. apply in_or_app. right. apply in_or_app. right.
  apply (flat_nth i t _ y En Hy).
Qed.

Lemma mthr_upd i t' (T : list tpc) n :
  In n (map h_height (flat_map tres (upd_nth i t' T))) -> In n (map h_height (tres t')) \/ In n (map h_height (flat_map tres T)).
Proof. rewrite !in_map_iff. intros (y & E & Hy). apply flat_upd_g in Hy. destruct Hy as [Hy|Hy]; [left|right]; exists y; split; assumption. Qed.

Lemma mthr_rev i t t' (T : list tpc) n :
  nth_error T i = Some t -> In n (map h_height (flat_map tres T)) ->
  In n (map h_height (tres t)) \/ In n (map h_height (flat_map tres (upd_nth i t' T))).
Proof.
  rewrite !in_map_iff. intros En (y & E & Hy). destruct (flat_upd_rev tres i t t' T y En Hy) as [H|H]; [left|right]; exists y; split; assumption.
Qed.

Lemma mthr_new i t' (T : list tpc) n :
  (i < length T)%nat -> In n (map h_height (tres t')) -> In n (map h_height (flat_map tres (upd_nth i t' T))).
Proof. rewrite !in_map_iff. intros Hi (y & E & Hy). exists y. split; [exact E|apply flat_upd_new; assumption]. Qed.

Lemma mthr_old i t (T : list tpc) n :
  nth_error T i = Some t -> In n (map h_height (tres t)) -> In n (map h_height (flat_map tres T)).
Proof.
  rewrite !in_map_iff. intros En (y & E & Hy). exists y. split; [exact E|]. apply in_flat_map. exists t. split; [eapply nth_error_In; exact En|exact Hy].
Qed.

Ltac fthr c i t En HI :=
  eapply (frame_thr c _ i); [exact En| | | | | | |exact HI]; cbn; try reflexivity; cbn; try reflexivity.

Lemma step_closed_t i c :
  Inv c ->
  pc_ok (c_loop (t_step drift tv i c)) /\ closed tail (hts (t_step drift tv i c)) /\
  In (h_height (c_cache (t_step drift tv i c))) (hts (t_step drift tv i c)).
Proof.
  intros HI. assert (Hsame : pc_ok (c_loop c) /\ closed tail (hts c) /\ In (h_height (c_cache c)) (hts c))
    by (split; [apply (i_pc c HI)|split; [apply (i_closed c HI)|apply (i_cache c HI)]]).
  unfold t_step. destruct (nth_error (c_thr c) i) as [t|] eqn:En; [|exact Hsame].
  assert (Hi : (i < length (c_thr c))%nat) by (apply nth_error_Some; congruence).
  unfold t_body, enter, t_next.
  destruct t as [h now b|h now b ph|a|a ph|sbj a|mu res x st rest|r].
  - destruct (c_mu c); [exact Hsame|]. fthr c i tt En HI.
  - destruct (verdict_shape drift tv now b (pick_head ph (c_cache c)) h) as [->|(res & w & r & ->)];
      fthr c i tt En HI.
  - fthr c i tt En HI.
  - fthr c i tt En HI.
  - destruct a as [x|]; [destruct (_ <=? _)|]; fthr c i tt En HI.
  - assert (HPx : P x) by (apply (thr_P c i _ x HI En); cbn [thr_hdrs]; apply in_or_app; right; left; reflexivity).
    destruct (cache_P c HI) as [Hct Hck].
    pose proof (proj1 (Forall_forall _ _) (i_thr c HI) _ (nth_error_In _ _ En)) as Hwf.
    destruct st as [|nh| | | |].
    + (* SL0: the shim decides for [x] *)
      rewrite (shim_single (c_cache c) x Hck).
      destruct (N.ltb_spec (h_height x) (h_height (c_cache c))) as [Hlt|Hge].
      * (* skip: x is below the cache, hence already covered *)
        split; [apply (i_pc c HI)|].
        assert (Hcov : In (h_height x) (hts c)).
        { apply (closed_down tail (hts c) (h_height (c_cache c)) (i_closed c HI) (i_cache c HI)). destruct HPx. lia. }
        assert (Hm : forall n, In n (hts (set_thr i (TRun mu res x SL2 rest) c)) <-> In n (hts c)).
        { intros n. rewrite !in_hts. cbn. rewrite in_hts in Hcov.
          pose proof (mthr_upd i (TRun mu res x SL2 rest) (c_thr c) n) as U.
          pose proof (mthr_rev i _ (TRun mu res x SL2 rest) (c_thr c) n En) as R. cbn in U, R.
          split; (intros [H|[H|H]]; [tauto|tauto|]).
          - apply U in H. destruct H as [[<-|[]]|H]; [exact Hcov|tauto].
          - apply R in H. destruct H as [[]|H]. tauto. }
        split; [apply (closed_same (hts c)); [apply (i_closed c HI)|exact Hm]|]. cbn. apply Hm. apply (i_cache c HI).
      * destruct ((h_height x =? h_height (c_cache c)) && (h_id x =? h_id (c_cache c))) eqn:Ed.
        { (* the head itself again: its height is covered *)
          apply Bool.andb_true_iff in Ed. destruct Ed as [Ed _]. apply N.eqb_eq in Ed.
          split; [apply (i_pc c HI)|].
          assert (Hcov : In (h_height x) (hts c)) by (rewrite Ed; apply (i_cache c HI)).
          assert (Hm : forall n, In n (hts (set_thr i (TRun mu res x (SL1 (c_cache c)) rest) c)) <-> In n (hts c)).
          { intros n. rewrite !in_hts. cbn. rewrite in_hts in Hcov.
            pose proof (mthr_upd i (TRun mu res x (SL1 (c_cache c)) rest) (c_thr c) n) as U.
            pose proof (mthr_rev i _ (TRun mu res x (SL1 (c_cache c)) rest) (c_thr c) n En) as R. cbn in U, R.
            split; (intros [H|[H|H]]; [tauto|tauto|]).
            - apply U in H. destruct H as [[<-|[]]|H]; [exact Hcov|tauto].
            - apply R in H. destruct H as [[]|H]. tauto. }
          split; [apply (closed_same (hts c)); [apply (i_closed c HI)|exact Hm]|]. cbn. apply Hm. apply (i_cache c HI). }
        destruct (N.eqb_spec (h_height x) (h_height (c_cache c) + 1)) as [Ex|Hne].
        -- (* adjacent: reserve the next height *)
           split; [apply (i_pc c HI)|].
           assert (Hm : forall n, In n (hts (set_thr i (TRun mu res x (SL1 x) rest) c)) <-> In n (hts c) \/ In n (map h_height [x])).
           { intros n. rewrite !in_hts. cbn.
             pose proof (mthr_upd i (TRun mu res x (SL1 x) rest) (c_thr c) n) as U.
             pose proof (mthr_rev i _ (TRun mu res x (SL1 x) rest) (c_thr c) n En) as R.
             pose proof (mthr_new i (TRun mu res x (SL1 x) rest) (c_thr c) n Hi) as Nw. cbn in U, R, Nw.
             split.
             - intros [H|[H|H]]; [tauto|tauto|]. apply U in H. tauto.
             - intros [[H|[H|H]]|H]; [tauto|tauto| |tauto]. apply R in H. destruct H as [[]|H]. tauto. }
           split.
           ++ apply (closed_reserve (hts c) _ [x] (h_height (c_cache c)) (i_closed c HI) (i_cache c HI)); [discriminate|exact I| |cbn; lia|exact Hm].
              intros y [<-|[]]. destruct HPx. assumption.
           ++ cbn. apply Hm. left. apply (i_cache c HI).
        -- fthr c i tt En HI.
    + (* SL1: cache := nh, whose height is x's, which is reserved *)
      cbn [thr_wf] in Hwf.
      split; [apply (i_pc c HI)|].
      assert (Hm : forall n, In n (hts (set_thr i (TRun mu res x SL2 rest) (c <| c_cache := nh |>))) <-> In n (hts c)).
      { intros n. rewrite !in_hts. cbn.
        pose proof (mthr_upd i (TRun mu res x SL2 rest) (c_thr c) n) as U.
        pose proof (mthr_rev i _ (TRun mu res x SL2 rest) (c_thr c) n En) as R.
        pose proof (mthr_new i (TRun mu res x SL2 rest) (c_thr c) n Hi) as Nw.
        pose proof (mthr_old i _ (c_thr c) n En) as Od. cbn in U, R, Nw, Od.
        split; (intros [H|[H|H]]; [tauto|tauto|]).
        - apply U in H. tauto.
        - apply R in H. tauto. }
      split; [apply (closed_same (hts c)); [apply (i_closed c HI)|exact Hm]|].
      cbn. rewrite Hwf. apply in_hts. right; right. cbn. apply (mthr_new i (TRun mu res x SL2 rest) (c_thr c) _ Hi). left. reflexivity.
    + (* SL2: the reserved header is written *)
      split; [apply (i_pc c HI)|].
      assert (Hm : forall n, In n (hts (set_thr i (TRun mu res x SL3 rest) (c <| c_store ::= rs_append [x] |>))) <-> In n (hts c)).
      { intros n. rewrite !in_hts. cbn. unfold rs_append. cbn.
        change (x :: rs_log (c_store c)) with ([x] ++ rs_log (c_store c)). rewrite rs_has_app, Bool.orb_true_iff.
        assert (Hx : rs_has n [x] = true <-> h_height x = n) by (rewrite rs_has_in; split; [intros (y & [<-|[]] & E); exact E|intros E; exists x; split; [left; reflexivity|exact E]]).
        rewrite Hx.
        pose proof (mthr_upd i (TRun mu res x SL3 rest) (c_thr c) n) as U.
        pose proof (mthr_rev i _ (TRun mu res x SL3 rest) (c_thr c) n En) as R.
        pose proof (mthr_old i _ (c_thr c) n En) as Od. cbn in U, R, Od.
        split.
        - intros [[H|H]|[H|H]]; [tauto|tauto|tauto|]. apply U in H. tauto.
        - intros [H|[H|H]]; [tauto|tauto|]. apply R in H. tauto. }
      split; [apply (closed_same (hts c)); [apply (i_closed c HI)|exact Hm]|]. cbn. apply Hm. apply (i_cache c HI).
    + destruct (_ <=? _).
      * destruct rest as [|y r]; [destruct mu|]; fthr c i tt En HI.
      * fthr c i tt En HI.
    + fthr c i tt En HI.
    + destruct rest as [|y r]; [destruct mu|]; fthr c i tt En HI.
  - exact Hsame.
Qed.


(** *** the invariant holds along every schedule *)
Lemma spawn_closed c t :
  tres t = [] -> Inv c ->
  let c' := c <| c_thr ::= fun l => l ++ [t] |> in
  pc_ok (c_loop c') /\ closed tail (hts c') /\ In (h_height (c_cache c')) (hts c').
Proof.
  intros Ht HI c'. split; [apply (i_pc c HI)|].
  assert (Hm : forall n, In n (hts c') <-> In n (hts c)).
  { apply hts_ext; try reflexivity. intros y. unfold c'. cbn. rewrite flat_map_app. cbn. rewrite Ht, !app_nil_r. reflexivity. }
  split; [apply (closed_same (hts c)); [apply (i_closed c HI)|exact Hm]|]. apply Hm. apply (i_cache c HI).
Qed.

Theorem Inv_step c e : Inv c -> wf_event e -> Inv (step drift tv c e).
Proof.
  intros HI Hw.
  assert (H3 : pc_ok (c_loop (step drift tv c e)) /\ closed tail (hts (step drift tv c e)) /\
               In (h_height (c_cache (step drift tv c e))) (hts (step drift tv c e))).
  { destruct e as [h now b|a|a|i]; cbn [step].
    - apply spawn_closed; [reflexivity|exact HI].
    - apply spawn_closed; [reflexivity|exact HI].
    - apply step_closed_l; assumption.
    - apply step_closed_t; assumption. }
  destruct H3 as (Hpc & Hcl & Hca). destruct (step_store_inv c e HI) as [Ht Hh].
  constructor; auto.
  - apply step_P; assumption.
  - apply step_rinv; assumption.
  - apply step_thr; assumption.
Qed.

Lemma consec_cover a l n :
  consec (a :: l) -> h_height a <= n <= h_height (last (a :: l) a) -> exists y, In y (a :: l) /\ h_height y = n.
Proof.
  revert a. induction l as [|b l IH]; intros a Hc Hn.
  - cbn in Hn. exists a. split; [left; reflexivity|lia].
  - destruct Hc as [Hb Hc]. change (last (a :: b :: l) a) with (last (b :: l) a) in Hn. rewrite (last_indep l b a b) in Hn.
    destruct (N.eq_dec n (h_height a)) as [->|Hne]; [exists a; split; [left; reflexivity|reflexivity]|].
    destruct (IH b Hc ltac:(lia)) as (y & Hy & E). exists y. split; [right; exact Hy|exact E].
Qed.

Lemma Inv_init a l :
  consec (a :: l) -> Forall hok (a :: l) -> h_height a = tail -> Inv (init_cfg tail (a :: l)).
Proof.
  intros Hc Hk Ha. unfold init_cfg. rewrite (last_indep l a hdr_nil a).
  set (hd := last (a :: l) a).
  assert (Hhd : In hd (a :: l)) by apply last_in.
  assert (Hb : forall y, In y (a :: l) -> tail <= h_height y /\ h_height y <= h_height hd).
  { intros y Hy. pose proof (consec_bounds a l Hc y Hy). unfold hd. lia. }
  assert (Hhts : forall n, In n (map h_height (rev (a :: l) ++ [])) <-> exists y, In y (a :: l) /\ h_height y = n).
  { intros n. rewrite app_nil_r, in_map_iff. split; intros (y & A & B); exists y; [split; [apply in_rev; exact B|exact A]|split; [exact B|apply in_rev in A; exact A]]. }
  constructor; cbn [c_store c_cache c_pend c_loop c_thr].
  - intros y Hy. unfold all_hdrs in Hy. cbn [c_store c_cache c_pend c_loop c_thr rs_log ranges_all loop_hdrs flat_map app] in Hy.
    assert (Hin : In y (a :: l)).
    { apply in_app_or in Hy. destruct Hy as [Hy|[<-|[]]]; [|exact Hhd]. apply in_rev. exact Hy. }
    split; [apply Hb; exact Hin|apply (proj1 (Forall_forall _ _) Hk); exact Hin].
  - exact I.
  - exact I.
  - reflexivity.
  - unfold head_ok. cbn [rs_tail rs_head rs_log]. split; [apply Hb; exact Hhd|]. split.
    + intros n Hn. rewrite rs_has_rev. apply rs_has_in. apply consec_cover; [exact Hc|fold hd; lia].
    + apply Bool.not_true_is_false. rewrite rs_has_rev, rs_has_in. intros (y & Hy & E). specialize (Hb y Hy). lia.
  - unfold hts, reserved. cbn [c_store c_loop c_thr rs_log lres flat_map app]. intros n Hn. apply Hhts in Hn. destruct Hn as (y & Hy & <-).
    split; [apply Hb; exact Hy|]. intros Hlt. apply Hhts.
    destruct (consec_pred a l y Hc Hy) as [->|(y' & Hy' & E)]; [lia|]. exists y'. split; [exact Hy'|lia].
  - unfold hts, reserved. cbn [c_store c_loop c_thr rs_log lres flat_map app]. apply Hhts. exists hd. split; [exact Hhd|reflexivity].
  - constructor.
Qed.

Theorem Inv_run es : forall c, Inv c -> Forall wf_event es -> Inv (run drift tv c es).
Proof.
  induction es as [|e es IH]; intros c HI Hw; [exact HI|].
  inversion Hw; subst. cbn [run fold_left]. apply IH; [apply Inv_step; assumption|assumption].
Qed.

(** *** what the invariant says about the store *)
Theorem store_contiguous c :
  Inv c ->
  let s := c_store c in
  rs_tail s = tail /\
  (forall n, tail <= n <= rs_head s -> rs_has n (rs_log s) = true) /\
  (forall n, rs_has n (rs_log s) = true -> tail <= n) /\
  (forall n, rs_has n (rs_log s) = true -> rs_head s < n ->
     forall m, rs_head s < m <= n -> rs_has m (rs_log s) = true \/ In m (map h_height (reserved c))) /\
  (reserved c = [] -> forall n, rs_has n (rs_log s) = true <-> tail <= n <= rs_head s) /\
  tail <= h_height (c_cache c).
Proof.
  intros HI s. pose proof (i_head c HI) as (H0 & H1 & H2). pose proof (i_closed c HI) as Hc. pose proof (i_tail c HI) as Ht.
  fold s in H0, H1, H2, Ht. rewrite Ht in *.
  assert (Hin : forall n, rs_has n (rs_log s) = true -> In n (hts c)) by (intros n Hn; apply in_hts; left; exact Hn).
  assert (Hsplit : forall m, In m (hts c) -> rs_has m (rs_log s) = true \/ In m (map h_height (reserved c))).
  { intros m Hm. unfold hts in Hm. rewrite map_app in Hm. apply in_app_or in Hm. destruct Hm as [Hm|Hm]; [left|right; exact Hm].
    apply in_map_iff in Hm. destruct Hm as (y & E & Hy). apply rs_has_in. exists y. split; assumption. }
  split; [reflexivity|]. split; [exact H1|]. split; [intros n Hn; apply (Hc n (Hin n Hn))|]. split; [|split].
  - intros n Hn Hgt m Hm. apply Hsplit. apply (closed_down tail (hts c) n Hc (Hin n Hn)). lia.
  - intros Hq n. split; [|apply H1]. intros Hn. split; [apply (Hc n (Hin n Hn))|].
    destruct (N.le_gt_cases n (rs_head s)) as [Hle|Hgt]; [exact Hle|exfalso].
    assert (Hm : In (rs_head s + 1) (hts c)) by (apply (closed_down tail (hts c) n Hc (Hin n Hn)); lia).
    apply Hsplit in Hm. rewrite Hq in Hm. destruct Hm as [Hm|[]]. congruence.
  - apply (cache_P c HI).
Qed.


(** *** provenance: nothing the configuration holds comes from anywhere but
    the initial store and what [enters] lets in *)
Theorem provenance es : forall c0,
  Inv c0 -> Forall wf_event es -> forall y, In y (all_hdrs (run drift tv c0 es)) ->
  In y (all_hdrs c0) \/ exists es1 e es2, es = es1 ++ e :: es2 /\ In y (enters drift tv (run drift tv c0 es1) e).
Proof.
  induction es as [|e es IH] using rev_ind; intros c0 HI Hw y Hy; [left; exact Hy|].
  apply Forall_app in Hw. destruct Hw as [Hw He]. inversion He; subst.
  unfold run in Hy. rewrite fold_left_app in Hy. cbn [fold_left] in Hy. fold (run drift tv c0 es) in Hy.
  pose proof (Inv_run es c0 HI Hw) as HI'.
  destruct (flow drift tv _ e y (i_pc _ HI') Hy) as [H|H].
  - destruct (IH c0 HI Hw y H) as [H'|(es1 & e1 & es2 & -> & H')]; [left; exact H'|].
    right. exists es1, e1, (es2 ++ [e]). split; [rewrite <- app_assoc; reflexivity|exact H'].
  - right. exists es, e, []. split; [reflexivity|exact H].
Qed.

(** a header whose verification fails (hard, or softly with bifurcation
    refusing) is answered with an error and does not enter the configuration:
    the only headers its verifier call lets in are what bifurcation promoted *)
Lemma refused_verdict now pr ok t x e :
  Verify now drift tv t x = Some e -> (ve_soft e = false \/ ok = false) ->
  (forall y, In y (fst (vwork drift tv t x now (Bif pr ok))) -> In y pr) /\
  snd (vwork drift tv t x now (Bif pr ok)) = false /\
  (verdict drift tv now (Bif pr ok) t x = TDone false \/
   exists w r, verdict drift tv now (Bif pr ok) t x = TRun true false w SL0 r /\ forall y, In y (w :: r) -> In y pr).
Proof.
  intros Ev Hr. unfold vwork, verdict. rewrite Ev.
  destruct (ve_soft e) eqn:Es.
  - destruct Hr as [Hr|Hr]; [discriminate|]. subst ok. cbn [fst snd]. rewrite app_nil_r.
    split; [auto|]. split; [reflexivity|]. destruct pr as [|w r]; [left; reflexivity|right; exists w, r; split; [reflexivity|auto]].
  - cbn. split; [intros y []|]. split; [reflexivity|left; reflexivity].
Qed.

(** the verdict flag of a learner call never changes until it returns it *)
Lemma res_kept i c mu res x st rest :
  nth_error (c_thr c) i = Some (TRun mu res x st rest) ->
  nth_error (c_thr (t_step drift tv i c)) i = Some (TDone res) \/
  exists x' st' rest', nth_error (c_thr (t_step drift tv i c)) i = Some (TRun mu res x' st' rest').
Proof.
  intros En. assert (Hi : (i < length (c_thr c))%nat) by (apply nth_error_Some; congruence).
  unfold t_step. rewrite En. unfold t_body, t_next.
  destruct st; brk; cbn; rewrite ?nth_upd_same by exact Hi; eauto.
Qed.

End inv2.

(** ** the shim's check path accepts exactly the lists that walk on from the
    cached head: each header is the rolling head again (same height, same hash)
    or its successor in height *)
Fixpoint wrun (cur : hdr) (hs : list hdr) : Prop :=
  match hs with
  | [] => True
  | h :: r =>
    (h_height h = h_height cur /\ h_id h = h_id cur /\ wrun cur r) \/
    (~ (h_height h = h_height cur /\ h_id h = h_id cur) /\ h_height h = h_height cur + 1 /\ wrun h r)
  end.

Lemma shim_walk_iff c hs :
  (forall y, In y (c :: hs) -> hok y) ->
  (exists nh, shim_walk c hs = Some nh) <-> wrun c hs.
Proof.
  revert c. induction hs as [|a l IH]; intros c Hk.
  - split; [intros _; exact I|intros _; exists c; reflexivity].
  - rewrite shim_walk_cons. rewrite wrap_succ by (apply (Hk c); left; reflexivity).
    assert (Hkc : forall y, In y (c :: l) -> hok y) by (intros y [<-|Hy]; [apply Hk; left; reflexivity|apply Hk; right; right; exact Hy]).
    assert (Hka : forall y, In y (a :: l) -> hok y) by (intros y Hy; apply Hk; right; exact Hy).
    cbn [wrun].
    destruct (N.eqb_spec (h_height a) (h_height c)) as [E1|N1]; destruct (N.eqb_spec (h_id a) (h_id c)) as [E2|N2]; cbn [andb].
    + rewrite (IH c Hkc). split; [intros H; left; auto|intros [(_ & _ & H)|(Hn & _)]; [exact H|exfalso; apply Hn; auto]].
    + destruct (N.eqb_spec (h_height a) (h_height c + 1)) as [E|Hne]; [lia|].
      split; [intros (nh & Hd); discriminate|intros [(_ & E & _)|(_ & E & _)]; [contradiction|lia]].
    + destruct (N.eqb_spec (h_height a) (h_height c + 1)) as [E|Hne].
      * rewrite (IH a Hka). split; [intros H; right; split; [intros [E' _]; contradiction|auto]|intros [(E' & _)|(_ & _ & H)]; [contradiction|exact H]].
      * split; [intros (nh & Hd); discriminate|intros [(E' & _)|(_ & E & _)]; contradiction].
    + destruct (N.eqb_spec (h_height a) (h_height c + 1)) as [E|Hne].
      * rewrite (IH a Hka). split; [intros H; right; split; [intros [E' _]; contradiction|auto]|intros [(E' & _)|(_ & _ & H)]; [contradiction|exact H]].
      * split; [intros (nh & Hd); discriminate|intros [(E' & _)|(_ & E & _)]; contradiction].
Qed.

Lemma shim_check_ok_iff c hs :
  hs <> [] -> (forall y, In y (c :: hs) -> hok y) -> h_height c <= h_height (hd hdr_nil hs) ->
  (exists nh, shim_check c hs = ShimOk nh) <-> wrun c hs.
Proof.
  intros Hne Hk Hle. destruct hs as [|a l]; [contradiction|]. cbn [hd] in Hle.
  rewrite <- (shim_walk_iff c (a :: l) Hk). rewrite shim_check_hd.
  destruct (N.leb_spec (h_height c) (h_height a)); [|lia].
  destruct (shim_walk c (a :: l)) as [z|]; split; intros (nh & Hd); try discriminate; eexists; reflexivity.
Qed.

(** since /repo 7d16f07, for any non-empty list: accepted iff something reaches
    the head's height and that part walks on from the head *)
Lemma shim_check_ok_iff_rest c hs :
  hs <> [] -> (forall y, In y (c :: hs) -> hok y) ->
  (exists nh, shim_check c hs = ShimOk nh) <-> (drop_below c hs <> [] /\ wrun c (drop_below c hs)).
Proof.
  intros Hne Hk.
  assert (Hk' : forall y, In y (c :: drop_below c hs) -> hok y).
  { intros y [<-|Hy]; [apply Hk; left; reflexivity|apply Hk; right; apply (drop_below_incl _ _ _ Hy)]. }
  rewrite <- (shim_walk_iff c (drop_below c hs) Hk'). unfold shim_check. destruct hs as [|a l]; [contradiction|].
  destruct (drop_below c (a :: l)) as [|b r].
  - split; [intros (nh & Hd); discriminate|intros [H _]; contradiction].
  - destruct (shim_walk c (b :: r)) as [z|]; split.
    + intros _. split; [discriminate|eexists; reflexivity].
    + intros _. eexists; reflexivity.
    + intros (nh & Hd); discriminate.
    + intros [_ (nh & Hd)]; discriminate.
Qed.

(** in particular a run consecutive from the cached head is accepted *)
Lemma consec_wrun c hs : consec (c :: hs) -> wrun c hs.
Proof.
  revert c. induction hs as [|a l IH]; intros c Hc; [exact I|].
  destruct Hc as [Ha Hc]. cbn [wrun]. right. split; [intros [E _]; lia|]. split; [exact Ha|apply IH; exact Hc].
Qed.

(** a range answer that is not consecutive from the cached head is refused as
    a whole on the check path: nothing is written, the attempt ends with the error *)
Lemma nonadjacent_refused a c k hs :
  c_loop c = LApp0 k hs -> shim_check (c_cache c) hs = ShimNonAdj ->
  let c' := l_step a c in
  c_store c' = c_store c /\ c_cache c' = c_cache c /\ c_pend c' = c_pend c /\ c_loop c' = LIdle /\
  ss_err (c_state c') = Some SENonAdj.
Proof. intros El Es. unfold l_step. rewrite El, Es. unfold l_finish. cbn. repeat split; reflexivity. Qed.

(** ** the statements of C03 over the initial configuration *)
Lemma store_contiguous_run drift tv (tail : N) (a : hdr) (l : list hdr) (es : list event) :
  consec (a :: l) -> Forall hok (a :: l) -> h_height a = tail ->
  Forall (wf_event tail) es ->
  let c := run drift tv (init_cfg tail (a :: l)) es in
  let s := c_store c in
  rs_tail s = tail /\
  (forall n, tail <= n <= rs_head s -> rs_has n (rs_log s) = true) /\
  (forall n, rs_has n (rs_log s) = true -> tail <= n) /\
  (forall n, rs_has n (rs_log s) = true -> rs_head s < n ->
     forall m, rs_head s < m <= n -> rs_has m (rs_log s) = true \/ In m (map h_height (reserved c))) /\
  (reserved c = [] -> forall n, rs_has n (rs_log s) = true <-> tail <= n <= rs_head s) /\
  tail <= h_height (c_cache c).
Proof.
  intros Hc Hk Ha Hw.
  exact (store_contiguous tail _ (Inv_run drift tv tail es _ (Inv_init tail a l Hc Hk Ha) Hw)).
Qed.

Lemma provenance_run drift tv (tail : N) (a : hdr) (l : list hdr) (es : list event) (y : hdr) :
  consec (a :: l) -> Forall hok (a :: l) -> h_height a = tail ->
  Forall (wf_event tail) es ->
  let c0 := init_cfg tail (a :: l) in
  In y (all_hdrs (run drift tv c0 es)) ->
  In y (all_hdrs c0) \/
  exists es1 e es2, es = es1 ++ e :: es2 /\ In y (enters drift tv (run drift tv c0 es1) e).
Proof.
  intros Hc Hk Ha Hw c0.
  exact (provenance drift tv tail es c0 (Inv_init tail a l Hc Hk Ha) Hw y).
Qed.

(** ** no head is left behind, for every schedule (after /repo 77026ec):
    whenever something is pending while the loop is idle, the trigger is set,
    about to be set by a learner call that has just done pending.Add, or the
    last attempt failed.  Hence at quiescence without error nothing is pending:
    the subjective head is the shim's store head. *)
Ltac brk := repeat match goal with
                   | |- context [match ?x with _ => _ end] => destruct x eqn:?
                   end.

Section inv3.
Variables (drift : Z) (tv : hdr -> hdr -> tvres) (tail : N).

Definition sl5ex (T : list tpc) : Prop := exists j mu res x rest, nth_error T j = Some (TRun mu res x SL5 rest).
Definition woke (c : cfg) : Prop := c_trig c = true \/ sl5ex (c_thr c).
Definition tinv (c : cfg) (T : N) : Prop := forall p, In p (ranges_all (c_pend c)) -> T < h_height p -> woke c.
Definition pwoke (c : cfg) : Prop := ranges_all (c_pend c) <> [] -> woke c.
Definition fne (P : ranges) : Prop := match P with [] => True | r :: _ => r_hdrs r <> [] end.

Definition rk_q (c : cfg) (k : rk) (to : N) : Prop :=
  match k with KGap _ oto => tinv c oto | KFin => tinv c to /\ pwoke c end.
Definition ak_q (c : cfg) (k : ak) : Prop :=
  match k with AKReq k' to => rk_q c k' to | AKCached oto => tinv c oto end.

Definition qpc (c : cfg) : Prop :=
  match c_loop c with
  | LIdle => ranges_all (c_pend c) <> [] -> woke c \/ ss_err (c_state c) <> None
  | LSync | LPanic => True
  | LSync1 ph => match ph with Some p => tinv c (h_height p) | None => pwoke c end
  | LSync2 p => tinv c (h_height p)
  | LFirst _ to => tinv c to
  | LGet _ to => tinv c to /\ fne (c_pend c)
  | LReq k _ to => rk_q c k to
  | LApp0 k _ | LApp1 k _ _ | LApp2 k _ => ak_q c k
  | LRem oto _ => tinv c oto
  end.

Lemma fne_add x P : fne P -> fne (ranges_add x P).
Proof.
  unfold fne. destruct P as [|r t].
  - intros _. unfold ranges_add. cbn. discriminate.
  - intros Hne. destruct (ranges_add_first x r t) as (r' & t' & -> & _ & ext & Er' & _). rewrite Er'.
    destruct (r_hdrs r); [contradiction|discriminate].
Qed.

(** predicates that only read pending / trigger / learner calls *)
Lemma woke_ext c c' : c_trig c' = c_trig c -> c_thr c' = c_thr c -> woke c -> woke c'.
Proof. unfold woke. intros -> ->. auto. Qed.

Lemma tinv_ext c c' T :
  c_trig c' = c_trig c -> c_thr c' = c_thr c -> (forall p, In p (ranges_all (c_pend c')) -> In p (ranges_all (c_pend c))) ->
  tinv c T -> tinv c' T.
Proof. intros E1 E2 Hs H p Hp Hlt. apply (woke_ext c c' E1 E2). apply (H p (Hs p Hp) Hlt). Qed.

Lemma pwoke_ext c c' :
  c_trig c' = c_trig c -> c_thr c' = c_thr c -> (forall p, In p (ranges_all (c_pend c')) -> In p (ranges_all (c_pend c))) ->
  pwoke c -> pwoke c'.
Proof.
  intros E1 E2 Hs H Hne. apply (woke_ext c c' E1 E2). apply H. intros E0.
  destruct (ranges_all (c_pend c')) as [|y l] eqn:Ey; [contradiction|]. specialize (Hs y (or_introl eq_refl)). rewrite E0 in Hs. destruct Hs.
Qed.

Lemma rk_q_ext c c' k to :
  c_trig c' = c_trig c -> c_thr c' = c_thr c -> (forall p, In p (ranges_all (c_pend c')) -> In p (ranges_all (c_pend c))) ->
  rk_q c k to -> rk_q c' k to.
Proof.
  intros E1 E2 Hs. destruct k; cbn; [apply tinv_ext; assumption|]. intros [A B]. split; [eapply tinv_ext; eassumption|eapply pwoke_ext; eassumption].
Qed.

Lemma ak_q_ext c c' k :
  c_trig c' = c_trig c -> c_thr c' = c_thr c -> (forall p, In p (ranges_all (c_pend c')) -> In p (ranges_all (c_pend c))) ->
  ak_q c k -> ak_q c' k.
Proof. intros E1 E2 Hs. destruct k; cbn; [apply rk_q_ext; assumption|apply tinv_ext; assumption]. Qed.

Lemma tinv_pwoke c T : tinv c T -> (forall p, In p (ranges_all (c_pend c)) -> T < h_height p) -> pwoke c.
Proof.
  intros H Hall Hne. destruct (ranges_all (c_pend c)) as [|y l] eqn:Ey; [contradiction|].
  assert (Hy : In y (ranges_all (c_pend c))) by (rewrite Ey; left; reflexivity).
  apply (H y Hy). apply Hall. left. reflexivity.
Qed.

Lemma q_lstep a c : Inv tail c -> qpc c -> qpc (l_step a c).
Proof.
  intros HI HQ. pose proof (i_rinv tail c HI) as Hri. unfold qpc in HQ.
  unfold l_step, l_finish, after_req, after_app.
  destruct (c_loop c) as [| |ph|p|from to|from to|k from to|k hs|k hs nh|k hs|oto lst|] eqn:Elp.
  - destruct (c_trig c) eqn:Et; unfold qpc; cbn; [exact I|rewrite Elp; exact HQ].
  - pose proof (rinv_head _ Hri) as Hh. destruct (ranges_head (c_pend c)) as [p|] eqn:Ep; unfold qpc; cbn.
    + destruct Hh as [_ Hmax]. intros q Hq Hlt. specialize (Hmax q Hq). lia.
    + intros Hne. contradiction.
  - unfold qpc. cbn. rewrite pick_height. destruct ph as [p|].
    + intros q Hq Hlt. apply (woke_ext c); try reflexivity. apply (HQ q Hq). lia.
    + intros q Hq Hlt. apply (woke_ext c); try reflexivity. apply HQ. intros E. change (In q (ranges_all (c_pend c))) in Hq. rewrite E in Hq. destruct Hq.
  - destruct (N.leb_spec (h_height p) (h_height (c_cache c))) as [Hle|Hgt].
    + destruct (remove_upto_spec (h_height (c_cache c)) _ Hri) as (rs' & -> & _ & Hm). unfold qpc. cbn.
      intros Hne. left. destruct (ranges_all rs') as [|y l] eqn:Ey; [contradiction|].
      assert (Hy : In y (y :: l)) by (left; reflexivity). apply Hm in Hy. destruct Hy as [Hy Hlt].
      apply (woke_ext c); [reflexivity|reflexivity|]. apply (HQ y Hy). lia.
    + unfold qpc. cbn. apply (tinv_ext c); try reflexivity; [auto|exact HQ].
  - destruct (ranges_first_spec _ Hri) as (_ & Eall & _ & Hfirst).
    destruct (ranges_first (c_pend c)) as [|r t] eqn:Ef; unfold qpc; cbn.
    + split; [intros q []|intros Hne; contradiction].
    + split; [|apply Hfirst]. intros q Hq Hlt. apply (woke_ext c); try reflexivity. apply (HQ q); [rewrite <- Eall; exact Hq|exact Hlt].
  - destruct HQ as [HT Hfn]. destruct (c_pend c) as [|r t] eqn:EP.
    + unfold qpc, rk_q, tinv, pwoke. cbn. rewrite EP. split; [intros q []|intros Hne; contradiction].
    + cbn [fne] in Hfn. destruct (first_run _ r t Hri eq_refl Hfn) as (a0 & l0 & Ea & Hok & Hne).
      destruct (get_remove_spec r a0 l0 Ea Hok to) as (g & r' & Hg & _ & Hsp & Hle & Hgt & _). rewrite Hg.
      destruct g as [|h0 g'].
      * (* nothing at or below the target is left: whatever is pending came later *)
        unfold qpc. cbn.
        assert (HT' : tinv (c <| c_loop := LReq KFin from to |>) to) by (apply (tinv_ext c); try reflexivity; [auto|exact HT]).
        split; [exact HT'|]. apply (tinv_pwoke _ to HT'). cbn. intros q Hq. rewrite EP in Hq.
        cbn [app] in Hsp. cbn in Hq. apply in_app_or in Hq. destruct Hq as [Hq|Hq]; [apply Hgt; rewrite <- Hsp; exact Hq|].
        pose proof (ne_inv_lo _ _ Hne q Hq) as Hlo.
        assert (Ha : In a0 (r_hdrs r')) by (rewrite <- Hsp, Ea; left; reflexivity). specialize (Hgt a0 Ha).
        destruct Hok as (Hc & _ & _). rewrite Ea in Hc. pose proof (consec_bounds a0 l0 Hc _ (last_in l0 a0)). lia.
      * destruct (_ =? _); unfold qpc; cbn; (apply (tinv_ext c); try reflexivity; [auto|exact HT]).
  - destruct (_ <? _).
    + destruct a as [|[|x l]]; unfold qpc; cbn; try (intros _; right; discriminate).
      destruct (_ =? _); cbn; [|intros _; right; discriminate].
      apply (rk_q_ext c); try reflexivity; [auto|exact HQ].
    + destruct k as [cached oto|]; unfold qpc; cbn.
      * apply (tinv_ext c); try reflexivity; [auto|exact HQ].
      * destruct HQ as [_ HP]. intros Hne. left. apply (woke_ext c); try reflexivity. apply HP. exact Hne.
  - destruct (shim_check (c_cache c) hs); unfold qpc; cbn; try (intros _; right; discriminate);
      try (apply (ak_q_ext c); try reflexivity; [auto|exact HQ]).
    destruct k as [k' to|oto]; cbn; [apply (rk_q_ext c); try reflexivity; [auto|exact HQ]|apply (tinv_ext c); try reflexivity; [auto|exact HQ]].
  - unfold qpc. cbn. apply (ak_q_ext c); try reflexivity; [auto|exact HQ].
  - destruct k as [k' to|oto]; unfold qpc; cbn; [apply (rk_q_ext c); try reflexivity; [auto|exact HQ]|apply (tinv_ext c); try reflexivity; [auto|exact HQ]].
  - destruct (c_pend c) as [|r t] eqn:EP.
    + unfold qpc. cbn. apply (tinv_ext c); try reflexivity; [auto|exact HQ].
    + destruct (range_remove_total oto r) as (r' & Er). rewrite Er. unfold qpc. cbn.
      apply (tinv_ext c); try reflexivity; [|exact HQ]. cbn. rewrite EP. intros q Hq. cbn in Hq |- *.
      apply in_app_or in Hq. apply in_or_app. destruct Hq as [Hq|Hq]; [left; eapply range_remove_sub; eassumption|right; exact Hq].
  - unfold qpc. rewrite Elp. exact I.
Qed.


Lemma q_mono c c' :
  c_loop c' = c_loop c -> c_state c' = c_state c -> (woke c -> woke c') ->
  (forall p, In p (ranges_all (c_pend c')) -> In p (ranges_all (c_pend c)) \/ woke c') ->
  (fne (c_pend c) -> fne (c_pend c')) ->
  qpc c -> qpc c'.
Proof.
  intros El Es Hw Hp Hf HQ.
  assert (HT : forall T, tinv c T -> tinv c' T).
  { intros T H p Hp' Hlt. destruct (Hp p Hp') as [Hin|Hwk]; [apply Hw; apply (H p Hin Hlt)|exact Hwk]. }
  assert (HP : pwoke c -> pwoke c').
  { intros H Hne. destruct (ranges_all (c_pend c')) as [|y l] eqn:Ey; [contradiction|].
    destruct (Hp y (or_introl eq_refl)) as [Hin|Hwk]; [|exact Hwk]. apply Hw. apply H. intros E0. rewrite E0 in Hin. destruct Hin. }
  assert (HR : forall k to, rk_q c k to -> rk_q c' k to).
  { intros k to. destruct k; cbn; [apply HT|]. intros [A B]. split; [apply HT; exact A|apply HP; exact B]. }
  assert (HA : forall k, ak_q c k -> ak_q c' k).
  { intros k. destruct k; cbn; [apply HR|apply HT]. }
  unfold qpc in *. rewrite El, Es.
  destruct (c_loop c) as [| |ph|p|from to|from to|k from to|k hs|k hs nh|k hs|oto lst|]; auto.
  - intros Hne. destruct (ranges_all (c_pend c')) as [|y l] eqn:Ey; [contradiction|].
    destruct (Hp y (or_introl eq_refl)) as [Hin|Hwk]; [|left; exact Hwk].
    destruct HQ as [H|H]; [intros E0; rewrite E0 in Hin; destruct Hin|left; apply Hw; exact H|right; exact H].
  - destruct ph as [p|]; [apply HT; exact HQ|apply HP; exact HQ].
  - destruct HQ as [A B]. split; [apply HT; exact A|apply Hf; exact B].
Qed.

Lemma woke_upd c i t t' P' tr' :
  nth_error (c_thr c) i = Some t ->
  (forall mu res x rest, t = TRun mu res x SL5 rest -> tr' = true) ->
  (c_trig c = true -> tr' = true) ->
  woke c -> woke (c <| c_pend := P' |> <| c_trig := tr' |> <| c_thr ::= upd_nth i t' |>).
Proof.
  intros En H5 Ht [Hw|(j & mu & res & x & rest & Hj)]; unfold woke; cbn.
  - left. apply Ht. exact Hw.
  - destruct (Nat.eq_dec j i) as [->|Hne].
    + left. rewrite En in Hj. injection Hj as ->. eapply H5. reflexivity.
    + right. exists j, mu, res, x, rest. clear -Hj Hne. revert i j Hj Hne. generalize (c_thr c). induction l as [|t0 T IH]; intros i j Hj Hne; [destruct j; discriminate|].
      destruct i, j; cbn in *; try congruence; auto.
Qed.


Lemma nth_upd_other {A} (l : list A) i j a : j <> i -> nth_error (upd_nth i a l) j = nth_error l j.
Proof.
  revert i j. induction l as [|x l IH]; intros i j Hne; [destruct i; reflexivity|].
  destruct i, j; cbn; try congruence; auto.
Qed.

(** what a learner step touches *)
Lemma t_step_frame i c :
  c_loop (t_step drift tv i c) = c_loop c /\ c_state (t_step drift tv i c) = c_state c /\
  (c_trig c = true -> c_trig (t_step drift tv i c) = true) /\
  (forall j, j <> i -> nth_error (c_thr (t_step drift tv i c)) j = nth_error (c_thr c) j).
Proof.
  unfold t_step. destruct (nth_error (c_thr c) i) as [t|]; [|auto].
  unfold t_body, enter, t_next, set_thr.
  destruct t as [h now b|h now b ph|a|a ph|sbj a|mu res x st rest|r].
  - destruct (c_mu c); [auto|]. cbn; repeat split; auto; intros; apply nth_upd_other; assumption.
  - destruct (verdict_shape drift tv now b (pick_head ph (c_cache c)) h) as [->|(res & w & r & ->)]; cbn; repeat split; auto; intros; apply nth_upd_other; assumption.
  - cbn; repeat split; auto; intros; apply nth_upd_other; assumption.
  - cbn; repeat split; auto; intros; apply nth_upd_other; assumption.
  - brk; cbn; repeat split; auto; intros; apply nth_upd_other; assumption.
  - destruct st; brk; cbn; repeat split; auto; intros; apply nth_upd_other; assumption.
  - auto.
Qed.

Lemma t_step_sl5 i c mu res x rest :
  nth_error (c_thr c) i = Some (TRun mu res x SL5 rest) -> c_trig (t_step drift tv i c) = true.
Proof. intros En. unfold t_step. rewrite En. unfold t_body, t_next, set_thr. destruct rest; [destruct mu|]; reflexivity. Qed.

Lemma t_step_pend i c :
  c_pend (t_step drift tv i c) = c_pend c \/
  exists mu res x rest, c_pend (t_step drift tv i c) = ranges_add x (c_pend c) /\
                        nth_error (c_thr (t_step drift tv i c)) i = Some (TRun mu res x SL5 rest).
Proof.
  unfold t_step. destruct (nth_error (c_thr c) i) as [t|] eqn:En; [|left; reflexivity].
  assert (Hi : (i < length (c_thr c))%nat) by (apply nth_error_Some; congruence).
  unfold t_body, enter, t_next, set_thr.
  destruct t as [h now b|h now b ph|a|a ph|sbj a|mu res x st rest|r].
  - destruct (c_mu c); left; reflexivity.
  - destruct (verdict_shape drift tv now b (pick_head ph (c_cache c)) h) as [->|(res & w & r & ->)]; left; reflexivity.
  - left; reflexivity.
  - left; reflexivity.
  - brk; left; reflexivity.
  - destruct st; brk; cbn; try (left; reflexivity).
    right. exists mu, res, x, rest. split; [reflexivity|]. apply nth_upd_same. exact Hi.
  - left; reflexivity.
Qed.

Lemma q_tstep i c : qpc c -> qpc (t_step drift tv i c).
Proof.
  intros HQ. destruct (t_step_frame i c) as (El & Es & Ht & Ho).
  assert (Hw : woke c -> woke (t_step drift tv i c)).
  { intros [Hw|(j & mu & res & x & rest & Hj)]; [left; apply Ht; exact Hw|].
    destruct (Nat.eq_dec j i) as [->|Hne].
    - left. eapply t_step_sl5. exact Hj.
    - right. exists j, mu, res, x, rest. rewrite (Ho j Hne). exact Hj. }
  apply (q_mono c); auto.
  - intros p Hp. destruct (t_step_pend i c) as [E|(mu & res & x & rest & E & En)].
    + left. rewrite <- E. exact Hp.
    + rewrite E in Hp. apply ranges_add_sub in Hp. destruct Hp as [->|Hp]; [|left; exact Hp].
      right. right. exists i, mu, res, x, rest. exact En.
  - destruct (t_step_pend i c) as [->|(mu & res & x & rest & -> & _)]; [auto|apply fne_add].
Qed.

Theorem q_step c e : Inv tail c -> qpc c -> qpc (step drift tv c e).
Proof.
  intros HI HQ. destruct e as [h now b|a|a|i]; cbn [step].
  - apply (q_mono c); auto. intros [Hw|(j & mu & res & x & rest & Hj)]; [left; exact Hw|right].
    exists j, mu, res, x, rest. cbn. rewrite nth_error_app1; [exact Hj|apply nth_error_Some; congruence].
  - apply (q_mono c); auto. intros [Hw|(j & mu & res & x & rest & Hj)]; [left; exact Hw|right].
    exists j, mu, res, x, rest. cbn. rewrite nth_error_app1; [exact Hj|apply nth_error_Some; congruence].
  - apply q_lstep; assumption.
  - apply q_tstep; assumption.
Qed.

Theorem q_run es : forall c, Inv tail c -> Forall (wf_event tail) es -> qpc c -> qpc (run drift tv c es).
Proof.
  induction es as [|e es IH]; intros c HI Hw HQ; [exact HQ|].
  inversion Hw; subst. cbn [run fold_left]. apply IH; [apply Inv_step; assumption|assumption|apply q_step; assumption].
Qed.

(** quiescence of the whole Syncer: the loop idle, no trigger token, every learner call returned *)
Definition all_quiet (c : cfg) : Prop :=
  c_loop c = LIdle /\ c_trig c = false /\ Forall (fun t => exists r, t = TDone r) (c_thr c).

Theorem quiet_nothing_pending c :
  qpc c -> all_quiet c -> ss_err (c_state c) = None ->
  ranges_all (c_pend c) = [] /\ local_head c = c_cache c.
Proof.
  intros HQ (El & Et & Hth) He. unfold qpc in HQ. rewrite El in HQ.
  assert (Hnw : ~ woke c).
  { intros [Hw|(j & mu & res & x & rest & Hj)]; [congruence|].
    pose proof (proj1 (Forall_forall _ _) Hth _ (nth_error_In _ _ Hj)) as (r & Hr). discriminate. }
  assert (EA : ranges_all (c_pend c) = []).
  { destruct (ranges_all (c_pend c)) as [|y l] eqn:Ey; [reflexivity|exfalso].
    destruct HQ as [H|H]; [discriminate|exact (Hnw H)|exact (H He)]. }
  split; [exact EA|]. unfold local_head.
  assert (Hh : ranges_head (c_pend c) = None).
  { unfold ranges_head. destruct (last_opt (c_pend c)) as [r|] eqn:E; [|reflexivity].
    apply last_opt_in in E. unfold range_head.
    assert (Hr : r_hdrs r = []).
    { unfold ranges_all in EA. destruct (r_hdrs r) as [|x l] eqn:Er; [reflexivity|exfalso].
      assert (Hx : In x (flat_map r_hdrs (c_pend c))) by (apply in_flat_map; exists r; split; [exact E|rewrite Er; left; reflexivity]).
      rewrite EA in Hx. destruct Hx. }
    rewrite Hr. reflexivity. }
  rewrite Hh. reflexivity.
Qed.

End inv3.

(** over the initial configuration *)
Lemma quiet_run drift tv (tail : N) (a : hdr) (l : list hdr) (es : list event) :
  consec (a :: l) -> Forall hok (a :: l) -> h_height a = tail ->
  Forall (wf_event tail) es ->
  let c := run drift tv (init_cfg tail (a :: l)) es in
  all_quiet c -> ss_err (c_state c) = None ->
  ranges_all (c_pend c) = [] /\ local_head c = c_cache c /\
  tail <= h_height (c_cache c) <= rs_head (c_store c).
Proof.
  intros Hc Hk Ha Hw c Hq He.
  pose proof (Inv_init tail a l Hc Hk Ha) as HI0.
  assert (HQ0 : qpc (init_cfg tail (a :: l))) by (unfold qpc, init_cfg; cbn; intros Hne; contradiction).
  pose proof (Inv_run drift tv tail es _ HI0 Hw) as HI. pose proof (q_run drift tv tail es _ HI0 Hw HQ0) as HQ. fold c in HI, HQ.
  destruct (quiet_nothing_pending c HQ Hq He) as [E1 E2]. split; [exact E1|]. split; [exact E2|].
  destruct (store_contiguous tail c HI) as (_ & _ & _ & _ & Hx & Hge). split; [exact Hge|].
  (* nothing reserved at quiescence: the cache height is a stored height *)
  destruct Hq as (El & _ & Hth).
  assert (Hres : reserved c = []).
  { unfold reserved. rewrite El. cbn. clear -Hth. induction Hth as [|t T (r & ->) HT IH]; [reflexivity|]. cbn. exact IH. }
  pose proof (i_cache tail c HI) as Hin. apply in_hts in Hin. rewrite El in Hin. cbn in Hin.
  destruct Hin as [Hin|[[]|Hin]].
  - apply (Hx Hres) in Hin. lia.
  - unfold reserved in Hres. rewrite El in Hres. cbn in Hres. rewrite Hres in Hin. destruct Hin.
Qed.

(** ** a learner call never replaces the header at the shim's head: a header of
    the cached head's height with another hash is refused by the shim
    (errNonAdjacent, ignored by setLocalHead); nothing is written, and since the
    head is not below it the header is not added to pending either *)
Lemma wrap_succ_ne n : n < two64 -> wrap64 (n + 1) <> n.
Proof.
  intros H. unfold wrap64. destruct (N.eq_dec (n + 1) two64) as [E|E].
  - rewrite E, N.mod_same by (unfold two64; lia). unfold two64 in *. lia.
  - rewrite N.mod_small by lia. lia.
Qed.

Lemma same_height_refused (cur x : hdr) :
  h_height cur < two64 -> h_height x = h_height cur -> h_id x <> h_id cur -> shim_check cur [x] = ShimNonAdj.
Proof.
  intros Hb Hh Hi. rewrite shim_check_1. rewrite Hh, N.leb_refl. cbn [shim_walk]. rewrite Hh, N.eqb_refl.
  destruct (N.eqb_spec (h_id x) (h_id cur)) as [E|_]; [contradiction|]. cbn [andb].
  destruct (N.eqb_spec (h_height cur) (wrap64 (h_height cur + 1))) as [E|_]; [|reflexivity].
  exfalso. symmetry in E. revert E. apply wrap_succ_ne. exact Hb.
Qed.

Section head_kept.
Variables (drift : Z) (tv : hdr -> hdr -> tvres).

Lemma head_not_replaced (i : nat) (c : cfg) mu res x rest :
  nth_error (c_thr c) i = Some (TRun mu res x SL0 rest) ->
  h_height (c_cache c) < two64 -> h_height x = h_height (c_cache c) -> h_id x <> h_id (c_cache c) ->
  let c1 := t_step drift tv i c in
  let c2 := t_step drift tv i c1 in
  nth_error (c_thr c1) i = Some (TRun mu res x SL3 rest) /\
  c_store c2 = c_store c /\ c_cache c2 = c_cache c /\ c_pend c2 = c_pend c /\ c_trig c2 = c_trig c /\
  nth_error (c_thr c2) i = Some (match rest with [] => TDone res | y :: r => TRun mu res y SL0 r end).
Proof.
  intros Hn Hb Hh Hi. cbn zeta.
  assert (Hlt : (i < length (c_thr c))%nat) by (apply nth_error_Some; congruence).
  assert (E1 : t_step drift tv i c = set_thr i (TRun mu res x SL3 rest) c).
  { unfold t_step. rewrite Hn. cbn [t_body]. rewrite (same_height_refused _ _ Hb Hh Hi). reflexivity. }
  rewrite E1.
  assert (Hn1 : nth_error (c_thr (set_thr i (TRun mu res x SL3 rest) c)) i = Some (TRun mu res x SL3 rest)).
  { unfold set_thr. cbn. apply nth_upd_same. exact Hlt. }
  split; [exact Hn1|].
  unfold t_step at 1 2 3 4 5. rewrite Hn1. cbn [t_body].
  assert (Hc : c_cache (set_thr i (TRun mu res x SL3 rest) c) = c_cache c) by reflexivity.
  rewrite Hc, Hh, N.leb_refl.
  unfold t_next. destruct rest as [|y r].
  - destruct mu; unfold set_thr; cbn; repeat split; try reflexivity; apply nth_upd_same; rewrite upd_length; exact Hlt.
  - unfold set_thr; cbn; repeat split; try reflexivity. apply nth_upd_same; rewrite upd_length; exact Hlt.
Qed.
End head_kept.
