(** C17, last clause (part 6): every schedule that is long enough ends with both actors done. *)
From Coq Require Import NArith List Bool Lia ZifyBool ZifyN ZifyNat.
From stdpp Require Import gmap.
From GH Require Import Base.Prelude Model.Store Model.StoreSpec Model.StoreConc Model.StoreDelConc.
From GH Require Import Proofs.StoreP Proofs.StoreInvP Proofs.StoreConcP Proofs.StoreDelConcP Proofs.StoreDelConc2P
  Proofs.StoreDelConc3P Proofs.StoreDelConc4P Proofs.StoreDelConc5P.
Import ListNotations.
Open Scope N_scope.

(** the number of steps the flush goroutine still has to take *)
Definition rem_f (f : fl) : nat :=
  match f with FIdle => 0 | FInit _ => 6 | FAdv _ => 5 | FRec _ => 4 | FLoad _ => 3 | FCommit _ _ => 2 | FReset _ => 1 end.
Definition mu_f (q : list (list hdr)) (f : fl) : nat := 7 * length q + rem_f f.

(** an upper bound of the steps the deleter still has to take (its Sync included) *)
Definition mu_d (from to : N) (k : dl) : nat :=
  let m c := N.to_nat (to - c - 1) in
  match k with
  | KDone | KFail | KOther => 0
  | KPutH _ => 1 | KLoadH2 _ => 2 | KPutT _ => 3 | KStoreT _ => 4 | KGetT => 5 | KCommit _ => 6
  | KPend c _ _ => 7 + 5 * m c
  | KDelI c _ _ _ => 8 + 5 * m c
  | KDelH c _ _ _ => 9 + 5 * m c
  | KHand c _ _ _ => 10 + 5 * m c
  | KLook c _ _ => 11 + 5 * m c
  | KBegin => 12 + 5 * m from
  | KLoadT _ => 13 + 5 * m from
  | KLoadH => 14 + 5 * m from
  | KWait => 15 + 5 * m from
  | KSync => 23 + 5 * m from
  end.

Definition mu (from to : N) (x : cfg) : nat := mu_f (c_q x) (c_fl x) + mu_d from to (c_dl x).

Lemma mu_fstep s q f s' q' f' : fstep s q f = Some (s', q', f') -> (mu_f q' f' < mu_f q f)%nat.
Proof.
  unfold mu_f. intros St. destruct f; cbn [fstep] in St.
  - destruct q as [|[|h0 hs] r]; [discriminate| |]; injection St as <- <- <-; cbn [length rem_f]; lia.
  - injection St as <- <- <-. cbn. lia.
  - injection St as <- <- <-. cbn. lia.
  - destruct (_ && _); [injection St as <- <- <-; cbn; lia|].
    destruct (_ =? _)%nat; injection St as <- <- <-; cbn; lia.
  - injection St as <- <- <-. cbn. lia.
  - injection St as <- <- <-. cbn. lia.
  - injection St as <- <- <-. cbn. lia.
Qed.

Lemma mu_next from to c wb snap : (mu_d from to (k_next to c wb snap) < 7 + 5 * N.to_nat (to - c - 1))%nat.
Proof.
  unfold k_next. destruct (N.ltb_spec (c + 1) to); cbn [mu_d]; [|lia].
  replace (N.to_nat (to - (c + 1) - 1)) with (N.to_nat (to - c - 1) - 1)%nat by lia. lia.
Qed.

Lemma mu_dstep from to ctxf s q f k s' f' k' : dstep from to ctxf s f k = Some (s', f', k') ->
  (mu_f q f' + mu_d from to k' < mu_f q f + mu_d from to k)%nat.
Proof.
  intros St. destruct k; cbn [dstep] in St.
  - destruct f; try discriminate. injection St as <- <- <-. unfold mu_f. cbn. lia.
  - destruct (is_nil f); [discriminate|]. injection St as <- <- <-. cbn. lia.
  - destruct (headp s); injection St as <- <- <-; cbn; lia.
  - destruct (tailp s); [|injection St as <- <- <-; cbn; lia]. cbv zeta in St.
    repeat match type of St with (if ?b then _ else _) = _ => destruct b end;
      injection St as <- <- <-; cbn; lia.
  - injection St as <- <- <-. cbn. lia.
  - pose proof (mu_next from to cur wb snap).
    destruct (_ !! cur); [injection St as <- <- <-; cbn; lia|].
    destruct (pend_h s !! cur); injection St as <- <- <-; cbn [mu_d]; lia.
  - injection St as <- <- <-. cbn. lia.
  - destruct ctxf; injection St as <- <- <-; cbn; lia.
  - destruct ctxf; injection St as <- <- <-; cbn; lia.
  - pose proof (mu_next from to cur wb snap). injection St as <- <- <-. cbn [mu_d]. lia.
  - injection St as <- <- <-. cbn. lia.
  - destruct (nb s to); injection St as <- <- <-; cbn; lia.
  - destruct f; try discriminate; injection St as <- <- <-; cbn; lia.
  - injection St as <- <- <-. cbn. lia.
  - destruct (headp s) as [hd|]; [destruct (h_height hd <? to)|]; injection St as <- <- <-; cbn; lia.
  - injection St as <- <- <-. cbn. lia.
  - discriminate.
  - discriminate.
  - discriminate.
Qed.

Lemma mu_step1 from to ctxf a x y : step1 from to ctxf a x = Some y -> (mu from to y < mu from to x)%nat.
Proof.
  assert (F : forall y, fstep_c x = Some y -> (mu from to y < mu from to x)%nat).
  { intros y0 St. unfold fstep_c in St. destruct (_ && _); [discriminate|].
    destruct (fstep (c_st x) (c_q x) (c_fl x)) as [[[s q] f]|] eqn:E; [|discriminate]. injection St as <-.
    unfold mu. cbn [c_q c_fl c_dl]. pose proof (mu_fstep _ _ _ _ _ _ E). lia. }
  assert (D : forall y, dstep_c from to ctxf x = Some y -> (mu from to y < mu from to x)%nat).
  { intros y0 St. unfold dstep_c in St.
    destruct (dstep from to ctxf (c_st x) (c_fl x) (c_dl x)) as [[[s f] k]|] eqn:E; [|discriminate]. injection St as <-.
    unfold mu. cbn [c_q c_fl c_dl]. apply (mu_dstep _ _ _ _ (c_q x) _ _ _ _ _ E). }
  unfold step1. destruct a.
  - destruct (dstep_c from to ctxf x) eqn:E; [intros [= <-]; auto|auto].
  - destruct (fstep_c x) eqn:E; [intros [= <-]; auto|auto].
Qed.

Lemma last_cons_some {A} (y : A) l d : last (y :: l) d = last l y.
Proof. destruct l; [reflexivity|]. apply (last_indep l a d y). Qed.

Lemma fstep_none s q f : fstep s q f = None -> f = FIdle /\ q = [].
Proof.
  destruct f; cbn [fstep]; try discriminate.
  - destruct q as [|[|h0 hs] r]; try discriminate. auto.
  - destruct (_ && _); [discriminate|]. destruct (_ =? _)%nat; discriminate.
Qed.

Lemma dstep_none from to ctxf s f k : dstep from to ctxf s f k = None ->
  (k = KDone \/ k = KFail \/ k = KOther) \/ (k = KSync /\ f <> FIdle) \/ (k = KWait /\ is_nil f = true) \/
  (exists h, k = KStoreT h /\ exists nl ops, f = FCommit nl ops).
Proof.
  destruct k; cbn [dstep]; auto.
  - intros E. right. left. split; auto. intros ->. discriminate.
  - destruct (is_nil f) eqn:Hn; [|discriminate]. auto.
  - destruct (headp s); discriminate.
  - destruct (tailp s); [|discriminate]. cbv zeta.
    repeat match goal with |- (if ?b then _ else _) = _ -> _ => destruct b end; discriminate.
  - discriminate.
  - destruct (_ !! cur); [discriminate|]. destruct (pend_h s !! cur); discriminate.
  - discriminate.
  - destruct ctxf; discriminate.
  - destruct ctxf; discriminate.
  - discriminate.
  - discriminate.
  - destruct (nb s to); discriminate.
  - destruct f; try discriminate. intros _. right. right. right. eauto.
  - discriminate.
  - destruct (headp s) as [hd|]; [destruct (h_height hd <? to)|]; discriminate.
  - discriminate.
Qed.

Section prog.
Context {c : N -> hdr} {U : N} {CH : chain_hyps c U}.
Variables (T to : N) (ctxf : bool) (spE : spec).
Hypothesis HT : inr U T.
Hypothesis Hto : inr U to.
Hypothesis Hlt : T < to.

(** nobody can move only when both are done *)
Lemma GI_stuck a x : GI c U T to ctxf spE x -> step1 T to ctxf a x = None -> finished x.
Proof.
  intros G St.
  assert (Ed : dstep_c T to ctxf x = None /\ fstep_c x = None).
  { unfold step1 in St. destruct a; destruct (dstep_c T to ctxf x), (fstep_c x); try discriminate; auto. }
  destruct Ed as [Ed Ef]. unfold dstep_c in Ed. unfold fstep_c in Ef.
  destruct (dstep T to ctxf (c_st x) (c_fl x) (c_dl x)) as [[[s f] k]|] eqn:E1; [discriminate|]. clear Ed.
  apply dstep_none in E1.
  assert (Ef' : (is_load (c_fl x) && in_dsec (c_dl x) = true) \/ (c_fl x = FIdle /\ c_q x = [])).
  { destruct (is_load (c_fl x) && in_dsec (c_dl x)); auto. right.
    destruct (fstep (c_st x) (c_q x) (c_fl x)) as [[[s q] f]|] eqn:E; [discriminate|]. apply fstep_none in E. exact E. }
  clear Ef. unfold GI in G.
  destruct E1 as [E1|[[Ek Hf]|[[Ek Hn]|(h & Ek & nl & ops & Hf)]]].
  - (* the deleter is at an end *)
    destruct Ef' as [Hb|[Hf Hq]].
    { apply andb_true_iff in Hb. destruct Hb as [_ Hb]. destruct E1 as [E1|[E1|E1]]; rewrite E1 in Hb; discriminate. }
    destruct E1 as [E1|[E1|E1]]; rewrite E1 in G.
    + split_and!; auto.
    + destruct G as (_ & v & fv & _ & _ & _ & D & _). rewrite E1 in D. cbn in D. contradiction.
    + destruct G as (_ & v & fv & _ & _ & _ & D & _). rewrite E1 in D. cbn in D. contradiction.
  - destruct Ef' as [Hb|[Hf' _]]; [|contradiction]. rewrite Ek in Hb. cbn in Hb. rewrite andb_false_r in Hb. discriminate.
  - destruct Ef' as [Hb|[Hf' _]]; [rewrite Ek in Hb; cbn in Hb; rewrite andb_false_r in Hb; discriminate|].
    rewrite Hf' in Hn. discriminate.
  - destruct Ef' as [Hb|[Hf' _]]; [rewrite Ek in Hb; cbn in Hb; rewrite andb_false_r in Hb; discriminate|].
    rewrite Hf' in Hf. discriminate.
Qed.

Theorem GI_terminates : forall sch x, GI c U T to ctxf spE x -> (mu T to x <= length sch)%nat ->
  finished (last (run_sched T to ctxf x sch) x).
Proof.
  induction sch as [|a sch IH]; intros x G Hm; cbn [run_sched].
  - cbn [last]. cbn [length] in Hm.
    (* measure 0: both are at their ends *)
    destruct (step1 T to ctxf true x) as [y|] eqn:St; [pose proof (mu_step1 _ _ _ _ _ _ St); lia|].
    eapply GI_stuck; eauto.
  - destruct (step1 T to ctxf a x) as [y|] eqn:St; [|cbn [last]; eapply GI_stuck; eauto].
    rewrite last_cons_some. pose proof (mu_step1 _ _ _ _ _ _ St). cbn [length] in Hm.
    apply IH; [|lia]. eapply (GI_step1 T to ctxf spE HT Hto Hlt); eauto.
Qed.

End prog.

From GH Require Import Oracle.StoreCase Proofs.StoreMainP.

Section hist.
Context {c : N -> hdr} {U : N} {CH : chain_hyps c U}.

(** every schedule with at least this many entries runs both actors to their ends *)
Theorem hist_race_terminates b ops T H to ctxf q sch : Forall (op_ok U) ops ->
  sHT (run_spec spec0 ops) = Some (T, H) -> T < to -> to <= H -> above (U := U) H q ->
  let x0 := cfg0 (run c (st0 b) ops) (map (map c) q) in
  (7 * length q + 23 + 5 * N.to_nat (to - T - 1) <= length sch)%nat ->
  finished (last (run_sched T to ctxf x0 sch) x0).
Proof.
  intros F E Hlt Hle Ab x0 Hm. pose proof (history_inv (c := c) b ops F) as I.
  destruct (inv_TH _ _ T H (proj1 I) E) as (HT & HH & _).
  assert (Hto : inr U to) by (destruct HT, HH; split; lia).
  pose proof (GI_cfg0 T to _ _ H q ctxf I E Hle (above_hiN H to q Hle Ab)) as G0.
  apply (GI_terminates T to ctxf _ HT Hto Hlt sch x0 G0).
  unfold mu, x0, cfg0, mu_f. cbn [c_q c_fl c_dl rem_f mu_d]. rewrite map_length. lia.
Qed.

End hist.
