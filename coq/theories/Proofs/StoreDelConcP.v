(** C17, last clause: a tail-side DeleteRange racing with appends at the head
    (Model/StoreDelConc.v).  Part 1: the specification side (delete and appends above the head
    commute), the states of one batch flushed on its own, and the frame lemmas of the steps. *)
From Coq Require Import NArith List Bool Lia ZifyBool ZifyN ZifyNat.
From stdpp Require Import gmap.
From GH Require Import Base.Prelude Model.Store Model.StoreSpec Model.StoreConc Model.StoreDelConc.
From GH Require Import Proofs.StoreP Proofs.StoreClimbP Proofs.StoreInvP Proofs.StoreAppendP
  Proofs.StoreDeleteP Proofs.StoreDeleteRangeP Proofs.StoreRestartP Proofs.StoreConcP.
Import ListNotations.
Open Scope N_scope.

(** ** pure lemmas about the climbs *)
Lemma run_down_stop f (S : gset N) n : sub64 n 1 ∉ S -> run_down f S n = n.
Proof. intros H. destruct f; cbn [run_down]; auto. rewrite bool_decide_eq_false_2; auto. Qed.

Lemma run_up_above U (A B : gset N) : U < two64 - 1 -> (forall m, m ∈ A -> inr U m) ->
  forall f n, n <= U -> (forall k, n < k -> (k ∈ A <-> k ∈ B)) -> run_up f A n = run_up f B n.
Proof.
  intros Ub SI. induction f as [|f IH]; intros n Hn E; cbn [run_up]; auto.
  rewrite wrap64_small by lia.
  destruct (bool_decide_reflect (n + 1 ∈ A)) as [Hin|Hin].
  - rewrite bool_decide_eq_true_2 by (apply E; auto; lia).
    apply IH; [apply SI in Hin; destruct Hin; auto|]. intros k Hk. apply E. lia.
  - rewrite bool_decide_eq_false_2; auto. intros Hb. apply Hin, E; auto. lia.
Qed.

(** the tail-side deletion of the specification *)
Definition cutS (S : gset N) (T to : N) : gset N := S ∖ list_to_set (seqN T (N.to_nat (to - T))).

Lemma in_cutS S T to n : T <= to -> n ∈ cutS S T to <-> n ∈ S /\ ~ (T <= n < to).
Proof. intros Hle. unfold cutS. rewrite not_in_cut. split; intros [A B]; split; auto; lia. Qed.

Lemma spec_delete_tail sp T H to : sHT sp = Some (T, H) -> T < to -> to <= H -> H < two64 - 1 ->
  spec_delete sp T to None = (Spec (cutS (sS sp) T to) (Some (to, H)), Ok).
Proof.
  intros E Hlt Hle Hb. unfold spec_delete. rewrite E.
  rewrite wrap64_small by lia.
  replace (to <=? T) with false by lia.
  replace (H <? T) with false by lia. cbn [orb].
  replace (T =? T) with true by lia.
  replace (to =? H + 1) with false by lia. cbn [andb negb].
  replace (H + 1 <? to) with false by lia.
  replace (H <? to) with false by lia. reflexivity.
Qed.

Definition del (T to : N) (sp : spec) : spec := fst (spec_delete sp T to None).

Section chain.
Context {c : N -> hdr} {U : N} {CH : chain_hyps c U}.
Notation inr := (inr U).
Notation minv := (minv c U).
Notation pchain := (pchain c U).
Notation pstored := (pstored c).
Notation pinv := (pinv c U).
Notation inv := (inv c U).

Let Ub := @ch_bound c U CH.
Let c_height := @ch_height c U CH.
Let c_inj := @ch_inj c U CH.

Lemma pinv_SI s sp : pinv s sp -> forall m, m ∈ sS sp -> inr m.
Proof. intros I m Hm. apply (stored_inr s m (iv_m _ _ _ _ I)), (iv_S _ _ _ _ I), Hm. Qed.

Lemma pinv_below s sp T H : pinv s sp -> sHT sp = Some (T, H) -> T - 1 ∉ sS sp /\ H + 1 ∉ sS sp.
Proof.
  intros I E. pose proof (iv_p _ _ _ _ I) as P. unfold ptrs_core in P. rewrite E in P.
  destruct P as (_ & _ & _ & _ & _ & P6 & P7). rewrite !(iv_S _ _ _ _ I). auto.
Qed.

(** appends above the tail: the tail stays *)
Lemma spec_append_HT s sp T H ns : pinv s sp -> sHT sp = Some (T, H) -> ns <> [] ->
  Forall inr ns -> (forall n, In n ns -> T <= n) ->
  let S' := sS sp ∪ list_to_set ns in
  spec_append sp ns = Spec S' (Some (T, run_up (Datatypes.S (size S')) S' H)).
Proof.
  intros I E Hne F Hge S'. rewrite (spec_append_some sp T H ns Hne E). fold S'. do 3 f_equal.
  destruct (inv_TH s sp T H I E) as (HT & _). destruct HT.
  apply run_down_stop. rewrite sub64_1 by lia. unfold S'.
  rewrite elem_of_union, elem_of_list_to_set, elem_of_list_In.
  intros [Hs|Hs]; [apply (pinv_below s sp T H I E) in Hs; auto|apply Hge in Hs; lia].
Qed.

(** deleting at the tail and appending above the head commute *)
Lemma del_append_comm s sp T H to ns : pinv s sp -> sHT sp = Some (T, H) -> T < to -> to <= H ->
  Forall inr ns -> (forall n, In n ns -> to <= n) ->
  spec_append (del T to sp) ns = del T to (spec_append sp ns).
Proof.
  intros I E Hlt Hle F Hge. destruct ns as [|n0 ns']; [reflexivity|].
  set (ns := n0 :: ns') in *. assert (Hne : ns <> []) by discriminate. clearbody ns.
  destruct (inv_TH s sp T H I E) as (HT & HH & _). destruct HT as [HT1 HT2], HH as [HH1 HH2].
  pose proof (pinv_SI s sp I) as SI.
  unfold del at 1. rewrite (spec_delete_tail sp T H to E Hlt Hle) by lia. cbn [fst].
  rewrite (spec_append_HT s sp T H ns I E Hne F) by (intros n Hn; apply Hge in Hn; lia).
  set (S2 := sS sp ∪ list_to_set ns).
  assert (SI2 : forall m, m ∈ S2 -> inr m).
  { intros m. unfold S2. rewrite elem_of_union, elem_of_list_to_set, elem_of_list_In.
    intros [Hm|Hm]; auto. eapply FIn; eauto. }
  destruct (run_up_spec U Ub S2 SI2 (Datatypes.S (size S2)) H HH2) as (A1 & A2 & _).
  set (H2 := run_up (Datatypes.S (size S2)) S2 H) in *.
  unfold del. rewrite (spec_delete_tail (Spec S2 (Some (T, H2))) T H2 to eq_refl Hlt) by lia. cbn [fst sS].
  set (S1 := cutS (sS sp) T to).
  assert (ES : S1 ∪ list_to_set ns = cutS S2 T to).
  { apply set_eq. intros x. unfold S1. rewrite elem_of_union, !in_cutS by lia. unfold S2.
    rewrite elem_of_union, elem_of_list_to_set, elem_of_list_In. split.
    - intros [[A B]|A]; split; auto. apply Hge in A. lia.
    - intros [[A|A] B]; auto. }
  rewrite (spec_append_some (Spec S1 (Some (to, H))) to H ns Hne eq_refl). cbn [sS]. rewrite ES.
  set (S3 := cutS S2 T to).
  assert (SI3 : forall m, m ∈ S3 -> inr m) by (intros m Hm; apply in_cutS in Hm; [apply SI2; tauto|lia]).
  assert (Sub : S3 ⊆ S2) by (intros m Hm; apply in_cutS in Hm; [tauto|lia]).
  pose proof (subseteq_size _ _ Sub) as Hsz.
  f_equal. f_equal. f_equal.
  - apply run_down_stop. rewrite sub64_1 by lia. intros Hm. apply in_cutS in Hm; lia.
  - unfold H2. rewrite (run_up_above U S2 S3 Ub SI2 (Datatypes.S (size S2)) H HH2).
    + apply (run_up_fuel U Ub S3 SI3); auto; lia.
    + intros k Hk. unfold S3. rewrite in_cutS by lia. split; [intros; split; auto; lia|tauto].
Qed.

(** ** one batch flushed on its own, above the tail of an initialised store *)
Lemma ensure_init_set s hs : headp s <> None -> tailp s <> None -> ensure_init s hs = s.
Proof.
  intros Hh Ht. destruct hs as [|h0 hs]; [reflexivity|]. unfold ensure_init.
  destruct (headp s); [|contradiction]. destruct (tailp s); [|contradiction]. reflexivity.
Qed.

Lemma recede_tail_stop s Tl : minv s -> pstored s -> tailp s = Some (c Tl) -> inr Tl ->
  ~ stored s (Tl - 1) -> recede_tail s = s.
Proof.
  intros M P Htl HT Hn. unfold recede_tail. rewrite Htl. unfold fuel_of. cbn [next_tail].
  rewrite c_height by auto. destruct HT. rewrite sub64_1 by lia.
  rewrite (nb_not_stored s (Tl - 1) M P Hn). reflexivity.
Qed.

Lemma batch_facts v0 sp Tl H0 ns : pinv v0 sp -> sHT sp = Some (Tl, H0) ->
  Forall inr ns -> (forall n, In n ns -> Tl <= n) ->
  let hs := map c ns in
  let s1 := pend_add v0 hs in
  let s3 := advance_head s1 in
  let S' := sS sp ∪ list_to_set ns in
  let H' := run_up (Datatypes.S (size S')) S' H0 in
  ensure_init s1 hs = s1 /\ recede_tail s3 = s3 /\
  minv s1 /\ minv s3 /\ (forall n, n ∈ S' <-> stored s1 n) /\ same_maps s1 s3 /\ same_dptrs s1 s3 /\
  headp s1 = Some (c H0) /\ hsh s1 = H0 /\ tailp s1 = Some (c Tl) /\
  headp s3 = Some (c H') /\ hsh s3 = H' /\ tailp s3 = Some (c Tl) /\
  H0 <= H' /\ inr H' /\ inr Tl /\ Tl <= H0 /\ (forall k, Tl <= k <= H' -> k ∈ S') /\ H' + 1 ∉ S' /\ Tl - 1 ∉ S'.
Proof.
  intros I E F Hge hs s1 s3 S' H'.
  destruct (inv_TH v0 sp Tl H0 I E) as (HT & HH & Hle).
  pose proof I as [M HS P]. unfold ptrs_core in P. rewrite E in P.
  destruct P as (P1 & P2 & P3 & P4 & P5 & P6 & P7).
  destruct (pend_add_fields v0 hs) as (_ & _ & _ & _ & _ & _ & Q3 & Q4 & Q5). fold s1 in Q3, Q4, Q5.
  assert (M1 : minv s1) by (apply pend_add_minv; [exact M|apply chain_list_map; exact F]).
  assert (HS1 : forall n, n ∈ S' <-> stored s1 n).
  { intros n. unfold S', s1, hs. rewrite (pend_add_stored v0 ns n F).
    rewrite elem_of_union, elem_of_list_to_set, elem_of_list_In, HS. tauto. }
  assert (St1 : forall n, Tl <= n <= H0 -> stored s1 n).
  { intros n Hn. apply HS1. unfold S'. rewrite elem_of_union, HS. left. apply P5. lia. }
  assert (Hd1 : headp s1 = Some (c H0)) by congruence.
  assert (Tl1 : tailp s1 = Some (c Tl)) by congruence.
  assert (Hs1 : hsh s1 = H0) by congruence.
  destruct (climb_inv s1 S' Tl H0 M1 HS1 Hd1 Tl1 Hs1 Hle St1) as (K1 & K2 & K3 & K4 & K5 & K6 & K7 & K8 & K9).
  fold H' in K3, K5, K6, K7, K8.
  assert (SI : forall m, m ∈ S' -> inr m) by (intros m Hm; apply HS1 in Hm; eapply stored_inr; eauto).
  assert (NB : Tl - 1 ∉ S').
  { unfold S'. rewrite elem_of_union, elem_of_list_to_set, elem_of_list_In, HS.
    intros [Hs|Hs]; auto. apply Hge in Hs. destruct HT. lia. }
  assert (ET : run_down (Datatypes.S (size S')) S' Tl = Tl).
  { apply run_down_stop. destruct HT. rewrite sub64_1 by lia. exact NB. }
  rewrite ET in *.
  destruct (advance_head_frame s1) as (F1 & F2 & F3). fold s3 in F1, F2, F3.
  assert (PS1 : pstored s1).
  { intros h [Eh|Eh]; rewrite ?Hd1, ?Tl1 in Eh; injection Eh as <-; eexists; split; eauto; apply St1; lia. }
  destruct (advance_head_spec s1 S' H0 M1 PS1 HS1 Hd1 Hs1 HH) as [B1 B2]. fold s3 H' in B1, B2.
  assert (M3 : minv s3) by (eapply minv_ext; eauto).
  assert (HS3 : forall n, stored s3 n <-> stored s1 n) by (intros n; apply (same_maps_stored s1 s3 n F1)).
  destruct (run_up_spec U Ub S' SI (Datatypes.S (size S')) H0) as (A1 & A2 & A3 & _); [destruct HH; auto|].
  fold H' in A1, A2, A3.
  assert (HH' : inr H') by (destruct HH; split; lia).
  assert (Tl3 : tailp s3 = Some (c Tl)) by congruence.
  assert (PS3 : pstored s3).
  { intros h [Eh|Eh]; rewrite ?B1, ?Tl3 in Eh; injection Eh as <-; eexists; split; eauto; apply HS3, K7; lia. }
  assert (R3 : recede_tail s3 = s3).
  { apply (recede_tail_stop s3 Tl); auto. rewrite HS3, <- HS1. exact NB. }
  split_and!; auto.
  - apply ensure_init_set; congruence.
  - intros k Hk. apply HS1, K7. lia.
  - rewrite HS1. exact K8.
Qed.

End chain.

(** ** generic map lemmas *)
Section ins_more.
Context {A V : Type} (k : A -> N) (v : A -> V).
Lemma ins_all_other l : forall (m : gmap N V) i, (forall y, In y l -> k y <> i) -> ins_all k v l m !! i = m !! i.
Proof.
  induction l as [|x l IH]; intros m i Hn; [reflexivity|]. cbn [ins_all fold_left].
  change (fold_left (fun m x => <[k x := v x]> m) l (<[k x := v x]> m)) with (ins_all k v l (<[k x := v x]> m)).
  rewrite IH by (intros y Hy; apply Hn; right; auto).
  apply lookup_insert_ne. apply Hn. left; auto.
Qed.
Lemma ins_all_ext l : forall (m1 m2 : gmap N V) i, m1 !! i = m2 !! i -> ins_all k v l m1 !! i = ins_all k v l m2 !! i.
Proof.
  induction l as [|x l IH]; intros m1 m2 i E; [exact E|]. cbn [ins_all fold_left].
  change (fold_left (fun m x => <[k x := v x]> m) l (<[k x := v x]> m1)) with (ins_all k v l (<[k x := v x]> m1)).
  change (fold_left (fun m x => <[k x := v x]> m) l (<[k x := v x]> m2)) with (ins_all k v l (<[k x := v x]> m2)).
  apply IH. destruct (N.eq_dec (k x) i) as [->|Hne]; [rewrite !lookup_insert; auto|].
  rewrite !lookup_insert_ne; auto.
Qed.
End ins_more.

(** pointer writes only *)
Definition ptr_op (w : w1) : Prop :=
  match w with WPutHead _ | WPutTail _ | WDelHead | WDelTail => True | _ => False end.

Lemma fold_ptr_disk w : Forall ptr_op w -> forall s,
  d_hdr (fold_left apply1 w s) = d_hdr s /\ d_idx (fold_left apply1 w s) = d_idx s.
Proof.
  induction 1 as [|o w Ho Hw IH]; intros s; [auto|]. cbn [fold_left].
  destruct (IH (apply1 s o)) as [-> ->]. destruct o; cbn in Ho; try contradiction; auto.
Qed.

(** the shape of a flush commit: the headers of [l], pointers, the index of [l] *)
Definition cshape (l : list hdr) (ops : wop) : Prop :=
  exists P, Forall ptr_op P /\ ops = putH_ops l ++ P ++ putI_ops l.

Lemma commit_ops_cshape s : cshape (pend_list s) (commit_ops s).
Proof.
  unfold commit_ops, cshape.
  exists (match headp s with Some hd => [WPutHead (h_id hd)] | None => [] end
          ++ match tailp s with Some tl => [WPutTail (h_id tl)] | None => [] end).
  split.
  - apply Forall_app. split; [destruct (headp s)|destruct (tailp s)]; repeat constructor.
  - unfold putH_ops, putI_ops. rewrite <- !app_assoc. reflexivity.
Qed.

Lemma write_cshape s l ops : cshape l ops ->
  d_hdr (write s ops) = ins_all h_id (fun h => h) l (d_hdr s) /\
  d_idx (write s ops) = ins_all h_height h_id l (d_idx s).
Proof.
  intros (P & HP & ->). destruct (write_disk s (putH_ops l ++ P ++ putI_ops l)) as (-> & -> & _).
  rewrite !fold_left_app.
  destruct (fold_putH l s) as (A1 & A2 & _).
  destruct (fold_ptr_disk P HP (fold_left apply1 (putH_ops l) s)) as (B1 & B2).
  destruct (fold_putI l (fold_left apply1 P (fold_left apply1 (putH_ops l) s))) as (C1 & C2 & _).
  rewrite C1, C2, B1, B2, A1, A2. auto.
Qed.

Lemma st_eta s : St (d_hdr s) (d_idx s) (d_head s) (d_tail s) (wlog s) (pend_h s) (pend_i s) (headp s) (tailp s) (hsh s) (batch s) = s.
Proof. destruct s; reflexivity. Qed.

Lemma advance_head_batch s : batch (advance_head s) = batch s.
Proof.
  unfold advance_head. destruct (headp s) as [cur|]; auto. destruct (next_head _ _ _ _) as [h ch]. destruct ch; auto.
Qed.
Lemma recede_tail_batch s : batch (recede_tail s) = batch s.
Proof.
  unfold recede_tail. destruct (tailp s) as [cur|]; auto. destruct (next_tail _ _ _ _) as [h ch]. destruct ch; auto.
Qed.

(** ** the simulation: [x] is the real state of the race, [v] the state of the flush goroutine
    running on its own after the whole deletion; they differ in the range being deleted, in the
    tail pointer, and in what is persisted of the pointers *)
Section race.
Context {c : N -> hdr} {U : N} {CH : chain_hyps c U}.
Notation inr := (inr U).
Notation minv := (minv c U).
Notation pchain := (pchain c U).
Notation pstored := (pstored c).
Notation pinv := (pinv c U).
Notation inv := (inv c U).
Variables (T to : N).
Hypothesis HT : inr T.
Hypothesis Hto : inr to.
Hypothesis Hlt : T < to.

Let Ub := @ch_bound c U CH.
Let c_height := @ch_height c U CH.
Let c_inj := @ch_inj c U CH.

Definition low (n : N) : Prop := T <= n < to.
Definition lowid (id : N) : Prop := exists n, low n /\ id = h_id (c n).

Lemma low_inr n : low n -> inr n.
Proof. unfold low. destruct HT, Hto. intros. split; lia. Qed.

Lemma lowid_chain n : inr n -> lowid (h_id (c n)) -> low n.
Proof.
  intros Hn (m & Hm & E). apply c_inj in E; auto using low_inr. subst m. exact Hm.
Qed.

Lemma lowid_dec id : {lowid id} + {~ lowid id}.
Proof.
  destruct (Exists_dec (fun n => id = h_id (c n)) (seqN T (N.to_nat (to - T)))) as [E|E].
  - intros n. apply N.eq_dec.
  - left. apply Exists_exists in E. destruct E as (n & Hn & ->). apply in_seqN in Hn.
    exists n. split; auto. unfold low. lia.
  - right. intros (n & Hn & ->). apply E. apply Exists_exists. exists n. split; auto.
    apply in_seqN. unfold low in Hn. lia.
Qed.

Record sim (x v : st) : Prop := {
  sm_ph : pend_h x = pend_h v;
  sm_pi : pend_i x = pend_i v;
  sm_hd : headp x = headp v;
  sm_hs : hsh x = hsh v;
  sm_b : batch x = batch v;
  sm_tl : tailp x = Some (c T) \/ tailp x = Some (c to);
  sm_di : forall n, ~ low n -> d_idx x !! n = d_idx v !! n;
  sm_dl : forall n, low n -> d_idx x !! n = None \/ d_idx x !! n = Some (h_id (c n));
  sm_dh : forall id, ~ lowid id -> d_hdr x !! id = d_hdr v !! id
}.

(** what the flush goroutine's own state looks like after the deletion *)
Record hi (v : st) : Prop := {
  hi_m : minv v;
  hi_tl : tailp v = Some (c to);
  hi_hd : exists H, headp v = Some (c H) /\ hsh v = H /\ to <= H /\ inr H /\ forall n, to <= n <= H -> stored v n;
  hi_low : forall n, T - 1 <= n < to -> ~ stored v n;
  hi_pend : forall n, is_Some (pend_h v !! n) -> to < n
}.

Lemma hi_pstored v : hi v -> pstored v.
Proof.
  intros [M Tl (H & Hd & _ & Hle & HH & St) _ _]. intros h [E|E]; rewrite ?Hd, ?Tl in E; injection E as <-;
    eexists; split; eauto; apply St; lia.
Qed.

Lemma sim_get x v id : sim x v -> ~ lowid id -> get x id = get v id.
Proof. intros S Hn. unfold get. rewrite (sm_pi _ _ S), (sm_ph _ _ S), (sm_dh _ _ S id Hn). reflexivity. Qed.

Lemma hi_idx_id v n id : hi v -> d_idx v !! n = Some id -> id = h_id (c n) /\ inr n /\ ~ low n /\ ~ lowid id.
Proof.
  intros Hv E. destruct (mi_di v (hi_m _ Hv) _ _ E) as (Hn & -> & _).
  assert (Hnl : ~ low n).
  { intros Hl. apply (hi_low _ Hv n); [unfold low in Hl; lia|]. right; eauto. }
  split_and!; auto. intros Hl. apply Hnl. apply lowid_chain; auto.
Qed.

Lemma sim_nb_hi x v m : sim x v -> hi v -> to < m -> nb x m = nb v m.
Proof.
  intros S Hv Hm. unfold nb. rewrite (sm_hd _ _ S). destruct (has_height (headp v) m); [reflexivity|].
  assert (E1 : has_height (tailp x) m = false).
  { destruct (sm_tl _ _ S) as [->| ->]; cbn; rewrite c_height by auto; lia. }
  assert (E2 : has_height (tailp v) m = false).
  { rewrite (hi_tl _ Hv). cbn. rewrite c_height by auto. lia. }
  rewrite E1, E2, (sm_ph _ _ S). destruct (pend_h v !! m); [reflexivity|].
  rewrite (sm_di _ _ S m) by (unfold low; lia).
  destruct (d_idx v !! m) as [id|] eqn:E; [|reflexivity].
  apply sim_get; auto. eapply hi_idx_id; eauto.
Qed.

Lemma sim_stored x v n : sim x v -> ~ low n -> (stored x n <-> stored v n).
Proof. intros S Hn. unfold stored. rewrite (sm_ph _ _ S), (sm_di _ _ S n Hn). tauto. Qed.

Lemma sim_get_stored x v n : sim x v -> hi v -> to <= n -> stored v n -> get x (h_id (c n)) = Found (c n).
Proof.
  intros S Hv Hn Hs. pose proof (stored_inr v n (hi_m _ Hv) Hs) as Hi.
  rewrite (sim_get x v); auto; [apply get_stored; auto; apply Hv|].
  intros Hl. apply lowid_chain in Hl; auto. unfold low in Hl. lia.
Qed.

Lemma sim_nb_stored x v n : sim x v -> hi v -> to <= n -> stored v n -> nb x n = Found (c n).
Proof.
  intros S Hv Hn Hs. pose proof (hi_pstored v Hv) as PS.
  destruct (N.eq_dec n to) as [->|Hne].
  2: { rewrite (sim_nb_hi x v n S Hv) by lia. apply nb_stored; [apply Hv|apply pstored_pchain; [apply Hv|exact PS]|exact Hs]. }
  destruct (hi_hd _ Hv) as (H & Hd & _ & Hle & HH & St).
  unfold nb. rewrite (sm_hd _ _ S), Hd. cbn [has_height]. rewrite c_height by auto.
  destruct (N.eqb_spec H to) as [->|HHne]; [reflexivity|].
  destruct (sm_tl _ _ S) as [Et|Et]; rewrite Et; cbn [has_height]; rewrite c_height by auto.
  2: { rewrite N.eqb_refl. reflexivity. }
  replace (T =? to) with false by lia.
  rewrite (sm_ph _ _ S).
  destruct (pend_h v !! to) as [h|] eqn:Ep.
  { exfalso. assert (to < to); [|lia]. apply (hi_pend _ Hv). eauto. }
  rewrite (sm_di _ _ S to) by (unfold low; lia).
  destruct Hs as [[h Hs]|[id Hs]]; [congruence|]. rewrite Hs.
  destruct (hi_idx_id v to id Hv Hs) as (-> & _). apply (sim_get_stored x v to); auto; try lia; right; eauto.
Qed.

Lemma sim_read x v n : sim x v -> hi v -> to <= n -> stored v n ->
  get_by_height x n = Found (c n) /\ get x (h_id (c n)) = Found (c n).
Proof.
  intros S Hv Hn Hs. split; [|eapply sim_get_stored; eauto].
  unfold get_by_height. destruct Hto. replace (n =? 0) with false by lia.
  rewrite (sim_nb_stored x v n); auto.
Qed.

(** advanceHead reads above the head only *)
Lemma next_head_sim x v : sim x v -> hi v -> forall f H ch, inr H -> to <= H ->
  next_head f x (c H) ch = next_head f v (c H) ch.
Proof.
  intros S Hv. induction f as [|f IH]; intros H ch HH Hle; [reflexivity|]. cbn [next_head].
  rewrite c_height by auto. destruct HH as [HH1 HH2]. rewrite wrap64_small by lia.
  rewrite (sim_nb_hi x v (H + 1) S Hv) by lia.
  destruct (nb v (H + 1)) as [h| | |] eqn:E; try reflexivity.
  apply nb_found_inv in E; [|apply Hv|apply pstored_pchain; [apply Hv|apply hi_pstored; auto]].
  destruct E as (Hi & -> & _). apply IH; auto. lia.
Qed.

Lemma idx_size_le x v : sim x v -> hi v -> (size (d_idx v) <= size (d_idx x))%nat.
Proof.
  intros S Hv. rewrite <- !(size_dom (D := gset N)). apply subseteq_size.
  intros n Hn. apply elem_of_dom in Hn. apply elem_of_dom. destruct Hn as [id Hn].
  destruct (hi_idx_id v n id Hv Hn) as (_ & _ & Hnl & _). rewrite (sm_di _ _ S n Hnl). eauto.
Qed.

Lemma advance_head_sim x v (S : gset N) : sim x v -> hi v -> (forall n, n ∈ S <-> stored v n) ->
  headp (advance_head x) = headp (advance_head v) /\ hsh (advance_head x) = hsh (advance_head v).
Proof.
  intros Sm Hv HS. destruct (hi_hd _ Hv) as (H & Hd & Hh & Hle & HH & St).
  pose proof (hi_pstored v Hv) as PS. pose proof (hi_m _ Hv) as M.
  assert (SI : forall n, n ∈ S -> inr n) by (intros n Hn; apply HS in Hn; eapply stored_inr; eauto).
  unfold advance_head. rewrite (sm_hd _ _ Sm), Hd.
  rewrite (next_head_sim x v Sm Hv (fuel_of x) H false HH Hle).
  rewrite !(next_head_run v S M PS HS) by auto.
  pose proof (fuel_of_enough v S HS) as Fv.
  assert (Fx : (size S < fuel_of x)%nat).
  { pose proof (idx_size_le x v Sm Hv). unfold fuel_of in *. rewrite (sm_ph _ _ Sm). lia. }
  rewrite (run_up_fuel U Ub S SI (fuel_of x) (fuel_of v) H) by (destruct HH; auto).
  destruct (_ || _); cbn; rewrite ?(sm_hd _ _ Sm), ?(sm_hs _ _ Sm); auto.
Qed.

(** recedeTail of the racing state finds nothing below its tail *)
Lemma recede_tail_x x v : sim x v -> hi v ->
  (tailp x = Some (c to) -> d_idx x !! (to - 1) = None) -> recede_tail x = x.
Proof.
  intros S Hv Hg. destruct (hi_hd _ Hv) as (H & Hd & Hh & Hle & HH & St).
  pose proof HT as [HT1 HT2]. pose proof Hto as [Hto1 Hto2].
  assert (forall T', (T' = T \/ T' = to) -> tailp x = Some (c T') -> d_idx x !! (T' - 1) = None -> recede_tail x = x) as K.
  { intros T' HT' Et Ei. assert (Hi : inr T') by (destruct HT'; subst; auto).
    unfold recede_tail. rewrite Et. unfold fuel_of. cbn [next_tail]. rewrite c_height by auto.
    destruct Hi as [Hi1 Hi2]. rewrite sub64_1 by lia.
    assert (En : nb x (T' - 1) = NotFound); [|rewrite En; reflexivity].
    unfold nb. rewrite (sm_hd _ _ S), Hd, Et. cbn [has_height]. rewrite !c_height by (auto; split; auto).
    replace (H =? T' - 1) with false by (destruct HT'; subst; lia).
    replace (T' =? T' - 1) with false by lia.
    rewrite (sm_ph _ _ S). destruct (pend_h v !! (T' - 1)) as [h|] eqn:Ep.
    { exfalso. assert (to < T' - 1) by (apply (hi_pend _ Hv); eauto). destruct HT'; subst; lia. }
    rewrite Ei. reflexivity. }
  destruct (sm_tl _ _ S) as [Et|Et].
  - apply (K T); auto. rewrite (sm_di _ _ S) by (unfold low; lia).
    destruct (d_idx v !! (T - 1)) eqn:E; auto. exfalso. apply (hi_low _ Hv (T - 1)); [lia|]. right; eauto.
  - apply (K to); auto.
Qed.

(** a state that differs from [x] in fields the relation does not look at *)
Lemma sim_same x x' v : same_maps x x' -> headp x' = headp x -> tailp x' = tailp x -> hsh x' = hsh x ->
  batch x' = batch x -> sim x v -> sim x' v.
Proof.
  intros (E1 & E2 & E3 & E4) E5 E6 E7 E8 [A B C D E F G H I].
  split; rewrite ?E1, ?E2, ?E3, ?E4, ?E5, ?E6, ?E7, ?E8; auto.
Qed.


(** *** the steps of the flush goroutine preserve the relation *)
Lemma sim_pend_add x v hs : sim x v -> sim (pend_add x hs) (pend_add v hs).
Proof.
  intros [A B C D E F G H I].
  destruct (pend_add_fields x hs) as (X1 & X2 & X3 & X4 & _ & _ & X5 & X6 & X7).
  destruct (pend_add_fields v hs) as (V1 & V2 & V3 & V4 & _ & _ & V5 & V6 & V7).
  split; rewrite ?X1, ?X2, ?X3, ?X4, ?X5, ?X6, ?X7, ?V1, ?V2, ?V3, ?V4, ?V5, ?V6, ?V7; auto; congruence.
Qed.

Lemma sim_ensure_init x v hs : sim x v -> hi v -> ensure_init x hs = x.
Proof.
  intros S Hv. destruct (hi_hd _ Hv) as (H & Hd & _). apply ensure_init_set.
  - rewrite (sm_hd _ _ S), Hd. discriminate.
  - destruct (sm_tl _ _ S) as [-> | ->]; discriminate.
Qed.

Lemma sim_advance_head x v (S : gset N) : sim x v -> hi v -> (forall n, n ∈ S <-> stored v n) ->
  sim (advance_head x) (advance_head v).
Proof.
  intros Sm Hv HS. destruct (advance_head_sim x v S Sm Hv HS) as [E1 E2].
  destruct (advance_head_frame x) as ((X1 & X2 & X3 & X4) & _ & X5).
  destruct (advance_head_frame v) as ((V1 & V2 & V3 & V4) & _ & V5).
  destruct Sm as [A B C D E F G H I].
  split; rewrite ?X1, ?X2, ?X3, ?X4, ?X5, ?V1, ?V2, ?V3, ?V4, ?V5, ?advance_head_batch; auto.
Qed.

(** the headers of a pending batch of [v] are chain headers above [to] *)
Definition hi_list (l : list hdr) : Prop := forall h, In h l -> exists n, h = c n /\ inr n /\ to < n.

Lemma hi_pend_list v : hi v -> hi_list (pend_list v).
Proof.
  intros Hv h Hh. apply in_pend_list in Hh. destruct Hh as (n & Hn).
  destruct (mi_ph v (hi_m _ Hv) _ _ Hn) as [Hi ->]. exists n. split_and!; auto. apply (hi_pend _ Hv). eauto.
Qed.

Lemma hi_list_idx l m n : hi_list l -> n <= to -> ins_all h_height h_id l m !! n = m !! n.
Proof.
  intros Hl Hn. apply ins_all_other. intros y Hy. destruct (Hl y Hy) as (k & -> & Hk & Hgt).
  rewrite c_height by auto. lia.
Qed.

Lemma hi_list_hdr l (m : gmap N hdr) n : hi_list l -> inr n -> n <= to ->
  ins_all h_id (fun h => h) l m !! h_id (c n) = m !! h_id (c n).
Proof.
  intros Hl Hi Hn. apply ins_all_other. intros y Hy. destruct (Hl y Hy) as (k & -> & Hk & Hgt).
  intros E. apply c_inj in E; auto. lia.
Qed.

(** a flush commit (built from an earlier load) does not touch the range being deleted *)
Lemma write_cshape_low x l ops : cshape l ops -> hi_list l -> forall n, low n ->
  d_idx (write x ops) !! n = d_idx x !! n /\ d_hdr (write x ops) !! h_id (c n) = d_hdr x !! h_id (c n).
Proof.
  intros Hc Hl n Hn. destruct (write_cshape x l ops Hc) as [-> ->]. unfold low in Hn. split.
  - apply hi_list_idx; auto. lia.
  - apply hi_list_hdr; auto. apply low_inr; auto. lia.
Qed.

Lemma sim_write_commit x v ops : sim x v -> hi v -> cshape (pend_list v) ops ->
  sim (write x ops) (write v (commit_ops v)).
Proof.
  intros S Hv Hc. pose proof (hi_pend_list v Hv) as Hl.
  destruct (write_cshape x _ ops Hc) as [X1 X2].
  destruct (write_cshape v _ _ (commit_ops_cshape v)) as [V1 V2].
  destruct (write_frame x ops) as (X3 & X4 & X5 & X6 & X7 & X8).
  destruct (write_frame v (commit_ops v)) as (V3 & V4 & V5 & V6 & V7 & V8).
  destruct S as [A B C D E F G H I].
  split; rewrite ?X1, ?X2, ?X3, ?X4, ?X5, ?X6, ?X7, ?X8, ?V1, ?V2, ?V3, ?V4, ?V5, ?V6, ?V7, ?V8; auto.
  - intros n Hn. apply ins_all_ext. auto.
  - intros n Hn. rewrite hi_list_idx; auto. unfold low in Hn. lia.
  - intros id Hn. apply ins_all_ext. auto.
Qed.

Lemma sim_reset x v : sim x v -> sim (set_pend x ∅ ∅) (set_pend v ∅ ∅).
Proof. intros [A B C D E F G H I]. split; cbn; auto. Qed.

(** *** the steps of the deleter preserve the relation *)
Definition low_del (w : w1) : Prop :=
  match w with WDelH id => lowid id | WDelI n => low n | _ => False end.

Lemma fold_low_del w : Forall low_del w -> forall s,
  let s' := fold_left apply1 w s in
  (forall n, ~ low n -> d_idx s' !! n = d_idx s !! n) /\
  (forall n, low n -> d_idx s' !! n = d_idx s !! n \/ d_idx s' !! n = None) /\
  (forall id, ~ lowid id -> d_hdr s' !! id = d_hdr s !! id).
Proof.
  induction 1 as [|o w Ho Hw IH]; intros s; cbn [fold_left]; [auto|].
  destruct (IH (apply1 s o)) as (A & B & C). destruct o; cbn in Ho; try contradiction; cbn [apply1] in *.
  - split_and!; auto. intros id' Hn. rewrite C by auto. cbn. apply lookup_delete_ne. intros ->. auto.
  - split_and!.
    + intros n' Hn. rewrite A by auto. cbn. apply lookup_delete_ne. intros ->. auto.
    + intros n' Hn. destruct (B n' Hn) as [E|E]; auto. rewrite E. cbn.
      destruct (N.eq_dec n n') as [->|Hne]; [right; apply lookup_delete|left; apply lookup_delete_ne; auto].
    + auto.
Qed.

Lemma sim_write_del x v w : Forall low_del w -> sim x v -> sim (write x w) v.
Proof.
  intros Hw [A B C D E F G H I]. destruct (fold_low_del w Hw x) as (K1 & K2 & K3).
  destruct (write_frame x w) as (X3 & X4 & X5 & X6 & X7 & X8).
  destruct (write_disk x w) as (X1 & X2 & _).
  split; rewrite ?X1, ?X2, ?X3, ?X4, ?X5, ?X6, ?X7, ?X8; auto.
  - intros n Hn. rewrite K1; auto.
  - intros n Hn. destruct (K2 n Hn) as [-> | ->]; auto.
  - intros id Hn. rewrite K3; auto.
Qed.

Lemma sim_write_ptr x v w : Forall ptr_op w -> sim x v -> sim (write x w) v.
Proof.
  intros Hw. destruct (fold_ptr_disk w Hw x) as [K1 K2].
  destruct (write_frame x w) as (X3 & X4 & X5 & X6 & X7 & X8).
  destruct (write_disk x w) as (X1 & X2 & _).
  apply sim_same; auto. unfold same_maps. rewrite X1, X2, K1, K2. auto.
Qed.

Lemma sim_pend_del x v n : sim x v -> hi v -> low n -> pend_del x n = x.
Proof.
  intros S Hv Hn. unfold pend_del.
  assert (E1 : delete n (pend_h x) = pend_h x).
  { apply delete_notin. rewrite (sm_ph _ _ S). destruct (pend_h v !! n) eqn:E; auto.
    exfalso. assert (to < n) by (apply (hi_pend _ Hv); eauto). unfold low in Hn. lia. }
  assert (E2 : base.filter (fun p : N * N => snd p <> n) (pend_i x) = pend_i x).
  { apply map_filter_id. intros id m Hm. cbn. rewrite (sm_pi _ _ S) in Hm.
    destruct (mi_pi1 v (hi_m _ Hv) _ _ Hm) as [_ Hp].
    assert (to < m) by (apply (hi_pend _ Hv); eauto). unfold low in Hn. lia. }
  rewrite E1, E2. unfold set_pend. apply st_eta.
Qed.

Lemma sim_set_tailp x v : sim x v -> sim (set_tailp x (Some (c to))) v.
Proof. intros [A B C D E F G H I]. split; cbn; auto. Qed.

End race.
