From GH Require Import Base.Prelude Model.Verify.

Section verify.
Variables (now drift : Z) (tv : hdr -> hdr -> tvres).

(** the six conditions the statement of C01 lists *)
Definition mand_ok (t u : hdr) : Prop :=
  h_nil t = false /\ h_nil u = false /\ h_chain u = h_chain t /\ h_height t < h_height u /\
  (h_time t <= h_time u)%Z /\ (h_time u <= now + drift)%Z.

Lemma verify_mand_none_iff t u : verify_mand now drift t u = None <-> mand_ok t u.
Proof.
  unfold verify_mand, mand_ok.
  destruct (h_nil t) eqn:Ht; [split; [discriminate | intros (?&_); discriminate]|].
  destruct (h_nil u) eqn:Hu; [split; [discriminate | intros (_&?&_); discriminate]|].
  destruct (N.eqb_spec (h_chain u) (h_chain t)) as [Hc|Hc]; cbn [negb];
    [|split; [discriminate | intros (_&_&?&_); contradiction]].
  destruct (N.leb_spec (h_height u) (h_height t)) as [Hh|Hh];
    [split; [discriminate | intros (_&_&_&?&_); lia]|].
  destruct (Z.ltb_spec (h_time u) (h_time t)) as [Ht1|Ht1];
    [split; [discriminate | intros (_&_&_&_&?&_); lia]|].
  destruct (Z.ltb_spec (now + drift) (h_time u)) as [Ht2|Ht2];
    [split; [discriminate | intros (_&_&_&_&_&?); lia]|].
  split; [intros _; repeat split; auto; lia | reflexivity].
Qed.

(** which condition a sentinel stands for, with all earlier ones passing *)
Definition sentinel_matches (s : sentinel) (t u : hdr) : Prop :=
  match s with
  | EZero => h_nil t = true \/ h_nil u = true
  | EWrongChain => h_nil t = false /\ h_nil u = false /\ h_chain u <> h_chain t
  | EKnown => h_nil t = false /\ h_nil u = false /\ h_chain u = h_chain t /\ h_height u <= h_height t
  | EUnordered => h_nil t = false /\ h_nil u = false /\ h_chain u = h_chain t /\
                  h_height t < h_height u /\ (h_time u < h_time t)%Z
  | EFuture => h_nil t = false /\ h_nil u = false /\ h_chain u = h_chain t /\
               h_height t < h_height u /\ (h_time t <= h_time u)%Z /\ (now + drift < h_time u)%Z
  end.

Lemma verify_mand_some t u s : verify_mand now drift t u = Some s -> sentinel_matches s t u.
Proof.
  unfold verify_mand.
  destruct (h_nil t) eqn:Ht; [intros [= <-]; cbn; auto|].
  destruct (h_nil u) eqn:Hu; [intros [= <-]; cbn; auto|].
  destruct (N.eqb_spec (h_chain u) (h_chain t)) as [Hc|Hc]; cbn [negb];
    [|intros [= <-]; cbn; auto].
  destruct (N.leb_spec (h_height u) (h_height t)) as [Hh|Hh]; [intros [= <-]; cbn; auto|].
  destruct (Z.ltb_spec (h_time u) (h_time t)) as [Ht1|Ht1]; [intros [= <-]; cbn; repeat split; auto|].
  destruct (Z.ltb_spec (now + drift) (h_time u)) as [Ht2|Ht2]; [intros [= <-]; cbn; repeat split; auto|].
  discriminate.
Qed.

Theorem accept_iff t u :
  Verify now drift tv t u = None <-> (mand_ok t u /\ tv t u = TVOk).
Proof.
  unfold Verify. destruct (verify_mand now drift t u) eqn:Hm.
  - split; [discriminate|]. intros [Hok _]. apply verify_mand_none_iff in Hok. congruence.
  - apply verify_mand_none_iff in Hm.
    destruct (tv t u); split; try discriminate; try (intros [_ ?]; discriminate); auto.
Qed.

Definition tv_err_id (r : tvres) : option N :=
  match r with TVOk => None | TVPlain e | TVVerr _ e | TVWrapped _ e => Some e end.
Definition tv_soft (r : tvres) : bool :=
  match r with TVVerr s _ | TVWrapped s _ => s | _ => false end.

Theorem reject_reason t u e :
  Verify now drift tv t u = Some e ->
  (exists s, ve_reason e = RSent s /\ ve_soft e = false /\ sentinel_matches s t u) \/
  (exists id, ve_reason e = RType id /\ mand_ok t u /\ tv_err_id (tv t u) = Some id).
Proof.
  unfold Verify. destruct (verify_mand now drift t u) eqn:Hm.
  - intros [= <-]. left. eexists; repeat split; eauto using verify_mand_some.
  - apply verify_mand_none_iff in Hm.
    destruct (tv t u) eqn:Htv; [discriminate| | |]; intros [= <-]; right; eexists; cbn; eauto.
Qed.

Theorem soft_iff t u e :
  Verify now drift tv t u = Some e ->
  (ve_soft e = true <->
   mand_ok t u /\ tv t u <> TVOk /\ (adjacent t u = false \/ tv_soft (tv t u) = true)).
Proof.
  unfold Verify. destruct (verify_mand now drift t u) eqn:Hm.
  - intros [= <-]; cbn. split; [discriminate|].
    intros (Hok&_). apply verify_mand_none_iff in Hok. congruence.
  - apply verify_mand_none_iff in Hm.
    destruct (tv t u) eqn:Htv; [discriminate| | |]; intros [= <-]; cbn;
      destruct (adjacent t u); try destruct soft; cbn;
      (split; [intros Hs; try discriminate Hs; (split; [exact Hm | split; [discriminate | auto]])
              | intros (_&_&[Hx|Hx]); try reflexivity; discriminate Hx]).
Qed.

Theorem mandatory_never_soft t u e s :
  Verify now drift tv t u = Some e -> ve_reason e = RSent s -> ve_soft e = false.
Proof.
  unfold Verify. destruct (verify_mand now drift t u); [intros [= <-]; reflexivity|].
  destruct (tv t u); [discriminate| | |]; intros [= <-]; discriminate.
Qed.

(** ** VerifyRange *)

(** heights consecutive starting from the first element *)
Fixpoint consecutive (l : list hdr) : Prop :=
  match l with
  | a :: ((b :: _) as r) => wrap64 (h_height a + 1) = h_height b /\ consecutive r
  | _ => True
  end.

(** each element verifies against its predecessor ([t] for the first) *)
Fixpoint chain_verified (t : hdr) (l : list hdr) : Prop :=
  match l with
  | [] => True
  | u :: r => Verify now drift tv t u = None /\ chain_verified u r
  end.

Definition is_prefix (p l : list hdr) : Prop := exists s, l = p ++ s.

(** "the element [u] (with predecessor [t], at position first / later) is bad" *)
Definition bad_at (first : bool) (t u : hdr) : Prop :=
  Verify now drift tv t u <> None \/ (first = false /\ wrap64 (h_height t + 1) <> h_height u).

Lemma last_cons_default (t u : hdr) (v : list hdr) : last (u :: v) t = last v u.
Proof.
  revert t u. induction v as [|x v IH]; intros t u; [reflexivity|].
  change (last (u :: x :: v) t) with (last (x :: v) t). rewrite (IH t x), (IH u x). reflexivity.
Qed.

Lemma loop_spec first t l :
  let '(v, e) := verify_range_loop now drift tv first t l in
  is_prefix v l /\ chain_verified t v /\ consecutive v /\
  (first = false -> match v with a :: _ => wrap64 (h_height t + 1) = h_height a | [] => True end) /\
  (e = None <-> v = l) /\
  (e <> None -> exists u s, l = v ++ u :: s /\ bad_at (first && match v with [] => true | _ => false end)
                                              (last v t) u).
Proof.
  revert first t. induction l as [|u r IH]; intros first t; cbn [verify_range_loop].
  - repeat split; cbn; auto; try (exists []; reflexivity). congruence.
  - destruct (Verify now drift tv t u) eqn:Hv.
    + repeat split; cbn; auto; try (exists (u :: r); reflexivity); try discriminate.
      intros _. exists u, r. split; [reflexivity|]. left. cbn. congruence.
    + destruct (negb first && negb (wrap64 (h_height t + 1) =? h_height u)) eqn:Hadj.
      * repeat split; cbn; auto; try (exists (u :: r); reflexivity); try discriminate.
        intros _. exists u, r. split; [reflexivity|]. right.
        apply andb_prop in Hadj as [Hf Ha]. destruct first; [discriminate|]. cbn.
        split; [reflexivity|]. apply negb_true_iff in Ha. apply N.eqb_neq in Ha. exact Ha.
      * specialize (IH false u).
        destruct (verify_range_loop now drift tv false u r) as [v e].
        destruct IH as (Hp & Hc & Hcons & Hfirst & Hnone & Hsome).
        split; [|split; [|split; [|split; [|split; [split|]]]]].
        -- destruct Hp as [s ->]. exists s. reflexivity.
        -- cbn. auto.
        -- cbn. destruct v as [|b v']; [exact I|]. split; [apply Hfirst; reflexivity | exact Hcons].
        -- intros ->. cbn in Hadj. apply negb_false_iff in Hadj. apply N.eqb_eq in Hadj. exact Hadj.
        -- intros He. f_equal. apply Hnone. exact He.
        -- intros [= ->]. apply Hnone. reflexivity.
        -- intros He. destruct (Hsome He) as (u' & s & -> & Hbad).
           exists u', s. split; [reflexivity|].
           replace (first && match u :: v with [] => true | _ => false end) with false
             by (destruct first; reflexivity).
           rewrite last_cons_default.
           destruct v; cbn in Hbad |- *; exact Hbad.
Qed.

Theorem range_prefix t l : is_prefix (fst (VerifyRange now drift tv t l)) l.
Proof.
  unfold VerifyRange. destruct l as [|u r]; [exists []; reflexivity|].
  pose proof (loop_spec true t (u :: r)) as H.
  destruct (verify_range_loop now drift tv true t (u :: r)); cbn. apply H.
Qed.

Theorem range_each_verified t l : chain_verified t (fst (VerifyRange now drift tv t l)).
Proof.
  unfold VerifyRange. destruct l as [|u r]; [exact I|].
  pose proof (loop_spec true t (u :: r)) as H.
  destruct (verify_range_loop now drift tv true t (u :: r)); cbn. apply H.
Qed.

Theorem range_consecutive t l : consecutive (fst (VerifyRange now drift tv t l)).
Proof.
  unfold VerifyRange. destruct l as [|u r]; [exact I|].
  pose proof (loop_spec true t (u :: r)) as H.
  destruct (verify_range_loop now drift tv true t (u :: r)); cbn. apply H.
Qed.

Theorem range_nil_iff_whole t l :
  snd (VerifyRange now drift tv t l) = None <-> (fst (VerifyRange now drift tv t l) = l /\ l <> []).
Proof.
  unfold VerifyRange. destruct l as [|u r]; [cbn; split; [discriminate | intros [_ ?]; congruence]|].
  pose proof (loop_spec true t (u :: r)) as H.
  destruct (verify_range_loop now drift tv true t (u :: r)) as [v e]; cbn.
  destruct H as (_&_&_&_&Hn&_). split; [intros He; split; [apply Hn; exact He | discriminate]|].
  intros [Hv _]. apply Hn. exact Hv.
Qed.

Theorem range_empty_is_error t : snd (VerifyRange now drift tv t []) <> None.
Proof. cbn. discriminate. Qed.

(** the first header that fails verification or adjacency is never part of the result:
    on error the result stops exactly before a bad element *)
Theorem range_first_bad_excluded t l :
  l <> [] -> snd (VerifyRange now drift tv t l) <> None ->
  let v := fst (VerifyRange now drift tv t l) in
  exists u s, l = v ++ u :: s /\
    bad_at (match v with [] => true | _ => false end) (last v t) u.
Proof.
  unfold VerifyRange. destruct l as [|u r]; [congruence|]. intros _.
  pose proof (loop_spec true t (u :: r)) as H.
  destruct (verify_range_loop now drift tv true t (u :: r)) as [v e]; cbn.
  destruct H as (_&_&_&_&_&Hs). intros He. destruct (Hs He) as (u'&s&Hl&Hb).
  exists u', s. split; [exact Hl|]. exact Hb.
Qed.

End verify.


(** ** Extension: Verify on a memory (Verify_x) *)
Section verify_x.
Variables (now drift : Z) (tvx_ : hdr -> hdr -> tvx).

Definition tvx_soft (h : heap) (r : tvx) : bool :=
  match r with
  | XVerr s _ | XWrapped _ s _ => s
  | XShared _ c _ => h c
  | _ => false
  end.
Definition tvx_err_id (r : tvx) : option N :=
  match r with
  | XPlain e | XVerr _ e | XWrapped _ _ e | XShared _ _ e => Some e
  | _ => None
  end.
Definition tvx_fresh (r : tvx) : Prop := match r with XShared _ _ _ => False | _ => True end.

(** every call of Verify_x is the pure Verify on the shapes as the memory shows them at that moment *)
Theorem verify_x_refines h t u :
  tvx_ t u <> XTypedNil \/ verify_mand now drift t u <> None ->
  forall tvp : hdr -> hdr -> tvres,
  (forall r, tvx_pure h (tvx_ t u) = Some r -> tvp t u = r) ->
  xres_pure (fst (Verify_x now drift tvx_ h t u)) = Some (Verify now drift tvp t u).
Proof.
  intros Hnn tvp Htv. unfold Verify_x, Verify.
  destruct (verify_mand now drift t u) as [s|]; [reflexivity|].
  destruct Hnn as [Hnn|Hnn]; [|congruence].
  destruct (tvx_ t u) as [|e|s e|w s e| |w c e]; cbn in Htv |- *.
  - rewrite (Htv _ eq_refl). reflexivity.
  - rewrite (Htv _ eq_refl). reflexivity.
  - rewrite (Htv _ eq_refl). reflexivity.
  - rewrite (Htv _ eq_refl). reflexivity.
  - congruence.
  - destruct w; rewrite (Htv _ eq_refl); destruct (adjacent t u); cbn;
      rewrite ?Bool.orb_false_r, ?Bool.orb_true_r; reflexivity.
Qed.

Theorem x_accept_iff h t u :
  fst (Verify_x now drift tvx_ h t u) = XNil <-> (mand_ok now drift t u /\ tvx_ t u = XOk).
Proof.
  unfold Verify_x. destruct (verify_mand now drift t u) eqn:Hm.
  - split; [discriminate|]. intros [Hok _]. apply verify_mand_none_iff in Hok. congruence.
  - apply verify_mand_none_iff in Hm.
    destruct (tvx_ t u); cbn; try destruct (adjacent t u); cbn;
      split; try discriminate; try (intros [_ ?]; discriminate); auto.
Qed.

(** SoftFailure, with the type's own report read from the memory AT THE TIME OF THE CALL *)
Theorem x_soft_iff h t u r s via :
  fst (Verify_x now drift tvx_ h t u) = XErr r s via ->
  (s = true <->
   mand_ok now drift t u /\ tvx_ t u <> XOk /\ (adjacent t u = false \/ tvx_soft h (tvx_ t u) = true)).
Proof.
  unfold Verify_x. destruct (verify_mand now drift t u) eqn:Hm.
  - intros [= <- <- <-]. split; [discriminate|].
    intros (Hok&_). apply verify_mand_none_iff in Hok. congruence.
  - apply verify_mand_none_iff in Hm.
    destruct (tvx_ t u) eqn:Htv; cbn; try discriminate;
      destruct (adjacent t u); cbn; try discriminate; intros [= <- <- <-]; cbn;
      try destruct soft; cbn;
      (split; [intros Hs; try discriminate Hs; (split; [exact Hm | split; [discriminate | auto]])
              | intros (_&_&[Hx|Hx]); try reflexivity; try discriminate Hx; auto]).
Qed.

(** the result never carries the wrapper: errors.As hands out the inner *VerifyError *)
Theorem x_wrapper_dropped h t u r s via :
  fst (Verify_x now drift tvx_ h t u) = XErr r s via -> via = None.
Proof.
  unfold Verify_x. destruct (verify_mand now drift t u); [intros [= <- <- <-]; reflexivity|].
  destruct (tvx_ t u); cbn; try discriminate; destruct (adjacent t u); cbn; try discriminate;
    intros [= <- <- <-]; reflexivity.
Qed.

(** ... and its reason is the inner type error *)
Theorem x_reject_reason h t u r s via :
  fst (Verify_x now drift tvx_ h t u) = XErr r s via ->
  (exists sn, r = RSent sn /\ s = false /\ sentinel_matches now drift sn t u) \/
  (exists id, r = RType id /\ mand_ok now drift t u /\ tvx_err_id (tvx_ t u) = Some id).
Proof.
  unfold Verify_x. destruct (verify_mand now drift t u) eqn:Hm.
  - intros [= <- <- <-]. left. eexists; repeat split; eauto using verify_mand_some.
  - apply verify_mand_none_iff in Hm.
    destruct (tvx_ t u); cbn; try discriminate; destruct (adjacent t u); cbn; try discriminate;
      intros [= <- <- <-]; right; eexists; cbn; eauto.
Qed.

(** the typed nil: a crash for a non-adjacent header, the nil pointer as the (non-nil) error otherwise *)
Theorem x_panic_iff h t u :
  fst (Verify_x now drift tvx_ h t u) = XPanic <->
  (mand_ok now drift t u /\ tvx_ t u = XTypedNil /\ adjacent t u = false).
Proof.
  unfold Verify_x. destruct (verify_mand now drift t u) eqn:Hm.
  - split; [discriminate|]. intros [Hok _]. apply verify_mand_none_iff in Hok. congruence.
  - apply verify_mand_none_iff in Hm.
    destruct (tvx_ t u); cbn; destruct (adjacent t u); cbn;
      split; try discriminate; try (intros (_&?&?); discriminate); auto.
Qed.

Theorem x_nilptr_iff h t u :
  fst (Verify_x now drift tvx_ h t u) = XNilPtr <->
  (mand_ok now drift t u /\ tvx_ t u = XTypedNil /\ adjacent t u = true).
Proof.
  unfold Verify_x. destruct (verify_mand now drift t u) eqn:Hm.
  - split; [discriminate|]. intros [Hok _]. apply verify_mand_none_iff in Hok. congruence.
  - apply verify_mand_none_iff in Hm.
    destruct (tvx_ t u); cbn; destruct (adjacent t u); cbn;
      split; try discriminate; try (intros (_&?&?); discriminate); auto.
Qed.

(** no call writes the memory (/repo dd31b07: the soft result of a non-adjacent failure is a copy) *)
Theorem x_no_write h t u : snd (Verify_x now drift tvx_ h t u) = h.
Proof.
  unfold Verify_x. destruct (verify_mand now drift t u); [reflexivity|].
  destruct (tvx_ t u); cbn; try reflexivity; destruct (adjacent t u); reflexivity.
Qed.

End verify_x.

(** any sequence of calls, any verifier (fresh or kept instances, typed nil included): the memory
    at the end is the memory at the start, and every call answers as if it were the only one *)
Theorem seq_no_write drift tv calls : forall h,
  snd (Verify_seq drift tv h calls) = h /\
  fst (Verify_seq drift tv h calls)
    = map (fun c => fst (Verify_x (fst (fst c)) drift tv h (snd (fst c)) (snd c))) calls.
Proof.
  induction calls as [|[[now t] u] r IH]; intros h; cbn; [auto|].
  pose proof (x_no_write now drift tv h t u) as H2.
  destruct (Verify_x now drift tv h t u) as [x h1]; cbn in H2. subst h1.
  destruct (IH h) as [IH1 IH2]. destruct (Verify_seq drift tv h r) as [xs h2]; cbn in *.
  split; [exact IH1 | f_equal; exact IH2].
Qed.

(** ... and, the typed nil apart, every call is the pure Verify on the shapes as the TYPE made them
    ([h]: what the type put into its kept instances) - the theorems of Props/C01.v, C01_soft_iff
    included, hold call by call for kept instances as well *)
Theorem seq_pure drift (tv : hdr -> hdr -> tvx) (tvp : hdr -> hdr -> tvres) (h : heap) calls :
  (forall t u, tv t u <> XTypedNil) ->
  (forall t u r, tvx_pure h (tv t u) = Some r -> tvp t u = r) ->
  map xres_pure (fst (Verify_seq drift tv h calls))
    = map (fun c => Some (Verify (fst (fst c)) drift tvp (snd (fst c)) (snd c))) calls
  /\ snd (Verify_seq drift tv h calls) = h.
Proof.
  intros Hf Hp. destruct (seq_no_write drift tv calls h) as [H1 H2]. split; [|exact H1].
  rewrite H2, map_map. apply map_ext. intros [[now t] u]; cbn.
  apply verify_x_refines; [left; apply Hf | apply Hp].
Qed.

(** SoftFailure of the k-th result of a sequence: exactly when that header is non-adjacent or the
    TYPE reported soft - whatever was verified before, kept instance or not *)
Theorem seq_soft_iff drift tv h calls k now t u r s via :
  nth_error calls k = Some (now, t, u) ->
  nth_error (fst (Verify_seq drift tv h calls)) k = Some (XErr r s via) ->
  (s = true <->
   mand_ok now drift t u /\ tv t u <> XOk /\ (adjacent t u = false \/ tvx_soft h (tv t u) = true)).
Proof.
  intros Hc Hr. destruct (seq_no_write drift tv calls h) as [_ H2]. rewrite H2 in Hr.
  rewrite nth_error_map, Hc in Hr. cbn in Hr. injection Hr as Hr.
  eapply x_soft_iff; exact Hr.
Qed.

(** ** VerifyRange: what the ROLLING trusted header gives *)
Section range_more.
Variables (now drift : Z) (tv : hdr -> hdr -> tvres).

Fixpoint times_from (t : hdr) (l : list hdr) : Prop :=
  match l with [] => True | u :: r => (h_time t <= h_time u)%Z /\ times_from u r end.
Fixpoint heights_from (t : hdr) (l : list hdr) : Prop :=
  match l with [] => True | u :: r => h_height t < h_height u /\ heights_from u r end.

Lemma chain_verified_times t l : chain_verified now drift tv t l -> times_from t l /\ heights_from t l.
Proof.
  revert t. induction l as [|u r IH]; intros t; cbn; [auto|].
  intros [Hv Hc]. apply accept_iff in Hv. destruct Hv as [(_&_&_&Hh&Ht&_) _].
  destruct (IH u Hc). auto.
Qed.

Theorem range_times_heights t l :
  times_from t (fst (VerifyRange now drift tv t l)) /\ heights_from t (fst (VerifyRange now drift tv t l)).
Proof. apply chain_verified_times, range_each_verified. Qed.

(** all returned headers lie in the time window [trusted.T, now+drift] and on the trusted chain *)
Lemma chain_verified_all t l u : chain_verified now drift tv t l -> In u l ->
  h_nil u = false /\ h_chain u = h_chain t /\ h_height t < h_height u /\
  (h_time t <= h_time u <= now + drift)%Z.
Proof.
  revert t. induction l as [|a r IH]; intros t; cbn; [tauto|].
  intros [Hv Hc] [<-|Hin].
  - apply accept_iff in Hv. destruct Hv as [(_&?&?&?&?&?) _]. auto.
  - apply accept_iff in Hv. destruct Hv as [(_&?&Hch&Hh&Ht&?) _].
    destruct (IH a Hc Hin) as (?&Hch'&?&?&?). repeat split; auto; try lia; try congruence.
Qed.

Theorem range_all_in_window t l u : In u (fst (VerifyRange now drift tv t l)) ->
  h_nil u = false /\ h_chain u = h_chain t /\ h_height t < h_height u /\
  (h_time t <= h_time u <= now + drift)%Z.
Proof. apply chain_verified_all, range_each_verified. Qed.

End range_more.

(** under the link policy the returned range is hash-linked from its second element on,
    and to the trusted header as well when its first element is adjacent to it *)
Fixpoint linked_from (t : hdr) (l : list hdr) : Prop :=
  match l with [] => True | u :: r => h_prev u = h_id t /\ linked_from u r end.

Lemma link_adjacent_ok trust now drift t u :
  Verify now drift (vlink_tv trust) t u = None -> wrap64 (h_height t + 1) = h_height u -> h_prev u = h_id t.
Proof.
  intros Hv Ha. apply accept_iff in Hv. destruct Hv as [_ Hl]. unfold vlink_tv in Hl.
  rewrite <- Ha, N.eqb_refl in Hl. destruct (N.eqb_spec (h_prev u) (h_id t)); [assumption|discriminate].
Qed.

Lemma linked_tail trust now drift t l :
  chain_verified now drift (vlink_tv trust) t l -> consecutive l ->
  match l with [] => True | a :: r => linked_from a r end.
Proof.
  destruct l as [|a r]; [auto|]. revert t a. induction r as [|b r IH]; intros t a; cbn; [auto|].
  intros (Ha & Hb & Hc) [Hadj Hcons]. split.
  - eapply link_adjacent_ok; eauto.
  - apply (IH a b); cbn; auto.
Qed.

Theorem range_link_policy trust now drift t l :
  let v := fst (VerifyRange now drift (vlink_tv trust) t l) in
  match v with
  | [] => True
  | a :: r => linked_from a r /\ (wrap64 (h_height t + 1) = h_height a -> h_prev a = h_id t)
  end.
Proof.
  intros v. pose proof (range_each_verified now drift (vlink_tv trust) t l) as Hc.
  pose proof (range_consecutive now drift (vlink_tv trust) t l) as Hs. fold v in Hc, Hs.
  destruct v as [|a r] eqn:Hv; [exact I|]. split.
  - apply (linked_tail trust now drift t (a :: r)); assumption.
  - destruct Hc as [Ha _]. intros Hadj. eapply link_adjacent_ok; eauto.
Qed.
