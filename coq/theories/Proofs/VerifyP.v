From GH Require Import Base.Prelude Model.Verify.

Section verify.
Variables (now drift : Z) (tv : hdr -> hdr -> tvres).

(** the six conditions the statement of C01 lists *)
Definition mand_ok (t u : hdr) : Prop :=
  h_nil t = false /\ h_nil u = false /\ h_chain u = h_chain t /\ h_height t < h_height u /\
  (h_time t <= h_time u)%Z /\ (h_time u <= now + drift)%Z.

Lemma verify_mand_none_iff t u : verify_mand now drift t u = None <-> mand_ok t u.
Proof.
  unfold verify_mand, mand_ok.
  destruct (h_nil t) eqn:Ht; [split; [discriminate | intros (?&_); discriminate]|].
  destruct (h_nil u) eqn:Hu; [split; [discriminate | intros (_&?&_); discriminate]|].
  destruct (N.eqb_spec (h_chain u) (h_chain t)) as [Hc|Hc]; cbn [negb];
    [|split; [discriminate | intros (_&_&?&_); contradiction]].
  destruct (N.leb_spec (h_height u) (h_height t)) as [Hh|Hh];
    [split; [discriminate | intros (_&_&_&?&_); lia]|].
  destruct (Z.ltb_spec (h_time u) (h_time t)) as [Ht1|Ht1];
    [split; [discriminate | intros (_&_&_&_&?&_); lia]|].
  destruct (Z.ltb_spec (now + drift) (h_time u)) as [Ht2|Ht2];
    [split; [discriminate | intros (_&_&_&_&_&?); lia]|].
  split; [intros _; repeat split; auto; lia | reflexivity].
Qed.

(** which condition a sentinel stands for, with all earlier ones passing *)
Definition sentinel_matches (s : sentinel) (t u : hdr) : Prop :=
  match s with
  | EZero => h_nil t = true \/ h_nil u = true
  | EWrongChain => h_nil t = false /\ h_nil u = false /\ h_chain u <> h_chain t
  | EKnown => h_nil t = false /\ h_nil u = false /\ h_chain u = h_chain t /\ h_height u <= h_height t
  | EUnordered => h_nil t = false /\ h_nil u = false /\ h_chain u = h_chain t /\
                  h_height t < h_height u /\ (h_time u < h_time t)%Z
  | EFuture => h_nil t = false /\ h_nil u = false /\ h_chain u = h_chain t /\
               h_height t < h_height u /\ (h_time t <= h_time u)%Z /\ (now + drift < h_time u)%Z
  end.

Lemma verify_mand_some t u s : verify_mand now drift t u = Some s -> sentinel_matches s t u.
Proof.
  unfold verify_mand.
  destruct (h_nil t) eqn:Ht; [intros [= <-]; cbn; auto|].
  destruct (h_nil u) eqn:Hu; [intros [= <-]; cbn; auto|].
  destruct (N.eqb_spec (h_chain u) (h_chain t)) as [Hc|Hc]; cbn [negb];
    [|intros [= <-]; cbn; auto].
  destruct (N.leb_spec (h_height u) (h_height t)) as [Hh|Hh]; [intros [= <-]; cbn; auto|].
  destruct (Z.ltb_spec (h_time u) (h_time t)) as [Ht1|Ht1]; [intros [= <-]; cbn; repeat split; auto|].
  destruct (Z.ltb_spec (now + drift) (h_time u)) as [Ht2|Ht2]; [intros [= <-]; cbn; repeat split; auto|].
  discriminate.
Qed.

Theorem accept_iff t u :
  Verify now drift tv t u = None <-> (mand_ok t u /\ tv t u = TVOk).
Proof.
  unfold Verify. destruct (verify_mand now drift t u) eqn:Hm.
  - split; [discriminate|]. intros [Hok _]. apply verify_mand_none_iff in Hok. congruence.
  - apply verify_mand_none_iff in Hm.
    destruct (tv t u); split; try discriminate; try (intros [_ ?]; discriminate); auto.
Qed.

Definition tv_err_id (r : tvres) : option N :=
  match r with TVOk => None | TVPlain e | TVVerr _ e | TVWrapped _ e => Some e end.
Definition tv_soft (r : tvres) : bool :=
  match r with TVVerr s _ | TVWrapped s _ => s | _ => false end.

Theorem reject_reason t u e :
  Verify now drift tv t u = Some e ->
  (exists s, ve_reason e = RSent s /\ ve_soft e = false /\ sentinel_matches s t u) \/
  (exists id, ve_reason e = RType id /\ mand_ok t u /\ tv_err_id (tv t u) = Some id).
Proof.
  unfold Verify. destruct (verify_mand now drift t u) eqn:Hm.
  - intros [= <-]. left. eexists; repeat split; eauto using verify_mand_some.
  - apply verify_mand_none_iff in Hm.
    destruct (tv t u) eqn:Htv; [discriminate| | |]; intros [= <-]; right; eexists; cbn; eauto.
Qed.

Theorem soft_iff t u e :
  Verify now drift tv t u = Some e ->
  (ve_soft e = true <->
   mand_ok t u /\ tv t u <> TVOk /\ (adjacent t u = false \/ tv_soft (tv t u) = true)).
Proof.
  unfold Verify. destruct (verify_mand now drift t u) eqn:Hm.
  - intros [= <-]; cbn. split; [discriminate|].
    intros (Hok&_). apply verify_mand_none_iff in Hok. congruence.
  - apply verify_mand_none_iff in Hm.
    destruct (tv t u) eqn:Htv; [discriminate| | |]; intros [= <-]; cbn;
      destruct (adjacent t u); try destruct soft; cbn;
      (split; [intros Hs; try discriminate Hs; (split; [exact Hm | split; [discriminate | auto]])
              | intros (_&_&[Hx|Hx]); try reflexivity; discriminate Hx]).
Qed.

Theorem mandatory_never_soft t u e s :
  Verify now drift tv t u = Some e -> ve_reason e = RSent s -> ve_soft e = false.
Proof.
  unfold Verify. destruct (verify_mand now drift t u); [intros [= <-]; reflexivity|].
  destruct (tv t u); [discriminate| | |]; intros [= <-]; discriminate.
Qed.

(** ** VerifyRange *)

(** heights consecutive starting from the first element *)
Fixpoint consecutive (l : list hdr) : Prop :=
  match l with
  | a :: ((b :: _) as r) => wrap64 (h_height a + 1) = h_height b /\ consecutive r
  | _ => True
  end.

(** each element verifies against its predecessor ([t] for the first) *)
Fixpoint chain_verified (t : hdr) (l : list hdr) : Prop :=
  match l with
  | [] => True
  | u :: r => Verify now drift tv t u = None /\ chain_verified u r
  end.

Definition is_prefix (p l : list hdr) : Prop := exists s, l = p ++ s.

(** "the element [u] (with predecessor [t], at position first / later) is bad" *)
Definition bad_at (first : bool) (t u : hdr) : Prop :=
  Verify now drift tv t u <> None \/ (first = false /\ wrap64 (h_height t + 1) <> h_height u).

Lemma last_cons_default (t u : hdr) (v : list hdr) : last (u :: v) t = last v u.
Proof.
  revert t u. induction v as [|x v IH]; intros t u; [reflexivity|].
  change (last (u :: x :: v) t) with (last (x :: v) t). rewrite (IH t x), (IH u x). reflexivity.
Qed.

Lemma loop_spec first t l :
  let '(v, e) := verify_range_loop now drift tv first t l in
  is_prefix v l /\ chain_verified t v /\ consecutive v /\
  (first = false -> match v with a :: _ => wrap64 (h_height t + 1) = h_height a | [] => True end) /\
  (e = None <-> v = l) /\
  (e <> None -> exists u s, l = v ++ u :: s /\ bad_at (first && match v with [] => true | _ => false end)
                                              (last v t) u).
Proof.
  revert first t. induction l as [|u r IH]; intros first t; cbn [verify_range_loop].
  - repeat split; cbn; auto; try (exists []; reflexivity). congruence.
  - destruct (Verify now drift tv t u) eqn:Hv.
    + repeat split; cbn; auto; try (exists (u :: r); reflexivity); try discriminate.
      intros _. exists u, r. split; [reflexivity|]. left. cbn. congruence.
    + destruct (negb first && negb (wrap64 (h_height t + 1) =? h_height u)) eqn:Hadj.
      * repeat split; cbn; auto; try (exists (u :: r); reflexivity); try discriminate.
        intros _. exists u, r. split; [reflexivity|]. right.
        apply andb_prop in Hadj as [Hf Ha]. destruct first; [discriminate|]. cbn.
        split; [reflexivity|]. apply negb_true_iff in Ha. apply N.eqb_neq in Ha. exact Ha.
      * specialize (IH false u).
        destruct (verify_range_loop now drift tv false u r) as [v e].
        destruct IH as (Hp & Hc & Hcons & Hfirst & Hnone & Hsome).
        split; [|split; [|split; [|split; [|split; [split|]]]]].
        -- destruct Hp as [s ->]. exists s. reflexivity.
        -- cbn. auto.
        -- cbn. destruct v as [|b v']; [exact I|]. split; [apply Hfirst; reflexivity | exact Hcons].
        -- intros ->. cbn in Hadj. apply negb_false_iff in Hadj. apply N.eqb_eq in Hadj. exact Hadj.
        -- intros He. f_equal. apply Hnone. exact He.
        -- intros [= ->]. apply Hnone. reflexivity.
        -- intros He. destruct (Hsome He) as (u' & s & -> & Hbad).
           exists u', s. split; [reflexivity|].
           replace (first && match u :: v with [] => true | _ => false end) with false
             by (destruct first; reflexivity).
           rewrite last_cons_default.
           destruct v; cbn in Hbad |- *; exact Hbad.
Qed.

Theorem range_prefix t l : is_prefix (fst (VerifyRange now drift tv t l)) l.
Proof.
  unfold VerifyRange. destruct l as [|u r]; [exists []; reflexivity|].
  pose proof (loop_spec true t (u :: r)) as H.
  destruct (verify_range_loop now drift tv true t (u :: r)); cbn. apply H.
Qed.

Theorem range_each_verified t l : chain_verified t (fst (VerifyRange now drift tv t l)).
Proof.
  unfold VerifyRange. destruct l as [|u r]; [exact I|].
  pose proof (loop_spec true t (u :: r)) as H.
  destruct (verify_range_loop now drift tv true t (u :: r)); cbn. apply H.
Qed.

Theorem range_consecutive t l : consecutive (fst (VerifyRange now drift tv t l)).
Proof.
  unfold VerifyRange. destruct l as [|u r]; [exact I|].
  pose proof (loop_spec true t (u :: r)) as H.
  destruct (verify_range_loop now drift tv true t (u :: r)); cbn. apply H.
Qed.

Theorem range_nil_iff_whole t l :
  snd (VerifyRange now drift tv t l) = None <-> (fst (VerifyRange now drift tv t l) = l /\ l <> []).
Proof.
  unfold VerifyRange. destruct l as [|u r]; [cbn; split; [discriminate | intros [_ ?]; congruence]|].
  pose proof (loop_spec true t (u :: r)) as H.
  destruct (verify_range_loop now drift tv true t (u :: r)) as [v e]; cbn.
  destruct H as (_&_&_&_&Hn&_). split; [intros He; split; [apply Hn; exact He | discriminate]|].
  intros [Hv _]. apply Hn. exact Hv.
Qed.

Theorem range_empty_is_error t : snd (VerifyRange now drift tv t []) <> None.
Proof. cbn. discriminate. Qed.

(** the first header that fails verification or adjacency is never part of the result:
    on error the result stops exactly before a bad element *)
Theorem range_first_bad_excluded t l :
  l <> [] -> snd (VerifyRange now drift tv t l) <> None ->
  let v := fst (VerifyRange now drift tv t l) in
  exists u s, l = v ++ u :: s /\
    bad_at (match v with [] => true | _ => false end) (last v t) u.
Proof.
  unfold VerifyRange. destruct l as [|u r]; [congruence|]. intros _.
  pose proof (loop_spec true t (u :: r)) as H.
  destruct (verify_range_loop now drift tv true t (u :: r)) as [v e]; cbn.
  destruct H as (_&_&_&_&_&Hs). intros He. destruct (Hs He) as (u'&s&Hl&Hb).
  exists u', s. split; [exact Hl|]. exact Hb.
Qed.

End verify.
