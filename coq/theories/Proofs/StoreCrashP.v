(** C06, crash safety: the datastore image after EVERY prefix of the write log
    satisfies a disk invariant; a Store reopened on such an image resolves its
    pointers, finds every indexed header, and reaches the tip when the
    continuation of the chain is appended. Part 1: the prefix framework. *)
From Coq Require Import NArith List Bool Lia ZifyBool ZifyN ZifyNat.
From stdpp Require Import gmap.
From GH Require Import Base.Prelude Model.Store Model.StoreSpec Model.StoreCrash.
From GH Require Import Proofs.StoreP Proofs.StoreClimbP Proofs.StoreInvP Proofs.StoreAppendP Proofs.StoreDeleteP.
Import ListNotations.
Open Scope N_scope.

(** equality of the datastore components *)
Definition disk_eq (a b : st) : Prop :=
  d_hdr a = d_hdr b /\ d_idx a = d_idx b /\ d_head a = d_head b /\ d_tail a = d_tail b.

Lemma disk_eq_refl a : disk_eq a a.
Proof. unfold disk_eq. tauto. Qed.
Lemma disk_eq_sym a b : disk_eq a b -> disk_eq b a.
Proof. unfold disk_eq. intros (?&?&?&?). split_and!; congruence. Qed.
Lemma disk_eq_trans a b c : disk_eq a b -> disk_eq b c -> disk_eq a c.
Proof. unfold disk_eq. intros (?&?&?&?) (?&?&?&?). split_and!; congruence. Qed.

Lemma apply1_disk a a' w : disk_eq a a' -> disk_eq (apply1 a w) (apply1 a' w).
Proof. unfold disk_eq. intros (E1 & E2 & E3 & E4). destruct w; cbn; rewrite ?E1, ?E2, ?E3, ?E4; tauto. Qed.

Lemma apply_entry_disk w : forall a a', disk_eq a a' -> disk_eq (apply_entry a w) (apply_entry a' w).
Proof.
  unfold apply_entry. induction w as [|x w IH]; intros a a' E; cbn [fold_left]; auto.
  apply IH. apply apply1_disk. exact E.
Qed.

Lemma write_disk_eq s w : disk_eq (write s w) (apply_entry s w).
Proof. unfold disk_eq, write, apply_entry. cbn. tauto. Qed.

Lemma write_wlog s w : wlog (write s w) = wlog s ++ [w].
Proof. reflexivity. Qed.

(** the log faithfully records the datastore *)
Definition logged (b : N) (s : st) : Prop := disk_eq (image b (wlog s) (length (wlog s))) s.

(** [P] holds of the image after every prefix of the log *)
Definition prefixes_ok (P : st -> Prop) (b : N) (s : st) : Prop :=
  forall k, (k <= length (wlog s))%nat -> P (image b (wlog s) k).

Definition disk_pred (P : st -> Prop) : Prop := forall a a', disk_eq a a' -> P a -> P a'.

Lemma image_app_le b l w k : (k <= length l)%nat -> image b (l ++ [w]) k = image b l k.
Proof.
  intros Hk. unfold image. rewrite firstn_app. replace (k - length l)%nat with 0%nat by lia.
  cbn. rewrite app_nil_r. reflexivity.
Qed.

Lemma image_app_full b l w : image b (l ++ [w]) (length (l ++ [w])) = apply_entry (image b l (length l)) w.
Proof.
  unfold image. rewrite !firstn_all. rewrite fold_left_app. reflexivity.
Qed.

Lemma logged_write b s w : logged b s -> logged b (write s w).
Proof.
  unfold logged. intros L. rewrite write_wlog, image_app_full.
  eapply disk_eq_trans; [apply apply_entry_disk; exact L|]. apply disk_eq_sym, write_disk_eq.
Qed.

Lemma prefixes_write P b s w : disk_pred P -> logged b s -> prefixes_ok P b s -> P (write s w) ->
  prefixes_ok P b (write s w).
Proof.
  intros DP L Pre Pw k Hk. rewrite write_wlog in *. rewrite app_length in Hk. cbn in Hk.
  destruct (Nat.le_gt_cases k (length (wlog s))) as [Hle|Hgt].
  - rewrite image_app_le by auto. apply Pre; auto.
  - replace k with (length (wlog s ++ [w])) by (rewrite app_length; cbn; lia).
    apply (DP (write s w)); auto. apply disk_eq_sym. apply (logged_write b s w L).
Qed.

(** a state change that touches neither the datastore nor the log *)
Definition mem_step (s s' : st) : Prop := wlog s' = wlog s /\ disk_eq s' s.

Lemma logged_mem b s s' : mem_step s s' -> logged b s -> logged b s'.
Proof. intros [E D] L. unfold logged in *. rewrite E. eapply disk_eq_trans; eauto using disk_eq_sym. Qed.

Lemma prefixes_mem P b s s' : mem_step s s' -> prefixes_ok P b s -> prefixes_ok P b s'.
Proof. intros [E D] Pre k Hk. rewrite E in *. apply Pre; auto. Qed.

(** executions as sequences of in-memory steps and single writes after each of which [P] holds *)
Inductive steps (P : st -> Prop) : st -> st -> Prop :=
| st_refl s : steps P s s
| st_mem s s' s'' : mem_step s s' -> steps P s' s'' -> steps P s s''
| st_write s w s'' : P (write s w) -> steps P (write s w) s'' -> steps P s s''.

Lemma steps_trans (P : st -> Prop) a b c : steps P a b -> steps P b c -> steps P a c.
Proof. induction 1; intros H'; auto; [eapply st_mem|eapply st_write]; eauto. Qed.

Lemma steps_mem1 (P : st -> Prop) s s' : mem_step s s' -> steps P s s'.
Proof. intros M. eapply st_mem; eauto. apply st_refl. Qed.

Lemma steps_write1 (P : st -> Prop) s w : P (write s w) -> steps P s (write s w).
Proof. intros Pw. eapply st_write; eauto. apply st_refl. Qed.

Lemma steps_ok (P : st -> Prop) b : disk_pred P -> forall s s', steps P s s' ->
  logged b s -> prefixes_ok P b s -> logged b s' /\ prefixes_ok P b s'.
Proof.
  intros DP s s' H. induction H as [s|s s' s'' M H IH|s w s'' Pw H IH]; intros L Pre; auto.
  - apply IH; eauto using logged_mem, prefixes_mem.
  - apply IH; eauto using logged_write, prefixes_write.
Qed.

Lemma logged_st0 b : logged b (st0 b).
Proof. unfold logged. cbn. apply disk_eq_refl. Qed.

Lemma prefixes_st0 (P : st -> Prop) b : P (st0 b) -> prefixes_ok P b (st0 b).
Proof. intros H k Hk. cbn in Hk. replace k with 0%nat by lia. exact H. Qed.

Lemma steps_P (P : st -> Prop) : disk_pred P -> forall s s', steps P s s' -> P s -> P s'.
Proof.
  intros DP s s' H. induction H as [s|s s' s'' [_ D] H IH|s w s'' Pw H IH]; intros Ps; auto.
  apply IH. apply (DP s); auto using disk_eq_sym.
Qed.

(** ** the disk invariant *)
Section chain.
Context {c : N -> hdr} {U : N} {CH : chain_hyps c U}.
Notation inr := (inr U).
Notation minv := (minv c U).
Notation pchain := (pchain c U).
Notation pstored := (pstored c).
Notation inv := (inv c U).

(** stored headers are chain headers under their own hash and indexed by their height;
    index entries and pointers are well-formed (DeleteRange removes a header and its index entry
    in one write: deleteKeys) *)
Record dinv (x : st) : Prop := {
  dv_hdr : forall id h, d_hdr x !! id = Some h ->
           exists n, inr n /\ h = c n /\ id = h_id (c n) /\ d_idx x !! n = Some id;
  dv_idx : forall n id, d_idx x !! n = Some id -> inr n /\ id = h_id (c n);
  dv_head : forall id, d_head x = Some id -> exists n, inr n /\ id = h_id (c n);
  dv_tail : forall id, d_tail x = Some id -> exists n, inr n /\ id = h_id (c n)
}.

Lemma dinv_disk_pred : disk_pred dinv.
Proof.
  intros a a' (E1 & E2 & E3 & E4) [A B C D]. split; rewrite <- ?E1, <- ?E2, <- ?E3, <- ?E4; auto.
Qed.

Lemma dinv_st0 b : dinv (st0 b).
Proof. split; cbn; intros *; try rewrite lookup_empty; discriminate. Qed.

(** single writes *)
Lemma write1_fields s w : disk_eq (write s [w]) (apply1 s w) /\
  pend_h (write s [w]) = pend_h s /\ pend_i (write s [w]) = pend_i s /\
  headp (write s [w]) = headp s /\ tailp (write s [w]) = tailp s /\ hsh (write s [w]) = hsh s.
Proof. unfold disk_eq. destruct w; cbn; tauto. Qed.

Lemma dinv_del_hdr s id : dinv s -> dinv (write s [WDelH id]).
Proof.
  intros [A B C D]. split; cbn; auto.
  intros id' h H. apply lookup_delete_Some in H. destruct H. auto.
Qed.

Lemma dinv_del_idx s n : dinv s -> d_hdr s !! h_id (c n) = None -> dinv (write s [WDelI n]).
Proof.
  intros [A B C D] Hn. split; cbn; auto.
  - intros id h H. destruct (A id h H) as (m & Hm & -> & -> & Hi). exists m. split_and!; auto.
    rewrite lookup_delete_ne; auto. intros ->. congruence.
  - intros m id H. apply lookup_delete_Some in H. destruct H. auto.
Qed.

(** deleteKeys: the header and its index entry leave in one write *)
Lemma dinv_del_both s n : dinv s -> dinv (write s [WDelH (h_id (c n)); WDelI n]).
Proof.
  intros [A B C D]. split; cbn; auto.
  - intros id h H. apply lookup_delete_Some in H. destruct H as [Hne H].
    destruct (A id h H) as (m & Hm & -> & -> & Hi). exists m. split_and!; auto.
    rewrite lookup_delete_ne; auto. intros ->. apply Hne. reflexivity.
  - intros m id H. apply lookup_delete_Some in H. destruct H. auto.
Qed.

Lemma dinv_put_head s n : dinv s -> inr n -> dinv (write s [WPutHead (h_id (c n))]).
Proof. intros [A B C D] Hn. split; cbn; auto. intros id [= <-]. eauto. Qed.
Lemma dinv_put_tail s n : dinv s -> inr n -> dinv (write s [WPutTail (h_id (c n))]).
Proof. intros [A B C D] Hn. split; cbn; auto. intros id [= <-]. eauto. Qed.
Lemma dinv_del_head s : dinv s -> dinv (write s [WDelHead]).
Proof. intros [A B C D]. split; cbn; auto. discriminate. Qed.
Lemma dinv_del_tail s : dinv s -> dinv (write s [WDelTail]).
Proof. intros [A B C D]. split; cbn; auto. discriminate. Qed.

(** the commit of the write batch *)
Lemma dinv_commit s : minv s -> pchain s -> dinv s -> dinv (write s (commit_ops s)).
Proof.
  intros M P [A B C D]. destruct (commit_minv s M) as [[_ _ _ Di Dh] _].
  destruct (commit_fields s) as (_ & _ & _ & _ & _ & _ & _ & E6 & E7).
  change (d_hdr (commit s)) with (d_hdr (write s (commit_ops s))) in *.
  change (d_idx (commit s)) with (d_idx (write s (commit_ops s))) in *.
  change (d_head (commit s)) with (d_head (write s (commit_ops s))) in *.
  change (d_tail (commit s)) with (d_tail (write s (commit_ops s))) in *.
  split.
  - intros id h H. destruct (Dh id h H) as (n & -> & Hi). destruct (Di n id Hi) as (Hn & -> & _). eauto 6.
  - intros n id H. destruct (Di n id H) as (Hn & -> & _). auto.
  - intros id. rewrite E6. destruct (headp s) as [hd|] eqn:E; auto.
    intros [= <-]. destruct (P hd (or_introl E)) as (n & Hn & ->). eauto.
  - intros id. rewrite E7. destruct (tailp s) as [tl|] eqn:E; auto.
    intros [= <-]. destruct (P tl (or_intror E)) as (n & Hn & ->). eauto.
Qed.

End chain.

(** ** in-memory steps *)
Lemma mem_refl s : mem_step s s.
Proof. split; [reflexivity|apply disk_eq_refl]. Qed.
Lemma mem_trans a b c : mem_step a b -> mem_step b c -> mem_step a c.
Proof. intros [E1 D1] [E2 D2]. split; [congruence|eapply disk_eq_trans; eauto]. Qed.

Lemma mem_advance_head s : mem_step s (advance_head s).
Proof.
  unfold advance_head. destruct (headp s); [|apply mem_refl].
  destruct (next_head _ _ _ _) as [h0 []]; [|apply mem_refl]. split; [reflexivity|unfold disk_eq; cbn; tauto].
Qed.
Lemma mem_recede_tail s : mem_step s (recede_tail s).
Proof.
  unfold recede_tail. destruct (tailp s); [|apply mem_refl].
  destruct (next_tail _ _ _ _) as [h0 []]; [|apply mem_refl]. split; [reflexivity|unfold disk_eq; cbn; tauto].
Qed.
Lemma mem_ensure_init s hs : mem_step s (ensure_init s hs).
Proof.
  unfold ensure_init. destruct hs as [|h0 hs]; [apply mem_refl|].
  destruct (headp s); [destruct (tailp s)|cbn [tailp set_hsh set_headp]; destruct (tailp s)];
    split; try reflexivity; unfold disk_eq; cbn; tauto.
Qed.
Lemma mem_pend_add s hs : mem_step s (pend_add s hs).
Proof. split; [reflexivity|unfold disk_eq; cbn; tauto]. Qed.
Lemma mem_set_pend s a b : mem_step s (set_pend s a b).
Proof. split; [reflexivity|unfold disk_eq; cbn; tauto]. Qed.
Lemma mem_set_headp s h : mem_step s (set_headp s h).
Proof. split; [reflexivity|unfold disk_eq; cbn; tauto]. Qed.
Lemma mem_set_tailp s h : mem_step s (set_tailp s h).
Proof. split; [reflexivity|unfold disk_eq; cbn; tauto]. Qed.
Lemma mem_set_hsh s h : mem_step s (set_hsh s h).
Proof. split; [reflexivity|unfold disk_eq; cbn; tauto]. Qed.
Lemma mem_deinit s : mem_step s (deinit s).
Proof. split; [reflexivity|unfold disk_eq; cbn; tauto]. Qed.
Lemma mem_fresh s : mem_step s (fresh s).
Proof. split; [reflexivity|unfold disk_eq; cbn; tauto]. Qed.
Lemma mem_pend_del s n : mem_step s (pend_del s n).
Proof. split; [reflexivity|unfold disk_eq; cbn; tauto]. Qed.

Section traces.
Context {c : N -> hdr} {U : N} {CH : chain_hyps c U}.
Notation inr := (inr U).
Notation minv := (minv c U).
Notation pchain := (pchain c U).
Notation pstored := (pstored c).
Notation inv := (inv c U).
Notation dinv := (dinv (c:=c) (U:=U)).

(** the flush closure: in-memory steps, then at most one commit *)
Lemma flush_one_steps s o :
  let hs := match o with Some l => l | None => [] end in
  let s3 := recede_tail (advance_head (pend_add (ensure_init s hs) hs)) in
  minv s3 -> pchain s3 -> dinv s -> steps dinv s (fst (flush_one s o)).
Proof.
  intros hs s3 M3 P3 D. unfold flush_one. fold hs. fold s3.
  assert (Ms : mem_step s s3).
  { unfold s3. eapply mem_trans; [apply mem_ensure_init|]. eapply mem_trans; [apply mem_pend_add|].
    eapply mem_trans; [apply mem_advance_head|apply mem_recede_tail]. }
  assert (D3 : dinv s3) by (apply (dinv_disk_pred s); auto; apply disk_eq_sym, Ms).
  destruct (_ && _); cbn [fst]; [apply steps_mem1; auto|].
  destruct (_ =? _)%nat; cbn [fst]; [apply steps_mem1; auto|].
  eapply st_mem; [exact Ms|]. eapply st_write; [apply dinv_commit; auto|].
  apply steps_mem1. apply mem_set_pend.
Qed.

(** deleteSingle / deleteSequential: one write (header and index delete), batch eviction per height *)
Lemma delete_single_steps s script nh n log : minv s -> dinv s ->
  let '(s', _, _) := delete_single s script nh n log in
  steps dinv s s' /\ minv s' /\ headp s' = headp s /\ tailp s' = tailp s.
Proof.
  intros M D. destruct (stored_dec s n) as [Sn|Sn].
  - unfold delete_single.
    assert (E : match d_idx s !! n with
                | Some id => Some id
                | None => match pend_h s !! n with Some h => Some (h_id h) | None => None end
                end = Some (h_id (c n))).
    { destruct (d_idx s !! n) as [id|] eqn:Ei.
      - destruct (mi_di s M _ _ Ei) as (_ & -> & _). reflexivity.
      - destruct Sn as [[h Hh]|[id Hi]]; [|congruence]. rewrite Hh.
        destruct (mi_ph s M _ _ Hh) as [_ ->]. reflexivity. }
    rewrite E. destruct (run_handlers s script 0 nh n log) as [log' ok].
    destruct ok; [|split_and!; auto; apply st_refl].
    destruct (StoreDeleteP.del1_minv s n M Sn) as [M' _]. split_and!; auto.
    eapply st_write; [apply dinv_del_both; exact D|].
    apply steps_mem1. apply mem_pend_del.
  - rewrite (StoreDeleteP.delete_single_missing s script nh n log Sn). split_and!; auto. apply st_refl.
Qed.

Lemma delete_seq_steps script nh : forall cnt s n log, minv s -> dinv s ->
  let '(s', _, _, _) := delete_seq s script nh n cnt log in
  steps dinv s s' /\ minv s' /\ headp s' = headp s /\ tailp s' = tailp s.
Proof.
  induction cnt as [|cnt IH]; intros s n log M D; cbn [delete_seq].
  - split_and!; auto. apply st_refl.
  - pose proof (delete_single_steps s script nh n log M D) as H1.
    destruct (delete_single s script nh n log) as [[s1 log1] ok1]. destruct H1 as (T1 & M1 & E1 & E2).
    destruct ok1; [|split_and!; auto].
    assert (D1 : dinv s1) by (apply (steps_P dinv dinv_disk_pred s s1); auto).
    pose proof (IH s1 (n + 1) log1 M1 D1) as H2.
    destruct (delete_seq s1 script nh (n + 1) cnt log1) as [[[s2 log2] a2] ok2].
    destruct H2 as (T2 & M2 & E3 & E4). split_and!; auto; try congruence.
    eapply steps_trans; eauto.
Qed.


(** states between the writes of an operation: maps and pointers well-formed, disk invariant *)
Definition okst (s : st) : Prop := minv s /\ pchain s /\ dinv s.

Lemma same_maps_minv s s' : same_maps s s' -> minv s -> minv s'.
Proof. apply minv_ext. Qed.

Lemma ok_put_head s n : okst s -> inr n ->
  steps dinv s (write s [WPutHead (h_id (c n))]) /\ okst (write s [WPutHead (h_id (c n))]).
Proof.
  intros (M & P & D) Hn. pose proof (dinv_put_head s n D Hn) as D'. split; [apply steps_write1; auto|].
  split_and!; auto. eapply minv_ext; eauto. unfold same_maps. cbn. tauto.
Qed.
Lemma ok_put_tail s n : okst s -> inr n ->
  steps dinv s (write s [WPutTail (h_id (c n))]) /\ okst (write s [WPutTail (h_id (c n))]).
Proof.
  intros (M & P & D) Hn. pose proof (dinv_put_tail s n D Hn) as D'. split; [apply steps_write1; auto|].
  split_and!; auto. eapply minv_ext; eauto. unfold same_maps. cbn. tauto.
Qed.
Lemma ok_del_head s : okst s -> steps dinv s (write s [WDelHead]) /\ okst (write s [WDelHead]).
Proof.
  intros (M & P & D). pose proof (dinv_del_head s D) as D'. split; [apply steps_write1; auto|].
  split_and!; auto. eapply minv_ext; eauto. unfold same_maps. cbn. tauto.
Qed.
Lemma ok_del_tail s : okst s -> steps dinv s (write s [WDelTail]) /\ okst (write s [WDelTail]).
Proof.
  intros (M & P & D). pose proof (dinv_del_tail s D) as D'. split; [apply steps_write1; auto|].
  split_and!; auto. eapply minv_ext; eauto. unfold same_maps. cbn. tauto.
Qed.

Lemma ok_mem s s' : okst s -> mem_step s s' -> same_maps s s' -> pchain s' -> steps dinv s s' /\ okst s'.
Proof.
  intros (M & P & D) Ms SM P'. split; [apply steps_mem1; auto|]. split_and!; auto.
  - eapply minv_ext; eauto.
  - apply (dinv_disk_pred s); auto. apply disk_eq_sym, Ms.
Qed.

Lemma ok_set_tailp s n : okst s -> inr n ->
  steps dinv s (set_tailp s (Some (c n))) /\ okst (set_tailp s (Some (c n))).
Proof.
  intros O Hn. apply ok_mem; auto using mem_set_tailp; [unfold same_maps; cbn; tauto|].
  destruct O as (_ & P & _). intros h [E|E]; cbn in E; [apply P; auto|injection E as <-; eauto].
Qed.
Lemma ok_set_headp s n : okst s -> inr n ->
  steps dinv s (set_headp s (Some (c n))) /\ okst (set_headp s (Some (c n))).
Proof.
  intros O Hn. apply ok_mem; auto using mem_set_headp; [unfold same_maps; cbn; tauto|].
  destruct O as (_ & P & _). intros h [E|E]; cbn in E; [injection E as <-; eauto|apply P; auto].
Qed.
Lemma ok_set_hsh s k : okst s -> steps dinv s (set_hsh s k) /\ okst (set_hsh s k).
Proof.
  intros O. apply ok_mem; auto using mem_set_hsh; [unfold same_maps; cbn; tauto|].
  destruct O as (_ & P & _). exact P.
Qed.
Lemma ok_deinit s : okst s -> steps dinv s (deinit s) /\ okst (deinit s).
Proof.
  intros O. apply ok_mem; auto using mem_deinit; [unfold same_maps; cbn; tauto|].
  intros h [E|E]; cbn in E; discriminate.
Qed.

Lemma next_head_chain s : minv s -> pchain s -> forall f cur ch,
  (exists n, inr n /\ cur = c n) -> exists n, inr n /\ fst (next_head f s cur ch) = c n.
Proof.
  intros M P. induction f as [|f IH]; intros cur ch Hc; cbn [next_head]; auto.
  destruct (nb s _) as [h| | |] eqn:E; auto. apply IH.
  apply nb_found_inv in E; auto. destruct E as (Hn & -> & _). eauto.
Qed.

Lemma ok_advance_head s : okst s -> steps dinv s (advance_head s) /\ okst (advance_head s).
Proof.
  intros O. destruct (advance_head_frame s) as (SM & _ & Etl).
  apply ok_mem; auto using mem_advance_head.
  destruct O as (M & P & _). unfold advance_head in *. destruct (headp s) as [cur|] eqn:Eh; auto.
  destruct (next_head_chain s M P (fuel_of s) cur false) as (n & Hn & En); [apply P; auto|].
  destruct (next_head _ _ _ _) as [h0 []]; auto. cbn in En. subst h0.
  intros h [E|E]; cbn in E; [injection E as <-; eauto|apply P; auto].
Qed.

Ltac chain_ok H := eapply (fun A B => conj (steps_trans _ _ _ _ (proj1 A) (proj1 B)) (proj2 B)); [exact H|].

Lemma ok_trans a b d : steps dinv a b /\ okst b -> steps dinv b d /\ okst d -> steps dinv a d /\ okst d.
Proof. intros [S1 _] [S2 O]. split; auto. eapply steps_trans; eauto. Qed.

Lemma ok_refl s : okst s -> steps dinv s s /\ okst s.
Proof. intros O. split; auto. apply st_refl. Qed.

Lemma set_tail_steps s n : okst s -> steps dinv s (fst (set_tail s n)) /\ okst (fst (set_tail s n)).
Proof.
  intros O. unfold set_tail. destruct (nb s n) as [h| | |] eqn:E; cbn [fst]; try (apply ok_refl; auto).
  destruct O as (M & P & D). apply nb_found_inv in E; auto. destruct E as (Hn & -> & _).
  assert (O : okst s) by (split_and!; auto).
  pose proof (ok_set_tailp s n O Hn) as T1.
  pose proof (ok_put_tail _ n (proj2 T1) Hn) as T2.
  pose proof (ok_trans _ _ _ T1 T2) as T12. clear T1 T2.
  set (s1 := write (set_tailp s (Some (c n))) [WPutTail (h_id (c n))]) in *.
  set (s2 := if match headp s1 with None => true | Some hd => h_height hd <? n end
             then advance_head (set_headp (write s1 [WPutHead (h_id (c n))]) (Some (c n))) else s1).
  assert (T2 : steps dinv s s2 /\ okst s2).
  { unfold s2. destruct (match headp s1 with None => true | Some hd => h_height hd <? n end); auto.
    pose proof (ok_put_head s1 n (proj2 T12) Hn) as A1.
    pose proof (ok_set_headp _ n (proj2 A1) Hn) as A2.
    pose proof (ok_advance_head _ (proj2 A2)) as A3.
    eapply ok_trans; [exact T12|]. eapply ok_trans; [exact A1|]. eapply ok_trans; [exact A2|exact A3]. }
  cbv zeta. fold s1. fold s2. unfold put_head_ptr.
  destruct (headp s2) as [hd|] eqn:Eh; auto.
  destruct (proj2 T2) as (_ & P2 & _). destruct (P2 hd (or_introl Eh)) as (m & Hm & ->).
  eapply ok_trans; [exact T2|]. apply ok_put_head; auto. apply T2.
Qed.

Lemma set_head_steps s n : okst s -> steps dinv s (fst (set_head s n)) /\ okst (fst (set_head s n)).
Proof.
  intros O. unfold set_head. destruct (nb s n) as [h| | |] eqn:E; cbn [fst]; try (apply ok_refl; auto).
  destruct O as (M & P & D). apply nb_found_inv in E; auto. destruct E as (Hn & -> & _).
  assert (O : okst s) by (split_and!; auto).
  pose proof (ok_set_headp s n O Hn) as T1.
  pose proof (ok_set_hsh _ (h_height (c n)) (proj2 T1)) as T2.
  pose proof (ok_put_head _ n (proj2 T2) Hn) as T3.
  pose proof (ok_trans _ _ _ (ok_trans _ _ _ T1 T2) T3) as T. clear T1 T2 T3.
  set (s1 := write (set_hsh (set_headp s (Some (c n))) (h_height (c n))) [WPutHead (h_id (c n))]) in *.
  unfold put_tail_ptr. destruct (tailp s1) as [tl|] eqn:Et; auto.
  destruct (proj2 T) as (_ & P1 & _). destruct (P1 tl (or_intror Et)) as (m & Hm & ->).
  eapply ok_trans; [exact T|]. apply ok_put_tail; auto. apply T.
Qed.

Lemma wipe_steps s : okst s -> steps dinv s (wipe s) /\ okst (wipe s).
Proof.
  intros O. unfold wipe. pose proof (ok_deinit s O) as T1.
  pose proof (ok_del_head _ (proj2 T1)) as T2. pose proof (ok_del_tail _ (proj2 T2)) as T3.
  eapply ok_trans; [exact T1|]. eapply ok_trans; [exact T2|exact T3].
Qed.

Lemma delete_seq_ok script nh cnt s n log : okst s ->
  steps dinv s (fst (fst (fst (delete_seq s script nh n cnt log)))) /\
  okst (fst (fst (fst (delete_seq s script nh n cnt log)))).
Proof.
  intros (M & P & D). pose proof (delete_seq_steps script nh cnt s n log M D) as H.
  destruct (delete_seq s script nh n cnt log) as [[[s' l] a] ok]. cbn [fst].
  destruct H as (T & M' & E1 & E2). split; auto. split_and!; auto.
  - intros h. rewrite E1, E2. apply P.
  - apply (steps_P dinv dinv_disk_pred s s'); auto.
Qed.

(** DeleteRange, whatever branch it takes *)
Theorem delete_range_synced_steps s script nh from to : okst s ->
  steps dinv s (fst (fst (delete_range_synced s script nh from to))) /\
  okst (fst (fst (delete_range_synced s script nh from to))).
Proof.
  intros O. unfold delete_range_synced.
  destruct (headp s) as [hd|] eqn:Ehd; [|cbn; apply ok_refl; auto].
  destruct (tailp s) as [tl|] eqn:Etl; [|cbn; apply ok_refl; auto]. cbv zeta.
  destruct (to <=? from); [cbn; apply ok_refl; auto|].
  destruct (_ || _); [cbn; apply ok_refl; auto|].
  destruct (_ && _ && _).
  { pose proof (delete_seq_ok script nh (N.to_nat (to - from)) s from [] O) as T1.
    destruct (delete_seq s script nh from (N.to_nat (to - from)) []) as [[[s1 lg] a] ok]. cbn [fst] in T1.
    destruct ok; cbn [fst].
    - eapply ok_trans; [exact T1|apply wipe_steps, T1].
    - eapply ok_trans; [exact T1|apply set_tail_steps, T1]. }
  destruct (_ && _); [cbn; apply ok_refl; auto|].
  destruct (_ && _ && _); [cbn; apply ok_refl; auto|].
  destruct (_ && _); [cbn; apply ok_refl; auto|].
  destruct (from =? h_height tl).
  { pose proof (delete_seq_ok script nh (N.to_nat (to - from)) s from [] O) as T1.
    destruct (delete_seq s script nh from (N.to_nat (to - from)) []) as [[[s1 lg] a] ok]. cbn [fst] in T1.
    pose proof (set_tail_steps s1 a (proj2 T1)) as T2.
    destruct (set_tail s1 a) as [s2 tok]. cbn [fst] in *. eapply ok_trans; eauto. }
  destruct (nb s (from - 1)) as [nh'| | |] eqn:En; try (cbn; apply ok_refl; auto).
  destruct O as (M & P & D). destruct (P hd (or_introl Ehd)) as (H & HH & ->).
  destruct (P tl (or_intror Etl)) as (T & HT & ->).
  apply nb_found_inv in En; auto. destruct En as (Hf & -> & _).
  assert (O : okst s) by (split_and!; auto).
  set (s0 := write s [WPutTail (h_id (c T)); WPutHead (h_id (c (from - 1)))]).
  assert (T0 : steps dinv s s0 /\ okst s0).
  { assert (D0 : dinv s0).
    { destruct D as [A B C D']. split; cbn; auto; intros id [= <-]; eauto. }
    split; [apply steps_write1; auto|]. split_and!; auto.
    eapply minv_ext; eauto. unfold same_maps. cbn. tauto. }
  pose proof (delete_seq_ok script nh (N.to_nat (to - from)) s0 from [] (proj2 T0)) as T1.
  destruct (delete_seq s0 script nh from (N.to_nat (to - from)) []) as [[[s1 lg] a] ok]. cbn [fst] in T1.
  destruct (from <? a).
  - pose proof (set_head_steps s1 (from - 1) (proj2 T1)) as T2.
    destruct (set_head s1 (from - 1)) as [s2 hok]. cbn [fst] in *.
    eapply ok_trans; [exact T0|]. eapply ok_trans; eauto.
  - cbn [fst]. eapply ok_trans; [exact T0|]. eapply ok_trans; [exact T1|].
    apply ok_put_head; auto. apply T1.
Qed.

(** Start: reads the two pointer keys, dropping a pointer whose header is missing *)
Lemma start_steps s : dinv s -> steps dinv s (start s) /\ dinv (start s).
Proof.
  intros D. unfold start.
  assert (T1 : steps dinv s (read_head s) /\ dinv (read_head s)).
  { unfold read_head. destruct (d_head s); [|split; auto; apply st_refl].
    destruct (get s n) eqn:E.
    - split; [eapply st_mem; [apply mem_set_headp|apply steps_mem1, mem_set_hsh]|].
      apply (dinv_disk_pred s); auto. unfold disk_eq. cbn. tauto.
    - split; [apply steps_write1|]; apply dinv_del_head; auto.
    - split; [apply steps_write1|]; apply dinv_del_head; auto.
    - split; [apply steps_write1|]; apply dinv_del_head; auto. }
  destruct T1 as [T1 D1]. set (s1 := read_head s) in *.
  assert (T2 : steps dinv s1 (read_tail s1) /\ dinv (read_tail s1)).
  { unfold read_tail. destruct (d_tail s1); [|split; auto; apply st_refl].
    destruct (get s1 n) eqn:E.
    - split; [apply steps_mem1, mem_set_tailp|].
      apply (dinv_disk_pred s1); auto. unfold disk_eq. cbn. tauto.
    - split; [apply steps_write1|]; apply dinv_del_tail; auto.
    - split; [apply steps_write1|]; apply dinv_del_tail; auto.
    - split; [apply steps_write1|]; apply dinv_del_tail; auto. }
  destruct T2 as [T2 D2]. split; auto. eapply steps_trans; eauto.
Qed.

End traces.
