(** Step lemmas for Stop/Start (same object) and Stop/reopen: a clean restart
    preserves the refinement relation with the same specification state. *)
From Coq Require Import NArith List Bool Lia ZifyBool ZifyN ZifyNat.
From stdpp Require Import gmap.
From GH Require Import Base.Prelude Model.Store Model.StoreSpec.
From GH Require Import Proofs.StoreP Proofs.StoreClimbP Proofs.StoreInvP Proofs.StoreAppendP.
Import ListNotations.
Open Scope N_scope.

Section chain.
Context {c : N -> hdr} {U : N} {CH : chain_hyps c U}.
Notation inr := (inr U).
Notation minv := (minv c U).
Notation pchain := (pchain c U).
Notation pstored := (pstored c).
Notation pinv := (pinv c U).
Notation inv := (inv c U).

Lemma advance_head_id s sp : pinv s sp -> advance_head s = s.
Proof.
  intros I. pose proof (inv_pstored s sp I) as PS. destruct I as [M HS P].
  unfold ptrs_core in P. unfold advance_head.
  destruct (sHT sp) as [[T H]|] eqn:EHT.
  - destruct P as (P1 & P2 & P3 & P4 & P5 & P6 & P7). rewrite P1.
    assert (HH : inr H) by (apply (stored_inr s _ M), P5; lia).
    unfold fuel_of. cbn [next_head]. rewrite (@ch_height c U CH) by auto.
    pose proof (@ch_bound c U CH). rewrite wrap64_small by (destruct HH; lia).
    rewrite nb_not_stored; auto.
  - destruct P as (-> & _). reflexivity.
Qed.

Lemma recede_tail_id s sp : pinv s sp -> recede_tail s = s.
Proof.
  intros I. pose proof (inv_pstored s sp I) as PS. destruct I as [M HS P].
  unfold ptrs_core in P. unfold recede_tail.
  destruct (sHT sp) as [[T H]|] eqn:EHT.
  - destruct P as (P1 & P2 & P3 & P4 & P5 & P6 & P7). rewrite P2.
    assert (HT : inr T) by (apply (stored_inr s _ M), P5; lia).
    unfold fuel_of. cbn [next_tail]. rewrite (@ch_height c U CH) by auto.
    rewrite sub64_1 by (destruct HT; lia).
    rewrite nb_not_stored; auto.
  - destruct P as (_ & -> & _). reflexivity.
Qed.

(** all fields but [wlog] / [batch] equal *)
Definition same_state (s s' : st) : Prop :=
  same_maps s s' /\ same_dptrs s s' /\ headp s' = headp s /\ tailp s' = tailp s /\ hsh s' = hsh s.

Lemma same_state_pinv s s' sp : same_state s s' -> pinv s sp -> pinv s' sp.
Proof.
  intros (SM & SD & E1 & E2 & E3) [M HS P]. split.
  - eapply minv_ext; eauto.
  - intros n. rewrite (same_maps_stored s s' n SM). auto.
  - unfold ptrs_core in *. destruct SD as [E4 E5]. rewrite E1, E2, E3, E4, E5.
    destruct (sHT sp) as [[T H]|]; auto. rewrite !(same_maps_stored s s' _ SM).
    destruct P as (P1 & P2 & P3 & P4 & P5 & P6 & P7). split_and!; auto;
    intros n Hn; rewrite (same_maps_stored s s' n SM); auto.
Qed.

Lemma same_state_inv s s' sp : same_state s s' -> inv s sp -> inv s' sp.
Proof.
  intros SS [I DK]. split; [eapply same_state_pinv; eauto|].
  destruct SS as ((E1 & _) & (E4 & E5) & _). unfold disk_ok in *.
  destruct (sHT sp) as [[T H]|]; auto. rewrite E1, E4, E5. auto.
Qed.

(** the final flush of Stop *)
Lemma flush_none_inv s sp : inv s sp ->
  exists s4, flush_one s None = (s4, Ok) /\ inv s4 sp /\ pend_h s4 = ∅.
Proof.
  intros I. unfold flush_one. cbv zeta. cbn [ensure_init andb].
  set (s2 := pend_add s []).
  assert (SS : same_state s s2) by (unfold same_state, same_maps, same_dptrs; split_and!; reflexivity).
  pose proof (same_state_inv s s2 sp SS I) as [I2 DK2].
  rewrite (advance_head_id s2 sp I2), (recede_tail_id s2 sp I2). rewrite andb_false_r.
  destruct (Nat.eqb_spec (size (pend_h s2)) 0) as [Hz|Hz].
  - exists s2. split_and!; auto; try (apply map_size_empty_inv; auto); split; auto.
  - exists (commit s2). split_and!; auto; try (apply commit_inv; auto); apply commit_fields.
Qed.

(** Store.Sync: writes the pending batch out; same specification state *)
Lemma sync_inv s sp : inv s sp -> inv (sync s) sp /\ pend_h (sync s) = ∅.
Proof.
  intros I. destruct (flush_none_inv s sp I) as (s4 & E & I4 & Hp). unfold sync. rewrite E. auto.
Qed.

(** a stopped store: no pending writes, in-memory pointers cleared, disk pointers in place *)
Definition stopped (s : st) (sp : spec) : Prop :=
  minv s /\ (forall n, n ∈ sS sp <-> stored s n) /\
  headp s = None /\ tailp s = None /\ hsh s = 0 /\
  match sHT sp with
  | None => d_head s = None /\ d_tail s = None
  | Some (T, H) => d_head s = Some (h_id (c H)) /\ d_tail s = Some (h_id (c T)) /\ T <= H /\
                   (forall n, T <= n <= H -> stored s n) /\ ~ stored s (H + 1) /\ ~ stored s (T - 1)
  end.

Lemma deinit_stopped s sp : inv s sp -> pend_h s = ∅ -> stopped (deinit s) sp.
Proof.
  intros [[M HS P] DK] Hp. unfold stopped, ptrs_core, disk_ok in *.
  assert (SM : same_maps s (deinit s)) by (unfold same_maps; split_and!; reflexivity).
  split_and!; try reflexivity.
  - eapply minv_ext; eauto.
  - intros n. rewrite (same_maps_stored s (deinit s) n SM). auto.
  - destruct (sHT sp) as [[T H]|].
    + destruct P as (P1 & P2 & P3 & P4 & P5 & P6 & P7). destruct (DK Hp) as [D1 D2].
      rewrite !(same_maps_stored s (deinit s) _ SM). split_and!; auto;
      intros n Hn; rewrite (same_maps_stored s (deinit s) n SM); auto.
    + destruct P as (_ & _ & _ & P4 & P5). auto.
Qed.

Lemma fresh_stopped s sp : stopped s sp -> pend_h s = ∅ -> stopped (fresh s) sp.
Proof.
  intros (M & HS & E1 & E2 & E3 & P) Hp. unfold stopped.
  assert (St : forall n, stored (fresh s) n <-> stored s n).
  { intros n. unfold stored. cbn [fresh pend_h d_idx]. rewrite Hp. tauto. }
  split_and!; try reflexivity.
  - destruct M as [A B C D E]. split; cbn [fresh pend_h pend_i d_hdr d_idx]; auto.
    + intros n h. rewrite lookup_empty. discriminate.
    + intros id n. rewrite lookup_empty. discriminate.
    + intros n h. rewrite lookup_empty. discriminate.
  - intros n. rewrite St. auto.
  - destruct (sHT sp) as [[T H]|]; auto. rewrite !St. cbn [fresh d_head d_tail].
    destruct P as (P1 & P2 & P3 & P4 & P5 & P6). split_and!; auto; intros n Hn; apply St; auto.
Qed.

Lemma start_inv s sp : stopped s sp -> inv (start s) sp.
Proof.
  intros (M & HS & E1 & E2 & E3 & P). unfold start.
  destruct (sHT sp) as [[T H]|] eqn:EHT.
  - destruct P as (P1 & P2 & P3 & P4 & P5 & P6).
    assert (HH : inr H) by (apply (stored_inr s _ M), P4; lia).
    assert (HT : inr T) by (apply (stored_inr s _ M), P4; lia).
    unfold read_head. rewrite P1. rewrite (get_stored s H M) by (apply P4; lia).
    rewrite (@ch_height c U CH) by auto.
    set (s1 := set_hsh (set_headp s (Some (c H))) H).
    assert (M1 : minv s1) by (eapply minv_ext; eauto; unfold same_maps; split_and!; reflexivity).
    unfold read_tail. change (d_tail s1) with (d_tail s). rewrite P2.
    rewrite (get_stored s1 T M1) by (apply P4; lia).
    set (s2 := set_tailp s1 (Some (c T))).
    assert (SM : same_maps s s2) by (unfold same_maps; split_and!; reflexivity).
    split; [split|].
    + eapply minv_ext; eauto.
    + intros n. rewrite (same_maps_stored s s2 n SM). auto.
    + unfold ptrs_core. rewrite EHT. rewrite !(same_maps_stored s s2 _ SM).
      split_and!; auto; try reflexivity; intros n Hn; rewrite (same_maps_stored s s2 n SM); auto.
    + unfold disk_ok. rewrite EHT. intros _. auto.
  - destruct P as (P1 & P2). unfold read_head. rewrite P1. unfold read_tail. rewrite P2.
    split; [split; auto|].
    + unfold ptrs_core. rewrite EHT. auto.
    + unfold disk_ok. rewrite EHT. exact I.
Qed.

(** the two restart operations *)
Theorem restart_refines s sp : inv s sp ->
  exists s', step s ORestart = (s', [], Ok) /\ inv s' sp.
Proof.
  intros I. destruct (flush_none_inv s sp I) as (s4 & E & I4 & Hp).
  cbn [step]. unfold stop. rewrite E. eexists. split; [reflexivity|].
  apply start_inv. apply deinit_stopped; auto.
Qed.

Theorem reopen_refines s sp : inv s sp ->
  exists s', step s OReopen = (s', [], Ok) /\ inv s' sp.
Proof.
  intros I. destruct (flush_none_inv s sp I) as (s4 & E & I4 & Hp).
  cbn [step]. unfold stop. rewrite E. eexists. split; [reflexivity|].
  apply start_inv. apply fresh_stopped; [apply deinit_stopped; auto|exact Hp].
Qed.

End chain.
