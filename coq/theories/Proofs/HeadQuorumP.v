(** Proofs about the model of Exchange.Head (Model/HeadQuorum.v). *)
From GH Require Import Base.Prelude Model.Verify Model.HeadQuorum.
From Coq Require Import Permutation ZifyBool ZifyNat ZifyN Arith.
Local Open Scope nat_scope.

(** * 1. quorum arithmetic *)

Lemma min_resp_small n : n <= 2 -> min_resp n = n.
Proof. intros H. unfold min_resp. destruct (Nat.leb_spec n 2); [reflexivity | lia]. Qed.

Lemma min_resp_big_eq n : 3 <= n -> min_resp n = (n * 2 + 2) / 3.
Proof. intros H. unfold min_resp. destruct (Nat.leb_spec n 2); [lia | reflexivity]. Qed.

Lemma min_resp_big n : 3 <= n ->
  2 * n <= 3 * min_resp n /\ forall k, 2 * n <= 3 * k -> min_resp n <= k.
Proof.
  intros H. rewrite (min_resp_big_eq n H).
  pose proof (Nat.div_mod (n * 2 + 2) 3 ltac:(lia)) as E.
  pose proof (Nat.mod_upper_bound (n * 2 + 2) 3 ltac:(lia)) as B.
  split; [lia | intros k Hk; lia].
Qed.

Lemma min_resp_le n : min_resp n <= n.
Proof.
  destruct (le_lt_dec n 2) as [H|H]; [rewrite min_resp_small; lia|].
  rewrite (min_resp_big_eq n ltac:(lia)).
  pose proof (Nat.div_mod (n * 2 + 2) 3 ltac:(lia)) as E.
  pose proof (Nat.mod_upper_bound (n * 2 + 2) 3 ltac:(lia)) as B. lia.
Qed.

Lemma min_resp_majority n : 1 <= n -> n < 2 * min_resp n.
Proof.
  intros H1. destruct (le_lt_dec n 2) as [H|H]; [rewrite min_resp_small; lia|].
  pose proof (min_resp_big n ltac:(lia)) as [A _]. lia.
Qed.

Lemma min_resp_pos n : 1 <= n -> 1 <= min_resp n.
Proof. intros H. pose proof (min_resp_majority n H). lia. Qed.

Theorem quorum_arith n :
  (n <= 2 -> min_resp n = n) /\
  (3 <= n -> 2 * n <= 3 * min_resp n /\ forall k, 2 * n <= 3 * k -> min_resp n <= k) /\
  min_resp n <= n /\
  (1 <= n -> 1 <= min_resp n /\ n < 2 * min_resp n).
Proof.
  split; [apply min_resp_small|]. split; [apply min_resp_big|]. split; [apply min_resp_le|].
  intros H. split; [now apply min_resp_pos | now apply min_resp_majority].
Qed.

(** * 2. the collecting loop against a declarative reading of the channel *)

(** does answer [a] carry a (non-zero) header with hash [id]? *)
Definition hit (id : N) (a : ans) : nat :=
  match a with
  | AHdr h _ => if h_nil h then 0 else if (h_id h =? id)%N then 1 else 0
  | NoHdr => 0
  end.

(** how many of the answers [l] carry a header with hash [id] *)
Fixpoint count_id (id : N) (l : list ans) : nat :=
  match l with [] => 0 | a :: r => hit id a + count_id id r end.

(** the headers supplied by the answers [l], in order *)
Fixpoint hdrs_of (l : list ans) : list hdr :=
  match l with
  | [] => []
  | AHdr h _ :: r => if h_nil h then hdrs_of r else h :: hdrs_of r
  | NoHdr :: r => hdrs_of r
  end.

Definition own_soft (id : N) (a : ans) : option verr :=
  match a with
  | AHdr h (Some v) => if h_nil h then None else if (h_id h =? id)%N then Some v else None
  | _ => None
  end.

(** the soft error on record for hash [id] once the answers [l] were consumed:
    that of the LAST answer with this hash that carried one *)
Fixpoint last_soft (id : N) (l : list ans) : option verr :=
  match l with
  | [] => None
  | a :: r => match last_soft id r with Some v => Some v | None => own_soft id a end
  end.

(** no header among the answers [l] has been reported [q] times *)
Definition no_quorum (q : nat) (l : list ans) : Prop :=
  forall id, 0 < count_id id l -> count_id id l < q.

Definition has_quorum (q : nat) (l : list ans) : Prop :=
  exists id, 0 < count_id id l /\ q <= count_id id l.

Lemma count_id_app id l1 l2 : count_id id (l1 ++ l2) = count_id id l1 + count_id id l2.
Proof. induction l1 as [|a l1 IH]; cbn [app count_id]; lia. Qed.

Lemma hdrs_of_app l1 l2 : hdrs_of (l1 ++ l2) = hdrs_of l1 ++ hdrs_of l2.
Proof.
  induction l1 as [|a l1 IH]; cbn [app hdrs_of]; [reflexivity|].
  destruct a as [|h e]; [exact IH|]. destruct (h_nil h); [exact IH|]. cbn. now rewrite IH.
Qed.

Lemma last_soft_app id l1 l2 :
  last_soft id (l1 ++ l2) = match last_soft id l2 with Some v => Some v | None => last_soft id l1 end.
Proof.
  induction l1 as [|a l1 IH]; cbn [app last_soft].
  - destruct (last_soft id l2); reflexivity.
  - rewrite IH. destruct (last_soft id l2); [reflexivity|]. reflexivity.
Qed.

Lemma hit_le1 id a : hit id a <= 1.
Proof. unfold hit. destruct a as [|h e]; [lia|]. destruct (h_nil h); [lia|]. destruct (h_id h =? id)%N; lia. Qed.

Lemma hit_AHdr h e : h_nil h = false -> hit (h_id h) (AHdr h e) = 1.
Proof. intros H. unfold hit. rewrite H, N.eqb_refl. reflexivity. Qed.

Lemma hit_other id h e : h_id h <> id -> hit id (AHdr h e) = 0.
Proof. intros H. unfold hit. destruct (h_nil h); [reflexivity|]. destruct (N.eqb_spec (h_id h) id); [contradiction | reflexivity]. Qed.

Lemma no_quorum_prefix q l1 l2 : no_quorum q (l1 ++ l2) -> no_quorum q l1.
Proof. intros H id Hp. specialize (H id). rewrite count_id_app in H. lia. Qed.

(** the state after consuming the answers [p] *)
Definition inv (s : st) (p : list ans) : Prop :=
  s_hdrs s = hdrs_of p /\
  (forall id, cnt_get id (s_cnt s) = count_id id p) /\
  (forall id, soft_get id (s_soft s) = last_soft id p).

Lemma inv0 : inv st0 [].
Proof. repeat split. Qed.

Lemma cnt_get_incr id i c :
  cnt_get id (cnt_incr i c) = cnt_get id c + (if (i =? id)%N then 1 else 0).
Proof.
  induction c as [|[j k] c IH]; cbn [cnt_incr cnt_get].
  - destruct (i =? id)%N; reflexivity.
  - destruct (N.eqb_spec j i) as [->|Hji]; cbn [cnt_get].
    + destruct (N.eqb_spec i id); lia.
    + destruct (N.eqb_spec j id) as [->|Hj].
      * destruct (N.eqb_spec i id); [congruence | lia].
      * exact IH.
Qed.

Lemma inv_add s p h e : inv s p -> h_nil h = false -> inv (st_add s h e) (p ++ [AHdr h e]).
Proof.
  intros (Hh & Hc & Hs) Hn. unfold st_add. repeat split; cbn [s_hdrs s_cnt s_soft].
  - rewrite hdrs_of_app, Hh. cbn [hdrs_of]. rewrite Hn. reflexivity.
  - intros id. rewrite cnt_get_incr, count_id_app, Hc. cbn [count_id hit]. rewrite Hn. lia.
  - intros id. rewrite last_soft_app. cbn [last_soft own_soft]. rewrite Hn.
    destruct e as [v|]; cbn [soft_set soft_get].
    + destruct (h_id h =? id)%N; [reflexivity | apply Hs].
    + apply Hs.
Qed.

Lemma inv_skip s p a : inv s p -> (a = NoHdr \/ exists h e, a = AHdr h e /\ h_nil h = true) -> inv s (p ++ [a]).
Proof.
  intros (Hh & Hc & Hs) Ha. repeat split.
  - rewrite hdrs_of_app, Hh. destruct Ha as [->|(h & e & -> & Hn)]; cbn [hdrs_of]; rewrite ?Hn, app_nil_r; reflexivity.
  - intros id. rewrite count_id_app, Hc. destruct Ha as [->|(h & e & -> & Hn)]; cbn [count_id hit]; rewrite ?Hn; lia.
  - intros id. rewrite last_soft_app, Hs. destruct Ha as [->|(h & e & -> & Hn)]; cbn [last_soft own_soft]; [reflexivity|].
    destruct e; rewrite ?Hn; reflexivity.
Qed.

(** what Head returns once all answers [l] were consumed without a quorum *)
Definition finish_spec (l : list ans) : list outcome :=
  match hdrs_of l with
  | [] => [ONotFound]
  | _ => map (fun h => OHead h (last_soft (h_id h) l))
             (filter (fun h => (h_height h =? max_height (hdrs_of l))%N) (hdrs_of l))
  end.

Lemma finish_inv s p : inv s p -> finish s = finish_spec p.
Proof.
  intros (Hh & _ & Hs). unfold finish, finish_spec. rewrite Hh.
  destruct (hdrs_of p) as [|x0 xs0]; [reflexivity|]. apply map_ext. intros y. now rewrite Hs.
Qed.

Lemma app_cons_assoc {A} (p : list A) a l : p ++ a :: l = (p ++ [a]) ++ l.
Proof. now rewrite <- app_assoc. Qed.

(** A: the first answer that lifts a count to the quorum ends the loop *)
Lemma loop_quorum q : forall mid p s k used h e rest,
  inv s p -> no_quorum q (p ++ mid) -> length mid < k -> h_nil h = false ->
  q <= count_id (h_id h) (p ++ mid ++ [AHdr h e]) ->
  head_loop q k used s (mid ++ AHdr h e :: rest) =
  (used + length mid + 1, [OHead h (last_soft (h_id h) (p ++ mid ++ [AHdr h e]))]).
Proof.
  induction mid as [|a mid IH]; intros p s k used h e rest Hinv Hnq Hlen Hn Hq.
  - cbn [app length] in *. destruct k as [|k]; [lia|]. cbn [head_loop]. rewrite Hn.
    pose proof (inv_add s p h e Hinv Hn) as (_ & Hc & Hs). rewrite Hc, Hs.
    destruct (Nat.leb_spec q (count_id (h_id h) (p ++ [AHdr h e]))); [|lia].
    f_equal. lia.
  - cbn [app length] in *. destruct k as [|k]; [lia|].
    rewrite (app_cons_assoc p a mid) in Hnq. rewrite (app_cons_assoc p a (mid ++ [AHdr h e])) in Hq |- *.
    assert (Hstep : forall s', inv s' (p ++ [a]) ->
      head_loop q k (S used) s' (mid ++ AHdr h e :: rest) =
      (used + S (length mid) + 1, [OHead h (last_soft (h_id h) ((p ++ [a]) ++ mid ++ [AHdr h e]))])).
    { intros s' Hinv'. rewrite (IH (p ++ [a]) s' k (S used) h e rest Hinv' Hnq ltac:(lia) Hn Hq). f_equal. lia. }
    cbn [head_loop]. destruct a as [|h' e'].
    + apply Hstep. apply inv_skip; auto.
    + destruct (h_nil h') eqn:Hn'.
      * apply Hstep. apply inv_skip; eauto.
      * pose proof (inv_add s p h' e' Hinv Hn') as Hinv'. pose proof Hinv' as (_ & Hc & _). rewrite Hc.
        pose proof (no_quorum_prefix q _ _ Hnq (h_id h')) as Hlt.
        assert (0 < count_id (h_id h') (p ++ [AHdr h' e'])).
        { rewrite count_id_app. cbn [count_id]. rewrite hit_AHdr by assumption. lia. }
        destruct (Nat.leb_spec q (count_id (h_id h') (p ++ [AHdr h' e']))); [lia|].
        apply Hstep. exact Hinv'.
Qed.

(** B + C: without a quorum the loop runs through its [k] iterations, or the
    context ends first *)
Lemma loop_no_quorum q : forall arr p s k used,
  inv s p -> no_quorum q (p ++ arr) -> length arr <= k ->
  head_loop q k used s arr =
  (used + length arr, if length arr <? k then [OCtx] else finish_spec (p ++ arr)).
Proof.
  induction arr as [|a arr IH]; intros p s k used Hinv Hnq Hlen.
  - cbn [length] in *. rewrite app_nil_r, Nat.add_0_r. destruct k as [|k]; cbn [head_loop].
    + rewrite (finish_inv s p Hinv). reflexivity.
    + reflexivity.
  - cbn [length] in *. destruct k as [|k]; [lia|].
    rewrite (app_cons_assoc p a arr) in Hnq |- *.
    assert (Hstep : forall s', inv s' (p ++ [a]) ->
      head_loop q k (S used) s' arr =
      (used + S (length arr), if S (length arr) <? S k then [OCtx] else finish_spec ((p ++ [a]) ++ arr))).
    { intros s' Hinv'. rewrite (IH (p ++ [a]) s' k (S used) Hinv' Hnq ltac:(lia)).
      replace (S used + length arr) with (used + S (length arr)) by lia.
      destruct (Nat.ltb_spec (length arr) k), (Nat.ltb_spec (S (length arr)) (S k)); try lia; reflexivity. }
    cbn [head_loop]. destruct a as [|h' e'].
    + apply Hstep. apply inv_skip; auto.
    + destruct (h_nil h') eqn:Hn'.
      * apply Hstep. apply inv_skip; eauto.
      * pose proof (inv_add s p h' e' Hinv Hn') as Hinv'. pose proof Hinv' as (_ & Hc & _). rewrite Hc.
        pose proof (no_quorum_prefix q _ _ Hnq (h_id h')) as Hlt.
        assert (0 < count_id (h_id h') (p ++ [AHdr h' e'])).
        { rewrite count_id_app. cbn [count_id]. rewrite hit_AHdr by assumption. lia. }
        destruct (Nat.leb_spec q (count_id (h_id h') (p ++ [AHdr h' e']))); [lia|].
        apply Hstep. exact Hinv'.
Qed.

(** * 3. deciding whether a quorum exists; the first quorum *)

Lemma in_hdrs_of h l : In h (hdrs_of l) <-> exists e, In (AHdr h e) l /\ h_nil h = false.
Proof.
  induction l as [|a l IH]; cbn [hdrs_of].
  - split; [intros [] | intros (e & [] & _)].
  - destruct a as [|h' e'].
    + rewrite IH. split; intros (e & Hin & Hn); exists e; split; auto; [now right|].
      destruct Hin as [Hx|Hx]; [discriminate | exact Hx].
    + destruct (h_nil h') eqn:Hn'.
      * rewrite IH. split; intros (e & Hin & Hn); exists e; split; auto; [now right|].
        destruct Hin as [Hx|Hx]; [injection Hx as -> _; congruence | exact Hx].
      * cbn [In]. rewrite IH. split.
        -- intros [->|(e & Hin & Hn)]; [exists e'; split; auto; now left | exists e; split; auto; now right].
        -- intros (e & [Hx|Hx] & Hn); [injection Hx as -> _; now left | right; eauto].
Qed.

Lemma count_pos_in id l : 0 < count_id id l -> exists h, In h (hdrs_of l) /\ h_id h = id.
Proof.
  induction l as [|a l IH]; cbn [count_id hdrs_of]; [lia|]. intros H.
  destruct a as [|h e]; cbn [hit] in H.
  - apply IH. lia.
  - destruct (h_nil h).
    + apply IH. lia.
    + destruct (N.eqb_spec (h_id h) id) as [E|E].
      * exists h. split; [now left | exact E].
      * destruct (IH ltac:(lia)) as (h' & Hin & E'). exists h'. split; [now right | exact E'].
Qed.

Lemma in_count_pos h e l : In (AHdr h e) l -> h_nil h = false -> 0 < count_id (h_id h) l.
Proof.
  induction l as [|a l IH]; [intros []|]. intros [->|Hin] Hn; cbn [count_id].
  - rewrite hit_AHdr by assumption. lia.
  - specialize (IH Hin Hn). lia.
Qed.

(** boolean reading of [no_quorum] *)
Definition nqb (q : nat) (l : list ans) : bool :=
  forallb (fun h => count_id (h_id h) l <? q) (hdrs_of l).

Lemma nqb_true q l : nqb q l = true <-> no_quorum q l.
Proof.
  unfold nqb. rewrite forallb_forall. split.
  - intros H id Hp. destruct (count_pos_in id l Hp) as (h & Hin & <-).
    specialize (H h Hin). apply Nat.ltb_lt in H. exact H.
  - intros H h Hin. apply Nat.ltb_lt. apply H.
    apply in_hdrs_of in Hin as (e & Hin & Hn). eapply in_count_pos; eauto.
Qed.

Lemma forallb_false {A} (f : A -> bool) l : forallb f l = false -> exists x, In x l /\ f x = false.
Proof.
  induction l as [|a l IH]; cbn [forallb]; [discriminate|].
  destruct (f a) eqn:E; cbn [andb].
  - intros H. destruct (IH H) as (x & Hin & Hx). exists x. split; [now right | exact Hx].
  - intros _. exists a. split; [now left | exact E].
Qed.

Lemma nqb_false q l : nqb q l = false -> has_quorum q l.
Proof.
  unfold nqb. intros H. apply forallb_false in H as (h & Hin & Hf).
  apply Nat.ltb_ge in Hf. exists (h_id h). split; [|exact Hf].
  apply in_hdrs_of in Hin as (e & Hin & Hn). eapply in_count_pos; eauto.
Qed.

Lemma quorum_or_not q l : no_quorum q l \/ has_quorum q l.
Proof. destruct (nqb q l) eqn:E; [left; now apply nqb_true | right; now apply nqb_false]. Qed.

Lemma quorum_excl q l : no_quorum q l -> has_quorum q l -> False.
Proof. intros Hn (id & Hp & Hq). specialize (Hn id Hp). lia. Qed.

(** the shortest prefix containing a quorum ends with the header that has it *)
Lemma first_quorum q l : has_quorum q l ->
  exists mid h e rest, l = mid ++ AHdr h e :: rest /\ no_quorum q mid /\ h_nil h = false /\
                       q <= count_id (h_id h) (mid ++ [AHdr h e]).
Proof.
  induction l as [|a l IH] using rev_ind.
  - intros (id & Hp & _). cbn in Hp. lia.
  - intros (id & Hp & Hq). destruct (quorum_or_not q l) as [Hnq|Hhq].
    + rewrite count_id_app in Hp, Hq. cbn [count_id] in Hp, Hq. rewrite Nat.add_0_r in Hp, Hq.
      assert (Hhit : hit id a = 1).
      { pose proof (hit_le1 id a). destruct (Nat.eq_dec (hit id a) 1); [assumption|].
        assert (hit id a = 0) as E0 by lia. rewrite E0, Nat.add_0_r in Hp, Hq. specialize (Hnq id Hp). lia. }
      rewrite Hhit in Hq.
      destruct a as [|h e]; [discriminate|]. cbn [hit] in Hhit.
      destruct (h_nil h) eqn:Hn; [discriminate|].
      destruct (N.eqb_spec (h_id h) id) as [<-|]; [|discriminate].
      exists l, h, e, []. repeat split; auto.
      rewrite count_id_app. cbn [count_id]. rewrite hit_AHdr by assumption. lia.
    + destruct (IH Hhq) as (mid & h & e & rest & -> & Hnq & Hn & Hq').
      exists mid, h, e, (rest ++ [a]). repeat split; auto. now rewrite <- app_assoc.
Qed.

(** * 4. Head against the declarative reading *)

Lemma head_run_quorum n mid h e rest :
  length mid < n -> no_quorum (min_resp n) mid -> h_nil h = false ->
  min_resp n <= count_id (h_id h) (mid ++ [AHdr h e]) ->
  head_run n (mid ++ AHdr h e :: rest) =
  (length mid + 1, [OHead h (last_soft (h_id h) (mid ++ [AHdr h e]))]).
Proof.
  intros Hlen Hnq Hn Hq. unfold head_run.
  exact (loop_quorum (min_resp n) mid [] st0 n 0 h e rest inv0 Hnq Hlen Hn Hq).
Qed.

Lemma head_run_no_quorum n arr :
  length arr <= n -> no_quorum (min_resp n) arr ->
  head_run n arr = (length arr, if length arr <? n then [OCtx] else finish_spec arr).
Proof.
  intros Hlen Hnq. unfold head_run.
  exact (loop_no_quorum (min_resp n) arr [] st0 n 0 inv0 Hnq Hlen).
Qed.

Lemma max_height_ge h l : In h l -> (h_height h <= max_height l)%N.
Proof. induction l as [|a l IH]; [intros []|]. intros [->|Hin]; cbn [max_height]; [lia|]. specialize (IH Hin). lia. Qed.

Lemma max_height_attained l : l <> [] -> exists h, In h l /\ h_height h = max_height l.
Proof.
  induction l as [|a l IH]; [congruence|]. intros _. cbn [max_height].
  destruct l as [|b l].
  - exists a. split; [now left|]. cbn [max_height]. lia.
  - destruct (IH ltac:(discriminate)) as (h & Hin & E).
    destruct (N.max_spec (h_height a) (max_height (b :: l))) as [[Hlt ->]|[Hge ->]].
    + exists h. split; [now right | exact E].
    + exists a. split; [now left | reflexivity].
Qed.

Lemma in_finish_spec l o : hdrs_of l <> [] ->
  (In o (finish_spec l) <->
   exists h, In h (hdrs_of l) /\ (forall h', In h' (hdrs_of l) -> (h_height h' <= h_height h)%N) /\
             o = OHead h (last_soft (h_id h) l)).
Proof.
  intros Hne. unfold finish_spec. destruct (hdrs_of l) as [|x xs] eqn:E; [congruence|]. rewrite <- E in *.
  rewrite in_map_iff. split.
  - intros (h & <- & Hin). apply filter_In in Hin as (Hin & Hm). apply N.eqb_eq in Hm.
    exists h. repeat split; auto. intros h' Hin'. rewrite Hm. now apply max_height_ge.
  - intros (h & Hin & Hmax & ->). exists h. split; [reflexivity|]. apply filter_In. split; [exact Hin|].
    apply N.eqb_eq. destruct (max_height_attained (hdrs_of l) Hne) as (m & Hinm & Em).
    pose proof (max_height_ge h _ Hin). specialize (Hmax m Hinm). lia.
Qed.

Lemma finish_spec_none l : hdrs_of l = [] -> finish_spec l = [ONotFound].
Proof. intros E. unfold finish_spec. now rewrite E. Qed.

(** ** soft errors on record *)

Lemma last_soft_some id l v : last_soft id l = Some v ->
  exists h, In (AHdr h (Some v)) l /\ h_nil h = false /\ h_id h = id.
Proof.
  induction l as [|a l IH]; cbn [last_soft]; [discriminate|].
  destruct (last_soft id l) as [v'|].
  - intros [= ->]. destruct (IH eq_refl) as (h & Hin & Hn & E). exists h. repeat split; auto. now right.
  - intros Ho. destruct a as [|h [w|]]; cbn [own_soft] in Ho; try discriminate.
    destruct (h_nil h) eqn:Hn; [discriminate|]. destruct (N.eqb_spec (h_id h) id); [|discriminate].
    injection Ho as ->. exists h. repeat split; auto. now left.
Qed.

Lemma last_soft_none id l : last_soft id l = None ->
  forall h v, In (AHdr h (Some v)) l -> h_nil h = false -> h_id h <> id.
Proof.
  induction l as [|a l IH]; cbn [last_soft]; [intros _ h v []|].
  destruct (last_soft id l) as [v'|]; [discriminate|]. intros Ho h v [->|Hin] Hn.
  - cbn [own_soft] in Ho. rewrite Hn in Ho. destruct (N.eqb_spec (h_id h) id); [discriminate | assumption].
  - exact (IH eq_refl h v Hin Hn).
Qed.

(** answers with the same hash are the same answer (the hash identifies the
    header, and the verdict on a header is a function of the header) *)
Definition consistent (l : list ans) : Prop :=
  forall h e h' e', In (AHdr h e) l -> In (AHdr h' e') l -> h_nil h = false -> h_nil h' = false ->
                    h_id h = h_id h' -> h = h' /\ e = e'.

Lemma consistent_incl l l' : incl l' l -> consistent l -> consistent l'.
Proof. intros Hi Hc h e h' e' H1 H2. apply Hc; auto. Qed.

Lemma last_soft_consistent l h e :
  consistent l -> In (AHdr h e) l -> h_nil h = false -> last_soft (h_id h) l = e.
Proof.
  intros Hc Hin Hn. destruct (last_soft (h_id h) l) as [v|] eqn:E.
  - apply last_soft_some in E as (h' & Hin' & Hn' & Eid).
    destruct (Hc h e h' (Some v) Hin Hin' Hn Hn' (eq_sym Eid)) as [_ ->]. reflexivity.
  - destruct e as [v|]; [|reflexivity]. exfalso. exact (last_soft_none _ _ E h v Hin Hn eq_refl).
Qed.

(** ** at most one hash can reach the quorum *)

Lemma count_two id1 id2 l : id1 <> id2 -> count_id id1 l + count_id id2 l <= length l.
Proof.
  intros Hne. induction l as [|a l IH]; cbn [count_id length]; [lia|].
  assert (hit id1 a + hit id2 a <= 1).
  { unfold hit. destruct a as [|h e]; [lia|]. destruct (h_nil h); [lia|].
    destruct (N.eqb_spec (h_id h) id1), (N.eqb_spec (h_id h) id2); try lia; congruence. }
  lia.
Qed.

Theorem quorum_unique n l id1 id2 :
  1 <= n -> length l <= n -> min_resp n <= count_id id1 l -> min_resp n <= count_id id2 l -> id1 = id2.
Proof.
  intros Hn Hlen H1 H2. destruct (N.eq_dec id1 id2) as [|Hne]; [assumption|]. exfalso.
  pose proof (count_two id1 id2 l Hne). pose proof (min_resp_majority n Hn). lia.
Qed.

(** ** the verdict as a function of the multiset of answers *)

Definition canon (n : nat) (arr : list ans) (o : outcome) : Prop :=
  (exists h e, In (AHdr h e) arr /\ h_nil h = false /\ min_resp n <= count_id (h_id h) arr /\ o = OHead h e)
  \/ (no_quorum (min_resp n) arr /\ length arr < n /\ o = OCtx)
  \/ (no_quorum (min_resp n) arr /\ length arr = n /\ hdrs_of arr = [] /\ o = ONotFound)
  \/ (no_quorum (min_resp n) arr /\ length arr = n /\
      exists h e, In (AHdr h e) arr /\ h_nil h = false /\
                  (forall h', In h' (hdrs_of arr) -> (h_height h' <= h_height h)%N) /\ o = OHead h e).

Lemma length_pos_n {A} (l : list A) n x : In x l -> length l <= n -> 1 <= n.
Proof. destruct l; [intros []|]. cbn. lia. Qed.

Lemma head_fold_canon n arr : length arr <= n -> consistent arr ->
  forall o, In o (head_fold n arr) <-> canon n arr o.
Proof.
  intros Hlen Hc o. unfold head_fold.
  destruct (quorum_or_not (min_resp n) arr) as [Hnq|Hhq].
  - rewrite (head_run_no_quorum n arr Hlen Hnq). cbn [snd].
    destruct (Nat.ltb_spec (length arr) n) as [Hlt|Hge].
    + split.
      * intros [<-|[]]. right; left. auto.
      * intros [(h & e & Hin & Hn & Hq & _)|[(_ & _ & ->)|[(_ & E & _)|(_ & E & _)]]]; try lia; [|now left].
        exfalso. pose proof (in_count_pos h e arr Hin Hn) as Hp. specialize (Hnq _ Hp). lia.
    + assert (length arr = n) as Hn by lia.
      destruct (hdrs_of arr) as [|x xs] eqn:Eh.
      * rewrite (finish_spec_none arr Eh). split.
        -- intros [<-|[]]. right; right; left. auto.
        -- intros [(h & e & Hin & Hnn & Hq & _)|[(_ & E & _)|[(_ & _ & _ & ->)|(_ & _ & h & e & Hin & Hnn & _)]]]; try lia; [| now left |].
           ++ exfalso. pose proof (in_count_pos h e arr Hin Hnn) as Hp. specialize (Hnq _ Hp). lia.
           ++ exfalso. assert (In h (hdrs_of arr)) as Hx by (apply in_hdrs_of; eauto). rewrite Eh in Hx. destruct Hx.
      * assert (hdrs_of arr <> []) as Hne by (rewrite Eh; discriminate).
        rewrite (in_finish_spec arr o Hne). split.
        -- intros (h & Hin & Hmax & ->). apply in_hdrs_of in Hin as (e & Hin & Hnn).
           rewrite (last_soft_consistent arr h e Hc Hin Hnn). right; right; right. repeat split; auto.
           exists h, e. repeat split; auto.
        -- intros [(h & e & Hin & Hnn & Hq & _)|[(_ & E & _)|[(_ & _ & E & _)|(_ & _ & h & e & Hin & Hnn & Hmax & ->)]]]; try lia.
           ++ exfalso. pose proof (in_count_pos h e arr Hin Hnn) as Hp. specialize (Hnq _ Hp). lia.
           ++ congruence.
           ++ exists h. split; [apply in_hdrs_of; eauto|]. split; [exact Hmax|].
              now rewrite (last_soft_consistent arr h e Hc Hin Hnn).
  - destruct (first_quorum _ _ Hhq) as (mid & h & e & rest & -> & Hnq & Hnn & Hq).
    assert (Hlm : length mid < n) by (rewrite app_length in Hlen; cbn in Hlen; lia).
    rewrite (head_run_quorum n mid h e rest Hlm Hnq Hnn Hq). cbn [snd].
    assert (Hin : In (AHdr h e) (mid ++ AHdr h e :: rest)) by (apply in_or_app; right; now left).
    assert (Hinc : incl (mid ++ [AHdr h e]) (mid ++ AHdr h e :: rest)).
    { intros x Hx. apply in_app_or in Hx as [Hx|[<-|[]]]; [apply in_or_app; now left | exact Hin]. }
    rewrite (last_soft_consistent (mid ++ [AHdr h e]) h e (consistent_incl _ _ Hinc Hc)
               ltac:(apply in_or_app; right; now left) Hnn).
    assert (Hqall : min_resp n <= count_id (h_id h) (mid ++ AHdr h e :: rest)).
    { rewrite app_cons_assoc, count_id_app. lia. }
    split.
    + intros [<-|[]]. left. exists h, e. auto.
    + intros [(h' & e' & Hin' & Hnn' & Hq' & ->)|[(Hx & _)|[(Hx & _)|(Hx & _)]]];
        try (exfalso; exact (quorum_excl _ _ Hx Hhq)).
      pose proof (length_pos_n _ _ _ Hin Hlen) as Hn1.
      pose proof (quorum_unique n _ _ _ Hn1 Hlen Hqall Hq') as Eid.
      destruct (Hc h e h' e' Hin Hin' Hnn Hnn' Eid) as [-> ->]. now left.
Qed.

Lemma count_id_perm id l l' : Permutation l l' -> count_id id l = count_id id l'.
Proof. induction 1; cbn [count_id]; lia. Qed.

Lemma hdrs_of_perm l l' : Permutation l l' -> Permutation (hdrs_of l) (hdrs_of l').
Proof.
  induction 1; cbn [hdrs_of].
  - constructor.
  - destruct x as [|h e]; [assumption|]. destruct (h_nil h); [assumption | now constructor].
  - destruct x as [|h e], y as [|h' e']; try reflexivity;
      try destruct (h_nil h); try destruct (h_nil h'); try reflexivity. constructor.
  - etransitivity; eassumption.
Qed.

Lemma no_quorum_perm q l l' : Permutation l l' -> no_quorum q l -> no_quorum q l'.
Proof. intros Hp H id. rewrite <- (count_id_perm id l l' Hp). apply H. Qed.

Lemma consistent_perm l l' : Permutation l l' -> consistent l -> consistent l'.
Proof.
  intros Hp Hc. apply (consistent_incl l l'); [|exact Hc].
  intros x Hx. eapply Permutation_in; [apply Permutation_sym; exact Hp | exact Hx].
Qed.

Lemma canon_perm n l l' o : Permutation l l' -> canon n l o -> canon n l' o.
Proof.
  intros Hp [(h & e & Hin & Hn & Hq & ->)|[(Hnq & Hl & ->)|[(Hnq & Hl & He & ->)|(Hnq & Hl & h & e & Hin & Hn & Hmax & ->)]]].
  - left. exists h, e. repeat split; auto; [eapply Permutation_in; eauto | now rewrite <- (count_id_perm _ l l' Hp)].
  - right; left. repeat split; [eapply no_quorum_perm; eauto | now rewrite <- (Permutation_length Hp)].
  - right; right; left. repeat split; [eapply no_quorum_perm; eauto | now rewrite <- (Permutation_length Hp) |].
    pose proof (hdrs_of_perm l l' Hp) as Hh. rewrite He in Hh. now apply Permutation_nil.
  - right; right; right. repeat split; [eapply no_quorum_perm; eauto | now rewrite <- (Permutation_length Hp) |].
    exists h, e. repeat split; auto; [eapply Permutation_in; eauto|].
    intros h' Hin'. apply Hmax. eapply Permutation_in; [apply Permutation_sym, hdrs_of_perm; exact Hp | exact Hin'].
Qed.

(** the allowed outcomes of Head do not depend on the arrival order *)
Theorem permutation_closed n arr arr' :
  Permutation arr arr' -> length arr <= n -> consistent arr ->
  forall o, In o (head_fold n arr) <-> In o (head_fold n arr').
Proof.
  intros Hp Hlen Hc o.
  rewrite (head_fold_canon n arr Hlen Hc o).
  rewrite (head_fold_canon n arr' ltac:(now rewrite <- (Permutation_length Hp)) (consistent_perm _ _ Hp Hc) o).
  split; apply canon_perm; [exact Hp | now apply Permutation_sym].
Qed.

(** Head always has an allowed outcome *)
Lemma finish_spec_nonempty l : finish_spec l <> [].
Proof.
  destruct (hdrs_of l) as [|x xs] eqn:E; [rewrite finish_spec_none by assumption; discriminate|].
  assert (hdrs_of l <> []) as Hne by (rewrite E; discriminate).
  destruct (max_height_attained _ Hne) as (m & Hin & Em).
  intros Hnil. assert (In (OHead m (last_soft (h_id m) l)) (finish_spec l)) as Hx.
  { apply in_finish_spec; [assumption|]. exists m. repeat split; auto. intros h' Hh'. rewrite Em. now apply max_height_ge. }
  rewrite Hnil in Hx. destruct Hx.
Qed.

Theorem head_fold_nonempty n arr : length arr <= n -> head_fold n arr <> [].
Proof.
  intros Hlen. unfold head_fold. destruct (quorum_or_not (min_resp n) arr) as [Hnq|Hhq].
  - rewrite (head_run_no_quorum n arr Hlen Hnq). cbn [snd].
    destruct (length arr <? n); [discriminate | apply finish_spec_nonempty].
  - destruct (first_quorum _ _ Hhq) as (mid & h & e & rest & -> & Hnq & Hnn & Hq).
    rewrite (head_run_quorum n mid h e rest ltac:(rewrite app_length in Hlen; cbn in Hlen; lia) Hnq Hnn Hq).
    discriminate.
Qed.

(** * 5. every returned header was supplied, with its own verdict *)

(** a returned header is one of the collected ones; a nil error means no soft
    error is on record for its hash, an error is one on record for its hash *)
Lemma head_fold_returned n arr h e : length arr <= n -> In (OHead h e) (head_fold n arr) ->
  h_nil h = false /\ (exists e0, In (AHdr h e0) arr) /\
  (e = None -> In (AHdr h None) arr) /\
  (forall v, e = Some v -> exists h', In (AHdr h' (Some v)) arr /\ h_nil h' = false /\ h_id h' = h_id h).
Proof.
  intros Hlen. unfold head_fold.
  assert (Hgen : forall l, incl l arr -> (exists e0, In (AHdr h e0) l) -> h_nil h = false ->
            e = last_soft (h_id h) l ->
            h_nil h = false /\ (exists e0, In (AHdr h e0) arr) /\ (e = None -> In (AHdr h None) arr) /\
            (forall v, e = Some v -> exists h', In (AHdr h' (Some v)) arr /\ h_nil h' = false /\ h_id h' = h_id h)).
  { intros l Hinc (e0 & Hin0) Hnn ->. repeat split; auto.
    - exists e0. now apply Hinc.
    - intros E. destruct e0 as [v|]; [|now apply Hinc]. exfalso. exact (last_soft_none _ _ E h v Hin0 Hnn eq_refl).
    - intros v E. apply last_soft_some in E as (h' & Hin' & Hn' & Eid). exists h'. repeat split; auto. }
  destruct (quorum_or_not (min_resp n) arr) as [Hnq|Hhq].
  - rewrite (head_run_no_quorum n arr Hlen Hnq). cbn [snd].
    destruct (length arr <? n); [intros [Hx|[]]; discriminate|].
    destruct (hdrs_of arr) as [|x xs] eqn:Eh.
    + rewrite (finish_spec_none arr Eh). intros [Hx|[]]; discriminate.
    + assert (hdrs_of arr <> []) as Hne by (rewrite Eh; discriminate).
      intros Hin. apply (in_finish_spec arr _ Hne) in Hin as (h0 & Hin0 & _ & Ho). injection Ho as -> ->.
      apply in_hdrs_of in Hin0 as (e0 & Hin0 & Hnn).
      apply (Hgen arr); auto using incl_refl. eauto.
  - destruct (first_quorum _ _ Hhq) as (mid & h0 & e0 & rest & -> & Hnq & Hnn & Hq).
    rewrite (head_run_quorum n mid h0 e0 rest ltac:(rewrite app_length in Hlen; cbn in Hlen; lia) Hnq Hnn Hq).
    cbn [snd]. intros [Ho|[]]. injection Ho as E1 E2. subst h0.
    apply (Hgen (mid ++ [AHdr h e0])); auto.
    + intros x Hx. apply in_app_or in Hx as [Hx|[<-|[]]]; apply in_or_app; [now left | right; now left].
    + exists e0. apply in_or_app; right; now left.
Qed.

Section per_response.
Variables (now drift : Z) (tv : hdr -> hdr -> tvres) (want : option N) (t : hdr).

Lemma answer_AHdr r h e : answer now drift tv want t r = AHdr h e ->
  r = RGot h /\ h_ok h = true /\ chain_ok want h = true /\
  (h_nil t = true -> e = None) /\
  (h_nil t = false ->
   match e with
   | None => Verify now drift tv t h = None
   | Some v => Verify now drift tv t h = Some v /\ ve_soft v = true
   end).
Proof.
  unfold answer, request. destruct r as [|h0]; [discriminate|].
  destruct (h_ok h0) eqn:Hok; cbn [andb]; [|discriminate].
  destruct (chain_ok want h0) eqn:Hch; [|discriminate].
  destruct (h_nil t) eqn:Ht.
  - intros [= -> <-]. repeat split; auto; discriminate.
  - destruct (Verify now drift tv t h0) as [v|] eqn:Hv.
    + destruct (ve_soft v) eqn:Hs; [|discriminate]. intros [= -> <-]. repeat split; auto; discriminate.
    + intros [= -> <-]. repeat split; auto; discriminate.
Qed.

Lemma in_map_answer h e resps : In (AHdr h e) (map (answer now drift tv want t) resps) ->
  In (RGot h) resps /\ answer now drift tv want t (RGot h) = AHdr h e.
Proof.
  intros Hin. apply in_map_iff in Hin as (r & Ha & Hin).
  pose proof (answer_AHdr r h e Ha) as (-> & _). auto.
Qed.

(** the hash identifies the header among the peers' answers *)
Definition hash_inj (resps : list resp) : Prop :=
  forall h h', In (RGot h) resps -> In (RGot h') resps -> h_id h = h_id h' -> h = h'.

Lemma answers_consistent resps : hash_inj resps -> consistent (map (answer now drift tv want t) resps).
Proof.
  intros Hi h e h' e' H1 H2 _ _ Eid.
  apply in_map_answer in H1 as (H1 & A1). apply in_map_answer in H2 as (H2 & A2).
  pose proof (Hi h h' H1 H2 Eid) as <-. split; [reflexivity|]. congruence.
Qed.

(** what Head may return, from the peers' raw answers *)
Theorem head_returned_sound n resps h e :
  length resps <= n -> In (OHead h e) (snd (Head now drift tv want t n resps)) ->
  In (RGot h) resps /\ h_nil h = false /\ h_ok h = true /\ chain_ok want h = true /\
  (h_nil t = true -> e = None) /\
  (h_nil t = false ->
   (* the returned header did not hard-fail *)
   (forall v, Verify now drift tv t h = Some v -> ve_soft v = true) /\
   (* nil error: it passed *)
   (e = None -> Verify now drift tv t h = None) /\
   (* an error: a soft VerifyError of an answer with this hash *)
   (forall v, e = Some v -> ve_soft v = true /\
      exists h', In (RGot h') resps /\ h_id h' = h_id h /\ Verify now drift tv t h' = Some v) /\
   (* ... which is the header's own when the hash identifies the header *)
   (hash_inj resps -> forall v, e = Some v -> Verify now drift tv t h = Some v)).
Proof.
  intros Hlen Hin. unfold Head in Hin. fold (head_fold n (map (answer now drift tv want t) resps)) in Hin.
  apply head_fold_returned in Hin as (Hnn & (e0 & Hin0) & Hnone & Hsome); [|now rewrite map_length].
  apply in_map_answer in Hin0 as (Hr & Ha).
  pose proof (answer_AHdr _ _ _ Ha) as (_ & Hok & Hch & Ht1 & Ht0).
  split; [exact Hr|]. split; [exact Hnn|]. split; [exact Hok|]. split; [exact Hch|]. split.
  - intros Ht. destruct e as [v|]; [|reflexivity]. exfalso.
    destruct (Hsome v eq_refl) as (h' & Hin' & _ & _). apply in_map_answer in Hin' as (_ & Ha').
    apply answer_AHdr in Ha' as (_ & _ & _ & Hx & _). specialize (Hx Ht). discriminate.
  - intros Ht. specialize (Ht0 Ht). split; [|split; [|split]].
    + intros v Hv. destruct e0 as [w|]; [destruct Ht0 as (Hw & Hs); congruence | congruence].
    + intros E. specialize (Hnone E). apply in_map_answer in Hnone as (_ & Ha').
      apply answer_AHdr in Ha' as (_ & _ & _ & _ & Hx). exact (Hx Ht).
    + intros v E. destruct (Hsome v E) as (h' & Hin' & _ & Eid). apply in_map_answer in Hin' as (Hr' & Ha').
      apply answer_AHdr in Ha' as (_ & _ & _ & _ & Hx). specialize (Hx Ht). cbn in Hx. destruct Hx as (Hv & Hs).
      split; [exact Hs|]. exists h'. repeat split; auto.
    + intros Hi v E. destruct (Hsome v E) as (h' & Hin' & _ & Eid). apply in_map_answer in Hin' as (Hr' & Ha').
      apply answer_AHdr in Ha' as (_ & _ & _ & _ & Hx). pose proof (Hi h' h Hr' Hr Eid) as ->. exact (proj1 (Hx Ht)).
Qed.

End per_response.

(** * 6. corollaries in the form the property theorems use *)

Lemma count_zero_no_hdrs id l : hdrs_of l = [] -> count_id id l = 0.
Proof.
  intros E. destruct (Nat.eq_dec (count_id id l) 0) as [|Hne]; [assumption|]. exfalso.
  destruct (count_pos_in id l ltac:(lia)) as (h & Hin & _). rewrite E in Hin. destruct Hin.
Qed.

Lemma no_hdrs_no_quorum q l : hdrs_of l = [] -> no_quorum q l.
Proof. intros E id Hp. rewrite (count_zero_no_hdrs id l E) in Hp. lia. Qed.

Theorem quorum_found n arr : length arr <= n -> has_quorum (min_resp n) arr ->
  exists p h e rest,
    arr = p ++ AHdr h e :: rest /\ no_quorum (min_resp n) p /\ h_nil h = false /\
    min_resp n <= count_id (h_id h) (p ++ [AHdr h e]) /\
    head_run n arr = (length p + 1, [OHead h (last_soft (h_id h) (p ++ [AHdr h e]))]).
Proof.
  intros Hlen Hhq. destruct (first_quorum _ _ Hhq) as (mid & h & e & rest & -> & Hnq & Hnn & Hq).
  exists mid, h, e, rest. repeat split; auto.
  apply head_run_quorum; auto. rewrite app_length in Hlen. cbn in Hlen. lia.
Qed.

Theorem else_highest n arr : length arr = n -> no_quorum (min_resp n) arr -> hdrs_of arr <> [] ->
  exists outs, head_run n arr = (n, outs) /\ outs <> [] /\
    forall o, In o outs <->
      exists h, In h (hdrs_of arr) /\ (forall h', In h' (hdrs_of arr) -> (h_height h' <= h_height h)%N) /\
                o = OHead h (last_soft (h_id h) arr).
Proof.
  intros Hlen Hnq Hne. exists (finish_spec arr).
  rewrite (head_run_no_quorum n arr ltac:(lia) Hnq). rewrite Hlen, Nat.ltb_irrefl.
  repeat split; [apply finish_spec_nonempty | apply in_finish_spec; assumption | apply in_finish_spec; assumption].
Qed.

Theorem none_notfound n arr : length arr = n -> hdrs_of arr = [] -> head_run n arr = (n, [ONotFound]).
Proof.
  intros Hlen E. rewrite (head_run_no_quorum n arr ltac:(lia) (no_hdrs_no_quorum _ _ E)).
  rewrite Hlen, Nat.ltb_irrefl. now rewrite finish_spec_none.
Qed.

Theorem notfound_only_if_none n arr : length arr <= n -> In ONotFound (head_fold n arr) ->
  length arr = n /\ hdrs_of arr = [].
Proof.
  intros Hlen. unfold head_fold. destruct (quorum_or_not (min_resp n) arr) as [Hnq|Hhq].
  - rewrite (head_run_no_quorum n arr Hlen Hnq). cbn [snd].
    destruct (Nat.ltb_spec (length arr) n) as [Hlt|Hge]; [intros [Hx|[]]; discriminate|].
    intros Hin. split; [lia|]. destruct (hdrs_of arr) as [|x xs] eqn:E; [reflexivity|]. exfalso.
    assert (hdrs_of arr <> []) as Hne by (rewrite E; discriminate).
    apply (in_finish_spec arr _ Hne) in Hin as (h & _ & _ & Ho). discriminate.
  - destruct (quorum_found n arr Hlen Hhq) as (p & h & e & rest & _ & _ & _ & _ & ->). cbn [snd].
    intros [Hx|[]]; discriminate.
Qed.

Theorem hanging_ctx n arr : length arr < n -> no_quorum (min_resp n) arr ->
  head_run n arr = (length arr, [OCtx]).
Proof.
  intros Hlen Hnq. rewrite (head_run_no_quorum n arr ltac:(lia) Hnq).
  destruct (Nat.ltb_spec (length arr) n); [reflexivity | lia].
Qed.

Theorem ctx_only_if_hanging n arr : length arr <= n -> In OCtx (head_fold n arr) ->
  length arr < n /\ no_quorum (min_resp n) arr.
Proof.
  intros Hlen. unfold head_fold. destruct (quorum_or_not (min_resp n) arr) as [Hnq|Hhq].
  - rewrite (head_run_no_quorum n arr Hlen Hnq). cbn [snd].
    destruct (Nat.ltb_spec (length arr) n) as [Hlt|Hge]; [auto|].
    intros Hin. exfalso. destruct (hdrs_of arr) as [|x xs] eqn:E.
    + rewrite (finish_spec_none arr E) in Hin. destruct Hin as [Hx|[]]; discriminate.
    + assert (hdrs_of arr <> []) as Hne by (rewrite E; discriminate).
      apply (in_finish_spec arr _ Hne) in Hin as (h & _ & _ & Ho). discriminate.
  - destruct (quorum_found n arr Hlen Hhq) as (p & h & e & rest & _ & _ & _ & _ & ->). cbn [snd].
    intros [Hx|[]]; discriminate.
Qed.

Section per_response2.
Variables (now drift : Z) (tv : hdr -> hdr -> tvres) (want : option N) (t : hdr).

Theorem head_permutation_closed n resps resps' :
  Permutation resps resps' -> length resps <= n -> hash_inj resps ->
  forall o, In o (snd (Head now drift tv want t n resps)) <-> In o (snd (Head now drift tv want t n resps')).
Proof.
  intros Hp Hlen Hi o. unfold Head.
  apply (permutation_closed n (map (answer now drift tv want t) resps) (map (answer now drift tv want t) resps')).
  - now apply Permutation_map.
  - now rewrite map_length.
  - now apply answers_consistent.
Qed.

End per_response2.

Theorem asked_count_spec ntrusted ntracked maxreq :
  asked_count false ntrusted ntracked maxreq = ntrusted /\
  (1 <= ntracked -> 1 <= maxreq -> asked_count true ntrusted ntracked maxreq = Nat.min ntracked maxreq) /\
  (ntracked = 0 -> asked_count true ntrusted ntracked maxreq = ntrusted).
Proof.
  unfold asked_count, get_peers_count. split; [reflexivity|]. split.
  - intros H1 H2. destruct (Nat.eqb_spec maxreq 0); [lia|]. cbn [andb].
    destruct (Nat.eqb_spec (Nat.min ntracked maxreq) 0); [lia | reflexivity].
  - intros ->. destruct (Nat.eqb_spec maxreq 0); reflexivity.
Qed.

(** * 7. answers with their own arrival time (one clock reading per Verify call),
      streams of frames *)

Lemma head_frame_cons r rest : head_frame (r :: rest) = r.
Proof. reflexivity. Qed.

Lemma head_frame_nil : head_frame [] = RFail.
Proof. reflexivity. Qed.

(** only what sendMessage reads (one frame) matters *)
Lemma head_frame_read frames : head_frame (read_frames 1 frames) = head_frame frames.
Proof. destruct frames as [|r rest]; reflexivity. Qed.

Section timed.
Variables (drift : Z) (tv : hdr -> hdr -> tvres) (want : option N) (t : hdr).

(** the untimed model is the special case "every answer is judged at the same instant" *)
Lemma Head_is_HeadT now n resps :
  Head now drift tv want t n resps = HeadT drift tv want t n (map (pair now) resps).
Proof. unfold Head, HeadT. rewrite map_map. reflexivity. Qed.

Lemma HeadF_first_frame_only n arr :
  HeadF drift tv want t n arr =
  HeadF drift tv want t n (map (fun x => (fst x, read_frames 1 (snd x))) arr).
Proof.
  unfold HeadF. rewrite map_map. f_equal. apply map_ext. intros [now fr]. cbn [fst snd].
  now rewrite head_frame_read.
Qed.

Lemma in_map_answer_at h e resps : In (AHdr h e) (map (answer_at drift tv want t) resps) ->
  exists now, In (now, RGot h) resps /\ answer now drift tv want t (RGot h) = AHdr h e.
Proof.
  intros Hin. apply in_map_iff in Hin as ([now r] & Ha & Hin). unfold answer_at in Ha. cbn [fst snd] in Ha.
  pose proof (answer_AHdr now drift tv want t r h e Ha) as (-> & _). eauto.
Qed.

(** the clock can only turn a verdict into the (hard) from-future failure: two
    readings at which the header does not hard-fail give the same verdict *)
Lemma verify_not_hard_time_indep now1 now2 h :
  (forall v, Verify now1 drift tv t h = Some v -> ve_soft v = true) ->
  (forall v, Verify now2 drift tv t h = Some v -> ve_soft v = true) ->
  Verify now1 drift tv t h = Verify now2 drift tv t h.
Proof.
  unfold Verify.
  destruct (verify_mand now1 drift t h) as [s1|]; [intros H1 _; specialize (H1 _ eq_refl); discriminate|].
  destruct (verify_mand now2 drift t h) as [s2|]; [intros _ H2; specialize (H2 _ eq_refl); discriminate|].
  reflexivity.
Qed.

Lemma answer_time_indep now1 now2 h e1 e2 :
  answer now1 drift tv want t (RGot h) = AHdr h e1 ->
  answer now2 drift tv want t (RGot h) = AHdr h e2 -> e1 = e2.
Proof.
  intros A1 A2.
  apply answer_AHdr in A1 as (_ & _ & _ & N1 & V1). apply answer_AHdr in A2 as (_ & _ & _ & N2 & V2).
  destruct (h_nil t) eqn:Ht; [rewrite (N1 eq_refl), (N2 eq_refl); reflexivity|].
  specialize (V1 eq_refl). specialize (V2 eq_refl).
  assert (E : Verify now1 drift tv t h = Verify now2 drift tv t h).
  { apply verify_not_hard_time_indep.
    - intros v Hv. destruct e1 as [w|]; [destruct V1 as (Hw & Hs); congruence | congruence].
    - intros v Hv. destruct e2 as [w|]; [destruct V2 as (Hw & Hs); congruence | congruence]. }
  destruct e1 as [w1|], e2 as [w2|]; try destruct V1 as (V1 & _); try destruct V2 as (V2 & _); congruence.
Qed.

Lemma answers_consistent_t resps : hash_inj (map snd resps) ->
  consistent (map (answer_at drift tv want t) resps).
Proof.
  intros Hi h e h' e' H1 H2 _ _ Eid.
  apply in_map_answer_at in H1 as (n1 & H1 & A1). apply in_map_answer_at in H2 as (n2 & H2 & A2).
  assert (Eh : h = h').
  { apply Hi; auto; apply in_map_iff; [exists (n1, RGot h) | exists (n2, RGot h')]; auto. }
  subst h'. split; [reflexivity|]. exact (answer_time_indep _ _ _ _ _ A1 A2).
Qed.

(** what Head may return, each answer judged at its own arrival time *)
Theorem head_returned_sound_t n (resps : list (Z * resp)) h e :
  length resps <= n -> In (OHead h e) (snd (HeadT drift tv want t n resps)) ->
  h_nil h = false /\ h_ok h = true /\ chain_ok want h = true /\
  (exists now, In (now, RGot h) resps /\
     (h_nil t = false -> forall v, Verify now drift tv t h = Some v -> ve_soft v = true)) /\
  (h_nil t = true -> e = None) /\
  (h_nil t = false ->
   (e = None -> exists now, In (now, RGot h) resps /\ Verify now drift tv t h = None) /\
   (forall v, e = Some v -> ve_soft v = true /\
      exists now h', In (now, RGot h') resps /\ h_id h' = h_id h /\ Verify now drift tv t h' = Some v) /\
   (hash_inj (map snd resps) ->
      (forall v, e = Some v -> exists now, In (now, RGot h) resps /\ Verify now drift tv t h = Some v) /\
      (forall now, In (now, RGot h) resps ->
         (exists v, Verify now drift tv t h = Some v /\ ve_soft v = false) \/ Verify now drift tv t h = e))).
Proof.
  intros Hlen Hin. unfold HeadT in Hin. fold (head_fold n (map (answer_at drift tv want t) resps)) in Hin.
  apply head_fold_returned in Hin as (Hnn & (e0 & Hin0) & Hnone & Hsome); [|now rewrite map_length].
  apply in_map_answer_at in Hin0 as (now0 & Hr & Ha).
  pose proof (answer_AHdr _ _ _ _ _ _ _ _ Ha) as (_ & Hok & Hch & Ht1 & Ht0).
  split; [exact Hnn|]. split; [exact Hok|]. split; [exact Hch|]. split; [|split].
  - exists now0. split; [exact Hr|]. intros Ht v Hv. specialize (Ht0 Ht).
    destruct e0 as [w|]; [destruct Ht0 as (Hw & Hs); congruence | congruence].
  - intros Ht. destruct e as [v|]; [|reflexivity]. exfalso.
    destruct (Hsome v eq_refl) as (h' & Hin' & _ & _). apply in_map_answer_at in Hin' as (now' & _ & Ha').
    apply answer_AHdr in Ha' as (_ & _ & _ & Hx & _). specialize (Hx Ht). discriminate.
  - intros Ht. split; [|split].
    + intros E. specialize (Hnone E). apply in_map_answer_at in Hnone as (now' & Hr' & Ha').
      apply answer_AHdr in Ha' as (_ & _ & _ & _ & Hx). exists now'. split; [exact Hr' | exact (Hx Ht)].
    + intros v E. destruct (Hsome v E) as (h' & Hin' & _ & Eid). apply in_map_answer_at in Hin' as (now' & Hr' & Ha').
      apply answer_AHdr in Ha' as (_ & _ & _ & _ & Hx). specialize (Hx Ht). cbn in Hx. destruct Hx as (Hv & Hs).
      split; [exact Hs|]. exists now', h'. repeat split; auto.
    + intros Hi.
      assert (Hown : forall v, e = Some v ->
                exists now, In (now, RGot h) resps /\ answer now drift tv want t (RGot h) = AHdr h (Some v)).
      { intros v E. destruct (Hsome v E) as (h' & Hin' & _ & Eid).
        apply in_map_answer_at in Hin' as (now' & Hr' & Ha').
        assert (h' = h) as -> by (apply Hi; auto; apply in_map_iff; [exists (now', RGot h') | exists (now0, RGot h)]; auto).
        eauto. }
      split.
      * intros v E. destruct (Hown v E) as (now' & Hr' & Ha').
        apply answer_AHdr in Ha' as (_ & _ & _ & _ & Hx). exists now'. split; [exact Hr' | exact (proj1 (Hx Ht))].
      * intros now Hnow.
        assert (He : exists now', answer now' drift tv want t (RGot h) = AHdr h e).
        { destruct e as [v|].
          - destruct (Hown v eq_refl) as (now' & _ & Ha'). eauto.
          - specialize (Hnone eq_refl). apply in_map_answer_at in Hnone as (now' & _ & Ha'). eauto. }
        destruct He as (now' & He).
        destruct (answer now drift tv want t (RGot h)) as [|h1 e1] eqn:Ea.
        -- left. unfold answer, request in Ea. rewrite Hok, Hch, Ht in Ea. cbn [andb] in Ea.
           destruct (Verify now drift tv t h) as [v|]; [|discriminate].
           destruct (ve_soft v) eqn:Hs; [discriminate|]. eauto.
        -- right. pose proof (answer_AHdr _ _ _ _ _ _ _ _ Ea) as (Eh & _). injection Eh as <-.
           pose proof (answer_time_indep _ _ _ _ _ Ea He) as ->.
           apply answer_AHdr in Ea as (_ & _ & _ & _ & Hx). specialize (Hx Ht).
           destruct e as [v|]; [exact (proj1 Hx) | exact Hx].
Qed.

(** permutation closure with timed answers *)
Theorem head_permutation_closed_t n resps resps' :
  Permutation resps resps' -> length resps <= n -> hash_inj (map snd resps) ->
  forall o, In o (snd (HeadT drift tv want t n resps)) <-> In o (snd (HeadT drift tv want t n resps')).
Proof.
  intros Hp Hlen Hi o. unfold HeadT. apply (permutation_closed n).
  - now apply Permutation_map.
  - now rewrite map_length.
  - now apply answers_consistent_t.
Qed.

End timed.
