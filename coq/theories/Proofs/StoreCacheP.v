(** The two 2Q caches are coherent sub-maps of the datastore under every
    operation and every eviction, and no read depends on them. *)
From Coq Require Import NArith List Bool Lia ZifyBool ZifyN ZifyNat.
From stdpp Require Import gmap.
From GH Require Import Base.Prelude Model.Store Model.StoreSpec Model.StoreCache Oracle.StoreCase.
From GH Require Import Proofs.StoreP Proofs.StoreClimbP Proofs.StoreInvP Proofs.StoreAppendP Proofs.StoreDeleteP.
From GH Require Import Proofs.StoreRestartP Proofs.StoreMainP.
Import ListNotations.
Open Scope N_scope.

(** coherence: every cache entry is the datastore's entry *)
Definition coh (x : cst) : Prop :=
  (forall id h, c_hc x !! id = Some h -> d_hdr (c_st x) !! id = Some h) /\
  (forall n id, c_ic x !! n = Some id -> d_idx (c_st x) !! n = Some id).

Lemma coh_cst0 b : coh (cst0 b).
Proof. split; cbn; intros *; rewrite lookup_empty; discriminate. Qed.

Lemma coh_purge x : coh (purge x).
Proof. split; cbn; intros *; rewrite lookup_empty; discriminate. Qed.

(** a state change that leaves the two datastore maps alone *)
Lemma coh_with_st x s' : d_hdr s' = d_hdr (c_st x) -> d_idx s' = d_idx (c_st x) -> coh x -> coh (with_st x s').
Proof. intros E1 E2 [A B]. split; cbn; rewrite ?E1, ?E2; auto. Qed.

Section oracle.
Variables (evh evi : nat -> N -> bool).

Lemma keep_h_sub t m id h : keep_h evh t m !! id = Some h -> m !! id = Some h.
Proof. unfold keep_h. intros H. apply map_filter_lookup_Some in H. tauto. Qed.
Lemma keep_i_sub t m n id : keep_i evi t m !! n = Some id -> m !! n = Some id.
Proof. unfold keep_i. intros H. apply map_filter_lookup_Some in H. tauto. Qed.

Lemma coh_hc_add x id h : coh x -> d_hdr (c_st x) !! id = Some h -> coh (hc_add evh x id h).
Proof.
  intros [A B] Hd. split; cbn; auto. intros id' h' H. apply keep_h_sub in H.
  destruct (N.eq_dec id id') as [<-|Hne]; [rewrite lookup_insert in H; congruence|].
  rewrite lookup_insert_ne in H; auto.
Qed.
Lemma coh_ic_add x n id : coh x -> d_idx (c_st x) !! n = Some id -> coh (ic_add evi x n id).
Proof.
  intros [A B] Hd. split; cbn; auto. intros n' id' H. apply keep_i_sub in H.
  destruct (N.eq_dec n n') as [<-|Hne]; [rewrite lookup_insert in H; congruence|].
  rewrite lookup_insert_ne in H; auto.
Qed.
Lemma coh_evict x : coh x -> coh (evict evh evi x) /\ c_st (evict evh evi x) = c_st x.
Proof.
  intros [A B]. split; [|reflexivity]. split; cbn; intros *; intros H;
    [apply keep_h_sub in H|apply keep_i_sub in H]; auto.
Qed.

(** a read: the cache-free state is untouched, the result is the cache-free result, coherence is kept *)
Definition rd {A} (x : cst) (r : cst * A) (a : A) : Prop := c_st (fst r) = c_st x /\ snd r = a /\ coh (fst r).

Section chain.
Context {c : N -> hdr} {U : N} {CH : chain_hyps c U}.
Notation inr := (inr U).
Notation minv := (minv c U).

(** a stored header sits under its own hash *)
Lemma minv_hdr_key s id h : minv s -> d_hdr s !! id = Some h -> h_id h = id.
Proof.
  intros M H. destruct (mi_dh s M _ _ H) as (n & -> & Hi). destruct (mi_di s M _ _ Hi) as (_ & -> & _). reflexivity.
Qed.

Lemma cget_sim x id : minv (c_st x) -> coh x -> rd x (cget evh x id) (get (c_st x) id).
Proof.
  intros M C. unfold cget, get, rd. destruct (c_hc x !! id) as [h|] eqn:Ec.
  - cbn [fst snd]. split_and!; auto. pose proof (proj1 C _ _ Ec) as Hd.
    destruct (pend_i (c_st x) !! id) as [n|] eqn:Ep; cbn; [|rewrite Hd; reflexivity].
    destruct (mi_pi1 _ M _ _ Ep) as [Eid Hp]. rewrite Hp.
    destruct (mi_dh _ M _ _ Hd) as (m & -> & Hi). destruct (mi_di _ M _ _ Hi) as (Hm & Eid' & _).
    assert (inr n) by (apply (mi_ph _ M) in Hp; tauto).
    assert (n = m) by (apply (@ch_inj c U CH); auto; congruence). subst m. reflexivity.
  - destruct (pend_i (c_st x) !! id ≫= _) as [h|]; [cbn; auto|].
    destruct (d_hdr (c_st x) !! id) as [h|] eqn:Ed; cbn [fst snd]; [|auto].
    split_and!; auto. apply coh_hc_add; auto. rewrite (minv_hdr_key _ _ _ M Ed). exact Ed.
Qed.

Lemma chash_sim x n b : coh x -> rd x (chash evi x n b) (d_idx (c_st x) !! n).
Proof.
  intros C. unfold chash, rd. destruct (c_ic x !! n) as [id|] eqn:Ec.
  - cbn. split_and!; auto. symmetry. apply (proj2 C); auto.
  - destruct (d_idx (c_st x) !! n) as [id|] eqn:Ed; cbn [fst snd]; [|auto].
    destruct b; split_and!; auto. apply coh_ic_add; auto.
Qed.

Lemma cnb_sim x n : minv (c_st x) -> coh x -> rd x (cnb evh evi x n) (nb (c_st x) n).
Proof.
  intros M C. unfold cnb, nb.
  destruct (has_height (headp (c_st x)) n); [unfold rd; cbn; auto|].
  destruct (has_height (tailp (c_st x)) n); [unfold rd; cbn; auto|].
  destruct (pend_h (c_st x) !! n); [unfold rd; cbn; auto|].
  destruct (chash_sim x n true C) as (E1 & E2 & C1).
  destruct (chash evi x n true) as [x1 o]. cbn [fst snd] in *. subst o.
  destruct (d_idx (c_st x) !! n) as [id|]; [|unfold rd; cbn; auto].
  rewrite <- E1 in M. destruct (cget_sim x1 id M C1) as (F1 & F2 & F3).
  unfold rd. rewrite F1, F2, E1. auto.
Qed.

Lemma cgbh_sim x n : minv (c_st x) -> coh x -> rd x (cget_by_height evh evi x n) (get_by_height (c_st x) n).
Proof.
  intros M C. unfold cget_by_height, get_by_height. destruct (n =? 0); [unfold rd; cbn; auto|].
  destruct (cnb_sim x n M C) as (E1 & E2 & C1).
  destruct (cnb evh evi x n) as [x1 r]. cbn [fst snd] in *. subst r.
  destruct (nb (c_st x) n) eqn:En; try (unfold rd; cbn; auto; fail);
    (destruct (n <=? hsh (c_st x)); [|unfold rd; cbn; auto]);
    rewrite <- E1 in M; destruct (cnb_sim x1 n M C1) as (F1 & F2 & F3);
    unfold rd; rewrite F1, F2, E1, En; auto.
Qed.

Lemma cwalk_down_sim k : forall x h acc, minv (c_st x) -> coh x ->
  rd x (cwalk_down evh x k h acc) (walk_down (c_st x) k h acc).
Proof.
  induction k as [|k IH]; intros x h acc M C; cbn [cwalk_down walk_down]; [unfold rd; cbn; auto|].
  destruct (cget_sim x (h_prev h) M C) as (E1 & E2 & C1).
  destruct (cget evh x (h_prev h)) as [x1 r]. cbn [fst snd] in *. subst r.
  destruct (get (c_st x) (h_prev h)) as [p| | |]; try (unfold rd; cbn; auto; fail).
  rewrite <- E1 in M. destruct (IH x1 p (h :: acc) M C1) as (F1 & F2 & F3).
  unfold rd. rewrite F1, F2, E1. auto.
Qed.

Lemma cget_range_sim x from to : minv (c_st x) -> coh x ->
  rd x (cget_range evh evi x from to) (get_range (c_st x) from to).
Proof.
  intros M C. unfold cget_range, get_range. destruct (to <=? from); [unfold rd; cbn; auto|].
  destruct (cgbh_sim x (to - 1) M C) as (E1 & E2 & C1).
  destruct (cget_by_height evh evi x (to - 1)) as [x1 r]. cbn [fst snd] in *. subst r.
  destruct (get_by_height (c_st x) (to - 1)) as [h| | |]; try (unfold rd; cbn; auto; fail).
  rewrite <- E1 in M. destruct (cwalk_down_sim (N.to_nat (to - from - 1)) x1 h [] M C1) as (F1 & F2 & F3).
  unfold rd. rewrite F1, F2, E1. auto.
Qed.

Lemma chas_sim x id : coh x -> chas x id = has (c_st x) id.
Proof.
  intros C. unfold chas, has. destruct (c_hc x !! id) as [h|] eqn:Ec; auto.
  rewrite (proj1 C _ _ Ec). destruct (pend_i (c_st x) !! id); reflexivity.
Qed.


(** ** the flush closure *)
Lemma cnext_head_sim f : forall x cur ch, minv (c_st x) -> coh x ->
  c_st (fst (fst (cnext_head evh evi f x cur ch))) = c_st x /\
  (snd (fst (cnext_head evh evi f x cur ch)), snd (cnext_head evh evi f x cur ch)) = next_head f (c_st x) cur ch /\
  coh (fst (fst (cnext_head evh evi f x cur ch))).
Proof.
  induction f as [|f IH]; intros x cur ch M C; cbn [cnext_head next_head]; [cbn; auto|].
  destruct (cnb_sim x (wrap64 (h_height cur + 1)) M C) as (E1 & E2 & C1).
  destruct (cnb evh evi x (wrap64 (h_height cur + 1))) as [x1 r]. cbn [fst snd] in *. subst r.
  destruct (nb (c_st x) (wrap64 (h_height cur + 1))) as [h| | |]; try (cbn; auto; fail).
  rewrite <- E1 in M. destruct (IH x1 h true M C1) as (F1 & F2 & F3). rewrite F1, F2, E1. auto.
Qed.

Lemma cnext_tail_sim f : forall x cur ch, minv (c_st x) -> coh x ->
  c_st (fst (fst (cnext_tail evh evi f x cur ch))) = c_st x /\
  (snd (fst (cnext_tail evh evi f x cur ch)), snd (cnext_tail evh evi f x cur ch)) = next_tail f (c_st x) cur ch /\
  coh (fst (fst (cnext_tail evh evi f x cur ch))).
Proof.
  induction f as [|f IH]; intros x cur ch M C; cbn [cnext_tail next_tail]; [cbn; auto|].
  destruct (cnb_sim x (sub64 (h_height cur) 1) M C) as (E1 & E2 & C1).
  destruct (cnb evh evi x (sub64 (h_height cur) 1)) as [x1 r]. cbn [fst snd] in *. subst r.
  destruct (nb (c_st x) (sub64 (h_height cur) 1)) as [h| | |]; try (cbn; auto; fail).
  rewrite <- E1 in M. destruct (IH x1 h true M C1) as (F1 & F2 & F3). rewrite F1, F2, E1. auto.
Qed.

Lemma cadvance_head_sim x : minv (c_st x) -> coh x ->
  c_st (cadvance_head evh evi x) = advance_head (c_st x) /\ coh (cadvance_head evh evi x).
Proof.
  intros M C. unfold cadvance_head, advance_head. destruct (headp (c_st x)) as [cur|]; auto.
  destruct (cnext_head_sim (fuel_of (c_st x)) x cur false M C) as (E1 & E2 & C1).
  destruct (cnext_head evh evi (fuel_of (c_st x)) x cur false) as [[x1 h] ch]. cbn [fst snd] in *.
  rewrite <- E2. destruct ch; auto. split; [reflexivity|].
  apply coh_with_st; auto; rewrite E1; reflexivity.
Qed.

Lemma crecede_tail_sim x : minv (c_st x) -> coh x ->
  c_st (crecede_tail evh evi x) = recede_tail (c_st x) /\ coh (crecede_tail evh evi x).
Proof.
  intros M C. unfold crecede_tail, recede_tail. destruct (tailp (c_st x)) as [cur|]; auto.
  destruct (cnext_tail_sim (fuel_of (c_st x)) x cur false M C) as (E1 & E2 & C1).
  destruct (cnext_tail evh evi (fuel_of (c_st x)) x cur false) as [[x1 h] ch]. cbn [fst snd] in *.
  rewrite <- E2. destruct ch; auto. split; [reflexivity|].
  apply coh_with_st; auto; rewrite E1; reflexivity.
Qed.

(** the commit keeps every datastore entry (it rewrites chain headers under their own keys) *)
Lemma commit_keeps s : minv s ->
  (forall id h, d_hdr s !! id = Some h -> d_hdr (commit s) !! id = Some h) /\
  (forall n id, d_idx s !! n = Some id -> d_idx (commit s) !! n = Some id).
Proof.
  intros M. destruct (commit_fields s) as (_ & _ & _ & _ & _ & E3 & E4 & _).
  pose proof (@ch_height c U CH) as c_height. pose proof (@ch_inj c U CH) as c_inj.
  assert (PL : forall y, In y (pend_list s) -> exists m, inr m /\ y = c m).
  { intros y Hy. apply in_pend_list in Hy. destruct Hy as (m & Hm). destruct (mi_ph s M _ _ Hm) as [? ->]. eauto. }
  split.
  - intros id h H. rewrite E3. destruct (mi_dh s M _ _ H) as (n & -> & Hi). destruct (mi_di s M _ _ Hi) as (Hn & -> & _).
    apply ins_in; auto. intros y Hy Ey. destruct (PL y Hy) as (m & Hm & ->). f_equal. apply c_inj; auto.
  - intros n id H. rewrite E4. destruct (mi_di s M _ _ H) as (Hn & -> & _).
    apply ins_in; auto. intros y Hy Ey. destruct (PL y Hy) as (m & Hm & ->). rewrite c_height in Ey; auto. congruence.
Qed.

Lemma ensure_init_maps s hs : same_maps s (ensure_init s hs).
Proof.
  unfold ensure_init, same_maps. destruct hs as [|h0 hs]; [tauto|].
  destruct (headp s); [destruct (tailp s)|cbn [tailp set_hsh set_headp]; destruct (tailp s)]; cbn; tauto.
Qed.

Lemma cflush_one_sim x o : minv (c_st x) -> coh x ->
  chain_list (c:=c) (U:=U) (match o with Some l => l | None => [] end) ->
  c_st (fst (cflush_one evh evi x o)) = fst (flush_one (c_st x) o) /\
  snd (cflush_one evh evi x o) = snd (flush_one (c_st x) o) /\
  coh (fst (cflush_one evh evi x o)) /\ minv (fst (flush_one (c_st x) o)).
Proof.
  intros M C CL. unfold cflush_one, flush_one. cbv zeta.
  set (hs := match o with Some l => l | None => [] end) in *.
  set (s2 := pend_add (ensure_init (c_st x) hs) hs).
  assert (M2 : minv s2).
  { apply pend_add_minv; auto. eapply minv_ext; [apply ensure_init_maps|exact M]. }
  assert (C2 : coh (with_st x s2)).
  { apply coh_with_st; auto; unfold s2.
    - destruct (pend_add_fields (ensure_init (c_st x) hs) hs) as (_ & _ & -> & _). apply ensure_init_maps.
    - destruct (pend_add_fields (ensure_init (c_st x) hs) hs) as (_ & _ & _ & -> & _). apply ensure_init_maps. }
  destruct (cadvance_head_sim (with_st x s2) M2 C2) as [E3 C3]. cbn [c_st with_st] in E3.
  assert (M3 : minv (advance_head s2)) by (eapply minv_ext; [apply advance_head_frame|exact M2]).
  rewrite <- E3 in M3.
  destruct (crecede_tail_sim _ M3 C3) as [E4 C4]. rewrite E3 in E4.
  set (x4 := crecede_tail evh evi (cadvance_head evh evi (with_st x s2))) in *.
  rewrite E4. set (s4 := recede_tail (advance_head s2)) in *.
  assert (M4 : minv s4) by (eapply minv_ext; [apply recede_tail_frame|]; rewrite <- E3; exact M3).
  destruct (_ && _); cbn [fst snd]; [auto|]. destruct (_ =? _)%nat; cbn [fst snd]; [auto|].
  split_and!; auto.
  - destruct (commit_keeps s4 M4) as [K1 K2]. destruct C4 as [A B]. rewrite E4 in A, B.
    split; cbn; intros *; intros H; [apply K1, A|apply K2, B]; exact H.
  - apply (commit_minv s4 M4).
Qed.

(** ** deletion *)
Lemma crun_handlers_sim script n : forall cnt x k log, minv (c_st x) -> coh x ->
  c_st (fst (fst (crun_handlers evh evi x script k cnt n log))) = c_st x /\
  (snd (fst (crun_handlers evh evi x script k cnt n log)), snd (crun_handlers evh evi x script k cnt n log))
    = run_handlers (c_st x) script k cnt n log /\
  coh (fst (fst (crun_handlers evh evi x script k cnt n log))).
Proof.
  induction cnt as [|cnt IH]; intros x k log M C; cbn [crun_handlers run_handlers]; [cbn; auto|].
  destruct (cgbh_sim x n M C) as (E1 & E2 & C1).
  destruct (cget_by_height evh evi x n) as [x1 r]. cbn [fst snd] in *. subst r.
  destruct (script k n); try (cbn; auto; fail).
  rewrite <- E1 in M. destruct (IH x1 (S k) (log ++ [HCall k n match get_by_height (c_st x) n with Found h => h_height h =? n | _ => false end]) M C1) as (F1 & F2 & F3).
  rewrite F1, F2, E1. auto.
Qed.

Lemma delete_single_minv s script nh n log : minv s -> minv (fst (fst (delete_single s script nh n log))).
Proof.
  intros M. destruct (stored_dec s n) as [Sn|Sn].
  - unfold delete_single.
    assert (E : match d_idx s !! n with
                | Some id => Some id
                | None => match pend_h s !! n with Some h => Some (h_id h) | None => None end
                end = Some (h_id (c n))).
    { destruct (d_idx s !! n) as [id|] eqn:Ei.
      - destruct (mi_di s M _ _ Ei) as (_ & -> & _). reflexivity.
      - destruct Sn as [[h Hh]|[id Hi]]; [|congruence]. rewrite Hh.
        destruct (mi_ph s M _ _ Hh) as [_ ->]. reflexivity. }
    rewrite E. destruct (run_handlers s script 0 nh n log) as [log' ok]. destruct ok; cbn [fst]; auto.
    apply (del1_minv s n M Sn).
  - rewrite (delete_single_missing s script nh n log Sn). exact M.
Qed.

Lemma delete_seq_minv script nh : forall cnt s n log, minv s ->
  minv (fst (fst (fst (delete_seq s script nh n cnt log)))).
Proof.
  induction cnt as [|cnt IH]; intros s n log M; cbn [delete_seq]; auto.
  pose proof (delete_single_minv s script nh n log M) as M1.
  destruct (delete_single s script nh n log) as [[s1 l1] ok1]. cbn [fst] in M1.
  destruct ok1; cbn [fst]; auto.
Qed.

Lemma cdelete_single_sim x script nh n log : minv (c_st x) -> coh x ->
  c_st (fst (fst (cdelete_single evh evi x script nh n log))) = fst (fst (delete_single (c_st x) script nh n log)) /\
  snd (fst (cdelete_single evh evi x script nh n log)) = snd (fst (delete_single (c_st x) script nh n log)) /\
  snd (cdelete_single evh evi x script nh n log) = snd (delete_single (c_st x) script nh n log) /\
  coh (fst (fst (cdelete_single evh evi x script nh n log))).
Proof.
  intros M C. unfold cdelete_single, delete_single.
  destruct (chash_sim x n false C) as (E1 & E2 & C1).
  destruct (chash evi x n false) as [x0 o]. cbn [fst snd] in *. subst o. rewrite E1.
  destruct (match d_idx (c_st x) !! n with
            | Some id => Some id
            | None => match pend_h (c_st x) !! n with Some h => Some (h_id h) | None => None end
            end) as [id|]; [|cbn; rewrite E1; auto].
  rewrite <- E1 in M. destruct (crun_handlers_sim script n nh x0 0%nat log M C1) as (F1 & F2 & F3).
  destruct (crun_handlers evh evi x0 script 0 nh n log) as [[x1 l1] ok1]. cbn [fst snd] in *.
  rewrite E1 in F2. rewrite <- F2. destruct ok1; cbn [fst snd]; [|rewrite F1, E1; auto].
  rewrite F1, E1. split_and!; auto.
  destruct F3 as [A B]. rewrite F1, E1 in A, B. split; cbn; intros *; intros H;
    apply lookup_delete_Some in H; destruct H as [Hne H]; rewrite lookup_delete_ne; auto.
Qed.

Lemma cdelete_seq_sim script nh : forall cnt x n log, minv (c_st x) -> coh x ->
  c_st (fst (fst (fst (cdelete_seq evh evi x script nh n cnt log)))) = fst (fst (fst (delete_seq (c_st x) script nh n cnt log))) /\
  (snd (fst (fst (cdelete_seq evh evi x script nh n cnt log))), snd (fst (cdelete_seq evh evi x script nh n cnt log)),
   snd (cdelete_seq evh evi x script nh n cnt log)) =
  (snd (fst (fst (delete_seq (c_st x) script nh n cnt log))), snd (fst (delete_seq (c_st x) script nh n cnt log)),
   snd (delete_seq (c_st x) script nh n cnt log)) /\
  coh (fst (fst (fst (cdelete_seq evh evi x script nh n cnt log)))).
Proof.
  induction cnt as [|cnt IH]; intros x n log M C; cbn [cdelete_seq delete_seq]; [cbn; auto|].
  destruct (cdelete_single_sim x script nh n log M C) as (E1 & E2 & E3 & C1).
  pose proof (delete_single_minv (c_st x) script nh n log M) as M1.
  destruct (cdelete_single evh evi x script nh n log) as [[x1 l1] ok1].
  destruct (delete_single (c_st x) script nh n log) as [[s1 l1'] ok1']. cbn [fst snd] in *. subst l1' ok1'.
  destruct ok1; cbn [fst snd]; [|auto].
  rewrite <- E1 in M1. destruct (IH x1 (n + 1) l1 M1 C1) as (F1 & F2 & F3). rewrite E1 in F1, F2. auto.
Qed.


(** pointer writes leave the two datastore maps and the batch alone *)
Lemma ptr_write_maps s w :
  (forall x, In x w -> match x with WPutHead _ | WPutTail _ | WDelHead | WDelTail => True | _ => False end) ->
  same_maps s (write s w).
Proof.
  intros Hw. destruct (write_frame s w) as (W1 & W2 & _). destruct (write_disk s w) as (D1 & D2 & _).
  unfold same_maps. split_and!; auto; rewrite ?D1, ?D2; clear -Hw.
  - revert s. induction w as [|x w IH]; intros s; cbn [fold_left]; auto.
    rewrite IH by (intros y Hy; apply Hw; right; auto).
    specialize (Hw x (or_introl eq_refl)). destruct x; try contradiction; reflexivity.
  - revert s. induction w as [|x w IH]; intros s; cbn [fold_left]; auto.
    rewrite IH by (intros y Hy; apply Hw; right; auto).
    specialize (Hw x (or_introl eq_refl)). destruct x; try contradiction; reflexivity.
Qed.

Lemma put_head_ptr_maps s : same_maps s (put_head_ptr s).
Proof.
  unfold put_head_ptr. destruct (headp s); [|unfold same_maps; tauto].
  apply ptr_write_maps. intros x [<-|[]]. exact I.
Qed.
Lemma put_tail_ptr_maps s : same_maps s (put_tail_ptr s).
Proof.
  unfold put_tail_ptr. destruct (tailp s); [|unfold same_maps; tauto].
  apply ptr_write_maps. intros x [<-|[]]. exact I.
Qed.

Lemma same_maps_trans a b d : same_maps a b -> same_maps b d -> same_maps a d.
Proof. unfold same_maps. intros (?&?&?&?) (?&?&?&?). split_and!; congruence. Qed.

Lemma coh_same_maps x s' : same_maps (c_st x) s' -> coh x -> coh (with_st x s').
Proof. intros (_ & _ & E3 & E4). apply coh_with_st; auto. Qed.

Lemma cset_tail_sim x n : minv (c_st x) -> coh x ->
  c_st (fst (cset_tail evh evi x n)) = fst (set_tail (c_st x) n) /\
  snd (cset_tail evh evi x n) = snd (set_tail (c_st x) n) /\
  coh (fst (cset_tail evh evi x n)) /\ minv (fst (set_tail (c_st x) n)).
Proof.
  intros M C. unfold cset_tail, set_tail.
  destruct (cnb_sim x n M C) as (E1 & E2 & C1).
  destruct (cnb evh evi x n) as [x0 r]. cbn [fst snd] in *. subst r. rewrite E1.
  destruct (nb (c_st x) n) as [h| | |]; try (cbn; rewrite ?E1; auto; fail). cbv zeta.
  set (s1 := write (set_tailp (c_st x) (Some h)) [WPutTail (h_id h)]).
  assert (SM1 : same_maps (c_st x) s1).
  { unfold s1. eapply same_maps_trans; [|apply ptr_write_maps; intros y [<-|[]]; exact I].
    unfold same_maps. cbn. tauto. }
  destruct (match headp s1 with None => true | Some hd => h_height hd <? n end).
  - set (s2 := set_headp (write s1 [WPutHead (h_id h)]) (Some h)).
    assert (SM2 : same_maps (c_st x) s2).
    { eapply same_maps_trans; [exact SM1|]. unfold s2.
      apply (same_maps_trans _ (write s1 [WPutHead (h_id h)])); [apply ptr_write_maps; intros y [<-|[]]; exact I|]. unfold same_maps. cbn. tauto. }
    assert (M2 : minv s2) by (eapply minv_ext; eauto).
    assert (C2 : coh (with_st x0 s2)) by (apply coh_same_maps; auto; rewrite E1; auto).
    destruct (cadvance_head_sim (with_st x0 s2) M2 C2) as [E3 C3]. cbn [c_st with_st] in E3.
    cbn [fst snd]. rewrite E3. split_and!; auto.
    + apply coh_same_maps; auto. rewrite E3. apply put_head_ptr_maps.
    + eapply minv_ext; [apply put_head_ptr_maps|]. eapply minv_ext; [apply advance_head_frame|exact M2].
  - cbn [fst snd c_st with_st]. split_and!; auto.
    + apply coh_same_maps; [|apply coh_same_maps; auto; rewrite E1; auto]. apply put_head_ptr_maps.
    + eapply minv_ext; [apply put_head_ptr_maps|]. eapply minv_ext; eauto.
Qed.

Lemma cset_head_sim x n : minv (c_st x) -> coh x ->
  c_st (fst (cset_head evh evi x n)) = fst (set_head (c_st x) n) /\
  snd (cset_head evh evi x n) = snd (set_head (c_st x) n) /\
  coh (fst (cset_head evh evi x n)) /\ minv (fst (set_head (c_st x) n)).
Proof.
  intros M C. unfold cset_head, set_head.
  destruct (cnb_sim x n M C) as (E1 & E2 & C1).
  destruct (cnb evh evi x n) as [x0 r]. cbn [fst snd] in *. subst r. rewrite E1.
  destruct (nb (c_st x) n) as [h| | |]; try (cbn; rewrite ?E1; auto; fail).
  cbn [fst snd c_st with_st].
  set (s1 := write (set_hsh (set_headp (c_st x) (Some h)) (h_height h)) [WPutHead (h_id h)]).
  assert (SM1 : same_maps (c_st x) (put_tail_ptr s1)).
  { eapply same_maps_trans; [|apply put_tail_ptr_maps]. unfold s1.
    eapply same_maps_trans; [|apply ptr_write_maps; intros y [<-|[]]; exact I]. unfold same_maps. cbn. tauto. }
  split_and!; auto.
  - apply coh_same_maps; auto. rewrite E1. exact SM1.
  - eapply minv_ext; eauto.
Qed.

Lemma cwipe_sim x : c_st (cwipe x) = wipe (c_st x) /\ coh (cwipe x).
Proof.
  unfold cwipe, wipe, cdeinit. cbn [c_st purge with_st]. split; [reflexivity|].
  split; cbn; intros *; rewrite lookup_empty; discriminate.
Qed.

Definition sim3 (r : cst * list hcall * outcome) (q : st * list hcall * outcome) : Prop :=
  c_st (fst (fst r)) = fst (fst q) /\ snd (fst r) = snd (fst q) /\ snd r = snd q /\ coh (fst (fst r)).

Lemma sim3_same x s (M : c_st x = s) (C : coh x) l o : sim3 (x, l, o) (s, l, o).
Proof. unfold sim3. cbn. auto. Qed.

Lemma cdelete_range_synced_sim x script nh from to : minv (c_st x) -> coh x ->
  sim3 (cdelete_range_synced evh evi x script nh from to) (delete_range_synced (c_st x) script nh from to).
Proof.
  intros M C. unfold cdelete_range_synced, delete_range_synced.
  destruct (headp (c_st x)) as [hd|]; [|apply sim3_same; auto].
  destruct (tailp (c_st x)) as [tl|]; [|apply sim3_same; auto]. cbv zeta.
  destruct (to <=? from); [apply sim3_same; auto|].
  destruct (_ || _); [apply sim3_same; auto|].
  destruct (from =? h_height tl) eqn:EuT; destruct (to =? wrap64 (h_height hd + 1)) eqn:EuH; cbn [andb negb].
  - (* both ends: the lookup of [to] decides *)
    destruct (cnb_sim x to M C) as (E1 & E2 & C1).
    destruct (cnb evh evi x to) as [xa ra]. cbn [fst snd] in *. subst ra.
    assert (Ma : minv (c_st xa)) by (rewrite E1; auto).
    destruct (cdelete_seq_sim script nh (N.to_nat (to - from)) xa from [] Ma C1) as (F1 & F2 & F3).
    pose proof (delete_seq_minv script nh (N.to_nat (to - from)) (c_st xa) from [] Ma) as M1.
    rewrite E1 in F1, F2, M1.
    destruct (cdelete_seq evh evi xa script nh from (N.to_nat (to - from)) []) as [[[x1 l1] a1] ok1].
    destruct (delete_seq (c_st x) script nh from (N.to_nat (to - from)) []) as [[[s1 l1'] a1'] ok1'].
    cbn [fst snd] in *. injection F2 as <- <- <-. rewrite <- F1 in M1.
    destruct (match nb (c_st x) to with NotFound => true | _ => false end).
    + destruct ok1.
      * destruct (cwipe_sim x1) as [W1 W2]. unfold sim3. cbn [fst snd]. rewrite W1, F1. auto.
      * destruct (cset_tail_sim x1 a1 M1 F3) as (G1 & _ & G3 & _). unfold sim3. cbn [fst snd]. rewrite G1, F1. auto.
    + destruct (wrap64 (h_height hd + 1) <? to); [apply sim3_same; auto|].
      destruct (cset_tail_sim x1 a1 M1 F3) as (G1 & G2 & G3 & _).
      destruct (cset_tail evh evi x1 a1) as [x2 tok]. destruct (set_tail s1 a1) as [s2 tok'] eqn:Es.
      rewrite F1, Es in G1, G2. cbn [fst snd] in *. subst tok'. unfold sim3. cbn [fst snd]. auto.
  - (* tail side *)
    destruct (wrap64 (h_height hd + 1) <? to); [apply sim3_same; auto|].
    destruct (cdelete_seq_sim script nh (N.to_nat (to - from)) x from [] M C) as (F1 & F2 & F3).
    pose proof (delete_seq_minv script nh (N.to_nat (to - from)) (c_st x) from [] M) as M1.
    destruct (cdelete_seq evh evi x script nh from (N.to_nat (to - from)) []) as [[[x1 l1] a1] ok1].
    destruct (delete_seq (c_st x) script nh from (N.to_nat (to - from)) []) as [[[s1 l1'] a1'] ok1'].
    cbn [fst snd] in *. injection F2 as <- <- <-. rewrite <- F1 in M1.
    destruct (cset_tail_sim x1 a1 M1 F3) as (G1 & G2 & G3 & _).
    destruct (cset_tail evh evi x1 a1) as [x2 tok]. destruct (set_tail s1 a1) as [s2 tok'] eqn:Es.
    rewrite F1, Es in G1, G2. cbn [fst snd] in *. subst tok'. unfold sim3. cbn [fst snd]. auto.
  - (* head side *)
    destruct (from <? h_height tl); [apply sim3_same; auto|].
    destruct (cnb_sim x (from - 1) M C) as (E1 & E2 & C1).
    destruct (cnb evh evi x (from - 1)) as [xa ra]. cbn [fst snd] in *. subst ra.
    destruct (nb (c_st x) (from - 1)) as [nh'| | |]; try (apply sim3_same; auto; fail).
    rewrite E1. set (s0 := write (c_st x) [WPutTail (h_id tl); WPutHead (h_id nh')]).
    assert (SM0 : same_maps (c_st x) s0) by (apply ptr_write_maps; intros y [<-|[<-|[]]]; exact I).
    assert (M0 : minv s0) by (eapply minv_ext; eauto).
    assert (C0 : coh (with_st xa s0)) by (apply coh_same_maps; auto; rewrite E1; auto).
    destruct (cdelete_seq_sim script nh (N.to_nat (to - from)) (with_st xa s0) from [] M0 C0) as (F1 & F2 & F3).
    pose proof (delete_seq_minv script nh (N.to_nat (to - from)) s0 from [] M0) as M1.
    cbn [c_st with_st] in F1, F2.
    destruct (cdelete_seq evh evi (with_st xa s0) script nh from (N.to_nat (to - from)) []) as [[[x1 l1] a1] ok1].
    destruct (delete_seq s0 script nh from (N.to_nat (to - from)) []) as [[[s1 l1'] a1'] ok1'].
    cbn [fst snd] in *. injection F2 as <- <- <-. rewrite <- F1 in M1.
    destruct (from <? a1).
    + destruct (cset_head_sim x1 (from - 1) M1 F3) as (G1 & G2 & G3 & _).
      destruct (cset_head evh evi x1 (from - 1)) as [x2 hok]. destruct (set_head s1 (from - 1)) as [s2 hok'] eqn:Es.
      rewrite F1, Es in G1, G2. cbn [fst snd] in *. subst hok'. unfold sim3. cbn [fst snd]. auto.
    + unfold sim3. cbn [fst snd c_st with_st]. rewrite F1. split_and!; auto.
      apply coh_same_maps; auto. rewrite F1. apply ptr_write_maps. intros y [<-|[]]. exact I.
  - apply sim3_same; auto.
Qed.


Lemma chain_list_nil : chain_list (c:=c) (U:=U) [].
Proof. intros h []. Qed.

Lemma csync_sim x : minv (c_st x) -> coh x ->
  c_st (csync evh evi x) = sync (c_st x) /\ coh (csync evh evi x) /\ minv (sync (c_st x)).
Proof.
  intros M C. destruct (cflush_one_sim x None M C chain_list_nil) as (E1 & _ & C1 & M1).
  unfold csync, sync. auto.
Qed.

Lemma cdelete_range_sim x script nh from to : minv (c_st x) -> coh x ->
  sim3 (cdelete_range evh evi x script nh from to) (delete_range (c_st x) script nh from to).
Proof.
  intros M C. unfold cdelete_range, delete_range. destruct (csync_sim x M C) as (E & C1 & M1).
  rewrite <- E. apply cdelete_range_synced_sim; auto. rewrite E. exact M1.
Qed.

Lemma cstart_sim x : minv (c_st x) -> coh x -> c_st (cstart evh x) = start (c_st x) /\ coh (cstart evh x).
Proof.
  intros M C. unfold cstart, start.
  assert (A : c_st (cread_head evh x) = read_head (c_st x) /\ coh (cread_head evh x) /\ minv (read_head (c_st x))).
  { unfold cread_head, read_head. destruct (d_head (c_st x)) as [id|]; auto.
    destruct (cget_sim x id M C) as (E1 & E2 & C1).
    destruct (cget evh x id) as [x1 r]. cbn [fst snd] in *. subst r. rewrite E1.
    destruct (get (c_st x) id) as [h| | |]; cbn [c_st with_st]; split_and!; auto;
      try (apply coh_same_maps; auto; rewrite E1);
      try (eapply minv_ext; [|exact M]);
      try (apply ptr_write_maps; intros y [<-|[]]; exact I); unfold same_maps; cbn; tauto. }
  destruct A as (A1 & A2 & A3). rewrite <- A1 in A3.
  unfold cread_tail, read_tail. rewrite A1. destruct (d_tail (read_head (c_st x))) as [id|]; auto.
  destruct (cget_sim _ id A3 A2) as (E1 & E2 & C1).
  destruct (cget evh (cread_head evh x) id) as [x1 r]. cbn [fst snd] in *. subst r. rewrite E1, A1.
  destruct (get (read_head (c_st x)) id) as [h| | |]; cbn [c_st with_st]; split_and!; auto;
    apply coh_same_maps; auto; rewrite E1, A1;
    try (apply ptr_write_maps; intros y [<-|[]]; exact I); unfold same_maps; cbn; tauto.
Qed.

(** one operation: same cache-free state, same handler log, same outcome, coherent caches *)
Theorem cstep_sim x o : minv (c_st x) -> coh x ->
  (forall hs, o = OAppend hs -> chain_list (c:=c) (U:=U) hs) ->
  sim3 (cstep evh evi x o) (step (c_st x) o).
Proof.
  intros M C Hc. destruct o as [hs|from to nh fails| | |]; cbn [cstep step].
  - unfold cappend, append. destruct hs as [|h0 hs]; [apply sim3_same; auto|].
    destruct (cflush_one_sim x (Some (h0 :: hs)) M C (Hc _ eq_refl)) as (E1 & E2 & C1 & _).
    destruct (cflush_one evh evi x (Some (h0 :: hs))) as [x' r]. destruct (flush_one (c_st x) (Some (h0 :: hs))) as [s' r'].
    cbn [fst snd] in *. subst r'. unfold sim3. cbn. auto.
  - apply cdelete_range_sim; auto.
  - destruct (csync_sim x M C) as (E & C1 & _). unfold sim3. cbn. auto.
  - unfold cstop, stop. destruct (cflush_one_sim x None M C chain_list_nil) as (E1 & E2 & C1 & M1).
    destruct (cflush_one evh evi x None) as [x1 r]. destruct (flush_one (c_st x) None) as [s1 r'].
    cbn [fst snd] in *. subst r' s1.
    destruct r; [| |unfold sim3; cbn; auto].
    + assert (Md : minv (c_st (cdeinit x1))).
      { cbn. eapply minv_ext; [|exact M1]. unfold same_maps. cbn. tauto. }
      destruct (cstart_sim (cdeinit x1) Md (coh_purge _)) as [S1 S2]. unfold sim3. cbn [fst snd]. rewrite S1. auto.
    + assert (Md : minv (c_st (cdeinit x1))).
      { cbn. eapply minv_ext; [|exact M1]. unfold same_maps. cbn. tauto. }
      destruct (cstart_sim (cdeinit x1) Md (coh_purge _)) as [S1 S2]. unfold sim3. cbn [fst snd]. rewrite S1. auto.
  - unfold cstop, stop. destruct (cflush_one_sim x None M C chain_list_nil) as (E1 & E2 & C1 & M1).
    destruct (cflush_one evh evi x None) as [x1 r]. destruct (flush_one (c_st x) None) as [s1 r'].
    cbn [fst snd] in *. subst r' s1.
    assert (Cf : coh (cfresh (cdeinit x1))) by (split; cbn; intros *; rewrite lookup_empty; discriminate).
    assert (Mf : minv (c_st (cfresh (cdeinit x1)))).
    { cbn. destruct M1 as [A B D E F]. split; cbn; auto; intros *; rewrite lookup_empty; discriminate. }
    destruct r; [| |unfold sim3; cbn; auto].
    + destruct (cstart_sim _ Mf Cf) as [S1 S2]. unfold sim3. cbn [fst snd]. rewrite S1. auto.
    + destruct (cstart_sim _ Mf Cf) as [S1 S2]. unfold sim3. cbn [fst snd]. rewrite S1. auto.
Qed.

End chain.
End oracle.

(** ** histories: the cached Store and the cache-free Store walk through the same states *)
Section hist.
Context {c : N -> hdr} {U : N} {CH : chain_hyps c U}.
Variables (evh evi : nat -> N -> bool).

Theorem crun_sim b ops : Forall (op_ok U) ops ->
  c_st (crun evh evi (cst0 b) (map (to_op c) ops)) = run c (st0 b) ops /\
  coh (crun evh evi (cst0 b) (map (to_op c) ops)).
Proof.
  intros F.
  assert (G : forall x sp, inv c U (c_st x) sp -> coh x ->
              c_st (crun evh evi x (map (to_op c) ops)) = run c (c_st x) ops /\
              coh (crun evh evi x (map (to_op c) ops))).
  { induction F as [|o ops Ho F IH]; intros x sp I C; [cbn; auto|].
    cbn [map crun run fold_left].
    pose proof (iv_m _ _ _ _ (proj1 I)) as M.
    assert (S : sim3 (cstep evh evi x (to_op c o)) (step (c_st x) (to_op c o))).
    { apply (@cstep_sim evh evi c U CH x (to_op c o) M C). intros hs E. destruct o as [ns| | | |]; try discriminate.
      cbn in E. injection E as <-. apply chain_list_map. exact Ho. }
    destruct S as (S1 & _ & _ & S4).
    destruct (coh_evict evh evi _ S4) as [C' E'].
    destruct (step_refines (c:=c) (c_st x) sp o I Ho) as (I' & _).
    unfold mstep in I'. rewrite <- S1, <- E' in I'.
    destruct (IH _ _ I' C') as [R1 R2]. unfold crun in R1, R2. split; auto.
    rewrite R1, E', S1. reflexivity. }
  apply (G (cst0 b) spec0); [apply inv_st0|apply coh_cst0].
Qed.

(** every read of the cached Store is the read of the cache-free Store *)
Theorem cache_independent b ops : Forall (op_ok U) ops ->
  let X := crun evh evi (cst0 b) (map (to_op c) ops) in
  let s := run c (st0 b) ops in
  c_st X = s /\
  (forall n, snd (cget_by_height evh evi X n) = get_by_height s n) /\
  (forall id, snd (cget evh X id) = get s id) /\
  (forall id, chas X id = has s id) /\
  (forall from to, snd (cget_range evh evi X from to) = get_range s from to) /\
  (forall id h, c_hc X !! id = Some h -> d_hdr s !! id = Some h) /\
  (forall n id, c_ic X !! n = Some id -> d_idx s !! n = Some id).
Proof.
  intros F X s. destruct (crun_sim b ops F) as [E C]. fold X in E, C. fold s in E.
  assert (M : minv c U (c_st X)) by (rewrite E; exact (iv_m _ _ _ _ (proj1 (history_inv (c:=c) b ops F)))).
  split_and!; auto.
  - intros n. destruct (cgbh_sim evh evi X n M C) as (_ & R & _). rewrite R, E. reflexivity.
  - intros id. destruct (cget_sim evh evi X id M C) as (_ & R & _). rewrite R, E. reflexivity.
  - intros id. rewrite (chas_sim X id C), E. reflexivity.
  - intros from to. destruct (cget_range_sim evh evi X from to M C) as (_ & R & _). rewrite R, E. reflexivity.
  - intros id h. rewrite <- E. apply C.
  - intros n id. rewrite <- E. apply C.
Qed.

End hist.
