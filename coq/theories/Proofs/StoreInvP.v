(** The refinement relation between model states and specification states,
    and the observation lemmas: every read of a related model state equals
    the corresponding observation of the specification state. *)
From Coq Require Import NArith List Bool Lia ZifyBool ZifyN ZifyNat.
From stdpp Require Import gmap.
From GH Require Import Base.Prelude Model.Store Model.StoreSpec Proofs.StoreP.
Import ListNotations.
Open Scope N_scope.

Definition ptrs_core (c : N -> hdr) (s : st) (sp : spec) : Prop :=
  match sHT sp with
  | None => headp s = None /\ tailp s = None /\ hsh s = 0 /\ d_head s = None /\ d_tail s = None
  | Some (T, H) =>
    headp s = Some (c H) /\ tailp s = Some (c T) /\ hsh s = H /\ T <= H /\
    (forall n, T <= n <= H -> stored s n) /\ ~ stored s (H + 1) /\ ~ stored s (T - 1)
  end.

(** with an empty write batch both pointers are on disk (needed for restarts) *)
Definition disk_ok (c : N -> hdr) (s : st) (sp : spec) : Prop :=
  match sHT sp with
  | None => True
  | Some (T, H) => pend_h s = ∅ -> d_head s = Some (h_id (c H)) /\ d_tail s = Some (h_id (c T))
  end.

(** the part of the relation every read depends on *)
Record pinv (c : N -> hdr) (U : N) (s : st) (sp : spec) : Prop := {
  iv_m : minv c U s;
  iv_S : forall n, n ∈ sS sp <-> stored s n;
  iv_p : ptrs_core c s sp
}.

Definition inv (c : N -> hdr) (U : N) (s : st) (sp : spec) : Prop :=
  pinv c U s sp /\ disk_ok c s sp.

Lemma forallb_ext' {A} (f g : A -> bool) l : (forall x, f x = g x) -> forallb f l = forallb g l.
Proof. intros E. induction l as [|a l IH]; cbn; auto. rewrite E, IH. reflexivity. Qed.

Section obs.
Context {c : N -> hdr} {U : N} {CH : chain_hyps c U}.
Notation inr := (inr U).
Notation minv := (minv c U).
Notation pstored := (pstored c).
Notation pinv := (pinv c U).
Notation inv := (inv c U).

Lemma inv_st0 b : inv (st0 b) spec0.
Proof.
  split; [|exact I]. split; [apply minv_st0| |cbn; auto].
  intros n. cbn. split; [intros H; apply elem_of_empty in H; tauto|].
  intros [[? H]|[? H]]; cbn in H; rewrite lookup_empty in H; discriminate.
Qed.

Lemma inv_pstored s sp : pinv s sp -> pstored s.
Proof.
  intros [M HS P]. unfold ptrs_core in P. intros h Hh.
  destruct (sHT sp) as [[T H]|].
  - destruct P as (Hhd & Htl & _ & Hle & Hst & _).
    destruct Hh as [Hh|Hh]; [rewrite Hhd in Hh|rewrite Htl in Hh]; injection Hh as <-;
      eexists; split; eauto; apply Hst; lia.
  - destruct P as (Hhd & Htl & _). destruct Hh; congruence.
Qed.

Lemma inv_TH s sp T H : pinv s sp -> sHT sp = Some (T, H) -> inr T /\ inr H /\ T <= H.
Proof.
  intros [M HS P] E. unfold ptrs_core in P. rewrite E in P.
  destruct P as (_ & _ & _ & Hle & Hst & _).
  split_and!; auto; apply (stored_inr s _ M); apply Hst; lia.
Qed.

Lemma stored_b s sp n : pinv s sp -> (if stored_dec s n then true else false) = bool_decide (n ∈ sS sp).
Proof.
  intros I. destruct (stored_dec s n) as [Hs|Hs]; symmetry.
  - apply bool_decide_eq_true. apply (iv_S _ _ _ _ I). auto.
  - apply bool_decide_eq_false. rewrite (iv_S _ _ _ _ I). auto.
Qed.

Theorem obs_head s sp : pinv s sp -> headp s = option_map (fun th => c (snd th)) (sHT sp).
Proof.
  intros [_ _ P]. unfold ptrs_core in P. destruct (sHT sp) as [[T H]|]; cbn; tauto.
Qed.

Theorem obs_tail s sp : pinv s sp -> tailp s = option_map (fun th => c (fst th)) (sHT sp).
Proof.
  intros [_ _ P]. unfold ptrs_core in P. destruct (sHT sp) as [[T H]|]; cbn; tauto.
Qed.

Theorem obs_height s sp : pinv s sp -> hsh s = spec_height sp.
Proof.
  intros [_ _ P]. unfold ptrs_core, spec_height in *. destruct (sHT sp) as [[T H]|]; cbn; tauto.
Qed.

Theorem obs_gbh s sp n : pinv s sp -> get_by_height s n = spec_gbh c sp n.
Proof.
  intros I. unfold spec_gbh. rewrite <- (stored_b s sp n I), <- (obs_height s sp I).
  destruct (stored_dec s n) as [Hs|Hs].
  - rewrite gbh_stored; eauto using inv_pstored, pstored_pchain, iv_m.
    pose proof (stored_inr s n (iv_m _ _ _ _ I) Hs) as [? ?].
    destruct (N.eqb_spec n 0); auto; lia.
  - rewrite gbh_not_stored; eauto using inv_pstored, iv_m.
Qed.

Theorem obs_get s sp n : pinv s sp -> inr n -> get s (h_id (c n)) = spec_get c sp n.
Proof.
  intros I Hn. unfold spec_get. rewrite <- (stored_b s sp n I).
  destruct (stored_dec s n) as [Hs|Hs].
  - apply get_stored; eauto using iv_m.
  - apply get_not_stored; eauto using iv_m.
Qed.

Theorem obs_has s sp n : pinv s sp -> inr n -> has s (h_id (c n)) = bool_decide (n ∈ sS sp).
Proof.
  intros I Hn. rewrite has_get by eauto using iv_m. rewrite (obs_get s sp n I Hn).
  unfold spec_get. destruct (bool_decide _); reflexivity.
Qed.

Theorem obs_has_at s sp n : pinv s sp -> has_at s n = spec_has_at sp n.
Proof.
  intros I. unfold has_at, spec_has_at. rewrite (obs_head s sp I), (obs_tail s sp I).
  destruct (sHT sp) as [[T H]|] eqn:E; cbn; auto.
  destruct (inv_TH s sp T H I E) as (HT & HH & _).
  rewrite !(@ch_height c U CH); auto.
Qed.

Theorem obs_range s sp from to : pinv s sp -> get_range s from to = spec_range c sp from to.
Proof.
  intros I. unfold get_range, spec_range. destruct (N.leb_spec to from) as [|Hlt]; auto.
  rewrite <- (obs_gbh s sp _ I).
  destruct (stored_dec s (to - 1)) as [Hs|Hs].
  - rewrite gbh_stored; eauto using inv_pstored, pstored_pchain, iv_m.
    set (k := N.to_nat (to - from - 1)).
    assert (E : to - 1 = from + N.of_nat k) by lia. rewrite E.
    rewrite walk_down_spec; eauto using iv_m; [|rewrite <- E; auto].
    replace (N.to_nat (to - from)) with (S k) by lia.
    rewrite (seqN_snoc from k), forallb_app. cbn [forallb]. rewrite <- E.
    rewrite (forallb_ext' _ _ _ (fun n => stored_b s sp n I)).
    rewrite <- (stored_b s sp (to - 1) I). destruct (stored_dec s (to - 1)); [|contradiction].
    rewrite !andb_true_r. rewrite app_nil_r. reflexivity.
  - rewrite gbh_not_stored; eauto using inv_pstored, iv_m.
    destruct (to - 1 =? 0); auto. destruct (to - 1 <=? hsh s); auto.
Qed.

End obs.
