(** Tie lemmas for the store oracles: the checked chain list satisfies the chain hypotheses,
    and a probe matches a model state iff it matches the specification state it refines. *)
From Coq Require Import NArith List Bool Lia ZifyBool ZifyN ZifyNat.
From stdpp Require Import gmap.
From GH Require Import Base.Prelude Model.Store Model.StoreSpec Oracle.StoreCase.
From GH Require Import Proofs.StoreP Proofs.StoreClimbP Proofs.StoreInvP.
Import ListNotations.
Open Scope N_scope.

Fixpoint cgo (n prev : N) (l : list hdr) (seen : list N) : bool :=
  match l with
  | [] => true
  | h :: r => negb (h_nil h) && (h_height h =? n) && (h_prev h =? prev) && negb (h_id h =? 0)
              && negb (existsb (N.eqb (h_id h)) seen) && cgo (n + 1) (h_id h) r (h_id h :: seen)
  end.

Lemma chain_ok_cgo l : chain_ok l = cgo 1 0 l [].
Proof. reflexivity. Qed.

Lemma existsb_false_notin x l : existsb (N.eqb x) l = false -> ~ In x l.
Proof.
  induction l as [|y l IH]; cbn; [tauto|]. rewrite orb_false_iff. intros [A B] [->|H]; [|apply IH; auto].
  rewrite N.eqb_refl in A. discriminate.
Qed.

Lemma cgo_spec : forall l n prev seen, cgo n prev l seen = true ->
  forall i, (i < length l)%nat ->
    let h := nth i l hdr_nil in
    h_height h = n + N.of_nat i /\ h_id h <> 0 /\ ~ In (h_id h) seen /\
    h_prev h = (match i with O => prev | S j => h_id (nth j l hdr_nil) end) /\
    forall j, (j < i)%nat -> h_id (nth j l hdr_nil) <> h_id h.
Proof.
  induction l as [|h0 r IH]; intros n prev seen Hc i Hi; [cbn in Hi; lia|].
  cbn [cgo] in Hc. rewrite !andb_true_iff, !negb_true_iff in Hc.
  destruct Hc as (((((C1 & C2) & C3) & C4) & C5) & C6).
  destruct i as [|i]; cbn [nth].
  - split_and!; try lia; try (apply existsb_false_notin; auto); try (intros j Hj; lia).
  - cbn [length] in Hi. destruct (IH _ _ _ C6 i ltac:(lia)) as (A1 & A2 & A3 & A4 & A5). cbv zeta in *.
    split_and!; auto; try lia.
    + intros Hin. apply A3. right. auto.
    + destruct i; auto.
    + intros [|j] Hj; cbn [nth].
      * intros E. apply A3. left. auto.
      * apply A5. lia.
Qed.

Lemma chain_of_in l n : inr (N.of_nat (length l)) n -> chain_of l n = nth (N.to_nat (n - 1)) l hdr_nil /\ (N.to_nat (n - 1) < length l)%nat.
Proof. intros [A B]. unfold chain_of. replace (n =? 0) with false by lia. split; auto. lia. Qed.

Lemma chain_of_out l n : ~ inr (N.of_nat (length l)) n -> chain_of l n = hdr_nil.
Proof.
  intros Hn. unfold chain_of. destruct (N.eqb_spec n 0); auto. apply nth_overflow. unfold inr in Hn. lia.
Qed.

Theorem chain_ok_hyps l : chain_ok l = true -> N.of_nat (length l) < two64 - 1 ->
  chain_hyps (chain_of l) (N.of_nat (length l)) /\
  (forall n, inr (N.of_nat (length l)) n -> h_id (chain_of l n) <> 0) /\
  (forall n, ~ inr (N.of_nat (length l)) n -> h_id (chain_of l n) = 0).
Proof.
  intros Hc Hb. rewrite chain_ok_cgo in Hc. pose proof (cgo_spec l 1 0 [] Hc) as K. split; [split|split].
  - exact Hb.
  - intros n Hn. destruct (chain_of_in l n Hn) as [-> Hi]. destruct (K _ Hi) as (A & _). rewrite A. destruct Hn. lia.
  - intros n m Hn Hm E. destruct (chain_of_in l n Hn) as [En Hi], (chain_of_in l m Hm) as [Em Hj].
    rewrite En, Em in E. destruct Hn, Hm.
    destruct (Nat.lt_trichotomy (N.to_nat (n - 1)) (N.to_nat (m - 1))) as [Hl|[He|Hl]]; [|lia|].
    + destruct (K _ Hj) as (_ & _ & _ & _ & A5). exfalso. apply (A5 _ Hl). exact E.
    + destruct (K _ Hi) as (_ & _ & _ & _ & A5). exfalso. apply (A5 _ Hl). symmetry. exact E.
  - intros n Hn Hn1. destruct (chain_of_in l n Hn) as [En Hi], (chain_of_in l (n + 1) Hn1) as [En1 Hi1].
    rewrite En, En1. destruct (K _ Hi1) as (_ & _ & _ & A4 & _). cbv zeta in A4. destruct Hn.
    replace (N.to_nat (n + 1 - 1)) with (S (N.to_nat (n - 1))) in * by lia. exact A4.
  - intros m Hm. assert (H1 : inr (N.of_nat (length l)) 1) by (destruct Hm; split; lia).
    destruct (chain_of_in l 1 H1) as [E1 Hi1], (chain_of_in l m Hm) as [Em Hi].
    rewrite E1, Em. destruct (K _ Hi1) as (_ & _ & _ & A4 & _). cbv zeta in A4. cbn in A4. cbn. rewrite A4.
    destruct (K _ Hi) as (_ & A2 & _). auto.
  - intros n Hn. destruct (chain_of_in l n Hn) as [-> Hi]. destruct (K _ Hi) as (_ & A2 & _). auto.
  - intros n Hn. rewrite chain_of_out by auto. reflexivity.
Qed.

(** ** a probe against a model state and against the specification state it refines *)
Lemma probe_matches_ext hd tl hg gbh get hasf hasat rg hd' tl' hg' gbh' get' hasf' hasat' rg' p :
  hd = hd' -> tl = tl' -> hg = hg' -> (forall n, gbh n = gbh' n) -> (forall n, get n = get' n) ->
  (forall n, hasf n = hasf' n) -> (forall n, hasat n = hasat' n) -> (forall f t, rg f t = rg' f t) ->
  probe_matches hd tl hg gbh get hasf hasat rg p = probe_matches hd' tl' hg' gbh' get' hasf' hasat' rg' p.
Proof.
  intros -> -> -> E1 E2 E3 E4 E5. unfold probe_matches. f_equal; [f_equal|].
  - apply forallb_ext'. intros r. rewrite E1, E2, E3, E4. reflexivity.
  - apply forallb_ext'. intros q. rewrite E5. reflexivity.
Qed.

Section tie.
Context {c : N -> hdr} {U : N} {CH : chain_hyps c U}.
Hypothesis id_in : forall n, inr U n -> h_id (c n) <> 0.
Hypothesis id_out : forall n, ~ inr U n -> h_id (c n) = 0.

Lemma get_zero s : minv c U s -> get s 0 = NotFound.
Proof.
  intros M. destruct (get_cases s 0) as [|[h Hg]]; auto.
  destruct (get_found_inv (c := c) _ _ _ M Hg) as (n & Hn & _ & E & _). exfalso. apply (id_in n Hn). auto.
Qed.

Theorem probe_tie s sp p : pinv c U s sp -> model_probe_ok c s p = spec_probe_ok c sp p.
Proof.
  intros I. pose proof (iv_m _ _ _ _ I) as M. unfold model_probe_ok, spec_probe_ok.
  assert (ND : forall n, inr U n \/ ~ inr U n) by (intros n; unfold inr; lia).
  assert (SI : forall n, n ∈ sS sp -> inr U n).
  { intros n Hn. apply (stored_inr s n M), (iv_S _ _ _ _ I), Hn. }
  apply probe_matches_ext.
  - rewrite (obs_head s sp I). destruct (sHT sp) as [[T H]|] eqn:E; cbn; auto.
    destruct (inv_TH s sp T H I E) as (_ & HH & _). rewrite (@ch_height c U CH) by auto. reflexivity.
  - rewrite (obs_tail s sp I). destruct (sHT sp) as [[T H]|] eqn:E; cbn; auto.
    destruct (inv_TH s sp T H I E) as (HT & _). rewrite (@ch_height c U CH) by auto. reflexivity.
  - exact (obs_height s sp I).
  - intros n. rewrite (obs_gbh s sp n I). reflexivity.
  - intros n. destruct (ND n) as [Hn|Hn].
    + rewrite (obs_get s sp n I Hn). destruct Hn. replace (n =? 0) with false by lia. reflexivity.
    + rewrite (id_out n Hn), (get_zero s M). destruct (n =? 0); auto. unfold spec_get.
      rewrite bool_decide_eq_false_2; auto.
  - intros n. destruct (ND n) as [Hn|Hn].
    + rewrite (obs_has s sp n I Hn). destruct Hn. replace (n =? 0) with false by lia. reflexivity.
    + rewrite (has_get (c := c) s _ M), (id_out n Hn), (get_zero s M).
      destruct (n =? 0); auto. cbn. symmetry. apply bool_decide_eq_false_2. auto.
  - intros n. exact (obs_has_at s sp n I).
  - intros f t. rewrite (obs_range s sp f t I). reflexivity.
Qed.

End tie.
