(** Proofs for the extensions of Model/Session.v (audit follow-up):
    a panicking Validate ([FValidatePanic]) is an ordinary failed answer. *)
From GH Require Import Base.Prelude Model.Verify Model.Session Proofs.VerifyP Proofs.SessionP.

(** ** Validate panics *)

(** [sub] is a frame that processResponses refuses with an ordinary (non NOT_FOUND) error *)
Definition refused_frame (sub : frame) : Prop := process_frames [sub] = inl POther.

Lemma refused_frame_cons sub rest : refused_frame sub -> process_frames (sub :: rest) = inl POther.
Proof.
  unfold refused_frame. destruct sub as [h| | | | |]; cbn [process_frames]; try discriminate; try reflexivity.
  destruct (h_ok h); [discriminate | reflexivity].
Qed.

Lemma process_frames_calm sub fs : refused_frame sub ->
  process_frames (map (calm_frame sub) fs) = process_frames fs.
Proof.
  intros Hs. induction fs as [|f fs IH]; [reflexivity|].
  destruct f as [h| | | | |]; cbn [map calm_frame]; try reflexivity.
  - cbn [process_frames]. rewrite IH. reflexivity.
  - rewrite (refused_frame_cons _ _ Hs). reflexivity.
Qed.

Lemma takeN_map {A B} (g : A -> B) l : forall n, takeN n (map g l) = map g (takeN n l).
Proof.
  induction l as [|x l IH]; intros n; cbn [map takeN]; [reflexivity|].
  destruct (n =? 0); [reflexivity|]. cbn [map]. rewrite IH. reflexivity.
Qed.

Lemma process_responses_calm sub fs : refused_frame sub ->
  process_responses (map (calm_frame sub) fs) = process_responses fs.
Proof.
  intros Hs. unfold process_responses.
  destruct fs as [|f fs]; [reflexivity|].
  change (map (calm_frame sub) (f :: fs)) with (calm_frame sub f :: map (calm_frame sub) fs).
  change (calm_frame sub f :: map (calm_frame sub) fs) with (map (calm_frame sub) (f :: fs)).
  apply process_frames_calm, Hs.
Qed.

Lemma do_request_p_calm now drift tvp from r sub fs : refused_frame sub ->
  do_request_p now drift tvp from r (map (calm_frame sub) fs) = do_request_p now drift tvp from r fs.
Proof.
  intros Hs. unfold do_request_p. rewrite takeN_map, (process_responses_calm _ _ Hs). reflexivity.
Qed.

Lemma step_p_calm drift tvp maxcap from sub s ev : refused_frame sub ->
  step_p drift tvp maxcap from s (calm_event sub ev) = step_p drift tvp maxcap from s ev.
Proof.
  intros Hs. destruct ev as [p r|p now fs| |]; cbn [calm_event]; try reflexivity.
  unfold step_p. destruct (s_res s); [reflexivity|].
  destruct (take_flight p (s_flight s)) as [[r fl]|]; [|reflexivity].
  rewrite (do_request_p_calm _ _ _ _ _ _ _ Hs). reflexivity.
Qed.

Lemma run_p_calm drift tvp maxcap from sub evs : refused_frame sub -> forall s,
  run_p drift tvp maxcap from s (map (calm_event sub) evs) = run_p drift tvp maxcap from s evs.
Proof.
  intros Hs. induction evs as [|ev evs IH]; intros s; cbn [map run_p]; [reflexivity|].
  rewrite (step_p_calm _ _ _ _ _ _ _ Hs). apply IH.
Qed.

(** every panic of Validate is recovered: the call behaves exactly as if each frame on which
    Validate panics were a frame that is refused with an ordinary error *)
Theorem validate_panics_are_refusals drift tvp maxcap per from to peers sub evs :
  refused_frame sub ->
  GetRangeByHeight_p drift tvp maxcap per from to peers (map (calm_event sub) evs) =
  GetRangeByHeight_p drift tvp maxcap per from to peers evs.
Proof. intros Hs. unfold GetRangeByHeight_p. rewrite (run_p_calm _ _ _ _ _ _ Hs). reflexivity. Qed.

(** an answer with a Validate panic among the frames that are read is a failed request: the
    request is queued again, nothing is collected, no panic *)
Theorem validate_panic_fails_the_answer now drift tvp from r fs :
  In FValidatePanic (takeN (r_amount r) fs) ->
  exists e, do_request_p now drift tvp from r fs = DErr e.
Proof.
  intros Hin. unfold do_request_p.
  assert (H : exists e, process_responses (takeN (r_amount r) fs) = inl e).
  { generalize dependent (takeN (r_amount r) fs). intros l Hl.
    unfold process_responses. destruct l as [|f l]; [destruct Hl|].
    remember (f :: l) as l' eqn:E. clear E f l.
    induction l' as [|f l IH]; [destruct Hl|].
    destruct Hl as [->|Hl].
    - cbn. eauto.
    - destruct f as [h| | | | |]; cbn [process_frames]; eauto.
      destruct (h_ok h); [|eauto]. destruct (IH Hl) as [e ->]. eauto. }
  destruct H as [e ->]. eauto.
Qed.

Theorem validate_panic_never_crashes drift tvp maxcap per from to peers evs :
  h_nil from = false -> h_height from < two64 -> to < two64 -> 1 <= per ->
  to - (h_height from + 1) <= maxcap ->
  (exists p now fs, In (ERespond p now fs) evs /\ In FValidatePanic fs) ->
  GetRangeByHeight_p drift tvp maxcap per from to peers evs <> Some RPanic.
Proof. intros. apply no_response_crashes_p; assumption. Qed.
