(** C17: the micro-states a reader can observe while queued batches are flushed. *)
From Coq Require Import NArith List Bool Lia ZifyBool ZifyN ZifyNat.
From stdpp Require Import gmap.
From GH Require Import Base.Prelude Model.Store Model.StoreSpec Model.StoreConc.
From GH Require Import Proofs.StoreP Proofs.StoreClimbP Proofs.StoreInvP Proofs.StoreAppendP.
Import ListNotations.
Open Scope N_scope.

(** Head().Height() as a reader sees it (0 = no head) *)
Definition head_h (s : st) : N := match headp s with Some h => h_height h | None => 0 end.

(** Head().Height() and Height() never decrease from [p] along the list of states *)
Fixpoint mono_from (p : st) (l : list st) : Prop :=
  match l with
  | [] => True
  | x :: r => head_h p <= head_h x /\ hsh p <= hsh x /\ mono_from x r
  end.

(** the header returned by Head() is itself retrievable by height and by hash *)
Definition torn_free (x : st) : Prop :=
  o_head_by_height (observe17 x) = true /\ o_head_by_hash (observe17 x) = true.

Lemma last_indep {A} (l : list A) : forall x d d', last (x :: l) d = last (x :: l) d'.
Proof. induction l as [|y l IH]; intros x d d'; [reflexivity|]. exact (IH y d d'). Qed.

Lemma last_app' {A} (l1 l2 : list A) d : last (l1 ++ l2) d = last l2 (last l1 d).
Proof.
  revert d. induction l1 as [|a l1 IH]; intros d; [reflexivity|].
  destruct l1 as [|b l1].
  - destruct l2 as [|x l2]; [reflexivity|]. exact (last_indep l2 x d a).
  - change ((a :: b :: l1) ++ l2) with (a :: (b :: l1) ++ l2).
    change (last (a :: b :: l1) d) with (last (b :: l1) d). rewrite <- IH. reflexivity.
Qed.

Lemma mono_from_app p l1 l2 : mono_from p l1 -> mono_from (last l1 p) l2 -> mono_from p (l1 ++ l2).
Proof.
  revert p. induction l1 as [|x l1 IH]; intros p H1 H2; [exact H2|].
  destruct H1 as (A & B & C). cbn [app mono_from]. split_and!; auto. apply IH; auto.
  destruct l1 as [|y l1]; [exact H2|]. change (last (x :: y :: l1) p) with (last (y :: l1) p) in H2.
  rewrite (last_indep l1 y x p). exact H2.
Qed.

(** pending.Append and ensureInit commute (they touch disjoint fields) *)
Lemma pend_add_ensure_init s hs : pend_add (ensure_init s hs) hs = ensure_init (pend_add s hs) hs.
Proof.
  destruct hs as [|h0 hs]; [reflexivity|]. unfold ensure_init.
  change (headp (pend_add s (h0 :: hs))) with (headp s).
  destruct (headp s).
  - change (tailp (pend_add s (h0 :: hs))) with (tailp s). destruct (tailp s); reflexivity.
  - change (tailp (set_hsh (set_headp (pend_add s (h0 :: hs)) (Some h0)) (h_height h0))) with (tailp s).
    change (tailp (set_hsh (set_headp s (Some h0)) (h_height h0))) with (tailp s).
    destruct (tailp s); reflexivity.
Qed.

(** the last micro-state of a batch is the state after the sequential Append (any state) *)
Lemma last_flush_micro s hs : hs <> [] -> last (flush_micro s (Some hs)) s = fst (append s hs).
Proof.
  intros Hne. destruct hs as [|h hs]; [contradiction|]. cbn [append].
  unfold flush_micro, flush_one. cbv zeta. rewrite pend_add_ensure_init.
  set (s4 := recede_tail _).
  destruct (N.of_nat (size (pend_h s4)) <? batch s4); cbn [andb]; [reflexivity|].
  destruct (size (pend_h s4) =? 0)%nat; reflexivity.
Qed.

Lemma conc_run_last q : forall s, last (conc_run s q) s = seq_run s q.
Proof.
  induction q as [|hs r IH]; intros s; [reflexivity|].
  destruct hs as [|h hs].
  - cbn [conc_run]. rewrite IH. reflexivity.
  - change (conc_run s ((h :: hs) :: r)) with
      (flush_micro s (Some (h :: hs)) ++ conc_run (last (flush_micro s (Some (h :: hs))) s) r).
    rewrite last_app', IH, last_flush_micro by discriminate. reflexivity.
Qed.

Section chain.
Context {c : N -> hdr} {U : N} {CH : chain_hyps c U}.
Notation inr := (inr U).
Notation minv := (minv c U).
Notation pchain := (pchain c U).
Notation pstored := (pstored c).
Notation pinv := (pinv c U).
Notation inv := (inv c U).

Lemma torn_free_of s : minv s -> pstored s -> torn_free s.
Proof.
  intros M P. unfold torn_free, observe17. destruct (headp s) as [h|] eqn:E; [|cbn; auto].
  destruct (P h (or_introl E)) as (n & -> & Sn). pose proof (stored_inr s n M Sn) as Hn.
  cbn [o_head_by_height o_head_by_hash]. rewrite (@ch_height c U CH) by auto.
  rewrite gbh_stored, get_stored; auto using pstored_pchain. cbn.
  rewrite !N.eqb_refl. auto.
Qed.

Lemma stored_reads s n : minv s -> pchain s -> stored s n ->
  get_by_height s n = Found (c n) /\ get s (h_id (c n)) = Found (c n).
Proof. intros M P Sn. split; [apply gbh_stored|apply get_stored]; auto. Qed.

Lemma head_h_chain s H : inr H -> headp s = Some (c H) -> head_h s = H.
Proof. intros HH E. unfold head_h. rewrite E. apply (@ch_height c U CH); auto. Qed.

(** the write of a commit, before the batch is reset *)
Lemma write_commit_facts s : minv s ->
  let s5 := write s (commit_ops s) in
  minv s5 /\ (forall n, stored s n -> stored s5 n) /\
  headp s5 = headp s /\ tailp s5 = tailp s /\ hsh s5 = hsh s.
Proof.
  intros M s5. destruct (commit_minv s M) as [MC _].
  destruct (write_frame s (commit_ops s)) as (W1 & W2 & W3 & W4 & W5 & _). fold s5 in W1, W2, W3, W4, W5.
  split_and!; auto.
  - destruct M as [A B C D E]. destruct MC as [_ _ _ D' E'].
    split; rewrite ?W1, ?W2; auto.
  - intros n [Hn|Hn]; [left; rewrite W1; auto|].
    destruct (commit_minv s M) as [_ St]. specialize (proj2 (St n) (or_intror Hn)).
    intros [[h Hh]|Hd]; [cbn in Hh; rewrite lookup_empty in Hh; discriminate|]. right. exact Hd.
Qed.

(** the micro-states of one batch: every one of them satisfies the map invariant, has its
    pointers (when set) at stored chain headers, and keeps everything stored before plus the batch *)
Lemma flush_micro_facts s sp ns : inv s sp -> Forall inr ns -> ns <> [] ->
  let ms := flush_micro s (Some (map c ns)) in
  mono_from s ms /\
  (forall x, In x ms -> minv x /\ pstored x /\ forall n, stored s n \/ In n ns -> stored x n).
Proof.
  intros [I DK] F Hne. destruct ns as [|n0 ns']; [contradiction|].
  set (ns := n0 :: ns') in *. pose proof I as [M HS P].
  assert (Hn0 : inr n0) by (eapply FIn; eauto; left; auto).
  pose proof (@ch_height c U CH) as c_height. pose proof (@ch_bound c U CH) as Ub.
  unfold flush_micro. cbv zeta. cbn [andb].
  (* pending.Append *)
  set (s1 := pend_add s (map c ns)).
  assert (M1 : minv s1) by (apply pend_add_minv; auto using chain_list_map).
  destruct (pend_add_fields s (map c ns)) as (_ & _ & _ & _ & _ & _ & Q3 & Q4 & Q5).
  fold s1 in Q3, Q4, Q5.
  set (S' := sS sp ∪ list_to_set ns).
  assert (HS1 : forall n, n ∈ S' <-> stored s1 n).
  { intros n. unfold S', s1. rewrite (pend_add_stored s ns n F).
    rewrite elem_of_union, elem_of_list_to_set, elem_of_list_In, HS. tauto. }
  assert (Sub1 : forall n, stored s n \/ In n ns -> stored s1 n).
  { intros n Hn. apply HS1. unfold S'. rewrite elem_of_union, elem_of_list_to_set, elem_of_list_In, HS. auto. }
  assert (PS1 : pstored s1).
  { intros h Hh. rewrite Q3, Q4 in Hh. destruct (inv_pstored s sp I h Hh) as (n & -> & Sn). eauto. }
  (* ensureInit *)
  set (T0 := match sHT sp with Some th => fst th | None => n0 end).
  set (H0 := match sHT sp with Some th => snd th | None => n0 end).
  set (s2 := ensure_init s1 (map c ns)).
  assert (S2 : same_maps s1 s2 /\ headp s2 = Some (c H0) /\ tailp s2 = Some (c T0) /\
               hsh s2 = H0 /\ T0 <= H0 /\ inr T0 /\ inr H0 /\ head_h s <= H0 /\ hsh s <= H0 /\
               (forall n, T0 <= n <= H0 -> stored s n \/ In n ns)).
  { unfold s2, T0, H0, ptrs_core, same_maps in *. cbn [ensure_init map ns].
    destruct (sHT sp) as [[T H]|] eqn:EHT.
    - destruct (inv_TH s sp T H I EHT) as (HT & HH & _).
      destruct P as (P1 & P2 & P3 & P4 & P5 & _). rewrite Q3, P1. cbv beta iota. rewrite Q4, P2. cbv beta iota.
      cbn [fst snd]. rewrite (head_h_chain s H HH P1). rewrite Q5. split_and!; auto; try lia.
    - destruct P as (P1 & P2 & P3 & _). rewrite Q3, P1. cbn. rewrite ?Q4, P2. cbn.
      rewrite c_height; auto. unfold head_h. rewrite P1, P3.
      split_and!; auto; try lia; try (intros n Hn; right; left; lia). }
  destruct S2 as (SM2 & Hd2 & Tl2 & Hs2 & Le2 & HT0 & HH0 & Hh0 & Hs0 & St0).
  assert (M2 : minv s2) by (eapply minv_ext; eauto).
  assert (St2 : forall n, stored s2 n <-> stored s1 n) by (intros n; apply (same_maps_stored s1 s2 n SM2)).
  assert (HS2 : forall n, n ∈ S' <-> stored s2 n) by (intros n; rewrite St2; auto).
  assert (PS2 : pstored s2).
  { intros h [E|E]; rewrite ?Hd2, ?Tl2 in E; injection E as <-; eexists; split; eauto;
      apply St2, Sub1, St0; lia. }
  assert (SI : forall n, n ∈ S' -> inr n) by (intros n Hn; apply HS2 in Hn; eapply stored_inr; eauto).
  (* advance_head *)
  destruct (advance_head_spec s2 S' H0 M2 PS2 HS2) as [B1 B2]; try congruence; auto.
  destruct (advance_head_frame s2) as (F1 & _ & F3).
  set (s3 := advance_head s2) in *.
  set (H' := run_up (Datatypes.S (size S')) S' H0) in *.
  destruct (run_up_spec U Ub S' SI (Datatypes.S (size S')) H0) as (A1 & A2 & A3 & _); [destruct HH0; auto|].
  fold H' in A1, A2, A3.
  assert (HH' : inr H') by (destruct HH0; split; lia).
  assert (M3 : minv s3) by (eapply minv_ext; eauto).
  assert (St3 : forall n, stored s3 n <-> stored s1 n).
  { intros n. rewrite (same_maps_stored s2 s3 n F1). auto. }
  assert (SH' : stored s1 H').
  { destruct (N.eq_dec H' H0) as [->|]; [apply Sub1, St0; lia|]. apply HS1, A3. lia. }
  assert (PS3 : pstored s3).
  { intros h [E|E]; rewrite ?B1, ?F3, ?Tl2 in E; injection E as <-; eexists; split; eauto;
      apply St3; auto; apply Sub1, St0; lia. }
  (* recede_tail *)
  destruct (recede_tail_frame s3) as (G1 & _ & G3 & G4).
  assert (HS3 : forall n, n ∈ S' <-> stored s3 n) by (intros n; rewrite St3; auto).
  pose proof (recede_tail_spec s3 S' T0 M3 PS3 HS3) as D. rewrite F3 in D. specialize (D Tl2 HT0).
  set (s4 := recede_tail s3) in *.
  set (T' := run_down (Datatypes.S (size S')) S' T0) in *.
  destruct (run_down_spec U Ub S' SI (Datatypes.S (size S')) T0 HT0) as (C0 & C1 & C3 & _).
  fold T' in C0, C1, C3.
  assert (M4 : minv s4) by (eapply minv_ext; eauto).
  assert (St4 : forall n, stored s4 n <-> stored s1 n).
  { intros n. rewrite (same_maps_stored s3 s4 n G1). auto. }
  assert (ST' : stored s1 T').
  { destruct (N.eq_dec T' T0) as [->|]; [apply Sub1, St0; lia|]. apply HS1, C3. lia. }
  assert (PS4 : pstored s4).
  { intros h [E|E]; rewrite ?G3, ?B1, ?D in E; injection E as <-; eexists; split; eauto; apply St4; auto. }
  (* commit *)
  destruct (write_commit_facts s4 M4) as (M5 & St5 & W3 & W4 & W5).
  set (s5 := write s4 (commit_ops s4)) in *.
  assert (PS5 : pstored s5).
  { intros h Hh. rewrite W3, W4 in Hh. destruct (PS4 h Hh) as (n & -> & Sn). eauto. }
  destruct (commit_minv s4 M4) as [M6 St6].
  destruct (commit_fields s4) as (_ & _ & X3 & X4 & X5 & _).
  change (set_pend s5 ∅ ∅) with (commit s4).
  assert (PS6 : pstored (commit s4)).
  { intros h Hh. rewrite X3, X4 in Hh. destruct (PS4 h Hh) as (n & -> & Sn). exists n. split; auto. apply St6; auto. }
  (* per-state facts *)
  assert (G1' : minv s1 /\ pstored s1 /\ forall n, stored s n \/ In n ns -> stored s1 n) by (split_and!; auto).
  assert (G2' : minv s2 /\ pstored s2 /\ forall n, stored s n \/ In n ns -> stored s2 n)
    by (split_and!; auto; intros n Hn; apply St2; auto).
  assert (G3' : minv s3 /\ pstored s3 /\ forall n, stored s n \/ In n ns -> stored s3 n)
    by (split_and!; auto; intros n Hn; apply St3; auto).
  assert (G4' : minv s4 /\ pstored s4 /\ forall n, stored s n \/ In n ns -> stored s4 n)
    by (split_and!; auto; intros n Hn; apply St4; auto).
  assert (G5' : minv s5 /\ pstored s5 /\ forall n, stored s n \/ In n ns -> stored s5 n)
    by (split_and!; auto; intros n Hn; apply St5, St4; auto).
  assert (G6' : minv (commit s4) /\ pstored (commit s4) /\ forall n, stored s n \/ In n ns -> stored (commit s4) n)
    by (split_and!; auto; intros n Hn; apply St6, St4; auto).
  (* monotonicity *)
  assert (Mo : head_h s <= head_h s1 /\ hsh s <= hsh s1 /\ head_h s1 <= head_h s2 /\ hsh s1 <= hsh s2 /\
               head_h s2 <= head_h s3 /\ hsh s2 <= hsh s3 /\ head_h s3 <= head_h s4 /\ hsh s3 <= hsh s4 /\
               head_h s4 <= head_h s5 /\ hsh s4 <= hsh s5 /\ head_h s5 <= head_h (commit s4) /\ hsh s5 <= hsh (commit s4)).
  { assert (E1 : head_h s1 = head_h s) by (unfold head_h; rewrite Q3; reflexivity).
    rewrite E1, (head_h_chain s2 H0 HH0 Hd2).
    rewrite (head_h_chain s3 H' HH' B1), (head_h_chain s4 H' HH') by congruence.
    rewrite (head_h_chain s5 H' HH'), (head_h_chain (commit s4) H' HH') by congruence.
    rewrite Q5, Hs2, B2, G4, B2, W5, G4, B2, X5, G4, B2. split_and!; lia. }
  destruct Mo as (m1 & m2 & m3 & m4 & m5 & m6 & m7 & m8 & m9 & m10 & m11 & m12).
  destruct (N.of_nat (size (pend_h s4)) <? batch s4); [|destruct (size (pend_h s4) =? 0)%nat].
  - split; [cbn; tauto|]. intros x [<-|[<-|[<-|[<-|[]]]]]; auto.
  - split; [cbn; tauto|]. intros x [<-|[<-|[<-|[<-|[]]]]]; auto.
  - split; [cbn; tauto|]. intros x [<-|[<-|[<-|[<-|[<-|[<-|[]]]]]]]; auto.
Qed.

End chain.

(** ** whole queues *)
Lemma conc_run_app q q' : forall s, conc_run s (q ++ q') = conc_run s q ++ conc_run (seq_run s q) q'.
Proof.
  induction q as [|hs r IH]; intros s; [reflexivity|].
  destruct hs as [|h hs].
  - cbn [app conc_run]. rewrite IH. reflexivity.
  - change (((h :: hs) :: r) ++ q') with ((h :: hs) :: (r ++ q')).
    change (conc_run s ((h :: hs) :: r ++ q')) with
      (flush_micro s (Some (h :: hs)) ++ conc_run (last (flush_micro s (Some (h :: hs))) s) (r ++ q')).
    change (conc_run s ((h :: hs) :: r)) with
      (flush_micro s (Some (h :: hs)) ++ conc_run (last (flush_micro s (Some (h :: hs))) s) r).
    rewrite IH, <- app_assoc. rewrite last_flush_micro by discriminate. reflexivity.
Qed.

Lemma spec_append_mono sp ns n : n ∈ sS sp -> n ∈ sS (spec_append sp ns).
Proof.
  intros Hn. destruct ns as [|n0 ns']; auto. unfold spec_append.
  destruct (match sHT sp with Some th => th | None => (n0, n0) end). cbn [sS].
  apply elem_of_union_l. exact Hn.
Qed.

Lemma spec_append_in sp ns n : In n ns -> n ∈ sS (spec_append sp ns).
Proof.
  intros Hin. destruct ns as [|n0 ns']; [destruct Hin|]. unfold spec_append.
  destruct (match sHT sp with Some th => th | None => (n0, n0) end). cbn [sS].
  apply elem_of_union_r, elem_of_list_to_set, elem_of_list_In. exact Hin.
Qed.

Lemma spec_append_some sp T H ns : ns <> [] -> sHT sp = Some (T, H) ->
  spec_append sp ns =
  Spec (sS sp ∪ list_to_set ns)
       (Some (run_down (Datatypes.S (size (sS sp ∪ list_to_set ns))) (sS sp ∪ list_to_set ns) T,
              run_up (Datatypes.S (size (sS sp ∪ list_to_set ns))) (sS sp ∪ list_to_set ns) H)).
Proof. destruct ns; [contradiction|]. intros _ E. unfold spec_append. rewrite E. reflexivity. Qed.

(** absorbing an intermediate climb over a subset *)
Lemma run_up_absorb U (S1 S : gset N) f1 f n : U < two64 - 1 -> (forall m, m ∈ S -> inr U m) ->
  S1 ⊆ S -> n <= U -> (size S < f)%nat ->
  run_up f S (run_up f1 S1 n) = run_up f S n.
Proof.
  intros Ub SI Sub Hn Hf.
  assert (SI1 : forall m, m ∈ S1 -> inr U m) by (intros m Hm; apply SI, Sub, Hm).
  destruct (run_up_spec U Ub S1 SI1 f1 n Hn) as (A1 & A2 & A3 & _).
  destruct (run_up_spec U Ub S SI f (run_up f1 S1 n) A2) as (B1 & B2 & B3 & _).
  destruct (run_up_spec U Ub S SI f n Hn) as (C1 & C2 & C3 & _).
  apply (top_unique U Ub S SI n); auto; try lia.
  - intros k Hk. destruct (N.le_gt_cases k (run_up f1 S1 n)); [apply Sub, A3; lia|apply B3; lia].
  - apply (run_up_top U Ub S SI); auto.
  - apply (run_up_top U Ub S SI); auto.
Qed.

Lemma run_down_absorb U (S1 S : gset N) f1 f n : U < two64 - 1 -> (forall m, m ∈ S -> inr U m) ->
  S1 ⊆ S -> inr U n -> (size S < f)%nat ->
  run_down f S (run_down f1 S1 n) = run_down f S n.
Proof.
  intros Ub SI Sub Hn Hf.
  assert (SI1 : forall m, m ∈ S1 -> inr U m) by (intros m Hm; apply SI, Sub, Hm).
  destruct (run_down_spec U Ub S1 SI1 f1 n Hn) as (A0 & A1 & A3 & _).
  destruct (run_down_spec U Ub S SI f (run_down f1 S1 n) A0) as (B0 & B1 & B3 & _).
  destruct (run_down_spec U Ub S SI f n Hn) as (C0 & C1 & C3 & _).
  destruct A0, B0, C0, Hn.
  apply (bottom_unique U Ub S SI n); auto; try lia.
  - intros k Hk. destruct (N.le_gt_cases (run_down f1 S1 n) k); [apply Sub, A3; lia|apply B3; lia].
  - apply (run_down_bottom U Ub S SI); auto. split; auto.
  - apply (run_down_bottom U Ub S SI); auto. split; auto.
Qed.

Section queues.
Context {c : N -> hdr} {U : N} {CH : chain_hyps c U}.
Notation inr := (inr U).
Notation minv := (minv c U).
Notation pstored := (pstored c).
Notation pinv := (pinv c U).
Notation inv := (inv c U).

Lemma seq_run_inv q : forall s sp, inv s sp -> Forall (Forall inr) q ->
  inv (seq_run s (map (map c) q)) (fold_left spec_append q sp).
Proof.
  induction q as [|ns r IH]; intros s sp I F; [exact I|].
  inversion F as [|? ? Fn Fr]; subst. cbn [map seq_run fold_left].
  apply IH; auto. apply append_inv; auto.
Qed.

(** every micro-state along the queue *)
Theorem conc_run_facts q : forall s sp, inv s sp -> Forall (Forall inr) q ->
  mono_from s (conc_run s (map (map c) q)) /\
  forall x, In x (conc_run s (map (map c) q)) -> minv x /\ pstored x /\ forall n, stored s n -> stored x n.
Proof.
  induction q as [|ns r IH]; intros s sp I F; [cbn; tauto|].
  inversion F as [|? ? Fn Fr]; subst.
  destruct ns as [|n0 ns'].
  - cbn [map conc_run]. apply (IH s sp); auto.
  - set (ns := n0 :: ns') in *. change (map (map c) (ns :: r)) with (map c ns :: map (map c) r).
    assert (E : conc_run s (map c ns :: map (map c) r) =
                flush_micro s (Some (map c ns)) ++
                conc_run (last (flush_micro s (Some (map c ns))) s) (map (map c) r)) by reflexivity.
    rewrite E. clear E.
    destruct (flush_micro_facts s sp ns I Fn) as (Mo & Fa); [discriminate|].
    assert (El : last (flush_micro s (Some (map c ns))) s = fst (append s (map c ns)))
      by (apply last_flush_micro; discriminate).
    rewrite El.
    destruct (append_inv s sp ns I Fn) as [I' _].
    destruct (IH _ _ I' Fr) as (Mo' & Fa').
    split.
    + apply mono_from_app; auto. rewrite El. exact Mo'.
    + intros x Hx. apply in_app_iff in Hx. destruct Hx as [Hx|Hx].
      * destruct (Fa x Hx) as (A & B & C). split_and!; auto.
      * destruct (Fa' x Hx) as (A & B & C). split_and!; auto. intros n Hn. apply C.
        apply (iv_S _ _ _ _ (proj1 I')). apply spec_append_mono. apply (iv_S _ _ _ _ (proj1 I)). exact Hn.
Qed.

Theorem conc_mono s sp q : inv s sp -> Forall (Forall inr) q -> mono_from s (conc_run s (map (map c) q)).
Proof. intros I F. apply (conc_run_facts q s sp I F). Qed.

Theorem conc_torn_free s sp q : inv s sp -> Forall (Forall inr) q ->
  forall x, In x (conc_run s (map (map c) q)) -> torn_free x.
Proof.
  intros I F x Hx. destruct (proj2 (conc_run_facts q s sp I F) x Hx) as (A & B & _).
  apply torn_free_of; auto.
Qed.

(** from the first micro-state of its own batch on (= once pending.Append ran), every header
    of a batch is readable by height and by hash in every later micro-state *)
Theorem conc_batch_readable s sp q1 ns q2 n : inv s sp ->
  Forall (Forall inr) q1 -> Forall inr ns -> Forall (Forall inr) q2 -> In n ns ->
  forall x, In x (conc_run (seq_run s (map (map c) q1)) (map (map c) (ns :: q2))) ->
  get_by_height x n = Found (c n) /\ get x (h_id (c n)) = Found (c n).
Proof.
  intros I F1 Fn F2 Hin x Hx.
  pose proof (seq_run_inv q1 s sp I F1) as I1.
  set (s1 := seq_run s (map (map c) q1)) in *. set (sp1 := fold_left spec_append q1 sp) in *.
  destruct ns as [|n0 ns']; [destruct Hin|]. set (ns := n0 :: ns') in *.
  change (map (map c) (ns :: q2)) with (map c ns :: map (map c) q2) in Hx.
  assert (E : conc_run s1 (map c ns :: map (map c) q2) =
              flush_micro s1 (Some (map c ns)) ++
              conc_run (last (flush_micro s1 (Some (map c ns))) s1) (map (map c) q2)) by reflexivity.
  rewrite E in Hx. clear E. apply in_app_iff in Hx.
  destruct (flush_micro_facts s1 sp1 ns I1 Fn) as (_ & Fa); [discriminate|].
  destruct Hx as [Hx|Hx].
  - destruct (Fa x Hx) as (A & B & C). apply stored_reads; auto using pstored_pchain.
  - rewrite last_flush_micro in Hx by discriminate.
    destruct (append_inv s1 sp1 ns I1 Fn) as [I' _].
    destruct (proj2 (conc_run_facts q2 _ _ I' F2) x Hx) as (A & B & C).
    apply stored_reads; auto using pstored_pchain. apply C.
    apply (iv_S _ _ _ _ (proj1 I')). apply spec_append_in; auto.
Qed.

(** ** order independence of the sequential result, once the store is initialised *)
Lemma spec_append_keeps_some sp ns : sHT sp <> None -> sHT (spec_append sp ns) <> None.
Proof.
  intros Hs. destruct ns as [|n0 ns']; auto. unfold spec_append.
  destruct (match sHT sp with Some th => th | None => (n0, n0) end). cbn. discriminate.
Qed.

Lemma spec_append_swap s sp a b : inv s sp -> sHT sp <> None -> Forall inr a -> Forall inr b ->
  spec_append (spec_append sp a) b = spec_append (spec_append sp b) a.
Proof.
  intros I Hs Fa Fb. destruct a as [|a0 a']; [reflexivity|]. destruct b as [|b0 b']; [reflexivity|].
  destruct (sHT sp) as [[T H]|] eqn:EHT; [|contradiction].
  destruct (inv_TH s sp T H (proj1 I) EHT) as (HT & HH & _).
  pose proof (@ch_bound c U CH) as Ub.
  set (A := a0 :: a') in *. set (B := b0 :: b') in *.
  assert (NA : A <> []) by discriminate. assert (NB : B <> []) by discriminate. clearbody A B.
  rewrite (spec_append_some sp T H A NA EHT), (spec_append_some sp T H B NB EHT).
  rewrite (spec_append_some (Spec _ (Some (_, _))) _ _ B NB eq_refl), (spec_append_some (Spec _ (Some (_, _))) _ _ A NA eq_refl). cbn [sS].
  set (S1 := sS sp ∪ list_to_set A). set (S2 := sS sp ∪ list_to_set B).
  assert (ES : S1 ∪ list_to_set B = S2 ∪ list_to_set A) by (apply set_eq; intros x; unfold S1, S2; set_solver).
  rewrite ES. set (S12 := S2 ∪ list_to_set A) in *.
  assert (SI : forall m, m ∈ S12 -> inr m).
  { intros m Hm. unfold S12, S2 in Hm. rewrite !elem_of_union, !elem_of_list_to_set, !elem_of_list_In in Hm.
    destruct Hm as [[Hm|Hm]|Hm]; [|exact (FIn _ _ _ Fb Hm)|exact (FIn _ _ _ Fa Hm)].
    apply (stored_inr s m (iv_m _ _ _ _ (proj1 I))), (iv_S _ _ _ _ (proj1 I)), Hm. }
  assert (Sub1 : S1 ⊆ S12) by (rewrite <- ES; set_solver).
  assert (Sub2 : S2 ⊆ S12) by (unfold S12; set_solver).
  f_equal. f_equal. f_equal.
  - rewrite (run_down_absorb U S1 S12) by (auto; lia). rewrite (run_down_absorb U S2 S12) by (auto; lia). reflexivity.
  - destruct HH. rewrite (run_up_absorb U S1 S12) by (auto; lia). rewrite (run_up_absorb U S2 S12) by (auto; lia). reflexivity.
Qed.

Lemma fold_spec_append_perm q q' : Permutation q q' ->
  forall s sp, inv s sp -> sHT sp <> None -> Forall (Forall inr) q ->
  fold_left spec_append q sp = fold_left spec_append q' sp.
Proof.
  induction 1 as [|x l l' HP IH|x y l|l l' l'' HP1 IH1 HP2 IH2]; intros s sp I Hs F.
  - reflexivity.
  - inversion F as [|? ? Fx Fl]; subst. cbn [fold_left].
    destruct (append_inv s sp x I Fx) as [I' _].
    apply (IH _ _ I'); auto using spec_append_keeps_some.
  - inversion F as [|? ? Fy F']; subst. inversion F' as [|? ? Fx Fl]; subst. cbn [fold_left].
    rewrite (spec_append_swap s sp y x I Hs Fy Fx). reflexivity.
  - rewrite (IH1 s sp I Hs F). apply (IH2 s sp I Hs).
    rewrite Forall_forall in *. intros z Hz. apply F.
    apply (Permutation_in z (Permutation_sym HP1)). exact Hz.
Qed.

Theorem seq_run_order_independent s sp q q' : inv s sp -> headp s <> None ->
  Permutation q q' -> Forall (Forall inr) q ->
  let x := seq_run s (map (map c) q) in
  let y := seq_run s (map (map c) q') in
  headp x = headp y /\ tailp x = tailp y /\ hsh x = hsh y /\
  (forall n, get_by_height x n = get_by_height y n) /\
  (forall n, inr n -> get x (h_id (c n)) = get y (h_id (c n)) /\ has x (h_id (c n)) = has y (h_id (c n))) /\
  (forall n, has_at x n = has_at y n) /\
  (forall from to, get_range x from to = get_range y from to).
Proof.
  intros I Hh HP F x y.
  assert (Hs : sHT sp <> None).
  { intros E. apply Hh. rewrite (obs_head s sp (proj1 I)), E. reflexivity. }
  assert (F' : Forall (Forall inr) q').
  { rewrite Forall_forall in *. intros z Hz. apply F.
    apply (Permutation_in z (Permutation_sym HP)). exact Hz. }
  destruct (seq_run_inv q s sp I F) as [Ix _]. fold x in Ix.
  destruct (seq_run_inv q' s sp I F') as [Iy _]. fold y in Iy.
  rewrite <- (fold_spec_append_perm q q' HP s sp I Hs F) in Iy.
  set (spf := fold_left spec_append q sp) in *.
  rewrite (obs_head x spf Ix), (obs_head y spf Iy), (obs_tail x spf Ix), (obs_tail y spf Iy),
    (obs_height x spf Ix), (obs_height y spf Iy).
  split_and!; auto.
  - intros n. rewrite (obs_gbh x spf n Ix), (obs_gbh y spf n Iy). reflexivity.
  - intros n Hn. rewrite (obs_get x spf n Ix Hn), (obs_get y spf n Iy Hn), (obs_has x spf n Ix Hn), (obs_has y spf n Iy Hn). auto.
  - intros n. rewrite (obs_has_at x spf n Ix), (obs_has_at y spf n Iy). reflexivity.
  - intros from to. rewrite (obs_range x spf from to Ix), (obs_range y spf from to Iy). reflexivity.
Qed.

End queues.

(** ** starting from the state reached by any history *)
From GH Require Import Oracle.StoreCase Proofs.StoreMainP.

Section hist.
Context {c : N -> hdr} {U : N} {CH : chain_hyps c U}.
Notation inr := (inr U).

Theorem hist_conc_mono b ops q : Forall (op_ok U) ops -> Forall (Forall inr) q ->
  let s := run c (st0 b) ops in
  mono_from s (conc_run s (map (map c) q)).
Proof. intros F Fq. exact (conc_mono _ _ q (history_inv b ops F) Fq). Qed.

Theorem hist_conc_torn_free b ops q : Forall (op_ok U) ops -> Forall (Forall inr) q ->
  let s := run c (st0 b) ops in
  forall x, In x (conc_run s (map (map c) q)) ->
  o_head_by_height (observe17 x) = true /\ o_head_by_hash (observe17 x) = true.
Proof. intros F Fq. exact (conc_torn_free _ _ q (history_inv b ops F) Fq). Qed.

Theorem hist_conc_batch_readable b ops q1 ns q2 n : Forall (op_ok U) ops ->
  Forall (Forall inr) q1 -> Forall inr ns -> Forall (Forall inr) q2 -> In n ns ->
  let s := run c (st0 b) ops in
  forall x, In x (conc_run (seq_run s (map (map c) q1)) (map (map c) (ns :: q2))) ->
  get_by_height x n = Found (c n) /\ get x (h_id (c n)) = Found (c n).
Proof. intros F. exact (conc_batch_readable _ _ q1 ns q2 n (history_inv b ops F)). Qed.

Theorem hist_seq_run_refines b ops q : Forall (op_ok U) ops -> Forall (Forall inr) q ->
  let s := run c (st0 b) ops in
  obs_equal c U (seq_run s (map (map c) q)) (fold_left spec_append q (run_spec spec0 ops)).
Proof.
  intros F Fq s. apply pinv_obs. exact (proj1 (seq_run_inv q _ _ (history_inv b ops F) Fq)).
Qed.

Theorem hist_seq_run_order_independent b ops q q' : Forall (op_ok U) ops ->
  let s := run c (st0 b) ops in
  headp s <> None -> Permutation q q' -> Forall (Forall inr) q ->
  let x := seq_run s (map (map c) q) in
  let y := seq_run s (map (map c) q') in
  headp x = headp y /\ tailp x = tailp y /\ hsh x = hsh y /\
  (forall n, get_by_height x n = get_by_height y n) /\
  (forall n, inr n -> get x (h_id (c n)) = get y (h_id (c n)) /\ has x (h_id (c n)) = has y (h_id (c n))) /\
  (forall n, has_at x n = has_at y n) /\
  (forall from to, get_range x from to = get_range y from to).
Proof. intros F. exact (seq_run_order_independent _ _ q q' (history_inv b ops F)). Qed.

End hist.
