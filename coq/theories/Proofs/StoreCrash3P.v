(** C06, part 3: the persisted pointers never claim more than the datastore holds:
    after EVERY write-log entry, if both pointer keys resolve to stored headers then
    Tail <= Head and every height between them is on disk. *)
From Coq Require Import NArith List Bool Lia ZifyBool ZifyN ZifyNat.
From stdpp Require Import gmap.
From GH Require Import Base.Prelude Model.Store Model.StoreSpec Model.StoreConc Model.StoreCrash Oracle.StoreCase.
From GH Require Import Proofs.StoreP Proofs.StoreClimbP Proofs.StoreInvP Proofs.StoreAppendP Proofs.StoreDeleteP.
From GH Require Import Proofs.StoreDeleteRangeP Proofs.StoreRestartP Proofs.StoreMainP Proofs.StoreConcP.
From GH Require Import Proofs.StoreCrashP Proofs.StoreCrash2P.
Import ListNotations.
Open Scope N_scope.

Section chain.
Context {c : N -> hdr} {U : N} {CH : chain_hyps c U}.
Notation inr := (inr U).
Notation minv := (minv c U).
Notation pchain := (pchain c U).
Notation pstored := (pstored c).
Notation pinv := (pinv c U).
Notation inv := (inv c U).

Definition on_disk (x : st) (n : N) : Prop := d_hdr x !! h_id (c n) = Some (c n).

(** both persisted pointers resolve => they bound a gap-free stretch of the datastore *)
Definition ptrs_sound (x : st) : Prop :=
  forall T H, d_tail x = Some (h_id (c T)) -> d_head x = Some (h_id (c H)) -> inr T -> inr H ->
  on_disk x T -> on_disk x H -> T <= H /\ forall n, T <= n <= H -> on_disk x n.

Lemma ps_disk_pred : disk_pred ptrs_sound.
Proof.
  intros a a' (E1 & E2 & E3 & E4) S. unfold ptrs_sound, on_disk in *. rewrite <- E1, <- E3, <- E4. exact S.
Qed.

Lemma ps_st0 b : ptrs_sound (st0 b).
Proof. intros T H E. cbn in E. discriminate. Qed.

Lemma on_disk_stored x n : minv x -> inr n -> on_disk x n -> stored x n.
Proof.
  intros M Hn H. destruct (mi_dh x M _ _ H) as (m & E & Hi). destruct (mi_di x M _ _ Hi) as (Hm & Eid & _).
  assert (n = m) by (apply (@ch_inj c U CH); auto). subst m. right; eauto.
Qed.

Lemma stored_on_disk x n : minv x -> pend_h x = ∅ -> stored x n -> on_disk x n.
Proof.
  intros M Hp [[h Hh]|[id Hi]]; [rewrite Hp, lookup_empty in Hh; discriminate|].
  destruct (mi_di x M _ _ Hi) as (_ & -> & Hd). exact Hd.
Qed.

(** at quiescence with an empty write batch the refinement relation implies soundness *)
Lemma inv_ptrs_sound x sp : inv x sp -> pend_h x = ∅ -> ptrs_sound x.
Proof.
  intros [I DK] Hp T H Et Eh HT HH OT OH. pose proof I as [M HS P]. unfold disk_ok in DK. unfold ptrs_core in P.
  destruct (sHT sp) as [[T0 H0]|] eqn:E.
  - destruct (inv_TH x sp T0 H0 I E) as (HT0 & HH0 & _). destruct (DK Hp) as [D1 D2].
    rewrite D1 in Eh. rewrite D2 in Et. injection Eh as Eh. injection Et as Et.
    apply (@ch_inj c U CH) in Eh; auto. apply (@ch_inj c U CH) in Et; auto. subst T0 H0.
    destruct P as (_ & _ & _ & P4 & P5 & _). split; auto.
    intros n Hn. apply stored_on_disk; auto.
  - destruct P as (_ & _ & _ & P4 & _). congruence.
Qed.

Lemma ps_head_none x : d_head x = None -> ptrs_sound x.
Proof. intros E T H _ Eh. congruence. Qed.

Lemma ps_tail_gone x T : d_tail x = Some (h_id (c T)) -> inr T -> ~ on_disk x T -> ptrs_sound x.
Proof.
  intros E HT N T' H' Et _ HT' _ OT' _. rewrite E in Et. injection Et as Et.
  apply (@ch_inj c U CH) in Et; auto. subst T'. contradiction.
Qed.

(** deleteKeys: the header and its index entry leave in one write *)
Lemma on_disk_del_hdr x id k m : on_disk (write x [WDelH id; WDelI k]) m <-> on_disk x m /\ h_id (c m) <> id.
Proof.
  unfold on_disk. cbn. rewrite lookup_delete_Some. split; intros [? ?]; split; auto.
Qed.

(** ** the deleteSequential loop under a disk predicate [J] that implies soundness *)
Lemma delete_seq_steps2 (J : st -> Prop) script nh : disk_pred J ->
  (forall x, J x -> ptrs_sound x) ->
  forall cnt s n log,
  (forall x m, n <= m -> inr m -> J x -> J (write x [WDelH (h_id (c m)); WDelI m])) ->
  minv s -> J s ->
  let '(s', _, _, _) := delete_seq s script nh n cnt log in
  steps ptrs_sound s s' /\ J s'.
Proof.
  intros DJ JS. induction cnt as [|cnt IH]; intros s n log JH M Js; cbn [delete_seq].
  - split; auto. apply st_refl.
  - assert (H1 : let '(s1, _, _) := delete_single s script nh n log in
                 steps ptrs_sound s s1 /\ J s1 /\ minv s1).
    { destruct (stored_dec s n) as [Sn|Sn].
      - unfold delete_single.
        assert (E : match d_idx s !! n with
                    | Some id => Some id
                    | None => match pend_h s !! n with Some h => Some (h_id h) | None => None end
                    end = Some (h_id (c n))).
        { destruct (d_idx s !! n) as [id|] eqn:Ei.
          - destruct (mi_di s M _ _ Ei) as (_ & -> & _). reflexivity.
          - destruct Sn as [[h Hh]|[id Hi]]; [|congruence]. rewrite Hh.
            destruct (mi_ph s M _ _ Hh) as [_ ->]. reflexivity. }
        rewrite E. destruct (run_handlers s script 0 nh n log) as [log' ok].
        destruct ok; [|split_and!; auto; apply st_refl].
        destruct (del1_minv s n M Sn) as [M' _].
        pose proof (stored_inr s n M Sn) as Hn.
        assert (J1 : J (write s [WDelH (h_id (c n)); WDelI n])) by (apply JH; auto; lia).
        split_and!; auto.
        + eapply st_write; [apply JS; exact J1|].
          apply steps_mem1. apply mem_pend_del.
        + apply (DJ _ _ (disk_eq_sym _ _ (proj2 (mem_pend_del _ n))) J1).
      - rewrite (delete_single_missing s script nh n log Sn). split_and!; auto. apply st_refl. }
    destruct (delete_single s script nh n log) as [[s1 log1] ok1]. destruct H1 as (T1 & J1 & M1).
    destruct ok1; [|split; auto].
    assert (JH' : forall x m, n + 1 <= m -> inr m -> J x -> J (write x [WDelH (h_id (c m)); WDelI m]))
      by (intros x m Hm; apply JH; lia).
    pose proof (IH s1 (n + 1) log1 JH' M1 J1) as H2.
    destruct (delete_seq s1 script nh (n + 1) cnt log1) as [[[s2 log2] a2] ok2].
    destruct H2 as (T2 & J2). split; auto. eapply steps_trans; eauto.
Qed.


Lemma set_tail_form s n h hd : nb s n = Found h -> headp s = Some hd -> (h_height hd <? n) = false ->
  set_tail s n = (write (write (set_tailp s (Some h)) [WPutTail (h_id h)]) [WPutHead (h_id hd)], true).
Proof.
  intros Hnb Hhd Hlt. unfold set_tail. rewrite Hnb. cbv zeta.
  destruct (write_frame (set_tailp s (Some h)) [WPutTail (h_id h)]) as (_ & _ & W3 & _).
  rewrite W3. cbn [headp set_tailp]. rewrite Hhd, Hlt. unfold put_head_ptr.
  rewrite W3. cbn [headp set_tailp]. rewrite Hhd. reflexivity.
Qed.

Lemma set_head_form s n h tl : nb s n = Found h -> tailp s = Some tl ->
  set_head s n = (write (write (set_hsh (set_headp s (Some h)) (h_height h)) [WPutHead (h_id h)]) [WPutTail (h_id tl)], true).
Proof.
  intros Hnb Htl. unfold set_head. rewrite Hnb. unfold put_tail_ptr.
  destruct (write_frame (set_hsh (set_headp s (Some h)) (h_height h)) [WPutHead (h_id h)]) as (_ & _ & _ & W4 & _).
  rewrite W4. cbn [tailp set_hsh set_headp]. rewrite Htl. reflexivity.
Qed.

Lemma delete_seq_pend_empty script nh : forall cnt s n log, pend_h s = ∅ ->
  pend_h (fst (fst (fst (delete_seq s script nh n cnt log)))) = ∅.
Proof.
  induction cnt as [|cnt IH]; intros s n log Hp; cbn [delete_seq fst]; auto.
  assert (H1 : pend_h (fst (fst (delete_single s script nh n log))) = ∅).
  { unfold delete_single. destruct (match d_idx s !! n with Some id => Some id | None => _ end); auto.
    destruct (run_handlers s script 0 nh n log) as [l ok]. destruct ok; cbn [fst]; auto.
    cbn. rewrite Hp. apply delete_empty. }
  destruct (delete_single s script nh n log) as [[s1 l1] ok1]. cbn [fst] in H1.
  destruct ok1; cbn [fst]; auto.
Qed.

(** the flush closure *)
Lemma flush_one_steps_ps s o sp' : ptrs_sound s -> inv (fst (flush_one s o)) sp' ->
  steps ptrs_sound s (fst (flush_one s o)).
Proof.
  intros Ps. unfold flush_one. cbv zeta.
  set (s3 := recede_tail _).
  assert (Ms : mem_step s s3).
  { unfold s3. eapply mem_trans; [apply mem_ensure_init|]. eapply mem_trans; [apply mem_pend_add|].
    eapply mem_trans; [apply mem_advance_head|apply mem_recede_tail]. }
  destruct (_ && _); cbn [fst]; [intros _; apply steps_mem1; auto|].
  destruct (_ =? _)%nat; cbn [fst]; [intros _; apply steps_mem1; auto|].
  intros I'. eapply st_mem; [exact Ms|]. eapply st_write; [|apply steps_mem1, mem_set_pend].
  apply (ps_disk_pred (set_pend (write s3 (commit_ops s3)) ∅ ∅)); [unfold disk_eq; cbn; tauto|].
  apply (inv_ptrs_sound _ sp' I'). reflexivity.
Qed.


(** once the old Tail header is gone the Tail pointer does not resolve any more *)
Definition Jt (T : N) (x : st) : Prop := d_tail x = Some (h_id (c T)) /\ ~ on_disk x T.
(** the Head pointer sits below everything that gets deleted *)
Definition Jh (K : N) (x : st) : Prop := d_head x = Some (h_id (c K)) /\ ptrs_sound x.

Lemma Jt_disk T : disk_pred (Jt T).
Proof. intros a a' (E1 & _ & _ & E4) [A B]. unfold Jt, on_disk in *. rewrite <- E1, <- E4. auto. Qed.
Lemma Jh_disk K : disk_pred (Jh K).
Proof. intros a a' E [A B]. split; [destruct E as (_ & _ & E3 & _); congruence|apply (ps_disk_pred a); auto]. Qed.

Lemma Jh_del_hdr K x m : inr K -> K < m -> inr m -> Jh K x -> Jh K (write x [WDelH (h_id (c m)); WDelI m]).
Proof.
  intros HK Hm Hi [A B]. split; [exact A|].
  intros T H Et Eh HT HH OT OH. apply on_disk_del_hdr in OT, OH. destruct OT as [OT _], OH as [OH _].
  cbn in Et, Eh. assert (H = K).
  { rewrite A in Eh. injection Eh as Eh. symmetry. apply (@ch_inj c U CH); auto. }
  subst H. destruct (B T K Et Eh HT HH OT OH) as [Hle Hall]. split; auto.
  intros n Hn. apply on_disk_del_hdr. split; auto.
  intros E. apply (@ch_inj c U CH) in E; auto; [lia|]. destruct HT, HK. split; lia.
Qed.

(** the tail end: the first stored height is the old Tail itself *)
Lemma tail_loop_steps s sp T H fails nh cnt0 : inv s sp -> pend_h s = ∅ -> sHT sp = Some (T, H) ->
  cnt0 <> 0%nat ->
  let '(s1, _, a, _) := delete_seq s (script_of fails) nh T cnt0 [] in
  steps ptrs_sound s s1 /\ (s1 = s \/ Jt T s1).
Proof.
  intros I Hp EHT Hc. destruct cnt0 as [|cnt]; [contradiction|]. pose proof (proj1 I) as [M HS P]. unfold ptrs_core in P. rewrite EHT in P.
  destruct P as (P1 & P2 & P3 & P4 & P5 & P6 & P7).
  destruct (inv_TH s sp T H (proj1 I) EHT) as (HT & HH & _).
  assert (PC : pchain s) by (apply pstored_pchain; auto; exact (inv_pstored s sp (proj1 I))).
  assert (ST : stored s T) by (apply P5; lia).
  pose proof (proj2 I) as DK. unfold disk_ok in DK. rewrite EHT in DK. destruct (DK Hp) as [D1 D2].
  cbn [delete_seq]. rewrite (delete_single_stored s fails nh T [] M PC ST).
  destruct (fails_at nh fails T).
  - split; [apply st_refl|left; reflexivity].
  - set (s1 := del1 s (h_id (c T)) T).
    assert (J1 : Jt T (write s [WDelH (h_id (c T)); WDelI T])).
    { split; [exact D2|]. intros O. apply on_disk_del_hdr in O. destruct O; congruence. }
    assert (J3 : Jt T s1) by (apply (Jt_disk T _ _ (disk_eq_sym _ _ (proj2 (mem_pend_del _ T))) J1)).
    destruct (del1_minv s T M ST) as [M1 _].
    pose proof (delete_seq_steps2 (Jt T) (script_of fails) nh (Jt_disk T)) as L.
    specialize (L (fun x Jx => ps_tail_gone x T (proj1 Jx) HT (proj2 Jx))).
    specialize (L cnt s1 (T + 1) ([] ++ all_calls nh T)).
    assert (JH : forall x m, T + 1 <= m -> inr m -> Jt T x -> Jt T (write x [WDelH (h_id (c m)); WDelI m])).
    { intros x m _ _ [A B]. split; [exact A|]. intros O. apply on_disk_del_hdr in O. tauto. }
    specialize (L JH M1 J3).
    destruct (delete_seq s1 (script_of fails) nh (T + 1) cnt ([] ++ all_calls nh T)) as [[[s2 l2] a2] ok2].
    destruct L as [T2 J4]. split; auto.
    eapply st_write; [apply (ps_tail_gone _ T (proj1 J1) HT (proj2 J1))|].
    eapply st_mem; [apply mem_pend_del|exact T2].
Qed.

(** setTail after the loop: two pointer writes, the second gives a state related to the specification *)
Lemma set_tail_steps_ps s1 sp2 a H s2 : pend_h s1 = ∅ ->
  nb s1 a = Found (c a) -> headp s1 = Some (c H) -> inr H -> a <= H ->
  d_head s1 = Some (h_id (c H)) ->
  set_tail s1 a = (s2, true) -> inv s2 sp2 -> steps ptrs_sound s1 s2.
Proof.
  intros Hp Hnb Hhd HH Hle Dh E I2.
  assert (F : set_tail s1 a = (write (write (set_tailp s1 (Some (c a))) [WPutTail (h_id (c a))]) [WPutHead (h_id (c H))], true)).
  { apply set_tail_form; auto. rewrite (@ch_height c U CH) by auto. apply N.ltb_ge. lia. }
  rewrite F in E. injection E as E.
  assert (Ps2 : ptrs_sound s2) by (apply (inv_ptrs_sound s2 sp2 I2); rewrite <- E; cbn; exact Hp).
  subst s2. set (y1 := write (set_tailp s1 (Some (c a))) [WPutTail (h_id (c a))]) in *.
  apply (st_mem _ s1 (set_tailp s1 (Some (c a))) _ (mem_set_tailp _ _)).
  apply (st_write _ (set_tailp s1 (Some (c a))) [WPutTail (h_id (c a))]); fold y1.
  - apply (ps_disk_pred (write y1 [WPutHead (h_id (c H))])); auto. unfold disk_eq. cbn. split_and!; auto.
  - apply steps_write1. exact Ps2.
Qed.


Lemma wipe_steps_ps s1 : steps ptrs_sound s1 (wipe s1).
Proof.
  unfold wipe. apply (st_mem _ s1 (deinit s1) _ (mem_deinit s1)).
  apply (st_write _ (deinit s1) [WDelHead]); [apply ps_head_none; reflexivity|].
  apply steps_write1. apply ps_head_none. reflexivity.
Qed.

(** the deletion proper, from a state with an empty write batch *)
Theorem synced_steps_ps s sp from to nh fails : inv s sp -> pend_h s = ∅ ->
  steps ptrs_sound s (fst (fst (delete_range_synced s (script_of fails) nh from to))).
Proof.
  intros I Hp. pose proof I as [I0 DK]. pose proof I0 as [M HS P]. unfold ptrs_core in P.
  pose proof (@ch_height c U CH) as c_height. pose proof (@ch_bound c U CH) as Ub.
  destruct (sHT sp) as [[T H]|] eqn:EHT.
  2: { destruct P as (P1 & _). unfold delete_range_synced. rewrite P1. cbn. apply st_refl. }
  destruct P as (P1 & P2 & P3 & P4 & P5 & P6 & P7).
  destruct (inv_TH s sp T H I0 EHT) as (HT & HH & _).
  assert (PS : pstored s) by (eapply inv_pstored; eauto).
  assert (PC : pchain s) by (apply pstored_pchain; auto).
  unfold disk_ok in DK. rewrite EHT in DK. destruct (DK Hp) as [D1 D2].
  assert (Ps : ptrs_sound s) by (apply (inv_ptrs_sound s sp I Hp)).
  unfold delete_range_synced. rewrite P1, P2. cbv zeta. rewrite !c_height by auto.
  rewrite !(wrap64_small (H + 1)) by (destruct HH; lia).
  destruct (N.leb_spec to from) as [Hle|Hlt]; [cbn; apply st_refl|].
  destruct (N.ltb_spec H from) as [H1|H1]; [cbn; apply st_refl|].
  destruct (N.leb_spec to T) as [H2|H2]; [cbn; apply st_refl|]. cbn [orb].
  destruct (N.eqb_spec from T) as [uT|uT]; destruct (N.eqb_spec to (H + 1)) as [uH|uH]; cbn [andb negb].
  - (* whole store *)
    subst from to. rewrite (nb_not_stored s (H + 1)) by auto.
    pose proof (tail_loop_steps s sp T H fails nh (N.to_nat (H + 1 - T)) I Hp EHT) as L.
    destruct (delete_seq_spec (sS sp) fails nh (N.to_nat (H + 1 - T)) s T [] M PC) as (s1 & E & M1 & SP1 & St1 & _).
    { intros m _. apply HS. }
    pose proof (delete_seq_pend_empty (script_of fails) nh (N.to_nat (H + 1 - T)) s T [] Hp) as Hp1.
    destruct (dseq_facts (sS sp) nh fails T (H + 1) Hlt) as (D1' & D2' & _ & D4'). cbn zeta in *.
    rewrite E in L, Hp1 |- *. cbn [fst] in Hp1. rewrite D2'. rewrite D1' in St1 |- *.
    destruct L as [L _]; [lia|]. destruct SP1 as (Q1 & Q2 & Q3 & Q4 & Q5).
    destruct (fail_height (sS sp) nh fails T (H + 1)) as [k|] eqn:Efh; cbn [fst].
    + destruct (D4' k eq_refl) as [Hk1 Hk2].
      destruct (tail_cut_inv s sp T H s1 k I0 EHT M1) as (s2 & E2 & I2); try congruence; try lia; auto.
      rewrite E2. cbn [fst]. eapply steps_trans; [exact L|].
      assert (Sk : stored s1 k) by (apply St1; split; [apply HS; auto|lia]).
      assert (Hik : inr k) by (eapply stored_inr; eauto).
      refine (set_tail_steps_ps s1 _ k H s2 Hp1 _ _ HH _ _ E2 I2); try congruence; try lia.
      apply nb_stored; auto. apply (ptrs_pchain s1 T H); congruence.
    + eapply steps_trans; [exact L|apply wipe_steps_ps].
  - (* tail side *)
    subst from. destruct (N.ltb_spec (H + 1) to) as [H3|H3]; [cbn; apply st_refl|].
    pose proof (tail_loop_steps s sp T H fails nh (N.to_nat (to - T)) I Hp EHT) as L.
    destruct (delete_seq_spec (sS sp) fails nh (N.to_nat (to - T)) s T [] M PC) as (s1 & E & M1 & SP1 & St1 & _).
    { intros m _. apply HS. }
    pose proof (delete_seq_pend_empty (script_of fails) nh (N.to_nat (to - T)) s T [] Hp) as Hp1.
    destruct (dseq_facts (sS sp) nh fails T to Hlt) as (D1' & D2' & _ & D4'). cbn zeta in *.
    rewrite E in L, Hp1 |- *. cbn [fst] in Hp1. rewrite D1' in St1 |- *.
    destruct L as [L _]; [lia|]. destruct SP1 as (Q1 & Q2 & Q3 & Q4 & Q5).
    set (a := match fail_height (sS sp) nh fails T to with Some k => k | None => to end) in *.
    assert (Ha : T <= a <= H).
    { unfold a. destruct (fail_height (sS sp) nh fails T to) as [k|] eqn:Efh; [destruct (D4' k eq_refl)|]; lia. }
    destruct (tail_cut_inv s sp T H s1 a I0 EHT M1) as (s2 & E2 & I2); try congruence; try lia; auto.
    rewrite E2. cbn [fst]. eapply steps_trans; [exact L|].
    assert (Sk : stored s1 a) by (apply St1; split; [apply P5; lia|lia]).
    refine (set_tail_steps_ps s1 _ a H s2 Hp1 _ _ HH _ _ E2 I2); try congruence; try lia.
    apply nb_stored; auto. apply (ptrs_pchain s1 T H); congruence.
  - (* head side *)
    subst to. destruct (N.ltb_spec from T) as [H3|H3]; [cbn; apply st_refl|].
    assert (Sf : stored s (from - 1)) by (apply P5; lia).
    assert (HK : inr (from - 1)) by (eapply stored_inr; eauto).
    rewrite (nb_stored s (from - 1)) by auto.
    set (K := from - 1) in *.
    set (s0 := write s [WPutTail (h_id (c T)); WPutHead (h_id (c K))]).
    assert (SM0 : same_maps s s0) by (unfold same_maps; cbn; tauto).
    assert (Hd0 : headp s0 = Some (c H)) by exact P1.
    assert (Tl0 : tailp s0 = Some (c T)) by exact P2.
    assert (Dt0 : d_tail s0 = Some (h_id (c T))) by reflexivity.
    assert (M0 : minv s0) by (eapply minv_ext; eauto).
    assert (PC0 : pchain s0) by (apply (ptrs_pchain s0 T H); auto).
    assert (Ps0 : ptrs_sound s0).
    { intros T' H' Et Eh HT' HH' OT OH. cbn in Et, Eh. injection Et as Et. injection Eh as Eh.
      apply (@ch_inj c U CH) in Et; auto. apply (@ch_inj c U CH) in Eh; auto. subst T' H'.
      split; [unfold K; lia|]. intros n Hn. change (on_disk s n). apply stored_on_disk; auto. apply P5. unfold K in Hn. lia. }
    assert (J0 : Jh K s0) by (split; auto).
    pose proof (delete_seq_steps2 (Jh K) (script_of fails) nh (Jh_disk K)) as L.
    specialize (L (fun x Jx => proj2 Jx)).
    specialize (L (N.to_nat (H + 1 - from)) s0 from []).
    assert (JH : forall x m, from <= m -> inr m -> Jh K x -> Jh K (write x [WDelH (h_id (c m)); WDelI m])).
    { intros x m Hm Hi Jx. apply Jh_del_hdr; auto. unfold K. lia. }
    specialize (L JH M0 J0).
    destruct (delete_seq_spec (sS sp) fails nh (N.to_nat (H + 1 - from)) s0 from [] M0 PC0) as (s1 & E & M1 & SP1 & St1 & Same).
    { intros m _. rewrite (same_maps_stored s s0 m SM0). apply HS. }
    destruct (dseq_facts (sS sp) nh fails from (H + 1) Hlt) as (D1' & _ & _ & D4'). cbn zeta in *.
    rewrite E in L |- *. destruct L as [L [Jd Js]]. rewrite D1' in St1, Same |- *.
    destruct SP1 as (Q1 & Q2 & Q3 & Q4 & Q5).
    set (a := match fail_height (sS sp) nh fails from (H + 1) with Some k => k | None => H + 1 end) in *.
    assert (Ha : from <= a).
    { unfold a. destruct (fail_height (sS sp) nh fails from (H + 1)) as [k|] eqn:Efh; [destruct (D4' k eq_refl)|]; lia. }
    apply (st_write _ s [WPutTail (h_id (c T)); WPutHead (h_id (c K))]); fold s0; auto.
    eapply steps_trans; [exact L|].
    destruct (N.ltb_spec from a) as [H4|H4].
    + assert (SK : stored s1 K).
      { apply St1. rewrite (same_maps_stored s s0 K SM0). split; auto. unfold K. lia. }
      assert (PC1 : pchain s1) by (apply (ptrs_pchain s1 T H); auto; congruence).
      rewrite (set_head_form s1 K (c K) (c T)); [|apply nb_stored; auto|congruence]. cbn [fst].
      set (y0 := set_hsh (set_headp s1 (Some (c K))) (h_height (c K))).
      apply (st_mem _ s1 y0); [split; [reflexivity|unfold disk_eq; cbn; tauto]|].
      apply (st_write _ y0 [WPutHead (h_id (c K))]).
      * apply (ps_disk_pred s1); auto. unfold disk_eq. cbn. split_and!; auto.
      * apply steps_write1. apply (ps_disk_pred s1); auto. unfold disk_eq. cbn. split_and!; auto; congruence.
    + assert (s1 = s0) as -> by (apply Same; lia). cbn [fst].
      apply steps_write1. apply (ps_disk_pred s); auto. unfold disk_eq. cbn. split_and!; auto.
  - cbn. apply st_refl.
Qed.


Lemma ps_tail_none x : d_tail x = None -> ptrs_sound x.
Proof. intros E T H Et. congruence. Qed.

Lemma start_steps_ps x : ptrs_sound x -> steps ptrs_sound x (start x).
Proof.
  intros Ps. unfold start.
  assert (T1 : steps ptrs_sound x (read_head x) /\ ptrs_sound (read_head x)).
  { unfold read_head. destruct (d_head x); [|split; auto; apply st_refl].
    destruct (get x n) eqn:E.
    - split; [eapply st_mem; [apply mem_set_headp|apply steps_mem1, mem_set_hsh]|].
      apply (ps_disk_pred x); auto. unfold disk_eq. cbn. tauto.
    - split; [apply steps_write1|]; apply ps_head_none; reflexivity.
    - split; [apply steps_write1|]; apply ps_head_none; reflexivity.
    - split; [apply steps_write1|]; apply ps_head_none; reflexivity. }
  destruct T1 as [T1 D1]. set (x1 := read_head x) in *.
  eapply steps_trans; [exact T1|].
  unfold read_tail. destruct (d_tail x1); [|apply st_refl].
  destruct (get x1 n) eqn:E.
  - apply steps_mem1, mem_set_tailp.
  - apply steps_write1. apply ps_tail_none. reflexivity.
  - apply steps_write1. apply ps_tail_none. reflexivity.
  - apply steps_write1. apply ps_tail_none. reflexivity.
Qed.

Lemma sync_steps_ps s sp : inv s sp -> ptrs_sound s -> steps ptrs_sound s (sync s) /\ ptrs_sound (sync s).
Proof.
  intros I Ps. destruct (sync_inv s sp I) as [I' Hp]. split.
  - unfold sync. apply (flush_one_steps_ps s None sp); auto.
  - apply (inv_ptrs_sound _ sp I' Hp).
Qed.

Theorem op_steps_ps s sp o : inv s sp -> ptrs_sound s -> op_ok U o ->
  steps ptrs_sound s (fst (fst (mstep c s o))).
Proof.
  intros I Ps Hok. unfold mstep. destruct o as [ns|from to nh fails| | |]; cbn [to_op step].
  - cbn in Hok. destruct (append_inv s sp ns I Hok) as [I' _].
    destruct ns as [|n0 ns']; [cbn; apply st_refl|].
    set (ns := n0 :: ns') in *. change (map c ns) with (c n0 :: map c ns') in *. cbn [append] in *.
    change (c n0 :: map c ns') with (map c ns) in *.
    destruct (flush_one s (Some (map c ns))) as [s' r] eqn:E. cbn [fst] in *.
    replace s' with (fst (flush_one s (Some (map c ns)))) in * by (rewrite E; reflexivity).
    apply (flush_one_steps_ps s _ _ Ps I').
  - destruct (sync_steps_ps s sp I Ps) as [T1 Ps1]. destruct (sync_inv s sp I) as [I1 Hp1].
    unfold delete_range. eapply steps_trans; [exact T1|]. apply (synced_steps_ps (sync s) sp); auto.
  - cbn [fst]. apply (sync_steps_ps s sp I Ps).
  - destruct (sync_steps_ps s sp I Ps) as [T1 Ps1].
    unfold stop. destruct (flush_one s None) as [s4 o4] eqn:E.
    assert (s4 = sync s) by (unfold sync; rewrite E; reflexivity). subst s4.
    pose proof (flush_one_ok s None) as Eo. rewrite E in Eo. cbn in Eo. subst o4. cbn [fst].
    eapply steps_trans; [exact T1|]. eapply st_mem; [apply mem_deinit|].
    apply start_steps_ps. apply (ps_disk_pred (sync s)); auto. apply disk_eq_sym, mem_deinit.
  - destruct (sync_steps_ps s sp I Ps) as [T1 Ps1].
    unfold stop. destruct (flush_one s None) as [s4 o4] eqn:E.
    assert (s4 = sync s) by (unfold sync; rewrite E; reflexivity). subst s4.
    pose proof (flush_one_ok s None) as Eo. rewrite E in Eo. cbn in Eo. subst o4. cbn [fst].
    eapply steps_trans; [exact T1|]. eapply st_mem; [apply mem_deinit|]. eapply st_mem; [apply mem_fresh|].
    apply start_steps_ps. apply (ps_disk_pred (sync s)); auto.
    eapply disk_eq_trans; [apply disk_eq_sym, mem_deinit|apply disk_eq_sym, mem_fresh].
Qed.

(** the pointers are sound after every single entry of the write log of every history *)
Theorem history_prefixes_ps b ops : Forall (op_ok U) ops ->
  let s := run c (st0 b) ops in
  prefixes_ok ptrs_sound b s /\ ptrs_sound s.
Proof.
  intros F.
  assert (G : forall s sp, inv s sp -> logged b s -> prefixes_ok ptrs_sound b s -> ptrs_sound s ->
              prefixes_ok ptrs_sound b (run c s ops) /\ ptrs_sound (run c s ops)).
  { induction F as [|o ops Ho F IH]; intros s sp I L Pre D; cbn; auto.
    pose proof (op_steps_ps s sp o I D Ho) as T.
    destruct (steps_ok ptrs_sound b ps_disk_pred _ _ T L Pre) as [L' Pre'].
    apply (IH _ (spec_op sp o)); auto.
    - apply step_refines; auto.
    - apply (steps_P ptrs_sound ps_disk_pred _ _ T D). }
  apply (G (st0 b) spec0); auto using inv_st0, logged_st0, ps_st0. apply prefixes_st0, ps_st0.
Qed.

End chain.
