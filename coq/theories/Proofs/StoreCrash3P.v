(** C06, part 3: the persisted pointers never claim more than the datastore holds:
    after EVERY write-log entry, if both pointer keys resolve to stored headers then
    Tail <= Head and every height between them is on disk. *)
From Coq Require Import NArith List Bool Lia ZifyBool ZifyN ZifyNat.
From stdpp Require Import gmap.
From GH Require Import Base.Prelude Model.Store Model.StoreSpec Model.StoreConc Model.StoreCrash Oracle.StoreCase.
From GH Require Import Proofs.StoreP Proofs.StoreClimbP Proofs.StoreInvP Proofs.StoreAppendP Proofs.StoreDeleteP.
From GH Require Import Proofs.StoreDeleteRangeP Proofs.StoreRestartP Proofs.StoreMainP Proofs.StoreConcP.
From GH Require Import Proofs.StoreCrashP Proofs.StoreCrash2P.
Import ListNotations.
Open Scope N_scope.

Section chain.
Context {c : N -> hdr} {U : N} {CH : chain_hyps c U}.
Notation inr := (inr U).
Notation minv := (minv c U).
Notation pchain := (pchain c U).
Notation pstored := (pstored c).
Notation pinv := (pinv c U).
Notation inv := (inv c U).

Definition on_disk (x : st) (n : N) : Prop := d_hdr x !! h_id (c n) = Some (c n).

(** both persisted pointers resolve => they bound a gap-free stretch of the datastore *)
Definition ptrs_sound (x : st) : Prop :=
  forall T H, d_tail x = Some (h_id (c T)) -> d_head x = Some (h_id (c H)) -> inr T -> inr H ->
  on_disk x T -> on_disk x H -> T <= H /\ forall n, T <= n <= H -> on_disk x n.

Lemma ps_disk_pred : disk_pred ptrs_sound.
Proof.
  intros a a' (E1 & E2 & E3 & E4) S. unfold ptrs_sound, on_disk in *. rewrite <- E1, <- E3, <- E4. exact S.
Qed.

Lemma ps_st0 b : ptrs_sound (st0 b).
Proof. intros T H E. cbn in E. discriminate. Qed.

Lemma on_disk_stored x n : minv x -> inr n -> on_disk x n -> stored x n.
Proof.
  intros M Hn H. destruct (mi_dh x M _ _ H) as (m & E & Hi). destruct (mi_di x M _ _ Hi) as (Hm & Eid & _).
  assert (n = m) by (apply (@ch_inj c U CH); auto). subst m. right; eauto.
Qed.

Lemma stored_on_disk x n : minv x -> pend_h x = ∅ -> stored x n -> on_disk x n.
Proof.
  intros M Hp [[h Hh]|[id Hi]]; [rewrite Hp, lookup_empty in Hh; discriminate|].
  destruct (mi_di x M _ _ Hi) as (_ & -> & Hd). exact Hd.
Qed.

(** at quiescence with an empty write batch the refinement relation implies soundness *)
Lemma inv_ptrs_sound x sp : inv x sp -> pend_h x = ∅ -> ptrs_sound x.
Proof.
  intros [I DK] Hp T H Et Eh HT HH OT OH. pose proof I as [M HS P]. unfold disk_ok in DK. unfold ptrs_core in P.
  destruct (sHT sp) as [[T0 H0]|] eqn:E.
  - destruct (inv_TH x sp T0 H0 I E) as (HT0 & HH0 & _). destruct (DK Hp) as [D1 D2].
    rewrite D1 in Eh. rewrite D2 in Et. injection Eh as Eh. injection Et as Et.
    apply (@ch_inj c U CH) in Eh; auto. apply (@ch_inj c U CH) in Et; auto. subst T0 H0.
    destruct P as (_ & _ & _ & P4 & P5 & _). split; auto.
    intros n Hn. apply stored_on_disk; auto.
  - destruct P as (_ & _ & _ & P4 & _). congruence.
Qed.

Lemma ps_head_none x : d_head x = None -> ptrs_sound x.
Proof. intros E T H _ Eh. congruence. Qed.

Lemma ps_tail_gone x T : d_tail x = Some (h_id (c T)) -> inr T -> ~ on_disk x T -> ptrs_sound x.
Proof.
  intros E HT N T' H' Et _ HT' _ OT' _. rewrite E in Et. injection Et as Et.
  apply (@ch_inj c U CH) in Et; auto. subst T'. contradiction.
Qed.

Lemma on_disk_del_hdr x id m : on_disk (write x [WDelH id]) m <-> on_disk x m /\ h_id (c m) <> id.
Proof.
  unfold on_disk. cbn. rewrite lookup_delete_Some. split; intros [? ?]; split; auto.
Qed.

(** ** the deleteSequential loop under a disk predicate [J] that implies soundness *)
Lemma delete_seq_steps2 (J : st -> Prop) script nh : disk_pred J ->
  (forall x n, J x -> J (write x [WDelI n])) ->
  (forall x, J x -> ptrs_sound x) ->
  forall cnt s n log,
  (forall x m, n <= m -> inr m -> J x -> J (write x [WDelH (h_id (c m))])) ->
  minv s -> J s ->
  let '(s', _, _, _) := delete_seq s script nh n cnt log in
  steps ptrs_sound s s' /\ J s'.
Proof.
  intros DJ JI JS. induction cnt as [|cnt IH]; intros s n log JH M Js; cbn [delete_seq].
  - split; auto. apply st_refl.
  - assert (H1 : let '(s1, _, _) := delete_single s script nh n log in
                 steps ptrs_sound s s1 /\ J s1 /\ minv s1).
    { destruct (stored_dec s n) as [Sn|Sn].
      - unfold delete_single.
        assert (E : match d_idx s !! n with
                    | Some id => Some id
                    | None => match pend_h s !! n with Some h => Some (h_id h) | None => None end
                    end = Some (h_id (c n))).
        { destruct (d_idx s !! n) as [id|] eqn:Ei.
          - destruct (mi_di s M _ _ Ei) as (_ & -> & _). reflexivity.
          - destruct Sn as [[h Hh]|[id Hi]]; [|congruence]. rewrite Hh.
            destruct (mi_ph s M _ _ Hh) as [_ ->]. reflexivity. }
        rewrite E. destruct (run_handlers s script 0 nh n log) as [log' ok].
        destruct ok; [|split_and!; auto; apply st_refl].
        destruct (del1_minv s n M Sn) as [M' _].
        pose proof (stored_inr s n M Sn) as Hn.
        assert (J1 : J (write s [WDelH (h_id (c n))])) by (apply JH; auto; lia).
        assert (J2 : J (write (write s [WDelH (h_id (c n))]) [WDelI n])) by (apply JI; auto).
        split_and!; auto.
        + eapply st_write; [apply JS; exact J1|]. eapply st_write; [apply JS; exact J2|].
          apply steps_mem1. apply mem_pend_del.
        + apply (DJ _ _ (disk_eq_sym _ _ (proj2 (mem_pend_del _ n))) J2).
      - rewrite (delete_single_missing s script nh n log Sn). split_and!; auto. apply st_refl. }
    destruct (delete_single s script nh n log) as [[s1 log1] ok1]. destruct H1 as (T1 & J1 & M1).
    destruct ok1; [|split; auto].
    assert (JH' : forall x m, n + 1 <= m -> inr m -> J x -> J (write x [WDelH (h_id (c m))]))
      by (intros x m Hm; apply JH; lia).
    pose proof (IH s1 (n + 1) log1 JH' M1 J1) as H2.
    destruct (delete_seq s1 script nh (n + 1) cnt log1) as [[[s2 log2] a2] ok2].
    destruct H2 as (T2 & J2). split; auto. eapply steps_trans; eauto.
Qed.

End chain.
