(** C08 / C14: what DeleteRange does, derived from [delete_refines] and pure
    facts about [spec_delete]. *)
From Coq Require Import NArith List Bool Lia ZifyBool ZifyN ZifyNat.
From stdpp Require Import gmap.
From GH Require Import Base.Prelude Model.Store Model.StoreSpec Oracle.StoreCase.
From GH Require Import Proofs.StoreP Proofs.StoreClimbP Proofs.StoreInvP Proofs.StoreAppendP.
From GH Require Import Proofs.StoreDeleteP Proofs.StoreDeleteRangeP Proofs.StoreRestartP Proofs.StoreMainP Proofs.StoreC04P.
Import ListNotations.
Open Scope N_scope.

(** ** pure facts about [spec_delete] *)
Definition okf (stop : option N) : outcome := match stop with None => Ok | Some _ => Fail end.
Definition upto_of (to : N) (stop : option N) : N := match stop with Some k => k | None => to end.
Definition cut (S : gset N) (from upto : N) : gset N := S ∖ list_to_set (seqN from (N.to_nat (upto - from))).

(** the ranges DeleteRange accepts: a prefix starting at Tail (the whole chain when it ends
    at Head+1) or a suffix ending at Head+1 *)
Definition valid_shape (T H from to : N) : Prop :=
  (from = T /\ T < to /\ to <= H + 1) \/ (T < from /\ from <= H /\ to = H + 1).

Lemma elem_of_cut S from upto n : n ∈ cut S from upto <-> n ∈ S /\ ~ (from <= n < upto).
Proof. unfold cut. rewrite not_in_cut. split; intros [? ?]; split; auto; lia. Qed.

Lemma valid_shape_dec T H from to : valid_shape T H from to \/ ~ valid_shape T H from to.
Proof. unfold valid_shape. lia. Qed.

Section specfacts.
Variables (sp : spec) (T H : N).
Hypothesis EHT : sHT sp = Some (T, H).
Hypothesis HTH : T <= H.
Hypothesis HH : H + 1 < two64.
Hypothesis Htop : H + 1 ∉ sS sp.

Lemma spec_delete_invalid from to stop : ~ valid_shape T H from to ->
  spec_delete sp from to stop = (sp, Fail).
Proof.
  intros NV. unfold valid_shape in NV. unfold spec_delete. rewrite EHT. cbv zeta.
  rewrite !(wrap64_small (H + 1)) by lia.
  destruct (N.leb_spec to from); auto.
  destruct (N.ltb_spec H from); destruct (N.leb_spec to T); cbn [orb]; auto.
  destruct (N.eqb_spec from T); destruct (N.eqb_spec to (H + 1)); cbn [andb negb]; auto; try lia.
  - destruct (N.ltb_spec (H + 1) to); auto; lia.
  - destruct (N.ltb_spec from T); auto; lia.
Qed.

Lemma spec_delete_valid from to stop : valid_shape T H from to ->
  (forall k, stop = Some k -> from <= k < to) ->
  sS (fst (spec_delete sp from to stop)) = cut (sS sp) from (upto_of to stop) /\
  snd (spec_delete sp from to stop) = okf stop /\
  sHT (fst (spec_delete sp from to stop)) =
    (if from =? T then
       if to =? H + 1 then match stop with None => None | Some k => Some (k, H) end
       else Some (upto_of to stop, H)
     else Some (T, if from <? upto_of to stop then from - 1 else H)).
Proof.
  intros V Hstop. unfold valid_shape in V. unfold spec_delete. rewrite EHT. cbv zeta.
  rewrite !(wrap64_small (H + 1)) by lia. fold (upto_of to stop).
  assert (Hu : from <= upto_of to stop <= to).
  { unfold upto_of. destruct stop as [k|]; [specialize (Hstop k eq_refl)|]; lia. }
  destruct (N.leb_spec to from); [lia|].
  destruct (N.ltb_spec H from); [lia|]. destruct (N.leb_spec to T); [lia|]. cbn [orb].
  destruct (N.eqb_spec from T); destruct (N.eqb_spec to (H + 1)); cbn [andb negb]; try lia.
  - subst to. rewrite (bool_decide_eq_false_2 _ Htop). cbn [negb].
    unfold upto_of, okf, cut. destruct stop; cbn; auto.
  - destruct (N.ltb_spec (H + 1) to); [lia|]. cbn.
    destruct (N.ltb_spec H (upto_of to stop)); [lia|]. unfold okf, cut. destruct stop; auto.
  - destruct (N.ltb_spec from T); [lia|]. cbn. unfold okf, cut. destruct stop; auto.
Qed.

Lemma valid_delete_iff from to : valid_delete sp from to = true <-> valid_shape T H from to.
Proof.
  unfold valid_delete. split.
  - intros V. destruct (valid_shape_dec T H from to) as [|NV]; auto.
    rewrite (spec_delete_invalid from to None NV) in V. discriminate.
  - intros V. destruct (spec_delete_valid from to None V) as (_ & E & _); [discriminate|].
    destruct (spec_delete sp from to None) as [sp' o]. cbn in E. subst o. reflexivity.
Qed.
End specfacts.

(** no scripted failure inside the range: the sequential deletion does not stop *)
Definition no_fail_in (fails : list (nat * N * bool)) (from to : N) : Prop :=
  forall f, In f fails -> ~ (from <= snd (fst f) < to).

Lemma fail_height_none S nh fails from to : no_fail_in fails from to -> fail_height S nh fails from to = None.
Proof.
  intros NF. unfold fail_height.
  destruct (find _ _) as [k|] eqn:E; auto. exfalso.
  apply find_some in E. destruct E as [Hin Hp]. apply (proj1 (in_seqN _ _ _)) in Hin.
  apply andb_true_iff in Hp. destruct Hp as [_ Hp]. apply existsb_exists in Hp.
  destruct Hp as (f & Hf & Hp). apply andb_true_iff in Hp. destruct Hp as [_ Hp].
  apply N.eqb_eq in Hp. apply (NF f Hf). lia.
Qed.

Section chain.
Context {c : N -> hdr} {U : N} {CH : chain_hyps c U}.
Notation inr := (inr U).
Notation pinv := (pinv c U).
Notation inv := (inv c U).

(** the facts about the specification state the pure lemmas need *)
Lemma pinv_spec_facts s sp T H : pinv s sp -> sHT sp = Some (T, H) ->
  T <= H /\ H + 1 < two64 /\ H + 1 ∉ sS sp.
Proof.
  intros I E. destruct (inv_TH s sp T H I E) as (_ & [_ HH] & Hle).
  pose proof (@ch_bound c U CH). split_and!; auto; [lia|].
  destruct I as [M HS P]. unfold ptrs_core in P. rewrite E in P. rewrite HS. tauto.
Qed.

Lemma delete_invalid s sp fails nh from to : inv s sp -> valid_delete sp from to = false ->
  delete_range s (script_of fails) nh from to = (sync s, [], Fail).
Proof.
  intros I Hv. pose proof (delete_refines s sp from to nh fails I) as D.
  destruct (delete_range s (script_of fails) nh from to) as [[s' log] out].
  unfold spec_step in D. cbn [ss_op] in D. rewrite Hv in D. destruct D as (_ & Eo & El & Es).
  rewrite (Es eq_refl). destruct log; [|discriminate]. destruct out; try discriminate. reflexivity.
Qed.

Lemma delete_empty_store s sp fails nh from to : inv s sp -> sHT sp = None ->
  delete_range s (script_of fails) nh from to = (sync s, [], Fail).
Proof.
  intros I E. apply (delete_invalid s sp); auto. unfold valid_delete, spec_delete. rewrite E. reflexivity.
Qed.

Lemma delete_valid s sp fails nh from to T H : inv s sp -> sHT sp = Some (T, H) ->
  valid_shape T H from to ->
  let stop := fail_height (sS sp) nh fails from to in
  let sp' := fst (spec_delete sp from to stop) in
  exists s' log,
    delete_range s (script_of fails) nh from to = (s', log, okf stop) /\
    inv s' sp' /\
    map to_hobs log = expected_log (sS sp) nh fails from to stop /\
    sS sp' = cut (sS sp) from (upto_of to stop) /\
    (forall k, stop = Some k -> from <= k < to /\ k ∈ sS sp) /\
    sHT sp' = (if from =? T then
                 if to =? H + 1 then match stop with None => None | Some k => Some (k, H) end
                 else Some (upto_of to stop, H)
               else Some (T, if from <? upto_of to stop then from - 1 else H)).
Proof.
  intros I E V stop sp'. destruct (pinv_spec_facts s sp T H (proj1 I) E) as (F1 & F2 & F3).
  assert (Hlt : from < to) by (unfold valid_shape in V; lia).
  assert (Hstop : forall k, stop = Some k -> from <= k < to /\ k ∈ sS sp).
  { intros k Hk. destruct (dseq_facts (sS sp) nh fails from to Hlt) as (_ & _ & _ & D4).
    destruct (D4 k Hk). split; auto. }
  destruct (spec_delete_valid sp T H E F1 F2 F3 from to stop V) as (G1 & G2 & G3).
  { intros k Hk. apply Hstop; auto. }
  pose proof (delete_refines s sp from to nh fails I) as D.
  destruct (delete_range s (script_of fails) nh from to) as [[s' log] out].
  unfold spec_step in D. cbn [ss_op] in D.
  rewrite (proj2 (valid_delete_iff sp T H E F1 F2 F3 from to) V) in D. cbv zeta in D. fold stop in D.
  destruct (spec_delete sp from to stop) as [sp1 o1] eqn:Esd. cbn [fst snd] in *.
  destruct D as (I' & Eo & El & _). exists s', log. split_and!; auto.
  subst o1. destruct out, (okf stop); try discriminate; reflexivity.
Qed.

End chain.

(** ** the set of the specification only grows by Append *)
Lemma spec_delete_subset sp from to stop n :
  n ∈ sS (fst (spec_delete sp from to stop)) -> n ∈ sS sp.
Proof.
  unfold spec_delete. destruct (sHT sp) as [[T H]|]; auto. cbv zeta.
  set (S' := sS sp ∖ _).
  assert (HS' : n ∈ S' -> n ∈ sS sp) by (unfold S'; rewrite elem_of_difference; tauto).
  destruct (to <=? from); auto. destruct ((H <? from) || (to <=? T)); auto.
  destruct (from =? T); destruct (to =? wrap64 (H + 1)); cbn [andb negb].
  - destruct (negb (bool_decide (to ∈ sS sp))); [destruct stop; cbn; auto|].
    destruct (wrap64 (H + 1) <? to); auto.
  - destruct (wrap64 (H + 1) <? to); auto.
  - destruct (from <? T); auto.
  - auto.
Qed.

Definition avoids (from to : N) (o : iop) : Prop :=
  match o with IAppend ns => forall n, In n ns -> ~ (from <= n < to) | _ => True end.

Lemma spec_op_not_mem sp o n : n ∉ sS sp ->
  (forall ns, o = IAppend ns -> ~ In n ns) -> n ∉ sS (spec_op sp o).
Proof.
  intros Hn Ho. unfold spec_op, spec_step. cbn [ss_op]. destruct o as [ns|f t nh fails| | |]; cbn [fst]; auto.
  - specialize (Ho ns eq_refl). destruct ns as [|n0 ns']; auto. unfold spec_append.
    destruct (match sHT sp with Some th => th | None => (n0, n0) end). cbn [sS].
    rewrite elem_of_union, elem_of_list_to_set, elem_of_list_In. tauto.
  - destruct (valid_delete sp f t); cbn [fst]; auto. cbv zeta.
    intros Hin. apply Hn. apply (spec_delete_subset sp f t (fail_height (sS sp) nh fails f t) n).
    destruct (spec_delete sp f t _). exact Hin.
Qed.

Lemma run_spec_not_mem from to ops : Forall (avoids from to) ops ->
  forall sp n, from <= n < to -> n ∉ sS sp -> n ∉ sS (run_spec sp ops).
Proof.
  induction 1 as [|o ops Ho F IH]; intros sp n Hn Hs; cbn; auto.
  apply IH; auto. apply spec_op_not_mem; auto.
  intros ns ->. intros Hin. apply (Ho n Hin). exact Hn.
Qed.

Section hist.
Context {c : N -> hdr} {U : N} {CH : chain_hyps c U}.
Notation inr := (inr U).
Notation pinv := (pinv c U).
Notation inv := (inv c U).

(** reads of a height that is not stored *)
Lemma not_stored_reads s sp n : pinv s sp -> n ∉ sS sp ->
  (forall h, get_by_height s n <> Found h) /\
  (inr n -> get s (h_id (c n)) = NotFound /\ has s (h_id (c n)) = false).
Proof.
  intros I Hn. pose proof (iv_m _ _ _ _ I) as M. pose proof (inv_pstored s sp I) as PS.
  assert (Sn : ~ stored s n) by (rewrite <- (iv_S _ _ _ _ I); auto).
  split.
  - intros h. rewrite gbh_not_stored; auto. destruct (n =? 0); [discriminate|]. destruct (n <=? hsh s); discriminate.
  - intros Hi. rewrite (has_get s _ M), get_not_stored; auto.
Qed.

(** reads of a height depend only on whether it is stored *)
Lemma reads_by_membership s sp s' sp' n : pinv s sp -> pinv s' sp' -> inr n ->
  (n ∈ sS sp' <-> n ∈ sS sp) ->
  get s' (h_id (c n)) = get s (h_id (c n)) /\ has s' (h_id (c n)) = has s (h_id (c n)) /\
  (get_by_height s n = Found (c n) <-> get_by_height s' n = Found (c n)).
Proof.
  intros I I' Hn E.
  rewrite (obs_get s sp n I Hn), (obs_get s' sp' n I' Hn), (obs_has s sp n I Hn), (obs_has s' sp' n I' Hn).
  rewrite (obs_gbh s sp n I), (obs_gbh s' sp' n I'). unfold spec_get, spec_gbh.
  destruct Hn as [Hn1 Hn2]. destruct (N.eqb_spec n 0); [lia|].
  destruct (bool_decide_reflect (n ∈ sS sp)) as [A|A]; destruct (bool_decide_reflect (n ∈ sS sp')) as [B|B]; try tauto.
  split_and!; auto. destruct (n <=? spec_height sp), (n <=? spec_height sp'); split; discriminate.
Qed.

Variables (b : N) (ops : list iop).
Hypothesis F : Forall (op_ok U) ops.
Let s := run c (st0 b) ops.
Let sp := run_spec spec0 ops.
Let I : inv s sp := history_inv b ops F.

Theorem hist_sync_changes_no_read :
  let s' := sync s in
  headp s' = headp s /\ tailp s' = tailp s /\ hsh s' = hsh s /\
  (forall n, get_by_height s' n = get_by_height s n) /\
  (forall n, inr n -> get s' (h_id (c n)) = get s (h_id (c n)) /\ has s' (h_id (c n)) = has s (h_id (c n))) /\
  (forall n, has_at s' n = has_at s n) /\
  (forall from to, get_range s' from to = get_range s from to).
Proof.
  intros s'. pose proof (proj1 (proj1 (StoreRestartP.sync_inv s sp I))) as I'. fold s' in I'.
  pose proof (proj1 I) as I0.
  rewrite (obs_head s' sp I'), (obs_head s sp I0), (obs_tail s' sp I'), (obs_tail s sp I0),
    (obs_height s' sp I'), (obs_height s sp I0).
  split_and!; auto.
  - intros n. rewrite (obs_gbh s' sp n I'), (obs_gbh s sp n I0). reflexivity.
  - intros n Hn. rewrite (obs_get s' sp n I' Hn), (obs_get s sp n I0 Hn), (obs_has s' sp n I' Hn), (obs_has s sp n I0 Hn). auto.
  - intros n. rewrite (obs_has_at s' sp n I'), (obs_has_at s sp n I0). reflexivity.
  - intros from to. rewrite (obs_range s' sp from to I'), (obs_range s sp from to I0). reflexivity.
Qed.

Theorem hist_delete_rejects from to nh fails :
  (headp s = None \/
   exists hd tl, headp s = Some hd /\ tailp s = Some tl /\ ~ valid_shape (h_height tl) (h_height hd) from to) ->
  delete_range s (script_of fails) nh from to = (sync s, [], Fail).
Proof.
  intros Hr.
  destruct (pinv_ptrs s sp (proj1 I)) as [(E1 & _ & _ & E)|(T & H & E & E1 & E2 & _ & _ & _ & _ & ET & EH & _)].
  - apply (delete_empty_store s sp); auto.
  - destruct Hr as [Hr|(hd & tl & Hhd & Htl & NV)]; [congruence|].
    rewrite E1 in Hhd. rewrite E2 in Htl. injection Hhd as <-. injection Htl as <-. rewrite ET, EH in NV.
    destruct (pinv_spec_facts s sp T H (proj1 I) E) as (F1 & F2 & F3).
    apply (delete_invalid s sp); auto.
    destruct (valid_delete sp from to) eqn:V; auto.
    apply (valid_delete_iff sp T H E F1 F2 F3) in V. contradiction.
Qed.

(** the outcome of an accepted range, and the state after it *)
Lemma hist_delete_valid from to nh fails hd tl :
  headp s = Some hd -> tailp s = Some tl -> valid_shape (h_height tl) (h_height hd) from to ->
  let T := h_height tl in let H := h_height hd in
  let stop := fail_height (sS sp) nh fails from to in
  let sp' := fst (spec_delete sp from to stop) in
  hd = c H /\ tl = c T /\ sHT sp = Some (T, H) /\
  exists s' log,
    delete_range s (script_of fails) nh from to = (s', log, okf stop) /\
    inv s' sp' /\
    map to_hobs log = expected_log (sS sp) nh fails from to stop /\
    sS sp' = cut (sS sp) from (upto_of to stop) /\
    (forall k, stop = Some k -> from <= k < to /\ k ∈ sS sp) /\
    sHT sp' = (if from =? T then
                 if to =? H + 1 then match stop with None => None | Some k => Some (k, H) end
                 else Some (upto_of to stop, H)
               else Some (T, if from <? upto_of to stop then from - 1 else H)).
Proof.
  intros Hhd Htl V T H stop sp'.
  destruct (pinv_ptrs s sp (proj1 I)) as [(E1 & _)|(T0 & H0 & E & E1 & E2 & _ & _ & _ & _ & ET & EH & _)]; [congruence|].
  rewrite E1 in Hhd. rewrite E2 in Htl. injection Hhd as <-. injection Htl as <-.
  unfold T, H in *. rewrite ET, EH in *. split_and!; auto.
  apply (delete_valid s sp fails nh from to T0 H0 I E V).
Qed.

Theorem hist_delete_accepts from to nh fails hd tl :
  headp s = Some hd -> tailp s = Some tl -> valid_shape (h_height tl) (h_height hd) from to ->
  no_fail_in fails from to ->
  snd (delete_range s (script_of fails) nh from to) = Ok.
Proof.
  intros Hhd Htl V NF.
  destruct (hist_delete_valid from to nh fails hd tl Hhd Htl V) as (_ & _ & _ & s' & log & E & _).
  rewrite E. rewrite (fail_height_none _ _ _ _ _ NF). reflexivity.
Qed.

(** a delete that returned nil was an accepted range whose handlers all succeeded *)
Lemma hist_delete_ok_inv from to nh fails s' log :
  delete_range s (script_of fails) nh from to = (s', log, Ok) ->
  exists hd tl, headp s = Some hd /\ tailp s = Some tl /\ valid_shape (h_height tl) (h_height hd) from to /\
                fail_height (sS sp) nh fails from to = None.
Proof.
  intros E.
  destruct (pinv_ptrs s sp (proj1 I)) as [(E1 & _)|(T & H & EHT & E1 & E2 & _ & _ & _ & _ & ET & EH & _)].
  - rewrite (hist_delete_rejects from to nh fails (or_introl E1)) in E. discriminate.
  - exists (c H), (c T). split_and!; auto.
    + rewrite ET, EH. destruct (valid_shape_dec T H from to) as [V|NV]; auto.
      rewrite (hist_delete_rejects from to nh fails) in E; [discriminate|].
      right. exists (c H), (c T). rewrite ET, EH. auto.
    + destruct (valid_shape_dec T H from to) as [V|NV].
      * rewrite <- ET, <- EH in V.
        destruct (hist_delete_valid from to nh fails _ _ E1 E2 V) as (_ & _ & _ & s1 & log1 & E' & _).
        rewrite E' in E. destruct (fail_height _ _ _ _ _); auto. discriminate.
      * rewrite (hist_delete_rejects from to nh fails) in E; [discriminate|].
        right. exists (c H), (c T). rewrite ET, EH. auto.
Qed.

Theorem hist_delete_success_removes from to nh fails s' log :
  delete_range s (script_of fails) nh from to = (s', log, Ok) ->
  forall n, from <= n < to ->
  (forall h, get_by_height s' n <> Found h) /\
  (inr n -> get s' (h_id (c n)) = NotFound /\ has s' (h_id (c n)) = false).
Proof.
  intros E n Hn. destruct (hist_delete_ok_inv from to nh fails s' log E) as (hd & tl & Hhd & Htl & V & Hf).
  destruct (hist_delete_valid from to nh fails hd tl Hhd Htl V) as (_ & _ & _ & s1 & log1 & E' & I' & _ & ES & _).
  rewrite E in E'. injection E' as <- <- _. rewrite Hf in *.
  apply (not_stored_reads s' _ n (proj1 I')). rewrite ES, elem_of_cut. cbn. tauto.
Qed.

Theorem hist_delete_outside_untouched from to nh fails s' log out :
  delete_range s (script_of fails) nh from to = (s', log, out) ->
  forall n, inr n -> ~ (from <= n < to) ->
  get s' (h_id (c n)) = get s (h_id (c n)) /\ has s' (h_id (c n)) = has s (h_id (c n)) /\
  (get_by_height s n = Found (c n) <-> get_by_height s' n = Found (c n)).
Proof.
  intros E n Hi Hn.
  destruct (pinv_ptrs s sp (proj1 I)) as [(E1 & _)|(T & H & EHT & E1 & E2 & _ & _ & _ & _ & ET & EH & _)].
  { rewrite (hist_delete_rejects from to nh fails (or_introl E1)) in E. injection E as <- _ _.
    apply (reads_by_membership s sp (sync s) sp n (proj1 I) (proj1 (proj1 (StoreRestartP.sync_inv s sp I))) Hi). tauto. }
  destruct (valid_shape_dec T H from to) as [V|NV].
  - rewrite <- ET, <- EH in V.
    destruct (hist_delete_valid from to nh fails _ _ E1 E2 V) as (_ & _ & _ & s1 & log1 & E' & I' & _ & ES & Hst & _).
    rewrite E in E'. injection E' as <- <- _.
    apply (reads_by_membership s sp s' _ n (proj1 I) (proj1 I') Hi).
    rewrite ES, elem_of_cut. split; [tauto|]. intros Hs. split; auto.
    unfold upto_of. destruct (fail_height _ _ _ _ _) as [k|] eqn:Ef; [destruct (Hst k eq_refl)|]; lia.
  - rewrite (hist_delete_rejects from to nh fails) in E.
    + injection E as <- _ _.
      apply (reads_by_membership s sp (sync s) sp n (proj1 I) (proj1 (proj1 (StoreRestartP.sync_inv s sp I))) Hi). tauto.
    + right. exists (c H), (c T). rewrite ET, EH. auto.
Qed.

Theorem hist_delete_new_ends from to nh fails s' log hd tl :
  delete_range s (script_of fails) nh from to = (s', log, Ok) ->
  headp s = Some hd -> tailp s = Some tl ->
  (from = h_height tl /\ to = h_height hd + 1 -> headp s' = None /\ tailp s' = None) /\
  (from = h_height tl /\ to <= h_height hd -> headp s' = Some hd /\ tailp s' = Some (c to)) /\
  (h_height tl < from -> headp s' = Some (c (from - 1)) /\ tailp s' = Some tl).
Proof.
  intros E Hhd Htl. destruct (hist_delete_ok_inv from to nh fails s' log E) as (hd' & tl' & Hhd' & Htl' & V & Hf).
  rewrite Hhd in Hhd'. rewrite Htl in Htl'. injection Hhd' as <-. injection Htl' as <-.
  destruct (hist_delete_valid from to nh fails hd tl Hhd Htl V) as (Ehd & Etl & _ & s1 & log1 & E' & I' & _ & _ & _ & EHT').
  rewrite E in E'. injection E' as <- <- _. rewrite Hf in *. cbn [upto_of] in EHT'.
  rewrite (obs_head s' _ (proj1 I')), (obs_tail s' _ (proj1 I')), EHT'.
  unfold valid_shape in V. split_and!.
  - intros [-> ->]. rewrite !N.eqb_refl. auto.
  - intros [-> Hle]. rewrite N.eqb_refl. destruct (N.eqb_spec to (h_height hd + 1)); [lia|]. cbn. rewrite <- Ehd. auto.
  - intros Hlt. destruct (N.eqb_spec from (h_height tl)); [lia|].
    destruct (N.ltb_spec from to); [|lia]. cbn. rewrite <- Etl. auto.
Qed.

Theorem hist_delete_permanent from to nh fails s' log ops' :
  delete_range s (script_of fails) nh from to = (s', log, Ok) ->
  Forall (op_ok U) ops' -> Forall (avoids from to) ops' ->
  forall n, from <= n < to ->
  let s2 := run c s' ops' in
  (forall h, get_by_height s2 n <> Found h) /\
  (inr n -> get s2 (h_id (c n)) = NotFound /\ has s2 (h_id (c n)) = false).
Proof.
  intros E F' A n Hn s2. destruct (hist_delete_ok_inv from to nh fails s' log E) as (hd & tl & Hhd & Htl & V & Hf).
  destruct (hist_delete_valid from to nh fails hd tl Hhd Htl V) as (_ & _ & _ & s1 & log1 & E' & I' & _ & ES & _).
  rewrite E in E'. injection E' as <- <- _. rewrite Hf in *.
  pose proof (run_inv s' _ ops' I' F') as I2. fold s2 in I2.
  apply (not_stored_reads s2 _ n (proj1 I2)).
  apply (run_spec_not_mem from to ops' A); auto. rewrite ES, elem_of_cut. cbn. tauto.
Qed.

Theorem hist_delete_retry_completes from to nh fails s1 log1 hd tl :
  headp s = Some hd -> tailp s = Some tl -> from = h_height tl ->
  valid_shape (h_height tl) (h_height hd) from to ->
  delete_range s (script_of fails) nh from to = (s1, log1, Fail) ->
  exists k, from <= k < to /\ tailp s1 = Some (c k) /\ headp s1 = Some hd /\
            get_by_height s1 k = Found (c k) /\
    forall nh' fails', no_fail_in fails' k to ->
    exists s2 log2, delete_range s1 (script_of fails') nh' k to = (s2, log2, Ok) /\
      forall n, from <= n < to ->
        (forall h, get_by_height s2 n <> Found h) /\
        (inr n -> get s2 (h_id (c n)) = NotFound /\ has s2 (h_id (c n)) = false).
Proof.
  intros Hhd Htl Hfrom V E.
  destruct (hist_delete_valid from to nh fails hd tl Hhd Htl V) as (Ehd & Etl & EHT & s' & log & E' & I' & _ & ES & Hst & EHT').
  rewrite E in E'. injection E' as <- <- Hok.
  destruct (fail_height (sS sp) nh fails from to) as [k|] eqn:Ef; [|discriminate].
  destruct (Hst k eq_refl) as [Hk1 Hk2]. cbn [upto_of] in *.
  rewrite Hfrom, N.eqb_refl in EHT'. rewrite <- Hfrom in *.
  set (sp1 := fst (spec_delete sp from to (Some k))) in *.
  assert (EHT1 : sHT sp1 = Some (k, h_height hd)) by (destruct (to =? h_height hd + 1); auto).
  assert (Hk3 : k ∈ sS sp1) by (rewrite ES, elem_of_cut; split; auto; lia).
  pose proof (@ch_height c U CH) as c_height.
  assert (Hki : inr k).
  { apply (stored_inr s1 k (iv_m _ _ _ _ (proj1 I'))). apply (iv_S _ _ _ _ (proj1 I')). exact Hk3. }
  exists k. split; [exact Hk1|]. split; [|split; [|split]].
  - rewrite (obs_tail s1 sp1 (proj1 I')), EHT1. reflexivity.
  - rewrite (obs_head s1 sp1 (proj1 I')), EHT1. cbn. congruence.
  - rewrite (obs_gbh s1 sp1 k (proj1 I')). unfold spec_gbh. destruct Hki. destruct (N.eqb_spec k 0); [lia|].
    rewrite (bool_decide_eq_true_2 _ Hk3). reflexivity.
  - intros nh' fails' NF.
    assert (V1 : valid_shape k (h_height hd) k to) by (unfold valid_shape in *; left; lia).
    destruct (delete_valid s1 sp1 fails' nh' k to k (h_height hd) I' EHT1 V1) as (s2 & log2 & E2 & I2 & _ & ES2 & _).
    rewrite (fail_height_none _ _ _ _ _ NF) in *. cbn [okf upto_of] in *.
    exists s2, log2. split; auto. intros n Hn.
    apply (not_stored_reads s2 _ n (proj1 I2)). rewrite ES2, elem_of_cut, ES, elem_of_cut. intros [[_ A] B]. lia.
Qed.

End hist.
