(** C17, last clause (part 3): the invariant of the race and the theorems. *)
From Coq Require Import NArith List Bool Lia ZifyBool ZifyN ZifyNat.
From stdpp Require Import gmap.
From GH Require Import Base.Prelude Model.Store Model.StoreSpec Model.StoreConc Model.StoreDelConc.
From GH Require Import Proofs.StoreP Proofs.StoreClimbP Proofs.StoreInvP Proofs.StoreAppendP
  Proofs.StoreDeleteP Proofs.StoreDeleteRangeP Proofs.StoreRestartP Proofs.StoreConcP
  Proofs.StoreDelConcP Proofs.StoreDelConc2P.
Import ListNotations.
Open Scope N_scope.

Section race3.
Context {c : N -> hdr} {U : N} {CH : chain_hyps c U}.
Notation inr := (inr U).
Notation minv := (minv c U).
Notation pchain := (pchain c U).
Notation pstored := (pstored c).
Notation pinv := (pinv c U).
Notation inv := (inv c U).
Variables (T to : N).
Hypothesis HT : inr T.
Hypothesis Hto : inr to.
Hypothesis Hlt : T < to.
Notation low := (low T to).
Notation lowid := (lowid (c := c) T to).
Notation sim := (sim (c := c) T to).
Notation hi := (hi (c := c) (U := U) T to).

Let Ub := @ch_bound c U CH.
Let c_height := @ch_height c U CH.
Let c_inj := @ch_inj c U CH.

(** how far the deletion got on disk: heights below [a] have no index entry, heights from [a]
    on still have theirs, heights below [b] have no header *)
Definition gone (x : st) (a b : N) : Prop :=
  (forall n, low n -> n < a -> d_idx x !! n = None) /\
  (forall n, low n -> a <= n -> d_idx x !! n = Some (h_id (c n))) /\
  (forall n, low n -> n < b -> d_hdr x !! h_id (c n) = None).

Lemma gone_ext x x' a b :
  (forall n, low n -> d_idx x' !! n = d_idx x !! n /\ d_hdr x' !! h_id (c n) = d_hdr x !! h_id (c n)) ->
  gone x a b -> gone x' a b.
Proof.
  intros E (A & B & C). split_and!; intros n Hn Hl; destruct (E n Hn) as [E1 E2]; rewrite ?E1, ?E2; auto.
Qed.

(** ** the state of the flush goroutine after the deletion, when the deletion starts *)
Definition cut_st (x : st) : st :=
  St (base.filter (fun p : N * hdr => ~ (T <= h_height (snd p) < to)) (d_hdr x))
     (base.filter (fun p : N * N => ~ (T <= fst p < to)) (d_idx x))
     (d_head x) (Some (h_id (c to))) (wlog x) ∅ ∅ (headp x) (Some (c to)) (hsh x) (batch x).

Lemma cut_inv x sp H0 : inv x sp -> sHT sp = Some (T, H0) -> to <= H0 -> pend_h x = ∅ ->
  inv (cut_st x) (del T to sp) /\ sim x (cut_st x) /\ tailp x = Some (c T) /\ gone x T T.
Proof.
  intros [I DK] E Hle Hp. pose proof I as [M HS P]. unfold ptrs_core in P. rewrite E in P.
  destruct P as (P1 & P2 & P3 & P4 & P5 & P6 & P7).
  unfold disk_ok in DK. rewrite E in DK. destruct (DK Hp) as [DK1 DK2].
  pose proof HT as [HT1 HT2]. pose proof Hto as [Hto1 Hto2].
  assert (HH0 : inr H0) by (apply (stored_inr x _ M), P5; lia).
  assert (Hpi : pend_i x = ∅).
  { apply map_eq. intros id. rewrite lookup_empty. destruct (pend_i x !! id) as [n|] eqn:Ei; auto.
    destruct (mi_pi1 x M _ _ Ei) as [_ Hph]. rewrite Hp, lookup_empty in Hph. discriminate. }
  assert (Sx : forall n, stored x n <-> is_Some (d_idx x !! n)).
  { intros n. unfold stored. rewrite Hp, lookup_empty. split; [intros [[? ?]|?]; [discriminate|auto]|auto]. }
  set (v := cut_st x).
  assert (Ei : forall n, d_idx v !! n = if decide (T <= n < to) then None else d_idx x !! n).
  { intros n. unfold v, cut_st. cbn [d_idx]. destruct (decide (T <= n < to)) as [Hl|Hl].
    - apply map_filter_lookup_None. right. intros id _. cbn. tauto.
    - destruct (d_idx x !! n) as [id|] eqn:Ed.
      + apply map_filter_lookup_Some. split; auto.
      + apply map_filter_lookup_None. left; auto. }
  assert (Eh : forall id h, d_hdr v !! id = Some h <-> d_hdr x !! id = Some h /\ ~ (T <= h_height h < to)).
  { intros id h. unfold v, cut_st. cbn [d_hdr]. rewrite map_filter_lookup_Some. cbn. tauto. }
  assert (Sv : forall n, stored v n <-> stored x n /\ ~ (T <= n < to)).
  { intros n. unfold stored at 1. unfold v at 1. cbn [pend_h cut_st]. rewrite lookup_empty, Ei, Sx.
    destruct (decide (T <= n < to)); split; try tauto.
    - intros [[? ?]|[? ?]]; discriminate.
    - intros [[? ?]|?]; [discriminate|tauto]. }
  assert (Mv : minv v).
  { split.
    - intros n h. unfold v. cbn. rewrite lookup_empty. discriminate.
    - intros id n. unfold v. cbn. rewrite lookup_empty. discriminate.
    - intros n h. unfold v. cbn. rewrite lookup_empty. discriminate.
    - intros n id Hn. rewrite Ei in Hn. destruct (decide (T <= n < to)); [discriminate|].
      destruct (mi_di x M _ _ Hn) as (Hi & -> & Hd). split_and!; auto. apply Eh. split; auto.
      rewrite c_height; auto.
    - intros id h Hh. apply Eh in Hh. destruct Hh as [Hh Hl].
      destruct (mi_dh x M _ _ Hh) as (n & -> & Hn). exists n. split; auto.
      destruct (mi_di x M _ _ Hn) as (Hi & _). rewrite c_height in Hl by auto.
      rewrite Ei. destruct (decide (T <= n < to)); [contradiction|auto]. }
  split_and!.
  - unfold del. rewrite (spec_delete_tail sp T H0 to E Hlt Hle) by (destruct HH0; lia). cbn [fst].
    split; [split|].
    + exact Mv.
    + intros n. cbn [sS]. rewrite in_cutS by lia. rewrite Sv, HS. tauto.
    + unfold ptrs_core. cbn [sHT]. split_and!; auto.
      * intros n Hn. apply Sv. split; [apply P5; lia|lia].
      * rewrite Sv. tauto.
      * rewrite Sv. lia.
    + unfold disk_ok. cbn [sHT]. intros _. split; auto.
  - split; auto; try (unfold v; cbn; congruence).
    + intros n Hn. rewrite Ei. unfold StoreDelConcP.low in Hn. destruct (decide (T <= n < to)); tauto.
    + intros n Hn. destruct (d_idx x !! n) as [id|] eqn:Ed; auto.
      destruct (mi_di x M _ _ Ed) as (_ & -> & _). auto.
    + intros id Hn. destruct (d_hdr x !! id) as [h|] eqn:Ed.
      * symmetry. apply Eh. split; auto. destruct (mi_dh x M _ _ Ed) as (n & -> & Hi).
        destruct (mi_di x M _ _ Hi) as (Hin & -> & _). rewrite c_height by auto.
        intros Hl. apply Hn. exists n. split; auto.
      * destruct (d_hdr v !! id) as [h|] eqn:Ev; auto. apply Eh in Ev. destruct Ev; congruence.
  - exact P2.
  - split_and!.
    + intros n [Hn _] Hl. lia.
    + intros n Hn _. assert (Hs : stored x n) by (apply P5; unfold StoreDelConcP.low in Hn; lia).
      apply Sx in Hs. destruct Hs as [id Hs]. rewrite Hs. destruct (mi_di x M _ _ Hs) as (_ & -> & _). auto.
    + intros n [Hn _] Hl. lia.
Qed.

(** ** the deleter's progress *)
Definition del2 (n : N) : wop := [WDelH (h_id (c n)); WDelI n].
Definition dels' (k : nat) : wop := flat_map del2 (seqN T k).
Definition dels (a : N) : wop := dels' (N.to_nat (a - T)).

Lemma dels_T : dels T = [].
Proof. unfold dels. replace (N.to_nat (T - T)) with 0%nat by lia. reflexivity. Qed.

Lemma dels_snoc a : T <= a -> dels (a + 1) = dels a ++ del2 a.
Proof.
  intros Ha. unfold dels, dels'. replace (N.to_nat (a + 1 - T)) with (S (N.to_nat (a - T))) by lia.
  rewrite seqN_snoc, flat_map_app. cbn [flat_map]. rewrite app_nil_r. do 2 f_equal. lia.
Qed.

Lemma dels'_low k : T + N.of_nat k <= to -> Forall (low_del (c := c) T to) (dels' k).
Proof.
  intros Hk. unfold dels'. apply Forall_forall. intros w Hw. apply in_flat_map in Hw.
  destruct Hw as (n & Hn & Hw). apply in_seqN in Hn.
  assert (Hl : low n) by (unfold StoreDelConcP.low; lia).
  destruct Hw as [<-|[<-|[]]]; cbn; auto. exists n. auto.
Qed.

Lemma dels'_apply k : T + N.of_nat k <= to -> forall s,
  let s' := fold_left apply1 (dels' k) s in
  (forall n, T <= n < T + N.of_nat k -> d_idx s' !! n = None /\ d_hdr s' !! h_id (c n) = None) /\
  (forall n, ~ (T <= n < T + N.of_nat k) -> d_idx s' !! n = d_idx s !! n).
Proof.
  pose proof HT as [HT1 HT2]. pose proof Hto as [Hto1 Hto2].
  induction k as [|k IH]; intros Hk s; cbn zeta.
  - split; [intros n Hn; lia|reflexivity].
  - unfold dels'. rewrite seqN_snoc, flat_map_app, fold_left_app. fold (dels' k).
    destruct (IH ltac:(lia) s) as [A B]. set (s' := fold_left apply1 (dels' k) s) in *.
    cbn [flat_map del2 app fold_left apply1 set_disk d_idx d_hdr]. split.
    + intros n Hn. destruct (N.eq_dec n (T + N.of_nat k)) as [->|Hne].
      * rewrite !lookup_delete. auto.
      * rewrite !lookup_delete_ne; auto; [apply A; lia|].
        intros Eid. apply c_inj in Eid; auto; split; lia.
    + intros n Hn. rewrite lookup_delete_ne by lia. apply B. lia.
Qed.

(** [a] heights are done; [hdone]: the delete of the hash key of height [a] is buffered already
    (in the write batch of the pass, or in the batch of its own that deleteKeys commits next) *)
Definition prog (ctxf : bool) (x : st) (wb : wop) (a : N) (hdone : bool) : Prop :=
  if ctxf then gone x T T /\ wb = dels a ++ (if hdone then [WDelH (h_id (c a))] else [])
  else gone x a a /\ wb = [].

Definition snap_ok (ctxf : bool) (snap : gmap N N) : Prop :=
  ctxf = true -> forall n, low n -> snap !! n = Some (h_id (c n)).

Definition DInv (ctxf : bool) (x : st) (k : dl) : Prop :=
  match k with
  | KWait | KLoadH | KBegin => tailp x = Some (c T) /\ gone x T T
  | KLoadT hd => tailp x = Some (c T) /\ gone x T T /\ exists H, hd = c H /\ inr H /\ to <= H
  | KLook cur wb snap => tailp x = Some (c T) /\ low cur /\ snap_ok ctxf snap /\ prog ctxf x wb cur false
  | KHand cur id wb snap | KDelH cur id wb snap =>
    tailp x = Some (c T) /\ low cur /\ snap_ok ctxf snap /\ id = h_id (c cur) /\ prog ctxf x wb cur false
  | KDelI cur id wb snap =>
    tailp x = Some (c T) /\ low cur /\ snap_ok ctxf snap /\ id = h_id (c cur) /\ prog ctxf x wb cur true
  | KPend cur wb snap => tailp x = Some (c T) /\ low cur /\ snap_ok ctxf snap /\ prog ctxf x wb (cur + 1) false
  | KCommit wb => tailp x = Some (c T) /\ prog ctxf x wb to false
  | KGetT => tailp x = Some (c T) /\ gone x to to
  | KStoreT nt => tailp x = Some (c T) /\ gone x to to /\ nt = c to
  | KPutT nt | KLoadH2 nt => tailp x = Some (c to) /\ gone x to to /\ nt = c to
  | KPutH hd => tailp x = Some (c to) /\ gone x to to /\ exists H, hd = c H /\ inr H
  | KDone => tailp x = Some (c to) /\ gone x to to
  | KSync | KFail | KOther => False
  end.

Lemma DInv_ext ctxf x x' k : tailp x' = tailp x ->
  (forall n, low n -> d_idx x' !! n = d_idx x !! n /\ d_hdr x' !! h_id (c n) = d_hdr x !! h_id (c n)) ->
  DInv ctxf x k -> DInv ctxf x' k.
Proof.
  intros Et E. pose proof (gone_ext x x') as G.
  destruct k; cbn [DInv]; rewrite ?Et; unfold prog; try tauto; destruct ctxf; intuition eauto.
Qed.

Lemma gone_write_ptr x w a b : Forall ptr_op w -> gone x a b -> gone (write x w) a b.
Proof.
  intros Hw. apply gone_ext. intros n _. destruct (write_disk x w) as (-> & -> & _).
  destruct (fold_ptr_disk w Hw x) as [-> ->]. auto.
Qed.

(** one step of the deleter, once its Sync is over *)
Lemma dstep_B ctxf x f k v x' f' k' : sim x v -> hi v -> DInv ctxf x k -> is_nil f = false ->
  dstep T to ctxf x f k = Some (x', f', k') ->
  sim x' v /\ DInv ctxf x' k' /\ f' = f /\ headp x' = headp x /\ hsh x' = hsh x.
Proof.
  intros S Hv D Hnil St. pose proof HT as [HT1 HT2]. pose proof Hto as [Hto1 Hto2].
  destruct (hi_hd _ _ _ Hv) as (H & Hd & Hh & Hle & HH & Stt).
  assert (Hdx : headp x = Some (c H)) by (rewrite (sm_hd _ _ _ _ S); auto).
  destruct k; cbn [dstep] in St; cbn [DInv] in D; try contradiction.
  - (* KWait *) rewrite Hnil in St. injection St as <- <- <-. auto.
  - (* KLoadH *) rewrite Hdx in St. injection St as <- <- <-. destruct D. split_and!; auto. cbn. eauto 10.
  - (* KLoadT *)
    destruct D as (Et & G & H1 & -> & HH1 & Hle1). rewrite Et in St. cbv zeta in St.
    rewrite !c_height in St by auto. destruct HH1 as [HH11 HH12]. rewrite wrap64_small in St by lia.
    replace (to <=? T) with false in St by lia. replace (H1 <? T) with false in St by lia.
    replace (T =? T) with true in St by lia. replace (to =? H1 + 1) with false in St by lia.
    replace (H1 + 1 <? to) with false in St by lia. cbn in St. injection St as <- <- <-.
    split_and!; auto. cbn. auto.
  - (* KBegin *) injection St as <- <- <-. destruct D as [Et G]. split_and!; auto. cbn.
    split_and!; auto; [unfold StoreDelConcP.low; lia| |].
    + intros Ec n Hn. rewrite Ec. destruct G as (_ & G2 & _). apply G2; auto. unfold StoreDelConcP.low in Hn. lia.
    + unfold prog. destruct ctxf; rewrite ?dels_T; auto.
  - (* KLook *)
    destruct D as (Et & Hc & Sn & P).
    assert (El : (if ctxf then snap else d_idx x) !! cur = Some (h_id (c cur))).
    { unfold prog in P. destruct ctxf; [apply Sn; auto|]. destruct P as [(_ & G2 & _) _]. apply G2; auto; lia. }
    rewrite El in St. injection St as <- <- <-. split_and!; auto. cbn. auto.
  - (* KHand *) injection St as <- <- <-. split_and!; auto.
  - (* KDelH *)
    destruct D as (Et & Hc & Sn & -> & P). unfold prog in P.
    destruct ctxf; destruct P as [G ->]; injection St as <- <- <-.
    + rewrite app_nil_r. split_and!; auto; cbn; split_and!; auto; unfold prog; auto.
    + split_and!; auto; cbn; split_and!; auto; unfold prog; auto.
  - (* KDelI *)
    destruct D as (Et & Hc & Sn & -> & P). unfold prog in P.
    destruct ctxf; destruct P as [G ->]; injection St as <- <- <-.
    + pose proof Hc as [Hc1 Hc2].
      assert (Ew : (dels cur ++ [WDelH (h_id (c cur))]) ++ [WDelI cur] = dels (cur + 1) ++ []).
      { rewrite (dels_snoc cur Hc1), <- !app_assoc, app_nil_r. reflexivity. }
      rewrite Ew. split_and!; auto; cbn [DInv]; split_and!; auto; unfold prog; auto.
    + split_and!; auto.
      * apply sim_write_del; auto.
        apply Forall_cons; [cbn; exists cur; auto|apply Forall_cons; [cbn; auto|constructor]].
      * cbn [DInv]. rewrite (proj1 (proj2 (proj2 (proj2 (write_frame x [WDelH (h_id (c cur)); WDelI cur]))))). split_and!; auto.
        unfold prog. split; auto. destruct G as (G1 & G2 & G3).
        destruct (write_disk x [WDelH (h_id (c cur)); WDelI cur]) as (W1 & W2 & _).
        split_and!; intros n Hn Hl; rewrite ?W1, ?W2; cbn [del2 fold_left apply1 set_disk d_hdr d_idx]; auto.
        -- destruct (N.eq_dec n cur) as [->|Hne]; [apply lookup_delete|].
           rewrite lookup_delete_ne by auto. apply G1; auto. lia.
        -- rewrite lookup_delete_ne by lia. apply G2; auto. lia.
        -- destruct (N.eq_dec n cur) as [->|Hne]; [apply lookup_delete|].
           rewrite lookup_delete_ne; [apply G3; auto; lia|].
           intros Eid. apply c_inj in Eid; [congruence|exact (low_inr T to HT Hto Hlt _ Hc)|exact (low_inr T to HT Hto Hlt _ Hn)].
  - (* KPend *)
    destruct D as (Et & Hc & Sn & P). rewrite (sim_pend_del T to Hlt x v cur S Hv Hc) in St.
    injection St as <- <- <-. split_and!; auto. unfold k_next. destruct Hc as [Hc1 Hc2].
    destruct (N.ltb_spec (cur + 1) to) as [Hl|Hl]; cbn; split_and!; auto.
    + unfold StoreDelConcP.low. lia.
    + replace to with (cur + 1) by lia. auto.
  - (* KCommit *)
    destruct D as (Et & P). unfold prog in P. destruct ctxf; destruct P as [G Ew].
    + rewrite app_nil_r in Ew.
      assert (Hne : wb <> []).
      { rewrite Ew. unfold dels, dels'. replace (N.to_nat (to - T)) with (Datatypes.S (N.to_nat (to - T - 1))) by lia.
        cbn. discriminate. }
      assert (Ex : x' = write x wb /\ f' = f /\ k' = KGetT).
      { destruct wb; [contradiction|]. injection St as <- <- <-. auto. }
      destruct Ex as (-> & -> & ->). clear St.
      assert (Hk : T + N.of_nat (N.to_nat (to - T)) <= to) by lia.
      pose proof (dels'_low _ Hk) as Hlow. fold (dels to) in Hlow. rewrite <- Ew in Hlow.
      destruct (dels'_apply _ Hk x) as [A B]. fold (dels to) in A, B. rewrite <- Ew in A, B.
      destruct (write_disk x wb) as (W1 & W2 & _).
      split_and!; auto; try apply write_frame.
      * apply sim_write_del; auto.
      * cbn [DInv]. rewrite (proj1 (proj2 (proj2 (proj2 (write_frame x wb))))). split; auto.
        split_and!; intros n [Hn1 Hn2] Hl; rewrite ?W1, ?W2; try apply A; lia.
    + subst wb. injection St as <- <- <-. split_and!; auto. cbn. auto.
  - (* KGetT *)
    rewrite (sim_nb_stored T to HT Hto Hlt x v to S Hv) in St by (auto; try lia; apply Stt; lia).
    injection St as <- <- <-. destruct D. split_and!; auto. cbn. auto.
  - (* KStoreT *)
    destruct D as (Et & G & ->).
    assert (Ex : x' = set_tailp x (Some (c to)) /\ f' = f /\ k' = KPutT (c to)).
    { destruct f; try discriminate; injection St as <- <- <-; auto. }
    destruct Ex as (-> & -> & ->). clear St. split_and!; auto.
    + apply sim_set_tailp; auto.
    + cbn. split_and!; auto.
  - (* KPutT *)
    destruct D as (Et & G & ->). injection St as <- <- <-.
    assert (Hp : Forall ptr_op [WPutTail (h_id (c to))]) by (repeat constructor).
    split_and!; auto; try apply write_frame.
    + apply sim_write_ptr; auto.
    + cbn [DInv]. rewrite (proj1 (proj2 (proj2 (proj2 (write_frame x [WPutTail (h_id (c to))]))))).
      split_and!; auto; try (apply gone_write_ptr; auto); eauto.
  - (* KLoadH2 *)
    destruct D as (Et & G & ->). rewrite Hdx in St. rewrite c_height in St by auto.
    replace (H <? to) with false in St by lia. injection St as <- <- <-.
    split_and!; auto. cbn. split_and!; eauto.
  - (* KPutH *)
    destruct D as (Et & G & H1 & -> & HH1). injection St as <- <- <-.
    assert (Hp : Forall ptr_op [WPutHead (h_id (c H1))]) by (repeat constructor).
    split_and!; auto; try apply write_frame.
    + apply sim_write_ptr; auto.
    + cbn [DInv]. rewrite (proj1 (proj2 (proj2 (proj2 (write_frame x [WPutHead (h_id (c H1))]))))).
      split_and!; auto; try (apply gone_write_ptr; auto); eauto.
  - discriminate.
Qed.

End race3.
