(** C17, last clause (part 5): the invariant of all interleavings and the theorems. *)
From Coq Require Import NArith List Bool Lia ZifyBool ZifyN ZifyNat.
From stdpp Require Import gmap.
From GH Require Import Base.Prelude Model.Store Model.StoreSpec Model.StoreConc Model.StoreDelConc.
From GH Require Import Proofs.StoreP Proofs.StoreClimbP Proofs.StoreInvP Proofs.StoreAppendP
  Proofs.StoreDeleteP Proofs.StoreDeleteRangeP Proofs.StoreRestartP Proofs.StoreConcP
  Proofs.StoreDelConcP Proofs.StoreDelConc2P Proofs.StoreDelConc3P Proofs.StoreDelConc4P.
Import ListNotations.
Open Scope N_scope.

Lemma is_nil_step s q f s' q' f' : is_nil f = false -> fstep s q f = Some (s', q', f') -> is_nil f' = false.
Proof.
  intros Hn St. destruct f; cbn [fstep] in St.
  - destruct q as [|[|h0 hs] r]; [discriminate| |]; injection St as <- <- <-; reflexivity.
  - injection St as <- <- <-. exact Hn.
  - injection St as <- <- <-. exact Hn.
  - destruct o; [|discriminate Hn]. cbn in St.
    destruct (_ && _); [injection St as <- <- <-; reflexivity|].
    destruct (_ =? _)%nat; injection St as <- <- <-; reflexivity.
  - injection St as <- <- <-. exact Hn.
  - injection St as <- <- <-. exact Hn.
  - injection St as <- <- <-. reflexivity.
Qed.

(** the flush(nil) of Sync ends with an empty write batch *)
Lemma nil_done s q f s' q' f' : is_nil f = true -> fstep s q f = Some (s', q', f') -> is_nil f' = false ->
  f' = FIdle /\ pend_h s' = ∅.
Proof.
  intros Hn St Hn'. destruct f; cbn [fstep] in St; try discriminate Hn.
  - destruct o; [discriminate Hn|]. injection St as <- <- <-. discriminate Hn'.
  - destruct o; [discriminate Hn|]. injection St as <- <- <-. discriminate Hn'.
  - destruct o; [discriminate Hn|]. cbn in St. rewrite andb_false_r in St.
    destruct (Nat.eqb_spec (size (pend_h (recede_tail s))) 0) as [Hz|Hz]; injection St as <- <- <-.
    + split; auto. apply map_size_empty_inv; auto.
    + discriminate Hn'.
  - destruct nl; [|discriminate Hn]. injection St as <- <- <-. discriminate Hn'.
  - destruct nl; [|discriminate Hn]. injection St as <- <- <-. discriminate Hn'.
  - injection St as <- <- <-. split; reflexivity.
Qed.

Section race5.
Context {c : N -> hdr} {U : N} {CH : chain_hyps c U}.
Notation inr := (inr U).
Notation minv := (minv c U).
Notation pstored := (pstored c).
Notation pinv := (pinv c U).
Notation inv := (inv c U).
Variables (T to : N) (ctxf : bool) (spE : spec).
Hypothesis HT : inr T.
Hypothesis Hto : inr to.
Hypothesis Hlt : T < to.
Notation low := (low T to).
Notation sim := (sim (c := c) T to).
Notation hi := (hi (c := c) (U := U) T to).
Notation DInv := (DInv (c := c) (U := U) T to).
Notation PI := (PI (c := c) T to).
Notation GSB := (GSB (c := c) (U := U) T to).

Let Ub := @ch_bound c U CH.
Let c_height := @ch_height c U CH.
Let c_inj := @ch_inj c U CH.

(** before the deleter's Sync is over: the flush goroutine on its own, tail [T] *)
Definition GSA := GS c U to T T (del T to) (fun _ => True) spE.

Lemma GSA_hyps : T <= to /\ (forall n, hiN U to n -> True) /\
  (forall (v0 : st) sp (H0 : N) ns, inv v0 sp -> sHT sp = Some (T, H0) -> to <= H0 -> Forall (hiN U to) ns ->
     spec_append (del T to sp) ns = del T to (spec_append sp ns)).
Proof.
  split; [lia|]. split; [auto|]. intros v0 sp H0 ns I E Hle F.
  apply (del_append_comm v0 sp T H0 to ns (proj1 I) E Hlt Hle).
  - eapply Forall_impl; [|exact F]. intros n [Hn _]. exact Hn.
  - intros n Hn. destruct (FIn _ _ _ F Hn). lia.
Qed.

Lemma GSA_step v q f v' q' f' : GSA v q f -> fstep v q f = Some (v', q', f') -> GSA v' q' f'.
Proof. destruct GSA_hyps as (A & B & C). apply (GS_step to T T (del T to) (fun _ => True) spE A B C). Qed.

Lemma GSA_solo v q f : GSA v q f -> solo c U to T T (fun _ => True) v.
Proof. destruct GSA_hyps as (A & B & C). apply (GS_solo to T T (del T to) (fun _ => True) spE A B C). Qed.

(** once the Sync is over: the relation with the flush goroutine running after the deletion *)
Definition PhB (x : cfg) : Prop :=
  is_nil (c_fl x) = false /\
  exists v fv, GSB spE v (c_q x) fv /\ fmatch (c_fl x) fv /\ sim (c_st x) v /\
               DInv ctxf (c_st x) (c_dl x) /\ PI (c_st x) (c_fl x) (c_dl x).

Definition GI (x : cfg) : Prop :=
  match c_dl x with
  | KSync => is_nil (c_fl x) = false /\ GSA (c_st x) (c_q x) (c_fl x)
  | KWait => (is_nil (c_fl x) = true /\ GSA (c_st x) (c_q x) (c_fl x)) \/ PhB x
  | _ => PhB x
  end.

(** the moment the Sync is over *)
Lemma phaseB_start s q : GSA s q FIdle -> pend_h s = ∅ -> PhB (Cfg s q FIdle KWait).
Proof.
  intros (v0 & sp & H0 & qn & ns & nl & I & E & Hle & HLo & HP & -> & Fq & F & Hn1 & EQ & Ev & GF) Hp.
  cbn in GF. subst ns. cbn [gstate] in Ev. subst v0. cbn [spec_append] in EQ.
  destruct (cut_inv T to HT Hto Hlt s sp H0 I E Hle Hp) as (Iv & Sv & Et & G).
  destruct (inv_TH s sp T H0 (proj1 I) E) as (_ & HH0 & _).
  assert (Ed : del T to sp = Spec (cutS (sS sp) T to) (Some (to, H0))).
  { unfold del. rewrite (spec_delete_tail sp T H0 to E Hlt Hle) by (destruct HH0; lia). reflexivity. }
  split; [reflexivity|]. exists (cut_st (c := c) T to s), FIdle. cbn [c_st c_q c_fl c_dl]. split_and!.
  - exists (cut_st (c := c) T to s), (del T to sp), H0, qn, [], false. split_and!; auto; try discriminate; try reflexivity.
    + rewrite Ed. reflexivity.
    + intros n Hn. rewrite Ed. cbn [sS]. rewrite in_cutS by lia. intros [Hs Hl].
      destruct (N.eq_dec n (T - 1)) as [->|Hne]; [|lia].
      destruct (pinv_below s sp T H0 (proj1 I) E) as [B _]. contradiction.
    + intros n. cbn. rewrite lookup_empty. intros [? ?]; discriminate.
  - reflexivity.
  - exact Sv.
  - cbn. auto.
  - destruct I as [Ip DK]. unfold disk_ok in DK. rewrite E in DK. destruct (DK Hp) as [DK1 DK2].
    pose proof (iv_p _ _ _ _ Ip) as P. unfold ptrs_core in P. rewrite E in P. destruct P as (P1 & _).
    split; cbn [after_putT]; auto; try discriminate.
    intros _. rewrite DK1, P1. split; auto. intros hd [=].
Qed.

(** ** one step of either actor preserves the invariant *)
Lemma GI_fstep x y : GI x -> fstep_c x = Some y -> GI y.
Proof.
  intros G St. unfold fstep_c in St.
  destruct (is_load (c_fl x) && in_dsec (c_dl x)) eqn:Hg; [discriminate|].
  destruct (fstep (c_st x) (c_q x) (c_fl x)) as [[[s q] f]|] eqn:Ef; [|discriminate]. injection St as <-.
  assert (PB : PhB x -> PhB (Cfg s q f (c_dl x))).
  { intros (Hnil & v & fv & Gv & FM & S & D & P).
    destruct (fstep_B T to HT Hto Hlt spE ctxf _ _ _ _ v fv s q f Gv FM S D P Hnil Hg Ef)
      as (v' & fv' & Ev & FM' & S' & D' & P' & Hnil').
    split; auto. exists v', fv'. cbn [c_st c_q c_fl c_dl]. split_and!; auto.
    eapply GSB_step; eauto. }
  unfold GI in *. cbn [c_dl c_fl c_st c_q].
  destruct (c_dl x) eqn:Ek; auto.
  - destruct G as [Hn Ga]. split; [eapply is_nil_step; eauto|eapply GSA_step; eauto].
  - destruct G as [[Hn Ga]|Gb]; [|right; auto].
    pose proof (GSA_step _ _ _ _ _ _ Ga Ef) as Ga'.
    destruct (is_nil f) eqn:Hn'; [left; auto|]. right.
    destruct (nil_done _ _ _ _ _ _ Hn Ef Hn') as [-> Hp]. apply phaseB_start; auto.
Qed.

Lemma GI_dstep x y : GI x -> dstep_c T to ctxf x = Some y -> GI y.
Proof.
  intros G St. unfold dstep_c in St.
  destruct (dstep T to ctxf (c_st x) (c_fl x) (c_dl x)) as [[[s f] k]|] eqn:Ed; [|discriminate]. injection St as <-.
  assert (PB : PhB x -> GI (Cfg s (c_q x) f k)).
  { intros (Hnil & v & fv & Gv & FM & S & D & P). pose proof (GSB_hi T to Hto Hlt spE v _ fv Gv) as Hv.
    destruct (dstep_B T to HT Hto Hlt ctxf _ _ _ v s f k S Hv D Hnil Ed) as (S' & D' & -> & _).
    pose proof (dstep_PI T to HT Hto Hlt ctxf _ _ _ v s _ k S Hv D Hnil P Ed) as P'.
    assert (PhB (Cfg s (c_q x) (c_fl x) k)) as R.
    { split; auto. exists v, fv. cbn [c_st c_q c_fl c_dl]. auto. }
    unfold GI. cbn [c_dl]. destruct k; auto; cbn in D'; contradiction. }
  unfold GI in G. destruct (c_dl x) eqn:Ek; auto.
  - (* the Sync request *)
    destruct G as [Hn Ga]. cbn [dstep] in Ed. destruct (c_fl x) eqn:Ef; try discriminate. injection Ed as <- <- <-.
    unfold GI. cbn [c_dl c_fl c_st c_q]. left. split; [reflexivity|].
    destruct Ga as (v0 & sp & H0 & qn & ns & nl & I & E & Hle & HLo & HP & Eq & Fq & F & Hn1 & EQ & Ev & GF).
    cbn in GF. subst ns. cbn [gstate] in Ev.
    exists v0, sp, H0, qn, [], true. split_and!; auto; try discriminate.
    + cbn [gstate map]. rewrite pend_add_nil. exact Ev.
    + cbn. split; [reflexivity|discriminate].
  - (* waiting for the Sync *)
    destruct G as [[Hn Ga]|Gb]; auto. cbn [dstep] in Ed. rewrite Hn in Ed. discriminate.
Qed.

Lemma GI_step1 a x y : GI x -> step1 T to ctxf a x = Some y -> GI y.
Proof.
  intros G St. unfold step1 in St. destruct a.
  - destruct (dstep_c T to ctxf x) eqn:Ed; [injection St as <-; eapply GI_dstep; eauto|eapply GI_fstep; eauto].
  - destruct (fstep_c x) eqn:Ef; [injection St as <-; eapply GI_fstep; eauto|eapply GI_dstep; eauto].
Qed.

(** ** what holds in every state of the race *)

(** the surviving part of the chain is readable, Head() included *)
Definition live_ok (s : st) : Prop :=
  exists H, headp s = Some (c H) /\ hsh s = H /\ to <= H /\ inr H /\
    forall n, to <= n <= H -> get_by_height s n = Found (c n) /\ get s (h_id (c n)) = Found (c n).

Lemma live_ok_torn_free s : live_ok s -> torn_free s.
Proof.
  intros (H & Hd & Hh & Hle & HH & R). unfold torn_free, observe17. rewrite Hd. cbn [o_head_by_height o_head_by_hash].
  rewrite c_height by auto. destruct (R H ltac:(lia)) as [-> ->]. cbn. rewrite !N.eqb_refl. auto.
Qed.

Lemma solo_live_ok v Tl Lo PP : Tl <= to -> solo c U to Tl Lo PP v -> live_ok v.
Proof.
  intros Hl [M Tlp (H & Hd & Hh & Hle & HH & St) _ _ _]. exists H. split_and!; auto.
  assert (PS : pstored v).
  { intros h [E|E]; rewrite ?Hd, ?Tlp in E; injection E as <-; eexists; split; eauto; apply St; lia. }
  intros n Hn. apply stored_reads; auto using pstored_pchain. apply St. lia.
Qed.

Lemma PhB_live_ok x : PhB x -> live_ok (c_st x).
Proof.
  intros (_ & v & fv & Gv & _ & S & _). pose proof (GSB_hi T to Hto Hlt spE v _ fv Gv) as Hv.
  destruct (hi_hd _ _ _ Hv) as (H & Hd & Hh & Hle & HH & St). exists H.
  rewrite (sm_hd _ _ _ _ S), (sm_hs _ _ _ _ S). split_and!; auto.
  intros n Hn. apply (sim_read T to HT Hto Hlt _ v n S Hv); [lia|apply St; lia].
Qed.

Lemma GI_live_ok x : GI x -> live_ok (c_st x).
Proof.
  intros G. unfold GI in G.
  assert (A : GSA (c_st x) (c_q x) (c_fl x) -> live_ok (c_st x)).
  { intros Ga. apply (solo_live_ok _ T T (fun _ => True)); [lia|]. eapply GSA_solo; eauto. }
  destruct (c_dl x); try (apply PhB_live_ok; exact G).
  - destruct G; auto.
  - destruct G as [[_ Ga]|Gb]; auto. apply PhB_live_ok; auto.
Qed.

(** Head().Height(), Height() and what is stored at or above [to] only grow *)
Definition grows (p x : st) : Prop :=
  head_h p <= head_h x /\ hsh p <= hsh x /\ forall n, to <= n -> stored p n -> stored x n.

Lemma grows_refl s : grows s s.
Proof. unfold grows. split_and!; auto; lia. Qed.

Lemma sim_grows x v x' v' : sim x v -> sim x' v' ->
  head_h v <= head_h v' /\ hsh v <= hsh v' /\ (forall n, stored v n -> stored v' n) -> grows x x'.
Proof.
  intros S S' (A & B & C). unfold grows, head_h in *.
  rewrite (sm_hd _ _ _ _ S), (sm_hd _ _ _ _ S'), (sm_hs _ _ _ _ S), (sm_hs _ _ _ _ S'). split_and!; auto.
  intros n Hn Hs. assert (Hl : ~ low n) by (unfold StoreDelConcP.low; lia).
  apply (sim_stored T to x' v' n S' Hl), C, (sim_stored T to x v n S Hl), Hs.
Qed.

Lemma GI_fstep_grows x y : GI x -> fstep_c x = Some y -> grows (c_st x) (c_st y).
Proof.
  intros G St. unfold fstep_c in St.
  destruct (is_load (c_fl x) && in_dsec (c_dl x)) eqn:Hg; [discriminate|].
  destruct (fstep (c_st x) (c_q x) (c_fl x)) as [[[s q] f]|] eqn:Ef; [|discriminate]. injection St as <-.
  cbn [c_st].
  assert (A : GSA (c_st x) (c_q x) (c_fl x) -> grows (c_st x) s).
  { intros Ga. destruct GSA_hyps as (A1 & A2 & A3).
    destruct (GS_step_mono to T T (del T to) (fun _ => True) spE A1 A2 A3 _ _ _ _ _ _ Ga Ef) as (B1 & B2 & B3).
    unfold grows. split_and!; auto. }
  assert (B : PhB x -> grows (c_st x) s).
  { intros (Hnil & v & fv & Gv & FM & S & D & P).
    destruct (fstep_B T to HT Hto Hlt spE ctxf _ _ _ _ v fv s q f Gv FM S D P Hnil Hg Ef)
      as (v' & fv' & Ev & FM' & S' & D' & P' & Hnil').
    destruct (GSB_hyps (c := c) (U := U) T to Hto Hlt) as (A1 & A2 & A3).
    apply (sim_grows _ v _ v'); auto.
    apply (GS_step_mono to to (T - 1) (fun sp => sp) (fun n => to < n) spE A1 A2 A3 _ _ _ _ _ _ Gv Ev). }
  unfold GI in G. destruct (c_dl x); auto.
  - destruct G; auto.
  - destruct G as [[_ Ga]|Gb]; auto.
Qed.

Lemma GI_dstep_grows x y : GI x -> dstep_c T to ctxf x = Some y -> grows (c_st x) (c_st y).
Proof.
  intros G St. unfold dstep_c in St.
  destruct (dstep T to ctxf (c_st x) (c_fl x) (c_dl x)) as [[[s f] k]|] eqn:Ed; [|discriminate]. injection St as <-.
  cbn [c_st].
  assert (B : PhB x -> grows (c_st x) s).
  { intros (Hnil & v & fv & Gv & FM & S & D & P). pose proof (GSB_hi T to Hto Hlt spE v _ fv Gv) as Hv.
    destruct (dstep_B T to HT Hto Hlt ctxf _ _ _ v s f k S Hv D Hnil Ed) as (S' & D' & -> & _).
    apply (sim_grows _ v _ v); auto; split_and!; auto; lia. }
  unfold GI in G. destruct (c_dl x) eqn:Ek; auto.
  - cbn [dstep] in Ed. destruct (c_fl x); try discriminate. injection Ed as <- <- <-. apply grows_refl.
  - destruct G as [[Hn _]|Gb]; auto. cbn [dstep] in Ed. rewrite Hn in Ed. discriminate.
Qed.

Lemma GI_step1_grows a x y : GI x -> step1 T to ctxf a x = Some y -> grows (c_st x) (c_st y).
Proof.
  intros G St. unfold step1 in St. destruct a.
  - destruct (dstep_c T to ctxf x) eqn:Ed; [injection St as <-; eapply GI_dstep_grows; eauto|eapply GI_fstep_grows; eauto].
  - destruct (fstep_c x) eqn:Ef; [injection St as <-; eapply GI_fstep_grows; eauto|eapply GI_dstep_grows; eauto].
Qed.

(** ** the final state *)
Lemma pinv_ext v x sp Tl H : sHT sp = Some (Tl, H) -> same_maps v x ->
  headp x = headp v -> tailp x = tailp v -> hsh x = hsh v -> pinv v sp -> pinv x sp.
Proof.
  intros E SM E1 E2 E3 [M HS P]. split.
  - eapply minv_ext; eauto.
  - intros n. rewrite (same_maps_stored v x n SM). auto.
  - unfold ptrs_core in *. rewrite E in *. rewrite E1, E2, E3, !(same_maps_stored v x _ SM).
    destruct P as (P1 & P2 & P3 & P4 & P5 & P6 & P7). split_and!; auto.
    intros n Hn. rewrite (same_maps_stored v x n SM). auto.
Qed.

Lemma GI_final x : GI x -> finished x -> inv (c_st x) spE.
Proof.
  intros G (Eq & Ef & Ek). unfold GI in G. rewrite Ek in G.
  destruct G as (_ & v & fv & Gv & FM & S & D & P). rewrite Ek in D, P. rewrite Ef in FM, P. rewrite Eq in Gv.
  cbn in FM. destruct fv; try contradiction; try discriminate FM. clear FM.
  pose proof (GSB_hi T to Hto Hlt spE v _ _ Gv) as Hv.
  destruct Gv as (v0 & sp & H0 & qn & ns & nl & I & E & Hle & HLo & HP & Eqn & Fq & F & Hn1 & EQ & Ev & GF).
  cbn in GF. subst ns. cbn [gstate] in Ev. subst v0. cbn [spec_append] in EQ.
  symmetry in Eqn. apply map_eq_nil in Eqn. subst qn. cbn [fold_left] in EQ. subst sp.
  cbn in D. destruct D as (Et & G1 & G2 & G3).
  set (x0 := c_st x) in *.
  assert (Ei : d_idx x0 = d_idx v).
  { apply map_eq. intros n. destruct (decide (T <= n < to)) as [Hl|Hl].
    - rewrite G1 by (auto; lia). symmetry. destruct (d_idx v !! n) eqn:Ed; auto.
      exfalso. apply (hi_low _ _ _ Hv n); [lia|]. right; eauto.
    - apply (sm_di _ _ _ _ S). exact Hl. }
  assert (Eh : d_hdr x0 = d_hdr v).
  { apply map_eq. intros id. destruct (lowid_dec (c := c) T to Hlt id) as [(n & Hn & ->)|Hl].
    - rewrite G3 by (auto; unfold StoreDelConcP.low in Hn; lia). symmetry.
      destruct (d_hdr v !! h_id (c n)) as [h|] eqn:Ed; auto. exfalso.
      destruct (mi_dh v (hi_m _ _ _ Hv) _ _ Ed) as (m & -> & Hm).
      destruct (hi_idx_id T to HT Hto Hlt v m _ Hv Hm) as (Eid & Him & Hnl & _).
      apply c_inj in Eid; auto; [|exact (low_inr T to HT Hto Hlt n Hn)]. subst m. contradiction.
    - apply (sm_dh _ _ _ _ S). exact Hl. }
  assert (SM : same_maps v x0).
  { unfold same_maps. rewrite (sm_ph _ _ _ _ S), (sm_pi _ _ _ _ S), Ei, Eh. auto. }
  split.
  - apply (pinv_ext v x0 spE to H0 E SM); auto; [apply S| |apply S|apply I].
    rewrite Et. symmetry. apply Hv.
  - unfold disk_ok. rewrite E. intros Hp.
    destruct (pi_head _ _ _ _ _ P (or_introl Hp)) as [Hdh _].
    pose proof (iv_p _ _ _ _ (proj1 I)) as Pv. unfold ptrs_core in Pv. rewrite E in Pv. destruct Pv as (Pv1 & _).
    rewrite (sm_hd _ _ _ _ S), Pv1 in Hdh. split; auto. apply (pi_tail _ _ _ _ _ P).
Qed.

End race5.

Arguments live_ok c U to s : clear implicits.
Arguments grows to p x : clear implicits.
Arguments GI c U T to ctxf spE x : clear implicits.

(** ** every schedule *)
Fixpoint grows_from (to : N) (p : st) (l : list st) : Prop :=
  match l with
  | [] => True
  | x :: r => grows to p x /\ grows_from to x r
  end.

Section top.
Context {c : N -> hdr} {U : N} {CH : chain_hyps c U}.
Notation inr := (inr U).
Notation inv := (inv c U).

Lemma GI_run T to ctxf spE : inr T -> inr to -> T < to -> forall sch x, GI c U T to ctxf spE x ->
  let tr := run_sched T to ctxf x sch in
  grows_from to (c_st x) (map c_st tr) /\ Forall (GI c U T to ctxf spE) tr.
Proof.
  intros HT Hto Hlt. induction sch as [|a sch IH]; intros x G; cbn [run_sched]; [split; [exact I|constructor]|].
  destruct (step1 T to ctxf a x) as [y|] eqn:St; [|split; [exact I|constructor]].
  pose proof (GI_step1 T to ctxf spE HT Hto Hlt a x y G St) as Gy.
  pose proof (GI_step1_grows T to ctxf spE HT Hto Hlt a x y G St) as Gr.
  destruct (IH y Gy) as [A B]. cbn [map grows_from]. split; [split; auto|constructor; auto].
Qed.

Lemma GI_cfg0 T to s sp H0 qn ctxf : inv s sp -> sHT sp = Some (T, H0) -> to <= H0 ->
  Forall (Forall (hiN U to)) qn ->
  GI c U T to ctxf (fold_left spec_append qn (del T to sp)) (cfg0 s (map (map c) qn)).
Proof.
  intros I E Hle Fq. unfold GI, cfg0. cbn [c_dl c_fl c_st c_q]. split; [reflexivity|].
  exists s, sp, H0, qn, [], false. split_and!; auto; try discriminate; try reflexivity.
  intros n Hn. lia.
Qed.

(** the race, from a state refining a specification state with [Tail = T < to <= Head] *)
Theorem race_run T to ctxf s sp H0 qn : inv s sp -> sHT sp = Some (T, H0) -> T < to -> to <= H0 ->
  Forall (Forall (hiN U to)) qn ->
  forall sch,
  let tr := run_sched T to ctxf (cfg0 s (map (map c) qn)) sch in
  grows_from to s (map c_st tr) /\
  (forall x, In x tr -> live_ok c U to (c_st x)) /\
  (forall x, In x tr -> finished x -> inv (c_st x) (fold_left spec_append qn (del T to sp))).
Proof.
  intros I E Hlt Hle Fq sch tr.
  destruct (inv_TH s sp T H0 (proj1 I) E) as (HT & HH0 & _).
  assert (Hto : inr to) by (destruct HT, HH0; split; lia).
  pose proof (GI_cfg0 T to s sp H0 qn ctxf I E Hle Fq) as G0.
  set (spE := fold_left spec_append qn (del T to sp)) in *.
  destruct (GI_run T to ctxf spE HT Hto Hlt sch _ G0) as [A B]. fold tr in A, B.
  split_and!; auto.
  - intros x Hx. apply (GI_live_ok T to ctxf spE HT Hto Hlt). rewrite Forall_forall in B. auto.
  - intros x Hx Fx. apply (GI_final T to ctxf spE HT Hto Hlt); auto. rewrite Forall_forall in B. auto.
Qed.

(** deleting first and appending afterwards, or the other way round: the same specification state *)
Lemma fold_del_comm T to qn : forall s sp H0, inv s sp -> sHT sp = Some (T, H0) -> T < to -> to <= H0 ->
  Forall (Forall (hiN U to)) qn ->
  fold_left spec_append qn (del T to sp) = del T to (fold_left spec_append qn sp).
Proof.
  induction qn as [|ns r IH]; intros s sp H0 I E Hlt Hle Fq; [reflexivity|].
  pose proof (Forall_inv Fq) as F1. pose proof (Forall_inv_tail Fq) as Fr. cbn [fold_left].
  assert (Fi : Forall inr ns) by (eapply Forall_impl; [|exact F1]; intros n [Hn _]; exact Hn).
  assert (Hge : forall n, In n ns -> to <= n) by (intros n Hn; destruct (FIn _ _ _ F1 Hn); lia).
  rewrite (del_append_comm s sp T H0 to ns (proj1 I) E Hlt Hle Fi Hge).
  destruct (append_inv s sp ns I Fi) as [I' _].
  destruct ns as [|n0 ns'].
  - cbn [spec_append]. apply (IH s sp H0); auto.
  - set (ns := n0 :: ns') in *. assert (Hne : ns <> []) by discriminate.
    assert (Hge' : forall n, In n ns -> T <= n) by (intros n Hn; apply Hge in Hn; lia).
    pose proof (spec_append_HT s sp T H0 ns (proj1 I) E Hne Fi Hge') as ESp. cbv zeta in ESp.
    set (S' := sS sp ∪ list_to_set ns) in *.
    assert (SI : forall m, m ∈ S' -> inr m).
    { intros m. unfold S'. rewrite elem_of_union, elem_of_list_to_set, elem_of_list_In.
      intros [Hm|Hm]; [eapply pinv_SI; eauto; apply I|eapply FIn; eauto]. }
    destruct (inv_TH s sp T H0 (proj1 I) E) as (_ & [_ HH0] & _).
    destruct (run_up_spec U (@ch_bound c U CH) S' SI (Datatypes.S (size S')) H0 HH0) as (A1 & _).
    apply (IH (fst (append s (map c ns))) (spec_append sp ns) (run_up (Datatypes.S (size S')) S' H0)); auto.
    + rewrite ESp. reflexivity.
    + lia.
Qed.

End top.

(** ** starting from the state reached by any history *)
From GH Require Import Oracle.StoreCase Proofs.StoreMainP.

Section hist.
Context {c : N -> hdr} {U : N} {CH : chain_hyps c U}.
Notation inr := (inr U).

(** heights the writers append: in range, above the head *)
Definition above (H : N) (q : list (list N)) : Prop := Forall (Forall (fun n => H < n /\ n <= U)) q.

Lemma above_hiN H to q : to <= H -> above H q -> Forall (Forall (hiN U to)) q.
Proof.
  intros Hle. apply Forall_impl. intros ns. apply Forall_impl. intros n [A B]. split; [split|]; lia.
Qed.

Theorem hist_race b ops T H to ctxf q sch : Forall (op_ok U) ops ->
  sHT (run_spec spec0 ops) = Some (T, H) -> T < to -> to <= H -> above H q ->
  let s := run c (st0 b) ops in
  let tr := map c_st (run_sched T to ctxf (cfg0 s (map (map c) q)) sch) in
  grows_from to s tr /\
  forall x, In x tr ->
    (o_head_by_height (observe17 x) = true /\ o_head_by_hash (observe17 x) = true) /\
    exists Hx, headp x = Some (c Hx) /\ hsh x = Hx /\ to <= Hx /\
      forall n, to <= n <= Hx -> get_by_height x n = Found (c n) /\ get x (h_id (c n)) = Found (c n).
Proof.
  intros F E Hlt Hle Ab s tr. pose proof (history_inv b ops F) as I.
  destruct (race_run T to ctxf s _ H q I E Hlt Hle (above_hiN H to q Hle Ab) sch) as (A & B & _).
  split; [exact A|]. intros x Hx. apply in_map_iff in Hx. destruct Hx as (y & <- & Hy).
  pose proof (B y Hy) as Ck. split.
  - exact (live_ok_torn_free T to Hlt (c_st y) Ck).
  - destruct Ck as (Hx & K1 & K2 & K3 & _ & K5). eauto.
Qed.

Theorem hist_race_final b ops T H to ctxf q sch x : Forall (op_ok U) ops ->
  sHT (run_spec spec0 ops) = Some (T, H) -> T < to -> to <= H -> above H q ->
  let s := run c (st0 b) ops in
  In x (run_sched T to ctxf (cfg0 s (map (map c) q)) sch) -> finished x ->
  inv c U (c_st x) (fold_left spec_append q (del T to (run_spec spec0 ops))).
Proof.
  intros F E Hlt Hle Ab s Hx Fx. pose proof (history_inv b ops F) as I.
  destruct (race_run T to ctxf s _ H q I E Hlt Hle (above_hiN H to q Hle Ab) sch) as (_ & _ & C). auto.
Qed.

Theorem hist_del_comm ops T H to q : Forall (op_ok U) ops ->
  sHT (run_spec spec0 ops) = Some (T, H) -> T < to -> to <= H -> above H q ->
  fold_left spec_append q (del T to (run_spec spec0 ops)) = del T to (fold_left spec_append q (run_spec spec0 ops)).
Proof.
  intros F E Hlt Hle Ab. pose proof (history_inv (c := c) 0 ops F) as I.
  exact (fold_del_comm T to q _ _ H I E Hlt Hle (above_hiN H to q Hle Ab)).
Qed.

(** the shape of the final specification state: Tail = [to], the chain [to, Head'] has no gap,
    nothing of [T, to) is left, everything else that was stored or appended is *)
Theorem hist_final_shape ops T H to q : Forall (op_ok U) ops ->
  sHT (run_spec spec0 ops) = Some (T, H) -> T < to -> to <= H -> above H q ->
  let sp := run_spec spec0 ops in
  let spE := fold_left spec_append q (del T to sp) in
  exists H', sHT spE = Some (to, H') /\ H <= H' /\
    (forall n, to <= n <= H' -> n ∈ sS spE) /\
    (forall n, T <= n < to -> n ∉ sS spE) /\
    (forall n, n ∈ sS spE <-> (n ∈ sS sp \/ exists ns, In ns q /\ In n ns) /\ ~ (T <= n < to)).
Proof.
  intros F E Hlt Hle Ab sp spE. pose proof (history_inv (c := c) 0 ops F) as I. fold sp in I, E.
  pose proof (above_hiN H to q Hle Ab) as Fq.
  assert (Fi : Forall (Forall inr) q).
  { eapply Forall_impl; [|exact Fq]. intros ns. apply Forall_impl. intros n [Hn _]. exact Hn. }
  destruct (inv_TH _ sp T H (proj1 I) E) as (HT & HH & _).
  unfold spE. rewrite (fold_del_comm T to q _ sp H I E Hlt Hle Fq).
  pose proof (seq_run_inv q _ sp I Fi) as Iq. set (spq := fold_left spec_append q sp) in *.
  (* the appends keep the tail and only raise the head *)
  assert (K : forall q0 s0 sp0 H0, inv c U s0 sp0 -> sHT sp0 = Some (T, H0) -> to <= H0 -> Forall (Forall (hiN U to)) q0 ->
              exists H', sHT (fold_left spec_append q0 sp0) = Some (T, H') /\ H0 <= H' /\
              forall n, n ∈ sS (fold_left spec_append q0 sp0) <-> n ∈ sS sp0 \/ exists ns, In ns q0 /\ In n ns).
  { induction q0 as [|ns r IH]; intros s0 sp0 H0 I0 E0 Hle0 Fq0.
    - exists H0. cbn [fold_left]. split; [exact E0|]. split; [lia|]. intros n. split; auto. intros [?|(ns & [] & _)]; auto.
    - pose proof (Forall_inv Fq0) as F1. pose proof (Forall_inv_tail Fq0) as Fr. cbn [fold_left].
      assert (Fi1 : Forall inr ns) by (eapply Forall_impl; [|exact F1]; intros n [Hn _]; exact Hn).
      destruct (append_inv s0 sp0 ns I0 Fi1) as [I1 _].
      destruct ns as [|n0 ns'].
      + cbn [spec_append]. destruct (IH s0 sp0 H0 I0 E0 Hle0 Fr) as (H' & A & B & C). exists H'. split; [exact A|]. split; [exact B|].
        intros n. rewrite C. split; intros [?|(ns & Hin & Hn)]; auto; right.
        * exists ns. split; auto. right; auto.
        * destruct Hin as [<-|Hin]; [destruct Hn|eauto].
      + set (ns := n0 :: ns') in *. assert (Hne : ns <> []) by discriminate.
        assert (Hge : forall n, In n ns -> T <= n) by (intros n Hn; destruct (FIn _ _ _ F1 Hn); lia).
        pose proof (spec_append_HT s0 sp0 T H0 ns (proj1 I0) E0 Hne Fi1 Hge) as ESp. cbv zeta in ESp.
        set (S' := sS sp0 ∪ list_to_set ns) in *.
        assert (SI : forall m, m ∈ S' -> inr m).
        { intros m. unfold S'. rewrite elem_of_union, elem_of_list_to_set, elem_of_list_In.
          intros [Hm|Hm]; [eapply pinv_SI; eauto; apply I0|eapply FIn; eauto]. }
        destruct (inv_TH s0 sp0 T H0 (proj1 I0) E0) as (_ & [_ HH0] & _).
        destruct (run_up_spec U (@ch_bound c U CH) S' SI (Datatypes.S (size S')) H0 HH0) as (A1 & _).
        destruct (IH _ (spec_append sp0 ns) (run_up (Datatypes.S (size S')) S' H0) I1) as (H' & A & B & C); auto.
        { rewrite ESp. reflexivity. } { lia. }
        exists H'. split; [exact A|]. split; [lia|]. intros n. rewrite C, ESp. cbn [sS]. unfold S'.
        rewrite elem_of_union, elem_of_list_to_set, elem_of_list_In. split.
        * intros [[?|?]|(ns1 & Hin & Hn)]; auto; right; [exists ns; split; auto; left; auto|exists ns1; split; auto; right; auto].
        * intros [?|(ns1 & [<-|Hin] & Hn)]; auto. right. eauto. }
  destruct (K q _ sp H I E Hle Fq) as (H' & A & B & C). fold spq in A, C.
  destruct (inv_TH _ spq T H' (proj1 Iq) A) as (_ & HH' & _).
  unfold del. rewrite (spec_delete_tail spq T H' to A Hlt) by (destruct HH'; try lia; pose proof (@ch_bound c U CH); lia).
  cbn [fst sHT sS]. exists H'. split_and!; auto.
  - intros n Hn. apply in_cutS; [lia|]. split; [|lia].
    pose proof (iv_p _ _ _ _ (proj1 Iq)) as P. unfold ptrs_core in P. rewrite A in P.
    destruct P as (_ & _ & _ & _ & P5 & _). apply (iv_S _ _ _ _ (proj1 Iq)). apply P5. lia.
  - intros n Hn Hin. apply in_cutS in Hin; [|lia]. tauto.
  - intros n. rewrite in_cutS by lia. rewrite C. tauto.
Qed.


(** the final state, as a reader and as a restart see it *)
Theorem hist_race_final_obs b ops T H to ctxf q sch x : Forall (op_ok U) ops ->
  sHT (run_spec spec0 ops) = Some (T, H) -> T < to -> to <= H -> above H q ->
  let s := run c (st0 b) ops in
  let spE := fold_left spec_append q (fst (spec_delete (run_spec spec0 ops) T to None)) in
  In x (run_sched T to ctxf (cfg0 s (map (map c) q)) sch) -> finished x ->
  obs_equal c U (c_st x) spE /\
  (forall Tf Hf, sHT spE = Some (Tf, Hf) -> pend_h (c_st x) = ∅ ->
     d_head (c_st x) = Some (h_id (c Hf)) /\ d_tail (c_st x) = Some (h_id (c Tf))) /\
  (exists s', step (c_st x) ORestart = (s', [], Ok) /\ obs_equal c U s' spE) /\
  (exists s', step (c_st x) OReopen = (s', [], Ok) /\ obs_equal c U s' spE).
Proof.
  intros F E Hlt Hle Ab s spE Hx Fx.
  pose proof (hist_race_final b ops T H to ctxf q sch x F E Hlt Hle Ab Hx Fx) as I. fold s in I.
  change (del T to (run_spec spec0 ops)) with (fst (spec_delete (run_spec spec0 ops) T to None)) in I. fold spE in I.
  split_and!.
  - apply pinv_obs. apply I.
  - intros Tf Hf Es Hp. destruct I as [_ DK]. unfold disk_ok in DK. rewrite Es in DK. auto.
  - destruct (restart_refines _ _ I) as (s' & Es & I'). exists s'. split; auto. apply pinv_obs. apply I'.
  - destruct (reopen_refines _ _ I) as (s' & Es & I'). exists s'. split; auto. apply pinv_obs. apply I'.
Qed.

End hist.
