(** Range requests of the sync loop ([c_reqs], the ghost list of Model/Syncer.v): which step issues one, from
    where, and how far it asks.  Used by Props/C07_more.v. *)
From Coq Require Import List NArith Lia ZifyBool ZifyN.
From RecordUpdate Require Import RecordSet.
From GH Require Import Base.Prelude Model.Verify Model.Ranges Model.Syncer Proofs.RangesP Proofs.SyncerP Proofs.SyncerInvP Proofs.SyncerLiveP.
Import ListNotations RecordSetNotations.
Local Open Scope N_scope.

Lemma cons_neq {A} (x : A) (l : list A) : x :: l <> l.
Proof. intros H. apply (f_equal (@length A)) in H. cbn in H. lia. Qed.

(** the arithmetic of requestHeaders: from < to (no wrap: to below 2^64-1) => from < reqTo <= from + 65 *)
Lemma req_to_bounds f to : f < to -> to < two64 - 1 -> f < req_to f to <= f + 65 /\ req_to f to <= to + 1.
Proof.
  intros H1 H2. unfold req_to, req_size, max_req, sub64, wrap64, two64 in *.
  destruct (f <=? to) eqn:E; [|lia].
  assert (Hm : N.min 64 (to - f) <= 64 /\ N.min 64 (to - f) <= to - f /\ 1 <= N.min 64 (to - f)) by lia.
  rewrite (N.mod_small (f + N.min 64 (to - f))) by lia.
  rewrite N.mod_small by lia. lia.
Qed.

Ltac kill_same :=
  match goal with
  | H : _ :: ?l = ?l |- _ => exfalso; exact (cons_neq _ _ H)
  | H : ?l = _ :: ?l |- _ => exfalso; exact (cons_neq _ _ (eq_sym H))
  end.

(** only the request step of the loop pushes onto [c_reqs] *)
Lemma l_step_push a c f t :
  c_reqs (l_step a c) = (f, t) :: c_reqs c ->
  exists k from to, c_loop c = LReq k from to /\ f = h_height from /\ f < to /\ t = req_to f to.
Proof.
  unfold l_step. destruct (c_loop c) as [| |ph|p|from to|from to|k from to|k hs|k hs nh|k hs|oto lst|] eqn:El; intros H.
  - destruct (c_trig c); cbn in H; kill_same.
  - cbn in H; kill_same.
  - cbn in H; kill_same.
  - destruct (h_height p <=? h_height (c_cache c)); [destruct (ranges_remove_upto _ _)|]; cbn in H; kill_same.
  - destruct (ranges_first (c_pend c)); cbn in H; kill_same.
  - destruct (c_pend c) as [|r ?]; [cbn in H; kill_same|].
    destruct (range_get to r) as [[|h0 ?]|]; [| |cbn in H; kill_same]; [cbn in H; kill_same|].
    destruct (wrap64 (h_height from + 1) =? h_height h0); cbn in H; kill_same.
  - destruct (h_height from <? to) eqn:Elt.
    + exists k, from, to. split; [reflexivity|].
      assert (Hr : c_reqs (l_step a c) = (h_height from, req_to (h_height from) to) :: c_reqs c).
      { unfold l_step. rewrite El, Elt. destruct a as [|[|x hs]]; [reflexivity|reflexivity|].
        cbn zeta. destruct (h_height x =? wrap64 (h_height from + 1)); reflexivity. }
      unfold l_step in Hr. rewrite El, Elt in Hr. rewrite Hr in H. injection H as <- <-.
      repeat split; lia.
    + unfold after_req in H. destruct k; cbn in H; kill_same.
  - destruct (shim_check (c_cache c) hs); unfold after_app in H; try destruct k; cbn in H; kill_same.
  - cbn in H; kill_same.
  - unfold after_app in H; destruct k; cbn in H; kill_same.
  - destruct (c_pend c) as [|r ?]; [cbn in H; kill_same|]. destruct (range_remove oto r); cbn in H; kill_same.
  - kill_same.
Qed.

Lemma shim_apply_reqs hs c c1 : shim_apply hs c = Some c1 -> c_reqs c1 = c_reqs c.
Proof. unfold shim_apply. destruct (shim_check (c_cache c) hs); intros H; inversion H; reflexivity. Qed.

Lemma l_astep_push a c f t :
  c_reqs (l_astep a c) = (f, t) :: c_reqs c ->
  exists k from to, c_loop c = LReq k from to /\ f = h_height from /\ f < to /\ t = req_to f to.
Proof.
  unfold l_astep. destruct (c_loop c) eqn:El; try (intros H; apply l_step_push in H; rewrite El in H; exact H).
  destruct (shim_apply hs c) as [c1|] eqn:Es; intros H.
  - pose proof (shim_apply_reqs _ _ _ Es) as Er. unfold after_app in H. destruct k; cbn in H; rewrite Er in H; kill_same.
  - cbn in H. kill_same.
Qed.

Lemma upd_reqs i t c : c_reqs (set_thr i t c) = c_reqs c.
Proof. reflexivity. Qed.

(** learner steps never touch [c_reqs] *)
Lemma t_step_reqs drift tv i c : c_reqs (t_step drift tv i c) = c_reqs c.
Proof.
  unfold t_step. destruct (nth_error (c_thr c) i) as [t|]; [|reflexivity].
  unfold t_body, enter, verdict, t_next.
  repeat (match goal with |- context [match ?x with _ => _ end] => destruct x end); reflexivity.
Qed.

Lemma t_astep_reqs drift tv i c : c_reqs (t_astep drift tv i c) = c_reqs c.
Proof.
  unfold t_astep. destruct (nth_error (c_thr c) i) as [[| | | | |mu res x [| | | | |] rest|]|] eqn:E;
    try (pose proof (t_step_reqs drift tv i c) as H; unfold t_step in H; rewrite E in H; unfold t_step; rewrite E; exact H).
  destruct (shim_apply [x] c) as [c1|] eqn:Es; [|reflexivity].
  rewrite upd_reqs. exact (shim_apply_reqs _ _ _ Es).
Qed.

Lemma astep_push drift tv c e f t :
  c_reqs (astep drift tv c e) = (f, t) :: c_reqs c ->
  exists a k from to, e = EL a /\ c_loop c = LReq k from to /\ f = h_height from /\ f < to /\ t = req_to f to.
Proof.
  destruct e as [h now b|a|a|i]; cbn [astep step]; intros H.
  - cbn in H. kill_same.
  - cbn in H. kill_same.
  - apply l_astep_push in H. destruct H as (k & from & to & H). exists a, k, from, to. split; [reflexivity|exact H].
  - rewrite t_astep_reqs in H. kill_same.
Qed.

(** every range request issued in ANY run (learner calls interleaved at will, arbitrary well-formed inputs) of the
    machine as of /repo 40dc6a8 starts at or below the shim's head - the header the Store was last handed -,
    asks for at least one and at most 64 headers and never beyond the [to] of the attempt *)
Theorem requests_resume drift tv tail c0 es e f t :
  Ainv tail c0 -> Tinv c0 -> Forall (wf_event tail) es ->
  let c := arun drift tv c0 es in
  c_reqs (astep drift tv c e) = (f, t) :: c_reqs c ->
  f <= hc c /\
  exists k from to, c_loop c = LReq k from to /\ f = h_height from /\ f < to /\ t = req_to f to /\
                    (to < two64 - 1 -> f < t <= f + 65 /\ t <= to + 1).
Proof.
  intros HA HT Hw c H. destruct (Ainv_arun drift tv tail es c0 HA HT Hw) as (HA' & _).
  apply astep_push in H. destruct H as (a & k & from & to & _ & El & Ef & Hlt & Et).
  pose proof (a_l tail _ HA') as HL. fold c in HL. unfold Linv in HL. rewrite El in HL. destruct HL as (_ & Hh).
  split; [lia|]. exists k, from, to. repeat split; try assumption; subst t; apply req_to_bounds; assumption.
Qed.
