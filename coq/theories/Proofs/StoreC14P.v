(** C14: the OnDelete handler log of DeleteRange. *)
From Coq Require Import NArith List Bool Lia ZifyBool ZifyN ZifyNat.
From stdpp Require Import gmap.
From GH Require Import Base.Prelude Model.Store Model.StoreSpec Oracle.StoreCase.
From GH Require Import Proofs.StoreP Proofs.StoreClimbP Proofs.StoreInvP Proofs.StoreAppendP.
From GH Require Import Proofs.StoreDeleteP Proofs.StoreDeleteRangeP Proofs.StoreRestartP Proofs.StoreMainP Proofs.StoreC04P Proofs.StoreC08P.
Import ListNotations.
Open Scope N_scope.

(** DeleteRange never panics, whatever the state and the handlers do *)
Lemma delete_synced_never_panics s script nh from to : snd (delete_range_synced s script nh from to) <> Panic.
Proof.
  unfold delete_range_synced. destruct (headp s) as [hd|]; [|cbn; discriminate].
  destruct (tailp s) as [tl|]; [|cbn; discriminate]. cbv zeta.
  destruct (to <=? from); [cbn; discriminate|].
  destruct ((h_height hd <? from) || (to <=? h_height tl)); [cbn; discriminate|].
  destruct (from =? h_height tl); destruct (to =? wrap64 (h_height hd + 1)); cbn [andb negb].
  - destruct (match nb s to with NotFound => true | _ => false end).
    + destruct (delete_seq _ _ _ _ _ _) as [[[s1 lg] a] ok]. destruct ok; cbn; discriminate.
    + destruct (wrap64 (h_height hd + 1) <? to); [cbn; discriminate|].
      destruct (delete_seq _ _ _ _ _ _) as [[[s1 lg] a] ok]. destruct (set_tail s1 a) as [s2 tok].
      destruct (tok && ok); cbn; discriminate.
  - destruct (wrap64 (h_height hd + 1) <? to); [cbn; discriminate|].
    destruct (delete_seq _ _ _ _ _ _) as [[[s1 lg] a] ok]. destruct (set_tail s1 a) as [s2 tok].
    destruct (tok && ok); cbn; discriminate.
  - destruct (from <? h_height tl); [cbn; discriminate|].
    destruct (nb s (from - 1)); try (cbn; discriminate).
    destruct (delete_seq _ _ _ _ _ _) as [[[s1 lg] a'] ok].
    destruct (from <? a').
    + destruct (set_head s1 (from - 1)) as [s2 hok]. destruct (hok && ok); cbn; discriminate.
    + destruct ok; cbn; discriminate.
  - cbn; discriminate.
Qed.

Theorem delete_never_panics s script nh from to : snd (delete_range s script nh from to) <> Panic.
Proof. unfold delete_range. apply delete_synced_never_panics. Qed.

(** ** counting calls *)
Definition is_call (j : nat) (n : N) (x : hobs) : bool := Nat.eqb (ho_handler x) j && (ho_height x =? n).
Definition count_obs (j : nat) (n : N) (l : list hobs) : nat := length (List.filter (is_call j n) l).
(** number of calls of handler [j] for height [n] in a log *)
Definition count_call (j : nat) (n : N) (l : list hcall) : nat :=
  length (List.filter (fun x => Nat.eqb (hc_handler x) j && (hc_height x =? n)) l).

Lemma count_call_obs j n l : count_call j n l = count_obs j n (map to_hobs l).
Proof.
  unfold count_call, count_obs. induction l as [|x l IH]; cbn; auto.
  unfold is_call at 1. cbn. destruct (_ && _); cbn; auto.
Qed.

Lemma count_obs_app j n l1 l2 : count_obs j n (l1 ++ l2) = (count_obs j n l1 + count_obs j n l2)%nat.
Proof. unfold count_obs. rewrite filter_app, app_length. reflexivity. Qed.

Lemma count_obs_handlers j n m r : forall cnt a,
  count_obs j n (map (fun k => HObs k m r) (seq a cnt)) =
  if (m =? n) && (a <=? j)%nat && (j <? a + cnt)%nat then 1%nat else 0%nat.
Proof.
  induction cnt as [|cnt IH]; intros a.
  - cbn [seq map]. change (count_obs j n []) with 0%nat.
    destruct (m =? n); cbn [andb]; auto. destruct (Nat.leb_spec a j), (Nat.ltb_spec j (a + 0)); cbn [andb]; auto; lia.
  - cbn [seq map]. change (count_obs j n (?x :: ?l)) with (count_obs j n ([x] ++ l)).
    rewrite count_obs_app, IH. unfold count_obs at 1. cbn [List.filter]. unfold is_call.
    cbn [ho_handler ho_height].
    destruct (N.eqb_spec m n); cbn [andb]; [|rewrite andb_false_r; reflexivity].
    rewrite andb_true_r.
    destruct (Nat.eqb_spec a j), (Nat.leb_spec (S a) j), (Nat.ltb_spec j (S a + cnt)),
      (Nat.leb_spec a j), (Nat.ltb_spec j (a + S cnt)); cbn [andb length Nat.add]; auto; lia.
Qed.

Lemma count_obs_flat (S : gset N) nh j n : forall cnt from,
  count_obs j n (flat_map (fun m => if bool_decide (m ∈ S) then map (fun k => HObs k m true) (seq 0 nh) else [])
                          (seqN from cnt)) =
  if bool_decide (n ∈ S) && (from <=? n) && (n <? from + N.of_nat cnt) && (j <? nh)%nat then 1%nat else 0%nat.
Proof.
  induction cnt as [|cnt IH]; intros from.
  - cbn [seqN flat_map]. change (count_obs j n []) with 0%nat.
    destruct (N.leb_spec from n), (N.ltb_spec n (from + N.of_nat 0)); try lia;
      rewrite ?andb_false_r; cbn [andb]; auto.
  - cbn [seqN flat_map]. rewrite count_obs_app, IH.
    destruct (bool_decide_reflect (from ∈ S)) as [Hf|Hf].
    + rewrite count_obs_handlers. cbn [Nat.leb Nat.add].
      destruct (N.eqb_spec from n) as [->|Hne].
      * rewrite (bool_decide_eq_true_2 _ Hf). cbn [andb].
        destruct (N.leb_spec (n + 1) n); [lia|]. cbn [andb].
        destruct (N.leb_spec n n); [|lia]. destruct (N.ltb_spec n (n + N.of_nat (Datatypes.S cnt))); [|lia].
        cbn [andb]. destruct (j <? nh)%nat; reflexivity.
      * cbn [andb]. destruct (bool_decide (n ∈ S)); cbn [andb]; auto.
        destruct (N.leb_spec (from + 1) n), (N.ltb_spec n (from + 1 + N.of_nat cnt)),
          (N.leb_spec from n), (N.ltb_spec n (from + N.of_nat (Datatypes.S cnt))); cbn [andb]; auto; lia.
    + change (count_obs j n []) with 0%nat. cbn [Nat.add].
      destruct (bool_decide_reflect (n ∈ S)) as [Hn|Hn]; cbn [andb]; auto.
      assert (from <> n) by congruence.
      destruct (N.leb_spec (from + 1) n), (N.ltb_spec n (from + 1 + N.of_nat cnt)),
        (N.leb_spec from n), (N.ltb_spec n (from + N.of_nat (Datatypes.S cnt))); cbn [andb]; auto; lia.
Qed.

(** every handler is called exactly once for every stored height below the stopping point *)
Lemma count_expected_log S nh fails from to stop j n :
  (forall k, stop = Some k -> from <= k) ->
  n ∈ S -> from <= n < upto_of to stop -> (j < nh)%nat ->
  count_obs j n (expected_log S nh fails from to stop) = 1%nat.
Proof.
  intros Hstop Hn Hr Hj. unfold expected_log. fold (upto_of to stop).
  rewrite count_obs_app, count_obs_flat. rewrite (bool_decide_eq_true_2 _ Hn).
  destruct (N.leb_spec from n); [|lia]. destruct (N.ltb_spec n (from + N.of_nat (N.to_nat (upto_of to stop - from)))); [|lia].
  destruct (Nat.ltb_spec j nh); [|lia]. cbn [andb].
  destruct stop as [k|]; [|reflexivity]. rewrite count_obs_handlers.
  cbn [upto_of] in Hr. destruct (N.eqb_spec k n); [lia|]. reflexivity.
Qed.

(** at the stopping height the handlers up to the first failing one are called once *)
Lemma count_expected_log_stop S nh fails from to k j :
  from <= k ->
  count_obs j k (expected_log S nh fails from to (Some k)) =
  if (j <=? first_failing_handler nh fails k)%nat then 1%nat else 0%nat.
Proof.
  intros Hk. unfold expected_log. rewrite count_obs_app, count_obs_flat, count_obs_handlers.
  destruct (N.ltb_spec k (from + N.of_nat (N.to_nat (k - from)))); [lia|].
  rewrite andb_false_r. cbn [andb Nat.add]. rewrite N.eqb_refl. cbn [andb Nat.leb].
  destruct (Nat.ltb_spec j (Datatypes.S (first_failing_handler nh fails k))),
    (Nat.leb_spec j (first_failing_handler nh fails k)); auto; lia.
Qed.

Lemma in_expected_log S nh fails from to stop x :
  (forall k, stop = Some k -> k ∈ S /\ from <= k < to /\ fails_at nh fails k = true) ->
  In x (expected_log S nh fails from to stop) ->
  ho_readable x = true /\ ho_height x ∈ S /\ from <= ho_height x < to /\ (ho_handler x < nh)%nat /\
  (ho_height x < upto_of to stop \/ stop = Some (ho_height x)).
Proof.
  intros Hstop. unfold expected_log. fold (upto_of to stop). rewrite in_app_iff. intros [Hin|Hin].
  - apply in_flat_map in Hin. destruct Hin as (m & Hm & Hin). apply (proj1 (in_seqN _ _ _)) in Hm.
    destruct (bool_decide_reflect (m ∈ S)) as [HmS|]; [|destruct Hin].
    apply in_map_iff in Hin. destruct Hin as (k & <- & Hk). apply in_seq in Hk. cbn.
    assert (upto_of to stop <= to).
    { unfold upto_of. destruct stop as [k0|]; [destruct (Hstop k0 eq_refl) as (_ & ? & _)|]; lia. }
    split_and!; auto; try lia; left; lia.
  - destruct stop as [k|]; [|destruct Hin]. destruct (Hstop k eq_refl) as (HkS & Hkr & Hf).
    apply in_map_iff in Hin. destruct Hin as (j & <- & Hj). apply in_seq in Hj. cbn.
    rewrite fails_at_ffh, <- ffh_first in Hf. apply Nat.ltb_lt in Hf.
    split_and!; auto; try lia.
Qed.

Lemma find_seqN_first (p : N -> bool) : forall cnt from n,
  from <= n < from + N.of_nat cnt ->
  match find p (seqN from cnt) with Some k => n < k | None => True end -> p n = false.
Proof.
  induction cnt as [|cnt IH]; intros from n Hn Hf; [lia|].
  cbn [seqN find] in Hf. destruct (p from) eqn:Ep; [lia|].
  destruct (N.eq_dec n from) as [->|]; auto. apply (IH (from + 1)); auto. lia.
Qed.

Lemma hfails_fails_at nh fails j n : (j < nh)%nat -> fails_at nh fails n = false -> hfails fails j n = false.
Proof.
  intros Hj Hf. destruct (hfails fails j n) eqn:E; auto. exfalso.
  unfold hfails in E. apply existsb_exists in E. destruct E as (f & Hin & Hp).
  apply andb_true_iff in Hp. destruct Hp as [Hp1 Hp2]. apply Nat.eqb_eq in Hp1.
  assert (fails_at nh fails n = true); [|congruence].
  unfold fails_at. apply existsb_exists. exists f. split; auto. rewrite Hp2, andb_true_r.
  apply Nat.ltb_lt. lia.
Qed.

Section hist.
Context {c : N -> hdr} {U : N} {CH : chain_hyps c U}.
Notation inr := (inr U).
Notation pinv := (pinv c U).
Notation inv := (inv c U).

Variables (b : N) (ops : list iop).
Hypothesis F : Forall (op_ok U) ops.
Let s := run c (st0 b) ops.
Let sp := run_spec spec0 ops.
Let I : inv s sp := history_inv b ops F.

Lemma rej' from to nh fails :
  (headp s = None \/
   exists hd tl, headp s = Some hd /\ tailp s = Some tl /\ ~ valid_shape (h_height tl) (h_height hd) from to) ->
  delete_range s (script_of fails) nh from to = (sync s, [], Fail).
Proof. exact (hist_delete_rejects b ops F from to nh fails). Qed.

Lemma val' from to nh fails hd tl :
  headp s = Some hd -> tailp s = Some tl -> valid_shape (h_height tl) (h_height hd) from to ->
  let T := h_height tl in let H := h_height hd in
  let stop := fail_height (sS sp) nh fails from to in
  let sp' := fst (spec_delete sp from to stop) in
  hd = c H /\ tl = c T /\ sHT sp = Some (T, H) /\
  exists s' log,
    delete_range s (script_of fails) nh from to = (s', log, okf stop) /\
    inv s' sp' /\
    map to_hobs log = expected_log (sS sp) nh fails from to stop /\
    sS sp' = cut (sS sp) from (upto_of to stop) /\
    (forall k, stop = Some k -> from <= k < to /\ k ∈ sS sp) /\
    sHT sp' = (if from =? T then
                 if to =? H + 1 then match stop with None => None | Some k => Some (k, H) end
                 else Some (upto_of to stop, H)
               else Some (T, if from <? upto_of to stop then from - 1 else H)).
Proof. exact (hist_delete_valid b ops F from to nh fails hd tl). Qed.

(** a delete on a history state is either rejected without effect or follows the specification *)
Lemma hist_delete_cases from to nh fails s' log out :
  delete_range s (script_of fails) nh from to = (s', log, out) ->
  (s' = sync s /\ log = [] /\ out = Fail) \/
  (exists hd tl, headp s = Some hd /\ tailp s = Some tl /\ valid_shape (h_height tl) (h_height hd) from to /\
     let stop := fail_height (sS sp) nh fails from to in
     let sp' := fst (spec_delete sp from to stop) in
     out = okf stop /\ inv s' sp' /\ map to_hobs log = expected_log (sS sp) nh fails from to stop /\
     sS sp' = cut (sS sp) from (upto_of to stop) /\
     (forall k, stop = Some k -> k ∈ sS sp /\ from <= k < to /\ fails_at nh fails k = true)).
Proof.
  intros E.
  destruct (pinv_ptrs s sp (proj1 I)) as [(E1 & _)|(T & H & EHT & E1 & E2 & _ & _ & _ & _ & ET & EH & _)].
  { rewrite (rej' from to nh fails (or_introl E1)) in E. injection E as <- <- <-. auto. }
  destruct (valid_shape_dec T H from to) as [V|NV].
  - right. exists (c H), (c T). rewrite ET, EH. split_and!; auto. rewrite <- ET, <- EH in V.
    destruct (val' from to nh fails _ _ E1 E2 V) as (_ & _ & _ & s1 & log1 & E' & I' & EL & ES & Hst & _).
    rewrite E in E'. injection E' as <- <- ->. cbv zeta. split_and!; auto.
    intros k Hk. rewrite fail_height_fh in Hk. apply fh_some in Hk.
    destruct Hk as (A & B & C). split_and!; auto; unfold valid_shape in V; lia.
  - left. rewrite (rej' from to nh fails) in E.
    + injection E as <- <- <-. auto.
    + right. exists (c H), (c T). rewrite ET, EH. auto.
Qed.

Theorem hist_handlers_once from to nh fails s' log out :
  delete_range s (script_of fails) nh from to = (s', log, out) ->
  forall n, get_by_height s n = Found (c n) -> (forall h, get_by_height s' n <> Found h) ->
  forall j, (j < nh)%nat -> count_call j n log = 1%nat /\ script_of fails j n = HOk.
Proof.
  intros E n Hb Ha j Hj.
  destruct (hist_delete_cases from to nh fails s' log out E) as [(-> & _)|(hd & tl & _ & _ & V & D)].
  { exfalso. apply (Ha (c n)).
    rewrite (obs_gbh (sync s) sp n (proj1 (proj1 (StoreRestartP.sync_inv s sp I)))), <- (obs_gbh s sp n (proj1 I)). exact Hb. }
  cbv zeta in D. destruct D as (_ & I' & EL & ES & Hst).
  assert (HnS : n ∈ sS sp).
  { rewrite (obs_gbh s sp n (proj1 I)) in Hb. unfold spec_gbh in Hb. destruct (n =? 0); [discriminate|].
    destruct (bool_decide_reflect (n ∈ sS sp)); auto. destruct (n <=? spec_height sp); discriminate. }
  assert (Hi : inr n) by (apply (stored_inr s n (iv_m _ _ _ _ (proj1 I))), (iv_S _ _ _ _ (proj1 I)); auto).
  assert (Hcut : from <= n < upto_of to (fail_height (sS sp) nh fails from to)).
  { destruct (N.le_gt_cases from n) as [A|A];
      [destruct (N.lt_ge_cases n (upto_of to (fail_height (sS sp) nh fails from to))) as [B|B]; [lia|]|];
      exfalso; apply (Ha (c n));
      rewrite (obs_gbh s' _ n (proj1 I')); unfold spec_gbh; destruct Hi; (destruct (N.eqb_spec n 0); [lia|]);
      rewrite bool_decide_eq_true_2; auto; rewrite ES, elem_of_cut; split; auto; lia. }
  split.
  - rewrite count_call_obs, EL. apply count_expected_log; auto.
    intros k Hk. destruct (Hst k Hk) as (_ & ? & _). lia.
  - apply script_of_ok. apply (hfails_fails_at nh); auto.
    assert (P : (bool_decide (n ∈ sS sp) && fails_at nh fails n) = false).
    { apply (find_seqN_first (fun m => bool_decide (m ∈ sS sp) && fails_at nh fails m) (N.to_nat (to - from)) from n).
      - unfold upto_of in Hcut. destruct (fail_height _ _ _ _ _) as [k|] eqn:Ef; [destruct (Hst k eq_refl) as (_ & ? & _)|]; lia.
      - change (find _ _) with (fail_height (sS sp) nh fails from to). unfold upto_of in Hcut.
        destruct (fail_height _ _ _ _ _); auto. lia. }
    rewrite (bool_decide_eq_true_2 _ HnS) in P. exact P.
Qed.

Theorem hist_calls_readable from to nh fails s' log out :
  delete_range s (script_of fails) nh from to = (s', log, out) ->
  forall x, In x log ->
  hc_readable x = true /\ (hc_handler x < nh)%nat /\ from <= hc_height x < to /\
  get_by_height s (hc_height x) = Found (c (hc_height x)) /\
  ((forall h, get_by_height s' (hc_height x) <> Found h) \/ out = Fail).
Proof.
  intros E x Hx.
  destruct (hist_delete_cases from to nh fails s' log out E) as [(_ & -> & _)|(hd & tl & _ & _ & V & D)]; [destruct Hx|].
  cbv zeta in D. destruct D as (Eo & I' & EL & ES & Hst).
  assert (Hx' : In (to_hobs x) (expected_log (sS sp) nh fails from to (fail_height (sS sp) nh fails from to)))
    by (rewrite <- EL; apply in_map; auto).
  apply in_expected_log in Hx'; auto. destruct x as [j n r]. cbn in Hx'. cbn.
  destruct Hx' as (A1 & A2 & A3 & A4 & A5). split; [auto|]. split; [auto|]. split; [auto|]. split.
  - apply gbh_stored.
    + exact (iv_m _ _ _ _ (proj1 I)).
    + apply pstored_pchain; [exact (iv_m _ _ _ _ (proj1 I))|exact (inv_pstored s sp (proj1 I))].
    + apply (iv_S _ _ _ _ (proj1 I)). auto.
  - destruct A5 as [A5|A5].
    + left. apply (not_stored_reads s' _ n (proj1 I')). rewrite ES, elem_of_cut. intros [_ B]. lia.
    + right. rewrite Eo, A5. reflexivity.
Qed.

Theorem hist_failure_keeps_header from to nh fails s' log hd tl :
  headp s = Some hd -> tailp s = Some tl -> valid_shape (h_height tl) (h_height hd) from to ->
  delete_range s (script_of fails) nh from to = (s', log, Fail) ->
  exists k j, from <= k < to /\ (j < nh)%nat /\ script_of fails j k <> HOk /\
    get_by_height s' k = Found (c k) /\ get s' (h_id (c k)) = Found (c k) /\
    (forall i, count_call i k log = if (i <=? j)%nat then 1%nat else 0%nat) /\
    (forall n, from <= n < k -> forall h, get_by_height s' n <> Found h).
Proof.
  intros Hhd Htl V E.
  destruct (hist_delete_cases from to nh fails s' log Fail E) as [(-> & -> & _)|(hd' & tl' & _ & _ & _ & D)].
  { exfalso.
    destruct (val' from to nh fails hd tl Hhd Htl V) as (_ & _ & _ & s1 & log1 & E' & I' & _ & ES & Hst & _).
    rewrite E in E'. injection E' as <- <- Eo.
    destruct (fail_height (sS sp) nh fails from to) as [k|] eqn:Ef; [|discriminate].
    destruct (Hst k eq_refl) as [A B].
    (* the failing height is stored in s but handlers ran: the log cannot be empty *)
    pose proof (delete_valid s sp fails nh from to) as DV. clear DV.
    destruct (val' from to nh fails hd tl Hhd Htl V) as (_ & _ & _ & s2 & log2 & E2 & _ & EL & _).
    rewrite E in E2. injection E2 as _ <- _. rewrite Ef in EL.
    pose proof (count_expected_log_stop (sS sp) nh fails from to k 0%nat (proj1 A)) as C.
    rewrite <- EL in C. cbn in C. discriminate. }
  cbv zeta in D. destruct D as (Eo & I' & EL & ES & Hst).
  destruct (fail_height (sS sp) nh fails from to) as [k|] eqn:Ef; [|discriminate].
  destruct (Hst k eq_refl) as (HkS & Hkr & Hf). cbn [upto_of] in *.
  set (j := first_failing_handler nh fails k).
  assert (Hj : (j < nh)%nat) by (unfold j; rewrite fails_at_ffh, <- ffh_first in Hf; apply Nat.ltb_lt in Hf; auto).
  assert (Hk' : k ∈ sS (fst (spec_delete sp from to (Some k)))) by (rewrite ES, elem_of_cut; split; auto; lia).
  assert (Hi : inr k) by (apply (stored_inr s k (iv_m _ _ _ _ (proj1 I))), (iv_S _ _ _ _ (proj1 I)); auto).
  exists k, j. split; [exact Hkr|]. split; [exact Hj|]. split; [|split; [|split; [|split]]].
  - apply script_of_fail. unfold j. rewrite ffh_first.
    destruct (ffh_spec fails k nh 0) as (_ & _ & C). apply C. cbn [Nat.add]. rewrite <- ffh_first. exact Hj.
  - rewrite (obs_gbh s' _ k (proj1 I')). unfold spec_gbh. destruct Hi. destruct (N.eqb_spec k 0); [lia|].
    rewrite (bool_decide_eq_true_2 _ Hk'). reflexivity.
  - rewrite (obs_get s' _ k (proj1 I') Hi). unfold spec_get. rewrite (bool_decide_eq_true_2 _ Hk'). reflexivity.
  - intros i. rewrite count_call_obs, EL. apply count_expected_log_stop. lia.
  - intros n Hn. apply (not_stored_reads s' _ n (proj1 I')). rewrite ES, elem_of_cut. intros [_ B]. lia.
Qed.

Theorem hist_retry_calls_again from to nh fails s1 log1 hd tl :
  headp s = Some hd -> tailp s = Some tl -> from = h_height tl ->
  valid_shape (h_height tl) (h_height hd) from to ->
  delete_range s (script_of fails) nh from to = (s1, log1, Fail) ->
  exists k, from <= k < to /\ tailp s1 = Some (c k) /\
    forall nh' fails', no_fail_in fails' k to ->
    exists s2 log2, delete_range s1 (script_of fails') nh' k to = (s2, log2, Ok) /\
      forall j, (j < nh')%nat -> count_call j k log2 = 1%nat.
Proof.
  intros Hhd Htl Hfrom V E.
  destruct (val' from to nh fails hd tl Hhd Htl V) as (Ehd & Etl & EHT & s' & log & E' & I' & _ & ES & Hst & EHT').
  rewrite E in E'. injection E' as <- <- Hok.
  destruct (fail_height (sS sp) nh fails from to) as [k|] eqn:Ef; [|discriminate].
  destruct (Hst k eq_refl) as [Hk1 Hk2]. cbn [upto_of] in *.
  rewrite Hfrom, N.eqb_refl in EHT'. rewrite <- Hfrom in *.
  set (sp1 := fst (spec_delete sp from to (Some k))) in *.
  assert (EHT1 : sHT sp1 = Some (k, h_height hd)) by (destruct (to =? h_height hd + 1); auto).
  assert (Hk3 : k ∈ sS sp1) by (rewrite ES, elem_of_cut; split; auto; lia).
  exists k. split; [exact Hk1|]. split.
  - rewrite (obs_tail s1 sp1 (proj1 I')), EHT1. reflexivity.
  - intros nh' fails' NF.
    assert (V1 : valid_shape k (h_height hd) k to) by (unfold valid_shape in *; left; lia).
    destruct (delete_valid s1 sp1 fails' nh' k to k (h_height hd) I' EHT1 V1) as (s2 & log2 & E2 & I2 & EL2 & _).
    rewrite (fail_height_none _ _ _ _ _ NF) in *. cbn [okf upto_of] in *.
    exists s2, log2. split; auto. intros j Hj.
    rewrite count_call_obs, EL2. apply count_expected_log; auto; [discriminate|cbn; lia].
Qed.

End hist.
