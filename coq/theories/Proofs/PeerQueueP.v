(** Proofs about Model/PeerQueue.v: the binary heap of container/heap over peerStats, and the
    token/heap pairing of peerQueue under every interleaving. *)
From Coq Require Import List ZArith NArith Bool Arith Lia Permutation.
From GH Require Import Base.Prelude Model.PeerQueue.
Import ListNotations.
Local Open Scope nat_scope.

(** * lists: set_nth, swap *)

Lemma set_nth_length {A} i (x : A) l : length (set_nth i x l) = length l.
Proof. revert i; induction l as [|a l IH]; intros [|i]; simpl; auto. Qed.

Lemma nth_set_nth {A} (d : A) i x l k :
  i < length l -> nth k (set_nth i x l) d = if k =? i then x else nth k l d.
Proof.
  revert i k; induction l as [|a l IH]; intros i k Hi; simpl in *; [lia|].
  destruct i, k; simpl; auto. apply IH. lia.
Qed.

Lemma nth_error_set_nth {A} i (x : A) l : i < length l -> nth_error (set_nth i x l) i = Some x.
Proof. revert i; induction l as [|a l IH]; intros [|i] Hi; simpl in *; try lia; auto. apply IH; lia. Qed.

Lemma swap_length l i j : length (swap l i j) = length l.
Proof. unfold swap. now rewrite !set_nth_length. Qed.

Lemma at_swap l i j k : i < length l -> j < length l ->
  at_ (swap l i j) k = if k =? j then at_ l i else if k =? i then at_ l j else at_ l k.
Proof.
  intros Hi Hj. unfold swap, at_. rewrite nth_set_nth by (rewrite set_nth_length; lia).
  destruct (k =? j); auto. rewrite nth_set_nth by lia. reflexivity.
Qed.

Lemma set_nth_perm {A} (d : A) i x l :
  i < length l -> Permutation (x :: l) (nth i l d :: set_nth i x l).
Proof.
  revert i; induction l as [|a l IH]; intros i Hi; simpl in *; [lia|].
  destruct i; simpl; [apply perm_swap|].
  eapply perm_trans; [apply perm_swap|].
  eapply perm_trans; [apply perm_skip; apply (IH i); lia|]. apply perm_swap.
Qed.

Lemma swap_perm l i j : i < length l -> j < length l -> Permutation (swap l i j) l.
Proof.
  intros Hi Hj. unfold swap.
  pose proof (set_nth_perm dflt i (at_ l j) l Hi) as P1.
  assert (Hj' : j < length (set_nth i (at_ l j) l)) by (rewrite set_nth_length; lia).
  pose proof (set_nth_perm dflt j (at_ l i) _ Hj') as P2.
  rewrite nth_set_nth in P2 by lia.
  assert (E : (if j =? i then at_ l j else nth j l dflt) = at_ l j)
    by (destruct (Nat.eqb_spec j i); subst; reflexivity).
  rewrite E in P2. symmetry. eapply Permutation_cons_inv with (a := at_ l j).
  eapply perm_trans; [exact P1 | exact P2].
Qed.

Lemma last_at (l : list entry) : l <> [] -> last l dflt = at_ l (length l - 1).
Proof.
  induction l as [|a l IH]; intros H; [congruence|].
  destruct l as [|b l]; [reflexivity|].
  change (last (a :: b :: l) dflt) with (last (b :: l) dflt). rewrite IH by congruence.
  unfold at_. simpl. rewrite Nat.sub_0_r. reflexivity.
Qed.

Lemma removelast_len {A} (l : list A) : length (removelast l) = length l - 1.
Proof.
  induction l as [|a l IH]; [reflexivity|]. destruct l as [|b l]; [reflexivity|].
  change (removelast (a :: b :: l)) with (a :: removelast (b :: l)). simpl length in *. lia.
Qed.

Lemma at_removelast (l : list entry) k : k < length l - 1 -> at_ (removelast l) k = at_ l k.
Proof.
  revert k; induction l as [|a l IH]; intros k Hk; [simpl in Hk; lia|].
  destruct l as [|b l]; [simpl in Hk; lia|].
  change (removelast (a :: b :: l)) with (a :: removelast (b :: l)).
  destruct k; [reflexivity|]. unfold at_ in *. simpl nth. apply IH. simpl in *. lia.
Qed.

Lemma removelast_last_perm (l : list entry) : l <> [] -> Permutation l (last l dflt :: removelast l).
Proof.
  intros H. rewrite (app_removelast_last dflt H) at 1. symmetry. apply Permutation_cons_append.
Qed.

(** * index arithmetic *)
Ltac divfacts j :=
  pose proof (Nat.div_mod (j - 1) 2 ltac:(lia));
  pose proof (Nat.mod_upper_bound (j - 1) 2 ltac:(lia)).

Lemma parent_child k : 0 < k -> is_child k ((k - 1) / 2).
Proof. intro. unfold is_child. divfacts k. lia. Qed.

Lemma parent_lt k : 0 < k -> (k - 1) / 2 < k.
Proof. intro. divfacts k. lia. Qed.

Lemma parent_zero : (0 - 1) / 2 = 0.
Proof. reflexivity. Qed.

(** * up *)
Lemma up_f_length f : forall l j, length (up_f f l j) = length l.
Proof.
  induction f as [|f IH]; intros l j; [reflexivity|]. cbn [up_f]. cbv zeta.
  destruct (_ || _); [reflexivity|]. rewrite IH. apply swap_length.
Qed.

Lemma up_f_perm f : forall l j, j < length l -> Permutation (up_f f l j) l.
Proof.
  induction f as [|f IH]; intros l j Hj; [reflexivity|]. cbn [up_f]. cbv zeta.
  destruct (Nat.eqb_spec ((j - 1) / 2) j) as [E|NE]; cbn [orb]; [reflexivity|].
  destruct (negb _); [reflexivity|].
  assert (0 < j) by (destruct j; [exfalso; apply NE; reflexivity|lia]).
  pose proof (parent_lt j H).
  eapply perm_trans; [apply IH; rewrite swap_length; lia|]. apply swap_perm; lia.
Qed.

Lemma up_fuel_irrelevant : forall f1 f2 l j, j < f1 -> j < f2 -> up_f f1 l j = up_f f2 l j.
Proof.
  induction f1 as [|f1 IH]; intros f2 l j H1 H2; [lia|]. destruct f2 as [|f2]; [lia|].
  cbn [up_f]. cbv zeta.
  destruct (Nat.eqb_spec ((j - 1) / 2) j) as [E|NE]; cbn [orb]; [reflexivity|].
  destruct (negb _); [reflexivity|].
  assert (0 < j) by (destruct j; [exfalso; apply NE; reflexivity|lia]).
  pose proof (parent_lt j H). apply IH; lia.
Qed.

Definition up_inv (l : list entry) (j : nat) : Prop :=
  j < length l /\
  (forall p c, c < length l -> is_child c p -> c <> j -> (sc (at_ l c) <= sc (at_ l p))%Z) /\
  (forall c g, c < length l -> is_child c j -> is_child j g -> (sc (at_ l c) <= sc (at_ l g))%Z).

Lemma up_f_heap : forall f l j, j < f -> up_inv l j -> heap_ok (up_f f l j).
Proof.
  induction f as [|f IH]; intros l j Hf (Hj & Ha & Hb); [lia|].
  cbn [up_f]. cbv zeta. set (i := (j - 1) / 2).
  destruct (Nat.eqb_spec i j) as [E|NE]; cbn [orb].
  - assert (j = 0) by (destruct j; [reflexivity|]; pose proof (parent_lt (S j) ltac:(lia)); subst i; lia).
    intros p c Hc Hch. apply Ha; auto. unfold is_child in Hch; lia.
  - assert (Hj0 : 0 < j) by (destruct j; [exfalso; apply NE; reflexivity|lia]).
    pose proof (parent_child j Hj0) as Hji. fold i in Hji.
    assert (Hi : i < length l) by (unfold is_child in Hji; lia).
    unfold less. destruct (Z.ltb_spec (sc (at_ l i)) (sc (at_ l j))) as [Hlt|Hge]; cbn [negb].
    + apply IH; [unfold is_child in Hji; lia|].
      split; [rewrite swap_length; exact Hi|]. rewrite swap_length. split.
      * intros p c Hc Hch Hci. rewrite !at_swap by assumption.
        destruct (Nat.eqb_spec c j) as [Ecj|Hcj].
        -- subst c. assert (p = i) by (unfold is_child in *; lia). subst p.
           destruct (Nat.eqb_spec i j); [lia|]. rewrite Nat.eqb_refl. lia.
        -- destruct (Nat.eqb_spec c i); [lia|].
           destruct (Nat.eqb_spec p j) as [Epj|Hpj].
           ++ subst p. apply (Hb c i); assumption.
           ++ destruct (Nat.eqb_spec p i) as [Epi|Hpi].
              ** subst p. specialize (Ha i c Hc Hch Hcj). lia.
              ** apply Ha; assumption.
      * intros c g Hc Hch Hig. rewrite !at_swap by assumption.
        assert (g <> i /\ g <> j) as [Hgi Hgj] by (unfold is_child in *; lia).
        destruct (Nat.eqb_spec g j); [lia|]. destruct (Nat.eqb_spec g i); [lia|].
        assert (Hig' : (sc (at_ l i) <= sc (at_ l g))%Z) by (apply Ha; [lia|assumption|lia]).
        destruct (Nat.eqb_spec c j) as [Ecj|Hcj]; [exact Hig'|].
        destruct (Nat.eqb_spec c i); [unfold is_child in *; lia|].
        specialize (Ha i c Hc Hch Hcj). lia.
    + intros p c Hc Hch. rewrite up_f_length in Hc || idtac.
      destruct (Nat.eq_dec c j) as [Ecj|Hcj].
      * subst c. assert (p = i) by (unfold is_child in *; lia). subst p. lia.
      * apply Ha; assumption.
Qed.

(** * down *)
Lemma down_f_length f : forall l i n, length (down_f f l i n) = length l.
Proof.
  induction f as [|f IH]; intros l i n; [reflexivity|]. cbn [down_f]. cbv zeta.
  destruct (n <=? 2 * i + 1); [reflexivity|]. destruct (negb _); [reflexivity|].
  rewrite IH. apply swap_length.
Qed.

(** the child [down] picks *)
Lemma down_pick l i n :
  2 * i + 1 < n ->
  let j1 := 2 * i + 1 in
  let j := if (j1 + 1 <? n) && less l (j1 + 1) j1 then j1 + 1 else j1 in
  i < j /\ j < n /\ is_child j i /\
  (forall c, c < n -> is_child c i -> (sc (at_ l c) <= sc (at_ l j))%Z).
Proof.
  intros Hn j1 j. subst j. unfold less.
  destruct (Nat.ltb_spec (j1 + 1) n) as [H2|H2]; cbn [andb].
  - destruct (Z.ltb_spec (sc (at_ l j1)) (sc (at_ l (j1 + 1)))) as [Hlt|Hge].
    + repeat split; try (subst j1; unfold is_child; lia).
      intros c Hc [Ec|Ec]; subst c.
      * fold j1. lia.
      * replace (2 * i + 2) with (j1 + 1) by (subst j1; lia). lia.
    + repeat split; try (subst j1; unfold is_child; lia).
      intros c Hc [Ec|Ec]; subst c.
      * fold j1. lia.
      * replace (2 * i + 2) with (j1 + 1) by (subst j1; lia). lia.
  - repeat split; try (subst j1; unfold is_child; lia).
    intros c Hc [Ec|Ec]; subst c; [fold j1; lia|subst j1; lia].
Qed.

Lemma down_f_perm f : forall l i n, n <= length l -> Permutation (down_f f l i n) l.
Proof.
  induction f as [|f IH]; intros l i n Hn; [reflexivity|]. cbn [down_f]. cbv zeta.
  destruct (Nat.leb_spec n (2 * i + 1)) as [H1|H1]; [reflexivity|].
  destruct (down_pick l i n H1) as (Hij & Hjn & _ & _).
  destruct (negb _); [reflexivity|].
  eapply perm_trans; [apply IH; rewrite swap_length; lia|]. apply swap_perm; lia.
Qed.

Lemma down_f_at_ge f : forall l i n k, n <= length l -> n <= k -> at_ (down_f f l i n) k = at_ l k.
Proof.
  induction f as [|f IH]; intros l i n k Hn Hk; [reflexivity|]. cbn [down_f]. cbv zeta.
  destruct (Nat.leb_spec n (2 * i + 1)) as [H1|H1]; [reflexivity|].
  destruct (down_pick l i n H1) as (Hij & Hjn & _ & _).
  destruct (negb _); [reflexivity|].
  rewrite IH by (rewrite ?swap_length; lia). rewrite at_swap by lia.
  match goal with |- context [k =? ?j] => destruct (Nat.eqb_spec k j); [lia|] end.
  destruct (Nat.eqb_spec k i); [lia|]. reflexivity.
Qed.

Lemma down_fuel_irrelevant : forall f1 f2 l i n, n - i <= f1 -> n - i <= f2 -> down_f f1 l i n = down_f f2 l i n.
Proof.
  induction f1 as [|f1 IH]; intros f2 l i n H1 H2.
  - destruct f2 as [|f2]; [reflexivity|]. cbn [down_f]. cbv zeta.
    destruct (Nat.leb_spec n (2 * i + 1)); [reflexivity|lia].
  - destruct f2 as [|f2].
    + cbn [down_f]. cbv zeta. destruct (Nat.leb_spec n (2 * i + 1)); [reflexivity|lia].
    + cbn [down_f]. cbv zeta.
      destruct (Nat.leb_spec n (2 * i + 1)) as [Hle|Hgt]; [reflexivity|].
      destruct (down_pick l i n Hgt) as (Hij & Hjn & _ & _).
      destruct (negb _); [reflexivity|]. apply IH; lia.
Qed.

Definition down_inv (n : nat) (l : list entry) (i : nat) : Prop :=
  (forall p c, c < n -> is_child c p -> p <> i -> (sc (at_ l c) <= sc (at_ l p))%Z) /\
  (forall c g, c < n -> is_child c i -> is_child i g -> (sc (at_ l c) <= sc (at_ l g))%Z).

Lemma down_f_heap : forall f l i n, n <= length l -> n - i <= f -> down_inv n l i -> heap_le n (down_f f l i n).
Proof.
  induction f as [|f IH]; intros l i n Hn Hf (Ha & Hb).
  - cbn [down_f]. intros p c Hc Hch. apply Ha; auto. unfold is_child in Hch; lia.
  - cbn [down_f]. cbv zeta.
    destruct (Nat.leb_spec n (2 * i + 1)) as [H1|H1].
    + intros p c Hc Hch. apply Ha; auto. unfold is_child in Hch; lia.
    + destruct (down_pick l i n H1) as (Hij & Hjn & Hji & Hmax).
      set (j := if (2 * i + 1 + 1 <? n) && less l (2 * i + 1 + 1) (2 * i + 1) then 2 * i + 1 + 1 else 2 * i + 1) in *.
      unfold less. destruct (Z.ltb_spec (sc (at_ l i)) (sc (at_ l j))) as [Hlt|Hge]; cbn [negb].
      * apply IH; [rewrite swap_length; lia|lia|].
        assert (Hil : i < length l) by lia. assert (Hjl : j < length l) by lia.
        split.
        -- intros p c Hc Hch Hpj. rewrite !at_swap by assumption.
           destruct (Nat.eqb_spec c j) as [Ecj|Hcj].
           ++ subst c. assert (p = i) by (unfold is_child in *; lia). subst p.
              destruct (Nat.eqb_spec i j); [lia|]. rewrite Nat.eqb_refl. lia.
           ++ destruct (Nat.eqb_spec p j); [lia|].
              destruct (Nat.eqb_spec c i) as [Eci|Hci].
              ** subst c. destruct (Nat.eqb_spec p i); [unfold is_child in *; lia|].
                 apply (Hb j p); assumption.
              ** destruct (Nat.eqb_spec p i) as [Epi|Hpi].
                 --- subst p. apply Hmax; assumption.
                 --- apply Ha; assumption.
        -- intros c g Hc Hch Hjg. rewrite !at_swap by assumption.
           assert (g = i) by (unfold is_child in *; lia). subst g.
           destruct (Nat.eqb_spec c j); [unfold is_child in *; lia|].
           destruct (Nat.eqb_spec c i); [unfold is_child in *; lia|].
           destruct (Nat.eqb_spec i j); [lia|]. rewrite Nat.eqb_refl.
           apply Ha; [assumption|assumption|lia].
      * intros p c Hc Hch. destruct (Nat.eq_dec p i) as [Epi|Hpi].
        -- subst p. specialize (Hmax c Hc Hch). lia.
        -- apply Ha; assumption.
Qed.

(** * Push and Pop *)
Lemma heap_push_length l x : length (heap_push l x) = S (length l).
Proof. unfold heap_push, up. rewrite up_f_length, app_length. simpl. lia. Qed.

Lemma heap_push_perm l x : Permutation (heap_push l x) (x :: l).
Proof.
  unfold heap_push, up. eapply perm_trans; [apply up_f_perm; rewrite app_length; simpl; lia|].
  symmetry. apply Permutation_cons_append.
Qed.

Lemma heap_push_ok l x : heap_ok l -> heap_ok (heap_push l x).
Proof.
  intros H. unfold heap_push, up. apply up_f_heap; [lia|].
  assert (L : length (l ++ [x]) = S (length l)) by (rewrite app_length; simpl; lia).
  split; [lia|]. rewrite L. split.
  - intros p c Hc Hch Hne. assert (Hc' : c < length l) by lia.
    assert (Hp' : p < length l) by (unfold is_child in Hch; lia).
    unfold at_. rewrite !app_nth1 by assumption. apply H; assumption.
  - intros c g Hc Hch _. unfold is_child in Hch; lia.
Qed.

Lemma heap_pop_none l : heap_pop l = None <-> l = [].
Proof. destruct l; simpl; split; congruence. Qed.

Lemma heap_pop_some l : l <> [] -> exists e h, heap_pop l = Some (e, h).
Proof. destruct l; [congruence|]. intros _. eexists _, _. reflexivity. Qed.

Lemma heap_pop_spec l e h :
  heap_pop l = Some (e, h) ->
  l <> [] /\
  let n := length l - 1 in
  let l2 := down (swap l 0 n) 0 n in
  e = last l2 dflt /\ h = removelast l2 /\ length l2 = length l.
Proof.
  destruct l as [|a l]; [discriminate|]. intros H. split; [congruence|].
  cbv zeta. unfold heap_pop in H. injection H as <- <-. repeat split.
  unfold down. rewrite down_f_length, swap_length. reflexivity.
Qed.

(** multiset and size: no heap invariant needed *)
Lemma heap_pop_perm l e h : heap_pop l = Some (e, h) -> Permutation l (e :: h).
Proof.
  intros H. destruct (heap_pop_spec l e h H) as (Hne & He & Hh & Hlen). subst e h.
  set (n := length l - 1) in *. set (l2 := down (swap l 0 n) 0 n) in *.
  assert (Hl : 0 < length l) by (destruct l; [congruence|simpl; lia]).
  assert (P : Permutation l2 l).
  { unfold l2, down. eapply perm_trans; [apply down_f_perm; rewrite swap_length; lia|].
    apply swap_perm; lia. }
  symmetry. eapply perm_trans; [|exact P]. symmetry. apply removelast_last_perm.
  intro E. rewrite E in Hlen. simpl in Hlen. lia.
Qed.

Lemma heap_pop_length l e h : heap_pop l = Some (e, h) -> length l = S (length h).
Proof. intros H. apply heap_pop_perm in H. apply Permutation_length in H. exact H. Qed.

(** what Pop returns is the root *)
Lemma heap_pop_root l e h : heap_pop l = Some (e, h) -> e = at_ l 0.
Proof.
  intros H. destruct (heap_pop_spec l e h H) as (Hne & He & Hh & Hlen). subst e.
  set (n := length l - 1) in *. set (l2 := down (swap l 0 n) 0 n) in *.
  assert (Hl : 0 < length l) by (destruct l; [congruence|simpl; lia]).
  rewrite last_at by (intro E; rewrite E in Hlen; simpl in Hlen; lia).
  rewrite Hlen. fold n. unfold l2, down. rewrite down_f_at_ge by (rewrite ?swap_length; lia).
  rewrite at_swap by lia. rewrite Nat.eqb_refl. reflexivity.
Qed.

Lemma heap_pop_ok l e h : heap_ok l -> heap_pop l = Some (e, h) -> heap_ok h.
Proof.
  intros Hok H. destruct (heap_pop_spec l e h H) as (Hne & He & Hh & Hlen).
  set (n := length l - 1) in *. set (l2 := down (swap l 0 n) 0 n) in *.
  assert (Hl : 0 < length l) by (destruct l; [congruence|simpl; lia]).
  assert (H2 : heap_le n l2).
  { unfold l2, down. apply down_f_heap; [rewrite swap_length; lia|lia|]. split.
    - intros p c Hc Hch Hp. rewrite !at_swap by lia.
      assert (p < c) by (unfold is_child in Hch; lia).
      destruct (Nat.eqb_spec c n); [lia|]. destruct (Nat.eqb_spec c 0); [lia|].
      destruct (Nat.eqb_spec p n); [lia|]. destruct (Nat.eqb_spec p 0); [lia|].
      apply Hok; [lia|assumption].
    - intros c g _ _ Hg. unfold is_child in Hg; lia. }
  subst h. unfold heap_ok. rewrite removelast_len, Hlen. fold n.
  intros p c Hc Hch. assert (p < c) by (unfold is_child in Hch; lia).
  rewrite !at_removelast by (rewrite Hlen; fold n; lia). apply H2; assumption.
Qed.

(** in a heap the root is maximal *)
Lemma heap_root_max l : heap_ok l -> forall k, k < length l -> (sc (at_ l k) <= sc (at_ l 0))%Z.
Proof.
  intros Hok k. induction k as [k IH] using lt_wf_ind. intros Hk.
  destruct k as [|k]; [lia|].
  pose proof (parent_child (S k) ltac:(lia)) as Hch. pose proof (parent_lt (S k) ltac:(lia)) as Hlt.
  specialize (IH _ Hlt ltac:(lia)). specialize (Hok _ _ Hk Hch). lia.
Qed.

Lemma heap_pop_max l e h : heap_ok l -> heap_pop l = Some (e, h) -> forall x, In x l -> (sc x <= sc e)%Z.
Proof.
  intros Hok H x Hx. rewrite (heap_pop_root l e h H).
  destruct (In_nth l x dflt Hx) as (k & Hk & E). rewrite <- E. apply heap_root_max; assumption.
Qed.

Lemma heap_okb_spec l : heap_okb l = true <-> heap_ok l.
Proof.
  unfold heap_okb. rewrite forallb_forall. split.
  - intros H p c Hc Hch. assert (0 < c) by (unfold is_child in Hch; lia).
    specialize (H c). rewrite in_seq in H. specialize (H ltac:(lia)).
    apply Z.leb_le in H. assert ((c - 1) / 2 = p); [|subst p; exact H].
    pose proof (parent_child c ltac:(lia)). unfold is_child in *. lia.
  - intros H c Hc. rewrite in_seq in Hc. apply Z.leb_le.
    apply H; [lia|apply parent_child; lia].
Qed.

(** newPeerQueue *)
Lemma heap_of_gen init : forall a, heap_ok a ->
  heap_ok (fold_left heap_push init a) /\ Permutation (fold_left heap_push init a) (init ++ a).
Proof.
  induction init as [|x init IH]; intros a Ha; simpl; [split; [assumption|reflexivity]|].
  destruct (IH (heap_push a x) (heap_push_ok a x Ha)) as (H1 & H2). split; [exact H1|].
  eapply perm_trans; [exact H2|]. rewrite heap_push_perm. symmetry. apply Permutation_middle.
Qed.

Lemma heap_nil_ok : heap_ok [].
Proof. intros p c Hc. simpl in Hc. lia. Qed.

Lemma heap_of_ok init : heap_ok (heap_of init).
Proof. apply heap_of_gen, heap_nil_ok. Qed.

Lemma heap_of_perm init : Permutation (heap_of init) init.
Proof. unfold heap_of. destruct (heap_of_gen init [] heap_nil_ok) as (_ & H). rewrite app_nil_r in H. exact H. Qed.

(** every sequence of heap operations *)
Lemma hrun_ok : forall ops l, heap_ok l -> heap_ok (hrun l ops).
Proof.
  induction ops as [|o ops IH]; intros l H; [exact H|]. simpl. apply IH.
  destruct o as [e|]; simpl; [apply heap_push_ok; assumption|].
  destruct (heap_pop l) as [[e h]|] eqn:E; [eapply heap_pop_ok; eassumption|assumption].
Qed.

(** * the k-goroutine semantics: token/heap pairing *)

Lemma cnt_set_nth f t x old l : nth_error l t = Some old ->
  cnt f (set_nth t x l) + (if f old then 1 else 0) = cnt f l + (if f x then 1 else 0).
Proof.
  revert t; induction l as [|a l IH]; intros [|t] H; simpl in *; try discriminate.
  - injection H as ->. unfold cnt; simpl. destruct (f old), (f x); simpl; lia.
  - specialize (IH t H). unfold cnt in *; simpl. destruct (f a); simpl; lia.
Qed.

Lemma cnt_pos f t x l : nth_error l t = Some x -> f x = true -> 1 <= cnt f l.
Proof.
  revert t; induction l as [|a l IH]; intros [|t] H Hf; simpl in *; try discriminate.
  - injection H as ->. unfold cnt; simpl. rewrite Hf. simpl. lia.
  - specialize (IH t H Hf). unfold cnt in *; simpl. destruct (f a); simpl; lia.
Qed.

Lemma held_set_nth t x old l : nth_error l t = Some old ->
  Permutation (held_of old ++ held (set_nth t x l)) (held_of x ++ held l).
Proof.
  revert t; induction l as [|a l IH]; intros [|t] H; simpl in *; try discriminate.
  - injection H as ->. rewrite !app_assoc. apply Permutation_app_tail, Permutation_app_comm.
  - specialize (IH t H).
    eapply perm_trans; [rewrite app_assoc; apply Permutation_app_tail, Permutation_app_comm|].
    eapply perm_trans; [rewrite <- app_assoc; apply Permutation_app_head, IH|].
    rewrite !app_assoc. apply Permutation_app_tail, Permutation_app_comm.
Qed.

Lemma nth_error_lt {A} (l : list A) t x : nth_error l t = Some x -> t < length l.
Proof. intros H. apply nth_error_Some. congruence. Qed.

Lemma held_repeat_idle k : held (repeat Idle k) = [].
Proof. induction k; simpl; auto. Qed.
Lemma cnt_repeat_idle f k : f Idle = false -> cnt f (repeat Idle k) = 0.
Proof. intros H. induction k; unfold cnt in *; simpl; auto. rewrite H. exact IHk. Qed.

Lemma set_score_ids p v l : map e_id (set_score p v l) = map e_id l.
Proof.
  unfold set_score. rewrite map_map. apply map_ext. intros [i s]. unfold e_id; simpl.
  destruct (N.eqb_spec i p); simpl; congruence.
Qed.
Lemma set_score_length p v l : length (set_score p v l) = length l.
Proof. unfold set_score. apply map_length. Qed.

(** permutation bookkeeping for [all_peers] *)
Lemma perm3_cong (A A' B B' C : list N) :
  Permutation A A' -> Permutation B B' -> Permutation (A ++ B ++ C) (A' ++ B' ++ C).
Proof. intros H1 H2. apply Permutation_app; [assumption|]. apply Permutation_app_tail. assumption. Qed.
Lemma perm3_mid x (A B C : list N) : Permutation (A ++ (x :: B) ++ C) ((x :: A) ++ B ++ C).
Proof. simpl. symmetry. apply Permutation_middle. Qed.
Lemma perm3_last x (A B C : list N) : Permutation (A ++ B ++ x :: C) (A ++ (x :: B) ++ C).
Proof. apply Permutation_app_head. simpl. symmetry. apply Permutation_middle. Qed.

Lemma cinv_heap_le_cap ids s : cinv ids s ->
  length (c_heap s) + length (held (c_pcs s)) + length (c_dropped s) = c_cap s.
Proof.
  intros (_ & P & C & _). apply Permutation_length in P. unfold all_peers in P.
  rewrite !app_length, map_length in P. lia.
Qed.

Lemma cinv_init init k : cinv (map e_id init) (c_init init k).
Proof.
  unfold cinv, c_init, all_peers; simpl. rewrite !cnt_repeat_idle by reflexivity.
  rewrite held_repeat_idle, map_length. simpl. rewrite app_nil_r.
  pose proof (heap_of_perm init) as P. repeat split; auto.
  - apply Permutation_length in P. lia.
  - apply Permutation_map. exact P.
Qed.

Lemma cinv_step ids s e : cinv ids s -> cinv ids (cstep s e).
Proof.
  intros Hinv. pose proof (cinv_heap_le_cap ids s Hinv) as Hcap.
  destruct Hinv as (Htok & Hperm & Hc & Hp).
  destruct e as [t ch|p v]; simpl.
  2:{ unfold cinv, all_peers; simpl. rewrite set_score_ids, set_score_length. auto. }
  destruct (nth_error (c_pcs s) t) as [old|] eqn:Hn; [|repeat split; assumption].
  pose proof (nth_error_lt _ _ _ Hn) as Hlt.
  destruct old as [| |p|].
  - (* Idle: take a token *)
    destruct (Nat.ltb_spec 0 (c_tok s)); [|repeat split; assumption].
    unfold cinv, all_peers; simpl.
    pose proof (cnt_set_nth is_hastoken t HasToken _ _ Hn) as C1.
    pose proof (cnt_set_nth is_pushed t HasToken _ _ Hn) as C2.
    pose proof (held_set_nth t HasToken _ _ Hn) as P1. simpl in C1, C2, P1.
    repeat split; auto; [lia|].
    eapply perm_trans; [apply perm3_cong; [reflexivity|exact P1]|exact Hperm].
  - (* HasToken: lock, heap.Pop *)
    pose proof (cnt_pos is_hastoken t _ _ Hn eq_refl) as Hpos.
    destruct (heap_pop (c_heap s)) as [[e h]|] eqn:Hpop.
    2:{ apply heap_pop_none in Hpop. rewrite Hpop in Htok. simpl in Htok. lia. }
    pose proof (heap_pop_perm _ _ _ Hpop) as PP. pose proof (heap_pop_length _ _ _ Hpop) as PL.
    unfold cinv, all_peers; simpl.
    pose proof (cnt_set_nth is_hastoken t (Holding (e_id e)) _ _ Hn) as C1.
    pose proof (cnt_set_nth is_pushed t (Holding (e_id e)) _ _ Hn) as C2.
    pose proof (held_set_nth t (Holding (e_id e)) _ _ Hn) as P1. simpl in C1, C2, P1.
    repeat split; auto; [lia|].
    eapply perm_trans; [apply perm3_cong; [reflexivity|exact P1]|].
    eapply perm_trans; [apply perm3_mid|].
    eapply perm_trans; [|exact Hperm]. unfold all_peers.
    apply perm3_cong; [|reflexivity].
    apply (Permutation_map e_id) in PP. simpl in PP. symmetry. exact PP.
  - (* Holding p: drop or heap.Push *)
    destruct ch as [v|].
    + unfold cinv, all_peers; simpl.
      pose proof (cnt_set_nth is_hastoken t Pushed _ _ Hn) as C1.
      pose proof (cnt_set_nth is_pushed t Pushed _ _ Hn) as C2.
      pose proof (held_set_nth t Pushed _ _ Hn) as P1. simpl in C1, C2, P1.
      rewrite heap_push_length.
      repeat split; auto; [lia|].
      pose proof (heap_push_perm (c_heap s) (p, v)) as PP.
      apply (Permutation_map e_id) in PP. simpl in PP.
      eapply perm_trans; [apply perm3_cong; [exact PP|reflexivity]|].
      eapply perm_trans; [symmetry; apply perm3_mid|].
      eapply perm_trans; [|exact Hperm]. unfold all_peers.
      apply perm3_cong; [reflexivity|exact P1].
    + unfold cinv, all_peers; simpl.
      pose proof (cnt_set_nth is_hastoken t Idle _ _ Hn) as C1.
      pose proof (cnt_set_nth is_pushed t Idle _ _ Hn) as C2.
      pose proof (held_set_nth t Idle _ _ Hn) as P1. simpl in C1, C2, P1.
      repeat split; auto; [lia|].
      eapply perm_trans; [apply perm3_last|].
      eapply perm_trans; [|exact Hperm]. unfold all_peers.
      apply perm3_cong; [reflexivity|exact P1].
  - (* Pushed: send the token *)
    destruct (Nat.ltb_spec (c_tok s) (c_cap s)); [|repeat split; assumption].
    unfold cinv, all_peers; simpl.
    pose proof (cnt_set_nth is_hastoken t Idle _ _ Hn) as C1.
    pose proof (cnt_set_nth is_pushed t Idle _ _ Hn) as C2.
    pose proof (held_set_nth t Idle _ _ Hn) as P1. simpl in C1, C2, P1.
    repeat split; auto; [lia|].
    eapply perm_trans; [apply perm3_cong; [reflexivity|exact P1]|exact Hperm].
Qed.

Lemma cinv_run ids : forall sch s, cinv ids s -> cinv ids (crun s sch).
Proof. induction sch as [|e sch IH]; intros s H; [exact H|]. simpl. apply IH, cinv_step, H. Qed.

Lemma crun_app s a b : crun s (a ++ b) = crun (crun s a) b.
Proof. unfold crun. apply fold_left_app. Qed.

(** reachable states *)
Theorem reach_inv init k sch : cinv (map e_id init) (crun (c_init init k) sch).
Proof. apply cinv_run, cinv_init. Qed.

(** consequences, for a state satisfying the invariant *)
Lemma inv_pop_ok ids s t : cinv ids s -> nth_error (c_pcs s) t = Some HasToken ->
  exists e h, heap_pop (c_heap s) = Some (e, h).
Proof.
  intros (Htok & _) Hn. pose proof (cnt_pos is_hastoken t _ _ Hn eq_refl).
  apply heap_pop_some. intro E. rewrite E in Htok. simpl in Htok. lia.
Qed.

Lemma inv_send_ok ids s t : cinv ids s -> nth_error (c_pcs s) t = Some Pushed -> c_tok s < c_cap s.
Proof.
  intros H Hn. pose proof (cinv_heap_le_cap _ _ H). destruct H as (Htok & _).
  pose proof (cnt_pos is_pushed t _ _ Hn eq_refl). lia.
Qed.

Lemma inv_quiescent ids s : cinv ids s ->
  cnt is_hastoken (c_pcs s) = 0 -> cnt is_pushed (c_pcs s) = 0 -> c_tok s = length (c_heap s).
Proof. intros (Htok & _) H1 H2. lia. Qed.

(** no lost wake-up: a token in the channel and an idle thread => that thread's waitPop
    completes in its next two steps, whatever the others did before *)
Lemma inv_wakeup ids s t c1 c2 : cinv ids s ->
  nth_error (c_pcs s) t = Some Idle -> 0 < c_tok s ->
  exists p, nth_error (c_pcs (crun s [Thr t c1; Thr t c2])) t = Some (Holding p).
Proof.
  intros H Hn Htok. pose proof (cinv_step ids s (Thr t c1) H) as H1.
  pose proof (nth_error_lt _ _ _ Hn) as Hlt.
  assert (Hn1 : nth_error (c_pcs (cstep s (Thr t c1))) t = Some HasToken).
  { simpl. rewrite Hn. destruct (Nat.ltb_spec 0 (c_tok s)); [|lia]. simpl. apply nth_error_set_nth, Hlt. }
  destruct (inv_pop_ok _ _ _ H1 Hn1) as (e & h & Hpop).
  exists (e_id e).
  change (crun s [Thr t c1; Thr t c2]) with (cstep (cstep s (Thr t c1)) (Thr t c2)).
  remember (cstep s (Thr t c1)) as s1 eqn:Es1. clear Es1.
  assert (Hlt1 : t < length (c_pcs s1)) by (eapply nth_error_lt; eassumption).
  unfold cstep. rewrite Hn1, Hpop. simpl. apply nth_error_set_nth, Hlt1.
Qed.

(** without score changes inside the heap: heap invariant in every reachable state *)
Lemma heap_step_ok s e : is_env e = false -> heap_ok (c_heap s) -> heap_ok (c_heap (cstep s e)).
Proof.
  intros He H. destruct e as [t ch|p v]; [|discriminate]. simpl.
  destruct (nth_error (c_pcs s) t) as [[| |p|]|]; auto.
  - destruct (0 <? c_tok s); auto.
  - destruct (heap_pop (c_heap s)) as [[e h]|] eqn:E; auto. simpl. eapply heap_pop_ok; eassumption.
  - destruct ch; simpl; auto. apply heap_push_ok, H.
  - destruct (c_tok s <? c_cap s); auto.
Qed.

Lemma heap_run_ok : forall sch s, no_env sch -> heap_ok (c_heap s) -> heap_ok (c_heap (crun s sch)).
Proof.
  induction sch as [|e sch IH]; intros s Hne H; [exact H|]. simpl.
  unfold no_env in Hne. simpl in Hne. apply andb_true_iff in Hne as [H1 H2].
  apply IH; [exact H2|]. apply heap_step_ok; [|exact H]. destruct (is_env e); [discriminate|reflexivity].
Qed.

Theorem reach_heap_ok init k sch : no_env sch -> heap_ok (c_heap (crun (c_init init k) sch)).
Proof. intros H. apply heap_run_ok; [exact H|]. simpl. apply heap_of_ok. Qed.

(** * facts used by Props/C18.v *)
Lemma pops_best init k sch t : no_env sch ->
  let s := crun (c_init init k) sch in
  heap_ok (c_heap s) /\
  (nth_error (c_pcs s) t = Some HasToken ->
   exists e h, heap_pop (c_heap s) = Some (e, h) /\ forall x, In x (c_heap s) -> (sc x <= sc e)%Z).
Proof.
  intros Hne s. pose proof (reach_heap_ok init k sch Hne) as Hok. fold s in Hok. split; [exact Hok|].
  intros Hn. destruct (inv_pop_ok _ _ _ (reach_inv init k sch) Hn) as (e & h & Hpop).
  exists e, h. split; [exact Hpop|]. eapply heap_pop_max; eassumption.
Qed.

Lemma no_dup_peers init k sch : NoDup (map e_id init) -> NoDup (all_peers (crun (c_init init k) sch)).
Proof.
  intros H. destruct (reach_inv init k sch) as (_ & P & _).
  eapply Permutation_NoDup; [symmetry; exact P|exact H].
Qed.

Lemma inheap_witness :
  let init := [(0%N, 5%Z); (1%N, 4%Z); (2%N, 3%Z)] in
  let s := crun (c_init init 1) [Env 2%N 10%Z] in
  c_heap s = [(0%N, 5%Z); (1%N, 4%Z); (2%N, 10%Z)] /\
  ~ heap_ok (c_heap s) /\
  c_pcs (crun s [Thr 0 None; Thr 0 None]) = [Holding 0%N] /\
  c_heap (crun s [Thr 0 None; Thr 0 None]) = [(2%N, 10%Z); (1%N, 4%Z)].
Proof.
  cbv zeta. split; [vm_compute; reflexivity|]. split; [|split; vm_compute; reflexivity].
  intro H. apply heap_okb_spec in H. vm_compute in H. discriminate.
Qed.

Lemma pq_pop_keeps (l : list entry) (e : entry) (h : list entry) :
  heap_ok l -> heap_pop l = Some (e, h) -> heap_ok h /\ forall x, In x l -> (sc x <= sc e)%Z.
Proof. intros H1 H2. split; [exact (heap_pop_ok l e h H1 H2)|exact (heap_pop_max l e h H1 H2)]. Qed.

Lemma pq_multiset (l : list entry) :
  (forall x, Permutation (heap_push l x) (x :: l)) /\
  (forall e h, heap_pop l = Some (e, h) -> Permutation l (e :: h)).
Proof. split; [exact (heap_push_perm l)|exact (heap_pop_perm l)]. Qed.

Lemma pq_all_sequences (init : list entry) (ops : list hop) : heap_ok (hrun (heap_of init) ops).
Proof. exact (hrun_ok ops (heap_of init) (heap_of_ok init)). Qed.

Lemma pq_fuel :
  (forall f1 f2 l j, j < f1 -> j < f2 -> up_f f1 l j = up_f f2 l j) /\
  (forall f1 f2 l i n, n - i <= f1 -> n - i <= f2 -> down_f f1 l i n = down_f f2 l i n).
Proof. split; [exact up_fuel_irrelevant|exact down_fuel_irrelevant]. Qed.

Lemma pq_pop_never (init : list entry) (k : nat) (sch : list sev) (t : nat) :
  let s := crun (c_init init k) sch in
  nth_error (c_pcs s) t = Some HasToken -> exists e h, heap_pop (c_heap s) = Some (e, h).
Proof. exact (inv_pop_ok _ _ t (reach_inv init k sch)). Qed.

Lemma pq_push_never (init : list entry) (k : nat) (sch : list sev) (t : nat) :
  let s := crun (c_init init k) sch in
  nth_error (c_pcs s) t = Some Pushed -> c_tok s < c_cap s.
Proof. exact (inv_send_ok _ _ t (reach_inv init k sch)). Qed.

Lemma pq_no_lost (init : list entry) (k : nat) (sch : list sev) :
  let s := crun (c_init init k) sch in
  (forall t c1 c2, nth_error (c_pcs s) t = Some Idle -> 0 < c_tok s ->
     exists p, nth_error (c_pcs (crun s [Thr t c1; Thr t c2])) t = Some (Holding p)) /\
  (cnt is_hastoken (c_pcs s) = 0 -> cnt is_pushed (c_pcs s) = 0 -> c_tok s = length (c_heap s)).
Proof.
  split.
  - intros t c1 c2. exact (inv_wakeup _ _ t c1 c2 (reach_inv init k sch)).
  - exact (inv_quiescent _ _ (reach_inv init k sch)).
Qed.
