(** Proofs about Model/Session.v: the safety invariant of one GetRangeByHeight call
    (C05) and the honest-peer layer (C18). *)
From Coq Require Import ZifyBool ZifyNat ZifyN.
From GH Require Import Base.Prelude Model.Verify Proofs.VerifyP Model.Session.

(** * Small facts *)

Lemma two64_pos : 0 < two64.
Proof. reflexivity. Qed.

Lemma wrap64_small x : x < two64 -> wrap64 x = x.
Proof. intros H. unfold wrap64. apply N.mod_small. exact H. Qed.

Lemma wrap64_le x : wrap64 x <= x.
Proof. unfold wrap64. apply N.mod_le. discriminate. Qed.

Lemma sub64_le a b : b <= a -> sub64 a b = a - b.
Proof. intros H. unfold sub64. destruct (N.leb_spec b a); [reflexivity | lia]. Qed.

Lemma req_eqb_eq a b : req_eqb a b = true -> a = b.
Proof.
  destruct a as [o a], b as [o' a']. unfold req_eqb; cbn.
  intros H. apply andb_prop in H as [H1 H2].
  apply N.eqb_eq in H1, H2. subst. reflexivity.
Qed.

Lemma req_eqb_refl a : req_eqb a a = true.
Proof. unfold req_eqb. rewrite !N.eqb_refl. reflexivity. Qed.

(** ** takeN *)

Lemma takeN_length {A} n (l : list A) : N.of_nat (length (takeN n l)) <= n.
Proof.
  revert n. induction l as [|x l IH]; intros n; cbn [takeN length]; [lia|].
  destruct (N.eqb_spec n 0) as [->|Hn]; cbn [length]; [lia|].
  specialize (IH (n - 1)). lia.
Qed.

Lemma takeN_incl {A} n (l : list A) : incl (takeN n l) l.
Proof.
  revert n. induction l as [|x l IH]; intros n; cbn [takeN]; [apply incl_refl|].
  destruct (n =? 0); [apply incl_nil_l|].
  apply incl_cons; [left; reflexivity | apply incl_tl, IH].
Qed.

Lemma frame_hdrs_incl fs gs : incl fs gs -> incl (frame_hdrs fs) (frame_hdrs gs).
Proof.
  intros H h Hin. unfold frame_hdrs in *. apply in_flat_map in Hin as (f & Hf & Hh).
  apply in_flat_map. exists f. split; [apply H, Hf | exact Hh].
Qed.

(** ** processResponses *)

Lemma process_frames_ok fs hs :
  process_frames fs = inr hs ->
  hs = frame_hdrs fs /\ length hs = length fs /\ Forall (fun h => h_ok h = true) hs.
Proof.
  revert hs. induction fs as [|f fs IH]; intros hs; cbn [process_frames].
  - intros [= <-]. repeat split. constructor.
  - destruct f as [h| | | | |]; try discriminate.
    destruct (h_ok h) eqn:Hok; [|discriminate].
    destruct (process_frames fs) as [e|l] eqn:Hp; [discriminate|].
    intros [= <-]. destruct (IH l eq_refl) as (H1 & H2 & H3).
    split; [cbn; f_equal; exact H1|]. split; [cbn; f_equal; exact H2|].
    constructor; assumption.
Qed.

Lemma process_responses_ok fs hs :
  process_responses fs = inr hs ->
  hs <> [] /\ hs = frame_hdrs fs /\ length hs = length fs /\ Forall (fun h => h_ok h = true) hs.
Proof.
  unfold process_responses. destruct fs as [|f fs]; [discriminate|].
  intros H. destruct (process_frames_ok _ _ H) as (H1 & H2 & H3).
  split; [|auto]. intros ->. cbn in H2. discriminate.
Qed.

(** * Verified chunks *)

Section chunk.
Variables (drift : Z) (tv : hdr -> hdr -> tvres).

Lemma verify_increases now t u : Verify now drift tv t u = None -> h_height t < h_height u.
Proof. intros H. apply accept_iff in H. destruct H as ((_&_&_&H&_)&_). exact H. Qed.

Lemma verify_succ now t u :
  Verify now drift tv t u = None -> wrap64 (h_height t + 1) = h_height u -> h_height u = h_height t + 1.
Proof.
  intros Hv Hw. apply verify_increases in Hv. unfold wrap64 in Hw.
  pose proof (N.mod_upper_bound (h_height t + 1) two64 ltac:(discriminate)) as Hub.
  pose proof (N.div_mod (h_height t + 1) two64 ltac:(discriminate)) as Hdm.
  destruct (N.eq_dec ((h_height t + 1) / two64) 0) as [Hq|Hq].
  - rewrite Hq in Hdm. lia.
  - remember ((h_height t + 1) / two64) as q eqn:Eq.
    assert (two64 * 1 <= two64 * q) by (apply N.mul_le_mono_l; clear - Hq; lia).
    pose proof two64_pos. lia.
Qed.

(** heights of a verified, adjacent chunk are first, first+1, ... in true arithmetic *)
Lemma chunk_heights now t l :
  chain_verified now drift tv t l -> consecutive l ->
  match l with
  | [] => True
  | a :: _ => map h_height l = seqN (h_height a) (length l)
  end.
Proof.
  revert t. induction l as [|a l IH]; intros t Hc Hk; [exact I|].
  cbn [map length seqN]. f_equal.
  destruct l as [|b l]; [reflexivity|].
  cbn [chain_verified] in Hc. destruct Hc as (_ & Hvb & Hc').
  cbn [consecutive] in Hk. destruct Hk as (Hw & Hk').
  specialize (IH a (conj Hvb Hc') Hk').
  rewrite IH. rewrite (verify_succ _ _ _ Hvb Hw). reflexivity.
Qed.

(** each header of the chunk verifies against [t] (the first) or against its
    predecessor in the chunk, which is one lower *)
Lemma chunk_links now t l :
  chain_verified now drift tv t l -> consecutive l ->
  forall u, In u l ->
    (Verify now drift tv t u = None /\ exists r, l = u :: r) \/
    (exists p, In p l /\ h_height u = h_height p + 1 /\ Verify now drift tv p u = None).
Proof.
  revert t. induction l as [|a l IH]; intros t Hc Hk u Hin; [destruct Hin|].
  cbn [chain_verified] in Hc. destruct Hc as (Hva & Hc').
  destruct Hin as [<-|Hin]; [left; split; [exact Hva | eexists; reflexivity]|].
  right.
  assert (Hk' : consecutive l) by (destruct l; [exact I | apply Hk]).
  destruct (IH a Hc' Hk' u Hin) as [(Hvu & r & ->)|(p & Hp & Hh & Hvp)].
  - exists a. split; [left; reflexivity|]. split; [|exact Hvu].
    cbn [consecutive] in Hk. destruct Hk as (Hw & _). exact (verify_succ _ _ _ Hvu Hw).
  - exists p. split; [right; exact Hp | split; assumption].
Qed.

(** what a successful doRequest guarantees about its chunk *)
Lemma do_request_ok now from r fs h :
  h_nil from = false ->
  do_request now drift tv from r fs = DOk h ->
  h <> [] /\ N.of_nat (length h) <= r_amount r /\ incl h (frame_hdrs fs) /\
  Forall (fun x => h_ok x = true) h /\
  chain_verified now drift tv from h /\ consecutive h /\
  map h_height h = seqN (r_origin r) (length h).
Proof.
  intros Hnil. unfold do_request.
  destruct (process_responses (takeN (r_amount r) fs)) as [e|hs] eqn:Hp; [discriminate|].
  destruct (process_responses_ok _ _ Hp) as (Hne & Hfh & Hlen & Hok).
  unfold session_verify. rewrite Hnil.
  pose proof (range_nil_iff_whole now drift tv from hs) as Hwhole.
  pose proof (range_each_verified now drift tv from hs) as Hver.
  pose proof (range_consecutive now drift tv from hs) as Hcons.
  destruct (VerifyRange now drift tv from hs) as [v e]. cbn [fst snd] in *.
  destruct e as [e|]; [discriminate|].
  destruct Hwhole as [Hw _]. destruct (Hw eq_refl) as [-> _].
  destruct hs as [|h0 hs']; [discriminate|].
  destruct (N.eqb_spec (h_height h0) (r_origin r)) as [Ho|Ho]; [|discriminate].
  intros [= <-].
  split; [discriminate|]. split.
  { rewrite Hlen. apply takeN_length. }
  split.
  { rewrite Hfh. apply frame_hdrs_incl, takeN_incl. }
  split; [exact Hok|]. split; [exact Hver|]. split; [exact Hcons|].
  pose proof (chunk_heights now from (h0 :: hs') Hver Hcons) as Hh. cbn beta iota in Hh.
  rewrite <- Ho. exact Hh.
Qed.

Lemma do_request_no_panic now from r fs : do_request now drift tv from r fs <> DPanic.
Proof.
  unfold do_request.
  destruct (process_responses (takeN (r_amount r) fs)) as [e|hs] eqn:Hp; [discriminate|].
  destruct (process_responses_ok _ _ Hp) as (Hne & _).
  unfold session_verify. destruct (h_nil from).
  - destruct hs as [|h0 hs']; [contradiction|]. destruct (h_height h0 =? r_origin r); discriminate.
  - pose proof (range_nil_iff_whole now drift tv from hs) as Hwhole.
    destruct (VerifyRange now drift tv from hs) as [v e]. cbn [fst snd] in *.
    destruct e as [e|]; [discriminate|].
    destruct Hwhole as [Hw _]. destruct (Hw eq_refl) as [-> _].
    destruct hs as [|h0 hs']; [contradiction|]. destruct (h_height h0 =? r_origin r); discriminate.
Qed.

End chunk.

(** * Counting heights *)

Definition cnt (x : N) (l : list N) : nat := count_occ N.eq_dec l x.

(** indicator of the interval [s, s+n) *)
Definition ind (s n x : N) : nat := if (s <=? x) && (x <? s + n) then 1%nat else 0%nat.

Lemma ind_split s k m x : ind s (k + m) x = (ind s k x + ind (s + k) m x)%nat.
Proof.
  unfold ind.
  destruct (N.leb_spec s x), (N.ltb_spec x (s + (k + m))), (N.ltb_spec x (s + k)),
    (N.leb_spec (s + k) x), (N.ltb_spec x (s + k + m)); cbn; lia.
Qed.

Lemma ind_zero s x : ind s 0 x = 0%nat.
Proof. unfold ind. destruct (N.leb_spec s x), (N.ltb_spec x (s + 0)); cbn; lia. Qed.

Lemma ind_le1 s n x : (ind s n x <= 1)%nat.
Proof. unfold ind. destruct (_ && _); lia. Qed.

Lemma ind_pos s n x : (0 < ind s n x)%nat -> s <= x /\ x < s + n.
Proof. unfold ind. destruct (N.leb_spec s x), (N.ltb_spec x (s + n)); cbn; lia. Qed.

Lemma ind_in s n x : s <= x -> x < s + n -> ind s n x = 1%nat.
Proof. unfold ind. intros. destruct (N.leb_spec s x), (N.ltb_spec x (s + n)); cbn; lia. Qed.

Lemma cnt_app x l1 l2 : cnt x (l1 ++ l2) = (cnt x l1 + cnt x l2)%nat.
Proof. unfold cnt. apply count_occ_app. Qed.

Lemma cnt_cons x a l : cnt x (a :: l) = ((if N.eqb a x then 1 else 0) + cnt x l)%nat.
Proof.
  unfold cnt. cbn. destruct (N.eq_dec a x) as [->|Hn].
  - rewrite N.eqb_refl. reflexivity.
  - destruct (N.eqb_spec a x); [contradiction | reflexivity].
Qed.

Lemma cnt_seqN s n x : cnt x (seqN s n) = ind s (N.of_nat n) x.
Proof.
  revert s. induction n as [|n IH]; intros s.
  - cbn. rewrite ind_zero. reflexivity.
  - cbn [seqN]. rewrite cnt_cons, IH.
    replace (N.of_nat (S n)) with (1 + N.of_nat n) by lia.
    rewrite ind_split. f_equal.
    unfold ind. destruct (N.eqb_spec s x), (N.leb_spec s x), (N.ltb_spec x (s + 1)); cbn; lia.
Qed.

Lemma seqN_app s k m : seqN s (k + m) = seqN s k ++ seqN (s + N.of_nat k) m.
Proof.
  revert s. induction k as [|k IH]; intros s; cbn [seqN Nat.add app].
  - f_equal. lia.
  - f_equal. rewrite IH. f_equal. f_equal. lia.
Qed.

Lemma seqN_length s n : length (seqN s n) = n.
Proof. revert s. induction n; intros s; cbn; [reflexivity | f_equal; auto]. Qed.

Lemma seqN_last s n d : last (seqN s (S n)) d = s + N.of_nat n.
Proof.
  revert s. induction n as [|n IH]; intros s; [cbn; lia|].
  change (seqN s (S (S n))) with (s :: seqN (s + 1) (S n)).
  change (last (s :: seqN (s + 1) (S n)) d) with (last (seqN (s + 1) (S n)) d).
  rewrite IH. lia.
Qed.

Lemma last_map_height (l : list hdr) d :
  l <> [] -> h_height (last l d) = last (map h_height l) 0.
Proof.
  induction l as [|a l IH]; [congruence|]. intros _.
  destruct l as [|b l]; [reflexivity|].
  change (last (a :: b :: l) d) with (last (b :: l) d).
  change (last (map h_height (a :: b :: l)) 0) with (last (map h_height (b :: l)) 0).
  apply IH. discriminate.
Qed.

(** ** requests as sets of heights *)

Definition req_heights (r : req) : list N := seqN (r_origin r) (N.to_nat (r_amount r)).

Fixpoint cnt_reqs (x : N) (R : list req) : nat :=
  match R with
  | [] => 0%nat
  | r :: t => (ind (r_origin r) (r_amount r) x + cnt_reqs x t)%nat
  end.

Fixpoint sum_amounts (R : list req) : N :=
  match R with
  | [] => 0
  | r :: t => r_amount r + sum_amounts t
  end.

Lemma cnt_reqs_app x R1 R2 : cnt_reqs x (R1 ++ R2) = (cnt_reqs x R1 + cnt_reqs x R2)%nat.
Proof. induction R1 as [|r R1 IH]; cbn; [reflexivity | rewrite IH; lia]. Qed.

Lemma sum_amounts_app R1 R2 : sum_amounts (R1 ++ R2) = sum_amounts R1 + sum_amounts R2.
Proof. induction R1 as [|r R1 IH]; cbn; [reflexivity | rewrite IH; lia]. Qed.

Lemma remove_req_spec r l l' :
  remove_req r l = Some l' ->
  In r l /\ (forall x, cnt_reqs x l = (ind (r_origin r) (r_amount r) x + cnt_reqs x l')%nat) /\
  sum_amounts l = r_amount r + sum_amounts l' /\ (forall q, In q l' -> In q l).
Proof.
  revert l'. induction l as [|a l IH]; intros l'; cbn [remove_req]; [discriminate|].
  destruct (req_eqb r a) eqn:He.
  - apply req_eqb_eq in He. subst a. intros [= <-].
    split; [left; reflexivity|]. split; [intros x; reflexivity|]. split; [reflexivity|].
    intros q Hq. right. exact Hq.
  - destruct (remove_req r l) as [t|]; [|discriminate]. cbn. intros [= <-].
    destruct (IH t eq_refl) as (Hin & Hc & Hs & Hsub).
    split; [right; exact Hin|]. split; [intros x; cbn; rewrite Hc; lia|].
    split; [cbn; rewrite Hs; lia|].
    intros q [<-|Hq]; [left; reflexivity | right; apply Hsub, Hq].
Qed.

Lemma take_flight_spec p l r l' :
  take_flight p l = Some (r, l') ->
  In (p, r) l /\
  (forall x, cnt_reqs x (map snd l) = (ind (r_origin r) (r_amount r) x + cnt_reqs x (map snd l'))%nat) /\
  sum_amounts (map snd l) = r_amount r + sum_amounts (map snd l') /\
  (forall q, In q l' -> In q l).
Proof.
  revert r l'. induction l as [|[q a] l IH]; intros r l'; cbn [take_flight]; [discriminate|].
  destruct (N.eqb_spec p q) as [->|Hn].
  - intros [= <- <-]. split; [left; reflexivity|]. split; [intros x; reflexivity|]. split; [reflexivity|].
    intros z Hz. right. exact Hz.
  - destruct (take_flight p l) as [[r' t']|]; [|discriminate]. intros [= <- <-].
    destruct (IH r' t' eq_refl) as (Hin & Hc & Hs & Hsub).
    split; [right; exact Hin|]. split; [intros x; cbn; rewrite Hc; lia|].
    split; [cbn; rewrite Hs; lia|].
    intros z [<-|Hz]; [left; reflexivity | right; apply Hsub, Hz].
Qed.

(** * The final sort *)

Fixpoint sortedN (l : list N) : Prop :=
  match l with
  | a :: ((b :: _) as r) => a <= b /\ sortedN r
  | _ => True
  end.

Lemma insert_h_In x l y : In y (insert_h x l) <-> y = x \/ In y l.
Proof.
  induction l as [|a l IH]; cbn [insert_h].
  - cbn. intuition.
  - destruct (h_height x <? h_height a); cbn; [intuition|]. rewrite IH. intuition.
Qed.

Lemma sort_h_In l y : In y (sort_h l) <-> In y l.
Proof.
  induction l as [|a l IH]; cbn [sort_h]; [reflexivity|].
  rewrite insert_h_In, IH. cbn. intuition.
Qed.

Lemma insert_h_cnt x l z :
  cnt z (map h_height (insert_h x l)) = cnt z (map h_height (x :: l)).
Proof.
  induction l as [|a l IH]; cbn [insert_h]; [reflexivity|].
  destruct (h_height x <? h_height a); [reflexivity|].
  cbn [map] in *. rewrite !cnt_cons in *. rewrite IH. lia.
Qed.

Lemma sort_h_cnt l z : cnt z (map h_height (sort_h l)) = cnt z (map h_height l).
Proof.
  induction l as [|a l IH]; cbn [sort_h]; [reflexivity|].
  rewrite insert_h_cnt. cbn [map]. rewrite !cnt_cons, IH. reflexivity.
Qed.

Lemma insert_h_sorted x l : sortedN (map h_height l) -> sortedN (map h_height (insert_h x l)).
Proof.
  induction l as [|a l IH]; cbn [insert_h]; [intros _; exact I|].
  intros Hs. destruct (N.ltb_spec (h_height x) (h_height a)) as [Hlt|Hge].
  - cbn [map sortedN]. split; [lia | exact Hs].
  - assert (Hs' : sortedN (map h_height l)) by (destruct l; [exact I | apply Hs]).
    specialize (IH Hs').
    destruct l as [|b l]; cbn [insert_h map sortedN] in *; [split; [lia | exact I]|].
    destruct (N.ltb_spec (h_height x) (h_height b)); cbn [map sortedN] in *.
    + split; [lia|]. exact IH.
    + split; [apply Hs|]. exact IH.
Qed.

Lemma sort_h_sorted l : sortedN (map h_height (sort_h l)).
Proof. induction l as [|a l IH]; cbn [sort_h]; [exact I | apply insert_h_sorted, IH]. Qed.

Lemma sortedN_head_le a l : sortedN (a :: l) -> forall y, In y l -> a <= y.
Proof.
  revert a. induction l as [|b l IH]; intros a Hs y Hin; [destruct Hin|].
  cbn [sortedN] in Hs. destruct Hs as (Hab & Hs).
  destruct Hin as [<-|Hin]; [exact Hab|]. specialize (IH b Hs y Hin). lia.
Qed.

Lemma cnt_pos_In x l : (0 < cnt x l)%nat -> In x l.
Proof. unfold cnt. apply count_occ_In. Qed.

Lemma In_cnt_pos x l : In x l -> (0 < cnt x l)%nat.
Proof. unfold cnt. apply count_occ_In. Qed.

(** a sorted list whose multiset of elements is the interval [s, s+n) is that interval *)
Lemma sorted_interval n : forall s l,
  sortedN l -> (forall x, cnt x l = ind s (N.of_nat n) x) -> l = seqN s n.
Proof.
  induction n as [|n IH]; intros s l Hs Hc.
  - destruct l as [|a l]; [reflexivity|]. specialize (Hc a). rewrite cnt_cons, N.eqb_refl, ind_zero in Hc. lia.
  - destruct l as [|a l].
    { specialize (Hc s). cbn in Hc. rewrite ind_in in Hc by lia. discriminate. }
    assert (Ha : s <= a).
    { pose proof (Hc a) as H. rewrite cnt_cons, N.eqb_refl in H.
      assert (0 < ind s (N.of_nat (S n)) a)%nat by lia. apply ind_pos in H0. lia. }
    assert (Hsa : a = s).
    { assert (Hin : In s (a :: l)).
      { apply cnt_pos_In. rewrite Hc, ind_in by lia. lia. }
      destruct Hin as [->|Hin]; [reflexivity|].
      pose proof (sortedN_head_le a l Hs s Hin). lia. }
    subst a. cbn [seqN]. f_equal. apply IH.
    + destruct l; [exact I | apply Hs].
    + intros x. specialize (Hc x). rewrite cnt_cons in Hc.
      replace (N.of_nat (S n)) with (1 + N.of_nat n) in Hc by lia.
      rewrite ind_split in Hc.
      assert (ind s 1 x = if (s =? x)%N then 1%nat else 0%nat).
      { unfold ind. destruct (N.eqb_spec s x), (N.leb_spec s x), (N.ltb_spec x (s + 1)); cbn; lia. }
      lia.
Qed.

Lemma sort_h_heights l s n :
  (forall x, cnt x (map h_height l) = ind s (N.of_nat n) x) ->
  map h_height (sort_h l) = seqN s n.
Proof.
  intros Hc. apply sorted_interval; [apply sort_h_sorted|].
  intros x. rewrite sort_h_cnt. apply Hc.
Qed.

(** * prepareRequests *)

Definition req_ok (lo hi per : N) (r : req) : Prop :=
  1 <= r_amount r /\ r_amount r <= per /\ lo <= r_origin r /\ r_origin r + r_amount r <= hi.

Lemma prep_spec fuel : forall o amount per,
  1 <= per -> (N.to_nat (amount / per) < fuel)%nat -> o + amount < two64 ->
  exists l, prep fuel o amount per = Some l /\
    (forall x, cnt_reqs x l = ind o amount x) /\ sum_amounts l = amount /\
    Forall (req_ok o (o + amount) per) l.
Proof.
  induction fuel as [|f IH]; intros o amount per Hper Hfuel Hb.
  - inversion Hfuel.
  - cbn [prep]. destruct (N.eqb_spec amount 0) as [->|Hnz].
    { exists []. split; [reflexivity|]. split; [intros x; cbn; rewrite ind_zero; reflexivity|].
      split; [reflexivity | constructor]. }
    destruct (N.ltb_spec amount per) as [Hlt|Hge].
    { exists [Req o amount]. split; [reflexivity|]. split; [intros x; cbn; lia|].
      split; [cbn; lia|]. constructor; [|constructor]. unfold req_ok; cbn. lia. }
    assert (Hdiv : amount / per = (amount - per) / per + 1).
    { replace amount with ((amount - per) + 1 * per) at 1 by lia. rewrite N.div_add by lia. reflexivity. }
    assert (Hw : wrap64 (o + per) = o + per) by (apply wrap64_small; lia).
    rewrite Hw.
    destruct (IH (o + per) (amount - per) per Hper) as (l & Hl & Hc & Hs & Hf); [lia | lia |].
    rewrite Hl. cbn [option_map]. eexists. split; [reflexivity|].
    split.
    { intros x. cbn [cnt_reqs r_origin r_amount]. rewrite Hc.
      replace amount with (per + (amount - per)) at 2 by lia. rewrite ind_split. reflexivity. }
    split; [cbn; rewrite Hs; lia|].
    constructor.
    { unfold req_ok; cbn. lia. }
    eapply Forall_impl; [|exact Hf]. unfold req_ok. intros r. lia.
Qed.

Lemma prepare_requests_ok maxcap o amount per :
  1 <= per -> amount / per <= maxcap -> o + amount < two64 ->
  exists l, prepare_requests maxcap o amount per = PROk l /\
    (forall x, cnt_reqs x l = ind o amount x) /\ sum_amounts l = amount /\
    Forall (req_ok o (o + amount) per) l.
Proof.
  intros Hper Hcap Hb. unfold prepare_requests.
  destruct (N.eqb_spec per 0); [lia|].
  destruct (N.ltb_spec maxcap (amount / per)); [lia|].
  destruct (prep_spec (S (N.to_nat (amount / per))) o amount per Hper) as (l & Hl & Hrest); [lia | exact Hb |].
  rewrite Hl. exists l. split; [reflexivity | exact Hrest].
Qed.

(** the re-request of the remaining headers is exactly one request *)
Lemma prepare_remainder maxcap o rem per :
  0 < rem -> rem < per -> prepare_requests maxcap o rem per = PROk [Req o rem].
Proof.
  intros H0 Hlt. unfold prepare_requests.
  destruct (N.eqb_spec per 0); [lia|].
  rewrite (N.div_small rem per Hlt).
  destruct (N.ltb_spec maxcap 0); [lia|].
  cbn. destruct (N.eqb_spec rem 0); [lia|].
  destruct (N.ltb_spec rem per); [reflexivity | lia].
Qed.

(** * Chunks: the sort by first height, tiling of the range, the boundary check *)

Lemma In_seqN x s n : In x (seqN s n) -> s <= x /\ x < s + N.of_nat n.
Proof.
  intros H. apply In_cnt_pos in H. rewrite cnt_seqN in H. apply ind_pos in H. exact H.
Qed.

Lemma NoDup_seqN s n : NoDup (seqN s n).
Proof.
  apply (proj2 (NoDup_count_occ N.eq_dec _)). intros x.
  change (count_occ N.eq_dec (seqN s n) x) with (cnt x (seqN s n)).
  rewrite cnt_seqN. apply ind_le1.
Qed.

Definition heights (l : list hdr) : list N := map h_height l.

(** a chunk as doRequest hands it over: non-empty, its heights are first, first+1, ... *)
Definition chunk_shape (c : list hdr) : Prop :=
  c <> [] /\ heights c = seqN (first_height c) (length c).

Lemma insert_c_In x l y : In y (insert_c x l) <-> y = x \/ In y l.
Proof.
  induction l as [|a l IH]; cbn [insert_c].
  - cbn. intuition.
  - destruct (first_height x <? first_height a); cbn; [intuition|]. rewrite IH. intuition.
Qed.

Lemma sort_c_In l y : In y (sort_c l) <-> In y l.
Proof.
  induction l as [|a l IH]; cbn [sort_c]; [reflexivity|].
  rewrite insert_c_In, IH. cbn. intuition.
Qed.

Lemma insert_c_cnt x l z :
  cnt z (heights (concat (insert_c x l))) = cnt z (heights (concat (x :: l))).
Proof.
  induction l as [|a l IH]; cbn [insert_c]; [reflexivity|].
  destruct (first_height x <? first_height a); [reflexivity|].
  unfold heights in *. cbn [concat] in *. rewrite !map_app, !cnt_app in *. rewrite IH. lia.
Qed.

Lemma sort_c_cnt l z : cnt z (heights (concat (sort_c l))) = cnt z (heights (concat l)).
Proof.
  induction l as [|a l IH]; cbn [sort_c]; [reflexivity|].
  rewrite insert_c_cnt. unfold heights in *. cbn [concat]. rewrite !map_app, !cnt_app, IH. reflexivity.
Qed.

Lemma insert_c_sorted x l : sortedN (map first_height l) -> sortedN (map first_height (insert_c x l)).
Proof.
  induction l as [|a l IH]; cbn [insert_c]; [intros _; exact I|].
  intros Hs. destruct (N.ltb_spec (first_height x) (first_height a)) as [Hlt|Hge].
  - cbn [map sortedN]. split; [lia | exact Hs].
  - assert (Hs' : sortedN (map first_height l)) by (destruct l; [exact I | apply Hs]).
    specialize (IH Hs').
    destruct l as [|b l]; cbn [insert_c map sortedN] in *; [split; [lia | exact I]|].
    destruct (N.ltb_spec (first_height x) (first_height b)); cbn [map sortedN] in *.
    + split; [lia|]. exact IH.
    + split; [apply Hs|]. exact IH.
Qed.

Lemma sort_c_sorted l : sortedN (map first_height (sort_c l)).
Proof. induction l as [|a l IH]; cbn [sort_c]; [exact I | apply insert_c_sorted, IH]. Qed.

Lemma sort_c_Forall (P : list hdr -> Prop) l : Forall P l -> Forall P (sort_c l).
Proof.
  intros H. apply Forall_forall. intros c Hc. apply (proj1 (sort_c_In _ _)) in Hc.
  rewrite Forall_forall in H. apply H, Hc.
Qed.

Lemma in_concat_iff (l : list (list hdr)) h : In h (concat l) <-> exists c, In c l /\ In h c.
Proof.
  induction l as [|a l IH]; cbn [concat].
  - split; [intros [] | intros (c & [] & _)].
  - rewrite in_app_iff, IH. split.
    + intros [H|(c & Hc & Hh)]; [exists a; split; [left; reflexivity | exact H] | exists c; split; [right; exact Hc | exact Hh]].
    + intros (c & [<-|Hc] & Hh); [left; exact Hh | right; exists c; split; assumption].
Qed.

Lemma chunk_first_in c : chunk_shape c -> In (first_height c) (heights c) /\ (1 <= length c)%nat.
Proof.
  intros [Hne Hh]. destruct c as [|a c]; [contradiction|]. split; [left; reflexivity | cbn; lia].
Qed.

(** chunks sorted by first height whose heights together are exactly [start, start+amount):
    the first chunk starts at [start] and the others tile the rest *)
Lemma tiling_head c r start amount :
  sortedN (map first_height (c :: r)) -> Forall chunk_shape (c :: r) ->
  (forall x, cnt x (heights (concat (c :: r))) = ind start amount x) ->
  first_height c = start /\ N.of_nat (length c) <= amount /\
  (forall x, cnt x (heights (concat r)) = ind (start + N.of_nat (length c)) (amount - N.of_nat (length c)) x).
Proof.
  intros Hs Hf Hc.
  inversion Hf as [|? ? Hcs Hfr]; subst.
  destruct (chunk_first_in c Hcs) as [Hin Hlen]. destruct Hcs as [Hne Hh].
  set (o := first_height c) in *. set (k := N.of_nat (length c)) in *.
  assert (Hcc : forall x, cnt x (heights c) = ind o k x) by (intros x; rewrite Hh; apply cnt_seqN).
  assert (Hsplit : forall x, cnt x (heights (concat (c :: r))) = (ind o k x + cnt x (heights (concat r)))%nat).
  { intros x. unfold heights. cbn [concat]. rewrite map_app, cnt_app. fold (heights c). rewrite Hcc. reflexivity. }
  (* o is covered, so it lies in the range *)
  assert (Ho : start <= o /\ o < start + amount).
  { apply (ind_pos start amount o). rewrite <- Hc, Hsplit, ind_in by lia. lia. }
  (* start is covered by some chunk, all of which start at or after o *)
  assert (Hstart : o <= start).
  { assert (Hcov : (0 < cnt start (heights (concat (c :: r))))%nat) by (rewrite Hc, ind_in by lia; lia).
    apply cnt_pos_In in Hcov. unfold heights in Hcov. apply in_map_iff in Hcov as (h & Hhh & Hin').
    apply in_concat_iff in Hin' as (c' & Hc' & Hhc').
    assert (Hle : o <= first_height c').
    { destruct Hc' as [<-|Hc']; [lia|]. apply (sortedN_head_le o (map first_height r) Hs).
      apply in_map, Hc'. }
    rewrite Forall_forall in Hf. destruct (Hf c' Hc') as [_ Hh'].
    assert (Hin'' : In start (heights c')) by (rewrite <- Hhh; apply in_map, Hhc').
    rewrite Hh' in Hin''. apply In_seqN in Hin''. lia. }
  assert (Heq : o = start) by lia.
  (* the last height of c is covered *)
  assert (Hk : k <= amount).
  { assert (Hcov : (0 < ind start amount (o + k - 1))%nat).
    { rewrite <- Hc, Hsplit, ind_in by lia. lia. }
    apply ind_pos in Hcov. lia. }
  split; [exact Heq|]. split; [exact Hk|].
  intros x. specialize (Hc x). rewrite Hsplit in Hc.
  replace amount with (k + (amount - k)) in Hc at 1 by lia. rewrite ind_split, Heq in Hc. lia.
Qed.

Lemma tiling : forall cs start amount,
  sortedN (map first_height cs) -> Forall chunk_shape cs ->
  (forall x, cnt x (heights (concat cs)) = ind start amount x) ->
  heights (concat cs) = seqN start (N.to_nat amount).
Proof.
  induction cs as [|c r IH]; intros start amount Hs Hf Hc.
  - destruct (N.eq_dec amount 0) as [->|Hnz]; [reflexivity|].
    specialize (Hc start). cbn in Hc. rewrite ind_in in Hc by lia. discriminate.
  - destruct (tiling_head c r start amount Hs Hf Hc) as (Ho & Hk & Hrest).
    pose proof (Forall_inv Hf) as [Hne Hh]. pose proof (Forall_inv_tail Hf) as Hfr.
    assert (Hs' : sortedN (map first_height r)) by (destruct r; [exact I | apply Hs]).
    specialize (IH _ _ Hs' Hfr Hrest).
    unfold heights in *. cbn [concat]. rewrite map_app, Hh, IH, Ho.
    replace (N.to_nat amount) with (length c + N.to_nat (amount - N.of_nat (length c)))%nat by lia.
    rewrite seqN_app. reflexivity.
Qed.

(** two lists with the same (duplicate-free) heights and the same elements are equal *)
Lemma eq_by_heights : forall l1 l2 : list hdr,
  heights l1 = heights l2 -> NoDup (heights l1) -> (forall h, In h l1 -> In h l2) -> l1 = l2.
Proof.
  unfold heights. induction l1 as [|a l1 IH]; intros [|b l2] Hh Hnd Hin; try discriminate; [reflexivity|].
  cbn [map] in Hh, Hnd. injection Hh as Hab Ht. inversion Hnd as [|? ? Hnot Hnd']; subst.
  assert (a = b).
  { destruct (Hin a (or_introl eq_refl)) as [->|Ha]; [reflexivity|].
    exfalso. apply Hnot. rewrite Ht. apply in_map, Ha. }
  subst b. f_equal. apply IH; [exact Ht | exact Hnd'|].
  intros h Hh. destruct (Hin h (or_intror Hh)) as [<-|Hh2]; [|exact Hh2].
  exfalso. apply Hnot. apply in_map, Hh.
Qed.

(** [chain W prev l]: each element of [l] is related by [W] to the element before it ([prev] for the first) *)
Fixpoint chain (W : hdr -> hdr -> Prop) (prev : hdr) (l : list hdr) : Prop :=
  match l with
  | [] => True
  | u :: r => W prev u /\ chain W u r
  end.

Lemma chain_app W p l1 l2 : chain W p (l1 ++ l2) <-> chain W p l1 /\ chain W (last l1 p) l2.
Proof.
  revert p. induction l1 as [|a l1 IH]; intros p; cbn [app chain]; [cbn; tauto|].
  rewrite IH. rewrite (last_cons_default p a l1). tauto.
Qed.

Section boundary.
Variables (drift : Z) (tv : hdr -> hdr -> tvres).

Lemma chain_of_verified (W : hdr -> hdr -> Prop) now t c :
  (forall a b, Verify now drift tv a b = None -> W a b) ->
  chain_verified now drift tv t c -> chain W t c.
Proof.
  intros HW. revert t. induction c as [|a c IH]; intros t; cbn [chain_verified chain]; [auto|].
  intros [Hv Hc]. split; [apply HW, Hv | apply IH, Hc].
Qed.

(** the boundary loop never panics on non-empty chunks *)
Lemma boundaries_no_panic now : forall r prev,
  prev <> [] -> Forall (fun c => c <> []) r -> boundaries now drift tv prev r <> BPanic.
Proof.
  induction r as [|c r IH]; intros prev Hp Hf; cbn [boundaries]; [discriminate|].
  inversion Hf as [|? ? Hc Hr]; subst.
  destruct prev as [|p0 prev']; [contradiction|]. destruct c as [|u c']; [contradiction|].
  destruct (Verify now drift tv (last (p0 :: prev') hdr_nil) u); [discriminate|].
  apply IH; [discriminate | exact Hr].
Qed.

(** a passed boundary check chains the chunks together *)
Lemma boundaries_chain (W : hdr -> hdr -> Prop) now :
  (forall a b, Verify now drift tv a b = None -> W a b) ->
  forall r prev d,
  prev <> [] -> boundaries now drift tv prev r = BOk ->
  Forall (fun c => forall t, W t (hd hdr_nil c) -> chain W t c) r ->
  chain W (last prev d) (concat r).
Proof.
  intros HW. induction r as [|c r IH]; intros prev d Hp Hb Hf; cbn [boundaries concat] in *; [exact I|].
  inversion Hf as [|? ? Hc Hr]; subst.
  destruct prev as [|p0 prev']; [contradiction|]. destruct c as [|u c']; [discriminate|].
  destruct (Verify now drift tv (last (p0 :: prev') hdr_nil) u) eqn:Hv; [discriminate|].
  apply chain_app. split.
  - apply Hc. cbn [hd]. apply HW.
    assert (Hl : last (p0 :: prev') d = last (p0 :: prev') hdr_nil).
    { clear. revert p0. induction prev' as [|x l IHl]; intros p0; [reflexivity|].
      change (last (p0 :: x :: l) d) with (last (x :: l) d).
      change (last (p0 :: x :: l) hdr_nil) with (last (x :: l) hdr_nil). apply IHl. }
    rewrite Hl. exact Hv.
  - apply (IH (u :: c') (last (p0 :: prev') d)); [discriminate | exact Hb | exact Hr].
Qed.

End boundary.

(** * The safety invariant *)

Definition ev_nows (ev : event) : list Z := match ev with ERespond _ now _ => [now] | _ => [] end.
Definition ev_hdrs (ev : event) : list hdr := match ev with ERespond _ _ fs => frame_hdrs fs | _ => [] end.
Definition evs_nows (evs : list event) : list Z := flat_map ev_nows evs.
Definition evs_hdrs (evs : list event) : list hdr := flat_map ev_hdrs evs.

Definition outstanding (s : sess) : list req := s_queue s ++ map snd (s_flight s).

Lemma step_respond drift tv maxcap from s p now fs r fl :
  s_res s = None -> take_flight p (s_flight s) = Some (r, fl) ->
  step drift tv maxcap from s (ERespond p now fs) =
  match do_request now drift tv from r fs with
  | DPanic => set_res s RPanic
  | DErr e => Sess (s_amount s) (s_queue s ++ [r])
                   (match e with PNotFound => s_idle s ++ [p] | _ => s_idle s end) fl (s_coll s) (s_chunks s) None
  | DOk h =>
    match (if 0 <? remaining r h then
             match prepare_requests maxcap (wrap64 (h_height (last h hdr_nil) + 1)) (remaining r h) (r_amount r) with
             | PROk (x :: _) => inr [x]
             | PROk [] | PRPanic => inl RPanic
             | PRFuel => inl RFuel
             end
           else inr []) with
    | inl bad => set_res s bad
    | inr rq =>
      Sess (s_amount s) (s_queue s ++ rq) (s_idle s ++ [p]) fl (s_coll s ++ h) (s_chunks s ++ [h])
           (if s_amount s <=? N.of_nat (length (s_coll s ++ h))
            then Some (finish now drift tv from (s_coll s ++ h) (s_chunks s ++ [h])) else None)
    end
  end.
Proof. intros Hres Htf. unfold step. rewrite Hres, Htf. reflexivity. Qed.

Lemma finish_ok now drift tv from coll chunks l :
  finish now drift tv from coll chunks = ROk l -> l = sort_h coll.
Proof. unfold finish. destruct (verify_chunk_boundaries _ _ _ _ _); congruence. Qed.

Section inv.
Variables (drift : Z) (tv : hdr -> hdr -> tvres) (maxcap : N) (from : hdr).
Variables (start amount : N).
Hypothesis Hnil : h_nil from = false.
Hypothesis Hbound : start + amount < two64.

(** [u] passed Verify against [t] at one of the clock readings [nows] *)
Definition V (nows : list Z) (t u : hdr) : Prop :=
  exists now, In now nows /\ Verify now drift tv t u = None.

(** a collected header: it was sent by a peer and passed Validate *)
Definition good (U : list hdr) (h : hdr) : Prop := In h U /\ h_ok h = true.

(** a collected chunk: non-empty, consecutive heights, verified by VerifyRange against [from]
    at one of the clock readings *)
Definition chunk_ok (nows : list Z) (c : list hdr) : Prop :=
  chunk_shape c /\ exists now, In now nows /\ chain_verified now drift tv from c.

Record Live (nows : list Z) (U : list hdr) (s : sess) : Prop := {
  lv_amount : s_amount s = amount;
  lv_cnt : forall x, (cnt x (map h_height (s_coll s)) + cnt_reqs x (outstanding s))%nat = ind start amount x;
  lv_sum : N.of_nat (length (s_coll s)) + sum_amounts (outstanding s) = amount;
  lv_req : Forall (fun r => 1 <= r_amount r /\ start <= r_origin r /\ r_origin r + r_amount r <= start + amount)
                  (outstanding s);
  lv_good : Forall (good U) (s_coll s);
  lv_concat : concat (s_chunks s) = s_coll s;
  lv_chunks : Forall (chunk_ok nows) (s_chunks s) }.

(** the returned slice: exactly the requested heights, sent and validated headers, and one
    Verify chain from [from] *)
Definition Final (nows : list Z) (U : list hdr) (res : list hdr) : Prop :=
  map h_height res = seqN start (N.to_nat amount) /\ Forall (good U) res /\ chain (V nows) from res.

Definition Inv (nows : list Z) (U : list hdr) (s : sess) : Prop :=
  match s_res s with
  | None => Live nows U s
  | Some (ROk l) => Final nows U l
  | Some (RErr e) => e <> ERangeMixUp      (* only the range test itself reports a mixed-up range *)
  | Some RPanic | Some RFuel => False
  end.

Lemma V_mono nows nows' t u : incl nows nows' -> V nows t u -> V nows' t u.
Proof. intros Hi (now & Hin & Hv). exists now. split; [apply Hi, Hin | exact Hv]. Qed.

Lemma good_mono U U' h : incl U U' -> good U h -> good U' h.
Proof. intros HU (HinU & Hok). split; [apply HU, HinU | exact Hok]. Qed.

Lemma Forall_good_mono U U' l : incl U U' -> Forall (good U) l -> Forall (good U') l.
Proof. intros. eapply Forall_impl; [|eassumption]. intros h. apply good_mono; assumption. Qed.

Lemma chunk_ok_mono nows nows' c : incl nows nows' -> chunk_ok nows c -> chunk_ok nows' c.
Proof. intros Hi (Hs & now & Hin & Hv). split; [exact Hs|]. exists now. split; [apply Hi, Hin | exact Hv]. Qed.

Lemma chain_mono (W W' : hdr -> hdr -> Prop) p l :
  (forall a b, W a b -> W' a b) -> chain W p l -> chain W' p l.
Proof.
  intros HW. revert p. induction l as [|u l IH]; intros p; cbn [chain]; [auto|].
  intros [H1 H2]. split; [apply HW, H1 | apply IH, H2].
Qed.

Lemma Inv_mono nows nows' U U' s : incl nows nows' -> incl U U' -> Inv nows U s -> Inv nows' U' s.
Proof.
  intros Hn HU. unfold Inv. destruct (s_res s) as [[l|e| |]|]; auto.
  - intros (Hh & Hg & Hc). split; [exact Hh|]. split; [eapply Forall_good_mono; eauto|].
    eapply chain_mono; [|exact Hc]. intros a b. apply V_mono, Hn.
  - intros [H1 H2 H3 H4 H5 H6 H7]. constructor; auto.
    + eapply Forall_good_mono; eauto.
    + eapply Forall_impl; [|exact H7]. intros c. apply chunk_ok_mono, Hn.
Qed.

Lemma sum_zero_nil (P : req -> Prop) l :
  (forall r, P r -> 1 <= r_amount r) -> Forall P l -> sum_amounts l = 0 -> l = [].
Proof.
  intros HP Hf Hs. destruct l as [|r l]; [reflexivity|].
  inversion Hf as [|? ? Hr _]; subst. apply HP in Hr. cbn in Hs. lia.
Qed.

(** the collector has enough headers: the sorted chunks tile the range, the sorted slice is their
    concatenation; the boundary check either fails (an error) or makes it one chain *)
Lemma finish_inv nows U s now :
  Live nows U s -> In now nows -> amount <= N.of_nat (length (s_coll s)) ->
  match finish now drift tv from (s_coll s) (s_chunks s) with
  | ROk l => Final nows U l
  | RErr e => e <> ERangeMixUp
  | RPanic | RFuel => False
  end.
Proof.
  intros [_ Hc Hs Hr Hg Hcat Hch] Hnow Hlen.
  assert (Hz : sum_amounts (outstanding s) = 0) by lia.
  assert (Hnil' : outstanding s = []).
  { eapply sum_zero_nil; [|exact Hr|exact Hz]. cbn. intros r. lia. }
  assert (Hcnt : forall x, cnt x (map h_height (s_coll s)) = ind start amount x).
  { intros x. specialize (Hc x). rewrite Hnil' in Hc. cbn in Hc. lia. }
  set (cs := sort_c (s_chunks s)).
  assert (Hcs_ok : Forall (chunk_ok nows) cs) by (apply sort_c_Forall, Hch).
  assert (Hcs_shape : Forall chunk_shape cs).
  { eapply Forall_impl; [|exact Hcs_ok]. intros c [H _]. exact H. }
  assert (Hcs_ne : Forall (fun c => c <> []) cs).
  { eapply Forall_impl; [|exact Hcs_shape]. intros c [H _]. exact H. }
  assert (Hempty : existsb is_nil (s_chunks s) = false).
  { destruct (existsb is_nil (s_chunks s)) eqn:E; [|reflexivity].
    apply existsb_exists in E as (c & Hin & Hc0). rewrite Forall_forall in Hch.
    destruct (Hch c Hin) as [[Hne _] _]. destruct c; [contradiction | discriminate]. }
  (* the sorted chunks are the sorted slice *)
  assert (Hheights : heights (concat cs) = seqN start (N.to_nat amount)).
  { apply tiling; [apply sort_c_sorted | exact Hcs_shape|].
    intros x. unfold cs. rewrite sort_c_cnt, Hcat. apply Hcnt. }
  assert (Hsorted : map h_height (sort_h (s_coll s)) = seqN start (N.to_nat amount)).
  { apply sort_h_heights. intros x. rewrite N2Nat.id. apply Hcnt. }
  assert (Heq : sort_h (s_coll s) = concat cs).
  { apply eq_by_heights.
    - unfold heights. rewrite Hsorted. symmetry. exact Hheights.
    - unfold heights. rewrite Hsorted. apply NoDup_seqN.
    - intros h Hh. apply (proj1 (sort_h_In _ _)) in Hh. rewrite <- Hcat in Hh.
      apply in_concat_iff in Hh as (c & Hc' & Hhc). apply in_concat_iff. exists c.
      split; [apply (proj2 (sort_c_In _ _)), Hc' | exact Hhc]. }
  unfold finish, verify_chunk_boundaries. rewrite Hnil, Hempty. fold cs.
  assert (HW : forall a b, Verify now drift tv a b = None -> V nows a b).
  { intros a b Hv. exists now. split; assumption. }
  assert (Hgood' : Forall (good U) (sort_h (s_coll s))).
  { apply Forall_forall. intros h Hin. apply (proj1 (sort_h_In _ _)) in Hin.
    rewrite Forall_forall in Hg. apply Hg, Hin. }
  destruct cs as [|c r] eqn:Ecs.
  - split; [exact Hsorted|]. split; [exact Hgood'|]. rewrite Heq. exact I.
  - pose proof (Forall_inv Hcs_ok) as [[Hcne _] (nowc & Hnowc & Hvc)].
    destruct (boundaries now drift tv c r) eqn:Hb.
    + split; [exact Hsorted|]. split; [exact Hgood'|]. rewrite Heq. cbn [concat].
      apply chain_app. split.
      * eapply chain_of_verified; [|exact Hvc]. intros a b Hv. exists nowc. split; assumption.
      * apply (boundaries_chain drift tv (V nows) now HW r c from Hcne Hb).
        apply Forall_forall. intros c' Hc' t Ht.
        pose proof (Forall_inv_tail Hcs_ok) as Hr_ok. rewrite Forall_forall in Hr_ok.
        destruct (Hr_ok c' Hc') as [[Hne' _] (now' & Hnow' & Hv')].
        destruct c' as [|u c'']; [contradiction|]. cbn [hd] in Ht. cbn [chain_verified] in Hv'.
        cbn [chain]. split; [exact Ht|]. destruct Hv' as [_ Hv''].
        eapply chain_of_verified; [|exact Hv'']. intros a b Hv. exists now'. split; assumption.
    + discriminate.
    + discriminate.
Qed.

(** the state after a verified chunk has been handed to the collector, before its test *)
Lemma accept_live nows U s p now fs r flight' h :
  Live (now :: nows) (frame_hdrs fs ++ U) s ->
  take_flight p (s_flight s) = Some (r, flight') -> do_request now drift tv from r fs = DOk h ->
  let k := N.of_nat (length h) in
  let rq := if 0 <? r_amount r - k then [Req (r_origin r + k) (r_amount r - k)] else [] in
  Live (now :: nows) (frame_hdrs fs ++ U)
       (Sess (s_amount s) (s_queue s ++ rq) (s_idle s ++ [p]) flight' (s_coll s ++ h) (s_chunks s ++ [h]) None).
Proof.
  intros Hmono Htf Hdo. cbv zeta.
    destruct (take_flight_spec _ _ _ _ Htf) as (Hin & Hc & Hs & Hsub).
    destruct Hmono as [H1 H2 H3 H4 H5 H6 H7].
    assert (Hr : 1 <= r_amount r /\ start <= r_origin r /\ r_origin r + r_amount r <= start + amount).
    { rewrite Forall_forall in H4. apply H4. unfold outstanding. apply in_or_app. right.
      apply in_map_iff. exists (p, r). split; [reflexivity | exact Hin]. }
      destruct (do_request_ok drift tv now from r fs h Hnil Hdo) as (Hne & Hlen & Hincl & Hok & Hver & Hcons & Hheights).
      set (k := N.of_nat (length h)) in *.
      assert (Hk1 : 1 <= k) by (subst k; destruct h; [contradiction | cbn [length]; lia]).
      set (rq := if 0 <? r_amount r - k then [Req (r_origin r + k) (r_amount r - k)] else []).
      set (mid := Sess (s_amount s) (s_queue s ++ rq) (s_idle s ++ [p]) flight' (s_coll s ++ h) (s_chunks s ++ [h]) None).
      assert (Hmid : Live (now :: nows) (frame_hdrs fs ++ U) mid).
      { constructor; subst mid; cbn [s_amount s_coll s_chunks s_queue s_flight]; auto.
        * intros x. specialize (H2 x). unfold outstanding in *. cbn [s_queue s_flight] in *.
          rewrite map_app, cnt_app, Hheights, cnt_seqN. fold k.
          rewrite !cnt_reqs_app in *. rewrite Hc in H2.
          assert (Hsplit : ind (r_origin r) (r_amount r) x =
                           (ind (r_origin r) k x + cnt_reqs x rq)%nat).
          { subst rq. destruct (N.ltb_spec 0 (r_amount r - k)) as [Hpos|Hz]; cbn [cnt_reqs r_origin r_amount].
            - replace (r_amount r) with (k + (r_amount r - k)) at 1 by lia. rewrite ind_split. lia.
            - replace (r_amount r) with k by lia. lia. }
          lia.
        * unfold outstanding in *. cbn [s_queue s_flight] in *.
          rewrite app_length. rewrite !sum_amounts_app in *. rewrite Hs in H3.
          assert (sum_amounts rq = r_amount r - k).
          { subst rq. destruct (N.ltb_spec 0 (r_amount r - k)); cbn; lia. }
          fold k. lia.
        * unfold outstanding in *. cbn [s_queue s_flight] in *.
          rewrite Forall_forall in *. intros q Hq.
          apply in_app_or in Hq as [Hq|Hq].
          -- apply in_app_or in Hq as [Hq|Hq]; [apply H4, in_or_app; auto|].
             subst rq. destruct (N.ltb_spec 0 (r_amount r - k)); [|destruct Hq].
             destruct Hq as [<-|[]]. cbn. lia.
          -- apply H4, in_or_app. right. apply in_map_iff in Hq as (z & <- & Hz).
             apply in_map_iff. exists z. split; [reflexivity | apply Hsub, Hz].
        * apply Forall_app. split; [exact H5|].
          apply Forall_forall. intros u Hu.
          split; [apply in_or_app; left; apply Hincl, Hu|].
          rewrite Forall_forall in Hok; apply Hok, Hu.
        * rewrite concat_app. cbn [concat]. rewrite app_nil_r, H6. reflexivity.
        * apply Forall_app. split; [exact H7|]. constructor; [|constructor].
          split.
          -- split; [exact Hne|]. unfold heights. rewrite Hheights.
             destruct h as [|h0 h']; [contradiction|]. cbn [map seqN] in Hheights. injection Hheights as Hh0 _.
             cbn [first_height]. rewrite Hh0. reflexivity.
          -- exists now. split; [left; reflexivity | exact Hver]. }
      exact Hmid.
Qed.

Lemma step_inv nows U s ev :
  Inv nows U s -> Inv (ev_nows ev ++ nows) (ev_hdrs ev ++ U) (step drift tv maxcap from s ev).
Proof.
  intros HI.
  assert (Hmono : Inv (ev_nows ev ++ nows) (ev_hdrs ev ++ U) s).
  { eapply Inv_mono; [| |exact HI]; apply incl_appr, incl_refl. }
  unfold step. destruct (s_res s) as [r0|] eqn:Hres; [exact Hmono|].
  unfold Inv in HI, Hmono. rewrite Hres in HI, Hmono.
  destruct ev as [p r|p now fs| |]; try (unfold Inv; cbn [s_res set_res]; discriminate).
  - (* dispatch *)
    destruct (remove_peer p (s_idle s)) as [idle'|]; [|unfold Inv; rewrite Hres; exact Hmono].
    destruct (remove_req r (s_queue s)) as [queue'|] eqn:Hrq; [|unfold Inv; rewrite Hres; exact Hmono].
    destruct (remove_req_spec _ _ _ Hrq) as (Hin & Hc & Hs & Hsub).
    destruct Hmono as [H1 H2 H3 H4 H5 H6 H7].
    unfold Inv; cbn [s_res]. constructor; cbn [s_amount s_coll s_chunks s_queue s_flight]; auto.
    + intros x. specialize (H2 x). unfold outstanding in *. cbn [s_queue s_flight map snd cnt_reqs] in *.
      rewrite cnt_reqs_app in *. cbn [cnt_reqs]. rewrite Hc in H2. lia.
    + unfold outstanding in *. cbn [s_queue s_flight map snd] in *.
      rewrite sum_amounts_app in *. cbn [sum_amounts]. rewrite Hs in H3. lia.
    + unfold outstanding in *. cbn [s_queue s_flight map snd] in *.
      rewrite Forall_forall in *. intros q Hq. apply H4.
      apply in_app_or in Hq as [Hq|[<-|Hq]]; apply in_or_app; auto.
  - (* an answer arrives *)
    destruct (take_flight p (s_flight s)) as [[r flight']|] eqn:Htf; [|unfold Inv; rewrite Hres; exact Hmono].
    destruct (take_flight_spec _ _ _ _ Htf) as (Hin & Hc & Hs & Hsub).
    destruct Hmono as [H1 H2 H3 H4 H5 H6 H7].
    assert (Hr : 1 <= r_amount r /\ start <= r_origin r /\ r_origin r + r_amount r <= start + amount).
    { rewrite Forall_forall in H4. apply H4. unfold outstanding. apply in_or_app. right.
      apply in_map_iff. exists (p, r). split; [reflexivity | exact Hin]. }
    destruct (do_request now drift tv from r fs) as [e|h|] eqn:Hdo.
    + (* error: same request again *)
      unfold Inv; cbn [s_res]. constructor; cbn [s_amount s_coll s_chunks s_queue s_flight]; auto.
      * intros x. specialize (H2 x). unfold outstanding in *. cbn [s_queue s_flight] in *.
        rewrite !cnt_reqs_app in *. cbn [cnt_reqs]. rewrite Hc in H2. lia.
      * unfold outstanding in *. cbn [s_queue s_flight] in *.
        rewrite !sum_amounts_app in *. cbn [sum_amounts]. rewrite Hs in H3. lia.
      * unfold outstanding in *. cbn [s_queue s_flight] in *.
        rewrite Forall_forall in *. intros q Hq.
        apply in_app_or in Hq as [Hq|Hq].
        -- apply in_app_or in Hq as [Hq|[<-|[]]]; [apply H4, in_or_app; auto | exact Hr].
        -- apply H4, in_or_app. right. apply in_map_iff in Hq as (z & <- & Hz).
           apply in_map_iff. exists z. split; [reflexivity | apply Hsub, Hz].
    + (* a verified chunk *)
      destruct (do_request_ok drift tv now from r fs h Hnil Hdo) as (Hne & Hlen & Hincl & Hok & Hver & Hcons & Hheights).
      set (k := N.of_nat (length h)) in *.
      assert (Hk1 : 1 <= k) by (subst k; destruct h; [contradiction | cbn [length]; lia]).
      assert (Hrem : remaining r h = r_amount r - k) by (unfold remaining; apply sub64_le; exact Hlen).
      rewrite Hrem.
      assert (Hlast : h_height (last h hdr_nil) + 1 = r_origin r + k).
      { rewrite (last_map_height h hdr_nil Hne), Hheights.
        destruct (length h) as [|n] eqn:Hl; [destruct h; [contradiction | discriminate]|].
        rewrite seqN_last. subst k. lia. }
      (* the state after the chunk has been handed to the collector, before its test *)
      set (rq := if 0 <? r_amount r - k then [Req (r_origin r + k) (r_amount r - k)] else []).
      assert (Hrq : (if 0 <? r_amount r - k
                     then match prepare_requests maxcap (wrap64 (h_height (last h hdr_nil) + 1))
                                                 (r_amount r - k) (r_amount r) with
                          | PROk (x :: _) => inr [x]
                          | PROk [] | PRPanic => inl RPanic
                          | PRFuel => inl RFuel
                          end
                     else inr []) = inr rq).
      { subst rq. destruct (N.ltb_spec 0 (r_amount r - k)) as [Hpos|Hz]; [|reflexivity].
        rewrite Hlast, wrap64_small by lia.
        rewrite prepare_remainder by lia. reflexivity. }
      rewrite Hrq.
      set (mid := Sess (s_amount s) (s_queue s ++ rq) (s_idle s ++ [p]) flight' (s_coll s ++ h) (s_chunks s ++ [h]) None).
      assert (Hmid : Live (now :: nows) (frame_hdrs fs ++ U) mid).
      { constructor; subst mid; cbn [s_amount s_coll s_chunks s_queue s_flight]; auto.
        * intros x. specialize (H2 x). unfold outstanding in *. cbn [s_queue s_flight] in *.
          rewrite map_app, cnt_app, Hheights, cnt_seqN. fold k.
          rewrite !cnt_reqs_app in *. rewrite Hc in H2.
          assert (Hsplit : ind (r_origin r) (r_amount r) x =
                           (ind (r_origin r) k x + cnt_reqs x rq)%nat).
          { subst rq. destruct (N.ltb_spec 0 (r_amount r - k)) as [Hpos|Hz]; cbn [cnt_reqs r_origin r_amount].
            - replace (r_amount r) with (k + (r_amount r - k)) at 1 by lia. rewrite ind_split. lia.
            - replace (r_amount r) with k by lia. lia. }
          lia.
        * unfold outstanding in *. cbn [s_queue s_flight] in *.
          rewrite app_length. rewrite !sum_amounts_app in *. rewrite Hs in H3.
          assert (sum_amounts rq = r_amount r - k).
          { subst rq. destruct (N.ltb_spec 0 (r_amount r - k)); cbn; lia. }
          fold k. lia.
        * unfold outstanding in *. cbn [s_queue s_flight] in *.
          rewrite Forall_forall in *. intros q Hq.
          apply in_app_or in Hq as [Hq|Hq].
          -- apply in_app_or in Hq as [Hq|Hq]; [apply H4, in_or_app; auto|].
             subst rq. destruct (N.ltb_spec 0 (r_amount r - k)); [|destruct Hq].
             destruct Hq as [<-|[]]. cbn. lia.
          -- apply H4, in_or_app. right. apply in_map_iff in Hq as (z & <- & Hz).
             apply in_map_iff. exists z. split; [reflexivity | apply Hsub, Hz].
        * apply Forall_app. split; [exact H5|].
          apply Forall_forall. intros u Hu.
          split; [apply in_or_app; left; apply Hincl, Hu|].
          rewrite Forall_forall in Hok; apply Hok, Hu.
        * rewrite concat_app. cbn [concat]. rewrite app_nil_r, H6. reflexivity.
        * apply Forall_app. split; [exact H7|]. constructor; [|constructor].
          split.
          -- split; [exact Hne|]. unfold heights. rewrite Hheights.
             destruct h as [|h0 h']; [contradiction|]. cbn [map seqN] in Hheights. injection Hheights as Hh0 _.
             cbn [first_height]. rewrite Hh0. reflexivity.
          -- exists now. split; [left; reflexivity | exact Hver]. }
      fold mid.
      destruct (N.leb_spec (s_amount s) (N.of_nat (length (s_coll s ++ h)))) as [Hdone|Hnot].
      * unfold Inv; cbn [s_res].
        pose proof (finish_inv (now :: nows) (frame_hdrs fs ++ U) mid now Hmid (or_introl eq_refl)) as Hfin.
        subst mid; cbn [s_coll s_chunks] in Hfin. apply Hfin. rewrite <- H1. exact Hdone.
      * unfold Inv; cbn [s_res]. exact Hmid.
    + exfalso. exact (do_request_no_panic drift tv now from r fs Hdo).
Qed.

(** the state after an accepted chunk (for states satisfying the invariant) *)
Lemma step_accept nows U s p now fs r fl h :
  Live nows U s -> s_res s = None ->
  take_flight p (s_flight s) = Some (r, fl) -> do_request now drift tv from r fs = DOk h ->
  let k := N.of_nat (length h) in
  let rq := if 0 <? r_amount r - k then [Req (r_origin r + k) (r_amount r - k)] else [] in
  1 <= k /\ k <= r_amount r /\
  step drift tv maxcap from s (ERespond p now fs) =
  Sess (s_amount s) (s_queue s ++ rq) (s_idle s ++ [p]) fl (s_coll s ++ h) (s_chunks s ++ [h])
       (if s_amount s <=? N.of_nat (length (s_coll s ++ h))
        then Some (finish now drift tv from (s_coll s ++ h) (s_chunks s ++ [h])) else None).
Proof.
  intros HL Hres Htf Hdo k rq.
  destruct (take_flight_spec _ _ _ _ Htf) as (Hin & _).
  destruct HL as [_ _ _ H4 _ _ _].
  assert (Hr : 1 <= r_amount r /\ start <= r_origin r /\ r_origin r + r_amount r <= start + amount).
  { rewrite Forall_forall in H4. apply H4. unfold outstanding. apply in_or_app. right.
    apply in_map_iff. exists (p, r). split; [reflexivity | exact Hin]. }
  destruct (do_request_ok drift tv now from r fs h Hnil Hdo) as (Hne & Hlen & _ & _ & _ & _ & Hheights).
  fold k in Hlen.
  assert (Hk1 : 1 <= k) by (subst k; destruct h; [contradiction | cbn [length]; lia]).
  split; [exact Hk1|]. split; [exact Hlen|].
  rewrite (step_respond _ _ _ _ _ _ _ _ _ _ Hres Htf), Hdo.
  assert (Hrem : remaining r h = r_amount r - k) by (unfold remaining; apply sub64_le; exact Hlen).
  rewrite Hrem.
  assert (Hlast : h_height (last h hdr_nil) + 1 = r_origin r + k).
  { rewrite (last_map_height h hdr_nil Hne), Hheights.
    destruct (length h) as [|n] eqn:Hl; [destruct h; [contradiction | discriminate]|].
    rewrite seqN_last. subst k. lia. }
  subst rq. destruct (N.ltb_spec 0 (r_amount r - k)) as [Hpos|Hz]; [|reflexivity].
  rewrite Hlast, wrap64_small by lia. rewrite prepare_remainder by lia. reflexivity.
Qed.

Lemma run_inv evs : forall nows U s,
  Inv nows U s -> Inv (evs_nows evs ++ nows) (evs_hdrs evs ++ U) (run drift tv maxcap from s evs).
Proof.
  induction evs as [|ev evs IH]; intros nows U s HI; [exact HI|].
  cbn [run]. apply (step_inv nows U s ev) in HI. apply IH in HI.
  eapply Inv_mono; [| |exact HI]; unfold evs_nows, evs_hdrs; cbn [flat_map].
  - intros z Hz. rewrite !in_app_iff in *. tauto.
  - intros z Hz. rewrite !in_app_iff in *. tauto.
Qed.

End inv.

(** * The whole call *)

Lemma run_done drift tv maxcap from s evs r :
  s_res s = Some r -> run drift tv maxcap from s evs = s.
Proof.
  revert s. induction evs as [|ev evs IH]; intros s Hr; [reflexivity|].
  cbn [run]. assert (Hs : step drift tv maxcap from s ev = s) by (unfold step; rewrite Hr; reflexivity).
  rewrite Hs. apply IH. exact Hr.
Qed.

Lemma div_le_self a b : 1 <= b -> a / b <= a.
Proof.
  intros Hb. apply N.div_le_upper_bound; [lia|].
  replace a with (1 * a) at 1 by lia. apply N.mul_le_mono_r. exact Hb.
Qed.

(** the three ways GetRangeByHeight can start *)
Lemma get_range_spec drift tv maxcap per from to peers :
  h_height from < two64 -> to < two64 -> 1 <= per ->
  let start := wrap64 (h_height from + 1) in
  let s0 := get_range maxcap per from to peers in
  ((h_height from + 1 = two64 \/ to <= start) /\ s_res s0 = Some (RErr ERangeMixUp)) \/
  (start < to /\ maxcap < to - start /\ s_res s0 = Some RPanic) \/
  (start < to /\ to - start <= maxcap /\ s_res s0 = None /\ s_idle s0 = peers /\ s_flight s0 = [] /\
   Live drift tv from start (to - start) [] [] s0).
Proof.
  intros Hf Ht Hper start s0. subst s0. unfold get_range. fold start.
  destruct (N.eqb_spec (h_height from) (two64 - 1)) as [Hmax|Hnmax].
  { left. split; [left; rewrite Hmax; reflexivity | reflexivity]. }
  cbn [orb].
  destruct (N.leb_spec to start) as [Hle|Hlt]; [left; split; [right; exact Hle | reflexivity]|].
  right. rewrite (sub64_le to start) by lia.
  pose proof (div_le_self (to - start) per Hper) as Hdiv.
  destruct (N.le_gt_cases ((to - start) / per) maxcap) as [Hcap|Hcap].
  - destruct (prepare_requests_ok maxcap start (to - start) per Hper Hcap) as (l & Hl & Hc & Hs & Hfa); [lia|].
    rewrite Hl. destruct (N.ltb_spec maxcap (to - start)) as [Hbig|Hsmall].
    + left. split; [exact Hlt|]. split; [exact Hbig | reflexivity].
    + right. split; [exact Hlt|]. split; [exact Hsmall|]. cbn [s_res s_idle s_flight].
      repeat split; cbn [s_amount s_coll s_chunks s_queue s_flight outstanding map concat]; unfold outstanding; cbn [s_queue s_flight map];
        rewrite ?app_nil_r.
      * intros x. cbn. apply Hc.
      * cbn. lia.
      * eapply Forall_impl; [|exact Hfa]. unfold req_ok. intros r. lia.
      * constructor.
      * constructor.
  - left. split; [exact Hlt|]. split; [lia|].
    unfold prepare_requests. destruct (N.eqb_spec per 0); [reflexivity|].
    destruct (N.ltb_spec maxcap ((to - start) / per)); [reflexivity | lia].
Qed.

Lemma call_at_max_height drift tv maxcap per from to peers evs :
  h_height from + 1 = two64 ->
  GetRangeByHeight drift tv maxcap per from to peers evs = Some (RErr ERangeMixUp).
Proof.
  intros E. unfold GetRangeByHeight, get_range.
  assert (Hm : h_height from = two64 - 1) by lia. rewrite Hm, N.eqb_refl. cbn [orb].
  erewrite run_done; reflexivity.
Qed.

(** outcome of the run from any of the three starts *)
Lemma call_inv drift tv maxcap per from to peers evs :
  h_nil from = false -> h_height from < two64 -> to < two64 -> 1 <= per ->
  let start := wrap64 (h_height from + 1) in
  let out := GetRangeByHeight drift tv maxcap per from to peers evs in
  ((h_height from + 1 = two64 \/ to <= start) /\ out = Some (RErr ERangeMixUp)) \/
  (start < to /\ maxcap < to - start /\ out = Some RPanic) \/
  (start < to /\ to - start <= maxcap /\
   Inv drift tv from start (to - start) (evs_nows evs) (evs_hdrs evs)
       (run drift tv maxcap from (get_range maxcap per from to peers) evs)).
Proof.
  intros Hnil Hf Ht Hper start out. subst out. unfold GetRangeByHeight.
  destruct (get_range_spec drift tv maxcap per from to peers Hf Ht Hper) as [(H1 & H2)|[(H1 & H2 & H3)|(H1 & H2 & H3 & _ & _ & H4)]].
  - left. split; [exact H1|]. erewrite run_done; eassumption.
  - right; left. split; [exact H1|]. split; [exact H2|]. erewrite run_done; eassumption.
  - right; right. split; [exact H1|]. split; [exact H2|].
    assert (Hb : wrap64 (h_height from + 1) + (to - wrap64 (h_height from + 1)) < two64) by (fold start; lia).
    pose proof (run_inv drift tv maxcap from _ _ Hnil Hb evs [] [] (get_range maxcap per from to peers)) as HI.
    rewrite !app_nil_r in HI. apply HI. unfold Inv. fold start. rewrite H3. exact H4.
Qed.

(** * C05 *)

(** [u] passed Verify against [t] at the clock reading of one of the answers *)
Definition verified_during (drift : Z) (tv : hdr -> hdr -> tvres) (evs : list event) (t u : hdr) : Prop :=
  exists now, In now (evs_nows evs) /\ Verify now drift tv t u = None.

Theorem result_shape drift tv maxcap per from to peers evs res :
  h_nil from = false -> h_height from < two64 -> to < two64 -> 1 <= per ->
  GetRangeByHeight drift tv maxcap per from to peers evs = Some (ROk res) ->
  h_height from + 1 < to /\
  res <> [] /\
  map h_height res = seqN (h_height from + 1) (N.to_nat (to - (h_height from + 1))) /\
  (forall h, In h res -> h_height h < to /\ h_ok h = true /\ In h (evs_hdrs evs)) /\
  chain (verified_during drift tv evs) from res.
Proof.
  intros Hnil Hf Ht Hper Hout.
  destruct (call_inv drift tv maxcap per from to peers evs Hnil Hf Ht Hper) as [(_ & H)|[(_ & _ & H)|(H1 & H2 & HI)]];
    try congruence.
  unfold GetRangeByHeight in Hout. unfold Inv in HI. rewrite Hout in HI.
  destruct HI as (Hh & Hg & Hc).
  (* the first header verifies against from: so from is below the start, no wrap-around *)
  assert (Hlen : length res = N.to_nat (to - wrap64 (h_height from + 1))).
  { rewrite <- (map_length h_height res), Hh. apply seqN_length. }
  assert (Hne : res <> []) by (intros ->; cbn in Hlen; lia).
  assert (Hw : wrap64 (h_height from + 1) = h_height from + 1).
  { destruct res as [|u res']; [contradiction|]. cbn [chain] in Hc. destruct Hc as [(now & _ & Hv) _].
    apply verify_increases in Hv. cbn [map] in Hh.
    destruct (N.to_nat (to - wrap64 (h_height from + 1))) as [|n]; [discriminate|]. cbn [seqN] in Hh.
    injection Hh as Hu _. unfold wrap64 in *.
    destruct (N.eq_dec (h_height from + 1) two64) as [E|E]; [|apply N.mod_small; lia].
    rewrite E, N.mod_same in Hu by discriminate. lia. }
  rewrite Hw in *.
  split; [exact H1|]. split; [exact Hne|]. split; [exact Hh|]. split; [|exact Hc].
  intros h Hin. rewrite Forall_forall in Hg. destruct (Hg h Hin) as (Ha & Hb).
  apply (in_map h_height) in Hin. rewrite Hh in Hin. apply In_seqN in Hin.
  split; [lia|]. split; assumption.
Qed.

(** every request without a height to return: ErrRangeMixUp before any event *)
Theorem degenerate_is_error drift tv maxcap per from to peers evs :
  h_height from < two64 -> to <= h_height from + 1 ->
  GetRangeByHeight drift tv maxcap per from to peers evs = Some (RErr ERangeMixUp).
Proof.
  intros Hlt Hle. unfold GetRangeByHeight, get_range.
  destruct (N.eqb_spec (h_height from) (two64 - 1)) as [Hmax|Hnmax].
  - cbn [orb]. erewrite run_done; reflexivity.
  - rewrite (wrap64_small (h_height from + 1)) by lia.
    destruct (N.leb_spec to (h_height from + 1)) as [_|Hc]; [|lia].
    cbn [orb]. erewrite run_done; reflexivity.
Qed.

(** no answer of any peer, in any order, makes the call panic (or the model run out of fuel) *)
Theorem no_response_crashes drift tv maxcap per from to peers evs :
  h_nil from = false -> h_height from < two64 -> to < two64 -> 1 <= per ->
  to - (h_height from + 1) <= maxcap ->
  GetRangeByHeight drift tv maxcap per from to peers evs <> Some RPanic /\
  GetRangeByHeight drift tv maxcap per from to peers evs <> Some RFuel.
Proof.
  intros Hnil Hf Ht Hper Hcap.
  destruct (call_inv drift tv maxcap per from to peers evs Hnil Hf Ht Hper) as [(_ & H)|[(Hlt & H' & H)|(H1 & H2 & HI)]].
  - rewrite H. split; discriminate.
  - exfalso. destruct (N.eq_dec (h_height from + 1) two64) as [E|E].
    + rewrite (call_at_max_height _ _ _ _ _ _ _ _ E) in H. discriminate.
    + rewrite (wrap64_small (h_height from + 1)) in * by lia. lia.
  - unfold GetRangeByHeight. unfold Inv in HI.
    destruct (s_res (run drift tv maxcap from (get_range maxcap per from to peers) evs)) as [[l|e| |]|];
      try contradiction; split; discriminate.
Qed.

(** the precondition of [no_response_crashes] is needed: a range longer than any slice *)
Theorem huge_range_panics drift tv maxcap per from to peers evs :
  h_height from + 1 < two64 -> to < two64 -> 1 <= per ->
  h_height from + 1 < to -> maxcap < to - (h_height from + 1) ->
  GetRangeByHeight drift tv maxcap per from to peers evs = Some RPanic.
Proof.
  intros Hf Ht Hper Hlt Hcap. unfold GetRangeByHeight.
  destruct (get_range_spec drift tv maxcap per from to peers ltac:(lia) Ht Hper) as [(H1 & H2)|[(H1 & H2 & H3)|(H1 & H2 & _)]];
    rewrite (wrap64_small _ Hf) in *; try lia.
  erewrite run_done; eassumption.
Qed.

(** the call returns an error only for a reason *)
Lemma step_err drift tv maxcap from s ev e :
  s_res s = None -> s_res (step drift tv maxcap from s ev) = Some (RErr e) ->
  (e = ECtx /\ ev = ECtxDone) \/ (e = EClosed /\ ev = EStop) \/
  (e = ENotChain /\ exists p now fs, ev = ERespond p now fs).
Proof.
  intros Hres. unfold step. rewrite Hres.
  destruct ev as [p r|p now fs| |]; cbn [s_res set_res].
  - destruct (remove_peer p (s_idle s)); [destruct (remove_req r (s_queue s))|]; cbn [s_res]; congruence.
  - assert (Hfin : forall coll chunks, Some (finish now drift tv from coll chunks) = Some (RErr e) ->
                   (e = ECtx /\ ERespond p now fs = ECtxDone) \/ (e = EClosed /\ ERespond p now fs = EStop) \/
                   (e = ENotChain /\ exists p' now' fs', ERespond p now fs = ERespond p' now' fs')).
    { intros coll chunks. unfold finish. destruct (verify_chunk_boundaries _ _ _ _ _); try discriminate;
        (intros [= <-]; right; right; split; [reflexivity|]; eauto). }
    destruct (take_flight p (s_flight s)) as [[r fl]|]; [|congruence].
    destruct (do_request now drift tv from r fs) as [e'|h|]; cbn [s_res set_res]; try congruence.
    destruct (0 <? remaining r h).
    + destruct (prepare_requests maxcap _ _ _) as [| |[|x l]]; cbn [s_res set_res]; try congruence.
      destruct (_ <=? _); [apply Hfin | congruence].
    + cbn [s_res]. destruct (_ <=? _); [apply Hfin | congruence].
  - intros [= <-]. auto.
  - intros [= <-]. auto.
Qed.

Lemma run_err drift tv maxcap from evs : forall s e,
  s_res s = None -> s_res (run drift tv maxcap from s evs) = Some (RErr e) ->
  (e = ECtx /\ In ECtxDone evs) \/ (e = EClosed /\ In EStop evs) \/
  (e = ENotChain /\ exists p now fs, In (ERespond p now fs) evs).
Proof.
  induction evs as [|ev evs IH]; intros s e Hres Hout; [cbn in Hout; congruence|].
  cbn [run] in Hout.
  destruct (s_res (step drift tv maxcap from s ev)) as [r|] eqn:Hst.
  - rewrite (run_done _ _ _ _ _ _ _ Hst) in Hout. rewrite Hst in Hout. injection Hout as ->.
    destruct (step_err _ _ _ _ _ _ _ Hres Hst) as [(-> & ->)|[(-> & ->)|(-> & p & now & fs & ->)]].
    + left. split; [reflexivity | left; reflexivity].
    + right; left. split; [reflexivity | left; reflexivity].
    + right; right. split; [reflexivity|]. exists p, now, fs. left. reflexivity.
  - destruct (IH _ _ Hst Hout) as [(-> & Hin)|[(-> & Hin)|(-> & p & now & fs & Hin)]].
    + left. split; [reflexivity | right; exact Hin].
    + right; left. split; [reflexivity | right; exact Hin].
    + right; right. split; [reflexivity|]. exists p, now, fs. right. exact Hin.
Qed.

Theorem errors_have_a_cause drift tv maxcap per from to peers evs e :
  h_height from < two64 -> to < two64 -> 1 <= per ->
  GetRangeByHeight drift tv maxcap per from to peers evs = Some (RErr e) ->
  (e = ERangeMixUp /\ to <= h_height from + 1) \/
  (e = ECtx /\ In ECtxDone evs) \/ (e = EClosed /\ In EStop evs) \/
  (e = ENotChain /\ exists p now fs, In (ERespond p now fs) evs).
Proof.
  intros Hf Ht Hper. unfold GetRangeByHeight.
  destruct (get_range_spec drift tv maxcap per from to peers Hf Ht Hper) as [(H1 & H2)|[(_ & _ & H2)|(_ & _ & H2 & _)]].
  - rewrite (run_done _ _ _ _ _ _ _ H2), H2. intros [= <-]. left. split; [reflexivity|].
    destruct H1 as [H1|H1]; [lia|]. pose proof (wrap64_le (h_height from + 1)).
    destruct (N.eq_dec (h_height from + 1) two64) as [E|E]; [lia|].
    rewrite (wrap64_small (h_height from + 1)) in H1 by lia. exact H1.
  - rewrite (run_done _ _ _ _ _ _ _ H2), H2. discriminate.
  - intros Hout. right. exact (run_err _ _ _ _ _ _ _ H2 Hout).
Qed.

(** ** examples (non-vacuity) *)

(** header n of a chain whose hash identity is its height; [ex_fork n] = a second header at height n *)
Definition ex_hdr (n : N) : hdr := Hdr false 1 n 0%Z n (n - 1) true.
Definition ex_fork (n : N) : hdr := Hdr false 1 n 0%Z (100 + n) (100 + n - 1) true.
(** type-level Verify that demands the hash link of adjacent headers and accepts any non-adjacent one *)
Definition ex_tv (t u : hdr) : tvres :=
  if h_height u =? h_height t + 1 then (if h_prev u =? h_id t then TVOk else TVPlain 1) else TVOk.



(** * C18: honest peers *)

Lemma frame_hdrs_app a b : frame_hdrs (a ++ b) = frame_hdrs a ++ frame_hdrs b.
Proof. unfold frame_hdrs. apply flat_map_app. Qed.

Lemma frame_hdrs_map (c : N -> hdr) l : frame_hdrs (map (fun n => FHdr (c n)) l) = map c l.
Proof. induction l as [|x l IH]; [reflexivity|]. cbn. f_equal. exact IH. Qed.

Lemma seqN_firstn j : forall o k, firstn j (seqN o k) = seqN o (Nat.min j k).
Proof.
  induction j as [|j IH]; intros o k; [reflexivity|].
  destruct k as [|k]; [reflexivity|]. cbn [seqN firstn Nat.min]. f_equal. apply IH.
Qed.

(** a prefix of an honest run of headers is itself such a run *)
Lemma prefix_of_run (g : N -> frame) fs rest o k :
  fs ++ rest = map g (seqN o k) -> fs = map g (seqN o (length fs)) /\ (length fs <= k)%nat.
Proof.
  intros H.
  assert (Hlen : (length fs <= k)%nat).
  { apply (f_equal (@length _)) in H. rewrite app_length, map_length, seqN_length in H. lia. }
  split; [|exact Hlen].
  apply (f_equal (firstn (length fs))) in H.
  rewrite firstn_app, Nat.sub_diag, firstn_all, firstn_O, app_nil_r in H.
  rewrite firstn_map, seqN_firstn in H. rewrite Nat.min_l in H by exact Hlen. exact H.
Qed.

Lemma takeN_all {A} n (l : list A) : N.of_nat (length l) <= n -> takeN n l = l.
Proof.
  revert n. induction l as [|x l IH]; intros n Hn; [reflexivity|].
  cbn [takeN]. cbn [length] in Hn. destruct (N.eqb_spec n 0); [lia|]. f_equal. apply IH. lia.
Qed.



Section honest.
Variables (drift : Z) (tv : hdr -> hdr -> tvres) (maxcap : N) (from : hdr).
Variables (c : N -> hdr) (top : N).
Hypothesis Hnil : h_nil from = false.
Hypothesis Hch : forall n, n <= top -> h_height (c n) = n.

(** an answer is honest when it is a prefix (the whole, or cut short by a timeout or a
    disconnect, possibly to nothing) of what a server whose store holds the heights 1..a
    of the chain (for some a <= top: the store's head at that moment) answers to the request
    the peer holds *)
Definition honest_ev (s : sess) (ev : event) : Prop :=
  match ev with
  | ERespond p now fs =>
    match take_flight p (s_flight s) with
    | Some (r, _) => exists t a rest, a <= top /\ honest_answer_t c t a r = fs ++ rest
    | None => True
    end
  | _ => True
  end.

Fixpoint honest_run (s : sess) (evs : list event) : Prop :=
  match evs with
  | [] => True
  | ev :: rest => honest_ev s ev /\ honest_run (step drift tv maxcap from s ev) rest
  end.

Definition on_chain (h : hdr) : Prop := h = c (h_height h) /\ h_height h <= top.

Lemma honest_answer_on_chain t a r h :
  a <= top -> In h (frame_hdrs (honest_answer_t c t a r)) -> on_chain h.
Proof.
  intros Ha. unfold honest_answer_t.
  destruct (wrap64 (r_origin r + r_amount r) <=? r_origin r); [intros []|].
  destruct (r_origin r =? 0).
  { destruct (a <? t); [intros []|]. cbn. intros [<-|[]]. unfold on_chain. rewrite Hch by lia.
    split; [reflexivity | lia]. }
  destruct (max_range_request <? r_amount r); [intros []|]. destruct (a <? t); [intros []|].
  destruct (N.ltb_spec a (r_origin r)) as [Hlt|Hge]; [intros []|]. cbn [orb].
  destruct (r_origin r <? t); [intros []|].
  rewrite frame_hdrs_map. intros Hin. apply in_map_iff in Hin as (n & <- & Hn).
  apply In_seqN in Hn. unfold on_chain. rewrite Hch by lia. split; [reflexivity | lia].
Qed.

(** every collected (and every returned) header is the chain's header of its height *)
Definition CI (s : sess) : Prop :=
  Forall on_chain (s_coll s) /\ (forall l, s_res s = Some (ROk l) -> Forall on_chain l).

Lemma step_chain s ev : CI s -> honest_ev s ev -> CI (step drift tv maxcap from s ev).
Proof.
  intros [Hc Hr] Hh. destruct (s_res s) as [r0|] eqn:Hres.
  { unfold step. rewrite Hres. split; [exact Hc|]. rewrite Hres. exact Hr. }
  clear Hr.
  destruct ev as [p r|p now fs| |].
  - unfold step. rewrite Hres.
    destruct (remove_peer p (s_idle s)); [destruct (remove_req r (s_queue s))|];
      (split; cbn [s_coll s_res]; [exact Hc | intros ? Hl; congruence]).
  - unfold honest_ev in Hh.
    destruct (take_flight p (s_flight s)) as [[r fl]|] eqn:Htf.
    2:{ unfold step. rewrite Hres, Htf. split; [exact Hc | intros ? Hl; congruence]. }
    rewrite (step_respond _ _ _ _ _ _ _ _ _ _ Hres Htf).
    destruct Hh as (t & a & rest & Ha & Hrest).
    destruct (do_request now drift tv from r fs) as [e|h|] eqn:Hdo.
    + split; cbn [s_coll s_res]; [exact Hc | discriminate].
    + destruct (do_request_ok drift tv now from r fs h Hnil Hdo) as (_ & _ & Hincl & _).
      assert (Hh : Forall on_chain h).
      { apply Forall_forall. intros x Hx. apply (honest_answer_on_chain t a r); [exact Ha|].
        rewrite Hrest, frame_hdrs_app. apply in_or_app. left. apply Hincl, Hx. }
      assert (Hall : Forall on_chain (s_coll s ++ h)) by (apply Forall_app; split; assumption).
      assert (Hfin : forall rq, CI (Sess (s_amount s) (s_queue s ++ rq) (s_idle s ++ [p]) fl (s_coll s ++ h) (s_chunks s ++ [h])
           (if s_amount s <=? N.of_nat (length (s_coll s ++ h))
            then Some (finish now drift tv from (s_coll s ++ h) (s_chunks s ++ [h])) else None))).
      { intros rq. split; cbn [s_coll s_res]; [exact Hall|].
        destruct (_ <=? _); [|discriminate]. intros l [= Hl]. apply finish_ok in Hl. subst l.
        apply Forall_forall. intros x Hx. apply (proj1 (sort_h_In _ _)) in Hx.
        rewrite Forall_forall in Hall. apply Hall, Hx. }
      destruct (0 <? remaining r h); [|apply Hfin].
      destruct (prepare_requests maxcap _ _ _) as [| |[|x l']]; try apply Hfin;
        (split; cbn [s_coll s_res set_res]; [exact Hc | discriminate]).
    + split; cbn [s_coll s_res set_res]; [exact Hc | discriminate].
  - unfold step. rewrite Hres. split; cbn [s_coll s_res set_res]; [exact Hc | discriminate].
  - unfold step. rewrite Hres. split; cbn [s_coll s_res set_res]; [exact Hc | discriminate].
Qed.

Lemma run_chain evs : forall s, CI s -> honest_run s evs -> CI (run drift tv maxcap from s evs).
Proof.
  induction evs as [|ev evs IH]; intros s Hc Hh; [exact Hc|].
  cbn [run]. destruct Hh as [Hev Hrest]. apply IH; [apply step_chain; assumption | exact Hrest].
Qed.

Lemma on_chain_map l : Forall on_chain l -> l = map c (map h_height l).
Proof.
  induction l as [|h l IH]; intros Hf; [reflexivity|].
  inversion Hf as [|? ? [Hh _] Hl]; subst. cbn [map]. f_equal; [exact Hh | apply IH, Hl].
Qed.

End honest.

(** ** decidable honesty *)

Lemma hdr_eqb_eq a b : hdr_eqb a b = true -> a = b.
Proof.
  destruct a, b. unfold hdr_eqb; cbn. intros H.
  repeat (apply andb_prop in H; destruct H as [H ?]).
  apply Bool.eqb_prop in H. apply Bool.eqb_prop in H0.
  apply N.eqb_eq in H1, H2, H4, H5. apply Z.eqb_eq in H3. subst. reflexivity.
Qed.

Lemma hdr_eqb_refl a : hdr_eqb a a = true.
Proof.
  destruct a. unfold hdr_eqb; cbn.
  rewrite !Bool.eqb_reflx, !N.eqb_refl, Z.eqb_refl. reflexivity.
Qed.

Lemma frame_eqb_eq a b : frame_eqb a b = true -> a = b.
Proof. destruct a, b; cbn; try discriminate; try reflexivity. intros H. f_equal. apply hdr_eqb_eq, H. Qed.

Lemma prefix_b_sound {A} (eqb : A -> A -> bool) :
  (forall a b, eqb a b = true -> a = b) ->
  forall p l, prefix_b eqb p l = true -> exists rest, l = p ++ rest.
Proof.
  intros He. induction p as [|x p IH]; intros l; cbn [prefix_b]; [exists l; reflexivity|].
  destruct l as [|y l]; [discriminate|]. intros H. apply andb_prop in H as [H1 H2].
  apply He in H1. subst y. destruct (IH l H2) as (rest & ->). exists rest. reflexivity.
Qed.

Lemma honest_evs_b_sound drift tv maxcap from c top evs : forall s avs,
  honest_evs_b drift tv maxcap from c top s evs avs = true ->
  honest_run drift tv maxcap from c top s evs.
Proof.
  induction evs as [|ev evs IH]; intros s avs H; [exact I|].
  cbn [honest_evs_b] in H. cbn [honest_run].
  destruct ev as [p r|p now fs| |]; try (split; [exact I | eapply IH; exact H]).
  destruct avs as [|a avs']; [discriminate|].
  apply andb_prop in H as [H1 H2]. split; [|eapply IH; exact H2].
  unfold honest_ev. destruct (take_flight p (s_flight s)) as [[r fl]|]; [|exact I].
  apply andb_prop in H1 as [Ha Hp]. apply N.leb_le in Ha.
  destruct (prefix_b_sound frame_eqb frame_eqb_eq _ _ Hp) as (rest & Hrest).
  exists 1, a, rest. split; assumption.
Qed.

Lemma get_range_fresh maxcap per from to peers :
  s_coll (get_range maxcap per from to peers) = [] /\
  forall l, s_res (get_range maxcap per from to peers) <> Some (ROk l).
Proof.
  unfold get_range. destruct (_ || _); [split; [reflexivity | discriminate]|].
  destruct (prepare_requests _ _ _ _); try (split; [reflexivity | discriminate]).
  destruct (_ <? _); split; try reflexivity; discriminate.
Qed.

(** C18: honest answers only: the call returns exactly the chain's headers from+1 .. to-1 *)
Theorem exact_range drift tv maxcap per from to peers (c : N -> hdr) top evs res :
  h_nil from = false -> h_height from + 1 < two64 -> to < two64 -> 1 <= per ->
  (forall n, n <= top -> h_height (c n) = n) ->
  honest_run drift tv maxcap from c top (get_range maxcap per from to peers) evs ->
  GetRangeByHeight drift tv maxcap per from to peers evs = Some (ROk res) ->
  res = map c (seqN (h_height from + 1) (N.to_nat (to - (h_height from + 1)))).
Proof.
  intros Hnil Hf Ht Hper Hch Hrun Hout.
  destruct (result_shape _ _ _ _ _ _ _ _ _ Hnil ltac:(lia) Ht Hper Hout) as (_ & _ & Hh & _).
  destruct (get_range_fresh maxcap per from to peers) as [Hc0 Hr0].
  assert (HCI : CI c top (get_range maxcap per from to peers)).
  { split; [rewrite Hc0; constructor|]. intros l Hl. exfalso. exact (Hr0 l Hl). }
  pose proof (run_chain drift tv maxcap from c top Hnil Hch evs _ HCI Hrun) as [_ Hfin].
  unfold GetRangeByHeight in Hout. specialize (Hfin res Hout).
  rewrite (on_chain_map c top res Hfin), Hh. reflexivity.
Qed.

(** ** progress *)

Definition mu (s : sess) : N := sum_amounts (outstanding s).

Definition has_peer (p : N) (s : sess) : Prop := In p (s_idle s) \/ In p (map fst (s_flight s)).

Definition not_done (s : sess) : Prop :=
  s_res s = None -> N.of_nat (length (s_coll s)) < s_amount s.

Lemma remove_peer_other q l l' p : remove_peer q l = Some l' -> In p l -> p <> q -> In p l'.
Proof.
  revert l'. induction l as [|x l IH]; intros l'; cbn [remove_peer]; [discriminate|].
  destruct (N.eqb_spec q x) as [->|Hn].
  - intros [= <-] [->|Hin] Hne; [contradiction | exact Hin].
  - destruct (remove_peer q l) as [t|]; [|discriminate]. intros [= <-] [->|Hin] Hne; [left; reflexivity|].
    right. apply (IH t eq_refl Hin Hne).
Qed.

Lemma take_flight_other q l r l' p :
  take_flight q l = Some (r, l') -> In p (map fst l) -> p <> q -> In p (map fst l').
Proof.
  revert r l'. induction l as [|[x a] l IH]; intros r l'; cbn [take_flight]; [discriminate|].
  destruct (N.eqb_spec q x) as [->|Hn].
  - intros [= <- <-]. cbn. intros [->|Hin] Hne; [contradiction | exact Hin].
  - destruct (take_flight q l) as [[r' t']|]; [|discriminate]. intros [= <- <-]. cbn.
    intros [->|Hin] Hne; [left; reflexivity|]. right. apply (IH r' t' eq_refl Hin Hne).
Qed.

Lemma step_not_done drift tv maxcap from s ev :
  not_done s -> not_done (step drift tv maxcap from s ev).
Proof.
  intros Hn. unfold not_done in *. destruct (s_res s) as [r0|] eqn:Hres.
  { unfold step. rewrite Hres. rewrite Hres. discriminate. }
  specialize (Hn eq_refl). unfold step. rewrite Hres.
  destruct ev as [p r|p now fs| |]; cbn [s_res set_res]; try discriminate.
  - destruct (remove_peer p (s_idle s)); [destruct (remove_req r (s_queue s))|]; cbn [s_res s_coll s_amount]; auto.
  - destruct (take_flight p (s_flight s)) as [[r fl]|]; [|auto].
    destruct (do_request now drift tv from r fs) as [e|h|]; cbn [s_res set_res s_coll s_amount]; auto; try discriminate.
    destruct (0 <? remaining r h).
    + destruct (prepare_requests maxcap _ _ _) as [| |[|x l]]; cbn [s_res set_res s_coll s_amount]; try discriminate.
      destruct (N.leb_spec (s_amount s) (N.of_nat (length (s_coll s ++ h)))); [discriminate | auto].
    + cbn [s_res s_coll s_amount].
      destruct (N.leb_spec (s_amount s) (N.of_nat (length (s_coll s ++ h)))); [discriminate | auto].
Qed.

(** a rejected answer leaves the outstanding amount as it was *)
Theorem error_keeps_measure drift tv maxcap from s p now fs r fl e :
  s_res s = None -> take_flight p (s_flight s) = Some (r, fl) -> do_request now drift tv from r fs = DErr e ->
  mu (step drift tv maxcap from s (ERespond p now fs)) = mu s.
Proof.
  intros Hres Htf Hdo. destruct (take_flight_spec _ _ _ _ Htf) as (_ & _ & Hsum & _).
  rewrite (step_respond _ _ _ _ _ _ _ _ _ _ Hres Htf), Hdo.
  unfold mu, outstanding. cbn [s_queue s_flight]. rewrite !sum_amounts_app, Hsum. cbn [sum_amounts]. lia.
Qed.

Section progress.
Variables (drift : Z) (tv : hdr -> hdr -> tvres) (maxcap : N) (from : hdr).
Variables (c : N -> hdr) (top start amount : N).
Hypothesis Hnil : h_nil from = false.
Hypothesis Hch : forall n, n <= top -> h_height (c n) = n.
Hypothesis Hokc : forall n, n <= top -> h_ok (c n) = true.
Hypothesis Htop : top < two64.
Hypothesis Hbound : start + amount < two64.
Hypothesis Hfrom : h_height from < start.

(** the chain's headers pass Verify (at clock reading [now]): against [from] from any
    distance, and each against its predecessor *)
Definition chain_verifies (now : Z) : Prop :=
  forall n, h_height from < n -> n <= top ->
    Verify now drift tv from (c n) = None /\
    (n + 1 <= top -> Verify now drift tv (c n) (c (n + 1)) = None).

Lemma loop_chain now : chain_verifies now -> forall j n t first,
  h_height from < n -> n + N.of_nat j <= top + 1 ->
  (j <> O -> Verify now drift tv t (c n) = None /\ (first = false -> h_height t + 1 = n)) ->
  verify_range_loop now drift tv first t (map c (seqN n j)) = (map c (seqN n j), None).
Proof.
  intros Hcv. induction j as [|j IH]; intros n t first Hn Hj Hfirst; [reflexivity|].
  destruct (Hfirst ltac:(discriminate)) as [Hv Hadj].
  cbn [seqN map verify_range_loop]. rewrite Hv.
  assert (Hhn : h_height (c n) = n) by (apply Hch; lia).
  assert (Hcond : negb first && negb (wrap64 (h_height t + 1) =? h_height (c n)) = false).
  { destruct first; [reflexivity|]. cbn. rewrite (Hadj eq_refl), Hhn, wrap64_small by lia.
    rewrite N.eqb_refl. reflexivity. }
  rewrite Hcond.
  rewrite (IH (n + 1) (c n) false); [reflexivity | lia | lia |].
  intros Hj0. destruct (Hcv n Hn ltac:(lia)) as [_ Hnext]. split; [apply Hnext; lia|].
  intros _. rewrite Hhn. reflexivity.
Qed.

Lemma process_frames_chain l :
  (forall n, In n l -> n <= top) ->
  process_frames (map (fun n => FHdr (c n)) l) = inr (map c l).
Proof.
  induction l as [|n l IH]; intros Hl; [reflexivity|].
  cbn [map process_frames]. rewrite Hokc by (apply Hl; left; reflexivity).
  rewrite IH; [reflexivity|]. intros m Hm. apply Hl. right. exact Hm.
Qed.

(** a non-empty honest run of headers, from a peer that has them, is accepted whole *)
Lemma do_request_honest now r j :
  chain_verifies now -> h_height from < r_origin r -> (1 <= j)%nat -> N.of_nat j <= r_amount r ->
  r_origin r + N.of_nat j <= top + 1 ->
  do_request now drift tv from r (map (fun n => FHdr (c n)) (seqN (r_origin r) j)) =
  DOk (map c (seqN (r_origin r) j)).
Proof.
  intros Hcv Ho Hj Hja Htopj. unfold do_request.
  rewrite takeN_all by (rewrite map_length, seqN_length; exact Hja).
  assert (Hpf : process_responses (map (fun n => FHdr (c n)) (seqN (r_origin r) j)) = inr (map c (seqN (r_origin r) j))).
  { unfold process_responses. destruct j as [|j]; [lia|]. cbn [seqN map].
    change (FHdr (c (r_origin r)) :: map (fun n => FHdr (c n)) (seqN (r_origin r + 1) j))
      with (map (fun n => FHdr (c n)) (seqN (r_origin r) (S j))).
    apply process_frames_chain. intros n Hn. apply In_seqN in Hn. lia. }
  rewrite Hpf. unfold session_verify. rewrite Hnil. unfold VerifyRange.
  destruct j as [|j]; [lia|].
  cbn [seqN map].
  change (c (r_origin r) :: map c (seqN (r_origin r + 1) j)) with (map c (seqN (r_origin r) (S j))).
  rewrite (loop_chain now Hcv (S j) (r_origin r) from true Ho Htopj).
  - cbn [seqN map]. rewrite Hch by lia. rewrite N.eqb_refl. reflexivity.
  - intros _. split; [apply Hcv; lia | discriminate].
Qed.

Lemma do_request_notfound now r : 1 <= r_amount r -> do_request now drift tv from r [FNotFound] = DErr PNotFound.
Proof.
  intros Ha. unfold do_request. cbn [takeN]. destruct (N.eqb_spec (r_amount r) 0); [lia|]. reflexivity.
Qed.

(** any non-empty honest answer is either accepted whole or is the NOT_FOUND of a peer that
    does not have the origin: the peer goes back to the queue in both cases *)
Lemma honest_nonempty_outcome now t a r fs rest :
  chain_verifies now -> 1 <= r_amount r -> h_height from < r_origin r -> a <= top ->
  honest_answer_t c t a r = fs ++ rest -> fs <> [] ->
  (r_origin r <= a /\ do_request now drift tv from r fs = DOk (map c (seqN (r_origin r) (length fs))) /\
   N.of_nat (length fs) <= r_amount r) \/
  ((a < r_origin r \/ r_origin r < t) /\ do_request now drift tv from r fs = DErr PNotFound).
Proof.
  intros Hcv Ha Ho Hatop Hans Hne. unfold honest_answer_t in Hans.
  assert (Hemp : [] = fs ++ rest -> False) by (destruct fs; [contradiction | discriminate]).
  destruct (wrap64 (r_origin r + r_amount r) <=? r_origin r); [destruct (Hemp Hans)|].
  destruct (N.eqb_spec (r_origin r) 0) as [Hz|_]; [lia|].
  destruct (max_range_request <? r_amount r); [destruct (Hemp Hans)|].
  destruct (a <? t); [destruct (Hemp Hans)|].
  destruct ((a <? r_origin r) || (r_origin r <? t)) eqn:Hnf.
  - right. split.
    { apply orb_prop in Hnf as [H|H]; apply N.ltb_lt in H; [left | right]; exact H. }
    destruct fs as [|f fs]; [contradiction|].
    injection Hans as <- Hrest. destruct fs; [|discriminate]. apply do_request_notfound, Ha.
  - apply orb_false_elim in Hnf as [Hge _]. apply N.ltb_ge in Hge.
    left. split; [exact Hge|].
    destruct (prefix_of_run _ _ _ _ _ (eq_sym Hans)) as [Hfs Hlen].
    assert (Hj : (1 <= length fs)%nat) by (destruct fs; [contradiction | cbn; lia]).
    split.
    + rewrite Hfs at 1. apply do_request_honest; try assumption; lia.
    + lia.
Qed.



(** C18 progress: an honest non-empty answer from a peer that has the origin shrinks the
    outstanding amount by the number of headers it carried, all of them are collected,
    and the peer is idle again *)
Theorem honest_progress nows U s p now fs r fl a rest :
  Live drift tv from start amount nows U s -> s_res s = None ->
  take_flight p (s_flight s) = Some (r, fl) ->
  chain_verifies now -> a <= top -> honest_answer c a r = fs ++ rest -> fs <> [] -> r_origin r <= a ->
  let s' := step drift tv maxcap from s (ERespond p now fs) in
  mu s' + N.of_nat (length fs) = mu s /\
  length (s_coll s') = (length (s_coll s) + length fs)%nat /\
  In p (s_idle s').
Proof.
  intros HL Hres Htf Hcv Hatop Hans Hne Hcap s'.
  destruct (take_flight_spec _ _ _ _ Htf) as (Hin & _ & Hsum & _).
  pose proof HL as [_ _ _ H4 _ _ _].
  assert (Hr : 1 <= r_amount r /\ start <= r_origin r /\ r_origin r + r_amount r <= start + amount).
  { rewrite Forall_forall in H4. apply H4. unfold outstanding. apply in_or_app. right.
    apply in_map_iff. exists (p, r). split; [reflexivity | exact Hin]. }
  destruct (honest_nonempty_outcome now 1 a r fs rest Hcv ltac:(lia) ltac:(lia) Hatop Hans Hne) as [(_ & Hdo & Hle)|(Hlt & _)]; [|lia].
  destruct (step_accept drift tv maxcap from start amount Hnil Hbound nows U s p now fs r fl _ HL Hres Htf Hdo) as (Hk1 & Hk2 & Hstep).
  subst s'. rewrite Hstep. rewrite map_length, seqN_length in *.
  set (k := N.of_nat (length fs)) in *.
  unfold mu, outstanding. cbn [s_queue s_flight s_coll s_idle].
  rewrite !sum_amounts_app, Hsum. split; [|split].
  - destruct (N.ltb_spec 0 (r_amount r - k)); cbn [sum_amounts r_amount]; lia.
  - rewrite app_length, map_length, seqN_length. reflexivity.
  - apply in_or_app. right. left. reflexivity.
Qed.

(** a peer whose answers are honest and never empty is never lost by the session *)
Lemma step_has_peer nows U p s ev :
  Inv drift tv from start amount nows U s -> honest_ev c top s ev ->
  (forall now fs, ev = ERespond p now fs -> fs <> [] /\ chain_verifies now) ->
  has_peer p s -> has_peer p (step drift tv maxcap from s ev).
Proof.
  intros HI Hh Hrel Hhas. destruct (s_res s) as [r0|] eqn:Hres.
  { unfold step. rewrite Hres. exact Hhas. }
  unfold Inv in HI. rewrite Hres in HI.
  destruct ev as [q r|q now fs| |].
  - unfold step. rewrite Hres.
    destruct (remove_peer q (s_idle s)) as [idle'|] eqn:Hrp; [|exact Hhas].
    destruct (remove_req r (s_queue s)) as [queue'|]; [|exact Hhas].
    unfold has_peer in *. cbn [s_idle s_flight map fst].
    destruct Hhas as [Hi|Hf]; [|right; right; exact Hf].
    destruct (N.eq_dec p q) as [->|Hne]; [right; left; reflexivity|].
    left. eapply remove_peer_other; eauto.
  - destruct (take_flight q (s_flight s)) as [[r fl]|] eqn:Htf.
    2:{ unfold step. rewrite Hres, Htf. exact Hhas. }
    rewrite (step_respond _ _ _ _ _ _ _ _ _ _ Hres Htf).
    destruct (N.eq_dec p q) as [<-|Hne].
    + (* the reliable peer answers *)
      destruct (Hrel now fs eq_refl) as [Hne Hcv].
      unfold honest_ev in Hh. rewrite Htf in Hh. destruct Hh as (t & a & rest & Hatop & Hans).
      destruct (take_flight_spec _ _ _ _ Htf) as (Hin & _).
      pose proof HI as [_ _ _ H4 _ _ _].
      assert (Hr : 1 <= r_amount r /\ start <= r_origin r /\ r_origin r + r_amount r <= start + amount).
      { rewrite Forall_forall in H4. apply H4. unfold outstanding. apply in_or_app. right.
        apply in_map_iff. exists (p, r). split; [reflexivity | exact Hin]. }
      destruct (honest_nonempty_outcome now t a r fs rest Hcv ltac:(lia) ltac:(lia) Hatop Hans Hne) as [(_ & Hdo & _)|(_ & Hdo)];
        rewrite Hdo.
      * destruct (if 0 <? _ then _ else _) as [bad|rq]; unfold has_peer; cbn [s_idle s_flight set_res].
        -- exact Hhas.
        -- left. apply in_or_app. right. left. reflexivity.
      * unfold has_peer; cbn [s_idle]. left. apply in_or_app. right. left. reflexivity.
    + (* somebody else answers *)
      assert (Hkeep : In p (s_idle s) \/ In p (map fst fl)).
      { destruct Hhas as [Hi|Hf]; [left; exact Hi | right; eapply take_flight_other; eauto]. }
      destruct (do_request now drift tv from r fs) as [e|h|].
      * unfold has_peer; cbn [s_idle s_flight]. destruct Hkeep as [Hi|Hf]; [left | right; exact Hf].
        destruct e; try exact Hi. apply in_or_app. left. exact Hi.
      * destruct (if 0 <? _ then _ else _) as [bad|rq]; unfold has_peer; cbn [s_idle s_flight set_res].
        -- exact Hhas.
        -- destruct Hkeep as [Hi|Hf]; [left; apply in_or_app; left; exact Hi | right; exact Hf].
      * exact Hhas.
  - unfold step. rewrite Hres. exact Hhas.
  - unfold step. rewrite Hres. exact Hhas.
Qed.

(** events of a run, with the premise about the reliable peer's answers *)
Definition reliable (p : N) (evs : list event) : Prop :=
  forall now fs, In (ERespond p now fs) evs -> fs <> [] /\ chain_verifies now.

Lemma run_no_deadlock p evs : forall nows U s,
  Inv drift tv from start amount nows U s -> not_done s -> has_peer p s ->
  honest_run drift tv maxcap from c top s evs -> reliable p evs ->
  let s' := run drift tv maxcap from s evs in
  s_amount s = amount \/ s_res s <> None ->
  s_res s' = None -> s_flight s' <> [] \/ (s_queue s' <> [] /\ In p (s_idle s')).
Proof.
  induction evs as [|ev evs IH]; intros nows U s HI Hnd Hhas Hrun Hrel s' _ Hres'.
  - subst s'. cbn [run] in *. unfold Inv in HI. rewrite Hres' in HI.
    destruct HI as [H1 _ H3 _ _ _ _]. specialize (Hnd Hres'). rewrite H1 in Hnd.
    destruct (s_flight s) as [|x fl] eqn:Hfl; [|left; discriminate]. right.
    unfold outstanding in H3. rewrite Hfl in H3. cbn [map] in H3. rewrite app_nil_r in H3.
    split.
    + intros Hq. rewrite Hq in H3. cbn in H3. lia.
    + destruct Hhas as [Hi|Hf]; [exact Hi|]. rewrite Hfl in Hf. destruct Hf.
  - cbn [run] in s'. destruct Hrun as [Hev Hrun].
    apply (IH (ev_nows ev ++ nows) (ev_hdrs ev ++ U) (step drift tv maxcap from s ev)); auto.
    + apply step_inv; assumption.
    + apply step_not_done, Hnd.
    + eapply step_has_peer; eauto. intros now fs ->. apply Hrel. left. reflexivity.
    + intros now fs Hin. apply Hrel. right. exact Hin.
    + destruct (s_res (step drift tv maxcap from s ev)) eqn:E; [right; discriminate|].
      left. pose proof (step_inv drift tv maxcap from start amount Hnil Hbound nows U s ev HI) as HI'.
      unfold Inv in HI'. rewrite E in HI'. destruct HI' as [H1 _ _ _ _ _ _]. exact H1.
Qed.

End progress.

(** ** C18 statements from the start of the call *)

Section from_start0.
Variables (drift : Z) (tv : hdr -> hdr -> tvres) (maxcap per : N) (from : hdr) (to : N) (peers : list N).
Hypothesis Hnil : h_nil from = false.
Hypothesis Hf : h_height from + 1 < two64.
Hypothesis Ht : to < two64.
Hypothesis Hper : 1 <= per.

Let start := h_height from + 1.
Let amount := to - start.
Local Notation s0 := (get_range maxcap per from to peers).

Lemma reachable_live evs :
  s_res (run drift tv maxcap from s0 evs) = None ->
  start < to /\ s_res s0 = None /\
  Live drift tv from start amount (evs_nows evs) (evs_hdrs evs) (run drift tv maxcap from s0 evs).
Proof.
  intros Hres.
  destruct (call_inv drift tv maxcap per from to peers evs Hnil ltac:(lia) Ht Hper) as [(_ & H)|[(_ & _ & H)|(H1 & H2 & HI)]];
    unfold GetRangeByHeight in *; try congruence.
  rewrite (wrap64_small _ Hf) in *. fold start in H1, H2, HI. fold amount in HI.
  unfold Inv in HI. rewrite Hres in HI. split; [exact H1|]. split; [|exact HI].
  destruct (s_res s0) eqn:E; [|reflexivity]. rewrite (run_done _ _ _ _ _ _ _ E) in Hres. congruence.
Qed.

(** the measure is the number of headers still missing *)
Theorem measure_counts_missing evs :
  let s := run drift tv maxcap from s0 evs in
  s_res s = None ->
  N.of_nat (length (s_coll s)) + mu s = to - (h_height from + 1) /\ 1 <= mu s.
Proof.
  intros s Hres. destruct (reachable_live evs Hres) as (Hlt & H0 & HL).
  fold s in HL. pose proof HL as [H1 _ H3 _ _ _ _]. unfold mu. split; [exact H3|].
  assert (Hnd : not_done s).
  { subst s. clear Hres HL H1 H3. induction evs as [|ev evs IH] using rev_ind.
    - cbn [run]. intros _. destruct (get_range_fresh maxcap per from to peers) as [Hc _].  rewrite Hc.
      destruct (get_range_spec drift tv maxcap per from to peers ltac:(lia) Ht Hper) as [(_ & H)|[(_ & _ & H)|(Ha & _ & _ & _ & _ & HL0)]];
        try congruence.
      destruct HL0 as [Hamt _ _ _ _ _ _]. rewrite (wrap64_small _ Hf) in *. rewrite Hamt. cbn. lia.
    - assert (Hrun : forall l1 l2 st, run drift tv maxcap from st (l1 ++ l2) =
                                      run drift tv maxcap from (run drift tv maxcap from st l1) l2).
      { induction l1 as [|a l1 IHl]; intros l2 st; [reflexivity|]. cbn [app run]. apply IHl. }
      rewrite Hrun. cbn [run]. apply step_not_done, IH. }
  specialize (Hnd Hres). rewrite H1 in Hnd. fold amount. lia.
Qed.

End from_start0.

Section from_start.
Variables (drift : Z) (tv : hdr -> hdr -> tvres) (maxcap per : N) (from : hdr) (to : N) (peers : list N).
Variables (c : N -> hdr) (top : N).
Hypothesis Hnil : h_nil from = false.
Hypothesis Hf : h_height from + 1 < two64.
Hypothesis Ht : to < two64.
Hypothesis Hper : 1 <= per.
Hypothesis Htop : top < two64.
Hypothesis Hch : forall n, n <= top -> h_height (c n) = n.
Hypothesis Hokc : forall n, n <= top -> h_ok (c n) = true.

Let start := h_height from + 1.
Let amount := to - start.
Local Notation s0 := (get_range maxcap per from to peers).

Theorem progress_from_start evs p now fs r fl a rest :
  let s := run drift tv maxcap from s0 evs in
  s_res s = None -> take_flight p (s_flight s) = Some (r, fl) ->
  chain_verifies drift tv from c top now ->
  a <= top -> honest_answer c a r = fs ++ rest -> fs <> [] -> r_origin r <= a ->
  let s' := step drift tv maxcap from s (ERespond p now fs) in
  mu s' + N.of_nat (length fs) = mu s /\
  length (s_coll s') = (length (s_coll s) + length fs)%nat /\
  In p (s_idle s').
Proof.
  intros s Hres Htf Hcv Hatop Hans Hne Hcap.
  destruct (reachable_live drift tv maxcap per from to peers Hnil Hf Ht Hper evs Hres) as (Hlt & _ & HL). fold s in HL.
  fold start amount in HL.
  eapply (honest_progress drift tv maxcap from c top start amount); eauto; subst start amount; lia.
Qed.

Theorem no_deadlock evs p :
  In p peers ->
  honest_run drift tv maxcap from c top s0 evs ->
  reliable drift tv from c top p evs ->
  let s := run drift tv maxcap from s0 evs in
  s_res s = None ->
  s_flight s <> [] \/ (s_queue s <> [] /\ In p (s_idle s)).
Proof.
  intros Hp Hrun Hrel s Hres.
  destruct (get_range_spec drift tv maxcap per from to peers ltac:(lia) Ht Hper) as [(_ & H)|[(_ & _ & H)|(Ha & _ & H0 & Hidle & _ & HL0)]];
    [| |].
  1,2: subst s; rewrite (run_done _ _ _ _ _ _ _ H) in Hres; congruence.
  rewrite (wrap64_small _ Hf) in *. fold start in Ha, HL0. fold amount in HL0.
  apply (run_no_deadlock drift tv maxcap from c top start amount Hnil Hch Hokc Htop
                         ltac:(subst start amount; lia) ltac:(subst start; lia) p evs [] [] s0); auto.
  - unfold Inv. rewrite H0. exact HL0.
  - intros _. destruct (get_range_fresh maxcap per from to peers) as [Hc _].  rewrite Hc.
    destruct HL0 as [Hamt _ _ _ _ _ _]. rewrite Hamt. cbn. subst amount. lia.
  - left. rewrite Hidle. exact Hp.
  - left. destruct HL0 as [Hamt _ _ _ _ _ _]. exact Hamt.
Qed.

End from_start.

(** the one-header requests hand back the server's header *)
Theorem request_one_identity want h rest :
  h_ok h = true -> (match want with Some w => w = h_chain h | None => True end) ->
  request_one want (FHdr h :: rest) = Some h.
Proof.
  intros Hok Hw. unfold request_one. cbn [takeN N.eqb]. cbn.
  assert (Ht : takeN (A:=frame) 0 rest = []) by (destruct rest; reflexivity).
  rewrite Ht. cbn. rewrite Hok. destruct want as [w|]; [|reflexivity]. subst w. rewrite N.eqb_refl. reflexivity.
Qed.

(** ** C18: honest chunks always pass the boundary check *)

Section honest_boundaries.
Variables (drift : Z) (tv : hdr -> hdr -> tvres) (maxcap : N) (from : hdr).
Variables (c : N -> hdr) (top : N).
Hypothesis Hnil : h_nil from = false.
Hypothesis Hch : forall n, n <= top -> h_height (c n) = n.

Lemma last_height_of_chunk (l : list hdr) o k :
  l <> [] -> heights l = seqN o k -> h_height (last l hdr_nil) + 1 = o + N.of_nat k.
Proof.
  intros Hne Hh. rewrite (last_map_height l hdr_nil Hne). fold (heights l). rewrite Hh.
  destruct k as [|n]; [destruct l; [contradiction | discriminate]|]. rewrite seqN_last. lia.
Qed.

Lemma boundaries_honest now :
  chain_verifies drift tv from c top now ->
  forall r prev start amount,
  sortedN (map first_height (prev :: r)) -> Forall chunk_shape (prev :: r) ->
  (forall x, cnt x (heights (concat (prev :: r))) = ind start amount x) ->
  Forall (on_chain c top) (concat (prev :: r)) -> h_height from < start ->
  boundaries now drift tv prev r = BOk.
Proof.
  intros Hcv. induction r as [|c' r IH]; intros prev start amount Hs Hf Hc Hon Hfrom; [reflexivity|].
  destruct (tiling_head prev (c' :: r) start amount Hs Hf Hc) as (Ho & Hk & Hrest).
  assert (Hs' : sortedN (map first_height (c' :: r))) by apply Hs.
  pose proof (Forall_inv_tail Hf) as Hf'.
  destruct (tiling_head c' r _ _ Hs' Hf' Hrest) as (Ho' & Hk' & _).
  pose proof (Forall_inv Hf) as [Hpne Hph]. pose proof (Forall_inv Hf') as [Hcne Hchh].
  cbn [boundaries]. destruct prev as [|p0 prev']; [contradiction|]. destruct c' as [|u c'']; [contradiction|].
  set (prev := p0 :: prev') in *.
  assert (Hlast : h_height (last prev hdr_nil) + 1 = start + N.of_nat (length prev)).
  { rewrite <- Ho. apply last_height_of_chunk; assumption. }
  assert (Hu : h_height u = start + N.of_nat (length prev)) by (cbn [first_height] in Ho'; exact Ho').
  rewrite Forall_forall in Hon.
  assert (Hlin : In (last prev hdr_nil) (concat (prev :: (u :: c'') :: r))).
  { cbn [concat]. apply in_or_app. left. subst prev.
    clear. revert p0. induction prev' as [|x l IHl]; intros p0; [left; reflexivity|].
    change (last (p0 :: x :: l) hdr_nil) with (last (x :: l) hdr_nil). right. apply IHl. }
  assert (Huin : In u (concat (prev :: (u :: c'') :: r))).
  { cbn [concat]. apply in_or_app. right. left. reflexivity. }
  destruct (Hon _ Hlin) as [Hl1 Hl2]. destruct (Hon _ Huin) as [Hu1 Hu2].
  set (n := h_height (last prev hdr_nil)) in *.
  assert (Hlen1 : (1 <= length prev)%nat) by (subst prev; cbn; lia).
  destruct (Hcv n ltac:(lia) Hl2) as [_ Hnext].
  assert (Hun : h_height u = n + 1) by lia.
  assert (Hv : Verify now drift tv (last prev hdr_nil) u = None).
  { rewrite Hl1, Hu1, Hun. apply Hnext. lia. }
  rewrite Hv.
  apply (IH (u :: c'') (start + N.of_nat (length prev)) (amount - N.of_nat (length prev))); auto.
  - apply Forall_forall. intros h Hh. apply Hon. cbn [concat]. apply in_or_app. right. exact Hh.
  - lia.
Qed.

(** with honest chunks the collector's final step returns the headers *)
Lemma honest_finish start amount nows U s now :
  Live drift tv from start amount nows U s -> amount <= N.of_nat (length (s_coll s)) ->
  Forall (on_chain c top) (s_coll s) -> h_height from < start ->
  chain_verifies drift tv from c top now ->
  finish now drift tv from (s_coll s) (s_chunks s) = ROk (sort_h (s_coll s)).
Proof.
  intros [_ Hc Hs Hr Hg Hcat Hch'] Hlen Hon Hfrom Hcv.
  assert (Hz : sum_amounts (outstanding s) = 0) by lia.
  assert (Hnil' : outstanding s = []).
  { destruct (outstanding s) as [|r0 l0]; [reflexivity|].
    pose proof (Forall_inv Hr) as Hr0. cbn in Hr0, Hz. lia. }
  assert (Hcnt : forall x, cnt x (map h_height (s_coll s)) = ind start amount x).
  { intros x. specialize (Hc x). rewrite Hnil' in Hc. cbn in Hc. lia. }
  set (cs := sort_c (s_chunks s)).
  assert (Hcs_shape : Forall chunk_shape cs).
  { apply sort_c_Forall. eapply Forall_impl; [|exact Hch']. intros c0 [H _]. exact H. }
  assert (Hempty : existsb is_nil (s_chunks s) = false).
  { destruct (existsb is_nil (s_chunks s)) eqn:E; [|reflexivity].
    apply existsb_exists in E as (c0 & Hin & Hc0). rewrite Forall_forall in Hch'.
    destruct (Hch' c0 Hin) as [[Hne _] _]. destruct c0; [contradiction | discriminate]. }
  unfold finish, verify_chunk_boundaries. rewrite Hnil, Hempty. fold cs.
  destruct cs as [|c0 r] eqn:Ecs; [reflexivity|].
  rewrite (boundaries_honest now Hcv r c0 start amount); [reflexivity | | exact Hcs_shape | | | exact Hfrom].
  - rewrite <- Ecs. apply sort_c_sorted.
  - intros x. rewrite <- Ecs. unfold cs. rewrite sort_c_cnt, Hcat. apply Hcnt.
  - apply Forall_forall. intros h Hh. rewrite <- Ecs in Hh. apply in_concat_iff in Hh as (c1 & Hc1 & Hh1).
    apply (proj1 (sort_c_In _ _)) in Hc1. rewrite Forall_forall in Hon. apply Hon. rewrite <- Hcat.
    apply in_concat_iff. exists c1. split; assumption.
Qed.

(** no honest run ends with the chain error *)
Lemma step_no_chain_error start amount nows U s ev :
  start + amount < two64 -> h_height from < start ->
  Inv drift tv from start amount nows U s -> CI c top s -> honest_ev c top s ev ->
  (forall p now fs, ev = ERespond p now fs -> chain_verifies drift tv from c top now) ->
  s_res s <> Some (RErr ENotChain) ->
  s_res (step drift tv maxcap from s ev) <> Some (RErr ENotChain).
Proof.
  intros Hbound Hfrom HI [Hon _] Hh Hcv Hres0.
  destruct (s_res s) as [r0|] eqn:Hres.
  { unfold step. rewrite Hres. rewrite Hres. exact Hres0. }
  unfold Inv in HI. rewrite Hres in HI.
  destruct ev as [p r|p now fs| |].
  - unfold step. rewrite Hres.
    destruct (remove_peer p (s_idle s)); [destruct (remove_req r (s_queue s))|]; cbn [s_res]; congruence.
  - destruct (take_flight p (s_flight s)) as [[r fl]|] eqn:Htf.
    2:{ unfold step. rewrite Hres, Htf. congruence. }
    unfold honest_ev in Hh. rewrite Htf in Hh. destruct Hh as (t & a & rest & Ha & Hrest).
    destruct (do_request now drift tv from r fs) as [e|h|] eqn:Hdo.
    + rewrite (step_respond _ _ _ _ _ _ _ _ _ _ Hres Htf), Hdo. cbn [s_res]. discriminate.
    + assert (HL' : Live drift tv from start amount (now :: nows) (frame_hdrs fs ++ U) s).
      { pose proof (Inv_mono drift tv from start amount nows (now :: nows) U (frame_hdrs fs ++ U) s) as Hm.
        unfold Inv in Hm. rewrite Hres in Hm. apply Hm; [apply incl_tl, incl_refl | apply incl_appr, incl_refl | exact HI]. }
      pose proof (accept_live drift tv from start amount Hnil Hbound nows U s p now fs r fl h HL' Htf Hdo) as Hmid.
      cbv zeta in Hmid.
      destruct (step_accept drift tv maxcap from start amount Hnil Hbound nows U s p now fs r fl h HI Hres Htf Hdo) as (_ & _ & Hstep).
      rewrite Hstep. cbn [s_res].
      destruct (N.leb_spec (s_amount s) (N.of_nat (length (s_coll s ++ h)))) as [Hdone|Hnot]; [|discriminate].
      destruct (do_request_ok drift tv now from r fs h Hnil Hdo) as (_ & _ & Hincl & _).
      assert (Hon' : Forall (on_chain c top) (s_coll s ++ h)).
      { apply Forall_app. split; [exact Hon|]. apply Forall_forall. intros x Hx.
        assert (Hinx : In x (frame_hdrs (honest_answer_t c t a r))).
        { rewrite Hrest, frame_hdrs_app. apply in_or_app. left. apply Hincl, Hx. }
        eapply honest_answer_on_chain; eauto. }
      pose proof (honest_finish start amount _ _ _ now Hmid) as Hfin. cbn [s_coll s_chunks] in Hfin.
      rewrite Hfin; [discriminate | | exact Hon' | exact Hfrom | apply (Hcv p now fs eq_refl)].
      destruct HI as [Hamt _ _ _ _ _ _]. rewrite <- Hamt. exact Hdone.
    + rewrite (step_respond _ _ _ _ _ _ _ _ _ _ Hres Htf), Hdo. cbn [s_res set_res]. discriminate.
  - unfold step. rewrite Hres. cbn [s_res set_res]. discriminate.
  - unfold step. rewrite Hres. cbn [s_res set_res]. discriminate.
Qed.

Lemma run_no_chain_error start amount evs : forall nows U s,
  start + amount < two64 -> h_height from < start ->
  Inv drift tv from start amount nows U s -> CI c top s ->
  honest_run drift tv maxcap from c top s evs ->
  (forall p now fs, In (ERespond p now fs) evs -> chain_verifies drift tv from c top now) ->
  s_res s <> Some (RErr ENotChain) ->
  s_res (run drift tv maxcap from s evs) <> Some (RErr ENotChain).
Proof.
  induction evs as [|ev evs IH]; intros nows U s Hb Hf HI HC Hrun Hcv Hres; [exact Hres|].
  cbn [run]. destruct Hrun as [Hev Hrun].
  apply (IH (ev_nows ev ++ nows) (ev_hdrs ev ++ U)); auto.
  - apply step_inv; assumption.
  - apply (step_chain drift tv maxcap from c top Hnil Hch); assumption.
  - intros p now fs Hin. apply (Hcv p now fs). right. exact Hin.
  - eapply step_no_chain_error; eauto. intros p now fs ->. apply (Hcv p now fs). left. reflexivity.
Qed.

End honest_boundaries.

(** C18: with honest answers (and a chain that verifies) the call never reports a broken chain *)
Theorem honest_no_chain_error drift tv maxcap per from to peers (c : N -> hdr) top evs :
  h_nil from = false -> h_height from + 1 < two64 -> to < two64 -> 1 <= per ->
  (forall n, n <= top -> h_height (c n) = n) ->
  honest_run drift tv maxcap from c top (get_range maxcap per from to peers) evs ->
  (forall p now fs, In (ERespond p now fs) evs -> chain_verifies drift tv from c top now) ->
  GetRangeByHeight drift tv maxcap per from to peers evs <> Some (RErr ENotChain).
Proof.
  intros Hnil Hf Ht Hper Hch Hrun Hcv. unfold GetRangeByHeight.
  destruct (get_range_fresh maxcap per from to peers) as [Hc0 Hr0].
  assert (HCI : CI c top (get_range maxcap per from to peers)).
  { split; [rewrite Hc0; constructor|]. intros l Hl. exfalso. exact (Hr0 l Hl). }
  destruct (get_range_spec drift tv maxcap per from to peers ltac:(lia) Ht Hper) as [(_ & H)|[(_ & _ & H)|(Ha & _ & H0 & _ & _ & HL0)]].
  1,2: rewrite (run_done _ _ _ _ _ _ _ H), H; discriminate.
  rewrite (wrap64_small _ Hf) in *.
  apply (run_no_chain_error drift tv maxcap from c top Hnil Hch (h_height from + 1) (to - (h_height from + 1)) evs [] []);
    auto; try lia.
  - unfold Inv. rewrite H0. exact HL0.
  - rewrite H0. discriminate.
Qed.

(** ** the two halves of [result_shape] *)

Theorem result_heights drift tv maxcap per from to peers evs res :
  h_nil from = false -> h_height from < two64 -> to < two64 -> 1 <= per ->
  GetRangeByHeight drift tv maxcap per from to peers evs = Some (ROk res) ->
  h_height from + 1 < to /\
  res <> [] /\
  map h_height res = seqN (h_height from + 1) (N.to_nat (to - (h_height from + 1))) /\
  (forall h, In h res -> h_height h < to /\ h_ok h = true /\ In h (evs_hdrs evs)).
Proof.
  intros H1 H2 H3 H4 H5.
  destruct (result_shape drift tv maxcap per from to peers evs res H1 H2 H3 H4 H5) as (A & B & C & D & _).
  auto.
Qed.

Theorem result_verified drift tv maxcap per from to peers evs res :
  h_nil from = false -> h_height from < two64 -> to < two64 -> 1 <= per ->
  GetRangeByHeight drift tv maxcap per from to peers evs = Some (ROk res) ->
  chain (verified_during drift tv evs) from res.
Proof.
  intros H1 H2 H3 H4 H5.
  destruct (result_shape drift tv maxcap per from to peers evs res H1 H2 H3 H4 H5) as (_ & _ & _ & _ & E).
  exact E.
Qed.

(** * A type-level Verify that may panic *)

Section panics.
Variables (drift : Z) (tvp : hdr -> hdr -> tvres_p).
Notation rtv := (recovered tvp).

Lemma Verify_p_spec now t u :
  match Verify_p now drift tvp t u with
  | Some x => x = Verify now drift rtv t u
  | None => Verify now drift rtv t u <> None
  end.
Proof.
  unfold Verify_p. destruct (verify_mand now drift t u) eqn:Hm; [reflexivity|].
  destruct (tvp t u) eqn:Htv; [reflexivity|].
  unfold Verify, recovered. rewrite Hm, Htv. discriminate.
Qed.

Lemma loop_p_spec now : forall l first t,
  match verify_range_loop_p now drift tvp first t l with
  | Some x => x = verify_range_loop now drift rtv first t l
  | None => snd (verify_range_loop now drift rtv first t l) <> None
  end.
Proof.
  induction l as [|u r IH]; intros first t; cbn [verify_range_loop_p verify_range_loop]; [reflexivity|].
  pose proof (Verify_p_spec now t u) as Hv.
  destruct (Verify_p now drift tvp t u) as [[e|]|].
  - rewrite <- Hv. reflexivity.
  - rewrite <- Hv. destruct (negb first && negb (wrap64 (h_height t + 1) =? h_height u)); [reflexivity|].
    specialize (IH false u). destruct (verify_range_loop_p now drift tvp false u r) as [[v e]|].
    + rewrite <- IH. reflexivity.
    + destruct (verify_range_loop now drift rtv false u r) as [v e]. cbn in *. exact IH.
  - destruct (Verify now drift rtv t u); [cbn; discriminate | contradiction].
Qed.

(** a panic of the type-level Verify while an answer is processed = a rejection of that answer *)
Lemma do_request_p_eq now from r fs :
  do_request_p now drift tvp from r fs = do_request now drift rtv from r fs.
Proof.
  unfold do_request_p, do_request.
  destruct (process_responses (takeN (r_amount r) fs)) as [e|hs]; [reflexivity|].
  unfold session_verify_p, session_verify. destruct (h_nil from); [reflexivity|].
  unfold VerifyRange_p, VerifyRange. destruct hs as [|h0 hs]; [reflexivity|].
  pose proof (loop_p_spec now (h0 :: hs) true from) as Hl.
  destruct (verify_range_loop_p now drift tvp true from (h0 :: hs)) as [[v e]|].
  - rewrite <- Hl. reflexivity.
  - destruct (verify_range_loop now drift rtv true from (h0 :: hs)) as [v [e|]]; [reflexivity|].
    cbn in Hl. contradiction.
Qed.

Lemma boundaries_p_spec now : forall cs prev,
  boundaries_p now drift tvp prev cs = boundaries now drift rtv prev cs \/
  (boundaries_p now drift tvp prev cs = BPanic /\ boundaries now drift rtv prev cs = BErr).
Proof.
  induction cs as [|c r IH]; intros prev; cbn [boundaries_p boundaries]; [left; reflexivity|].
  destruct prev as [|p0 prev']; [left; reflexivity|]. destruct c as [|u c']; [left; reflexivity|].
  pose proof (Verify_p_spec now (last (p0 :: prev') hdr_nil) u) as Hv.
  destruct (Verify_p now drift tvp (last (p0 :: prev') hdr_nil) u) as [[e|]|].
  - rewrite <- Hv. left. reflexivity.
  - rewrite <- Hv. apply IH.
  - right. split; [reflexivity|]. destruct (Verify now drift rtv (last (p0 :: prev') hdr_nil) u); [reflexivity | contradiction].
Qed.

Lemma finish_p_eq now from coll chunks :
  finish_p now drift tvp from coll chunks = finish now drift rtv from coll chunks.
Proof.
  unfold finish_p, finish, verify_chunk_boundaries_p, verify_chunk_boundaries.
  destruct (h_nil from); [reflexivity|]. destruct (existsb is_nil chunks); [reflexivity|].
  destruct (sort_c chunks) as [|c r]; [reflexivity|].
  destruct (boundaries_p_spec now r c) as [->|[-> ->]]; reflexivity.
Qed.

Variables (maxcap : N) (from : hdr).

(** every panic of the type-level Verify is recovered - while an answer is processed and in the
    boundary check -: the run is the run with the panics turned into rejections *)
Lemma step_p_eq s ev : step_p drift tvp maxcap from s ev = step drift rtv maxcap from s ev.
Proof.
  unfold step_p, step. destruct (s_res s); [reflexivity|].
  destruct ev as [p r|p now fs| |]; try reflexivity.
  destruct (take_flight p (s_flight s)) as [[r fl]|]; [|reflexivity].
  rewrite do_request_p_eq. destruct (do_request now drift rtv from r fs) as [e|h|]; try reflexivity.
  destruct (if 0 <? remaining r h then _ else _) as [bad|rq]; [reflexivity|].
  rewrite finish_p_eq. reflexivity.
Qed.

Lemma run_p_eq evs : forall s, run_p drift tvp maxcap from s evs = run drift rtv maxcap from s evs.
Proof.
  induction evs as [|ev evs IH]; intros s; [reflexivity|]. cbn [run_p run]. rewrite step_p_eq. apply IH.
Qed.

End panics.

(** the outcome with a panicking verifier is the outcome with its panics recovered *)
Theorem outcome_p_eq drift tvp maxcap per from to peers evs :
  GetRangeByHeight_p drift tvp maxcap per from to peers evs =
  GetRangeByHeight drift (recovered tvp) maxcap per from to peers evs.
Proof. unfold GetRangeByHeight_p, GetRangeByHeight. rewrite run_p_eq. reflexivity. Qed.

(** [u] passed Verify against [t] at the clock reading of one of the answers (a panic is not a pass) *)
Definition verified_during_p drift (tvp : hdr -> hdr -> tvres_p) (evs : list event) (t u : hdr) : Prop :=
  exists now, In now (evs_nows evs) /\ Verify_p now drift tvp t u = Some None.

Lemma verified_during_p_iff drift tvp evs t u :
  verified_during drift (recovered tvp) evs t u -> verified_during_p drift tvp evs t u.
Proof.
  intros (now & Hin & Hv). exists now. split; [exact Hin|].
  pose proof (Verify_p_spec drift tvp now t u) as Hs.
  destruct (Verify_p now drift tvp t u) as [x|]; [rewrite Hs, Hv; reflexivity | contradiction].
Qed.

Theorem result_heights_p drift tvp maxcap per from to peers evs res :
  h_nil from = false -> h_height from < two64 -> to < two64 -> 1 <= per ->
  GetRangeByHeight_p drift tvp maxcap per from to peers evs = Some (ROk res) ->
  h_height from + 1 < to /\
  res <> [] /\
  map h_height res = seqN (h_height from + 1) (N.to_nat (to - (h_height from + 1))) /\
  (forall h, In h res -> h_height h < to /\ h_ok h = true /\ In h (evs_hdrs evs)).
Proof. rewrite outcome_p_eq. apply result_heights. Qed.

Theorem result_verified_p drift tvp maxcap per from to peers evs res :
  h_nil from = false -> h_height from < two64 -> to < two64 -> 1 <= per ->
  GetRangeByHeight_p drift tvp maxcap per from to peers evs = Some (ROk res) ->
  chain (verified_during_p drift tvp evs) from res.
Proof.
  rewrite outcome_p_eq. intros H1 H2 H3 H4 H5.
  eapply chain_mono; [|exact (result_verified _ _ _ _ _ _ _ _ _ H1 H2 H3 H4 H5)].
  intros a b. apply verified_during_p_iff.
Qed.

Theorem degenerate_is_error_p drift tvp maxcap per from to peers evs :
  h_height from < two64 -> to <= h_height from + 1 ->
  GetRangeByHeight_p drift tvp maxcap per from to peers evs = Some (RErr ERangeMixUp).
Proof. rewrite outcome_p_eq. apply degenerate_is_error. Qed.

(** no answer of any peer, in any order, makes the call panic - whatever the header type's own
    Verify does with it, panics included *)
Theorem no_response_crashes_p drift tvp maxcap per from to peers evs :
  h_nil from = false -> h_height from < two64 -> to < two64 -> 1 <= per ->
  to - (h_height from + 1) <= maxcap ->
  GetRangeByHeight_p drift tvp maxcap per from to peers evs <> Some RPanic /\
  GetRangeByHeight_p drift tvp maxcap per from to peers evs <> Some RFuel.
Proof. rewrite outcome_p_eq. apply no_response_crashes. Qed.

Theorem errors_have_a_cause_p drift tvp maxcap per from to peers evs e :
  h_height from < two64 -> to < two64 -> 1 <= per ->
  GetRangeByHeight_p drift tvp maxcap per from to peers evs = Some (RErr e) ->
  (e = ERangeMixUp /\ to <= h_height from + 1) \/
  (e = ECtx /\ In ECtxDone evs) \/ (e = EClosed /\ In EStop evs) \/
  (e = ENotChain /\ exists p now fs, In (ERespond p now fs) evs).
Proof. rewrite outcome_p_eq. apply errors_have_a_cause. Qed.

(** examples: a verifier that panics when a header with odd identity 999 is verified against
    the header directly below it *)
Definition ex_panic_hdr (n : N) : hdr := Hdr false 1 n 0%Z 999 (n - 1) true.
Definition ex_tvp (t u : hdr) : tvres_p :=
  if (h_id u =? 999) && (h_height u =? h_height t + 1) then TVPanics else TVRes (ex_tv t u).



(** ** Get / GetByHeight with several trusted servers *)

(** an honest server's answer to a one-header request for [h]: the header, or NOT_FOUND when it
    does not hold it, or nothing (timeout, disconnect) *)
Definition honest_one (h : hdr) (fs : list frame) : Prop :=
  fs = [FHdr h] \/ fs = [FNotFound] \/ fs = [].

Theorem perform_request_honest want h answers :
  h_ok h = true -> (match want with Some w => w = h_chain h | None => True end) ->
  Forall (honest_one h) answers -> In [FHdr h] answers ->
  perform_request want answers = Some h.
Proof.
  intros Hok Hw Hall Hin. induction answers as [|fs rest IH]; [destruct Hin|].
  cbn [perform_request]. inversion Hall as [|? ? Hfs Hrest]; subst.
  destruct Hfs as [ -> | [ -> | -> ] ].
  - rewrite (request_one_identity want h [] Hok Hw). reflexivity.
  - destruct Hin as [Hx|Hin]; [discriminate|]. cbn. apply IH; assumption.
  - destruct Hin as [Hx|Hin]; [discriminate|]. cbn. apply IH; assumption.
Qed.
