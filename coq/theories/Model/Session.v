(** Model of one [Exchange.GetRangeByHeight] call: p2p/exchange.go (GetRangeByHeight),
    p2p/session.go (getRangeByHeight, handleOutgoingRequests, doRequest,
    processResponses, verify, prepareRequests), p2p/helpers.go (sendMessage's read
    loop, convertStatusCodeToError), p2p/peer_stats.go (peerQueue as a set of idle peers).

    Definitions only.  External behaviour is input: what a peer answers (a list of
    already classified wire frames per request), which queued request goes to which
    idle peer and in which order answers arrive (the event list), the clock reading at
    each answer, the header type's own Verify [tv].  Peer scores are not modelled: any
    idle peer may be chosen, which covers every score order. *)
From GH Require Import Base.Prelude Model.Verify.

(** the heights s, s+1, ... (n of them) *)
Fixpoint seqN (s : N) (n : nat) : list N :=
  match n with
  | O => []
  | S m => s :: seqN (s + 1) m
  end.

(** p2p_pb.HeaderRequest with an origin *)
Record req := Req { r_origin : N; r_amount : N }.

Definition req_eqb (a b : req) : bool :=
  (r_origin a =? r_origin b) && (r_amount a =? r_amount b).

(** one HeaderResponse read from the stream, classified by the first check of
    processResponses it fails: status code, UnmarshalBinary, Validate ([h_ok]) *)
Inductive frame :=
| FHdr (h : hdr)      (* status OK, body decodes to [h]; Validate() = h_ok h *)
| FNotFound           (* status NOT_FOUND *)
| FUnknown            (* any other status code *)
| FUndecodable        (* status OK, UnmarshalBinary fails *)
| FDecodePanic        (* status OK, UnmarshalBinary panics (recovered by session.processResponses) *)
| FValidatePanic.     (* status OK, the body decodes, Validate() PANICS (recovered by the same deferred
                         recover of session.processResponses; the header never leaves processResponses) *)

(** the headers carried by OK frames *)
Definition frame_hdrs (fs : list frame) : list hdr :=
  flat_map (fun f => match f with FHdr h => [h] | _ => [] end) fs.

(** error classes doRequest distinguishes (peer handling) *)
Inductive perr := PEmpty | PNotFound | POther.

(** sendMessage reads at most req.Amount responses *)
Fixpoint takeN {A} (n : N) (l : list A) : list A :=
  match l with
  | [] => []
  | x :: r => if n =? 0 then [] else x :: takeN (n - 1) r
  end.

(** helpers.go processResponses: the loop, first failing frame wins *)
Fixpoint process_frames (fs : list frame) : perr + list hdr :=
  match fs with
  | [] => inr []
  | FHdr h :: r =>
    if h_ok h then
      match process_frames r with
      | inr l => inr (h :: l)
      | inl e => inl e
      end
    else inl POther
  | FNotFound :: _ => inl PNotFound
  | FUnknown :: _ | FUndecodable :: _ | FDecodePanic :: _ | FValidatePanic :: _ => inl POther
  end.

Definition process_responses (fs : list frame) : perr + list hdr :=
  match fs with
  | [] => inl PEmpty
  | _ => process_frames fs
  end.

(** session.verify *)
Definition session_verify (now drift : Z) (tv : hdr -> hdr -> tvres) (from : hdr) (hs : list hdr)
  : list hdr * option verr :=
  if h_nil from then (hs, None) else VerifyRange now drift tv from hs.

(** outcome of one doRequest after the answer has been read *)
Inductive dres :=
| DErr (e : perr)         (* request is re-queued *)
| DOk (h : list hdr)      (* verified chunk starting at the requested origin *)
| DPanic.                 (* h[0] on an empty slice (not recovered) *)

Definition do_request (now drift : Z) (tv : hdr -> hdr -> tvres) (from : hdr) (r : req)
           (fs : list frame) : dres :=
  match process_responses (takeN (r_amount r) fs) with
  | inl e => DErr e
  | inr hs =>
    match session_verify now drift tv from hs with
    | (_, Some _) => DErr POther      (* the verified prefix is dropped *)
    | (h, None) =>
      match h with
      | [] => DPanic
      | h0 :: _ => if h_height h0 =? r_origin r then DOk h else DErr POther
      end
    end
  end.

(** prepareRequests: the loop (fuel = number of iterations allowed) *)
Fixpoint prep (fuel : nat) (from amount per : N) : option (list req) :=
  if amount =? 0 then Some [] else
  match fuel with
  | O => None
  | S f =>
    if amount <? per then Some [Req from amount]
    else option_map (cons (Req from per)) (prep f (wrap64 (from + per)) (amount - per) per)
  end.

Inductive prep_res := PRPanic | PRFuel | PROk (l : list req).

(** [maxcap]: largest capacity [make] accepts for a slice of pointers *)
Definition prepare_requests (maxcap from amount per : N) : prep_res :=
  if per =? 0 then PRPanic                       (* integer divide by zero *)
  else if maxcap <? amount / per then PRPanic    (* makeslice: cap out of range *)
  else match prep (S (N.to_nat (amount / per))) from amount per with
       | None => PRFuel
       | Some l => PROk l
       end.

(** final sort.Slice by height (insertion sort; the order of equal heights is
    unspecified in Go and irrelevant: heights are proved distinct) *)
Fixpoint insert_h (x : hdr) (l : list hdr) : list hdr :=
  match l with
  | [] => [x]
  | y :: r => if h_height x <? h_height y then x :: y :: r else y :: insert_h x r
  end.

Fixpoint sort_h (l : list hdr) : list hdr :=
  match l with
  | [] => []
  | x :: r => insert_h x (sort_h r)
  end.

(** sort.Slice(chunks, ...) by the height of each chunk's first header *)
Definition first_height (c : list hdr) : N := match c with [] => 0 | h :: _ => h_height h end.

Fixpoint insert_c (x : list hdr) (l : list (list hdr)) : list (list hdr) :=
  match l with
  | [] => [x]
  | y :: r => if first_height x <? first_height y then x :: y :: r else y :: insert_c x r
  end.

Fixpoint sort_c (l : list (list hdr)) : list (list hdr) :=
  match l with
  | [] => []
  | x :: r => insert_c x (sort_c r)
  end.

Inductive bres := BOk | BErr | BPanic.

(** verifyChunkBoundaries: the loop; [prev] is chunks[i-1] *)
Fixpoint boundaries (now drift : Z) (tv : hdr -> hdr -> tvres) (prev : list hdr)
         (cs : list (list hdr)) : bres :=
  match cs with
  | [] => BOk
  | c :: r =>
    match prev, c with
    | [], _ | _, [] => BPanic                (* prev[len(prev)-1], chunks[i][0] *)
    | _ :: _, u :: _ =>
      match Verify now drift tv (last prev hdr_nil) u with
      | Some _ => BErr
      | None => boundaries now drift tv c r
      end
    end
  end.

Definition is_nil {A} (l : list A) : bool := match l with [] => true | _ => false end.

(** session.verifyChunkBoundaries, before its deferred recover is applied ([BPanic]: an empty
    chunk would panic at chunks[i][0], in the sort or in the loop; [finish] turns it into an error) *)
Definition verify_chunk_boundaries (now drift : Z) (tv : hdr -> hdr -> tvres) (from : hdr)
           (chunks : list (list hdr)) : bres :=
  if h_nil from then BOk
  else if existsb is_nil chunks then BPanic
  else match sort_c chunks with
       | [] => BOk
       | c :: r => boundaries now drift tv c r
       end.

Inductive rerr := ERangeMixUp | ECtx | EClosed | ENotChain.

Inductive result :=
| ROk (l : list hdr)
| RErr (e : rerr)
| RPanic
| RFuel.          (* model artefact: loop fuel exhausted (proved unreachable) *)

(** what the collector returns once it has [amount] headers: the headers sorted by height,
    or the error of the chunk-boundary verification; a panic inside verifyChunkBoundaries is
    recovered there into an error as well ([ENotChain] stands for both) *)
Definition finish (now drift : Z) (tv : hdr -> hdr -> tvres) (from : hdr)
           (coll : list hdr) (chunks : list (list hdr)) : result :=
  match verify_chunk_boundaries now drift tv from chunks with
  | BOk => ROk (sort_h coll)
  | BErr | BPanic => RErr ENotChain
  end.

(** state of the session: reqCh, peerQueue, running doRequest goroutines, collected headers
    (flat, and as the chunks they arrived in) *)
Record sess := Sess {
  s_amount : N;
  s_queue : list req;
  s_idle : list N;
  s_flight : list (N * req);
  s_coll : list hdr;
  s_chunks : list (list hdr);
  s_res : option result       (* Some = GetRangeByHeight has returned *)
}.

Inductive event :=
| EDispatch (p : N) (r : req)                    (* handleOutgoingRequests: request r goes to idle peer p *)
| ERespond (p : N) (now : Z) (fs : list frame)   (* p's stream ended having delivered fs; clock reads now *)
| ECtxDone                                       (* the caller's context ends *)
| EStop.                                         (* Exchange.Stop *)

Fixpoint remove_req (r : req) (l : list req) : option (list req) :=
  match l with
  | [] => None
  | x :: t => if req_eqb r x then Some t else option_map (cons x) (remove_req r t)
  end.

Fixpoint remove_peer (p : N) (l : list N) : option (list N) :=
  match l with
  | [] => None
  | x :: t => if p =? x then Some t else option_map (cons x) (remove_peer p t)
  end.

Fixpoint take_flight (p : N) (l : list (N * req)) : option (req * list (N * req)) :=
  match l with
  | [] => None
  | (q, r) :: t =>
    if p =? q then Some (r, t)
    else match take_flight p t with
         | Some (r', t') => Some (r', (q, r) :: t')
         | None => None
         end
  end.

Definition set_res (s : sess) (r : result) : sess :=
  Sess (s_amount s) (s_queue s) (s_idle s) (s_flight s) (s_coll s) (s_chunks s) (Some r).

(** wrap-around uint64 subtraction as Go computes [req.Amount - uint64(len(h))] *)
Definition remaining (r : req) (h : list hdr) : N := sub64 (r_amount r) (N.of_nat (length h)).

Definition step (drift : Z) (tv : hdr -> hdr -> tvres) (maxcap : N) (from : hdr)
           (s : sess) (ev : event) : sess :=
  match s_res s with
  | Some _ => s
  | None =>
    match ev with
    | ECtxDone => set_res s (RErr ECtx)
    | EStop => set_res s (RErr EClosed)
    | EDispatch p r =>
      match remove_peer p (s_idle s), remove_req r (s_queue s) with
      | Some idle', Some queue' =>
        Sess (s_amount s) queue' idle' ((p, r) :: s_flight s) (s_coll s) (s_chunks s) None
      | _, _ => s
      end
    | ERespond p now fs =>
      match take_flight p (s_flight s) with
      | None => s
      | Some (r, flight') =>
        match do_request now drift tv from r fs with
        | DPanic => set_res s RPanic
        | DErr e =>
          (* same request back into reqCh; the peer returns to the queue only on NOT_FOUND *)
          Sess (s_amount s) (s_queue s ++ [r])
               (match e with PNotFound => s_idle s ++ [p] | _ => s_idle s end)
               flight' (s_coll s) (s_chunks s) None
        | DOk h =>
          let rem := remaining r h in
          let requeue :=
            if 0 <? rem then
              match prepare_requests maxcap (wrap64 (h_height (last h hdr_nil) + 1)) rem (r_amount r) with
              | PROk (x :: _) => inr [x]
              | PROk [] | PRPanic => inl RPanic     (* prepareRequests(...)[0] *)
              | PRFuel => inl RFuel
              end
            else inr [] in
          match requeue with
          | inl bad => set_res s bad
          | inr rq =>
            let coll' := s_coll s ++ h in
            let chunks' := s_chunks s ++ [h] in
            Sess (s_amount s) (s_queue s ++ rq) (s_idle s ++ [p]) flight' coll' chunks'
                 (if s_amount s <=? N.of_nat (length coll')
                  then Some (finish now drift tv from coll' chunks') else None)
          end
        end
      end
    end
  end.

Fixpoint run (drift : Z) (tv : hdr -> hdr -> tvres) (maxcap : N) (from : hdr)
         (s : sess) (evs : list event) : sess :=
  match evs with
  | [] => s
  | ev :: r => run drift tv maxcap from (step drift tv maxcap from s ev) r
  end.

Definition done (peers : list N) (r : result) : sess := Sess 0 [] peers [] [] [] (Some r).

(** Exchange.GetRangeByHeight up to the point where the session waits for answers.
    [per] = Params.MaxHeadersPerRangeRequest, [peers] = peerTracker.peers() *)
Definition get_range (maxcap per : N) (from : hdr) (to : N) (peers : list N) : sess :=
  let start := wrap64 (h_height from + 1) in
  (* nothing follows the maximal height, for which from.Height()+1 wraps around *)
  if (h_height from =? two64 - 1) || (to <=? start) then done peers (RErr ERangeMixUp)
  else
    let amount := sub64 to start in
    match prepare_requests maxcap start amount per with
    | PRPanic => done peers RPanic
    | PRFuel => done peers RFuel
    | PROk reqs =>
      if maxcap <? amount then done peers RPanic     (* make([]H, 0, amount) *)
      else Sess amount reqs peers [] [] [] None
    end.

Definition GetRangeByHeight (drift : Z) (tv : hdr -> hdr -> tvres) (maxcap per : N)
           (from : hdr) (to : N) (peers : list N) (evs : list event) : option result :=
  s_res (run drift tv maxcap from (get_range maxcap per from to peers) evs).

(** ** honest peers (C18) *)

(** what an honest ExchangeServer (p2p/server.go handleRangeRequest over store.Store) whose store
    holds the heights tail..avail of the chain [c] (empty when avail < tail) answers to a range
    request: a stream reset (no frame) when origin+amount wraps or is not above origin
    (ErrRangeMixUp), when more than header.MaxRangeRequestSize = 64 headers are asked for
    (ErrHeadersLimitExceeded) and when the store is empty (ErrEmptyStore); its head for origin 0;
    NOT_FOUND above its head and - since the store walks DOWN from the end of the range through
    LastHeader links - whenever the origin lies below its tail (pruned); else the requested
    headers up to its head *)
Definition max_range_request : N := 64.

Definition honest_answer_t (c : N -> hdr) (tail avail : N) (r : req) : list frame :=
  let o := r_origin r in
  let n := r_amount r in
  if wrap64 (o + n) <=? o then []
  else if o =? 0 then (if avail <? tail then [] else [FHdr (c avail)])
  else if max_range_request <? n then []
  else if avail <? tail then []
  else if (avail <? o) || (o <? tail) then [FNotFound]
  else map (fun k => FHdr (c k)) (seqN o (N.to_nat (N.min n (avail - o + 1)))).

(** the unpruned server: its store holds the heights 1..avail *)
Definition honest_answer (c : N -> hdr) (avail : N) (r : req) : list frame :=
  honest_answer_t c 1 avail r.

(** ** a Validate that may panic

    [FValidatePanic] is an answer frame on whose header Validate() panics. The two functions
    below replace every such frame by another frame [sub] (used in Proofs/SessionMoreP.v with any
    frame that processResponses refuses with an ordinary error: a header whose Validate returns
    an error, an undecodable body, ...). *)
Definition calm_frame (sub : frame) (f : frame) : frame :=
  match f with FValidatePanic => sub | f => f end.

Definition calm_event (sub : frame) (ev : event) : event :=
  match ev with
  | ERespond p now fs => ERespond p now (map (calm_frame sub) fs)
  | ev => ev
  end.

(** Exchange.request as used by Head, Get and GetByHeight (one header asked for):
    sendMessage reads one response, processResponses, validateChainID
    ([want] = None: no chain id configured) *)
Definition request_one (want : option N) (fs : list frame) : option hdr :=
  match process_responses (takeN 1 fs) with
  | inr (h :: _) =>
    match want with
    | Some w => if w =? h_chain h then Some h else None
    | None => Some h
    end
  | _ => None
  end.

Definition frame_eqb (a b : frame) : bool :=
  match a, b with
  | FHdr x, FHdr y => hdr_eqb x y
  | FNotFound, FNotFound | FUnknown, FUnknown | FUndecodable, FUndecodable
  | FDecodePanic, FDecodePanic | FValidatePanic, FValidatePanic => true
  | _, _ => false
  end.

Fixpoint prefix_b {A} (eqb : A -> A -> bool) (p l : list A) : bool :=
  match p, l with
  | [], _ => true
  | x :: p', y :: l' => eqb x y && prefix_b eqb p' l'
  | _ :: _, [] => false
  end.

(** decidable form of "every answer of the run is honest": the k-th answer is a prefix of
    what a server with head [nth k avs] (<= top) answers to the request that peer holds *)
Fixpoint honest_evs_b (drift : Z) (tv : hdr -> hdr -> tvres) (maxcap : N) (from : hdr)
         (c : N -> hdr) (top : N) (s : sess) (evs : list event) (avs : list N) : bool :=
  match evs with
  | [] => true
  | ev :: rest =>
    match ev with
    | ERespond p now fs =>
      match avs with
      | a :: avs' =>
        match take_flight p (s_flight s) with
        | Some (r, _) => (a <=? top) && prefix_b frame_eqb fs (honest_answer c a r)
        | None => true
        end
        && honest_evs_b drift tv maxcap from c top (step drift tv maxcap from s ev) rest avs'
      | [] => false
      end
    | _ => honest_evs_b drift tv maxcap from c top (step drift tv maxcap from s ev) rest avs
    end
  end.

(** ** a type-level Verify that may panic

    [session.processResponses] (UnmarshalBinary, Validate, VerifyRange) runs under a
    [recover]: a panic there makes the answer a failed one. [verifyChunkBoundaries] has its own
    deferred recover: a panic there makes the whole call fail with an error. The functions below are the faithful versions for a
    header type whose own Verify may panic ([TVPanics]); Proofs/SessionP.v relates them to the
    functions above instantiated with [recovered tvp]. *)

Inductive tvres_p := TVRes (r : tvres) | TVPanics.

(** the panicking verifier with every panic turned into a plain rejection *)
Definition recovered (tvp : hdr -> hdr -> tvres_p) (t u : hdr) : tvres :=
  match tvp t u with TVRes r => r | TVPanics => TVPlain 0 end.

(** header.Verify; [None] = the type-level Verify panicked (it is only called when the
    mandatory checks passed) *)
Definition Verify_p (now drift : Z) (tvp : hdr -> hdr -> tvres_p) (t u : hdr) : option (option verr) :=
  match verify_mand now drift t u, tvp t u with
  | None, TVPanics => None
  | _, _ => Some (Verify now drift (recovered tvp) t u)
  end.

Fixpoint verify_range_loop_p (now drift : Z) (tvp : hdr -> hdr -> tvres_p) (first : bool)
         (t : hdr) (l : list hdr) : option (list hdr * option verr) :=
  match l with
  | [] => Some ([], None)
  | u :: r =>
    match Verify_p now drift tvp t u with
    | None => None
    | Some (Some e) => Some ([], Some e)
    | Some None =>
      if negb first && negb (wrap64 (h_height t + 1) =? h_height u)
      then Some ([], Some (VErr RNonAdjacent false))
      else match verify_range_loop_p now drift tvp false u r with
           | None => None
           | Some (v, e) => Some (u :: v, e)
           end
    end
  end.

Definition VerifyRange_p (now drift : Z) (tvp : hdr -> hdr -> tvres_p) (t : hdr) (l : list hdr)
  : option (list hdr * option verr) :=
  match l with
  | [] => Some ([], Some (VErr REmptyRange false))
  | _ => verify_range_loop_p now drift tvp true t l
  end.

Definition session_verify_p (now drift : Z) (tvp : hdr -> hdr -> tvres_p) (from : hdr) (hs : list hdr)
  : option (list hdr * option verr) :=
  if h_nil from then Some (hs, None) else VerifyRange_p now drift tvp from hs.

Definition do_request_p (now drift : Z) (tvp : hdr -> hdr -> tvres_p) (from : hdr) (r : req)
           (fs : list frame) : dres :=
  match process_responses (takeN (r_amount r) fs) with
  | inl e => DErr e
  | inr hs =>
    match session_verify_p now drift tvp from hs with
    | None => DErr POther             (* recover() in session.processResponses *)
    | Some (_, Some _) => DErr POther
    | Some (h, None) =>
      match h with
      | [] => DPanic
      | h0 :: _ => if h_height h0 =? r_origin r then DOk h else DErr POther
      end
    end
  end.

(** verifyChunkBoundaries before its recover: [BPanic] = header.Verify (or an index) panicked *)
Fixpoint boundaries_p (now drift : Z) (tvp : hdr -> hdr -> tvres_p) (prev : list hdr)
         (cs : list (list hdr)) : bres :=
  match cs with
  | [] => BOk
  | c :: r =>
    match prev, c with
    | [], _ | _, [] => BPanic
    | _ :: _, u :: _ =>
      match Verify_p now drift tvp (last prev hdr_nil) u with
      | None => BPanic                 (* recovered by the deferred function: see finish_p *)
      | Some (Some _) => BErr
      | Some None => boundaries_p now drift tvp c r
      end
    end
  end.

Definition verify_chunk_boundaries_p (now drift : Z) (tvp : hdr -> hdr -> tvres_p) (from : hdr)
           (chunks : list (list hdr)) : bres :=
  if h_nil from then BOk
  else if existsb is_nil chunks then BPanic
  else match sort_c chunks with
       | [] => BOk
       | c :: r => boundaries_p now drift tvp c r
       end.

Definition finish_p (now drift : Z) (tvp : hdr -> hdr -> tvres_p) (from : hdr)
           (coll : list hdr) (chunks : list (list hdr)) : result :=
  match verify_chunk_boundaries_p now drift tvp from chunks with
  | BOk => ROk (sort_h coll)
  | BErr | BPanic => RErr ENotChain    (* the error of Verify, or the recovered panic *)
  end.

(** [step] with the panicking verifier (same text, [do_request_p] and [finish_p]) *)
Definition step_p (drift : Z) (tvp : hdr -> hdr -> tvres_p) (maxcap : N) (from : hdr)
           (s : sess) (ev : event) : sess :=
  match s_res s with
  | Some _ => s
  | None =>
    match ev with
    | ECtxDone => set_res s (RErr ECtx)
    | EStop => set_res s (RErr EClosed)
    | EDispatch p r =>
      match remove_peer p (s_idle s), remove_req r (s_queue s) with
      | Some idle', Some queue' =>
        Sess (s_amount s) queue' idle' ((p, r) :: s_flight s) (s_coll s) (s_chunks s) None
      | _, _ => s
      end
    | ERespond p now fs =>
      match take_flight p (s_flight s) with
      | None => s
      | Some (r, flight') =>
        match do_request_p now drift tvp from r fs with
        | DPanic => set_res s RPanic
        | DErr e =>
          Sess (s_amount s) (s_queue s ++ [r])
               (match e with PNotFound => s_idle s ++ [p] | _ => s_idle s end)
               flight' (s_coll s) (s_chunks s) None
        | DOk h =>
          let rem := remaining r h in
          let requeue :=
            if 0 <? rem then
              match prepare_requests maxcap (wrap64 (h_height (last h hdr_nil) + 1)) rem (r_amount r) with
              | PROk (x :: _) => inr [x]
              | PROk [] | PRPanic => inl RPanic
              | PRFuel => inl RFuel
              end
            else inr [] in
          match requeue with
          | inl bad => set_res s bad
          | inr rq =>
            let coll' := s_coll s ++ h in
            let chunks' := s_chunks s ++ [h] in
            Sess (s_amount s) (s_queue s ++ rq) (s_idle s ++ [p]) flight' coll' chunks'
                 (if s_amount s <=? N.of_nat (length coll')
                  then Some (finish_p now drift tvp from coll' chunks') else None)
          end
        end
      end
    end
  end.

Fixpoint run_p (drift : Z) (tvp : hdr -> hdr -> tvres_p) (maxcap : N) (from : hdr)
         (s : sess) (evs : list event) : sess :=
  match evs with
  | [] => s
  | ev :: r => run_p drift tvp maxcap from (step_p drift tvp maxcap from s ev) r
  end.

(** the call, for a header type whose Verify may panic *)
Definition GetRangeByHeight_p (drift : Z) (tvp : hdr -> hdr -> tvres_p) (maxcap per : N)
           (from : hdr) (to : N) (peers : list N) (evs : list event) : option result :=
  s_res (run_p drift tvp maxcap from (get_range maxcap per from to peers) evs).

(** Exchange.performRequest (Get, GetByHeight): the request goes to all trusted peers at once;
    [answers] are their answers in the order in which they arrive; the first answer that
    processes without error wins, an erroneous one (NOT_FOUND, empty, garbage) is skipped *)
Fixpoint perform_request (want : option N) (answers : list (list frame)) : option hdr :=
  match answers with
  | [] => None
  | fs :: rest =>
    match request_one want fs with
    | Some h => Some h
    | None => perform_request want rest
    end
  end.

(** decidable honesty with pruned servers: the k-th answer is a prefix of what a server whose
    store holds [fst (nth k ths)] .. [snd (nth k ths)] (head <= top) answers *)
Fixpoint honest_evs_tb (drift : Z) (tv : hdr -> hdr -> tvres) (maxcap : N) (from : hdr)
         (c : N -> hdr) (top : N) (s : sess) (evs : list event) (ths : list (N * N)) : bool :=
  match evs with
  | [] => true
  | ev :: rest =>
    match ev with
    | ERespond p now fs =>
      match ths with
      | (t, a) :: ths' =>
        match take_flight p (s_flight s) with
        | Some (r, _) => (a <=? top) && prefix_b frame_eqb fs (honest_answer_t c t a r)
        | None => true
        end
        && honest_evs_tb drift tv maxcap from c top (step drift tv maxcap from s ev) rest ths'
      | [] => false
      end
    | _ => honest_evs_tb drift tv maxcap from c top (step drift tv maxcap from s ev) rest ths
    end
  end.
