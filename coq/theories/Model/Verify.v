(** Model of verify.go: verify(), Verify(), VerifyRange().
    The header type's own Verify is a parameter [tv] (for every type). *)
From GH Require Import Base.Prelude.

Inductive sentinel := EZero | EWrongChain | EKnown | EUnordered | EFuture.

(** shape of the result of the header type's own [Verify] *)
Inductive tvres :=
| TVOk
| TVPlain (e : N)                  (* an error that is not a *VerifyError *)
| TVVerr (soft : bool) (e : N)     (* a bare *VerifyError *)
| TVWrapped (soft : bool) (e : N). (* an error wrapping a *VerifyError (errors.As finds it) *)

Inductive reason := RSent (s : sentinel) | RType (e : N) | REmptyRange | RNonAdjacent.
Record verr := VErr { ve_reason : reason; ve_soft : bool }.

(** verify(): the mandatory checks, in code order *)
Definition verify_mand (now drift : Z) (t u : hdr) : option sentinel :=
  if h_nil t then Some EZero else
  if h_nil u then Some EZero else
  if negb (h_chain u =? h_chain t) then Some EWrongChain else
  if h_height u <=? h_height t then Some EKnown else
  if (h_time u <? h_time t)%Z then Some EUnordered else
  if (now + drift <? h_time u)%Z then Some EFuture else None.

Definition adjacent (t u : hdr) : bool := h_height u =? wrap64 (h_height t + 1).

(** Verify(): None = nil error *)
Definition Verify (now drift : Z) (tv : hdr -> hdr -> tvres) (t u : hdr) : option verr :=
  match verify_mand now drift t u with
  | Some s => Some (VErr (RSent s) false)
  | None =>
    match tv t u with
    | TVOk => None
    | TVPlain e => Some (VErr (RType e) (negb (adjacent t u)))
    | TVVerr soft e | TVWrapped soft e => Some (VErr (RType e) (soft || negb (adjacent t u)))
    end
  end.

(** VerifyRange(): the loop with the rolling trusted header; [first] is i = 0 *)
Fixpoint verify_range_loop (now drift : Z) (tv : hdr -> hdr -> tvres) (first : bool)
         (t : hdr) (l : list hdr) : list hdr * option verr :=
  match l with
  | [] => ([], None)
  | u :: r =>
    match Verify now drift tv t u with
    | Some e => ([], Some e)
    | None =>
      if negb first && negb (wrap64 (h_height t + 1) =? h_height u)
      then ([], Some (VErr RNonAdjacent false))
      else let '(v, e) := verify_range_loop now drift tv false u r in (u :: v, e)
    end
  end.

Definition VerifyRange (now drift : Z) (tv : hdr -> hdr -> tvres) (t : hdr) (l : list hdr)
  : list hdr * option verr :=
  match l with
  | [] => ([], Some (VErr REmptyRange false))
  | _ => verify_range_loop now drift tv true t l
  end.

(** * Extension (audit follow-up C01/C02): the result of the header type's own
    Verify as a Go OBJECT.  verify.go Verify() does [errors.As(err, &verErr)], which
    hands out the very *VerifyError the header type returned.  Until /repo dd31b07
    (finding F32) a non-adjacent failure wrote [verErr.SoftFailure = true] into that
    object; now Verify returns a soft copy [&VerifyError{Reason: verErr.Reason,
    SoftFailure: true}] and the memory below is only ever READ (the theorems of
    Props/C01_more.v prove that no call writes).  The shapes below add what the pure
    [tvres] cannot express: the identity of a wrapper, a typed-nil *VerifyError, and
    a *VerifyError INSTANCE that the type keeps (a package-level error value)
    and returns again - its SoftFailure field is a memory cell. *)
Inductive tvx :=
| XOk
| XPlain (e : N)                          (* not a *VerifyError *)
| XVerr (soft : bool) (e : N)             (* a fresh bare *VerifyError *)
| XWrapped (w : N) (soft : bool) (e : N)  (* wrapper number [w] around a fresh *VerifyError *)
| XTypedNil                               (* error(( *VerifyError)(nil)): non-nil error, nil pointer *)
| XShared (w : option N) (cell : N) (e : N).
    (* the *VerifyError instance living in [cell] (Reason = type error [e]), bare or
       inside wrapper [w]; its SoftFailure is the current content of the cell *)

(** the memory: the SoftFailure field of every kept instance *)
Definition heap := N -> bool.
Definition hupd (h : heap) (c : N) (b : bool) : heap := fun x => if x =? c then b else h x.

Inductive xres :=
| XNil                                              (* nil error *)
| XErr (r : reason) (soft : bool) (via : option N)  (* a *VerifyError; [via]: the wrapper still reachable from the result *)
| XNilPtr                                           (* the typed-nil *VerifyError handed back as the error *)
| XPanic.                                           (* nil pointer dereference in Verify *)

(** Verify() on a memory: result and memory afterwards (code order:
    mandatory checks, the type's Verify, errors.As, the soft copy for non-adjacent) *)
Definition Verify_x (now drift : Z) (tv : hdr -> hdr -> tvx) (h : heap) (t u : hdr) : xres * heap :=
  match verify_mand now drift t u with
  | Some s => (XErr (RSent s) false None, h)
  | None =>
    let adj := adjacent t u in
    match tv t u with
    | XOk => (XNil, h)
    | XPlain e => (XErr (RType e) (negb adj) None, h)
    | XVerr soft e => (XErr (RType e) (soft || negb adj) None, h)
    | XWrapped _ soft e => (XErr (RType e) (soft || negb adj) None, h)   (* errors.As: the inner object is returned, the wrapper is gone *)
    | XTypedNil => if adj then (XNilPtr, h) else (XPanic, h)
    | XShared _ c e => if adj then (XErr (RType e) (h c) None, h)           (* the type's own object, untouched *)
                       else (XErr (RType e) true None, h)                    (* /repo dd31b07: a soft COPY; the type's object is not written *)
    end
  end.

(** a sequence of calls on one memory *)
Fixpoint Verify_seq (drift : Z) (tv : hdr -> hdr -> tvx) (h : heap) (calls : list (Z * hdr * hdr)) : list xres * heap :=
  match calls with
  | [] => ([], h)
  | (now, t, u) :: r =>
    let '(x, h1) := Verify_x now drift tv h t u in
    let '(xs, h2) := Verify_seq drift tv h1 r in (x :: xs, h2)
  end.

(** what a result shape is for the pure model, given the memory at the time of the call
    ([None]: the typed nil, which the pure model has no shape for) *)
Definition tvx_pure (h : heap) (r : tvx) : option tvres :=
  match r with
  | XOk => Some TVOk
  | XPlain e => Some (TVPlain e)
  | XVerr s e => Some (TVVerr s e)
  | XWrapped _ s e => Some (TVWrapped s e)
  | XTypedNil => None
  | XShared None c e => Some (TVVerr (h c) e)
  | XShared (Some _) c e => Some (TVWrapped (h c) e)
  end.

Definition xres_pure (x : xres) : option (option verr) :=
  match x with
  | XNil => Some None
  | XErr r s _ => Some (Some (VErr r s))
  | _ => None
  end.

(** Gallina twin of vhdr.LinkPolicy(trust) (the default type-level Verify of the harness header type) *)
Definition vlink_tv (trust : N) (t u : hdr) : tvres :=
  if h_height u =? wrap64 (h_height t + 1) then
    if h_prev u =? h_id t then TVOk else TVPlain 1
  else if negb (trust =? 0) && (trust <? sub64 (h_height u) (h_height t)) then TVPlain 2
  else TVOk.
