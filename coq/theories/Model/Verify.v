(** Model of verify.go: verify(), Verify(), VerifyRange().
    The header type's own Verify is a parameter [tv] (for every type). *)
From GH Require Import Base.Prelude.

Inductive sentinel := EZero | EWrongChain | EKnown | EUnordered | EFuture.

(** shape of the result of the header type's own [Verify] *)
Inductive tvres :=
| TVOk
| TVPlain (e : N)                  (* an error that is not a *VerifyError *)
| TVVerr (soft : bool) (e : N)     (* a bare *VerifyError *)
| TVWrapped (soft : bool) (e : N). (* an error wrapping a *VerifyError (errors.As finds it) *)

Inductive reason := RSent (s : sentinel) | RType (e : N) | REmptyRange | RNonAdjacent.
Record verr := VErr { ve_reason : reason; ve_soft : bool }.

(** verify(): the mandatory checks, in code order *)
Definition verify_mand (now drift : Z) (t u : hdr) : option sentinel :=
  if h_nil t then Some EZero else
  if h_nil u then Some EZero else
  if negb (h_chain u =? h_chain t) then Some EWrongChain else
  if h_height u <=? h_height t then Some EKnown else
  if (h_time u <? h_time t)%Z then Some EUnordered else
  if (now + drift <? h_time u)%Z then Some EFuture else None.

Definition adjacent (t u : hdr) : bool := h_height u =? wrap64 (h_height t + 1).

(** Verify(): None = nil error *)
Definition Verify (now drift : Z) (tv : hdr -> hdr -> tvres) (t u : hdr) : option verr :=
  match verify_mand now drift t u with
  | Some s => Some (VErr (RSent s) false)
  | None =>
    match tv t u with
    | TVOk => None
    | TVPlain e => Some (VErr (RType e) (negb (adjacent t u)))
    | TVVerr soft e | TVWrapped soft e => Some (VErr (RType e) (soft || negb (adjacent t u)))
    end
  end.

(** VerifyRange(): the loop with the rolling trusted header; [first] is i = 0 *)
Fixpoint verify_range_loop (now drift : Z) (tv : hdr -> hdr -> tvres) (first : bool)
         (t : hdr) (l : list hdr) : list hdr * option verr :=
  match l with
  | [] => ([], None)
  | u :: r =>
    match Verify now drift tv t u with
    | Some e => ([], Some e)
    | None =>
      if negb first && negb (wrap64 (h_height t + 1) =? h_height u)
      then ([], Some (VErr RNonAdjacent false))
      else let '(v, e) := verify_range_loop now drift tv false u r in (u :: v, e)
    end
  end.

Definition VerifyRange (now drift : Z) (tv : hdr -> hdr -> tvres) (t : hdr) (l : list hdr)
  : list hdr * option verr :=
  match l with
  | [] => ([], Some (VErr REmptyRange false))
  | _ => verify_range_loop now drift tv true t l
  end.
