(** Model of store/store.go, store_delete.go, batch.go, height_indexer.go (sequential core).

    State: the datastore below the namespace prefix split by key kind (headers
    by hash, height index, head and tail pointer keys) with its write log, the
    pending batch (two maps, as batch.go), the two atomic pointers, the
    heightSub height. The two 2Q caches are not part of the state: they are
    coherent sub-maps of the datastore (entries are added only from successful
    datastore reads and removed on delete / purged on deinit), so no read
    depends on them; the harness runs cache sizes 1, 2, 8, 512 against this
    cache-free model.

    An operation is applied at quiescence of the flush loop (the write queue is
    empty before and after), which is what [Store.Sync] establishes. *)
From Coq Require Import NArith List Bool.
From stdpp Require Import gmap.
From GH Require Import Base.Prelude.
Import ListNotations.
Open Scope N_scope.

(** one datastore write; a commit of a batch is a list of them applied atomically *)
Inductive w1 :=
| WPutH (id : N) (h : hdr) | WDelH (id : N)
| WPutI (n id : N) | WDelI (n : N)
| WPutHead (id : N) | WDelHead
| WPutTail (id : N) | WDelTail.
Definition wop := list w1.

Record st := St {
  d_hdr : gmap N hdr;        (* /headers/<hash>   -> header *)
  d_idx : gmap N N;          (* /headers/<height> -> hash *)
  d_head : option N;         (* /headers/head     -> hash *)
  d_tail : option N;         (* /headers/tail     -> hash *)
  wlog : list wop;           (* every commit / direct write, in order (ghost) *)
  pend_h : gmap N hdr;       (* batch.headers : height -> header *)
  pend_i : gmap N N;         (* batch.heights : hash -> height *)
  headp : option hdr;        (* contiguousHead *)
  tailp : option hdr;        (* tailHeader *)
  hsh : N;                   (* heightSub.height *)
  batch : N                  (* Params.WriteBatchSize *)
}.

Definition st0 (b : N) : st := St ∅ ∅ None None [] ∅ ∅ None None 0 b.

Definition set_disk (s : st) dh di hd tl lg : st :=
  St dh di hd tl lg (pend_h s) (pend_i s) (headp s) (tailp s) (hsh s) (batch s).
Definition set_pend (s : st) ph pi : st :=
  St (d_hdr s) (d_idx s) (d_head s) (d_tail s) (wlog s) ph pi (headp s) (tailp s) (hsh s) (batch s).
Definition set_headp (s : st) (h : option hdr) : st :=
  St (d_hdr s) (d_idx s) (d_head s) (d_tail s) (wlog s) (pend_h s) (pend_i s) h (tailp s) (hsh s) (batch s).
Definition set_tailp (s : st) (h : option hdr) : st :=
  St (d_hdr s) (d_idx s) (d_head s) (d_tail s) (wlog s) (pend_h s) (pend_i s) (headp s) h (hsh s) (batch s).
Definition set_hsh (s : st) (n : N) : st :=
  St (d_hdr s) (d_idx s) (d_head s) (d_tail s) (wlog s) (pend_h s) (pend_i s) (headp s) (tailp s) n (batch s).

Definition apply1 (s : st) (w : w1) : st :=
  match w with
  | WPutH id h => set_disk s (<[id := h]> (d_hdr s)) (d_idx s) (d_head s) (d_tail s) (wlog s)
  | WDelH id => set_disk s (delete id (d_hdr s)) (d_idx s) (d_head s) (d_tail s) (wlog s)
  | WPutI n id => set_disk s (d_hdr s) (<[n := id]> (d_idx s)) (d_head s) (d_tail s) (wlog s)
  | WDelI n => set_disk s (d_hdr s) (delete n (d_idx s)) (d_head s) (d_tail s) (wlog s)
  | WPutHead id => set_disk s (d_hdr s) (d_idx s) (Some id) (d_tail s) (wlog s)
  | WDelHead => set_disk s (d_hdr s) (d_idx s) None (d_tail s) (wlog s)
  | WPutTail id => set_disk s (d_hdr s) (d_idx s) (d_head s) (Some id) (wlog s)
  | WDelTail => set_disk s (d_hdr s) (d_idx s) (d_head s) None (wlog s)
  end.

(** one atomic write operation (a batch commit or a direct Put/Delete) *)
Definition write (s : st) (w : wop) : st :=
  let s' := fold_left apply1 w s in
  set_disk s' (d_hdr s') (d_idx s') (d_head s') (d_tail s') (wlog s ++ [w]).

Inductive res (A : Type) := Found (a : A) | NotFound | Blocks | Err.
Arguments Found {A}. Arguments NotFound {A}. Arguments Blocks {A}. Arguments Err {A}.

(** Store.Get: (cache,) pending, datastore. batch.Get looks the hash up in [heights] and then
    returns [headers[height]], which is the zero header when absent; Store.Get then falls
    through to the datastore. *)
Definition get (s : st) (id : N) : res hdr :=
  match pend_i s !! id ≫= (fun n => pend_h s !! n) with
  | Some h => Found h
  | None => match d_hdr s !! id with Some h => Found h | None => NotFound end
  end.

Definition has_height (o : option hdr) (n : N) : bool :=
  match o with Some h => h_height h =? n | None => false end.

(** Store.getByHeight (non-blocking): head, tail, pending, index + Get *)
Definition nb (s : st) (n : N) : res hdr :=
  if has_height (headp s) n then match headp s with Some h => Found h | None => NotFound end else
  if has_height (tailp s) n then match tailp s with Some h => Found h | None => NotFound end else
  match pend_h s !! n with
  | Some h => Found h
  | None => match d_idx s !! n with Some id => get s id | None => NotFound end
  end.

(** Store.GetByHeight: lookup, heightSub.Wait, lookup *)
Definition get_by_height (s : st) (n : N) : res hdr :=
  if n =? 0 then Err else
  match nb s n with
  | Found h => Found h
  | _ => if n <=? hsh s then nb s n else Blocks
  end.

(** Store.getRangeByHeight: GetByHeight(to-1), then walk LastHeader links down *)
Fixpoint walk_down (s : st) (k : nat) (h : hdr) (acc : list hdr) : res (list hdr) :=
  match k with
  | O => Found (h :: acc)
  | S k' => match get s (h_prev h) with
            | Found p => walk_down s k' p (h :: acc)
            | _ => NotFound
            end
  end.

Definition get_range (s : st) (from to : N) : res (list hdr) :=
  if to <=? from then Err else
  match get_by_height s (to - 1) with
  | Found h => walk_down s (N.to_nat (to - from - 1)) h []
  | NotFound => NotFound
  | Blocks => Blocks
  | Err => Err
  end.

Definition has (s : st) (id : N) : bool :=
  match pend_i s !! id with Some _ => true | None => match d_hdr s !! id with Some _ => true | None => false end end.

Definition has_at (s : st) (n : N) : bool :=
  match headp s, tailp s with
  | Some hd, Some tl => negb (n =? 0) && (n <=? h_height hd) && (h_height tl <=? n)
  | _, _ => false
  end.

(** ** the flush closure *)

Definition ensure_init (s : st) (hs : list hdr) : st :=
  match hs with
  | [] => s
  | h0 :: _ =>
    let s1 := match headp s with None => set_hsh (set_headp s (Some h0)) (h_height h0) | Some _ => s end in
    match tailp s1 with None => set_tailp s1 (Some h0) | Some _ => s1 end
  end.

Definition pend_add (s : st) (hs : list hdr) : st :=
  set_pend s (fold_left (fun m h => <[h_height h := h]> m) hs (pend_h s))
             (fold_left (fun m h => <[h_id h := h_height h]> m) hs (pend_i s)).

(** nextHead / nextTail loops; [cur] is the local variable, the pointers change afterwards *)
Fixpoint next_head (fuel : nat) (s : st) (cur : hdr) (changed : bool) : hdr * bool :=
  match fuel with
  | O => (cur, changed)
  | S f => match nb s (wrap64 (h_height cur + 1)) with
           | Found h => next_head f s h true
           | _ => (cur, changed)
           end
  end.
Fixpoint next_tail (fuel : nat) (s : st) (cur : hdr) (changed : bool) : hdr * bool :=
  match fuel with
  | O => (cur, changed)
  | S f => match nb s (sub64 (h_height cur) 1) with
           | Found h => next_tail f s h true
           | _ => (cur, changed)
           end
  end.

(** enough fuel to walk over everything that is stored *)
Definition fuel_of (s : st) : nat := S (size (pend_h s) + size (d_idx s)).

Definition advance_head (s : st) : st :=
  match headp s with
  | None => s
  | Some cur =>
    let '(h, ch) := next_head (fuel_of s) s cur false in
    if ch then set_hsh (set_headp s (Some h)) (N.max (hsh s) (h_height h)) else s
  end.
Definition recede_tail (s : st) : st :=
  match tailp s with
  | None => s
  | Some cur =>
    let '(h, ch) := next_tail (fuel_of s) s cur false in
    if ch then set_tailp s (Some h) else s
  end.

Definition pend_list (s : st) : list hdr := map snd (map_to_list (pend_h s)).

(** Store.flush: one atomic batch: headers, the pointers that are set, height index *)
Definition commit_ops (s : st) : wop :=
  let hs := pend_list s in
  map (fun h => WPutH (h_id h) h) hs
  ++ match headp s with Some hd => [WPutHead (h_id hd)] | None => [] end
  ++ match tailp s with Some tl => [WPutTail (h_id tl)] | None => [] end
  ++ map (fun h => WPutI (h_height h) (h_id h)) hs.

Inductive outcome := Ok | Fail | Panic.

(** the [flush] closure of flushLoop; [o = None] is the nil slice sent by Stop *)
Definition flush_one (s : st) (o : option (list hdr)) : st * outcome :=
  let hs := match o with Some l => l | None => [] end in
  let s3 := recede_tail (advance_head (pend_add (ensure_init s hs) hs)) in
  if (N.of_nat (size (pend_h s3)) <? batch s3) && (match o with Some _ => true | None => false end)
  then (s3, Ok)
  else if (size (pend_h s3) =? 0)%nat then (s3, Ok)
  else (set_pend (write s3 (commit_ops s3)) ∅ ∅, Ok).

Definition append (s : st) (hs : list hdr) : st * outcome :=
  match hs with [] => (s, Ok) | _ => flush_one s (Some hs) end.

(** ** deletion *)

(** a handler script: result of handler [k] called for height [n] *)
Inductive hres := HOk | HErr | HPanic.
Record hcall := HCall { hc_handler : nat; hc_height : N; hc_readable : bool }.

Fixpoint run_handlers (s : st) (script : nat -> N -> hres) (k nh : nat) (n : N) (log : list hcall)
  : list hcall * bool :=
  match nh with
  | O => (log, true)
  | S nh' =>
    let readable := match get_by_height s n with Found h => h_height h =? n | _ => false end in
    let log' := log ++ [HCall k n readable] in
    match script k n with
    | HOk => run_handlers s script (S k) nh' n log'
    | _ => (log', false)   (* error, or panic turned into an error by the recover wrapper *)
    end
  end.

Definition pend_del (s : st) (n : N) : st :=
  set_pend s (delete n (pend_h s)) (base.filter (fun p : N * N => snd p <> n) (pend_i s)).

(** deleteSingle: the header and its height index are deleted by ONE atomic write (deleteKeys: a
    batch of its own on a plain datastore, the write batch of the pass on a context-aware one) *)
Definition delete_single (s : st) (script : nat -> N -> hres) (nh : nat) (n : N) (log : list hcall)
  : st * list hcall * bool :=
  let oid := match d_idx s !! n with
             | Some id => Some id
             | None => match pend_h s !! n with Some h => Some (h_id h) | None => None end
             end in
  match oid with
  | None => (s, log, true)      (* counted as missing *)
  | Some id =>
    let '(log', ok) := run_handlers s script 0 nh n log in
    if ok then (pend_del (write s [WDelH id; WDelI n]) n, log', true)
    else (s, log', false)
  end.

(** deleteSequential over [from, from + cnt): returns the state, the log, actualTo and success *)
Fixpoint delete_seq (s : st) (script : nat -> N -> hres) (nh : nat) (n : N) (cnt : nat) (log : list hcall)
  : st * list hcall * N * bool :=
  match cnt with
  | O => (s, log, n, true)
  | S c =>
    let '(s', log', ok) := delete_single s script nh n log in
    if ok then delete_seq s' script nh (n + 1) c log' else (s', log', n, false)
  end.

Definition put_head_ptr (s : st) : st :=
  match headp s with Some hd => write s [WPutHead (h_id hd)] | None => s end.
Definition put_tail_ptr (s : st) : st :=
  match tailp s with Some tl => write s [WPutTail (h_id tl)] | None => s end.

(** setTail: both pointers are persisted (the head one also when it did not move) *)
Definition set_tail (s : st) (n : N) : st * bool :=
  match nb s n with
  | Found h =>
    let s1 := write (set_tailp s (Some h)) [WPutTail (h_id h)] in
    let over := match headp s1 with None => true | Some hd => h_height hd <? n end in
    let s2 := if over then advance_head (set_headp (write s1 [WPutHead (h_id h)]) (Some h)) else s1 in
    (put_head_ptr s2, true)
  | _ => (s, false)
  end.

(** setHead: both pointers are persisted *)
Definition set_head (s : st) (n : N) : st * bool :=
  match nb s n with
  | Found h =>
    (put_tail_ptr (write (set_hsh (set_headp s (Some h)) (h_height h)) [WPutHead (h_id h)]), true)
  | _ => (s, false)
  end.

Definition deinit (s : st) : st := set_hsh (set_tailp (set_headp s None) None) 0.
Definition wipe (s : st) : st := write (write (deinit s) [WDelHead]) [WDelTail].

(** Store.DeleteRange (sequential path) *)
(** Store.Sync at quiescence: the queue is empty, the pending batch is written out unconditionally *)
Definition sync (s : st) : st := fst (flush_one s None).

Definition delete_range_synced (s : st) (script : nat -> N -> hres) (nh : nat) (from to : N)
  : st * list hcall * outcome :=
  match headp s, tailp s with
  | Some hd, Some tl =>
    let H := h_height hd in let T := h_height tl in
    if to <=? from then (s, [], Fail) else
    if (H <? from) || (to <=? T) then (s, [], Fail) else
    let uT := from =? T in
    let uH := to =? wrap64 (H + 1) in
    let cnt := N.to_nat (to - from) in
    if uT && uH && (match nb s to with NotFound => true | _ => false end) then
      (* whole store: delete everything, then drop the pointers *)
      let '(s1, log, actual, ok) := delete_seq s script nh from cnt [] in
      if ok then (wipe s1, log, Ok)
      else (fst (set_tail s1 actual), log, Fail)
    else if uT && (wrap64 (H + 1) <? to) then (s, [], Fail)
    else if negb uT && uH && (from <? T) then (s, [], Fail)
    else if negb uT && negb uH then (s, [], Fail)
    else if uT then
      let '(s1, log, actual, ok) := delete_seq s script nh from cnt [] in
      let '(s2, tok) := set_tail s1 actual in
      (s2, log, if tok && ok then Ok else Fail)
    else (* uH && ~uT: the new head pointer is persisted before anything is deleted *)
      match nb s (from - 1) with
      | Found nh' =>
        let s0 := write s [WPutTail (h_id tl); WPutHead (h_id nh')] in
        let '(s1, log, actual, ok) := delete_seq s0 script nh from cnt [] in
        if from <? actual then
          let '(s2, hok) := set_head s1 (from - 1) in
          (s2, log, if hok && ok then Ok else Fail)
        else (write s1 [WPutHead (h_id hd)], log, if ok then Ok else Fail)
      | _ => (s, [], Fail)
      end
  | _, _ => (s, [], Fail)
  end.

(** Store.DeleteRange: Sync first (writes the pending batch out), then the deletion proper *)
Definition delete_range (s : st) (script : nat -> N -> hres) (nh : nat) (from to : N)
  : st * list hcall * outcome :=
  delete_range_synced (sync s) script nh from to.

(** ** stop / start *)

Definition stop (s : st) : st * outcome :=
  let '(s1, o) := flush_one s None in
  match o with Panic => (s1, Panic) | _ => (deinit s1, Ok) end.

(** Store.readByKey *)
Definition read_head (s : st) : st :=
  match d_head s with
  | None => s
  | Some id => match get s id with
               | Found h => set_hsh (set_headp s (Some h)) (h_height h)
               | _ => write s [WDelHead]
               end
  end.
Definition read_tail (s : st) : st :=
  match d_tail s with
  | None => s
  | Some id => match get s id with
               | Found h => set_tailp s (Some h)
               | _ => write s [WDelTail]
               end
  end.
Definition start (s : st) : st := read_tail (read_head s).

(** a new Store object over the same datastore *)
Definition fresh (s : st) : st :=
  St (d_hdr s) (d_idx s) (d_head s) (d_tail s) (wlog s) ∅ ∅ None None 0 (batch s).

(** ** operations and histories *)
Inductive op :=
| OAppend (hs : list hdr)
| ODelete (from to : N) (nh : nat) (fails : list (nat * N * bool))  (* (handler, height, panic?) that fail *)
| OSync                                                             (* Store.Sync *)
| ORestart                                                          (* Stop; Start on the same object *)
| OReopen.                                                          (* Stop; new Store on the datastore; Start *)

Definition script_of (fails : list (nat * N * bool)) (k : nat) (n : N) : hres :=
  match find (fun f => (fst (fst f) =? k)%nat && (snd (fst f) =? n)) fails with
  | Some f => if snd f then HPanic else HErr
  | None => HOk
  end.

Definition step (s : st) (o : op) : st * list hcall * outcome :=
  match o with
  | OAppend hs => let '(s', r) := append s hs in (s', [], r)
  | ODelete from to nh fails => delete_range s (script_of fails) nh from to
  | OSync => (sync s, [], Ok)
  | ORestart => let '(s1, r) := stop s in
                match r with Panic => (s1, [], Panic) | _ => (start s1, [], Ok) end
  | OReopen => let '(s1, r) := stop s in
               match r with Panic => (s1, [], Panic) | _ => (start (fresh s1), [], Ok) end
  end.
