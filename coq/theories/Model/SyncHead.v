(** Model of sync/syncer_head.go (Head, networkHead, subjectiveHead, localHead,
    setLocalHead, incomingNetworkHead, verify, isExpired, isRecent), of the head
    pointer kept by sync/sync_store.go, of ranges.Add/Head (sync/ranges.go) as far
    as the head of the pending ranges is concerned, and of the single-flight
    wrapper sync/sync_head.go.  Definitions only.

    Part 1 is the sequential core: one call runs to completion.  Part 2 is a
    small-step machine in which every Head() call is a thread whose atomic
    actions are the accesses to the synchronised objects of the code (the local
    head, the single-flight mutex, incomingMu) and in which clock advances,
    gossip arrivals and sync-loop progress interleave freely.

    Inputs (never axioms): the answer of the getter to each underlying Head
    call, the outcome of subjectiveTail, the outcome of a bifurcation, the
    type-level Verify [tv], the clock.

    Abstractions, stated once:
    - time.Time / time.Duration are Z nanoseconds; no int64 saturation (times and
      periods stay within +-100 years of each other); the one product the code
      computes, blockTime * 3, wraps to int64 as in Go ([wrap_i64]);
    - the pending ranges are represented by their head only (ranges.Head);
    - subjectiveTail is an input: it fails, or succeeds after possibly appending
      one header [t] through syncStore.Append (what renewTail does on an empty
      store); it never moves the store HEAD otherwise (no head-side DeleteRange);
    - verifyBifurcating is an input: the list of intermediate headers it promotes
      with setLocalHead, and whether it finally accepts;
    - in Parts 1 and 2 setLocalHead is one atomic action and the sync loop is a
      separate event (sync_part / sync_done) that runs between other actions;
      Part 3 splits setLocalHead into its two halves (the code holds no lock
      across them) for the gossip verifier and for networkHead; races inside
      syncStore.Append belong to C03/C17;
    - a getter answering with a zero header makes the code panic (isRecent /
      verify dereference it): outcome [RPanic]. *)
From GH Require Import Base.Prelude Model.Verify.

Record params := Params {
  p_trust : Z;      (* trustingPeriod *)
  p_block : Z;      (* blockTime *)
  p_recency : Z;    (* recencyThreshold; 0 = 3 * blockTime *)
  p_drift : Z;      (* header.clockDrift (used by header.Verify) *)
  p_nhto : Z        (* NetworkHeadRequestTimeout *)
}.

(** isExpired: zero header is never expired; expired iff Since(t + period) > 0 *)
Definition is_expired (p : params) (now : Z) (h : hdr) : bool :=
  if h_nil h then false else (0 <? now - (h_time h + p_trust p))%Z.

(** two's complement wrap of a mathematical integer to int64 (Go's time.Duration arithmetic) *)
Definition wrap_i64 (x : Z) : Z := ((x + 9223372036854775808) mod 18446744073709551616 - 9223372036854775808)%Z.

(** recencyThreshold, 0 = blockTime * 3 -- an int64 product, it wraps like Go's *)
Definition recency_thr (p : params) : Z :=
  if (p_recency p =? 0)%Z then wrap_i64 (p_block p * 3) else p_recency p.

(** isRecent: Since(t + threshold) <= 0 *)
Definition is_recent (p : params) (now : Z) (h : hdr) : bool :=
  (now - (h_time h + recency_thr p) <=? 0)%Z.

(** what the Syncer knows about heads: syncStore's head pointer, the head of the
    pending ranges, the clock *)
Record sstate := SState { s_store : option hdr; s_pend : option hdr; s_now : Z }.

(** localHead (since /repo dd38a4c): the pending head only while it is above the
    store head (or the store is empty), otherwise the store head; None = ErrEmptyStore.
    The highest known head, whatever is stale in pending. *)
Definition local_head (s : sstate) : option hdr :=
  match s_pend s, s_store s with
  | Some p, None => Some p
  | Some p, Some sh => if h_height sh <? h_height p then Some p else Some sh
  | None, st => st
  end.

Definition hgt (o : option hdr) : N := match o with Some h => h_height h | None => 0 end.

(** syncStore.Append of ONE header, as seen through syncStore.Head (the cached
    head pointer), in code order:
    - empty store: the header becomes the head;
    - h >= head: the head itself again (same height AND same hash) is skipped
      without error (since /repo 80904e6; before, it raised errNonAdjacent - the
      pointer did not move either way); otherwise h must be head+1 (uint64) and
      becomes the head, else errNonAdjacent and the pointer stays;
    - h < head: the check is skipped, the pointer stays.
    [store_append_err] says whether the call returns errNonAdjacent (setLocalHead
    ignores that error; renewTail then forces the write into the underlying store,
    which does not move the pointer). *)
Definition same_head (sh h : hdr) : bool := (h_height h =? h_height sh) && (h_id h =? h_id sh).

Definition store_append (st : option hdr) (h : hdr) : option hdr :=
  match st with
  | None => Some h
  | Some sh =>
    if h_height sh <=? h_height h then
      if same_head sh h then st
      else if h_height h =? wrap64 (h_height sh + 1) then Some h else st
    else st
  end.

Definition store_append_err (st : option hdr) (h : hdr) : bool :=
  match st with
  | None => false
  | Some sh =>
    (h_height sh <=? h_height h) && negb (same_head sh h) &&
    negb (h_height h =? wrap64 (h_height sh + 1))
  end.

(** syncStore.Append of a LIST (only the sync loop appends more than one header;
    Parts 1-3 represent the loop by the events sync_part / sync_done, so this
    function is not used by the machines - it records the shim as of /repo 7d16f07
    and carries the lemma that justifies sync_done: an accepted list leaves the
    head pointer at or above every header of the list).  In code order: empty list:
    nothing; empty store: the last header becomes the head; otherwise the leading
    headers BELOW the head are skipped and the rest is walked from the head: the
    head itself again is skipped, every other header must be head+1 and becomes the
    head, else errNonAdjacent and the pointer stays.  (Before 7d16f07 the walk ran
    only when the FIRST header was at or above the head: a list starting below the
    head and reaching above it went through unchecked and left the pointer stale.)
    For one header this is [store_append] / [store_append_err] (Proofs). *)
Fixpoint drop_below (hh : N) (l : list hdr) : list hdr :=
  match l with
  | h :: r => if h_height h <? hh then drop_below hh r else l
  | [] => []
  end.

Fixpoint walk (head : hdr) (l : list hdr) : option hdr :=
  match l with
  | [] => Some head
  | h :: r =>
    if same_head head h then walk head r
    else if h_height h =? wrap64 (h_height head + 1) then walk h r
    else None
  end.

Definition store_append_list (st : option hdr) (l : list hdr) : option hdr * bool :=
  match l with
  | [] => (st, false)
  | _ =>
    match st with
    | None => (Some (last l hdr_nil), false)
    | Some sh =>
      match drop_below (h_height sh) l with
      | [] => (st, false)
      | rest => match walk sh rest with Some h' => (Some h', false) | None => (st, true) end
      end
    end
  end.

(** ranges.Add as seen through ranges.Head: a header not above the head is ignored *)
Definition pend_add (pd : option hdr) (h : hdr) : option hdr :=
  match pd with
  | Some p => if h_height h <=? h_height p then Some p else Some h
  | None => Some h
  end.

(** setLocalHead *)
Definition set_local_head (s : sstate) (h : hdr) : sstate :=
  let st := store_append (s_store s) h in
  match st with
  | Some sh =>
    if h_height h <=? h_height sh then SState st (s_pend s) (s_now s)
    else SState st (pend_add (s_pend s) h) (s_now s)
  | None => SState st (pend_add (s_pend s) h) (s_now s)
  end.

(** outcome of a bifurcation: promoted intermediate headers, final verdict *)
Definition bifres := (list hdr * bool)%type.

(** the getter's answer to one underlying Head call *)
Inductive gans :=
| GOk (h : hdr)      (* header, nil error *)
| GSoft (h : hdr)    (* header together with a soft *VerifyError *)
| GFail              (* any other error *)
| GHang.             (* no answer before the context ends: ctx error *)

(** outcome of subjectiveTail *)
Inductive tans := TFail | TOk (t : option hdr).

Inductive hres :=
| ROk (h : hdr)
| RGetter     (* error of the getter's Head during subjective initialisation *)
| RCtx        (* context error during subjective initialisation *)
| RExpired    (* "subjective initialization with header expired" *)
| RTail       (* subjectiveTail failed *)
| REmpty      (* final localHead: ErrEmptyStore *)
| RPanic.     (* getter returned a zero header with a nil error: Time() on it panics *)

(** which underlying request (if any) a call needs, decided from the local head *)
Inductive kind := KInit | KStale (sbj : hdr).
Inductive decision := DReturn (h : hdr) | DRequest (k : kind).

(** what networkHead reports once the flight's answer is known *)
Inductive nres :=
| NErr (r : hres)
| NKeep (h : hdr)       (* (h, false, nil) *)
| NUpdated (h : hdr).   (* (h, true, nil)  *)

(** inputs of one sequential Head() call *)
Record hin := HIn {
  i_cto : Z;        (* timeout of the caller's context *)
  i_ans : gans;     (* answer to the (at most one) underlying getter Head call *)
  i_b1 : bifres;    (* bifurcation outcome for a soft answer *)
  i_tail : tans;    (* subjectiveTail *)
  i_b2 : bifres     (* bifurcation outcome of the final incomingNetworkHead *)
}.

Record hout := HOut {
  o_st : sstate;
  o_res : hres;
  o_calls : list (option hdr)   (* underlying getter Head calls: their TrustedHead option *)
}.

(** ** Sequential histories *)
Inductive sev :=
| SvTick (d : N)
| SvGossip (h : hdr) (b : bifres) (t : tans)
| SvSyncPart (h : hdr)
| SvSyncDone
| SvHead (i : hin).

(** program counter of one Head() call *)
Inductive pc :=
| PIdle
| PWant (k : kind)               (* about to call syncHead.Head *)
| PLead (k : kind)               (* acquired the flight: the getter's Head is running *)
| PWait (k : kind) (g : nat)     (* waiting for flight g *)
| PGot (k : kind) (a : gans)     (* syncHead.Head returned *)
| PUpd (net : hdr)               (* networkHead reported updated; next: subjectiveTail *)
| PInc (net : hdr)               (* next: incomingNetworkHead *)
| PFin.                          (* next: localHead, return *)

(** syncHead: headCh (open flight, numbered), resHead/resErr *)
Record flight := Flight { f_open : option nat; f_next : nat; f_last : option gans }.

Record cstate := CState { c_s : sstate; c_f : flight; c_pc : nat -> pc }.

(** observable trace *)
Inductive obs :=
| OStart (i : nat)
| OGet (i : nat) (trusted : option hdr)   (* underlying getter Head call issued *)
| OJoin (i : nat)                          (* joined an open flight *)
| OAns (i : nat) (a : gans)                (* the underlying call of leader i returned a *)
| OGot (i : nat) (a : gans)                (* waiter i took the shared result a *)
| OGiveUp (i : nat)                        (* waiter i's own context ended *)
| ORet (i : nat) (r : hres).

(** input of one thread step *)
Inductive sinp :=
| ICall                (* for an idle thread: Head() is called *)
| INone
| IAns (a : gans)      (* for a leader: the getter's answer *)
| ICtx                 (* for a waiter: its context ends *)
| IBif (b : bifres)
| ITail (t : tans).

Inductive cev :=
| CTick (d : N)
| CGossip (h : hdr) (b : bifres) (t : tans)
| CSyncPart (h : hdr)
| CSyncDone
| CStep (i : nat) (x : sinp).


Section withtv.
Variable p : params.
Variable tv : hdr -> hdr -> tvres.

(** incomingNetworkHead (verify + setLocalHead), one atomic action under incomingMu *)
Definition incoming (s : sstate) (h : hdr) (b : bifres) : sstate * bool :=
  match local_head s with
  | None => (s, false)
  | Some sbj =>
    match Verify (s_now s) (p_drift p) tv sbj h with
    | None => (set_local_head s h, true)
    | Some e =>
      if ve_soft e then
        let s' := fold_left set_local_head (fst b) s in
        if snd b then (set_local_head s' h, true) else (s', false)
      else (s, false)
    end
  end.

Definition tail_apply (s : sstate) (t : option hdr) : sstate :=
  match t with
  | Some th => SState (store_append (s_store s) th) (s_pend s) (s_now s)
  | None => s
  end.

Definition tick (s : sstate) (d : Z) : sstate := SState (s_store s) (s_pend s) (s_now s + d).

Definition decide (s : sstate) : decision :=
  match local_head s with
  | None => DRequest KInit
  | Some sbj =>
    if is_expired p (s_now s) sbj then DRequest KInit
    else if is_recent p (s_now s) sbj then DReturn sbj
    else DRequest (KStale sbj)
  end.

Definition trusted_of (k : kind) : option hdr :=
  match k with KInit => None | KStale sbj => Some sbj end.

(** the part of subjectiveHead / networkHead after syncHead.Head returned [a] *)
Definition after_answer (s : sstate) (k : kind) (a : gans) (b : bifres) : sstate * nres :=
  match k with
  | KInit =>
    match a with
    | GOk nh =>
      if h_nil nh then (s, NErr RPanic)
      else if is_expired p (s_now s) nh then (s, NErr RExpired)
      else (s, NUpdated nh)
    | GSoft _ | GFail => (s, NErr RGetter)
    | GHang => (s, NErr RCtx)
    end
  | KStale sbj =>
    let continue (s1 : sstate) (nh : hdr) :=
      if h_nil nh then (s1, NErr RPanic)
      else if h_height nh <=? h_height sbj then (s1, NKeep sbj)
      else (set_local_head s1 nh, NUpdated nh) in
    match a with
    | GOk nh => continue s nh
    | GSoft nh =>
      (* verify() logs newHead.Height() on rejection: a zero header panics there *)
      if h_nil nh then (s, NErr RPanic) else
      let '(s1, ok) := incoming s nh b in
      if ok then continue s1 nh else (s1, NKeep sbj)
    | GFail | GHang => (s, NKeep sbj)
    end
  end.

(** the rest of Head() after networkHead reported (net, true) *)
Definition finish (s : sstate) (net : hdr) (t : tans) (b : bifres) : sstate * hres :=
  match t with
  | TFail => (s, RTail)
  | TOk th =>
    let s2 := tail_apply s th in
    let '(s3, _) := incoming s2 net b in
    (s3, match local_head s3 with Some l => ROk l | None => REmpty end)
  end.

(** how long a hanging request blocks the caller *)
Definition hang_time (k : kind) (cto : Z) : Z :=
  match k with KInit => cto | KStale _ => Z.min cto (p_nhto p) end.

(** Syncer.Head, sequentially *)
Definition head_seq (s : sstate) (i : hin) : hout :=
  match decide s with
  | DReturn h => HOut s (ROk h) []
  | DRequest k =>
    let s0 := match i_ans i with GHang => tick s (hang_time k (i_cto i)) | _ => s end in
    let '(s1, n) := after_answer s0 k (i_ans i) (i_b1 i) in
    match n with
    | NErr r => HOut s1 r [trusted_of k]
    | NKeep h => HOut s1 (ROk h) [trusted_of k]
    | NUpdated net =>
      let '(s2, r) := finish s1 net (i_tail i) (i_b2 i) in
      HOut s2 r [trusted_of k]
    end
  end.

(** the sync loop, seen from the heads: it only runs while the store is below the
    pending head; it may store some header on the way and finally the target *)
Definition sync_part (s : sstate) (h : hdr) : sstate :=
  match s_pend s with
  | Some pd =>
    if (hgt (s_store s) <? h_height h) && (h_height h <? h_height pd)
    then SState (Some h) (s_pend s) (s_now s) else s
  | None => s
  end.

(** one complete run of sync(): the store is below the pending head - it syncs up
    to it and the range is removed; otherwise (since /repo 77026ec) everything at or
    below the store head is dropped from pending (ranges.RemoveUpTo): a pending head
    the store already has does not stay behind as the subjective head *)
Definition sync_done (s : sstate) : sstate :=
  match s_pend s with
  | Some pd =>
    if hgt (s_store s) <? h_height pd then SState (Some pd) None (s_now s)
    else SState (s_store s) None (s_now s)
  | None => s
  end.

(** a gossip head: the verifier installed by Start (incomingNetworkHead, then
    subjectiveTail whose error is only logged) *)
Definition gossip (s : sstate) (h : hdr) (b : bifres) (t : tans) : sstate * bool :=
  let '(s1, ok) := incoming s h b in
  if ok then (match t with TOk th => tail_apply s1 th | TFail => s1 end, true) else (s1, false).

Definition sstep (s : sstate) (e : sev) : sstate * list hres :=
  match e with
  | SvTick d => (tick s (Z.of_N d), [])
  | SvGossip h b t => (fst (gossip s h b t), [])
  | SvSyncPart h => (sync_part s h, [])
  | SvSyncDone => (sync_done s, [])
  | SvHead i => let o := head_seq s i in (o_st o, [o_res o])
  end.

Fixpoint srun (s : sstate) (l : list sev) : sstate * list hres :=
  match l with
  | [] => (s, [])
  | e :: r =>
    let '(s1, o1) := sstep s e in
    let '(s2, o2) := srun s1 r in (s2, o1 ++ o2)
  end.

(** ** Part 2: threads, single-flight, schedules *)

Definition upd (f : nat -> pc) (i : nat) (v : pc) : nat -> pc :=
  fun j => if Nat.eqb j i then v else f j.

Definition set_pc (c : cstate) (i : nat) (v : pc) : cstate := CState (c_s c) (c_f c) (upd (c_pc c) i v).
Definition set_s (c : cstate) (s : sstate) : cstate := CState s (c_f c) (c_pc c).

Definition nres_pc (n : nres) : pc * list hres :=
  match n with
  | NErr r => (PIdle, [r])
  | NKeep h => (PIdle, [ROk h])
  | NUpdated net => (PUpd net, [])
  end.

Definition rets (i : nat) (l : list hres) : list obs := map (ORet i) l.

Definition tstep (c : cstate) (i : nat) (x : sinp) : cstate * list obs :=
  match c_pc c i, x with
  | PIdle, ICall =>
    match decide (c_s c) with
    | DReturn h => (c, [OStart i; ORet i (ROk h)])
    | DRequest k => (set_pc c i (PWant k), [OStart i])
    end
  | PWant k, INone =>
    match f_open (c_f c) with
    | None =>
      let g := f_next (c_f c) in
      (CState (c_s c) (Flight (Some g) (S g) (f_last (c_f c))) (upd (c_pc c) i (PLead k)),
       [OGet i (trusted_of k)])
    | Some g => (set_pc c i (PWait k g), [OJoin i])
    end
  | PLead k, IAns a =>
    (CState (c_s c) (Flight None (f_next (c_f c)) (Some a)) (upd (c_pc c) i (PGot k a)), [OAns i a])
  | PWait k g, INone =>
    (* doneCh of flight g is closed: read resHead/resErr as they are NOW *)
    if match f_open (c_f c) with Some g' => Nat.eqb g g' | None => false end then (c, [])
    else match f_last (c_f c) with
         | Some a => (set_pc c i (PGot k a), [OGot i a])
         | None => (c, [])
         end
  | PWait k g, ICtx => (set_pc c i (PGot k GHang), [OGiveUp i])
  | PGot k a, IBif b =>
    let '(s1, n) := after_answer (c_s c) k a b in
    let '(v, r) := nres_pc n in
    (CState s1 (c_f c) (upd (c_pc c) i v), rets i r)
  | PUpd net, ITail t =>
    match t with
    | TFail => (set_pc c i PIdle, [ORet i RTail])
    | TOk th => (CState (tail_apply (c_s c) th) (c_f c) (upd (c_pc c) i (PInc net)), [])
    end
  | PInc net, IBif b =>
    (CState (fst (incoming (c_s c) net b)) (c_f c) (upd (c_pc c) i PFin), [])
  | PFin, INone =>
    (set_pc c i PIdle, [ORet i (match local_head (c_s c) with Some l => ROk l | None => REmpty end)])
  | _, _ => (c, [])
  end.

Definition cstep (c : cstate) (e : cev) : cstate * list obs :=
  match e with
  | CTick d => (set_s c (tick (c_s c) (Z.of_N d)), [])
  | CGossip h b t => (set_s c (fst (gossip (c_s c) h b t)), [])
  | CSyncPart h => (set_s c (sync_part (c_s c) h), [])
  | CSyncDone => (set_s c (sync_done (c_s c)), [])
  | CStep i x => tstep c i x
  end.

Fixpoint crun (c : cstate) (l : list cev) : cstate * list obs :=
  match l with
  | [] => (c, [])
  | e :: r =>
    let '(c1, o1) := cstep c e in
    let '(c2, o2) := crun c1 r in (c2, o1 ++ o2)
  end.

Definition cinit (s : sstate) : cstate := CState s (Flight None 0 None) (fun _ => PIdle).

(** ** Part 3: setLocalHead is NOT atomic in the code.
    It first appends to the store and compares the store head with the new head
    ([slh_check]), and only then, without any lock spanning both, calls
    pending.Add ([slh_add]).  Between the two the sync loop and other calls run.
    This layer adds exactly that split on top of the thread machine, for the two
    call sites that matter: the gossip verifier (which holds incomingMu while it
    is parked between the two halves) and networkHead's own setLocalHead of a
    higher answer (no lock).  Events [PEv] are the actions of Part 2; a schedule
    made of [PEv] only is the machine of Part 2 (Proofs: prun_atomic). *)
Definition slh_check (s : sstate) (h : hdr) : sstate * bool :=
  let st := store_append (s_store s) h in
  (SState st (s_pend s) (s_now s),
   match st with Some sh => negb (h_height h <=? h_height sh) | None => true end).

Definition slh_add (s : sstate) (h : hdr) : sstate :=
  SState (s_store s) (pend_add (s_pend s) h) (s_now s).

Record pstate := PState {
  p_c : cstate;
  p_g : option hdr;           (* gossip call parked before pending.Add (it holds incomingMu) *)
  p_t : list (nat * hdr) }.   (* Head() calls parked before pending.Add *)

Inductive pev :=
| PEv (e : cev)
| PGossipA (h : hdr)      (* verifier: verify (direct accept), store.Append, compare; park if an add is due *)
| PGossipB (t : tans)     (* the parked verifier call resumes: pending.Add, subjectiveTail *)
| PHeadA (i : nat)        (* caller i, higher GOk answer: store.Append, compare; park if an add is due *)
| PHeadB (i : nat).       (* caller i resumes: pending.Add *)

Definition parked_t (l : list (nat * hdr)) (i : nat) : bool := existsb (fun x => Nat.eqb (fst x) i) l.

(** does the action need incomingMu? *)
Definition uses_mu (c : cstate) (e : cev) : bool :=
  match e with
  | CGossip _ _ _ => true
  | CStep i (IBif _) =>
    match c_pc c i with PInc _ => true | PGot _ (GSoft _) => true | _ => false end
  | _ => false
  end.

Definition blocked (ps : pstate) (e : cev) : bool :=
  (match e with CStep i _ => parked_t (p_t ps) i | _ => false end) ||
  (match p_g ps with Some _ => uses_mu (p_c ps) e | None => false end).

Definition pstep (ps : pstate) (ev : pev) : pstate * list obs :=
  let c := p_c ps in
  match ev with
  | PEv e =>
    if blocked ps e then (ps, [])
    else let '(c', o) := cstep c e in (PState c' (p_g ps) (p_t ps), o)
  | PGossipA h =>
    match p_g ps, local_head (c_s c) with
    | None, Some sbj =>
      match Verify (s_now (c_s c)) (p_drift p) tv sbj h with
      | None =>
        let '(s1, need) := slh_check (c_s c) h in
        (PState (set_s c s1) (if need then Some h else None) (p_t ps), [])
      | Some _ => (ps, [])     (* rejected or soft: use the atomic CGossip *)
      end
    | _, _ => (ps, [])
    end
  | PGossipB t =>
    match p_g ps with
    | Some h =>
      let s1 := slh_add (c_s c) h in
      let s2 := match t with TOk th => tail_apply s1 th | TFail => s1 end in
      (PState (set_s c s2) None (p_t ps), [])
    | None => (ps, [])
    end
  | PHeadA i =>
    match c_pc c i with
    | PGot (KStale sbj) (GOk nh) =>
      if parked_t (p_t ps) i || h_nil nh || (h_height nh <=? h_height sbj) then (ps, [])
      else
        let '(s1, need) := slh_check (c_s c) nh in
        (PState (CState s1 (c_f c) (upd (c_pc c) i (PUpd nh))) (p_g ps)
                (if need then (i, nh) :: p_t ps else p_t ps), [])
    | _ => (ps, [])
    end
  | PHeadB i =>
    match find (fun x => Nat.eqb (fst x) i) (p_t ps) with
    | Some (_, nh) =>
      (PState (set_s c (slh_add (c_s c) nh)) (p_g ps)
              (filter (fun x => negb (Nat.eqb (fst x) i)) (p_t ps)), [])
    | None => (ps, [])
    end
  end.

Fixpoint prun (ps : pstate) (l : list pev) : pstate * list obs :=
  match l with
  | [] => (ps, [])
  | e :: r =>
    let '(p1, o1) := pstep ps e in
    let '(p2, o2) := prun p1 r in (p2, o1 ++ o2)
  end.

Definition pinit (s : sstate) : pstate := PState (cinit s) None [].

End withtv.

(** the schedule of n concurrent callers: all decide and enter the single flight
    (thread 0 first), time passes, the getter answers, every caller finishes in turn *)
Definition conc_sched (n : nat) (i : hin) (w : bool) (d : N) : list cev :=
  let ts := seq 0 n in
  map (fun j => CStep j ICall) ts ++ map (fun j => CStep j INone) ts ++
  [CTick d] ++
  (if w then map (fun j => CStep j ICtx) (seq 1 (n - 1)) else []) ++
  [CStep 0%nat (IAns (i_ans i))] ++
  (if w then [] else map (fun j => CStep j INone) (seq 1 (n - 1))) ++
  concat (map (fun j => [CStep j (IBif (i_b1 i)); CStep j (ITail (i_tail i)); CStep j (IBif (i_b2 i)); CStep j INone]) ts).

