(** Failing datastore writes inside Store.DeleteRange (store_delete.go, store.go).

    Every write ATTEMPT of a DeleteRange call (a direct Put/Delete or the Commit of a batch) has an
    index, counted from 0 at the moment the call starts; [wf] lists the indices of the attempts
    that fail (transient datastore write failures).  A failing attempt leaves the datastore (and
    the write log) as it was and makes the code return where it returns:

    * Sync's flush commit: the flush loop retries until the commit succeeds (every retry is one
      more attempt); no error reaches the caller;
    * the head side's pre-persist batch [tail key; new head key]: DeleteRange fails, nothing changed;
    * deleteSingle's delete entry [hash key; height key] (deleteKeys, one atomic write):
      - plain datastore ([ctxf = false]): one attempt per header; on failure deleteSingle returns
        before the caches / the pending batch are touched, deleteSequential stops at that height;
      - context-aware datastore ([ctxf = true]): the deletes are buffered in the write batch of the
        pass and cannot fail; the ONE commit at the end of deleteSequential (also after a handler
        failure) can: then no delete of the pass reaches the datastore, while the in-memory
        eviction (pending batch) has happened and the reported progress is what the loop reached;
    * setTail: tailHeader.Store, THEN Put(tail key); if the deletion went over the head Put(head key),
      THEN contiguousHead.Store + advanceHead; finally Put(head key).  Each failing Put returns at once;
    * setHead: contiguousHead.Store + heightSub.Init, THEN Put(head key), then Put(tail key);
    * wipe: deinit, then Delete(head key) and Delete(tail key), both attempted, errors joined;
    * the head side's "nothing was deleted" restore of the head key.

    With no failing attempt ([wf = []]) and the plain flavour these functions ARE the ones of
    Model/Store.v (Proofs/StoreFaultP.v: [delete_range_f_nofail]); with the context-aware flavour
    they differ from them only in the write log (one entry for the whole pass). *)
From Coq Require Import NArith List Bool.
From stdpp Require Import gmap.
From GH Require Import Base.Prelude Model.Store.
Import ListNotations.
Open Scope N_scope.

Definition wfails (wf : list nat) (a : nat) : bool := existsb (Nat.eqb a) wf.

(** one write attempt: the state, the next attempt index, success *)
Definition wtry (wf : list nat) (s : st) (a : nat) (w : wop) : st * nat * bool :=
  if wfails wf a then (s, S a, false) else (write s w, S a, true).

(** the flush loop retries a failing commit: the index of the first attempt that succeeds *)
Fixpoint skip_failing (wf : list nat) (fuel : nat) (a : nat) : nat :=
  match fuel with
  | O => a
  | S f => if wfails wf a then skip_failing wf f (S a) else a
  end.

(** Store.Sync at quiescence, with failing flush commits *)
Definition sync_f (wf : list nat) (s : st) (a : nat) : st * nat :=
  let s3 := recede_tail (advance_head (pend_add (ensure_init s []) [])) in
  if (size (pend_h s3) =? 0)%nat then (s3, a)
  else let a' := skip_failing wf (length wf) a in
       (set_pend (write s3 (commit_ops s3)) ∅ ∅, S a').

Section flavour.
Variables (ctxf : bool) (wf : list nat).

(** deleteSingle; [wb] is the write batch of the pass (context-aware flavour) *)
Definition delete_single_f (s : st) (a : nat) (wb : wop) (script : nat -> N -> hres) (nh : nat) (n : N)
  (log : list hcall) : st * nat * wop * list hcall * bool :=
  let oid := match d_idx s !! n with
             | Some id => Some id
             | None => match pend_h s !! n with Some h => Some (h_id h) | None => None end
             end in
  match oid with
  | None => (s, a, wb, log, true)
  | Some id =>
    let '(log', ok) := run_handlers s script 0 nh n log in
    if ok then
      if ctxf then (pend_del s n, a, wb ++ [WDelH id; WDelI n], log', true)
      else let '(s1, a1, wok) := wtry wf s a [WDelH id; WDelI n] in
           if wok then (pend_del s1 n, a1, wb, log', true) else (s1, a1, wb, log', false)
    else (s, a, wb, log', false)
  end.

Fixpoint delete_seq_f (s : st) (a : nat) (wb : wop) (script : nat -> N -> hres) (nh : nat) (n : N) (cnt : nat)
  (log : list hcall) : st * nat * wop * list hcall * N * bool :=
  match cnt with
  | O => (s, a, wb, log, n, true)
  | S c =>
    let '(s', a', wb', log', ok) := delete_single_f s a wb script nh n log in
    if ok then delete_seq_f s' a' wb' script nh (n + 1) c log' else (s', a', wb', log', n, false)
  end.

(** deleteSequential: the loop, then the commit of the write batch (nothing to commit on a plain datastore) *)
Definition delete_raw_f (s : st) (a : nat) (script : nat -> N -> hres) (nh : nat) (from : N) (cnt : nat)
  : st * nat * list hcall * N * bool :=
  let '(s1, a1, wb, log, actual, ok) := delete_seq_f s a [] script nh from cnt [] in
  match wb with
  | [] => (s1, a1, log, actual, ok)
  | _ => let '(s2, a2, cok) := wtry wf s1 a1 wb in (s2, a2, log, actual, ok && cok)
  end.

Definition put_head_ptr_f (s : st) (a : nat) : st * nat * bool :=
  match headp s with Some hd => wtry wf s a [WPutHead (h_id hd)] | None => (s, a, true) end.

Definition set_tail_f (s : st) (a : nat) (n : N) : st * nat * bool :=
  match nb s n with
  | Found h =>
    let '(s1, a1, ok1) := wtry wf (set_tailp s (Some h)) a [WPutTail (h_id h)] in
    if ok1 then
      let over := match headp s1 with None => true | Some hd => h_height hd <? n end in
      if over then
        let '(s2, a2, ok2) := wtry wf s1 a1 [WPutHead (h_id h)] in
        if ok2 then put_head_ptr_f (advance_head (set_headp s2 (Some h))) a2 else (s2, a2, false)
      else put_head_ptr_f s1 a1
    else (s1, a1, false)
  | _ => (s, a, false)
  end.

Definition set_head_f (s : st) (a : nat) (n : N) : st * nat * bool :=
  match nb s n with
  | Found h =>
    let '(s1, a1, ok1) := wtry wf (set_hsh (set_headp s (Some h)) (h_height h)) a [WPutHead (h_id h)] in
    if ok1 then
      match tailp s1 with Some tl => wtry wf s1 a1 [WPutTail (h_id tl)] | None => (s1, a1, true) end
    else (s1, a1, false)
  | _ => (s, a, false)
  end.

Definition wipe_f (s : st) (a : nat) : st * nat * bool :=
  let '(s1, a1, ok1) := wtry wf (deinit s) a [WDelHead] in
  let '(s2, a2, ok2) := wtry wf s1 a1 [WDelTail] in
  (s2, a2, ok1 && ok2).

Definition okf (b : bool) : outcome := if b then Ok else Fail.

Definition delete_range_synced_f (s : st) (a : nat) (script : nat -> N -> hres) (nh : nat) (from to : N)
  : st * list hcall * outcome :=
  match headp s, tailp s with
  | Some hd, Some tl =>
    let H := h_height hd in let T := h_height tl in
    if to <=? from then (s, [], Fail) else
    if (H <? from) || (to <=? T) then (s, [], Fail) else
    let uT := from =? T in
    let uH := to =? wrap64 (H + 1) in
    let cnt := N.to_nat (to - from) in
    if uT && uH && (match nb s to with NotFound => true | _ => false end) then
      let '(s1, a1, log, actual, ok) := delete_raw_f s a script nh from cnt in
      if ok then let '(s2, _, wok) := wipe_f s1 a1 in (s2, log, okf wok)
      else (fst (fst (set_tail_f s1 a1 actual)), log, Fail)
    else if uT && (wrap64 (H + 1) <? to) then (s, [], Fail)
    else if negb uT && uH && (from <? T) then (s, [], Fail)
    else if negb uT && negb uH then (s, [], Fail)
    else if uT then
      let '(s1, a1, log, actual, ok) := delete_raw_f s a script nh from cnt in
      let '(s2, _, tok) := set_tail_f s1 a1 actual in
      (s2, log, okf (tok && ok))
    else
      match nb s (from - 1) with
      | Found nh' =>
        let '(s0, a0, pok) := wtry wf s a [WPutTail (h_id tl); WPutHead (h_id nh')] in
        if pok then
          let '(s1, a1, log, actual, ok) := delete_raw_f s0 a0 script nh from cnt in
          if from <? actual then
            let '(s2, _, hok) := set_head_f s1 a1 (from - 1) in
            (s2, log, okf (hok && ok))
          else let '(s2, _, rok) := wtry wf s1 a1 [WPutHead (h_id hd)] in (s2, log, okf (rok && ok))
        else (s0, [], Fail)
      | _ => (s, [], Fail)
      end
  | _, _ => (s, [], Fail)
  end.

Definition delete_range_f (s : st) (script : nat -> N -> hres) (nh : nat) (from to : N)
  : st * list hcall * outcome :=
  let '(s0, a0) := sync_f wf s 0 in
  delete_range_synced_f s0 a0 script nh from to.

End flavour.
