(** Model of the Syncer's storing side: sync/syncer.go (syncLoop, sync, doSync,
    processHeaders, requestHeaders, State, SyncWait, wantSync),
    sync/syncer_head.go (incomingNetworkHead, verify, setLocalHead, localHead,
    the setLocalHead call of networkHead), sync/sync_store.go (syncStore.Head /
    Append, the adjacency shim) over Model/Ranges.v and Model/Verify.v.

    It is a small-step machine.  One configuration holds the shared objects
    (the header.Store behind the shim, the shim's cached head pointer, the
    pending ranges, the sync State, the 1-buffered trigger channel, incomingMu)
    and the program counters of the sync-loop goroutine [L] and of any number of
    head-learner calls (gossip verifier calls [TWait..], Head() calls [THd..]).
    One step = one access to one individually synchronised object, as in the
    code: one atomic-pointer load or store of syncStore.head, one
    mutex-protected ranges / headerRange operation, one Store.Append, one
    channel send/receive, one getter call.  Purely local computation
    (header.Verify, the shim's adjacency loop, comparisons) and the
    stateLk-protected State updates (which no modelled action reads) are merged
    into the neighbouring step.

    Inputs (never axioms): the gossip headers and the clock at delivery, the
    answers of the getter (range requests: [ganswer], Head requests: [option
    hdr]), the verdict of bifurcation for soft verification failures
    ([bifres]: the intermediate heads it promoted through setLocalHead, and
    its result; the bifurcation loop itself is C15's model), and the schedule.

    Not modelled here (other models): tail selection/pruning (subjectiveTail;
    drivers configure the Syncer so that it never moves the tail), Head()'s
    recency/expiry decisions and single-flight (C19), the empty-store
    initialisation path of syncStore.Append, failures of Store.Append itself. *)
From Coq Require Import List.
From RecordUpdate Require Import RecordSet.
From GH Require Import Base.Prelude Model.Verify Model.Ranges.
Import RecordSetNotations.

(** ** the header.Store behind the shim, as the Syncer sees it
    (contiguous Head advancing over stored heights; appends of anything are
    accepted; a later append at a height replaces the height index entry) *)
Record rstore := RStore { rs_tail : N; rs_head : N; rs_log : list hdr (* newest first *) }.
#[export] Instance eta_rstore : Settable _ := settable! RStore <rs_tail; rs_head; rs_log>.

Definition rs_has (n : N) (log : list hdr) : bool := existsb (fun h => h_height h =? n) log.

Fixpoint rs_adv (log : list hdr) (n : N) (fuel : nat) : N :=
  match fuel with
  | O => n
  | S f => if rs_has (n + 1) log then rs_adv log (n + 1) f else n
  end.

Definition rs_append (hs : list hdr) (s : rstore) : rstore :=
  let log := rev hs ++ rs_log s in
  RStore (rs_tail s) (rs_adv log (rs_head s) (length log)) log.

Definition rs_get (n : N) (s : rstore) : option hdr :=
  find (fun h => h_height h =? n) (rs_log s).

(** ** syncStore.Append's shim: the decision taken after loading the cached head *)
Inductive shim_res :=
| ShimEmpty                 (* len(headers) == 0: return nil *)
| ShimSkip                  (* every header is below the head: no check, cache untouched, straight to Store.Append *)
| ShimOk (nh : hdr)         (* past the leading headers below the head, every header is the rolling head again or adjacent to it: cache := nh, then Store.Append *)
| ShimNonAdj.               (* errNonAdjacent, nothing written *)

(** the loop over the headers with the rolling [head]: a header that IS the
    current head (same height, same hash) is skipped; any other must be head+1 *)
Fixpoint shim_walk (cur : hdr) (hs : list hdr) : option hdr :=
  match hs with
  | [] => Some cur
  | h :: r =>
    if (h_height h =? h_height cur) && (h_id h =? h_id cur) then shim_walk cur r
    else if h_height h =? wrap64 (h_height cur + 1) then shim_walk h r else None
  end.

(** since /repo 7d16f07: only the leading headers BELOW the head are left
    unchecked; the walk applies to the rest of the list *)
Fixpoint drop_below (c : hdr) (hs : list hdr) : list hdr :=
  match hs with
  | [] => []
  | h :: r => if h_height h <? h_height c then drop_below c r else hs
  end.

Definition shim_check (c : hdr) (hs : list hdr) : shim_res :=
  match hs with
  | [] => ShimEmpty
  | _ :: _ =>
    match drop_below c hs with
    | [] => ShimSkip
    | rest => match shim_walk c rest with Some nh => ShimOk nh | None => ShimNonAdj end
    end
  end.

(** ** sync State *)
Inductive serr := SEGetter | SEEmpty | SEFirst | SENonAdj | SEStore.   (* SEStore: the underlying Store.Append failed *)
Record sstate := SState { ss_id : N; ss_from : N; ss_to : N; ss_err : option serr }.

(** answer of getter.GetRangeByHeight *)
Inductive ganswer := GErr | GList (l : list hdr).

Definition max_req : N := 64.
(** requestHeaders: size := min(MaxRangeRequestSize, to - from); reqTo := from + size + 1 *)
Definition req_size (from to : N) : N := N.min max_req (sub64 to from).
Definition req_to (from to : N) : N := wrap64 (wrap64 (from + req_size from to) + 1).

(** ** program counters *)
(** what follows a requestHeaders call *)
Inductive rk :=
| KGap (cached : list hdr) (oto : N)   (* called for the gap before a cached run: then Append cached, Remove(oto) *)
| KFin.                                (* the final call of processHeaders *)
(** what follows a syncStore.Append in the sync loop *)
Inductive ak :=
| AKReq (k : rk) (to : N)              (* a received chunk inside requestHeaders(…, to) *)
| AKCached (oto : N).                  (* the cached run of processHeaders(…, oto) *)

Inductive lpc :=
| LIdle                                       (* select on triggerSync *)
| LSync                                       (* sync(): localHead: about to read pending.Head() *)
| LSync1 (ph : option hdr)                    (* localHead: about to load the store head (shim cache) *)
| LSync2 (subj : hdr)                         (* sync(): subjective head known; about to load the store head again *)
| LFirst (from : hdr) (to : N)                (* processHeaders: about to call pending.First() *)
| LGet (from : hdr) (to : N)                  (* about to call Get(to) on the range First returned *)
| LReq (k : rk) (from : hdr) (to : N)         (* requestHeaders loop head: getter call, or exit *)
| LApp0 (k : ak) (hs : list hdr)              (* syncStore.Append: load cache, shim check *)
| LApp1 (k : ak) (hs : list hdr) (nh : hdr)   (* about to store cache := nh *)
| LApp2 (k : ak) (hs : list hdr)              (* about to call Store.Append *)
| LRem (oto : N) (last : hdr)                 (* about to Remove(oto) on the range *)
| LPanic.                                     (* slice bounds out of range in Get / Remove *)

(** stages of setLocalHead(x) *)
Inductive slst :=
| SL0   (* syncStore.Append(x): load cache, shim check *)
| SL1 (nh : hdr)  (* cache := nh (x, or the old head when x was the head itself) *)
| SL2   (* Store.Append(x) *)
| SL3   (* store.Head(): load cache, compare with x *)
| SL4   (* pending.Add(x) *)
| SL5.  (* wantSync *)

(** verdict of bifurcation (used only when direct verification fails softly) *)
Inductive bifres := Bif (promoted : list hdr) (ok : bool).

Inductive tpc :=
| TWait (h : hdr) (now : Z) (b : bifres)      (* gossip verifier call: waiting for incomingMu, then pending.Head() *)
| TVer (h : hdr) (now : Z) (b : bifres) (ph : option hdr)
                                              (* incomingMu held, pending.Head() = ph read: about to load the store head for localHead *)
| THd0 (a : option hdr)                       (* Head() needing a network head: about to read pending.Head() *)
| THd0c (a : option hdr) (ph : option hdr)    (* pending.Head() = ph read: about to load the store head *)
| THd1 (sbj : hdr) (a : option hdr)           (* getter.Head(WithTrustedHead(sbj)) in flight; a = its answer *)
| TRun (mu res : bool) (x : hdr) (st : slst) (rest : list hdr)
                                              (* in setLocalHead(x) at stage st; then the same for rest; mu = holds incomingMu; res = final verdict *)
| TDone (res : bool).                         (* returned: res = nil error / head adopted *)

Record cfg := Cfg {
  c_store : rstore;
  c_cache : hdr;               (* syncStore.head (loaded from the store at Start) *)
  c_pend : ranges;
  c_state : sstate;
  c_trig : bool;               (* triggerSync holds a token *)
  c_mu : bool;                 (* incomingMu is held *)
  c_loop : lpc;
  c_thr : list tpc;
  c_reqs : list (N * N)        (* ghost: range requests issued (from height, to), newest first *)
}.
#[export] Instance eta_cfg : Settable _ :=
  settable! Cfg <c_store; c_cache; c_pend; c_state; c_trig; c_mu; c_loop; c_thr; c_reqs>.

Definition last_hdr (hs : list hdr) (d : hdr) : hdr := last hs d.

(** localHead: the pending head if it is above the store head, else the store head *)
Definition pick_head (ph : option hdr) (sh : hdr) : hdr :=
  match ph with Some p => if h_height sh <? h_height p then p else sh | None => sh end.
Definition local_head (c : cfg) : hdr := pick_head (ranges_head (c_pend c)) (c_cache c).

(** the range request the sync loop is about to issue, if its next step is one:
    (from height, the [to] of requestHeaders) *)
Definition next_req (c : cfg) : option (N * N) :=
  match c_loop c with
  | LReq _ from to => if h_height from <? to then Some (h_height from, to) else None
  | _ => None
  end.

Section machine.
Variables (drift : Z) (tv : hdr -> hdr -> tvres).

(** *** the sync loop *)
Definition l_finish (e : option serr) (c : cfg) : cfg :=
  let st := c_state c in
  c <| c_state := SState (ss_id st) (ss_from st) (ss_to st) e |> <| c_loop := LIdle |>.

Definition after_req (k : rk) (from : hdr) (c : cfg) : cfg :=
  match k with
  | KGap cached oto => c <| c_loop := LApp0 (AKCached oto) cached |>
  | KFin => l_finish None c
  end.

Definition after_app (k : ak) (hs : list hdr) (c : cfg) : cfg :=
  match k with
  | AKReq k' to => c <| c_loop := LReq k' (last_hdr hs hdr_nil) to |>
  | AKCached oto => c <| c_loop := LRem oto (last_hdr hs hdr_nil) |>
  end.

Definition l_step (a : ganswer) (c : cfg) : cfg :=
  match c_loop c with
  | LIdle => if c_trig c then c <| c_trig := false |> <| c_loop := LSync |> else c
  | LSync => c <| c_loop := LSync1 (ranges_head (c_pend c)) |>
  | LSync1 ph => c <| c_loop := LSync2 (pick_head ph (c_cache c)) |>
  | LSync2 p =>
    let sh := c_cache c in
    if h_height p <=? h_height sh then
      (* already synced: drop the pending heads the store already has *)
      match ranges_remove_upto (h_height sh) (c_pend c) with
      | Some rs => c <| c_pend := rs |> <| c_loop := LIdle |>
      | None => c <| c_loop := LPanic |>
      end
    else
      let st := c_state c in
      c <| c_state := SState (wrap64 (ss_id st + 1)) (wrap64 (h_height sh + 1)) (h_height p) (ss_err st) |>
        <| c_loop := LFirst sh (h_height p) |>
  | LFirst from to =>
    let rs := ranges_first (c_pend c) in
    match rs with
    | [] => c <| c_pend := rs |> <| c_loop := LReq KFin from to |>
    | _ => c <| c_pend := rs |> <| c_loop := LGet from to |>
    end
  | LGet from to =>
    match c_pend c with
    | [] => c <| c_loop := LReq KFin from to |>
    | r :: _ =>
      match range_get to r with
      | None => c <| c_loop := LPanic |>
      | Some [] => c <| c_loop := LReq KFin from to |>
      | Some ((h0 :: _) as hs) =>
        if wrap64 (h_height from + 1) =? h_height h0
        then c <| c_loop := LApp0 (AKCached to) hs |>
        else c <| c_loop := LReq (KGap hs to) from (sub64 (h_height h0) 1) |>
      end
    end
  | LReq k from to =>
    if h_height from <? to then
      let c := c <| c_reqs ::= cons (h_height from, req_to (h_height from) to) |> in
      match a with
      | GErr => l_finish (Some SEGetter) c
      | GList [] => l_finish (Some SEEmpty) c
      | GList ((x :: _) as hs) =>
        if h_height x =? wrap64 (h_height from + 1)
        then c <| c_loop := LApp0 (AKReq k to) hs |>
        else l_finish (Some SEFirst) c
      end
    else after_req k from c
  | LApp0 k hs =>
    match shim_check (c_cache c) hs with
    | ShimEmpty => after_app k hs c
    | ShimSkip => c <| c_loop := LApp2 k hs |>
    | ShimOk nh => c <| c_loop := LApp1 k hs nh |>
    | ShimNonAdj => l_finish (Some SENonAdj) c
    end
  | LApp1 k hs nh => c <| c_cache := nh |> <| c_loop := LApp2 k hs |>
  | LApp2 k hs => after_app k hs (c <| c_store ::= rs_append hs |>)
  | LRem oto lst =>
    match c_pend c with
    | [] => c <| c_loop := LFirst lst oto |>
    | r :: t =>
      match range_remove oto r with
      | None => c <| c_loop := LPanic |>
      | Some r' => c <| c_pend := r' :: t |> <| c_loop := LFirst lst oto |>
      end
    end
  | LPanic => c
  end.

(** *** head learners *)
Fixpoint upd_nth {A} (i : nat) (a : A) (l : list A) : list A :=
  match l, i with
  | [], _ => []
  | _ :: r, O => a :: r
  | x :: r, S j => x :: upd_nth j a r
  end.

Definition set_thr (i : nat) (t : tpc) (c : cfg) : cfg := c <| c_thr ::= upd_nth i t |>.

(** the outcome of verify(): accepted, soft failure (then the bifurcation
    verdict), hard failure *)
Definition verdict (now : Z) (b : bifres) (t h : hdr) : tpc :=
  match Verify now drift tv t h with
  | None => TRun true true h SL0 []
  | Some e =>
    if ve_soft e then
      let '(Bif pr ok) := b in
      match pr ++ (if ok then [h] else []) with
      | [] => TDone false
      | x :: r => TRun true ok x SL0 r
      end
    else TDone false
  end.

(** install the thread state reached after verify(); a refusal returns at once
    and releases incomingMu *)
Definition enter (i : nat) (t : tpc) (c : cfg) : cfg :=
  match t with
  | TDone _ => set_thr i t (c <| c_mu := false |>)
  | _ => set_thr i t c
  end.

(** setLocalHead(x) finished: next header of the work list, or return *)
Definition t_next (i : nat) (mu res : bool) (rest : list hdr) (c : cfg) : cfg :=
  match rest with
  | [] => set_thr i (TDone res) (if mu then c <| c_mu := false |> else c)
  | y :: r => set_thr i (TRun mu res y SL0 r) c
  end.

(** one step of learner call [i] whose program counter is [t] *)
Definition t_body (i : nat) (t : tpc) (c : cfg) : cfg :=
  match t with
  | TWait h now b =>
    if c_mu c then c
    else
      set_thr i (TVer h now b (ranges_head (c_pend c))) (c <| c_mu := true |>)
  | TVer h now b ph => enter i (verdict now b (pick_head ph (c_cache c)) h) c
  | THd0 a => set_thr i (THd0c a (ranges_head (c_pend c))) c
  | THd0c a ph => set_thr i (THd1 (pick_head ph (c_cache c)) a) c
  | THd1 sbj a =>
    match a with
    | None => set_thr i (TDone false) c
    | Some x =>
      if h_height x <=? h_height sbj then set_thr i (TDone false) c
      else set_thr i (TRun false true x SL0 []) c
    end
  | TRun mu res x st rest =>
    match st with
    | SL0 =>
      match shim_check (c_cache c) [x] with
      | ShimOk nh => set_thr i (TRun mu res x (SL1 nh) rest) c
      | ShimSkip => set_thr i (TRun mu res x SL2 rest) c
      | _ => set_thr i (TRun mu res x SL3 rest) c          (* errNonAdjacent is ignored *)
      end
    | SL1 nh => set_thr i (TRun mu res x SL2 rest) (c <| c_cache := nh |>)
    | SL2 => set_thr i (TRun mu res x SL3 rest) (c <| c_store ::= rs_append [x] |>)
    | SL3 =>
      if h_height x <=? h_height (c_cache c)
      then t_next i mu res rest c                             (* already synced: do nothing *)
      else set_thr i (TRun mu res x SL4 rest) c
    | SL4 => set_thr i (TRun mu res x SL5 rest) (c <| c_pend ::= ranges_add x |>)
    | SL5 => t_next i mu res rest (c <| c_trig := true |>)
    end
  | TDone _ => c
  end.

Definition t_step (i : nat) (c : cfg) : cfg :=
  match nth_error (c_thr c) i with
  | None => c
  | Some t => t_body i t c
  end.

(** *** schedules *)
Inductive event :=
| EGossip (h : hdr) (now : Z) (b : bifres)    (* the subscriber calls the verifier with h at time now *)
| EHead (a : option hdr)                      (* somebody calls Head() while the subjective head is not recent; the getter will answer a *)
| EL (a : ganswer)                            (* the sync loop takes its next step (a = the getter's answer if that step is a range request) *)
| ET (i : nat).                               (* learner call number i takes its next step *)

Definition step (c : cfg) (e : event) : cfg :=
  match e with
  | EGossip h now b => c <| c_thr ::= fun l => l ++ [TWait h now b] |>
  | EHead a => c <| c_thr ::= fun l => l ++ [THd0 a] |>
  | EL a => l_step a c
  | ET i => t_step i c
  end.

Definition run (c : cfg) (es : list event) : cfg := fold_left step es c.

(** *** running a goroutine until it blocks (what the drivers observe at
    quiescence).  [gate] = the driver holds Store.Append calls on a gate. *)
Definition l_blocked (gate : bool) (c : cfg) : bool :=
  match c_loop c with
  | LIdle => negb (c_trig c)
  | LReq _ from to => h_height from <? to
  | LApp2 _ _ => gate
  | LPanic => true
  | _ => false
  end.

Fixpoint l_run (fuel : nat) (gate : bool) (c : cfg) : cfg :=
  match fuel with
  | O => c
  | S f => if l_blocked gate c then c else l_run f gate (l_step GErr c)
  end.

Definition t_blocked (gate : bool) (i : nat) (c : cfg) : bool :=
  match nth_error (c_thr c) i with
  | None => true
  | Some (TWait _ _ _) => c_mu c
  | Some (TRun _ _ _ SL2 _) => gate
  | Some (TDone _) => true
  | Some _ => false
  end.

Fixpoint t_run (fuel : nat) (gate : bool) (i : nat) (c : cfg) : cfg :=
  match fuel with
  | O => c
  | S f => if t_blocked gate i c then c else t_run f gate i (t_step i c)
  end.

(** *** the machine as of /repo 40dc6a8: syncStore.Append is ONE step

    Since 40dc6a8 syncStore.Append holds a mutex from loading its head to the
    return of Store.Append: with respect to other Appends (the sync loop's and
    every learner call's) it is atomic.  (Inside, since f604e5b: check, write,
    then head := - the order does not show while the lock is held, except when
    the write fails: [l_fail] / [t_fail] below.)  [astep] is [step] with the three
    program counters of an Append (check / head := / Store.Append) taken in one
    go.  Every run of [astep] is a run of [step] ([arun_run], Proofs/SyncerLiveP.v):
    what is proved for every schedule of the finer machine holds for this one. *)
Definition shim_apply (hs : list hdr) (c : cfg) : option cfg :=      (* None = errNonAdjacent, nothing written *)
  match shim_check (c_cache c) hs with
  | ShimEmpty => Some c
  | ShimSkip => Some (c <| c_store ::= rs_append hs |>)
  | ShimOk nh => Some (c <| c_cache := nh |> <| c_store ::= rs_append hs |>)
  | ShimNonAdj => None
  end.

Definition l_astep (a : ganswer) (c : cfg) : cfg :=
  match c_loop c with
  | LApp0 k hs =>
    match shim_apply hs c with
    | Some c' => after_app k hs c'
    | None => l_finish (Some SENonAdj) c
    end
  | _ => l_step a c
  end.

Definition t_astep (i : nat) (c : cfg) : cfg :=
  match nth_error (c_thr c) i with
  | Some (TRun mu res x SL0 rest) =>
    match shim_apply [x] c with
    | Some c' => set_thr i (TRun mu res x SL3 rest) c'
    | None => set_thr i (TRun mu res x SL3 rest) c              (* errNonAdjacent is ignored *)
    end
  | _ => t_step i c
  end.

Definition astep (c : cfg) (e : event) : cfg :=
  match e with
  | EL a => l_astep a c
  | ET i => t_astep i c
  | _ => step c e
  end.

Definition arun (c : cfg) (es : list event) : cfg := fold_left astep es c.

(** *** a Store.Append that fails

    Since /repo f604e5b syncStore.Append checks the list, calls the underlying
    Store.Append and moves its head only when that succeeded: a failed write
    (store.Append fails when its write queue is full and the caller's context
    ends, or the store stops) changes nothing.  The sync loop's attempt ends
    with the error; setLocalHead logs it and goes on to its already-synced
    check (the header, not stored, then goes to pending and is synced later). *)
Definition l_fail (c : cfg) : cfg :=
  match c_loop c with LApp0 _ _ => l_finish (Some SEStore) c | _ => c end.

Definition t_fail (i : nat) (c : cfg) : cfg :=
  match nth_error (c_thr c) i with
  | Some (TRun mu res x SL0 rest) => set_thr i (TRun mu res x SL3 rest) c
  | _ => c
  end.

Inductive xevent :=
| XE (e : event)      (* a step of [astep] *)
| XLF                 (* the sync loop's Append: the store write fails *)
| XTF (i : nat).      (* learner call i's Append: the store write fails *)

Definition xstep (c : cfg) (x : xevent) : cfg :=
  match x with XE e => astep c e | XLF => l_fail c | XTF i => t_fail i c end.

Definition xrun (c : cfg) (xs : list xevent) : cfg := fold_left xstep xs c.

Fixpoint l_arun (fuel : nat) (c : cfg) : cfg :=
  match fuel with
  | O => c
  | S f => if l_blocked false c then c else l_arun f (l_astep GErr c)
  end.

(** *** histories with atomic learner calls (the sequential view used by
    C07): a gossip delivery / Head() call runs to completion before anything
    else moves; the sync loop moves one small step at a time, so heads arrive
    between any two of its steps. *)
Inductive hev :=
| HGossip (x : hdr) (now : Z) (b : bifres)
| HHead (a : option hdr)
| HStep (a : ganswer).

Definition nsteps (b : bifres) : nat := let '(Bif pr _) := b in 8 + 6 * length pr.

Definition compile1 (i : nat) (e : hev) : list event :=
  match e with
  | HGossip x now b => EGossip x now b :: repeat (ET i) (nsteps b)
  | HHead a => EHead a :: repeat (ET i) 9
  | HStep a => [EL a]
  end.

Definition next_idx (i : nat) (e : hev) : nat :=
  match e with HStep _ => i | _ => S i end.

Fixpoint compile (i : nat) (es : list hev) : list event :=
  match es with
  | [] => []
  | e :: r => compile1 i e ++ compile (next_idx i e) r
  end.

(** *** the sync loop running alone against a getter [g : from height -> to -> answer] *)
Definition l_auto (g : N -> N -> ganswer) (c : cfg) : cfg :=
  l_step (match next_req c with Some (f, to) => g f to | None => GErr end) c.

Fixpoint l_iter (g : N -> N -> ganswer) (n : nat) (c : cfg) : cfg :=
  match n with
  | O => c
  | S k => l_iter g k (l_auto g c)
  end.

End machine.

(** the configuration right after Syncer.Start on a store holding the run
    [hs] (ascending, non-empty; last = head), whose head is recent *)
Definition init_cfg (tail : N) (hs : list hdr) : cfg :=
  let hd := last hs hdr_nil in
  Cfg (RStore tail (h_height hd) (rev hs)) hd [] (SState 0 0 0 None) false false LIdle [] [].

(** State(): the stored record plus Height read through the shim *)
Definition state_height (c : cfg) : N := h_height (c_cache c).
Definition state_finished (c : cfg) : bool := ss_to (c_state c) <=? state_height c.
(** SyncWait returns (rather than blocking in GetByHeight above the store's height) *)
Definition sync_wait_returns (c : cfg) : bool :=
  state_finished c || rs_has (ss_to (c_state c)) (rs_log (c_store c)).
