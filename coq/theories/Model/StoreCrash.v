(** Crash model: the datastore image after any prefix of the write log (each
    direct write and each batch commit is atomic), reopened by a fresh Store. *)
From Coq Require Import NArith List Bool.
From stdpp Require Import gmap.
From GH Require Import Base.Prelude Model.Store.
Import ListNotations.
Open Scope N_scope.

Definition apply_entry (s : st) (w : wop) : st := fold_left apply1 w s.

(** datastore content after the first [k] entries of [log], in a fresh (not started) Store *)
Definition image (b : N) (log : list wop) (k : nat) : st :=
  fold_left apply_entry (firstn k log) (st0 b).

(** a new Store object started on the surviving data *)
Definition reopen (b : N) (log : list wop) (k : nat) : st := start (image b log k).
