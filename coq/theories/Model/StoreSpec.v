(** The abstract specification of the Store at quiescence: a set of stored
    heights of one chain [c], and the two ends of the contiguous run.

    Append adds heights; Head = top of the run of S containing the old Head
    (the first appended height when the store was empty), Tail = bottom of the
    run containing the old Tail; DeleteRange removes an end of [Tail, Head];
    restarts change nothing. *)
From Coq Require Import NArith List Bool.
From stdpp Require Import gmap.
From GH Require Import Base.Prelude Model.Store.
Import ListNotations.
Open Scope N_scope.

Record spec := Spec { sS : gset N; sHT : option (N * N) }.   (* (Tail, Head) *)
Definition spec0 : spec := Spec ∅ None.

Fixpoint run_up (fuel : nat) (S : gset N) (n : N) : N :=
  match fuel with
  | O => n
  | S f => if bool_decide (wrap64 (n + 1) ∈ S) then run_up f S (wrap64 (n + 1)) else n
  end.
Fixpoint run_down (fuel : nat) (S : gset N) (n : N) : N :=
  match fuel with
  | O => n
  | S f => if bool_decide (sub64 n 1 ∈ S) then run_down f S (sub64 n 1) else n
  end.

Definition spec_append (s : spec) (ns : list N) : spec :=
  match ns with
  | [] => s
  | n0 :: _ =>
    let S' := sS s ∪ list_to_set ns in
    let fuel := Datatypes.S (size S') in
    let '(T, H) := match sHT s with Some th => th | None => (n0, n0) end in
    Spec S' (Some (run_down fuel S' T, run_up fuel S' H))
  end.

(** the heights [from, from+cnt) *)
Fixpoint seqN (from : N) (cnt : nat) : list N :=
  match cnt with O => [] | S c => from :: seqN (from + 1) c end.

(** [stop]: the height at which a handler failed ([None] = all succeeded);
    heights not in S are skipped without calling handlers *)
Definition spec_delete (s : spec) (from to : N) (stop : option N) : spec * outcome :=
  match sHT s with
  | None => (s, Fail)
  | Some (T, H) =>
    if to <=? from then (s, Fail) else
    if (H <? from) || (to <=? T) then (s, Fail) else
    let uT := from =? T in
    let uH := to =? wrap64 (H + 1) in
    let upto := match stop with Some k => k | None => to end in
    let S' := sS s ∖ list_to_set (seqN from (N.to_nat (upto - from))) in
    if uT && uH && negb (bool_decide (to ∈ sS s)) then
      match stop with
      | None => (Spec S' None, Ok)
      | Some k => (Spec S' (Some (k, H)), Fail)
      end
    else if uT && (wrap64 (H + 1) <? to) then (s, Fail)
    else if negb uT && uH && (from <? T) then (s, Fail)
    else if negb uT && negb uH then (s, Fail)
    else if uT then
      (Spec S' (Some (upto, if H <? upto then run_up (Datatypes.S (size S')) S' upto else H)),
       match stop with None => Ok | Some _ => Fail end)
    else
      (Spec S' (Some (T, if from <? upto then from - 1 else H)),
       match stop with None => Ok | Some _ => Fail end)
  end.

(** observations of the specification, for a chain [c] *)
Section obs.
Variable c : N -> hdr.

Definition spec_height (s : spec) : N := match sHT s with Some (_, H) => H | None => 0 end.
Definition spec_gbh (s : spec) (n : N) : res hdr :=
  if n =? 0 then Err else
  if bool_decide (n ∈ sS s) then Found (c n) else
  if n <=? spec_height s then NotFound else Blocks.
Definition spec_get (s : spec) (n : N) : res hdr :=   (* Get (hash of c n) *)
  if bool_decide (n ∈ sS s) then Found (c n) else NotFound.
Definition spec_has_at (s : spec) (n : N) : bool :=
  match sHT s with Some (T, H) => negb (n =? 0) && (n <=? H) && (T <=? n) | None => false end.
Definition spec_range (s : spec) (from to : N) : res (list hdr) :=
  if to <=? from then Err else
  match spec_gbh s (to - 1) with
  | Found _ =>
    let hs := seqN from (N.to_nat (to - from)) in
    if forallb (fun n => bool_decide (n ∈ sS s)) hs then Found (map c hs) else NotFound
  | NotFound => NotFound
  | Blocks => Blocks
  | Err => Err
  end.
End obs.
