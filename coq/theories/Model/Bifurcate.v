(** Model of sync/syncer_head.go: verify(), verifyBifurcating(), incomingNetworkHead()
    (the part that decides whether a candidate network head becomes the sync target).

    External behaviour is a parameter: the header type's own Verify [tv] (through
    [GH.Model.Verify.Verify]), the clock, and the getter [get]. The getter is an
    oracle indexed by the number of the request (0, 1, 2, ... within one
    bifurcation) and the asked height: [get i h = None] is an error of
    GetByHeight, [Some x] a header -- of ANY height: the getter is not trusted to
    answer with the asked height, verifyBifurcating compares the two and refuses
    the candidate when they differ (fix F30; before it the loop could spin forever).
    Definitions only; proofs are in Proofs/BifurcateP.v. *)
From GH Require Import Base.Prelude Model.Verify.

(** why a candidate was refused (= which [return err] of the code was taken) *)
Inductive bfail :=
| FGetter                 (* GetByHeight failed: fmt.Errorf("bifurcation: getting candidate ... %w") *)
| FHeight                 (* GetByHeight answered with a (non-zero) header of another height than asked:
                             fmt.Errorf("bifurcation: getter returned a header at height %d for height %d") *)
| FCandidate (e : verr)   (* an intermediate failed with a hard VerifyError: that error, as is *)
| FNewHead (e : verr)     (* diff <= 1: "bifurcation: new head failed: %w" around the last error *)
| FDirect (e : verr).     (* Syncer.verify: direct verification failed and the failure is not soft *)

Inductive verdict := Accept | Refuse (f : bfail) | OutOfFuel.

(** one run: the verdict, the getter requests in order (asked height, hash id of
    the subjective head at the time of the request), and the headers handed to
    setLocalHead in order *)
Record brun := BRun { b_verdict : verdict; b_calls : list (N * N); b_promoted : list hdr }.

Definition bcons (call : N * N) (p : option hdr) (r : brun) : brun :=
  BRun (b_verdict r) (call :: b_calls r)
       (match p with Some c => c :: b_promoted r | None => b_promoted r end).

Section bifurcate.
Variables (now drift : Z) (tv : hdr -> hdr -> tvres) (get : nat -> N -> option hdr).

(** verifyBifurcating(): one unit of fuel per loop iteration = per getter request.
    [subj] is subjHead ([subjHeight] of the code is always [subjHead.Height()]),
    [i] the number of requests made so far. *)
Fixpoint bifurcate (fuel i : nat) (subj new : hdr) (diff : N) : brun :=
  match fuel with
  | O => BRun OutOfFuel [] []
  | S f =>
    let ch := wrap64 (h_height subj + diff / 2) in           (* candidateHeight := subjHeight + diff/2 *)
    let call := (ch, h_id subj) in
    match get i ch with
    | None => BRun (Refuse FGetter) [call] []
    | Some c =>
      (* if !candidateHeader.IsZero() && candidateHeader.Height() != candidateHeight { return fmt.Errorf(...) }
         (a zero header goes on to Verify, which fails hard with ErrZeroHeader) *)
      if negb (h_nil c) && negb (h_height c =? ch) then BRun (Refuse FHeight) [call] [] else
      match Verify now drift tv subj c with
      | Some e =>
        if ve_soft e
        then bcons call None (bifurcate f (S i) subj new (diff / 2))   (* diff /= 2; continue *)
        else BRun (Refuse (FCandidate e)) [call] []                    (* hard failure exit *)
      | None =>
        (* subjHead = candidateHeader; s.setLocalHead(ctx, subjHead) *)
        match Verify now drift tv c new with
        | None => BRun Accept [call] [c]
        | Some e =>
          let diff' := sub64 (h_height new) (h_height c) in  (* diff = newHead.Height() - subjHeight *)
          if diff' <=? 1
          then BRun (Refuse (FNewHead e)) [call] [c]
          else bcons call (Some c) (bifurcate f (S i) c new diff')
        end
      end
    end
  end.

(** Syncer.verify(): direct verification; soft failure => bifurcate; other failure => that error *)
Definition syncer_verify (fuel : nat) (subj new : hdr) : brun :=
  match Verify now drift tv subj new with
  | None => BRun Accept [] []
  | Some e =>
    if ve_soft e
    then bifurcate fuel 0 subj new (sub64 (h_height new) (h_height subj))
    else BRun (Refuse (FDirect e)) [] []
  end.

(** incomingNetworkHead(): verify, then setLocalHead(head) *)
Definition incoming (fuel : nat) (subj new : hdr) : brun :=
  let r := syncer_verify fuel subj new in
  match b_verdict r with
  | Accept => BRun Accept (b_calls r) (b_promoted r ++ [new])
  | _ => r
  end.

(** networkHead(), the branch in which the head request s.head.Head(WithTrustedHead(sbjHead))
    came back with (newHead, a *VerifyError with SoftFailure): the head goes through
    incomingNetworkHead exactly like a head delivered by the subscriber. An error keeps the old
    subjective head as the answer and nothing else happens; on success the code falls through to
    "newHead.Height() <= sbjHead.Height() => answer sbjHead", else setLocalHead(newHead) once more
    (it already is the local head) and Head() answers with it. Result: the run and the answered head. *)
Definition head_soft (fuel : nat) (subj new : hdr) : brun * hdr :=
  let r := incoming fuel subj new in
  match b_verdict r with
  | Accept => if h_height new <=? h_height subj then (r, subj) else (r, new)
  | _ => (r, subj)
  end.

End bifurcate.

(** Syncer.Head() afterwards: the last header handed to setLocalHead (each one is
    strictly higher than the previous subjective head), else the old head *)
Definition head_after (subj : hdr) (r : brun) : hdr := last (b_promoted r) subj.

(** number of loop iterations (= getter requests) that always suffices for distance [D],
    whatever the getter answers: (D+1) * (bits(D)+1) *)
Definition bound (D : N) : N := (D + 1) * (N.size D + 1).
Definition fuel_bound (D : N) : nat := N.to_nat (bound D).

(** the Store's head after the given headers went through setLocalHead in order: syncStore.Append
    of a single header above the head stores it iff it is adjacent to the head *)
Definition store_step (st c : hdr) : hdr :=
  if h_height c =? wrap64 (h_height st + 1) then c else st.
Definition store_after (st : hdr) (promoted : list hdr) : hdr := fold_left store_step promoted st.

(** several candidates delivered to one Syncer, each with the getter as it behaves during that
    delivery: the Syncer keeps no memory of earlier candidates -- a delivery is [incoming] on the
    subjective head the earlier ones left, nothing else is carried over *)
Definition delivery : Type := (nat -> N -> option hdr) * nat * hdr.   (* getter, fuel, candidate *)

Fixpoint deliveries (now drift : Z) (tv : hdr -> hdr -> tvres) (subj : hdr) (l : list delivery) : list brun :=
  match l with
  | [] => []
  | (get, fuel, new) :: rest =>
    let r := incoming now drift tv get fuel subj new in
    r :: deliveries now drift tv (head_after subj r) rest
  end.

(** the subjective head after a sequence of deliveries *)
Fixpoint head_after_all (now drift : Z) (tv : hdr -> hdr -> tvres) (subj : hdr) (l : list delivery) : hdr :=
  match l with
  | [] => subj
  | (get, fuel, new) :: rest =>
    head_after_all now drift tv (head_after subj (incoming now drift tv get fuel subj new)) rest
  end.
