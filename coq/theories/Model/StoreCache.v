(** The Store with its two 2Q caches (definitions only).

    [Store.cache] (hash -> header) and [heightIndex.cache] (height -> hash) are added to the
    cache-free model of Model/Store.v.  Every code path of store.go / height_indexer.go /
    store_delete.go that touches a cache is mirrored:
      Store.Get            cache hit -> return; else pending; else datastore read AND cache.Add
      HashByHeight(h, c)   index-cache hit; else datastore read, Add only when [c] is true
                           (getByHeight passes true, deleteSingle and FindHeader pass false)
      Store.Has            cache.Contains first
      deleteSingle         cache.Remove(hash), heightIndex.cache.Remove(height) after the datastore deletes
      deinit (wipe, Stop)  Purge both;   a new Store object starts with empty caches.
    Eviction: to cover every cache size and replacement policy, two arbitrary oracles
    [evh], [evi] : tick -> key -> keep? are applied after EVERY Add (the only moment a 2Q cache
    evicts) and once more after every operation of a history; the tick counts cache events, so
    the oracles may encode any decision sequence whatsoever (size 0 = keep nothing). *)
From Coq Require Import NArith List Bool.
From stdpp Require Import gmap.
From GH Require Import Base.Prelude Model.Store.
Import ListNotations.
Open Scope N_scope.

Record cst := CSt {
  c_st : st;                 (* the cache-free state *)
  c_hc : gmap N hdr;         (* Store.cache : hash -> header *)
  c_ic : gmap N N;           (* heightIndex.cache : height -> hash *)
  c_tick : nat               (* number of cache events so far (ghost, feeds the eviction oracles) *)
}.

Definition cst0 (b : N) : cst := CSt (st0 b) ∅ ∅ 0.
Definition with_st (x : cst) (s : st) : cst := CSt s (c_hc x) (c_ic x) (c_tick x).
Definition purge (x : cst) : cst := CSt (c_st x) ∅ ∅ (S (c_tick x)).

Section oracle.
Variables (evh evi : nat -> N -> bool).

Definition keep_h (t : nat) (m : gmap N hdr) : gmap N hdr :=
  base.filter (fun kv : N * hdr => evh t (fst kv) = true) m.
Definition keep_i (t : nat) (m : gmap N N) : gmap N N :=
  base.filter (fun kv : N * N => evi t (fst kv) = true) m.

(** cache.Add followed by whatever the policy evicts *)
Definition hc_add (x : cst) (id : N) (h : hdr) : cst :=
  CSt (c_st x) (keep_h (c_tick x) (<[id := h]> (c_hc x))) (c_ic x) (S (c_tick x)).
Definition ic_add (x : cst) (n id : N) : cst :=
  CSt (c_st x) (c_hc x) (keep_i (c_tick x) (<[n := id]> (c_ic x))) (S (c_tick x)).
(** an eviction at an arbitrary moment *)
Definition evict (x : cst) : cst :=
  CSt (c_st x) (keep_h (c_tick x) (c_hc x)) (keep_i (c_tick x) (c_ic x)) (S (c_tick x)).

(** Store.Get *)
Definition cget (x : cst) (id : N) : cst * res hdr :=
  let s := c_st x in
  match c_hc x !! id with
  | Some h => (x, Found h)
  | None =>
    match pend_i s !! id ≫= (fun n => pend_h s !! n) with
    | Some h => (x, Found h)
    | None => match d_hdr s !! id with
              | Some h => (hc_add x (h_id h) h, Found h)     (* s.cache.Add(h.Hash(), h) *)
              | None => (x, NotFound)
              end
    end
  end.

(** heightIndexer.HashByHeight *)
Definition chash (x : cst) (n : N) (cache : bool) : cst * option N :=
  match c_ic x !! n with
  | Some id => (x, Some id)
  | None => match d_idx (c_st x) !! n with
            | Some id => (if cache then ic_add x n id else x, Some id)
            | None => (x, None)
            end
  end.

(** Store.getByHeight *)
Definition cnb (x : cst) (n : N) : cst * res hdr :=
  let s := c_st x in
  if has_height (headp s) n then (x, match headp s with Some h => Found h | None => NotFound end) else
  if has_height (tailp s) n then (x, match tailp s with Some h => Found h | None => NotFound end) else
  match pend_h s !! n with
  | Some h => (x, Found h)
  | None => let '(x1, o) := chash x n true in
            match o with Some id => cget x1 id | None => (x1, NotFound) end
  end.

(** Store.GetByHeight *)
Definition cget_by_height (x : cst) (n : N) : cst * res hdr :=
  if n =? 0 then (x, Err) else
  let '(x1, r) := cnb x n in
  match r with
  | Found h => (x1, Found h)
  | _ => if n <=? hsh (c_st x) then cnb x1 n else (x1, Blocks)
  end.

Fixpoint cwalk_down (x : cst) (k : nat) (h : hdr) (acc : list hdr) : cst * res (list hdr) :=
  match k with
  | O => (x, Found (h :: acc))
  | S k' => let '(x1, r) := cget x (h_prev h) in
            match r with
            | Found p => cwalk_down x1 k' p (h :: acc)
            | _ => (x1, NotFound)
            end
  end.

Definition cget_range (x : cst) (from to : N) : cst * res (list hdr) :=
  if to <=? from then (x, Err) else
  let '(x1, r) := cget_by_height x (to - 1) in
  match r with
  | Found h => cwalk_down x1 (N.to_nat (to - from - 1)) h []
  | NotFound => (x1, NotFound)
  | Blocks => (x1, Blocks)
  | Err => (x1, Err)
  end.

(** Store.Has: cache.Contains, pending, datastore *)
Definition chas (x : cst) (id : N) : bool :=
  match c_hc x !! id with Some _ => true | None => has (c_st x) id end.

(** ** the flush closure *)
Fixpoint cnext_head (fuel : nat) (x : cst) (cur : hdr) (changed : bool) : cst * hdr * bool :=
  match fuel with
  | O => (x, cur, changed)
  | S f => let '(x1, r) := cnb x (wrap64 (h_height cur + 1)) in
           match r with
           | Found h => cnext_head f x1 h true
           | _ => (x1, cur, changed)
           end
  end.
Fixpoint cnext_tail (fuel : nat) (x : cst) (cur : hdr) (changed : bool) : cst * hdr * bool :=
  match fuel with
  | O => (x, cur, changed)
  | S f => let '(x1, r) := cnb x (sub64 (h_height cur) 1) in
           match r with
           | Found h => cnext_tail f x1 h true
           | _ => (x1, cur, changed)
           end
  end.

Definition cadvance_head (x : cst) : cst :=
  let s := c_st x in
  match headp s with
  | None => x
  | Some cur =>
    let '(x1, h, ch) := cnext_head (fuel_of s) x cur false in
    if ch then with_st x1 (set_hsh (set_headp s (Some h)) (N.max (hsh s) (h_height h))) else x1
  end.
Definition crecede_tail (x : cst) : cst :=
  let s := c_st x in
  match tailp s with
  | None => x
  | Some cur =>
    let '(x1, h, ch) := cnext_tail (fuel_of s) x cur false in
    if ch then with_st x1 (set_tailp s (Some h)) else x1
  end.

Definition cflush_one (x : cst) (o : option (list hdr)) : cst * outcome :=
  let hs := match o with Some l => l | None => [] end in
  let x3 := crecede_tail (cadvance_head (with_st x (pend_add (ensure_init (c_st x) hs) hs))) in
  let s3 := c_st x3 in
  if (N.of_nat (size (pend_h s3)) <? batch s3) && (match o with Some _ => true | None => false end)
  then (x3, Ok)
  else if (size (pend_h s3) =? 0)%nat then (x3, Ok)
  else (with_st x3 (set_pend (write s3 (commit_ops s3)) ∅ ∅), Ok).

Definition cappend (x : cst) (hs : list hdr) : cst * outcome :=
  match hs with [] => (x, Ok) | _ => cflush_one x (Some hs) end.

(** ** deletion *)
Fixpoint crun_handlers (x : cst) (script : nat -> N -> hres) (k nh : nat) (n : N) (log : list hcall)
  : cst * list hcall * bool :=
  match nh with
  | O => (x, log, true)
  | S nh' =>
    let '(x1, r) := cget_by_height x n in      (* what a handler sees when it reads the header *)
    let readable := match r with Found h => h_height h =? n | _ => false end in
    let log' := log ++ [HCall k n readable] in
    match script k n with
    | HOk => crun_handlers x1 script (S k) nh' n log'
    | _ => (x1, log', false)
    end
  end.

Definition cdelete_single (x : cst) (script : nat -> N -> hres) (nh : nat) (n : N) (log : list hcall)
  : cst * list hcall * bool :=
  let '(x0, o) := chash x n false in
  let s := c_st x0 in
  let oid := match o with
             | Some id => Some id
             | None => match pend_h s !! n with Some h => Some (h_id h) | None => None end
             end in
  match oid with
  | None => (x0, log, true)
  | Some id =>
    let '(x1, log', ok) := crun_handlers x0 script 0 nh n log in
    if ok then
      let s1 := c_st x1 in
      (CSt (pend_del (write s1 [WDelH id; WDelI n]) n)
           (delete id (c_hc x1)) (delete n (c_ic x1)) (S (c_tick x1)), log', true)
    else (x1, log', false)
  end.

Fixpoint cdelete_seq (x : cst) (script : nat -> N -> hres) (nh : nat) (n : N) (cnt : nat) (log : list hcall)
  : cst * list hcall * N * bool :=
  match cnt with
  | O => (x, log, n, true)
  | S c =>
    let '(x', log', ok) := cdelete_single x script nh n log in
    if ok then cdelete_seq x' script nh (n + 1) c log' else (x', log', n, false)
  end.

Definition cset_tail (x : cst) (n : N) : cst * bool :=
  let '(x0, r) := cnb x n in
  let s := c_st x0 in
  match r with
  | Found h =>
    let s1 := write (set_tailp s (Some h)) [WPutTail (h_id h)] in
    let over := match headp s1 with None => true | Some hd => h_height hd <? n end in
    let x2 := if over then cadvance_head (with_st x0 (set_headp (write s1 [WPutHead (h_id h)]) (Some h)))
              else with_st x0 s1 in
    (with_st x2 (put_head_ptr (c_st x2)), true)
  | _ => (x0, false)
  end.

Definition cset_head (x : cst) (n : N) : cst * bool :=
  let '(x0, r) := cnb x n in
  let s := c_st x0 in
  match r with
  | Found h =>
    (with_st x0 (put_tail_ptr (write (set_hsh (set_headp s (Some h)) (h_height h)) [WPutHead (h_id h)])), true)
  | _ => (x0, false)
  end.

(** deinit purges both caches *)
Definition cdeinit (x : cst) : cst := purge (with_st x (deinit (c_st x))).
Definition cwipe (x : cst) : cst :=
  let x1 := cdeinit x in with_st x1 (write (write (c_st x1) [WDelHead]) [WDelTail]).

Definition cdelete_range_synced (x : cst) (script : nat -> N -> hres) (nh : nat) (from to : N)
  : cst * list hcall * outcome :=
  let s := c_st x in
  match headp s, tailp s with
  | Some hd, Some tl =>
    let H := h_height hd in let T := h_height tl in
    if to <=? from then (x, [], Fail) else
    if (H <? from) || (to <=? T) then (x, [], Fail) else
    let uT := from =? T in
    let uH := to =? wrap64 (H + 1) in
    let cnt := N.to_nat (to - from) in
    if uT && uH then
      let '(xa, ra) := cnb x to in
      if match ra with NotFound => true | _ => false end then
        let '(x1, log, actual, ok) := cdelete_seq xa script nh from cnt [] in
        if ok then (cwipe x1, log, Ok)
        else (fst (cset_tail x1 actual), log, Fail)
      else if uT && (wrap64 (H + 1) <? to) then (xa, [], Fail)
      else
        let '(x1, log, actual, ok) := cdelete_seq xa script nh from cnt [] in
        let '(x2, tok) := cset_tail x1 actual in
        (x2, log, if tok && ok then Ok else Fail)
    else if uT && (wrap64 (H + 1) <? to) then (x, [], Fail)
    else if negb uT && uH && (from <? T) then (x, [], Fail)
    else if negb uT && negb uH then (x, [], Fail)
    else if uT then
      let '(x1, log, actual, ok) := cdelete_seq x script nh from cnt [] in
      let '(x2, tok) := cset_tail x1 actual in
      (x2, log, if tok && ok then Ok else Fail)
    else
      let '(xa, ra) := cnb x (from - 1) in
      match ra with
      | Found nh' =>
        let x0 := with_st xa (write (c_st xa) [WPutTail (h_id tl); WPutHead (h_id nh')]) in
        let '(x1, log, actual, ok) := cdelete_seq x0 script nh from cnt [] in
        if from <? actual then
          let '(x2, hok) := cset_head x1 (from - 1) in
          (x2, log, if hok && ok then Ok else Fail)
        else (with_st x1 (write (c_st x1) [WPutHead (h_id hd)]), log, if ok then Ok else Fail)
      | _ => (xa, [], Fail)
      end
  | _, _ => (x, [], Fail)
  end.

Definition csync (x : cst) : cst := fst (cflush_one x None).

Definition cdelete_range (x : cst) (script : nat -> N -> hres) (nh : nat) (from to : N)
  : cst * list hcall * outcome :=
  cdelete_range_synced (csync x) script nh from to.

(** ** stop / start *)
Definition cstop (x : cst) : cst * outcome :=
  let '(x1, o) := cflush_one x None in
  match o with Panic => (x1, Panic) | _ => (cdeinit x1, Ok) end.

Definition cread_head (x : cst) : cst :=
  match d_head (c_st x) with
  | None => x
  | Some id => let '(x1, r) := cget x id in
               match r with
               | Found h => with_st x1 (set_hsh (set_headp (c_st x1) (Some h)) (h_height h))
               | _ => with_st x1 (write (c_st x1) [WDelHead])
               end
  end.
Definition cread_tail (x : cst) : cst :=
  match d_tail (c_st x) with
  | None => x
  | Some id => let '(x1, r) := cget x id in
               match r with
               | Found h => with_st x1 (set_tailp (c_st x1) (Some h))
               | _ => with_st x1 (write (c_st x1) [WDelTail])
               end
  end.
Definition cstart (x : cst) : cst := cread_tail (cread_head x).

(** a new Store object over the same datastore: new, empty caches *)
Definition cfresh (x : cst) : cst := CSt (fresh (c_st x)) ∅ ∅ (S (c_tick x)).

Definition cstep (x : cst) (o : op) : cst * list hcall * outcome :=
  match o with
  | OAppend hs => let '(x', r) := cappend x hs in (x', [], r)
  | ODelete from to nh fails => cdelete_range x (script_of fails) nh from to
  | OSync => (csync x, [], Ok)
  | ORestart => let '(x1, r) := cstop x in
                match r with Panic => (x1, [], Panic) | _ => (cstart x1, [], Ok) end
  | OReopen => let '(x1, r) := cstop x in
               match r with Panic => (x1, [], Panic) | _ => (cstart (cfresh x1), [], Ok) end
  end.

(** a history; an arbitrary eviction happens after every operation *)
Definition crun (x : cst) (ops : list op) : cst :=
  fold_left (fun x o => evict (fst (fst (cstep x o)))) ops x.

End oracle.
