(** Byte-level model of the Store's datastore layout.

    Go code modelled (all of it at the level of bytes):
    - hash.go: [Hash.String] ([hash_string]), [Hash.MarshalJSON] ([marshal_json]),
      [Hash.UnmarshalJSON] ([unmarshal_json], with encoding/hex.Decode = [hex_dec]), [hexToUpper];
    - strconv.FormatUint(h, 10) ([dec]);
    - go-datastore key.go: [NewKey] = "/"+s cleaned with path.Clean ([new_key], the rooted case of
      path.Clean in full), [Key.Child] and keytransform.PrefixTransform.ConvertKey ([ns_key]);
    - store/keys.go: [head_key], [tail_key], [height_key], [hash_key];
    - store/store.go: writeHeaderHashTo / indexTo / flush of ONE header on a fresh Store
      ([flush1]: the four Puts of the batch, in the order of the code), readByKey + init as far as
      the head pointer is concerned ([start_head]: error / dropped pointer / head set);
    - a byte-level datastore: association list from key strings to values ([bput], [bdel], [bget]).

    A string is a [list byte] ([byte] = Coq.Init.Byte, 256 constructors), so every theorem over
    "all byte strings" needs no well-formedness side condition.  Definitions only. *)
From Coq Require Strings.Byte.
From GH Require Import Base.Prelude.
Import Coq.Init.Byte.
Open Scope N_scope.

Definition bytes := list byte.

Definition bN (b : byte) : N := Byte.to_N b.
(** byte of a number below 256 (numbers above are never passed; x00 then) *)
Definition Nb (n : N) : byte := match Byte.of_N n with Some b => b | None => x00 end.

Definition byte_eqb (a b : byte) : bool := Byte.eqb a b.
Definition bytes_eqb (a b : bytes) : bool := list_eqb byte_eqb a b.

Definition dq : byte := x22.      (* double quote *)
Definition slash : byte := x2f.   (* '/' *)
Definition dot : byte := x2e.     (* '.' *)

(** ** encoding/hex *)

(** hextable = "0123456789abcdef" *)
Definition hex_lower_digit (v : N) : byte := Nb (if v <? 10 then 48 + v else 87 + v).

(** hex.Encode: two lower-case digits per byte, high nibble first *)
Fixpoint hex_enc (h : bytes) : bytes :=
  match h with
  | [] => []
  | b :: r => hex_lower_digit (bN b / 16) :: hex_lower_digit (bN b mod 16) :: hex_enc r
  end.

(** hexToUpper on one byte: 'a'..'z' -> 'A'..'Z', everything else unchanged *)
Definition to_upper (c : byte) : byte :=
  let n := bN c in if (97 <=? n) && (n <=? 122) then Nb (n - 32) else c.

(** Hash.String *)
Definition hash_string (h : bytes) : bytes := map to_upper (hex_enc h).

(** Hash.MarshalJSON: quote, hex, quote, upper-cased (the quotes are fixed points of hexToUpper) *)
Definition marshal_json (h : bytes) : bytes := dq :: map to_upper (hex_enc h) ++ [dq].

(** reverseHexTable: value of a hex digit, either case; None = 0xff (invalid) *)
Definition from_hex (c : byte) : option N :=
  let n := bN c in
  if (48 <=? n) && (n <=? 57) then Some (n - 48)
  else if (97 <=? n) && (n <=? 102) then Some (n - 87)
  else if (65 <=? n) && (n <=? 70) then Some (n - 55)
  else None.

Inductive hexres := HexOk (h : bytes) | HexBad (c : byte) | HexLen.

(** hex.Decode: pairs from the left, the first invalid byte is reported (InvalidByteError);
    a trailing single byte is checked for validity before ErrLength is reported *)
Fixpoint hex_dec (s : bytes) : hexres :=
  match s with
  | [] => HexOk []
  | [p] => match from_hex p with None => HexBad p | Some _ => HexLen end
  | p :: q :: r =>
    match from_hex p with
    | None => HexBad p
    | Some a =>
      match from_hex q with
      | None => HexBad q
      | Some b => match hex_dec r with HexOk l => HexOk (Nb (16 * a + b) :: l) | e => e end
      end
    end
  end.

(** outcome of Hash.UnmarshalJSON *)
Inductive dres :=
| DOk (h : bytes)
| DErrQuote            (* len < 2, or first / last byte not a double quote: the invalid-hex-string error *)
| DErrByte (c : byte)  (* hex.InvalidByteError(c) *)
| DErrLen.             (* hex.ErrLength *)

Definition unmarshal_json (d : bytes) : dres :=
  match d with
  | [] | [_] => DErrQuote
  | c :: r =>
    if byte_eqb c dq && byte_eqb (last r x00) dq then
      match hex_dec (removelast r) with
      | HexOk h => DOk h
      | HexBad b => DErrByte b
      | HexLen => DErrLen
      end
    else DErrQuote
  end.

(** ** strconv.FormatUint(n, 10) *)

(** digits, least significant first; [fuel] bounds the number of digits *)
Fixpoint dec_rev (fuel : nat) (n : N) : bytes :=
  match fuel with
  | O => []   (* out of fuel: excluded by [KeysP.dec_rev_val] (fuel = number of bits + 1 suffices) *)
  | S f => Nb (48 + n mod 10) :: (if n <? 10 then [] else dec_rev f (n / 10))
  end.

Definition dec_fuel (n : N) : nat := S (N.to_nat (N.size n)).
Definition dec (n : N) : bytes := rev (dec_rev (dec_fuel n) n).

(** ** go-datastore keys *)

(** strings.Split(s, "/") *)
Fixpoint split_slash (s : bytes) (cur : bytes) : list bytes :=
  match s with
  | [] => [rev cur]
  | c :: r => if byte_eqb c slash then rev cur :: split_slash r [] else split_slash r (c :: cur)
  end.

(** path.Clean of a ROOTED path, element by element: "" and "." vanish, ".." removes the
    element before it (nothing at the root); [stack] holds the kept elements, last first *)
Fixpoint clean_elems (els : list bytes) (stack : list bytes) : list bytes :=
  match els with
  | [] => rev stack
  | e :: r =>
    if bytes_eqb e [] || bytes_eqb e [dot] then clean_elems r stack
    else if bytes_eqb e [dot; dot] then clean_elems r (tl stack)
    else clean_elems r (e :: stack)
  end.

Fixpoint join_slash (els : list bytes) : bytes :=
  match els with
  | [] => []
  | e :: r => slash :: e ++ join_slash r
  end.

Definition clean_rooted (s : bytes) : bytes :=
  match join_slash (clean_elems (split_slash s []) []) with
  | [] => [slash]
  | k => k
  end.

(** datastore.NewKey(s): "" -> "/", "/..." -> Clean(s), else Clean("/"+s); always rooted *)
Definition new_key (s : bytes) : bytes :=
  match s with
  | [] => [slash]
  | c :: _ => if byte_eqb c slash then clean_rooted s else clean_rooted (slash :: s)
  end.

Fixpoint is_prefix (p s : bytes) : bool :=
  match p, s with
  | [], _ => true
  | a :: p', b :: s' => byte_eqb a b && is_prefix p' s'
  | _ :: _, [] => false
  end.

(** PrefixTransform.ConvertKey: keys below the prefix are left alone, the others become
    prefix.Child(k) (the root key "/" becomes the prefix itself; a root prefix changes nothing) *)
Definition ns_key (prefix k : bytes) : bytes :=
  if is_prefix (prefix ++ [slash]) k then k
  else if bytes_eqb prefix [slash] then k
  else if bytes_eqb k [slash] then prefix
  else prefix ++ k.

(** "/headers" *)
Definition default_prefix : bytes := [x2f; x68; x65; x61; x64; x65; x72; x73].

(** ** store/keys.go *)
Definition str_head : bytes := [x68; x65; x61; x64].
Definition str_tail : bytes := [x74; x61; x69; x6c].
Definition head_key : bytes := new_key str_head.
Definition tail_key : bytes := new_key str_tail.
Definition height_key (n : N) : bytes := new_key (dec n).
Definition hash_key (h : bytes) : bytes := new_key (hash_string h).

(** ** byte-level datastore *)
Definition bds := list (bytes * bytes).

Fixpoint bget (m : bds) (k : bytes) : option bytes :=
  match m with
  | [] => None
  | (k', v) :: r => if bytes_eqb k' k then Some v else bget r k
  end.
Fixpoint bdel (m : bds) (k : bytes) : bds :=
  match m with
  | [] => []
  | (k', v) :: r => if bytes_eqb k' k then bdel r k else (k', v) :: bdel r k
  end.
Definition bput (m : bds) (k v : bytes) : bds := (k, v) :: bdel m k.

(** ** store.go *)

(** the batch that Store.flush commits for ONE header (hash [h], height [n], encoding [bin]) on a
    fresh Store: the header under its hash key, the two pointers (JSON), the height index *)
Definition flush1 (prefix h : bytes) (n : N) (bin : bytes) : list (bytes * bytes) :=
  [ (ns_key prefix (hash_key h), bin);
    (ns_key prefix head_key, marshal_json h);
    (ns_key prefix tail_key, marshal_json h);
    (ns_key prefix (height_key n), h) ].

Definition apply_puts (m : bds) (l : list (bytes * bytes)) : bds :=
  fold_left (fun m kv => bput m (fst kv) (snd kv)) l m.

(** what a fresh Store makes of the head pointer at Start (init -> readByKey(headKey)):
    [decodes v] says whether the header type's UnmarshalBinary accepts the stored bytes *)
Inductive sres :=
| SNoPointer            (* key absent: Start ok, Head() = ErrEmptyStore *)
| SStartErr             (* pointer does not decode, or the header bytes do not: Start fails, key kept *)
| SDropped              (* pointer decodes, no header under that hash: key deleted, Start ok, store empty *)
| SHead (h : bytes).    (* Head() is the header with hash h *)

Definition start_head (decodes : bytes -> bool) (prefix : bytes) (m : bds) : sres * bds :=
  match bget m (ns_key prefix head_key) with
  | None => (SNoPointer, m)
  | Some v =>
    match unmarshal_json v with
    | DOk h =>
      match bget m (ns_key prefix (hash_key h)) with
      | None => (SDropped, bdel m (ns_key prefix head_key))
      | Some bin => if decodes bin then (SHead h, m) else (SStartErr, m)
      end
    | _ => (SStartErr, m)
    end
  end.

(** ** the abstract keys of Model/Store.v (its four disk components) and their byte form *)
Inductive akey := KHash (id : N) | KHeight (n : N) | KHead | KTail.

Definition enc_key (prefix : bytes) (tbl : N -> bytes) (k : akey) : bytes :=
  ns_key prefix
    match k with
    | KHash id => hash_key (tbl id)
    | KHeight n => height_key n
    | KHead => head_key
    | KTail => tail_key
    end.

(** the region in which hash keys cannot meet height keys *)
Definition is_dec_digit (c : byte) : bool := (48 <=? bN c) && (bN c <=? 57).
Definition hash_safe (h : bytes) : bool :=
  (10 <? length h)%nat || negb (forallb is_dec_digit (hash_string h)).
