(** Model of sync/syncer_tail.go (subjectiveTail, renewTail, moveTail, tailHash,
    tailHeight, estimateTailHeight, findTailHeight), sync/options.go
    (Parameters.Validate) and of the path of Syncer.Start -> Head ->
    networkHead/subjectiveHead that decides whether and with which head the tail
    is recomputed (sync/syncer_head.go), over an abstract store.

    Conventions: time.Time / time.Duration are [Z] nanoseconds (Go int64 for
    durations: truncating division [Z.quot], two's-complement wrap [wrapi64],
    [uint64(d)] = [u64 d], [x / 0] = run-time panic); heights are [N] with
    explicit [wrap64]/[sub64]. The chain served by the network is the list of
    header times of heights 1..N; every header the syncer can ever see is a
    header of that chain, so a header is identified with its height.
    Definitions only; proofs are in Proofs/TailP.v. *)
From GH Require Import Base.Prelude.

(** * Go int64 / time arithmetic *)
Definition two63 : Z := 9223372036854775808%Z.
Definition min64 : Z := (- two63)%Z.
Definition max64 : Z := (two63 - 1)%Z.
(** two's complement wrap of a mathematical integer to int64 *)
Definition wrapi64 (x : Z) : Z := ((x + two63) mod (2 * two63) - two63)%Z.
(** time.Time.Sub saturates at the int64 range *)
Definition sat64 (x : Z) : Z := Z.max min64 (Z.min max64 x).
(** uint64(d) for an int64 d *)
Definition u64 (x : Z) : N := Z.to_N (x mod (2 * two63)).
(** int64 division: [None] is the run-time panic "integer divide by zero";
    minInt64 / -1 wraps to minInt64 *)
Definition div64 (a b : Z) : option Z :=
  if (b =? 0)%Z then None else Some (wrapi64 (Z.quot a b)).

(** * Parameters *)
Inductive hashspec :=
| HNone                (* SyncFromHash == "" *)
| HBadHex              (* not a hex string *)
| HAt (k : N).         (* the hash of the chain header of height k; k = 0 or k above the
                          network head: a well-formed hash of no header of the chain *)

Record params := Params {
  p_window : Z;        (* PruningWindow *)
  p_from : N;          (* SyncFromHeight *)
  p_hash : hashspec;   (* SyncFromHash *)
  p_trusting : Z;      (* trustingPeriod *)
  p_block : Z;         (* blockTime, 0 = unset *)
  p_recency : Z        (* recencyThreshold, 0 = unset *)
}.

Definition hash_unset (p : params) : bool := match p_hash p with HNone => true | _ => false end.

(** Parameters.Validate() == nil *)
Definition params_valid (p : params) : bool :=
  (0 <? p_trusting p)%Z
  && (0 <=? p_window p)%Z && (0 <=? p_block p)%Z && (0 <=? p_recency p)%Z
  && negb (hash_unset p && (p_window p =? 0)%Z && (p_from p =? 0))
  && match p_hash p with HBadHex => false | _ => true end.

(** * The chain and the abstract store *)
(** time of the chain header of height h (None: no such header in the network) *)
Definition tm (times : list Z) (h : N) : option Z :=
  if h =? 0 then None else nth_error times (N.to_nat (h - 1)).
Definition net_head (times : list Z) : N := N.of_nat (length times).
Definition in_chain (times : list Z) (h : N) : bool := (1 <=? h) && (h <=? net_head times).

(** the store: the contiguous chain [s_tail .. s_head] (s_tail = 0: empty) plus
    the heights of headers that are retrievable but outside of it (ascending) *)
Record store := Store { s_tail : N; s_head : N; s_extra : list N }.

Definition st_empty (st : store) : bool := s_tail st =? 0.
Definition mem (h : N) (l : list N) : bool := existsb (N.eqb h) l.
Definition st_has (st : store) (h : N) : bool :=
  (negb (st_empty st) && (s_tail st <=? h) && (h <=? s_head st)) || mem h (s_extra st).
(** Store.Height() *)
Definition st_height (st : store) : N := if st_empty st then 0 else s_head st.

Fixpoint insert_sorted (h : N) (l : list N) : list N :=
  match l with
  | [] => [h]
  | x :: r => if h <? x then h :: l else if h =? x then l else x :: insert_sorted h r
  end.

(** advanceHead / recedeTail: walk over retrievable neighbours *)
Fixpoint absorb_up (fuel : nat) (hd : N) (ex : list N) : N :=
  match fuel with
  | O => hd
  | S f => if mem (hd + 1) ex then absorb_up f (hd + 1) ex else hd
  end.
Fixpoint absorb_down (fuel : nat) (tl : N) (ex : list N) : N :=
  match fuel with
  | O => tl
  | S f => if (1 <? tl) && mem (tl - 1) ex then absorb_down f (tl - 1) ex else tl
  end.
Definition st_norm (tl hd : N) (ex : list N) : store :=
  let hd' := absorb_up (length ex) hd ex in
  let tl' := absorb_down (length ex) tl ex in
  Store tl' hd' (filter (fun e => (e <? tl') || (hd' <? e)) ex).

(** Store.Append of the single chain header of height h (h >= 1) *)
Definition st_append (st : store) (h : N) : store :=
  if st_empty st then st_norm h h (s_extra st)   (* ensureInit: Head = Tail = h, also when h is a detached header on disk *)
  else if st_has st h then st
  else st_norm (s_tail st) (s_head st) (insert_sorted h (s_extra st)).

(** the headers (x .. s_tail] are fetched and appended while x is already in the
    store (doSync of moveTail, downwards) *)
Definition st_sync_down (st : store) (x : N) : store :=
  if x <? s_tail st then st_norm x (s_head st) (s_extra st) else st.
(** the headers (s_head .. n] are fetched and appended (the sync loop) *)
Definition st_sync_up (st : store) (n : N) : store :=
  if s_head st <? n then st_norm (s_tail st) n (s_extra st) else st.

(** Store.DeleteRange(from, to); None = an error, store unchanged. Only the
    tail-side and whole-store shapes can be asked for by moveTail. *)
Definition st_delete_range (st : store) (from to : N) : option store :=
  if st_empty st then None
  else if to <=? from then None
  else if (s_head st <? from) || (to <=? s_tail st) then None
  else
    let upd_tail := from =? s_tail st in
    let upd_head := to =? wrap64 (s_head st + 1) in
    if upd_tail && upd_head && negb (st_has st to) then Some (Store 0 0 (s_extra st)) (* wipe *)
    else if upd_tail then
      if wrap64 (s_head st + 1) <? to then None
      else if st_has st to then Some (st_norm to (N.max to (s_head st)) (s_extra st))
      else None
    else if upd_head then Some (Store (s_tail st) (from - 1) (s_extra st))
    else None.

(** * Tail height arithmetic *)
Inductive tres :=
| TPanic               (* integer divide by zero (unreachable since the blockTime <= 0 guards) *)
| TErr                 (* a store lookup of the scan failed *)
| TFuel                (* fuel exhausted (excluded by [scan_fuel_enough]) *)
| TVal (h : N).

(** estimateTailHeight *)
Definition estimate_tail (trusting block : Z) (headH : N) : tres :=
  if (block <=? 0)%Z then TVal 1 else
  match div64 trusting block with
  | None => TPanic
  | Some q => let k := u64 q in if headH <=? k then TVal 1 else TVal (headH - k)
  end.

(** the downward scan of findTailHeight (it also starts from an estimate one
    above the store's head): while the header below [cur] is not older than the
    window, step down; [time_at] is Store.GetByHeight(h).Time().
    [cur - 1] cannot underflow: oldH < cur. *)
Fixpoint scan_down (fuel : nat) (E : Z) (oldH storeH : N) (time_at : N -> option Z) (cur : N) : tres :=
  if (oldH <? cur) && (cur - 1 <=? storeH) then
    match fuel with
    | O => TFuel
    | S f =>
      match time_at (cur - 1) with
      | None => TErr
      | Some t => if (t <? E)%Z then TVal cur else scan_down f E oldH storeH time_at (cur - 1)
      end
    end
  else TVal cur.

(** the upward scan of findTailHeight. [cur + 1] cannot overflow: cur < storeH. *)
Fixpoint scan (fuel : nat) (E : Z) (oldH storeH : N) (time_at : N -> option Z) (cur : N) : tres :=
  if (oldH <? cur) && (cur <? storeH) then
    match fuel with
    | O => TFuel
    | S f =>
      match time_at cur with
      | None => TErr
      | Some t => if (E <=? t)%Z then TVal cur else scan f E oldH storeH time_at (cur + 1)
      end
    end
  else TVal cur.

(** headersToStore, clamped to the number of headers between the old tail and the head *)
Definition clamp_count (k oldH headH : N) : N :=
  if sub64 headH oldH <=? k then sub64 headH oldH else k.

(** the estimate of findTailHeight: None = panic, Some None = "tail is relevant as
    is, or there is nothing to estimate a new one with" *)
Definition find_estimate (window block : Z) (oldH : N) (oldT : Z) (headH : N) (headT : Z)
  : option (option N) :=
  let E := (headT + wrapi64 (- window))%Z in
  let D := sat64 (E - oldT) in
  if (D <=? 0)%Z || (block <=? 0)%Z || (headH <=? oldH) then Some None
  else if (window <=? D)%Z then
    match div64 window block with
    | None => None
    | Some q => Some (Some (sub64 headH (clamp_count (u64 q) oldH headH)))
    end
  else
    match div64 D block with
    | None => None
    | Some q => Some (Some (wrap64 (oldH + clamp_count (u64 q) oldH headH)))
    end.

(** findTailHeight: estimate, cap at store head + 1, walk down, walk up *)
Definition find_tail (window block : Z) (oldH : N) (oldT : Z) (headH : N) (headT : Z)
           (storeH : N) (time_at : N -> option Z) : tres :=
  match find_estimate window block oldH oldT headH headT with
  | None => TPanic
  | Some None => TVal oldH
  | Some (Some e0) =>
    let E := (headT + wrapi64 (- window))%Z in
    (* only what is stored can be examined and pruned: start at most right above the store's head *)
    let e := if wrap64 (storeH + 1) <? e0 then wrap64 (storeH + 1) else e0 in
    match scan_down (S (N.to_nat (e - oldH))) E oldH storeH time_at e with
    | TVal c => scan (S (N.to_nat (storeH - c))) E oldH storeH time_at c
    | r => r
    end
  end.

(** tailHeight; [old] = (height, time) of the store's tail, None for an empty store *)
Definition tail_height (p : params) (old : option (N * Z)) (headH : N) (headT : Z)
           (storeH : N) (time_at : N -> option Z) : tres :=
  if 0 <? p_from p then TVal (p_from p)
  else match old with
       | None => estimate_tail (p_trusting p) (p_block p) headH
       | Some (oh, ot) => find_tail (p_window p) (p_block p) oh ot headH headT storeH time_at
       end.

(** * renewTail, moveTail, subjectiveTail over the abstract store *)
Inductive outcome := OOk | OErr | OPanic | OInvalid.

(** what a run shows: the result of Start, the heights asked from the network by
    GetByHeight, the store at quiescence *)
Record obs := Obs { o_out : outcome; o_req : list N; o_store : store }.

(** why a run ended the way it did (not observable; used to state theorems and
    to classify known findings) *)
Inductive why :=
| WDone            (* the tail was recomputed and moved *)
| WNoCall          (* no new network head: the tail is not recomputed *)
| WInvalid         (* Validate rejected the parameters *)
| WInitExpired     (* the only head the network offers is expired *)
| WDivZero         (* blockTime = 0 reached a division *)
| WScan            (* a store lookup of the upward scan failed *)
| WZero            (* tail height 0: Store.GetByHeight(0) *)
| WFetch           (* the network has no header for the tail height / hash *)
| WDelete.         (* Store.DeleteRange refused to move the tail up (unreachable from a well-formed store) *)

(** moveTail(from = old tail, to = x) once the header x is in the store *)
Definition move_tail (st : store) (old : option N) (x : N) : outcome * store * why :=
  match old with
  | None => (OOk, st, WDone)
  | Some t =>
    if t <? x then
      if wrap64 (s_head st + 1) <? x then
        (* restartFromTail: the new tail (already appended as a detached header) lies above
           everything stored: the whole chain is deleted and the store starts over from it *)
        match st_delete_range st t (wrap64 (s_head st + 1)) with
        | Some st' => (OOk, st_append st' x, WDone)
        | None => (OErr, st, WDelete)
        end
      else
      match st_delete_range st t x with
      | Some st' => (OOk, st', WDone)
      | None => (OErr, st, WDelete)
      end
    else if x <? t then
      (* doSync re-fetches (x .. t] in chunks through syncStore.Append; the last
         header t is the store's tail (and, for a single-header store, its head):
         syncStore.Append accepts the current head again *)
      (OOk, st_sync_down st x, WDone)
    else (OOk, st, WDone)
  end.

Definition moved (req : list N) (r : outcome * store * why) : obs * why :=
  let '(o, st, w) := r in (Obs o req st, w).

(** the new tail x comes from the network: it is appended (forced when not adjacent) *)
Definition fetch_tail (times : list Z) (st : store) (old : option N) (x : N) (req : list N) : obs * why :=
  if in_chain times x then moved req (move_tail (st_append st x) old x)
  else (Obs OErr req st, WFetch).

(** subjectiveTail(head = the network head); [st] is the store at the call *)
Definition subjective_tail (p : params) (times : list Z) (st : store) : obs * why :=
  let n := net_head times in
  let old := if st_empty st then None else Some (s_tail st) in
  match p_hash p with
  | HBadHex => (Obs OErr [] st, WInvalid)
  | HAt k =>
    if match old with Some t => (k =? t) && in_chain times k | None => false end
    then (Obs OOk [] st, WDone)                           (* tail hash unchanged *)
    else if in_chain times k && st_has st k
    then moved [] (move_tail st old k)                    (* found in the store *)
    else fetch_tail times st old k []                     (* getter.Get(hash) *)
  | HNone =>
    let oldp := match old with
                | Some t => match tm times t with Some t0 => Some (t, t0) | None => None end
                | None => None
                end in
    let headT := match tm times n with Some t => t | None => 0%Z end in
    let time_at := fun h => if st_has st h then tm times h else None in
    match tail_height p oldp n headT (st_height st) time_at with
    | TPanic => (Obs OPanic [] st, WDivZero)
    | TErr | TFuel => (Obs OErr [] st, WScan)
    | TVal x =>
      if (x <=? st_height st) && (x =? 0) then (Obs OErr [] st, WZero)   (* GetByHeight(0) *)
      else if (x <=? st_height st) && st_has st x
      then moved [] (move_tail st old x)
      else fetch_tail times st old x [x]
    end
  end.

(** * Start() of a fresh Syncer: Head -> networkHead -> subjectiveHead *)
Definition expired (p : params) (now : Z) (t : Z) : bool := (0 <? now - (t + p_trusting p))%Z.
Definition recent (p : params) (now : Z) (t : Z) : bool :=
  let thr := if (p_recency p =? 0)%Z then wrapi64 (p_block p * 3) else p_recency p in
  (now - (t + thr) <=? 0)%Z.
Definition tm0 (times : list Z) (h : N) : Z := match tm times h with Some t => t | None => 0%Z end.

(** after a successful subjectiveTail: incomingNetworkHead(net head) verifies it
    against the local head and the sync loop fetches up to it *)
Definition adopt_head (times : list Z) (st : store) : store :=
  let n := net_head times in
  if (s_head st <? n) && (tm0 times (s_head st) <=? tm0 times n)%Z then st_sync_up st n else st.

(** does Start recompute the tail, and on which store? [inl w]: no, for reason w;
    [inr (init, st1)]: yes, on store st1, after a subjective (re)initialisation or not *)
Definition start_call (p : params) (times : list Z) (now : Z) (st : store) : why + bool * store :=
  if negb (params_valid p) then inl WInvalid else
  let n := net_head times in
  let init := if st_empty st then true else expired p now (tm0 times (s_head st)) in
  if init then
    if expired p now (tm0 times n) then inl WInitExpired else inr (true, st)
  else
    if recent p now (tm0 times (s_head st)) then inl WNoCall
    else if n <=? s_head st then inl WNoCall
    else
      (* setLocalHead: an adjacent head is written at once, any other goes to pending *)
      inr (false, if n =? s_head st + 1 then st_append st n else st).

Definition start_run (p : params) (times : list Z) (now : Z) (st : store) : obs * why :=
  match start_call p times now st with
  | inl WInvalid => (Obs OInvalid [] st, WInvalid)
  | inl WInitExpired => (Obs OErr [] st, WInitExpired)
  | inl w => (Obs OOk [] st, w)
  | inr (init, st1) =>
    let '(o, w) := subjective_tail p times st1 in
    match o_out o with
    | OOk => (Obs OOk (o_req o)
                  (if init then adopt_head times (o_store o) else st_sync_up (o_store o) (net_head times)), w)
    | _ => (o, w)
    end
  end.

Definition start_step (p : params) (times : list Z) (now : Z) (st : store) : obs :=
  fst (start_run p times now st).

(** * Faults of the environment inside subjectiveTail (second follow-up)

    The getter and the store may fail: [FGet k] fails the k-th getter call made
    while subjectiveTail runs (the fetch of the new tail by Get / GetByHeight is
    call 0 when it happens, the GetRangeByHeight chunks of the downward doSync
    follow), [FWrite k] fails the k-th store write (Store.Append / DeleteRange
    reaching the underlying store; a failing write has no effect). The functions
    below return [Some o] when the fault fires (o = the observation of the failed
    call) and [None] when subjectiveTail ends before the k-th call is made: the
    run is then the unfaulted one. *)
Inductive fault := FNone | FGet (k : nat) | FWrite (k : nat).
Definition fget (f : fault) (k : nat) : bool := match f with FGet j => Nat.eqb j k | _ => false end.
Definition fwrite (f : fault) (k : nat) : bool := match f with FWrite j => Nat.eqb j k | _ => false end.

Fixpoint hseq (lo : N) (k : nat) : list N :=
  match k with O => [] | S m => lo :: hseq (lo + 1) m end.
(** Store.Append of the chain headers lo..hi *)
Definition st_append_range (st : store) (lo hi : N) : store :=
  fold_left st_append (hseq lo (N.to_nat (hi + 1 - lo))) st.

(** header.MaxRangeRequestSize *)
Definition chunk_size : N := 64.

(** requestHeaders of the downward doSync: (cur .. t] in chunks, one getter call
    and one write per chunk; g getter calls and w writes were made before *)
Fixpoint down_fault (fuel : nat) (f : fault) (g w : nat) (st : store) (cur t : N) : option store :=
  match fuel with
  | O => None
  | S fu =>
    if t <=? cur then None
    else if fget f g || fwrite f w then Some st
    else let hi := N.min (cur + chunk_size) t in
         down_fault fu f (S g) (S w) (st_append_range st (cur + 1) hi) hi t
  end.

(** moveTail with a fault; None: no fault fired *)
Definition move_fault (f : fault) (g w : nat) (st : store) (old : option N) (x : N) : option store :=
  match old with
  | None => None
  | Some t =>
    if t <? x then
      if fwrite f w then Some st
      else if wrap64 (s_head st + 1) <? x then
        match st_delete_range st t (wrap64 (s_head st + 1)) with
        | Some st' => if fwrite f (S w) then Some st' else None
        | None => None
        end
      else None
    else if x <? t then down_fault (S (N.to_nat (t - x))) f g w st x t
    else None
  end.

Definition failed (req : list N) (r : option store) : option obs :=
  match r with Some st => Some (Obs OErr req st) | None => None end.

Definition fetch_fault (f : fault) (times : list Z) (st : store) (old : option N) (x : N) (req : list N) : option obs :=
  if fget f 0 then Some (Obs OErr req st)
  else if in_chain times x then
    if fwrite f 0 then Some (Obs OErr req st)
    else failed req (move_fault f 1 1 (st_append st x) old x)
  else None.

Definition subjective_tail_fault (f : fault) (p : params) (times : list Z) (st : store) : option obs :=
  let n := net_head times in
  let old := if st_empty st then None else Some (s_tail st) in
  match p_hash p with
  | HBadHex => None
  | HAt k =>
    if match old with Some t => (k =? t) && in_chain times k | None => false end
    then None
    else if in_chain times k && st_has st k
    then failed [] (move_fault f 0 0 st old k)
    else fetch_fault f times st old k []
  | HNone =>
    let oldp := match old with
                | Some t => match tm times t with Some t0 => Some (t, t0) | None => None end
                | None => None
                end in
    let headT := match tm times n with Some t => t | None => 0%Z end in
    let time_at := fun h => if st_has st h then tm times h else None in
    match tail_height p oldp n headT (st_height st) time_at with
    | TVal x =>
      if (x <=? st_height st) && (x =? 0) then None
      else if (x <=? st_height st) && st_has st x
      then failed [] (move_fault f 0 0 st old x)
      else fetch_fault f times st old x [x]
    | _ => None
    end
  end.

(** Start() with a fault inside the recomputation of the tail *)
Definition start_step_f (f : fault) (p : params) (times : list Z) (now : Z) (st : store) : obs :=
  match start_call p times now st with
  | inr (_, st1) =>
    match subjective_tail_fault f p times st1 with
    | Some o => o
    | None => start_step p times now st
    end
  | inl _ => start_step p times now st
  end.

(** * The gossip verifier closure registered by Start (sync/syncer.go)

    incomingNetworkHead(h) verifies the new network head h against the local head
    and makes it the sync target (an adjacent head is stored at once); then
    subjectiveTail(h) recomputes the tail, its error is only logged. The closure
    fails only when the verification refuses h. *)
Definition gossip_step (p : params) (times : list Z) (st : store) : obs :=
  let n := net_head times in
  if negb (st_empty st) && (s_head st <? n) && (tm0 times (s_head st) <=? tm0 times n)%Z then
    let '(o, _) := subjective_tail p times (st_sync_up st n) in
    match o_out o with
    | OPanic => o
    | _ => Obs OOk (o_req o) (o_store o)
    end
  else Obs OErr [] st.

(** * The other requests of subjectiveTail: Get(hash) and the GetRangeByHeight
    chunks of the downward sync, in order, up to the call that fails *)
Inductive greq := GHash (k : N) | GRange (from to : N).

Fixpoint down_reqs (fuel : nat) (f : fault) (g w : nat) (cur t : N) : list greq :=
  match fuel with
  | O => []
  | S fu =>
    if t <=? cur then []
    else let hi := N.min (cur + chunk_size) t in
         GRange cur (hi + 1) ::
           (if fget f g || fwrite f w then [] else down_reqs fu f (S g) (S w) hi t)
  end.

Definition move_reqs (f : fault) (g w : nat) (old : option N) (x : N) : list greq :=
  match old with
  | Some t => if x <? t then down_reqs (S (N.to_nat (t - x))) f g w x t else []
  | None => []
  end.

Definition fetch_reqs (f : fault) (times : list Z) (old : option N) (x : N) : list greq :=
  if fget f 0 then []
  else if in_chain times x then if fwrite f 0 then [] else move_reqs f 1 1 old x
  else [].

Definition tail_reqs (f : fault) (p : params) (times : list Z) (st : store) : list greq :=
  let n := net_head times in
  let old := if st_empty st then None else Some (s_tail st) in
  match p_hash p with
  | HBadHex => []
  | HAt k =>
    if match old with Some t => (k =? t) && in_chain times k | None => false end
    then []
    else if in_chain times k && st_has st k
    then move_reqs f 0 0 old k
    else GHash (if in_chain times k then k else 0) :: fetch_reqs f times old k
  | HNone =>
    let oldp := match old with
                | Some t => match tm times t with Some t0 => Some (t, t0) | None => None end
                | None => None
                end in
    let headT := match tm times n with Some t => t | None => 0%Z end in
    let time_at := fun h => if st_has st h then tm times h else None in
    match tail_height p oldp n headT (st_height st) time_at with
    | TVal x =>
      if (x <=? st_height st) && (x =? 0) then []
      else if (x <=? st_height st) && st_has st x
      then move_reqs f 0 0 old x
      else fetch_reqs f times old x
    | _ => []
    end
  end.

Definition start_reqs (f : fault) (p : params) (times : list Z) (now : Z) (st : store) : list greq :=
  match start_call p times now st with
  | inr (_, st1) => tail_reqs f p times st1
  | inl _ => []
  end.
