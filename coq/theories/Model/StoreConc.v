(** Concurrent use of the Store at the granularity of the code's own
    synchronisation: all Appends are serialised by the [writes] channel into
    the single flush goroutine; readers (Head, Height, GetByHeight, Get) may run
    between any two of its synchronised steps. [flush_micro] lists the states a
    reader can observe while one queued batch is flushed:
      pending.Append | ensureInit | advanceHead | recedeTail | batch.Commit | pending.Reset *)
From Coq Require Import NArith List Bool.
From stdpp Require Import gmap.
From GH Require Import Base.Prelude Model.Store.
Import ListNotations.
Open Scope N_scope.

Definition flush_micro (s : st) (o : option (list hdr)) : list st :=
  let hs := match o with Some l => l | None => [] end in
  let s1 := pend_add s hs in
  let s2 := ensure_init s1 hs in
  let s3 := advance_head s2 in
  let s4 := recede_tail s3 in
  if (N.of_nat (size (pend_h s4)) <? batch s4) && (match o with Some _ => true | None => false end)
  then [s1; s2; s3; s4]
  else if (size (pend_h s4) =? 0)%nat then [s1; s2; s3; s4]
  else let s5 := write s4 (commit_ops s4) in [s1; s2; s3; s4; s5; set_pend s5 ∅ ∅].

(** all states observable while the queue [q] (in channel order) is drained, starting from [s] *)
Fixpoint conc_run (s : st) (q : list (list hdr)) : list st :=
  match q with
  | [] => []
  | hs :: r =>
    match hs with
    | [] => conc_run s r               (* Append of nothing does not reach the queue *)
    | _ => let ms := flush_micro s (Some hs) in ms ++ conc_run (last ms s) r
    end
  end.

(** the sequential execution of the same appends *)
Definition seq_run (s : st) (q : list (list hdr)) : st :=
  fold_left (fun s hs => fst (append s hs)) q s.

(** what a reader observes in one state *)
Record robs17 := RObs17 {
  o_head : option (N * N);        (* Head(): height, id *)
  o_height : N;                    (* Height() *)
  o_head_by_height : bool;         (* GetByHeight(Head().Height()) returns that header *)
  o_head_by_hash : bool }.         (* Get(Head().Hash()) returns that header *)

Definition found_same (r : res hdr) (h : hdr) : bool :=
  match r with Found h' => (h_id h' =? h_id h) && (h_height h' =? h_height h) | _ => false end.

Definition observe17 (s : st) : robs17 :=
  match headp s with
  | None => RObs17 None (hsh s) true true
  | Some h => RObs17 (Some (h_height h, h_id h)) (hsh s)
                     (found_same (get_by_height s (h_height h)) h) (found_same (get s (h_id h)) h)
  end.
