(** C12 — small-step interleaving model of Store.GetByHeight (readers),
    the flush closure of flushLoop (writer) and context cancellation, at the
    granularity of the code's own synchronisation points
    (store/store.go: GetByHeight, getByHeight, flushLoop/flush closure,
    ensureInit, advanceHead, recedeTail; store/heightsub.go: all), as of
    /repo 33d75f6: flush = pending.Append; ensureInit; Notify; advanceHead;
    recedeTail -- and heightSub.WaitFor looks the height up again after it
    has registered the caller (the repair of the lost wake-up, finding F5).

    Definitions only (no proofs). Self-contained abstraction of the store:
    head / tail pointers, one height->id map standing for pending+disk (the
    commit happens before pending.Reset, so a header is never in neither),
    heightSub.height, the heightSubs map. Heights are N (no wrap: heights
    below 2^64-1). [st_notified] is a GHOST field: no step function reads it. *)
From GH Require Import Base.Prelude.

(** result of GetByHeight, as the harness projects it *)
Inductive res :=
| RFound (id : N)     (* header returned, nil error *)
| RNotFound           (* header.ErrNotFound *)
| RCtx                (* the context's error (wrapped "awaiting header ...") *)
| RZero.              (* "height must be bigger than zero" *)

(** where a registered waiter is inside heightSub.WaitFor *)
Inductive phase :=
| PRecheck            (* registered; next: present() = getByHeight again *)
| PDereg              (* present() was true; next: lock; notify(n, false); unlock; return nil *)
| PSelect.            (* in the select on the sub's channel and ctx.Done() *)

(** program counter of one GetByHeight call *)
Inductive rpc :=
| RStart              (* next: first getByHeight *)
| RCheck1             (* first lookup failed; next: WaitFor's unlocked Height() >= n test *)
| RLocked             (* next: the critical section: re-check Height(), register in heightSubs *)
| RWait (ph : phase) (sig : bool)
                      (* registered (counted in the sub); sig = the sub's channel has been closed *)
| RLookup2            (* errElapsedHeight, present, or woken; next: final getByHeight *)
| RDone (r : res).

Record reader := Reader {
  r_n : N;            (* requested height *)
  r_pc : rpc;
  r_cancel : bool     (* its context has ended *)
}.

Definition hid := (N * N)%type.   (* a header: (height, hash id) *)

(** program counter of the flush goroutine inside flush(headers):
    pending.Append; ensureInit (head CAS, heightSub.Init, tail CAS); Notify;
    advanceHead (SetHeight); recedeTail; (commit, reset: no effect here) *)
Inductive wpc :=
| WIdle                               (* next: receive a batch from the writes channel *)
| WAppend (hs : list hid)             (* next: pending.Append *)
| WEnsure (hs : list hid)             (* next: ensureInit's head CAS (and, if Head is set, the tail CAS) *)
| WInitStore (hs : list hid) (h0 : N) (* heightSub.Init: next: height.Store(h0) *)
| WInitNotify (hs : list hid) (h0 : N)(* heightSub.Init: next: lock; notify every sub below h0 *)
| WTail (hs : list hid)               (* next: ensureInit's tail CAS *)
| WNotify (hs : list hid)             (* next: heightSub.Notify(heights) (one critical section) *)
| WAdvance                            (* next: nextHead lookups + contiguousHead.Store *)
| WSetHeight (h : N)                  (* next: SetHeight's load + CAS *)
| WNotifyRange (c h : N)              (* next: lock; notify c..h *)
| WRecede.                            (* next: recedeTail *)

Record state := State {
  st_head : option hid;          (* contiguousHead *)
  st_tail : option hid;          (* tailHeader *)
  st_map : list hid;             (* pending + disk, newest first *)
  st_hsh : N;                    (* heightSub.height *)
  st_subs : list (N * nat);      (* heightSubs: height -> count (first match wins) *)
  st_readers : list reader;
  st_w : wpc;
  st_queue : list (list hid);    (* the writes channel, FIFO *)
  st_notified : list N           (* GHOST: heights announced by a completed Notify *)
}.

Definition set_head s v := State v (st_tail s) (st_map s) (st_hsh s) (st_subs s) (st_readers s) (st_w s) (st_queue s) (st_notified s).
Definition set_tail s v := State (st_head s) v (st_map s) (st_hsh s) (st_subs s) (st_readers s) (st_w s) (st_queue s) (st_notified s).
Definition set_map s v := State (st_head s) (st_tail s) v (st_hsh s) (st_subs s) (st_readers s) (st_w s) (st_queue s) (st_notified s).
Definition set_hsh s v := State (st_head s) (st_tail s) (st_map s) v (st_subs s) (st_readers s) (st_w s) (st_queue s) (st_notified s).
Definition set_subs s v := State (st_head s) (st_tail s) (st_map s) (st_hsh s) v (st_readers s) (st_w s) (st_queue s) (st_notified s).
Definition set_readers s v := State (st_head s) (st_tail s) (st_map s) (st_hsh s) (st_subs s) v (st_w s) (st_queue s) (st_notified s).
Definition set_w s v := State (st_head s) (st_tail s) (st_map s) (st_hsh s) (st_subs s) (st_readers s) v (st_queue s) (st_notified s).
Definition set_queue s v := State (st_head s) (st_tail s) (st_map s) (st_hsh s) (st_subs s) (st_readers s) (st_w s) v (st_notified s).
Definition set_notified s v := State (st_head s) (st_tail s) (st_map s) (st_hsh s) (st_subs s) (st_readers s) (st_w s) (st_queue s) v.

(** ** the store as getByHeight sees it: head pointer, tail pointer, pending, disk *)
Definition ptr_get (p : option hid) (n : N) : option N :=
  match p with
  | Some (h, id) => if h =? n then Some id else None
  | None => None
  end.

Fixpoint map_get (m : list hid) (n : N) : option N :=
  match m with
  | [] => None
  | (h, id) :: r => if h =? n then Some id else map_get r n
  end.

Definition lookup (s : state) (n : N) : option N :=
  match ptr_get (st_head s) n with
  | Some i => Some i
  | None =>
    match ptr_get (st_tail s) n with
    | Some i => Some i
    | None => map_get (st_map s) n
    end
  end.

(** ** heightSubs *)
Fixpoint sub_get (l : list (N * nat)) (n : N) : option nat :=
  match l with
  | [] => None
  | (h, c) :: r => if h =? n then Some c else sub_get r n
  end.

Definition sub_del (l : list (N * nat)) (n : N) : list (N * nat) :=
  filter (fun p => negb (fst p =? n)) l.

Definition sub_set (l : list (N * nat)) (n : N) (c : nat) : list (N * nat) :=
  (n, c) :: sub_del l n.

Definition has_sub (l : list (N * nat)) (n : N) : bool :=
  match sub_get l n with Some _ => true | None => false end.

(** closing a sub's channel: every reader selecting on it becomes signalled *)
Definition signal (p : N -> bool) (r : reader) : reader :=
  match r_pc r with
  | RWait ph false => if p (r_n r) then Reader (r_n r) (RWait ph true) (r_cancel r) else r
  | _ => r
  end.

(** notify(h, true) for every h with [p h] (one critical section): existing
    subs are closed and deleted; heights without a sub are skipped *)
Definition notify_all (p : N -> bool) (s : state) : state :=
  let subs := st_subs s in
  let hit := fun n => p n && has_sub subs n in
  set_readers (set_subs s (filter (fun q => negb (p (fst q))) subs))
              (map (signal hit) (st_readers s)).

(** notify(n, false), called by a cancelled waiter: count--, close + delete
    only when the count reaches zero *)
Definition notify_one (n : N) (s : state) : state :=
  match sub_get (st_subs s) n with
  | None => s
  | Some c =>
    if Nat.eqb (Nat.pred c) 0
    then notify_all (fun h => h =? n) s
    else set_subs s (sub_set (st_subs s) n (Nat.pred c))
  end.

Definition mem (n : N) (l : list N) : bool := existsb (N.eqb n) l.

(** ** readers *)
Fixpoint upd {A} (l : list A) (i : nat) (x : A) : list A :=
  match l, i with
  | [], _ => []
  | _ :: r, O => x :: r
  | a :: r, S j => a :: upd r j x
  end.

Definition set_reader (s : state) (i : nat) (r : reader) : state :=
  set_readers s (upd (st_readers s) i r).

Definition with_pc (r : reader) (pc : rpc) : reader := Reader (r_n r) pc (r_cancel r).

(** the ctx.Done() branch of the select: lock; notify(n, false); unlock; return ctx.Err() *)
Definition ctx_branch (s : state) (i : nat) (r : reader) : state :=
  notify_one (r_n r) (set_reader s i (with_pc r (RDone RCtx))).

(** present() was true: lock; notify(n, false); unlock; return nil *)
Definition dereg_branch (s : state) (i : nat) (r : reader) : state :=
  notify_one (r_n r) (set_reader s i (with_pc r RLookup2)).

Definition lookup_res (s : state) (n : N) : res :=
  match lookup s n with Some id => RFound id | None => RNotFound end.

(** one step of reader i; [ctxfirst] = the select takes ctx.Done() when both are ready *)
Definition rstep (ctxfirst : bool) (s : state) (i : nat) : state :=
  match nth_error (st_readers s) i with
  | None => s
  | Some r =>
    let n := r_n r in
    match r_pc r with
    | RStart =>
      if n =? 0 then set_reader s i (with_pc r (RDone RZero))
      else match lookup s n with
           | Some id => set_reader s i (with_pc r (RDone (RFound id)))
           | None => set_reader s i (with_pc r RCheck1)
           end
    | RCheck1 =>
      if n <=? st_hsh s then set_reader s i (with_pc r RLookup2)
      else set_reader s i (with_pc r RLocked)
    | RLocked =>
      if n <=? st_hsh s then set_reader s i (with_pc r RLookup2)
      else
        let c := match sub_get (st_subs s) n with Some c => c | None => O end in
        set_subs (set_reader s i (with_pc r (RWait PRecheck false)))
                 (sub_set (st_subs s) n (S c))
    | RWait PRecheck sig =>
      match lookup s n with
      | Some _ => set_reader s i (with_pc r (RWait PDereg sig))
      | None => set_reader s i (with_pc r (RWait PSelect sig))
      end
    | RWait PDereg sig => dereg_branch s i r
    | RWait PSelect sig =>
      if r_cancel r && (ctxfirst || negb sig) then ctx_branch s i r
      else if sig then set_reader s i (with_pc r RLookup2)
      else s
    | RLookup2 => set_reader s i (with_pc r (RDone (lookup_res s n)))
    | RDone _ => s
    end
  end.

Definition cancel (s : state) (i : nat) : state :=
  match nth_error (st_readers s) i with
  | None => s
  | Some r => set_reader s i (Reader (r_n r) (r_pc r) true)
  end.

(** ** the writer *)
Definition opt_or {A} (a : option A) (b : A) : option A :=
  match a with Some _ => a | None => Some b end.

(** nextHead: walk up while getByHeight(cur+1) succeeds *)
Fixpoint adv_up (s : state) (fuel : nat) (cur : hid) : hid :=
  match fuel with
  | O => cur
  | S f =>
    match lookup s (fst cur + 1) with
    | Some id => adv_up s f (fst cur + 1, id)
    | None => cur
    end
  end.

(** nextTail: walk down while getByHeight(cur-1) succeeds *)
Fixpoint adv_down (s : state) (fuel : nat) (cur : hid) : hid :=
  match fuel with
  | O => cur
  | S f =>
    if fst cur =? 0 then cur
    else match lookup s (fst cur - 1) with
         | Some id => adv_down s f (fst cur - 1, id)
         | None => cur
         end
  end.

Definition fuel_of (s : state) : nat := S (S (length (st_map s))).

Definition in_range (c h n : N) : bool := (c <=? n) && (n <=? h).

Definition wstep (s : state) : state :=
  match st_w s with
  | WIdle =>
    match st_queue s with
    | [] => s
    | hs :: q => set_w (set_queue s q) (WAppend hs)
    end
  | WAppend hs => set_w (set_map s (rev_append hs (st_map s))) (WEnsure hs)
  | WEnsure hs =>
    match hs with
    | [] => set_w s (WNotify hs)
    | h0 :: _ =>
      match st_head s with
      | None => set_w (set_head s (Some h0)) (WInitStore hs (fst h0))
      | Some _ => set_w (set_tail s (opt_or (st_tail s) h0)) (WNotify hs)
      end
    end
  | WInitStore hs h0 => set_w (set_hsh s h0) (WInitNotify hs h0)
  | WInitNotify hs h0 => set_w (notify_all (fun h => h <? h0) s) (WTail hs)
  | WTail hs =>
    match hs with
    | [] => set_w s (WNotify hs)
    | h0 :: _ => set_w (set_tail s (opt_or (st_tail s) h0)) (WNotify hs)
    end
  | WNotify hs =>
    let hts := map fst hs in
    let s1 := notify_all (fun h => mem h hts) s in
    set_w (set_notified s1 (hts ++ st_notified s1)) WAdvance
  | WAdvance =>
    match st_head s with
    | None => set_w s WRecede
    | Some cur =>
      let nh := adv_up s (fuel_of s) cur in
      if fst nh =? fst cur then set_w s WRecede
      else set_w (set_head s (Some nh)) (WSetHeight (fst nh))
    end
  | WSetHeight h =>
    if h <=? st_hsh s then set_w s WRecede
    else set_w (set_hsh s h) (WNotifyRange (st_hsh s) h)
  | WNotifyRange c h => set_w (notify_all (in_range c h) s) WRecede
  | WRecede =>
    match st_tail s with
    | None => set_w s WIdle
    | Some cur => set_w (set_tail s (Some (adv_down s (fuel_of s) cur))) WIdle
    end
  end.

(** ** schedules *)
Inductive event :=
| Rd (i : nat)       (* reader i takes its next step (signal preferred in the select) *)
| RdCtx (i : nat)    (* same, but the select prefers ctx.Done() when both cases are ready *)
| Cancel (i : nat)   (* the environment ends reader i's context *)
| Wr                 (* the flush goroutine takes its next step *)
| Enq (hs : list hid). (* Store.Append(hs): the batch enters the writes channel *)

Definition step (s : state) (e : event) : state :=
  match e with
  | Rd i => rstep false s i
  | RdCtx i => rstep true s i
  | Cancel i => cancel s i
  | Wr => wstep s
  | Enq hs => match hs with [] => s | _ => set_queue s (st_queue s ++ [hs]) end
  end.

Definition run (sched : list event) (s : state) : state := fold_left step sched s.

Definition hsh_of (hd : option hid) : N := match hd with Some (h, _) => h | None => 0 end.

(** a started store: head/tail pointers and contents as loaded by init()
    (heightSub.Init(head height)), or empty; [ns] = requested heights of the
    readers that will call GetByHeight; [q] = the batches that will be appended *)
Definition init (hd tl : option hid) (m : list hid) (ns : list N) (q : list (list hid)) : state :=
  State hd tl m (hsh_of hd) [] (map (fun n => Reader n RStart false) ns) WIdle q [].

(** ** projections used by theorems and the oracle *)
(** registered in heightSubs and its sub still open *)
Definition parked (r : reader) : bool :=
  match r_pc r with RWait _ false => true | _ => false end.

(** blocked: in the select, sub open (only a notification or its context ending continues it) *)
Definition blocked (r : reader) : bool :=
  match r_pc r with RWait PSelect false => true | _ => false end.

Definition done_res (r : reader) : option res :=
  match r_pc r with RDone x => Some x | _ => None end.

Definition writer_idle (s : state) : bool :=
  match st_w s, st_queue s with WIdle, [] => true | _, _ => false end.

(** all headers ever handed to the store: initial contents, the initial queue
    and every batch enqueued by the schedule *)
Fixpoint enqueued (sched : list event) : list hid :=
  match sched with
  | [] => []
  | Enq hs :: r => hs ++ enqueued r
  | _ :: r => enqueued r
  end.

Definition opt_list {A} (o : option A) : list A := match o with Some x => [x] | None => [] end.

Definition appended_init (hd tl : option hid) (m : list hid) (q : list (list hid)) : list hid :=
  opt_list hd ++ opt_list tl ++ m ++ concat q.

(** facts about a schedule alone *)
Fixpoint cancelled_in (sched : list event) (i : nat) : bool :=
  match sched with
  | [] => false
  | Cancel j :: r => Nat.eqb i j || cancelled_in r i
  | _ :: r => cancelled_in r i
  end.

(** number of steps reader i takes in the schedule *)
Fixpoint rd_count (sched : list event) (i : nat) : nat :=
  match sched with
  | [] => O
  | Rd j :: r | RdCtx j :: r => (if Nat.eqb i j then 1 else 0) + rd_count r i
  | _ :: r => rd_count r i
  end.
