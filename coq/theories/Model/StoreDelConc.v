(** A tail-side [DeleteRange(from = Tail, to)] racing with appends at the head.

    Two actors over one shared [st] (Model/Store.v):

    * the flush goroutine ([fstep]): per queued batch the steps of the [flush] closure of
      flushLoop, as in Model/StoreConc.v ([flush_micro]), with the commit split where the code
      splits it: [Store.flush] first LOADS the pending headers and the two pointers
      (pending.GetAll, ptrMu.Lock, contiguousHead.Load, tailHeader.Load) and only later commits
      the batch built from them (batch.Commit, ptrMu.Unlock);
        pending.Append | ensureInit | advanceHead | recedeTail | load | batch.Commit | pending.Reset
    * the deleter ([dstep]): the steps of [Store.DeleteRange] for [from = Tail < to <= Head]
      at the granularity of its datastore operations and in-memory pointer updates:
        Sync (a [flush(nil)] run by the flush goroutine; the deleter waits for it)
        | Head() | Tail() + the bound checks | write batch / read transaction (deleteSequential)
        | per height: HashByHeight | OnDelete handlers (they only read) | Delete(hash key)
                      | Delete(height key) | caches + pending.DeleteRange
        | commit of the write batch
        | setTail: getByHeight(to) | ptrMu.Lock + tailHeader.Store | Put(tail key) | Head()
                   | Put(head key) + ptrMu.Unlock.
      [ptrMu] (repo commit 923f13e) makes the flush's "load | Commit" and setTail's "Store ... last
      pointer write" mutually exclusive: the flush goroutine cannot take its load step while the
      deleter is inside its section ([in_dsec]), the deleter cannot take its Store step while the
      flush goroutine is inside its own ([FCommit]); who holds the lock is determined by the two
      program counters, so it is not a field of the state.  advanceHead / recedeTail are outside
      the lock.  Before that commit both orders were possible and a stale head or tail pointer
      could be persisted (findings F27/F28; Props/C17.v keeps the two witness schedules).
      [ctxf] is the datastore flavour: with the plain datastore ([false]) the two deletes of a
      height hit the datastore together, as one batch of their own (deleteKeys); with the context-aware one ([true]) they are buffered in
      the write batch of [deleteSequential] and committed together, and [HashByHeight] reads the
      snapshot the read transaction took when [deleteSequential] started.

    A schedule is a list of actors; [run_sched] executes it.  Modelling decisions:
    * each [getByHeight] / [nextHead] / [nextTail] is one atomic read of the shared state (the
      heights they look at are not written by the other actor; in the context-aware flavour
      they do read one snapshot);
    * the Sync request is accepted when the flush goroutine is between two batches: how many
      batches were flushed before is the schedule's choice (the code drains the writes queued at
      that moment, i.e. a prefix of the queue chosen by the timing of the writers);
    * paths of DeleteRange other than the tail-side one (whole store, head side, malformed
      ranges) end in [KOther]; failing checks in [KFail]; the theorems exclude them;
    * as in Model/Store.v the two 2Q caches are not part of the state. *)
From Coq Require Import NArith List Bool.
From stdpp Require Import gmap.
From GH Require Import Base.Prelude Model.Store Model.StoreSpec Model.StoreConc.
Import ListNotations.
Open Scope N_scope.

(** ** the flush goroutine *)
Inductive fl :=
| FIdle                              (* between two batches *)
| FInit (o : option (list hdr))      (* pending.Append done; [None] = the flush(nil) of Sync *)
| FAdv (o : option (list hdr))       (* ensureInit done *)
| FRec (o : option (list hdr))       (* advanceHead done *)
| FLoad (nl : bool)                  (* recedeTail done and the batch is to be written *)
| FCommit (nl : bool) (ops : wop)    (* headers and pointers loaded, batch built *)
| FReset (nl : bool).                (* batch committed *)

Definition is_nil (f : fl) : bool :=
  match f with
  | FInit None | FAdv None | FRec None | FLoad true | FCommit true _ | FReset true => true
  | _ => false
  end.

Definition hs_of (o : option (list hdr)) : list hdr := match o with Some l => l | None => [] end.
Definition is_some {A} (o : option A) : bool := match o with Some _ => true | None => false end.

(** one step of the flush goroutine; the queue is in channel order *)
Definition fstep (s : st) (q : list (list hdr)) (f : fl) : option (st * list (list hdr) * fl) :=
  match f with
  | FIdle =>
    match q with
    | [] => None
    | [] :: r => Some (s, r, FIdle)                 (* Append of nothing does not reach the queue *)
    | hs :: r => Some (pend_add s hs, r, FInit (Some hs))
    end
  | FInit o => Some (ensure_init s (hs_of o), q, FAdv o)
  | FAdv o => Some (advance_head s, q, FRec o)
  | FRec o =>
    let s4 := recede_tail s in
    if (N.of_nat (size (pend_h s4)) <? batch s4) && is_some o then Some (s4, q, FIdle)
    else if (size (pend_h s4) =? 0)%nat then Some (s4, q, FIdle)
    else Some (s4, q, FLoad (negb (is_some o)))
  | FLoad nl => Some (s, q, FCommit nl (commit_ops s))
  | FCommit nl ops => Some (write s ops, q, FReset nl)
  | FReset nl => Some (set_pend s ∅ ∅, q, FIdle)
  end.

(** ** the deleter *)
Inductive dl :=
| KSync | KWait
| KLoadH                                  (* Head() *)
| KLoadT (hd : hdr)                       (* Tail() and the checks *)
| KBegin                                  (* deleteSequential: write batch, read transaction *)
| KLook (cur : N) (wb : wop) (snap : gmap N N)
| KHand (cur id : N) (wb : wop) (snap : gmap N N)
| KDelH (cur id : N) (wb : wop) (snap : gmap N N)
| KDelI (cur id : N) (wb : wop) (snap : gmap N N)
| KPend (cur : N) (wb : wop) (snap : gmap N N)
| KCommit (wb : wop)
| KGetT                                   (* setTail: getByHeight(to) *)
| KStoreT (nt : hdr)                      (* tailHeader.Store *)
| KPutT (nt : hdr)                        (* Put(tail key) *)
| KLoadH2 (nt : hdr)                      (* Head() *)
| KPutH (hd : hdr)                        (* Put(head key) *)
| KDone | KFail | KOther.

Section deleter.
Variables (from to : N) (ctxf : bool).

Definition k_next (cur : N) (wb : wop) (snap : gmap N N) : dl :=
  if cur + 1 <? to then KLook (cur + 1) wb snap else KCommit wb.

Definition dstep (s : st) (f : fl) (k : dl) : option (st * fl * dl) :=
  match k with
  | KSync => match f with FIdle => Some (s, FInit None, KWait) | _ => None end
  | KWait => if is_nil f then None else Some (s, f, KLoadH)
  | KLoadH => match headp s with Some hd => Some (s, f, KLoadT hd) | None => Some (s, f, KFail) end
  | KLoadT hd =>
    match tailp s with
    | None => Some (s, f, KFail)
    | Some tl =>
      let H := h_height hd in let T := h_height tl in
      if to <=? from then Some (s, f, KFail) else
      if (H <? from) || (to <=? T) then Some (s, f, KFail) else
      let uT := from =? T in
      let uH := to =? wrap64 (H + 1) in
      if uT && uH then Some (s, f, KOther)
      else if uT && (wrap64 (H + 1) <? to) then Some (s, f, KFail)
      else if uT then Some (s, f, KBegin)
      else Some (s, f, KOther)
    end
  | KBegin => Some (s, f, KLook from [] (if ctxf then d_idx s else ∅))
  | KLook cur wb snap =>
    match (if ctxf then snap else d_idx s) !! cur with
    | Some id => Some (s, f, KHand cur id wb snap)
    | None => match pend_h s !! cur with
              | Some h => Some (s, f, KHand cur (h_id h) wb snap)
              | None => Some (s, f, k_next cur wb snap)          (* counted as missing *)
              end
    end
  | KHand cur id wb snap => Some (s, f, KDelH cur id wb snap)
  | KDelH cur id wb snap =>
    (* deleteKeys: Delete(hash key) goes into a batch: the write batch of the pass, or one of its own *)
    if ctxf then Some (s, f, KDelI cur id (wb ++ [WDelH id]) snap)
    else Some (s, f, KDelI cur id wb snap)
  | KDelI cur id wb snap =>
    if ctxf then Some (s, f, KPend cur (wb ++ [WDelI cur]) snap)
    else Some (write s [WDelH id; WDelI cur], f, KPend cur wb snap)   (* ... committed with Delete(height key) *)
  | KPend cur wb snap => Some (pend_del s cur, f, k_next cur wb snap)
  | KCommit wb =>
    Some (match wb with [] => s | _ => write s wb end, f, KGetT)
  | KGetT => match nb s to with Found h => Some (s, f, KStoreT h) | _ => Some (s, f, KFail) end
  | KStoreT h =>
    match f with
    | FCommit _ _ => None                         (* ptrMu is held by the flush goroutine *)
    | _ => Some (set_tailp s (Some h), f, KPutT h)
    end
  | KPutT h => Some (write s [WPutTail (h_id h)], f, KLoadH2 h)
  | KLoadH2 h =>
    match headp s with
    | Some hd =>
      if h_height hd <? to
      then Some (put_head_ptr (advance_head (set_headp (write s [WPutHead (h_id h)]) (Some h))), f, KDone)
      else Some (s, f, KPutH hd)
    | None => Some (put_head_ptr (advance_head (set_headp (write s [WPutHead (h_id h)]) (Some h))), f, KDone)
    end
  | KPutH hd => Some (write s [WPutHead (h_id hd)], f, KDone)
  | KDone | KFail | KOther => None
  end.

(** ** interleavings *)
Record cfg := Cfg { c_st : st; c_q : list (list hdr); c_fl : fl; c_dl : dl }.

(** the deleter holds ptrMu *)
Definition in_dsec (k : dl) : bool :=
  match k with KPutT _ | KLoadH2 _ | KPutH _ => true | _ => false end.
Definition is_load (f : fl) : bool := match f with FLoad _ => true | _ => false end.

Definition fstep_c (x : cfg) : option cfg :=
  if is_load (c_fl x) && in_dsec (c_dl x) then None    (* ptrMu is held by the deleter *)
  else match fstep (c_st x) (c_q x) (c_fl x) with
       | Some (s, q, f) => Some (Cfg s q f (c_dl x))
       | None => None
       end.
Definition dstep_c (x : cfg) : option cfg :=
  match dstep (c_st x) (c_fl x) (c_dl x) with
  | Some (s, f, k) => Some (Cfg s (c_q x) f k)
  | None => None
  end.

(** one entry of a schedule: [true] = the deleter moves, [false] = the flush goroutine moves;
    an actor that cannot move (blocked or finished) leaves the turn to the other one *)
Definition step1 (a : bool) (x : cfg) : option cfg :=
  if a then match dstep_c x with Some y => Some y | None => fstep_c x end
  else match fstep_c x with Some y => Some y | None => dstep_c x end.

(** the configurations reached along a schedule (it stops when nobody can move) *)
Fixpoint run_sched (x : cfg) (sch : list bool) : list cfg :=
  match sch with
  | [] => []
  | a :: r => match step1 a x with Some y => y :: run_sched y r | None => [] end
  end.

Definition finished (x : cfg) : Prop :=
  c_q x = [] /\ c_fl x = FIdle /\ c_dl x = KDone.
Definition finishedb (x : cfg) : bool :=
  match c_q x, c_fl x, c_dl x with [], FIdle, KDone => true | _, _, _ => false end.

Definition cfg0 (s : st) (q : list (list hdr)) : cfg := Cfg s q FIdle KSync.

End deleter.

(** what a reader observes in one state of the race: [observe17], the tail, whether every
    height of [lo, Head] is readable by height and by hash, and the persisted pointers *)
Record dobs17 := DObs17 {
  do_r : robs17;
  do_tail : option (N * N);
  do_chain : bool;
  do_dhead : option N;
  do_dtail : option N }.

Definition readable (c : N -> hdr) (s : st) (n : N) : bool :=
  found_same (get_by_height s n) (c n) && found_same (get s (h_id (c n))) (c n).

Definition chain_readable (c : N -> hdr) (s : st) (lo : N) : bool :=
  match headp s with
  | None => true
  | Some h => forallb (readable c s) (seqN lo (N.to_nat (h_height h + 1 - lo)))
  end.

Definition observe17d (c : N -> hdr) (lo : N) (s : st) : dobs17 :=
  DObs17 (observe17 s) (option_map (fun h => (h_height h, h_id h)) (tailp s))
         (chain_readable c s lo) (d_head s) (d_tail s).
