(** Model of sync/ranges.go: [ranges] (the Syncer's cache of verified network
    heads awaiting storage) and [headerRange].

    A [headerRange] is a slice of headers plus the [start] height the code
    keeps next to it (updated by [Remove] only while the slice stays non-empty,
    so it can be stale for an empty range).  [ranges] is the slice of ranges;
    the Go code hands out pointers to ranges: the sync loop holds the pointer
    returned by [First] across [Get]/[Remove].  Only [First] (called by the sync
    loop) drops ranges, and only from the front; [Add] touches the last range or
    appends a new one.  So "the range [First] returned" is position 0 of the
    list for as long as the sync loop uses it, and the operations on it are
    modelled as operations on the head of the list.

    Slice expressions that Go would reject are explicit: [range_get] /
    [range_remove] return [None] when [rangeAmount] exceeds the slice length
    ([r.headers[amnt:]] panics; [r.headers[:amnt]] panics when amnt > cap and
    otherwise exposes an element beyond the length - both are "[None]" here). *)
From GH Require Import Base.Prelude.

Record hrange := HRange { r_hdrs : list hdr; r_start : N }.
Definition ranges := list hrange.

Definition len64 {A} (l : list A) : N := N.of_nat (length l).

Fixpoint last_opt {A} (l : list A) : option A :=
  match l with
  | [] => None
  | [a] => Some a
  | _ :: r => last_opt r
  end.

(** headerRange.Head(): zero H = None *)
Definition range_head (r : hrange) : option hdr := last_opt (r_hdrs r).

(** ranges.Head() *)
Definition ranges_head (rs : ranges) : option hdr :=
  match last_opt rs with
  | None => None
  | Some r => range_head r
  end.

Fixpoint append_last (h : hdr) (rs : ranges) : ranges :=
  match rs with
  | [] => []
  | [r] => [HRange (r_hdrs r ++ [h]) (r_start r)]
  | r :: t => r :: append_last h t
  end.

Definition new_range (h : hdr) : hrange := HRange [h] (h_height h).

(** ranges.Add(h) *)
Definition ranges_add (h : hdr) (rs : ranges) : ranges :=
  match ranges_head rs with
  | Some hd =>
    if h_height h <=? h_height hd then rs                       (* "rcvd headers in wrong order" *)
    else if h_height h =? wrap64 (h_height hd + 1) then append_last h rs
    else rs ++ [new_range h]
  | None => rs ++ [new_range h]
  end.

Definition range_empty (r : hrange) : bool := match r_hdrs r with [] => true | _ => false end.

(** ranges.First(): drops the leading empty ranges; the result's head (if any)
    is the range handed out *)
Fixpoint ranges_first (rs : ranges) : ranges :=
  match rs with
  | [] => []
  | r :: t => if range_empty r then ranges_first t else rs
  end.

(** headerRange.rangeAmount(end), uint64 arithmetic *)
Definition range_amount (start len e : N) : N :=
  if e <? start then 0
  else if e <? wrap64 (start + len) then wrap64 (sub64 e start + 1)   (* r.start+amnt > end *)
  else len.

(** headerRange.Get(end) *)
Definition range_get (e : N) (r : hrange) : option (list hdr) :=
  let a := range_amount (r_start r) (len64 (r_hdrs r)) e in
  if a <=? len64 (r_hdrs r) then Some (firstn (N.to_nat a) (r_hdrs r)) else None.

(** headerRange.Remove(end) *)
Definition range_remove (e : N) (r : hrange) : option hrange :=
  let a := range_amount (r_start r) (len64 (r_hdrs r)) e in
  if a <=? len64 (r_hdrs r) then
    let rest := skipn (N.to_nat a) (r_hdrs r) in
    Some (HRange rest (match rest with [] => r_start r | h :: _ => h_height h end))
  else None.

(** ranges.RemoveUpTo(height): Remove(height) on every range, under the ranges lock *)
Fixpoint ranges_remove_upto (e : N) (rs : ranges) : option ranges :=
  match rs with
  | [] => Some []
  | r :: t =>
    match range_remove e r, ranges_remove_upto e t with
    | Some r', Some t' => Some (r' :: t')
    | _, _ => None
    end
  end.

(** all headers held, in order *)
Definition ranges_all (rs : ranges) : list hdr := flat_map r_hdrs rs.
