(** Model of p2p/exchange.go: minHeadResponses, Exchange.request (as far as Head
    depends on it) and Exchange.Head. Definitions only.

    One call of Head asks [n] peers. Each peer's raw answer is a [resp]; the
    goroutine started for the peer turns it into what is sent on the channel
    ([answer]: request() succeeded? verified against the trusted head?); the
    collecting loop consumes the channel in ARRIVAL order ([head_loop]). The
    arrival order, which peers never answer, and the header type's own Verify
    are inputs. *)
From GH Require Import Base.Prelude Model.Verify.

(** minHeadResponses *)
Definition min_resp (n : nat) : nat :=
  if (n <=? 2)%nat then n else ((n * 2 + 2) / 3)%nat.

(** what a peer's stream yields: an error of sendMessage / a NOT_FOUND or unknown
    status / an undecodable body ([RFail]), or a decoded header *)
Inductive resp := RFail | RGot (h : hdr).

(** what the per-peer goroutine sends on the channel: the zero header, or a
    header with an optional soft verification error *)
Inductive ans := NoHdr | AHdr (h : hdr) (e : option verr).

(** validateChainID with ClientParameters.chainID ([None] = not configured) *)
Definition chain_ok (want : option N) (h : hdr) : bool :=
  match want with None => true | Some c => h_chain h =? c end.

(** Exchange.request for a head request: processResponses (status, decode,
    Validate) then validateChainID; any error makes Head send the zero header *)
Definition request (want : option N) (r : resp) : option hdr :=
  match r with
  | RFail => None
  | RGot h => if h_ok h && chain_ok want h then Some h else None
  end.

(** the body of the per-peer goroutine; [t] is HeadParams.TrustedHead
    ([h_nil t] = not given: the answer is not verified) *)
Definition answer (now drift : Z) (tv : hdr -> hdr -> tvres) (want : option N) (t : hdr) (r : resp) : ans :=
  match request want r with
  | None => NoHdr
  | Some h =>
    if h_nil t then AHdr h None else
    match Verify now drift tv t h with
    | None => AHdr h None
    | Some e => if ve_soft e then AHdr h (Some e) else NoHdr
    end
  end.

(** the three locals of the collecting loop: headers, counter, softErrs
    (both maps keyed by the hash) *)
Record st := St { s_hdrs : list hdr; s_cnt : list (N * nat); s_soft : list (N * verr) }.

Fixpoint cnt_get (id : N) (c : list (N * nat)) : nat :=
  match c with
  | [] => O
  | (i, k) :: r => if i =? id then k else cnt_get id r
  end.

Fixpoint cnt_incr (id : N) (c : list (N * nat)) : list (N * nat) :=
  match c with
  | [] => [(id, 1%nat)]
  | (i, k) :: r => if i =? id then (i, S k) :: r else (i, k) :: cnt_incr id r
  end.

(** softErrs[hash] = e overwrites: the newest binding is found first *)
Fixpoint soft_get (id : N) (s : list (N * verr)) : option verr :=
  match s with
  | [] => None
  | (i, e) :: r => if i =? id then Some e else soft_get id r
  end.

Definition soft_set (id : N) (e : option verr) (s : list (N * verr)) : list (N * verr) :=
  match e with Some v => (id, v) :: s | None => s end.

Definition st0 : st := St [] [] [].

Definition st_add (s : st) (h : hdr) (e : option verr) : st :=
  St (s_hdrs s ++ [h]) (cnt_incr (h_id h) (s_cnt s)) (soft_set (h_id h) e (s_soft s)).

(** what Head returns *)
Inductive outcome :=
| OHead (h : hdr) (e : option verr)   (* a header with a nil error or its soft error *)
| ONotFound                           (* zero header, ErrNotFound *)
| OCtx.                               (* zero header, ctx.Err() *)

Fixpoint max_height (l : list hdr) : N :=
  match l with
  | [] => 0
  | h :: r => N.max (h_height h) (max_height r)
  end.

(** after the loop: nobody supplied a header => ErrNotFound; else the highest.
    sort.Slice is not stable, so when several collected headers share the
    maximal height any of them may be headers[0]: the result is the list of
    ALLOWED outcomes. The error is looked up by the returned header's hash. *)
Definition finish (s : st) : list outcome :=
  match s_hdrs s with
  | [] => [ONotFound]
  | _ => map (fun h => OHead h (soft_get (h_id h) (s_soft s)))
             (filter (fun h => h_height h =? max_height (s_hdrs s)) (s_hdrs s))
  end.

(** the collecting loop: [k] iterations remain ("for range peers"), [used]
    answers were consumed so far, [arr] = the answers that will still arrive, in
    order. No further answer with iterations remaining = the context ends first. *)
Fixpoint head_loop (q k used : nat) (s : st) (arr : list ans) : nat * list outcome :=
  match k with
  | O => (used, finish s)
  | S k' =>
    match arr with
    | [] => (used, [OCtx])
    | NoHdr :: rest => head_loop q k' (S used) s rest
    | AHdr h e :: rest =>
      if h_nil h then head_loop q k' (S used) s rest else
      let s' := st_add s h e in
      if (q <=? cnt_get (h_id h) (s_cnt s'))%nat
      then (S used, [OHead h (soft_get (h_id h) (s_soft s'))])
      else head_loop q k' (S used) s' rest
    end
  end.

(** Head over the channel contents: [n] = len(peers). Returns the number of
    answers consumed when Head returned and the allowed outcomes. *)
Definition head_run (n : nat) (arr : list ans) : nat * list outcome :=
  head_loop (min_resp n) n O st0 arr.

Definition head_fold (n : nat) (arr : list ans) : list outcome := snd (head_run n arr).

(** Head over the peers' raw answers in arrival order *)
Definition Head (now drift : Z) (tv : hdr -> hdr -> tvres) (want : option N) (t : hdr)
           (n : nat) (resps : list resp) : nat * list outcome :=
  head_run n (map (answer now drift tv want t) resps).

(** peerTracker.getPeers(max): the loop appends before it tests len == max, so
    max = 0 returns every tracked peer *)
Definition get_peers_count (ntracked maxreq : nat) : nat :=
  if (maxreq =? 0)%nat then ntracked else Nat.min ntracked maxreq.

(** how many peers Head asks: the trusted peers; with a trusted head the tracked
    peers (up to maxUntrustedHeadRequests) if there are any *)
Definition asked_count (with_head : bool) (ntrusted ntracked maxreq : nat) : nat :=
  if with_head && negb (get_peers_count ntracked maxreq =? 0)%nat
  then get_peers_count ntracked maxreq else ntrusted.

(** ** answers as streams of frames, each with its own arrival time *)

(** sendMessage: "for i := 0; i < req.Amount; i++ { serde.Read }", then the
    stream is closed: at most [amount] frames are ever read from a peer's
    stream, whatever the peer goes on writing *)
Definition read_frames (amount : nat) (frames : list resp) : list resp := firstn amount frames.

(** the head request has Amount 1: the first frame is the peer's answer (a
    stream that ends before any frame = processResponses fails on the empty
    list); a second frame is never read *)
Definition head_frame (frames : list resp) : resp :=
  match read_frames 1 frames with
  | [] => RFail
  | r :: _ => r
  end.

(** header.Verify reads the clock (time.Now) inside verify(), once per call: the
    per-peer goroutine judges its answer at the instant IT runs, not at the
    instant Head was called. A timed answer = (clock reading of that goroutine's
    Verify, what the stream yielded). *)
Definition answer_at (drift : Z) (tv : hdr -> hdr -> tvres) (want : option N) (t : hdr)
           (x : Z * resp) : ans :=
  answer (fst x) drift tv want t (snd x).

(** Head over the peers' timed answers in arrival order; [Head] is the special
    case in which every clock reading is the same (Proofs: Head_is_HeadT) *)
Definition HeadT (drift : Z) (tv : hdr -> hdr -> tvres) (want : option N) (t : hdr)
           (n : nat) (resps : list (Z * resp)) : nat * list outcome :=
  head_run n (map (answer_at drift tv want t) resps).

(** ... and over the peers' timed streams of frames *)
Definition HeadF (drift : Z) (tv : hdr -> hdr -> tvres) (want : option N) (t : hdr)
           (n : nat) (arr : list (Z * list resp)) : nat * list outcome :=
  HeadT drift tv want t n (map (fun x => (fst x, head_frame (snd x))) arr).
