(** Model of the single-header client path of p2p.Exchange:
      Exchange.Get / Exchange.GetByHeight            (p2p/exchange.go)
        -> performRequest  (parallel requests to all trusted peers, first valid answer wins)
        -> request         (sendMessage, processResponses, validateChainID)
        -> sendMessage     (p2p/helpers.go: read at most Amount frames; EOF is a clean end)
        -> processResponses (p2p/session.go, package-level function: empty => error,
                             status code, UnmarshalBinary, Validate)

    The model starts at the frames a peer's stream delivers (serde framing and
    protobuf decoding are exercised by the driver, not modelled).  What a peer
    sends, in which order the peers' answers arrive, when the caller's context
    ends and when the Exchange is stopped are INPUTS (an event list).  The
    header type's codec is a Section parameter [decode]; it may fail and it may
    panic ([DPanic]): processResponses itself has no recover ([Panic] there),
    but Exchange.request has a deferred recover that turns the panic into an
    ordinary error ([EPanic]), so such a response is just a bad answer.
    Definitions only; proofs are in Proofs/RequestP.v. *)
From GH Require Import Base.Prelude.

(** errors, as far as the code path distinguishes them *)
Inductive err :=
| ENotFound              (* header.ErrNotFound (status NOT_FOUND) *)
| EEmptyResp             (* errEmptyResponse: stream ended before the first frame *)
| EStatus (code : Z)     (* "unknown status code %d" *)
| EDecode                (* UnmarshalBinary failed *)
| EInvalid               (* Validate failed *)
| EChain                 (* validateChainID failed *)
| EHash                  (* Get: "incorrect hash in header" *)
| EHeightZero            (* GetByHeight(0) *)
| ENoPeers               (* "no trusted peers" *)
| ECtx                   (* the caller's context ended *)
| EStopped               (* the Exchange was stopped (ex.ctx) *)
| ETransport             (* NewStream / write / read error other than EOF *)
| EPanic.                (* "PANIC processing responses": recovered in Exchange.request *)

(** result of a Go call: value, error, panic, or never returns *)
Inductive res (A : Type) := Ok (a : A) | Err (e : err) | Panic | Blocks.
Arguments Ok {A} a.
Arguments Err {A} e.
Arguments Panic {A}.
Arguments Blocks {A}.

(** what H.UnmarshalBinary - and, for a body that decodes, H.Validate - does with a body:
    [DHdr h]: decodes to [h], Validate returns nil or an error ([h_ok h]);
    [DValPanic]: decodes, and Validate() on the decoded header PANICS (added last) *)
Inductive dres := DErr | DPanic | DHdr (h : hdr) | DValPanic.

(** p2p_pb.StatusCode is an int32: INVALID = 0, OK = 1, NOT_FOUND = 2 *)
Definition status_OK : Z := 1.
Definition status_NOT_FOUND : Z := 2.

(** convertStatusCodeToError *)
Definition status_err (c : Z) : option err :=
  if (c =? status_OK)%Z then None
  else if (c =? status_NOT_FOUND)%Z then Some ENotFound
  else Some (EStatus c).

(** the request a peer receives *)
Inductive req := ReqHash (hash : N) (amount : N) | ReqOrigin (height : N) (amount : N).

Section Request.
  Variable B : Type.                 (* wire bodies *)
  Variable decode : B -> dres.       (* header.New[H]() ; UnmarshalBinary *)
  (** case folding of chain-id numbers: strings.EqualFold a b <-> fold a = fold b;
      chain number 0 is the empty string *)
  Variable fold : N -> N.

  Record frame := Frame { f_status : Z; f_body : B }.

  (** how a peer's stream ends after its well-formed frames: a clean EOF, or
      anything that makes serde.Read fail (reset, deadline, truncated varint or
      frame, oversized length, undecodable protobuf) *)
  Inductive ending := EndEOF | EndErr.

  (** what one trusted peer does with the request: the stream cannot be opened
      / the request cannot be written, or it delivers frames and then ends *)
  Inductive stream := SFail | SData (fs : list frame) (e : ending).

  (** what performRequest's select loop can observe next *)
  Inductive event := Arrive (s : stream) | CtxDone | ExStopped.

  (** sendMessage's read loop: at most [amount] frames; EOF is not an error;
      once [amount] frames are read the rest of the stream is never looked at.
      Result: frames read, and whether a read error occurred. *)
  Fixpoint read_frames (amount : nat) (fs : list frame) (e : ending) : list frame * bool :=
    match amount with
    | O => ([], false)
    | S a =>
      match fs with
      | [] => ([], match e with EndEOF => false | EndErr => true end)
      | f :: r => let '(l, x) := read_frames a r e in (f :: l, x)
      end
    end.

  (** processResponses, the loop over the frames *)
  Fixpoint process_frames (l : list frame) : res (list hdr) :=
    match l with
    | [] => Ok []
    | f :: r =>
      match status_err (f_status f) with
      | Some e => Err e
      | None =>
        match decode (f_body f) with
        | DPanic => Panic
        | DValPanic => Panic          (* hdr.Validate() panics: no recover in processResponses either *)
        | DErr => Err EDecode
        | DHdr h =>
          if h_ok h then
            match process_frames r with
            | Ok hs => Ok (h :: hs)
            | x => x
            end
          else Err EInvalid
        end
      end
    end.

  Definition process_responses (l : list frame) : res (list hdr) :=
    match l with
    | [] => Err EEmptyResp
    | _ => process_frames l
    end.

  (** validateChainID: want = "" accepts everything, otherwise strings.EqualFold *)
  Definition validate_chain (want have : N) : bool :=
    (want =? 0) || (fold want =? fold have).

  (** Exchange.request; its deferred recover() turns a panic of the codec or of
      Validate (inside processResponses) into an error *)
  Definition request (want : N) (amount : nat) (s : stream) : res (list hdr) :=
    match s with
    | SFail => Err ETransport
    | SData fs e =>
      let '(l, failed) := read_frames amount fs e in
      if failed then Err ETransport
      else
        match process_responses l with
        | Ok hs => if forallb (fun h => validate_chain want (h_chain h)) hs then Ok hs else Err EChain
        | Panic => Err EPanic          (* recover() *)
        | x => x
        end
    end.

  (** performRequest's collection loop: [k] iterations left, [last] = lastErr *)
  Fixpoint collect (want : N) (amount : nat) (k : nat) (evs : list event) (last : option err)
    : res (list hdr) :=
    match k with
    | O => match last with Some e => Err e | None => Ok [] (* return nil, nil *) end
    | S k' =>
      match evs with
      | [] => Blocks
      | CtxDone :: _ => Err ECtx
      | ExStopped :: _ => Err EStopped
      | Arrive s :: t =>
        match request want amount s with
        | Ok hs => Ok hs
        | Err e => collect want amount k' t (Some e)
        | Panic => Panic
        | Blocks => Blocks
        end
      end
    end.

  (** performRequest with [n] trusted peers *)
  Definition perform (want : N) (amount : nat) (n : nat) (evs : list event) : res (list hdr) :=
    match amount with
    | O => Ok []
    | S _ =>
      match n with
      | O => Err ENoPeers
      | S _ => collect want amount n evs None
      end
    end.

  (** headers[0] *)
  Definition first_header (r : res (list hdr)) : res hdr :=
    match r with
    | Ok [] => Panic            (* index out of range *)
    | Ok (h :: _) => Ok h
    | Err e => Err e
    | Panic => Panic
    | Blocks => Blocks
    end.

  (** Exchange.Get.  [Err e] stands for (zero, e); [Ok h] for (h, nil). *)
  Definition get (want : N) (n : nat) (evs : list event) (hash : N) : res hdr :=
    match first_header (perform want 1 n evs) with
    | Ok h => if h_id h =? hash then Ok h else Err EHash
    | x => x
    end.

  (** Exchange.GetByHeight: the returned header's height is NOT compared with
      the requested one *)
  Definition get_by_height (want : N) (n : nat) (evs : list event) (height : N) : res hdr :=
    if height =? 0 then Err EHeightZero
    else first_header (perform want 1 n evs).

End Request.

Arguments Frame {B} f_status f_body.
Arguments f_status {B} f.
Arguments f_body {B} f.
Arguments SFail {B}.
Arguments SData {B} fs e.
Arguments Arrive {B} s.
Arguments CtxDone {B}.
Arguments ExStopped {B}.

(** the requests the two calls put on the wire *)
Definition get_req (hash : N) : req := ReqHash hash 1.
Definition get_by_height_req (height : N) : req := ReqOrigin height 1.
