(** Model of p2p/subscriber.go: extractHeader(), verifyMessage() (the gossipsub
    topic validator registered by Subscriber.Start), Broadcast() (which hands the
    header to the validator through msg.ValidatorData), and of
    p2p/subscription.go: NextHeader().

    Everything the code calls into is an input:
      - the header type's codec        -> [decode] outcome of msg.Data,
      - the header type's Validate     -> [val : hdr -> valres],
      - the verifier given to SetVerifier -> [ver : hdr -> verres]
        (an error is its wrap chain, which is all errors.As looks at),
      - which branch of the select on (verifierSema, ctx.Done()) fires -> [waitres].
    Go panics are explicit outcomes; the deferred recover() is [recover_]. *)
From GH Require Import Base.Prelude.

(** header.New[H]().UnmarshalBinary(msg.Data) *)
Inductive decode := DecOk (h : hdr) | DecErr | DecPanic.

(** msg.ValidatorData: nil (every message from the wire), a value of type H
    (set by Broadcast / by verifyMessage on accept), or a value of another type *)
Inductive vdata := VdNone | VdHdr (h : hdr) | VdOther.

Record message := Msg { m_vdata : vdata; m_decode : decode }.

(** hdr.Validate() *)
Inductive valres := ValNil | ValErr | ValPanic.

(** the verifier's result. An error is abstracted to its Unwrap chain, outermost
    first: [Some soft] = a *header.VerifyError with that SoftFailure flag,
    [None] = any other error value. *)
Inductive verres := VerNil | VerErr (chain : list (option bool)) | VerPanic.

(** select { case <-s.verifierSema: ... case <-ctx.Done(): ... } *)
Inductive waitres := WaitSet | WaitCtxDone.

(** pubsub.ValidationResult, plus the panic that escapes when nothing recovers it *)
Inductive outcome := SAccept (h : hdr) | SIgnore | SReject | SPanic.

(** errors.As(err, &verErr): the first *VerifyError of the chain *)
Fixpoint first_verr (chain : list (option bool)) : option bool :=
  match chain with
  | [] => None
  | Some soft :: _ => Some soft
  | None :: r => first_verr r
  end.

(** errors.As(err, &verErr) && verErr.SoftFailure *)
Definition is_soft (chain : list (option bool)) : bool :=
  match first_verr chain with Some true => true | _ => false end.

Inductive xres := XOk (h : hdr) | XErr | XPanic.

(** extractHeader(): ValidatorData (type-asserted, panics on another type) or
    UnmarshalBinary; then Validate — in this order *)
Definition extract_header (val : hdr -> valres) (m : message) : xres :=
  let got :=
    match m_vdata m with
    | VdHdr h => XOk h
    | VdOther => XPanic
    | VdNone =>
      match m_decode m with
      | DecOk h => XOk h
      | DecErr => XErr
      | DecPanic => XPanic
      end
    end in
  match got with
  | XOk h =>
    match val h with
    | ValNil => XOk h
    | ValErr => XErr
    | ValPanic => XPanic
    end
  | r => r
  end.

(** what one run of the validator does: its result, msg.ValidatorData afterwards,
    and the header the verifier was called with (None = not called) *)
Record vm_result := VmR { r_out : outcome; r_vdata : vdata; r_vcall : option hdr }.

(** the body of verifyMessage(), before the deferred recover *)
Definition verify_body (val : hdr -> valres) (ver : hdr -> verres) (w : waitres) (m : message)
  : vm_result :=
  match extract_header val m with
  | XPanic => VmR SPanic (m_vdata m) None
  | XErr => VmR SReject (m_vdata m) None
  | XOk h =>
    match w with
    | WaitCtxDone => VmR SIgnore (m_vdata m) None
    | WaitSet =>
      match ver h with
      | VerPanic => VmR SPanic (m_vdata m) (Some h)
      | VerErr chain =>
        if is_soft chain then VmR SIgnore (m_vdata m) (Some h)
        else VmR SReject (m_vdata m) (Some h)
      | VerNil => VmR (SAccept h) (VdHdr h) (Some h)
      end
    end
  end.

(** defer func() { if recover() != nil { res = ValidationReject } }() *)
Definition recover_ (o : outcome) : outcome :=
  match o with SPanic => SReject | o => o end.

Definition verify_message (val : hdr -> valres) (ver : hdr -> verres) (w : waitres) (m : message)
  : vm_result :=
  let r := verify_body val ver w m in
  VmR (recover_ (r_out r)) (r_vdata r) (r_vcall r).

(** SetVerifier(): the first registration takes effect (it stores the verifier
    and closes verifierSema, releasing the waiting validators); every later one
    is refused with an error and changes nothing. [None] = nothing registered.
    The boolean is "returned nil". *)
Definition set_verifier {V : Type} (cur : option V) (v : V) : option V * bool :=
  match cur with
  | Some _ => (cur, false)
  | None => (Some v, true)
  end.

Fixpoint set_verifiers {V : Type} (cur : option V) (vs : list V) : option V * list bool :=
  match vs with
  | [] => (cur, [])
  | v :: r =>
    let '(c, ok) := set_verifier cur v in
    let '(c', oks) := set_verifiers c r in
    (c', ok :: oks)
  end.

(** the validator of a Subscriber on which SetVerifier was called with [vs], in
    this order, before the node's context ended *)
Definition validate_registered (val : hdr -> valres) (vs : list (hdr -> verres)) (m : message)
  : vm_result :=
  match fst (set_verifiers None vs) with
  | Some ver => verify_message val ver WaitSet m
  | None => verify_message val (fun _ => VerNil) WaitCtxDone m
  end.

(** subscription.NextHeader(): msg.ValidatorData.(H), panics on anything else *)
Inductive nhres := NhOk (h : hdr) | NhPanic.
Definition next_header (d : vdata) : nhres :=
  match d with VdHdr h => NhOk h | _ => NhPanic end.

(** What go-libp2p-pubsub does with the validator's result (its documented
    contract for ValidationAccept/Ignore/Reject; modelled, observed by the
    harness, not verified): deliver to the local Subscriptions and forward to
    the mesh on Accept only; penalise the forwarding peer on Reject only; a
    panic that escapes the validator goroutine kills the process. *)
Record effects := Eff {
  e_deliver : option nhres;   (* what a local Subscription's NextHeader yields *)
  e_relay : bool;             (* forwarded to other peers *)
  e_penalise : bool;          (* the peer the message came from is penalised *)
  e_crash : bool }.

Definition pubsub_effects (r : vm_result) : effects :=
  match r_out r with
  | SAccept _ => Eff (Some (next_header (r_vdata r))) true false false
  | SIgnore => Eff None false false false
  | SReject => Eff None false true false
  | SPanic => Eff None false false true
  end.

(** a gossip message arriving at a node running the Subscriber *)
Definition handle_message (val : hdr -> valres) (ver : hdr -> verres) (w : waitres) (m : message)
  : effects :=
  pubsub_effects (verify_message val ver w m).

(** ** several local Subscriptions (Subscriber.Subscribe called more than once)

    Every Subscribe() call gives its own pubsub.Subscription on the topic; Cancel() ends it.
    go-libp2p-pubsub hands an accepted message once to every subscription of the topic that
    is live when the message is accepted, and nothing to a cancelled one (its contract; modelled,
    observed by the harness). [deliveries]: what the NextHeader calls of each Subscription
    yield for one message. *)
Inductive substate := SubLive | SubCancelled.

Definition deliver_to (e : effects) (s : substate) : list nhres :=
  match s, e_deliver e with
  | SubLive, Some r => [r]
  | _, _ => []
  end.

Definition deliveries (e : effects) (subs : list substate) : list (list nhres) :=
  map (deliver_to e) subs.

(** a gossip message arriving at a node with the local Subscriptions [subs] *)
Definition handle_message_subs (val : hdr -> valres) (ver : hdr -> verres) (w : waitres) (m : message)
           (subs : list substate) : list (list nhres) :=
  deliveries (handle_message val ver w m) subs.
