(** Model of the session's peer queue: p2p/peer_stats.go (peerStats as container/heap,
    peerQueue.push / waitPop with the [havePeer] token channel) and the way p2p/session.go
    uses it (a peer is popped per request and pushed back on success / NOT_FOUND, never on
    other errors).  Definitions only; proofs are in Proofs/PeerQueueP.v.

    Scores.  The float32 arithmetic of updateStats / decreaseScore is NOT modelled: a score
    is a value of an ordered type, here [Z] (the driver embeds the float32 values it sees
    into Z by an order-preserving map; NaN never occurs there).  The new score of a peer is
    an input wherever the code recomputes it.

    Indices are [nat]; Go's [int] overflow guard in container/heap.down ([j1 < 0]) is not
    reachable for slices that fit in memory and is not modelled. *)
From Coq Require Import List ZArith NArith Bool Arith Permutation.
From GH Require Import Base.Prelude.
Import ListNotations.

(** * 1. container/heap over peerStats *)

(** one *peerStat as the heap sees it: peer id and current score *)
Definition entry := (N * Z)%type.
Definition e_id (e : entry) : N := fst e.
Definition sc (e : entry) : Z := snd e.
Definition dflt : entry := (0%N, 0%Z).

(** ps[i] *)
Definition at_ (l : list entry) (i : nat) : entry := nth i l dflt.

(** peerStats.Less(i, j) = ps[i].score() > ps[j].score() *)
Definition less (l : list entry) (i j : nat) : bool := (sc (at_ l j) <? sc (at_ l i))%Z.

Fixpoint set_nth {A} (i : nat) (x : A) (l : list A) : list A :=
  match l, i with
  | [], _ => []
  | _ :: r, O => x :: r
  | a :: r, S i' => a :: set_nth i' x r
  end.

(** peerStats.Swap(i, j) *)
Definition swap (l : list entry) (i j : nat) : list entry :=
  set_nth j (at_ l i) (set_nth i (at_ l j) l).

(** container/heap.up(h, j):
<<
    for { i := (j - 1) / 2            // parent; Go: (-1)/2 = 0, nat: (0-1)/2 = 0
          if i == j || !h.Less(j, i) { break }
          h.Swap(i, j); j = i }
>>
    [fuel] bounds the iterations; [up] passes [S j], and [up_fuel_irrelevant] (Proofs) shows
    that any fuel above [j] gives the same result: the fuel never cuts the loop. *)
Fixpoint up_f (fuel : nat) (l : list entry) (j : nat) : list entry :=
  match fuel with
  | O => l
  | S f =>
    let i := ((j - 1) / 2)%nat in
    if (i =? j)%nat || negb (less l j i) then l
    else up_f f (swap l i j) i
  end.
Definition up (l : list entry) (j : nat) : list entry := up_f (S j) l j.

(** container/heap.down(h, i, n):
<<
    for { j1 := 2*i + 1
          if j1 >= n || j1 < 0 { break }
          j := j1
          if j2 := j1 + 1; j2 < n && h.Less(j2, j1) { j = j2 }
          if !h.Less(j, i) { break }
          h.Swap(i, j); i = j }
>>
    [down] passes fuel [n]; [down_fuel_irrelevant] shows any fuel >= n - i gives the same. *)
Fixpoint down_f (fuel : nat) (l : list entry) (i n : nat) : list entry :=
  match fuel with
  | O => l
  | S f =>
    let j1 := (2 * i + 1)%nat in
    if (n <=? j1)%nat then l
    else
      let j := if ((j1 + 1 <? n)%nat && less l (j1 + 1) j1) then (j1 + 1)%nat else j1 in
      if negb (less l j i) then l
      else down_f f (swap l i j) j n
  end.
Definition down (l : list entry) (i n : nat) : list entry := down_f n l i n.

(** heap.Push(h, x) = h.Push(x) (append); up(h, h.Len()-1) *)
Definition heap_push (l : list entry) (x : entry) : list entry :=
  up (l ++ [x]) (length l).

(** heap.Pop(h) = n := h.Len()-1; h.Swap(0, n); down(h, 0, n); h.Pop() (remove and return the
    last).  On an empty heap n = -1 and Swap(0, -1) indexes out of range: the goroutine
    panics ([None]). *)
Definition heap_pop (l : list entry) : option (entry * list entry) :=
  match l with
  | [] => None
  | _ =>
    let n := (length l - 1)%nat in
    let l2 := down (swap l 0 n) 0 n in
    Some (last l2 dflt, removelast l2)
  end.

(** the heap built by newPeerQueue: one push per initial stat, in order *)
Definition heap_of (init : list entry) : list entry := fold_left heap_push init [].

(** the heap invariant, by children: every element is at most its parent *)
Definition is_child (c p : nat) : Prop := c = (2 * p + 1)%nat \/ c = (2 * p + 2)%nat.
Definition heap_le (n : nat) (l : list entry) : Prop :=
  forall p c, (c < n)%nat -> is_child c p -> (sc (at_ l c) <= sc (at_ l p))%Z.
Definition heap_ok (l : list entry) : Prop := heap_le (length l) l.

(** decidable version (used by examples and the oracle) *)
Definition heap_okb (l : list entry) : bool :=
  forallb (fun c => (sc (at_ l c) <=? sc (at_ l ((c - 1) / 2)))%Z) (seq 1 (length l - 1)).

(** a score of a peer INSIDE the heap changes in place (peerStat pointers are shared by all
    sessions of an Exchange: peerTracker.peers() hands out the tracker's own pointers) *)
Definition set_score (p : N) (s : Z) (l : list entry) : list entry :=
  map (fun e => if (e_id e =? p)%N then (p, s) else e) l.

(** * 2. peerQueue: heap + token channel, seen by one caller at a time *)

Inductive outcome :=
| Popped (e : entry)   (* waitPop returned this peer *)
| Blocks               (* the call does not return (waitPop: until a token or ctx end; push: until a slot) *)
| WouldPanic           (* heap.Pop on an empty heap *)
| Done.                (* push returned *)

(** [q_pend]: pushers that have done heap.Push and are blocked sending their token
    (push holds no lock there) *)
Record queue := Q { q_heap : list entry; q_tok : nat; q_cap : nat; q_pend : nat }.

(** newPeerQueue(ctx, stats): channel of capacity len(stats), then push each *)
Definition q_new (init : list entry) : queue :=
  Q (heap_of init) (length init) (length init) 0.

(** a blocked sender completes as soon as the channel has room *)
Definition settle1 (q : queue) : queue :=
  if (0 <? q_pend q)%nat && (q_tok q <? q_cap q)%nat
  then Q (q_heap q) (S (q_tok q)) (q_cap q) (q_pend q - 1) else q.
Definition settle (q : queue) : queue := Nat.iter (q_pend q) settle1 q.

(** push, first half: statsLk.Lock(); heap.Push; statsLk.Unlock() *)
Definition q_push_heap (q : queue) (e : entry) : queue :=
  Q (heap_push (q_heap q) e) (q_tok q) (q_cap q) (q_pend q).
(** push, second half: havePeer <- struct{}{} *)
Definition q_send (q : queue) : queue * outcome :=
  if (q_tok q <? q_cap q)%nat then (Q (q_heap q) (S (q_tok q)) (q_cap q) (q_pend q), Done)
  else (Q (q_heap q) (q_tok q) (q_cap q) (S (q_pend q)), Blocks).
Definition q_push (q : queue) (e : entry) : queue * outcome := q_send (q_push_heap q e).

(** waitPop, first half: <-havePeer (a buffered token, or - unbuffered channel of an empty
    session - a direct hand-over from a blocked sender) *)
Definition q_take (q : queue) : option queue :=
  if (0 <? q_tok q)%nat then Some (settle (Q (q_heap q) (q_tok q - 1) (q_cap q) (q_pend q)))
  else if (0 <? q_pend q)%nat then Some (Q (q_heap q) (q_tok q) (q_cap q) (q_pend q - 1))
  else None.
(** waitPop, second half: statsLk.Lock(); heap.Pop *)
Definition q_pop_locked (q : queue) : queue * outcome :=
  match heap_pop (q_heap q) with
  | None => (q, WouldPanic)
  | Some (e, h) => (Q h (q_tok q) (q_cap q) (q_pend q), Popped e)
  end.
Definition q_waitpop (q : queue) : queue * outcome :=
  match q_take q with
  | None => (q, Blocks)
  | Some q1 => q_pop_locked q1
  end.
Definition q_env (q : queue) (p : N) (s : Z) : queue :=
  Q (set_score p s (q_heap q)) (q_tok q) (q_cap q) (q_pend q).

(** * 3. k goroutines of one session, small steps

    A thread is one request slot of the session (handleOutgoingRequests popping for a
    request and the doRequest goroutine it starts).  waitPop is TWO atomic steps (take the
    token; lock + heap.Pop), push is TWO (lock + heap.Push + unlock; send the token). *)
Inductive pc :=
| Idle                (* holds nothing; may call waitPop *)
| HasToken            (* in waitPop: token taken, heap.Pop not yet done *)
| Holding (p : N)     (* doRequest runs with this peer; the peer is outside the heap *)
| Pushed.             (* in push: heap.Push done, token not yet sent *)

Record cstate := CS {
  c_heap : list entry; c_tok : nat; c_cap : nat;
  c_pcs : list pc;
  c_dropped : list N;     (* peers not returned to the queue (an error other than NOT_FOUND) *)
  c_panic : bool }.

(** a schedule is a list of these: thread [t] makes its next atomic step; [ch] is consulted
    only when the thread holds a peer: [None] = the request failed with another error, the
    peer is not pushed back; [Some s] = push it back, its score now being [s] (any value:
    updateStats / decreaseScore ran while it was out).  [Env p s]: another session changes
    the score of peer [p] through the shared pointer. *)
Inductive sev := Thr (t : nat) (ch : option Z) | Env (p : N) (s : Z).

Definition set_pc (t : nat) (x : pc) (s : cstate) : cstate :=
  CS (c_heap s) (c_tok s) (c_cap s) (set_nth t x (c_pcs s)) (c_dropped s) (c_panic s).

Definition cstep (s : cstate) (e : sev) : cstate :=
  match e with
  | Env p v => CS (set_score p v (c_heap s)) (c_tok s) (c_cap s) (c_pcs s) (c_dropped s) (c_panic s)
  | Thr t ch =>
    match nth_error (c_pcs s) t with
    | None => s
    | Some Idle =>
      if (0 <? c_tok s)%nat
      then CS (c_heap s) (c_tok s - 1) (c_cap s) (set_nth t HasToken (c_pcs s)) (c_dropped s) (c_panic s)
      else s                                             (* blocked in the select *)
    | Some HasToken =>
      match heap_pop (c_heap s) with
      | None => CS (c_heap s) (c_tok s) (c_cap s) (c_pcs s) (c_dropped s) true
      | Some (e, h) => CS h (c_tok s) (c_cap s) (set_nth t (Holding (e_id e)) (c_pcs s)) (c_dropped s) (c_panic s)
      end
    | Some (Holding p) =>
      match ch with
      | None => CS (c_heap s) (c_tok s) (c_cap s) (set_nth t Idle (c_pcs s)) (p :: c_dropped s) (c_panic s)
      | Some v => CS (heap_push (c_heap s) (p, v)) (c_tok s) (c_cap s) (set_nth t Pushed (c_pcs s)) (c_dropped s) (c_panic s)
      end
    | Some Pushed =>
      if (c_tok s <? c_cap s)%nat
      then CS (c_heap s) (S (c_tok s)) (c_cap s) (set_nth t Idle (c_pcs s)) (c_dropped s) (c_panic s)
      else s                                             (* blocked on the channel send *)
    end
  end.

Definition crun (s : cstate) (sch : list sev) : cstate := fold_left cstep sch s.

(** newSession: the queue of the tracker's peers, [k] request slots *)
Definition c_init (init : list entry) (k : nat) : cstate :=
  CS (heap_of init) (length init) (length init) (repeat Idle k) [] false.

Definition is_env (e : sev) : bool := match e with Env _ _ => true | _ => false end.
Definition no_env (sch : list sev) : Prop := forallb (fun e => negb (is_env e)) sch = true.

Definition cnt (f : pc -> bool) (l : list pc) : nat := length (filter f l).
Definition is_hastoken (x : pc) := match x with HasToken => true | _ => false end.
Definition is_pushed (x : pc) := match x with Pushed => true | _ => false end.
Definition is_holding (x : pc) := match x with Holding _ => true | _ => false end.
Definition held_of (x : pc) : list N := match x with Holding p => [p] | _ => [] end.
Definition held (l : list pc) : list N := flat_map held_of l.

(** every peer of the session: in the heap, with a running request, or dropped *)
Definition all_peers (s : cstate) : list N := map e_id (c_heap s) ++ held (c_pcs s) ++ c_dropped s.

(** every sequence of heap operations (Pop on an empty heap panics; here: no change) *)
Inductive hop := HPush (e : entry) | HPop.
Definition hstep (l : list entry) (o : hop) : list entry :=
  match o with
  | HPush e => heap_push l e
  | HPop => match heap_pop l with Some (_, h) => h | None => l end
  end.
Definition hrun (l : list entry) (ops : list hop) : list entry := fold_left hstep ops l.

(** the inductive invariant of the k-goroutine semantics.  [ids] = the peers the session
    started with.
    - tokens in the channel + threads between token and Pop + threads between heap.Push and
      the token send = heap size;
    - heap, running requests and dropped peers together are exactly the initial peers;
    - the channel's capacity is their number; nothing has panicked. *)
Definition cinv (ids : list N) (s : cstate) : Prop :=
  (c_tok s + cnt is_hastoken (c_pcs s) + cnt is_pushed (c_pcs s) = length (c_heap s))%nat /\
  Permutation (all_peers s) ids /\
  c_cap s = length ids /\
  c_panic s = false.
